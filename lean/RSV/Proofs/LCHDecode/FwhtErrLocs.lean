import RSV.Proofs.LCHDecode.FwhtCast
import RSV.Proofs.LCHDecode.Iface
import RSV.Proofs.LCHBridge.Basic
/-!
# Leopard's error-locator table `errLocs` is the table of logarithms of `Λ` / `Λ'`

`errLocs = fwht (fwht e0 · walsh)`, `walsh = fwht log'`: by the convolution theorem of the Walsh–Hadamard transform
(`H_mul_H`) and `2^k ≡ 1 (mod 2^k - 1)`, `errLocs[i] ≡ ∑_{j ∈ E} log'(i ^^^ j)`, hence
`g ^ errLocs[i] = ∏_{j ∈ E, j ≠ i} (φ i + φ j)`: `errLocs_ok`.
-/
namespace RSV.LCHDecode
open RSV.Model RSV.Model.Leo RSV.LCHBridge RSV.Proofs.Leo16 Finset

/-! ## arrays -/

theorem ofFn_get {n : ℕ} (f : Fin n → ℕ) (j : ℕ) (hj : j < n) : (Array.ofFn f)[j]! = f ⟨j, hj⟩ := by
  simp [hj]

theorem ofFn_get_ge {n : ℕ} (f : Fin n → ℕ) (j : ℕ) (hj : n ≤ j) : (Array.ofFn f)[j]! = 0 := by
  simp [hj]

theorem foldl_seti (h : ℕ → ℕ) (b0 : Array ℕ) : ∀ n, n ≤ b0.size →
    ((List.range' 0 n).foldl (fun b a => b.set! a (h a)) b0).size = b0.size ∧
    ∀ i, ((List.range' 0 n).foldl (fun b a => b.set! a (h a)) b0)[i]! = if i < n then h i else b0[i]! := by
  intro n
  induction n with
  | zero => exact fun _ => ⟨rfl, fun i => by simp⟩
  | succ n ih =>
    intro hn
    obtain ⟨hs, hg⟩ := ih (by omega)
    rw [List.range'_1_concat, List.foldl_append]
    simp only [List.foldl_cons, List.foldl_nil, Nat.zero_add]
    refine ⟨by simpa using hs, fun i => ?_⟩
    by_cases hin : n = i
    · subst hin
      rw [get_set_eq _ _ (by omega), if_pos (by omega)]
    · rw [get_set_ne _ _ hin, hg]
      by_cases h1 : i < n
      · rw [if_pos h1, if_pos (by omega)]
      · rw [if_neg h1, if_neg (by omega)]

/-! ## the `walsh` table -/

/-- the table `log'` the transform is applied to: `log` with entry `0` cleared -/
def walsh0 (P : Params) (T : LUTs) : Array ℕ :=
  ((List.range' 0 P.order).foldl (fun b a => b.set! a T.log[a]!) (Array.replicate P.order 0)).set! 0 0

theorem initFFTSkew_walsh_eq (P : Params) (T : LUTs) :
    (initFFTSkew P T).walsh = fwht P (walsh0 P T) P.order := by
  unfold initFFTSkew
  simp only [Std.Legacy.Range.forIn_eq_forIn_range', Std.Legacy.Range.size,
    List.forIn_pure_yield_eq_foldl, bind_pure_comp, map_pure, Id.run_pure, Nat.sub_zero,
    Nat.add_one_sub_one, Nat.div_one]
  rfl

theorem walsh0_spec (P : Params) (T : LUTs) :
    (walsh0 P T).size = P.order ∧
    ∀ j, (walsh0 P T)[j]! = if j = 0 then 0 else if j < P.order then T.log[j]! else 0 := by
  obtain ⟨hs, hg⟩ := foldl_seti (fun a => T.log[a]!) (Array.replicate P.order 0) P.order (by simp)
  have hpos : 0 < P.order := by unfold Params.order; rw [Nat.one_shiftLeft]; exact Nat.two_pow_pos _
  unfold walsh0
  refine ⟨by simpa using hs, fun j => ?_⟩
  by_cases hj : j = 0
  · subst hj
    rw [if_pos rfl, get_set_eq _ _ (by rw [hs]; simpa using hpos)]
  · rw [if_neg hj, get_set_ne _ _ (Ne.symm hj), hg]
    by_cases h1 : j < P.order
    · rw [if_pos h1, if_pos h1]
    · rw [if_neg h1, if_neg h1]; simp [h1]

/-! ## the erasure indicator -/

/-- the indicator `e0` of `errLocs`, as a function -/
def e0fn (d p m : ℕ) (missing : ℕ → Bool) (i : ℕ) : ℕ :=
  if i < p then (if missing (d + i) then 1 else 0)
  else if i < m then 1
  else if i < m + d then (if missing (i - m) then 1 else 0)
  else 0

/-- the erased positions of the decoder layout: missing parity `i < p` at `i`, the padding `p ≤ i < m`, missing data
`c < d` at `m + c` (`m = ceilPow2 p`) -/
def erasedSet (d p : ℕ) (missing : ℕ → Bool) : Finset ℕ :=
  (range p).filter (fun i => missing (d + i) = true) ∪ Ico p (ceilPow2 p) ∪
    ((range d).filter (fun c => missing c = true)).image (fun c => ceilPow2 p + c)

theorem mem_erasedSet {d p : ℕ} {missing : ℕ → Bool} {i : ℕ} :
    i ∈ erasedSet d p missing ↔ (i < p ∧ missing (d + i) = true) ∨ (p ≤ i ∧ i < ceilPow2 p) ∨
      ∃ c, c < d ∧ missing c = true ∧ ceilPow2 p + c = i := by
  unfold erasedSet
  simp only [mem_union, mem_filter, mem_range, mem_Ico, mem_image, or_assoc, and_assoc]

theorem e0fn_eq {d p : ℕ} {missing : ℕ → Bool} (hp : p ≤ ceilPow2 p) (i : ℕ) :
    e0fn d p (ceilPow2 p) missing i = if i ∈ erasedSet d p missing then 1 else 0 := by
  unfold e0fn
  by_cases h1 : i < p
  · rw [if_pos h1]
    by_cases hm : missing (d + i) = true
    · rw [if_pos hm, if_pos (mem_erasedSet.mpr (Or.inl ⟨h1, hm⟩))]
    · rw [if_neg hm, if_neg]
      rw [mem_erasedSet]
      rintro (⟨_, h⟩ | ⟨h, _⟩ | ⟨c, _, _, h⟩)
      · exact hm h
      · omega
      · omega
  · rw [if_neg h1]
    by_cases h2 : i < ceilPow2 p
    · rw [if_pos h2, if_pos (mem_erasedSet.mpr (Or.inr (Or.inl ⟨by omega, h2⟩)))]
    · rw [if_neg h2]
      by_cases h3 : i < ceilPow2 p + d
      · rw [if_pos h3]
        by_cases hm : missing (i - ceilPow2 p) = true
        · rw [if_pos hm, if_pos (mem_erasedSet.mpr (Or.inr (Or.inr ⟨i - ceilPow2 p, by omega, hm, by omega⟩)))]
        · rw [if_neg hm, if_neg]
          rw [mem_erasedSet]
          rintro (⟨h, _⟩ | ⟨_, h⟩ | ⟨c, _, hc, h⟩)
          · omega
          · omega
          · have : c = i - ceilPow2 p := by omega
            subst this
            exact hm hc
      · rw [if_neg h3, if_neg]
        rw [mem_erasedSet]
        rintro (⟨h, _⟩ | ⟨_, h⟩ | ⟨c, _, hc, h⟩) <;> omega

theorem erasedSet_lt {d p : ℕ} {missing : ℕ → Bool} (hp : p ≤ ceilPow2 p) {i : ℕ}
    (hi : i ∈ erasedSet d p missing) : i < ceilPow2 p + d := by
  rw [mem_erasedSet] at hi
  rcases hi with ⟨h, _⟩ | ⟨_, h⟩ | ⟨c, _, _, h⟩ <;> omega

/-! ## `ZMod (2^k - 1)` -/

theorem two_pow_cast (k : ℕ) : (2 : ZMod (2 ^ k - 1)) ^ k = 1 := by
  have h : ((2 ^ k - 1 + 1 : ℕ) : ZMod (2 ^ k - 1)) = 1 := by
    rw [Nat.cast_add, ZMod.natCast_self, zero_add, Nat.cast_one]
  rw [Nat.sub_add_cancel Nat.one_le_two_pow] at h
  rw [← h]; push_cast; rfl

theorem H_congr {R : Type*} [CommRing R] (k : ℕ) {f g : ℕ → R} (h : ∀ j, j < 2 ^ k → f j = g j) (x : ℕ) :
    H k f x = H k g x := by
  unfold H
  exact sum_congr rfl fun j hj => by rw [h j (mem_range.mp hj)]

variable {K : Type} [Field K] {C : Ctx}

/-- `g ^ x` depends on `x` modulo `2^k - 1` only -/
theorem pow_cast_congr (F : FieldCtx C K) {a b : ℕ}
    (h : ((a : ℕ) : ZMod (2 ^ F.k - 1)) = ((b : ℕ) : ZMod (2 ^ F.k - 1))) : F.g ^ a = F.g ^ b := by
  have hm : a % (2 ^ F.k - 1) = b % (2 ^ F.k - 1) := (ZMod.natCast_eq_natCast_iff a b _).mp h
  rw [pow_eq_pow_mod a F.g_pow_modulus, pow_eq_pow_mod b F.g_pow_modulus, hm]

/-! ## `errLocs` -/

/-- `e0` of `errLocs` -/
def e0A (C : Ctx) (d p : ℕ) (missing : ℕ → Bool) : Array ℕ :=
  Array.ofFn fun i : Fin C.P.order => e0fn d p (ceilPow2 p) missing i.val

/-- `e2` of `errLocs` -/
def e2A (C : Ctx) (e1 : Array ℕ) : Array ℕ :=
  Array.ofFn fun i : Fin C.P.order => (e1[i.val]! * C.S.walsh[i.val]!) % C.P.modulus

theorem errLocs_eq (C : Ctx) (d p : ℕ) (missing : ℕ → Bool) :
    errLocs C d p missing = fwht C.P (e2A C (fwht C.P (e0A C d p missing) (ceilPow2 p + d))) C.P.order := rfl

/-- **The error-locator table.**  For a context whose `walsh` table is the one `initFFTSkew` builds, a field reading
`F` with an even number of bits, and a decoder layout that fits (`ceilPow2 p + d ≤ 2^k`): `errLocs` holds at every
`i < 2^k` the logarithm of `∏_{j ∈ E, j ≠ i} (φ i + φ j)`, `E` the erased positions. -/
theorem errLocs_ok (F : FieldCtx C K) (hW : C.S.walsh = (initFFTSkew C.P C.T).walsh) (hev : F.k % 2 = 0)
    (d p : ℕ) (missing : ℕ → Bool) (hdp : ceilPow2 p + d ≤ 2 ^ F.k) (hp : p ≤ ceilPow2 p) :
    ElOK F (erasedSet d p missing) (errLocs C d p missing) := by
  have hord : C.P.order = 2 ^ F.k := order_eq F
  have hmod : C.P.modulus = 2 ^ F.k - 1 := modulus_eq F
  have hev' : F.k = 2 * (F.k / 2) := by omega
  have h2 : 2 ≤ 2 ^ F.k := by
    calc 2 = 2 ^ 1 := rfl
      _ ≤ 2 ^ F.k := Nat.pow_le_pow_right (by decide) F.hk
  -- `e0`
  have e0_get : ∀ j : ℕ, (e0A C d p missing)[j]! = if j ∈ erasedSet d p missing then 1 else 0 := by
    intro j
    by_cases hj : j < C.P.order
    · unfold e0A; rw [ofFn_get _ _ hj, e0fn_eq hp]
    · unfold e0A; rw [ofFn_get_ge _ _ (by omega), if_neg]
      intro hmem
      have := erasedSet_lt hp hmem
      omega
  obtain ⟨_, e1_le, e1_H⟩ := fwht_H C.P (F.k / 2) F.hbits hev' (e0A C d p missing) (ceilPow2 p + d)
    (by unfold e0A; rw [Array.size_ofFn, hord]) hdp
    (fun j hj => by
      rw [e0_get, if_neg]
      intro hmem
      have := erasedSet_lt hp hmem
      omega)
    (fun j => by rw [e0_get]; split <;> omega)
  -- `walsh`
  obtain ⟨w0s, w0g⟩ := walsh0_spec C.P C.T
  rw [hord] at w0s w0g
  have hwalsh : C.S.walsh = fwht C.P (walsh0 C.P C.T) (2 ^ F.k) := by
    rw [hW, initFFTSkew_walsh_eq, hord]
  obtain ⟨_, w_le, w_H⟩ := fwht_H C.P (F.k / 2) F.hbits hev' (walsh0 C.P C.T) (2 ^ F.k) w0s (Nat.le_refl _)
    (fun j hj => by rw [w0g, if_neg (by omega), if_neg (by omega)])
    (fun j => by
      rw [w0g]
      split
      · omega
      · split
        · rename_i h0 hlt
          have := F.log_lt j h0 hlt
          omega
        · omega)
  rw [← hwalsh] at w_le w_H
  -- `e2`
  have e2_get : ∀ j : ℕ, j < 2 ^ F.k →
      (e2A C (fwht C.P (e0A C d p missing) (ceilPow2 p + d)))[j]! =
        ((fwht C.P (e0A C d p missing) (ceilPow2 p + d))[j]! * C.S.walsh[j]!) % (2 ^ F.k - 1) := by
    intro j hj
    unfold e2A
    rw [ofFn_get _ _ (by omega), hmod]
  have e2_ge : ∀ j : ℕ, 2 ^ F.k ≤ j → (e2A C (fwht C.P (e0A C d p missing) (ceilPow2 p + d)))[j]! = 0 := by
    intro j hj
    unfold e2A
    rw [ofFn_get_ge _ _ (by omega)]
  obtain ⟨_, el_le, el_H⟩ := fwht_H C.P (F.k / 2) F.hbits hev'
    (e2A C (fwht C.P (e0A C d p missing) (ceilPow2 p + d))) (2 ^ F.k)
    (by unfold e2A; rw [Array.size_ofFn, hord]) (Nat.le_refl _) e2_ge
    (fun j => by
      by_cases hj : j < 2 ^ F.k
      · rw [e2_get j hj]
        exact Nat.le_of_lt (Nat.mod_lt _ (by omega))
      · rw [e2_ge j (by omega)]; omega)
  have hel : errLocs C d p missing =
      fwht C.P (e2A C (fwht C.P (e0A C d p missing) (ceilPow2 p + d))) (2 ^ F.k) := by
    rw [errLocs_eq, hord]
  rw [← hel] at el_le el_H
  -- assemble
  intro i hi
  refine ⟨by have := el_le i; omega, ?_⟩
  have hc : (((errLocs C d p missing)[i]! : ℕ) : ZMod (2 ^ F.k - 1)) =
      ((∑ j ∈ erasedSet d p missing, (walsh0 C.P C.T)[i ^^^ j]! : ℕ) : ZMod (2 ^ F.k - 1)) := by
    rw [el_H i hi, H_congr F.k (g := fun j =>
      H F.k (fun j : ℕ => (((e0A C d p missing)[j]! : ℕ) : ZMod (2 ^ F.k - 1))) j *
      H F.k (fun j : ℕ => (((walsh0 C.P C.T)[j]! : ℕ) : ZMod (2 ^ F.k - 1))) j)
      (fun j hj => by rw [e2_get j hj, ZMod.natCast_mod, Nat.cast_mul, e1_H j hj, w_H j hj]),
      H_mul_H _ _ _ _ hi, two_pow_cast, one_mul]
    unfold xconv
    rw [Nat.cast_sum]
    have hsub : erasedSet d p missing ⊆ range (2 ^ F.k) := fun j hj =>
      mem_range.mpr (lt_of_lt_of_le (erasedSet_lt hp hj) hdp)
    rw [← inter_eq_right.mpr hsub, ← sum_ite_mem]
    refine sum_congr rfl fun j _ => ?_
    beta_reduce
    rw [e0_get]
    split <;> simp
  have h1 : F.g ^ (walsh0 C.P C.T)[i ^^^ i]! = 1 := by rw [Nat.xor_self, w0g, if_pos rfl, pow_zero]
  rw [pow_cast_congr F hc, ← prod_pow_eq_pow_sum,
    ← prod_erase (erasedSet d p missing) (f := fun j => F.g ^ (walsh0 C.P C.T)[i ^^^ j]!) (a := i) h1]
  refine prod_congr rfl fun j hj => ?_
  obtain ⟨hne, hjE⟩ := mem_erase.mp hj
  have hjlt : j < 2 ^ F.k := lt_of_lt_of_le (erasedSet_lt hp hjE) hdp
  have hx0 : i ^^^ j ≠ 0 := fun h0 => hne (Nat.xor_eq_zero_iff.mp h0).symm
  have hxlt : i ^^^ j < 2 ^ F.k := Nat.xor_lt_two_pow hi hjlt
  rw [w0g, if_neg hx0, if_pos hxlt, F.log_spec _ hx0 hxlt, F.φ_xor _ _ hi hjlt]

end RSV.LCHDecode
