import RSV.Proofs.LCHDecode.FwhtErrLocs
import RSV.Proofs.LCHBridge.Instances
/-!
# The error-locator tables of Leopard's two contexts

`errLocs_ok8` / `errLocs_ok16`: for every decoder layout that fits the field (`ceilPow2 p + d ≤ 2^8` / `2^16`) and every
erasure pattern, `errLocs (mkCtx P8)` / `errLocs (mkCtx P16)` is the table of logarithms of
`∏_{j ∈ E, j ≠ i} (φ i + φ j)`.  No table is evaluated.
-/
namespace RSV.LCHDecode
open RSV.Model RSV.Model.Leo RSV.LCHBridge

theorem mkCtx_walsh (P : Params) :
    (mkCtx P).S.walsh = (initFFTSkew (mkCtx P).P (mkCtx P).T).walsh := rfl

/-- **GF(2^8)** -/
theorem errLocs_ok8 (d p : ℕ) (missing : ℕ → Bool) (hdp : ceilPow2 p + d ≤ 256) :
    ElOK F8 (erasedSet d p missing) (errLocs (mkCtx P8) d p missing) :=
  errLocs_ok F8 (mkCtx_walsh P8) (by decide) d p missing hdp
    (by rcases RSV.Proofs.LeoField.ceilPow2_spec p with h | h
        · exact h
        · rw [h] at hdp; omega)

/-- **GF(2^16)** -/
theorem errLocs_ok16 (d p : ℕ) (missing : ℕ → Bool) (hdp : ceilPow2 p + d ≤ 65536) :
    ElOK F16 (erasedSet d p missing) (errLocs (mkCtx P16) d p missing) :=
  errLocs_ok F16 (mkCtx_walsh P16) (by decide) d p missing hdp
    (by rcases RSV.Proofs.LeoField.ceilPow2_spec p with h | h
        · exact h
        · rw [h] at hdp; omega)

end RSV.LCHDecode

#print axioms RSV.LCHDecode.fwht_WN
#print axioms RSV.LCHDecode.H_mul_H
#print axioms RSV.LCHDecode.W_eq_H
#print axioms RSV.LCHDecode.fwht_H
#print axioms RSV.LCHDecode.errLocs_ok
#print axioms RSV.LCHDecode.errLocs_ok8
#print axioms RSV.LCHDecode.errLocs_ok16
