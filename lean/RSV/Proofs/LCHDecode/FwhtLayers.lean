import RSV.Proofs.LCHDecode.FwhtLoops
import Mathlib.Tactic.Ring
/-!
# One `fwht` pass = two radix-2 Walsh layers (in Leopard's `addMod`/`subMod` arithmetic)

* `wlN P b f`: the radix-2 layer at bit `b` on functions `ℕ → ℕ`; `WN P n` the first `n` layers;
* `wl2_block`: the radix-4 butterfly is `wlN (t+1) ∘ wlN t` on a block; `passArr_wl`: a pass with distance `2^t` over
  `Q` blocks is these two layers below `Q·4·2^t` and the identity above;
* the truncation is EXACT: a skipped block holds literal zeros, and a butterfly of literal zeros yields literal zeros
  (`addMod 0 0 = 0`, `subMod 0 0 = 0`): `wlN_zero`, `WN_zero` (after `n` layers the table vanishes from
  `rup mtrunc n` = `mtrunc` rounded up to a multiple of `2^n` on);
* `fwht_WN`: for `bits = 2h`, a table of `2^bits` entries that vanishes from `mtrunc ≤ 2^bits` on,
  `(fwht P data mtrunc)[x]! = WN P bits (data[·]!) x` for every `x`.
-/
namespace RSV.LCHDecode
open RSV.Model RSV.Proofs.Leo16

/-- radix-2 Walsh layer at bit `b`, in Leopard's arithmetic, on functions -/
def wlN (P : Leo.Params) (b : Nat) (f : Nat → Nat) (x : Nat) : Nat :=
  if x.testBit b then Leo.subMod P (f (x - 2 ^ b)) (f x) else Leo.addMod P (f x) (f (x + 2 ^ b))

/-- the first `n` layers (bits `0, …, n-1`, in this order) -/
def WN (P : Leo.Params) : Nat → (Nat → Nat) → Nat → Nat
  | 0, f => f
  | n + 1, f => wlN P n (WN P n f)

theorem wlN_false (P : Leo.Params) {b x D : Nat} (f : Nat → Nat) (hD : 2 ^ b = D) (h : x.testBit b = false) :
    wlN P b f x = Leo.addMod P (f x) (f (x + D)) := by
  unfold wlN; rw [h, hD]; rfl

theorem wlN_true (P : Leo.Params) {b x D : Nat} (f : Nat → Nat) (hD : 2 ^ b = D) (h : x.testBit b = true) :
    wlN P b f x = Leo.subMod P (f (x - D)) (f x) := by
  unfold wlN; rw [h, hD]; rfl

/-- bits `t`, `t + 1` of `q·4·2^t + i + c·2^t` (`i < 2^t`) are the two bits of `c` -/
theorem tbits (t q i c : Nat) (hi : i < 2 ^ t) (hc : c < 4) :
    (q * (2 ^ t * 4) + i + 2 ^ t * c).testBit t = decide (c % 2 = 1) ∧
    (q * (2 ^ t * 4) + i + 2 ^ t * c).testBit (t + 1) = decide (2 ≤ c) := by
  have h : q * (2 ^ t * 4) + i + 2 ^ t * c = 2 ^ t * (4 * q + c) + i := by ring
  rw [h, Nat.testBit_two_pow_mul_add _ hi, Nat.testBit_two_pow_mul_add _ hi, if_neg (by omega),
    if_neg (by omega), Nat.sub_self, Nat.add_sub_cancel_left, Nat.testBit_succ, Nat.testBit_zero,
    Nat.testBit_zero]
  constructor
  · congr 1; apply propext; omega
  · congr 1; apply propext; omega

/-- the radix-4 butterfly is the composition of the layers at bits `t` and `t + 1` -/
theorem wl2_block (P : Leo.Params) (t q i : Nat) (hi : i < 2 ^ t) (f : Nat → Nat) :
    wlN P (t + 1) (wlN P t f) (q * (2 ^ t * 4) + i) =
      bf0 P (f (q * (2 ^ t * 4) + i)) (f (q * (2 ^ t * 4) + i + 2 ^ t)) (f (q * (2 ^ t * 4) + i + 2 ^ t * 2))
        (f (q * (2 ^ t * 4) + i + 2 ^ t * 3)) ∧
    wlN P (t + 1) (wlN P t f) (q * (2 ^ t * 4) + i + 2 ^ t) =
      bf1 P (f (q * (2 ^ t * 4) + i)) (f (q * (2 ^ t * 4) + i + 2 ^ t)) (f (q * (2 ^ t * 4) + i + 2 ^ t * 2))
        (f (q * (2 ^ t * 4) + i + 2 ^ t * 3)) ∧
    wlN P (t + 1) (wlN P t f) (q * (2 ^ t * 4) + i + 2 ^ t * 2) =
      bf2 P (f (q * (2 ^ t * 4) + i)) (f (q * (2 ^ t * 4) + i + 2 ^ t)) (f (q * (2 ^ t * 4) + i + 2 ^ t * 2))
        (f (q * (2 ^ t * 4) + i + 2 ^ t * 3)) ∧
    wlN P (t + 1) (wlN P t f) (q * (2 ^ t * 4) + i + 2 ^ t * 3) =
      bf3 P (f (q * (2 ^ t * 4) + i)) (f (q * (2 ^ t * 4) + i + 2 ^ t)) (f (q * (2 ^ t * 4) + i + 2 ^ t * 2))
        (f (q * (2 ^ t * 4) + i + 2 ^ t * 3)) := by
  obtain ⟨a0, b0⟩ := tbits t q i 0 hi (by omega)
  obtain ⟨a1, b1⟩ := tbits t q i 1 hi (by omega)
  obtain ⟨a2, b2⟩ := tbits t q i 2 hi (by omega)
  obtain ⟨a3, b3⟩ := tbits t q i 3 hi (by omega)
  have hp : 2 ^ (t + 1) = 2 ^ t * 2 := Nat.pow_succ ..
  rw [Nat.mul_zero, Nat.add_zero] at a0 b0
  rw [Nat.mul_one] at a1 b1
  generalize hr : q * (2 ^ t * 4) + i = r at *
  generalize hD : 2 ^ t = D at *
  simp only [Nat.reduceMod, Nat.zero_ne_one, decide_false, decide_true, Nat.reduceLeDiff,
    Nat.one_mod, Nat.not_ofNat_le_one, Nat.le_refl] at a0 b0 a1 b1 a2 b2 a3 b3
  have e1 : r + D - D = r := Nat.add_sub_cancel ..
  have e2 : r + D * 2 + D = r + D * 3 := by omega
  have e3 : r + D * 3 - D = r + D * 2 := by omega
  have e4 : r + D * 2 - D * 2 = r := Nat.add_sub_cancel ..
  have e5 : r + D + D * 2 = r + D * 3 := by omega
  have e6 : r + D * 3 - D * 2 = r + D := by omega
  refine ⟨?_, ?_, ?_, ?_⟩
  · rw [wlN_false P _ hp b0, wlN_false P _ hD a0, wlN_false P _ hD a2, e2]; rfl
  · rw [wlN_false P _ hp b1, wlN_true P _ hD a1, e5, wlN_true P _ hD a3, e1, e3]; rfl
  · rw [wlN_true P _ hp b2, e4, wlN_false P _ hD a0, wlN_false P _ hD a2, e2]; rfl
  · rw [wlN_true P _ hp b3, e6, wlN_true P _ hD a1, wlN_true P _ hD a3, e1, e3]; rfl

theorem decomp4 (D : Nat) (hD : 0 < D) (x : Nat) :
    ∃ q c i, c < 4 ∧ i < D ∧ x = q * (D * 4) + i + D * c := by
  refine ⟨x / (D * 4), x % (D * 4) / D, x % (D * 4) % D, ?_, Nat.mod_lt _ hD, ?_⟩
  · exact Nat.div_lt_of_lt_mul (Nat.mod_lt _ (by omega))
  · have h1 := Nat.div_add_mod x (D * 4)
    have h2 := Nat.div_add_mod (x % (D * 4)) D
    rw [Nat.mul_comm] at h1
    omega

/-- a pass with distance `2^t` over the first `Q` blocks: two layers below `Q·4·2^t`, identity above -/
theorem passArr_wl (P : Leo.Params) (t Q : Nat) (b : Array Nat) (hsz : Q * (2 ^ t * 4) ≤ b.size) (x : Nat) :
    (passArr P (2 ^ t) (2 ^ t * 4) Q b)[x]! =
      if x < Q * (2 ^ t * 4) then wlN P (t + 1) (wlN P t (fun j => b[j]!)) x else b[x]! := by
  obtain ⟨_, p1, p2⟩ := passArr_spec P (2 ^ t) b (Nat.two_pow_pos t) Q hsz
  by_cases hx : x < Q * (2 ^ t * 4)
  · rw [if_pos hx]
    obtain ⟨q, c, i, hc, hi, rfl⟩ := decomp4 (2 ^ t) (Nat.two_pow_pos t) x
    have hq : q < Q := by
      have : q * (2 ^ t * 4) < Q * (2 ^ t * 4) := by omega
      exact Nat.lt_of_mul_lt_mul_right this
    obtain ⟨w0, w1, w2, w3⟩ := wl2_block P t q i hi (fun j => b[j]!)
    obtain ⟨s0, s1, s2, s3⟩ := p1 q i hq hi
    have hc' : c = 0 ∨ c = 1 ∨ c = 2 ∨ c = 3 := by omega
    rcases hc' with rfl | rfl | rfl | rfl
    · rw [Nat.mul_zero, Nat.add_zero, w0, s0]
    · rw [Nat.mul_one, w1, s1]
    · rw [w2, s2]
    · rw [w3, s3]
  · rw [if_neg hx]
    exact p2 x (by omega)

/-! ## zeros stay zeros -/

theorem addMod_zero (P : Leo.Params) : Leo.addMod P 0 0 = 0 := by
  unfold Leo.addMod; simp

theorem subMod_zero (P : Leo.Params) : Leo.subMod P 0 0 = 0 := by
  unfold Leo.subMod; simp

theorem wlN_zero (P : Leo.Params) (b Z : Nat) (hZ : 2 ^ (b + 1) ∣ Z) (f : Nat → Nat)
    (hf : ∀ x, Z ≤ x → f x = 0) : ∀ x, Z ≤ x → wlN P b f x = 0 := by
  intro x hx
  unfold wlN
  split
  · rename_i hb
    have hle : Z ≤ x - 2 ^ b := by
      obtain ⟨z, rfl⟩ := hZ
      rw [Nat.testBit_eq_decide_div_mod_eq, decide_eq_true_eq] at hb
      have hpos := Nat.two_pow_pos b
      have h1 : 2 * z ≤ x / 2 ^ b := by
        rw [Nat.le_div_iff_mul_le hpos]
        rw [Nat.pow_succ] at hx
        calc 2 * z * 2 ^ b = 2 ^ b * 2 * z := by ring
          _ ≤ x := hx
      have h2 : 2 * z + 1 ≤ x / 2 ^ b := by omega
      have h3 := Nat.mul_le_mul_left (2 ^ b) h2
      have h4 := Nat.mul_div_le x (2 ^ b)
      rw [Nat.pow_succ]
      have : 2 ^ b * (2 * z + 1) = 2 ^ b * 2 * z + 2 ^ b := by ring
      omega
    rw [hf _ hle, hf _ hx, subMod_zero]
  · rw [hf _ hx, hf _ (by omega), addMod_zero]

/-- `m` rounded up to a multiple of `2^n` -/
def rup (m n : Nat) : Nat := (m + 2 ^ n - 1) / 2 ^ n * 2 ^ n

theorem le_rup (m n : Nat) : m ≤ rup m n := by
  unfold rup
  have hpos := Nat.two_pow_pos n
  have h1 := Nat.div_add_mod (m + 2 ^ n - 1) (2 ^ n)
  have h2 := Nat.mod_lt (m + 2 ^ n - 1) hpos
  rw [Nat.mul_comm] at h1
  omega

theorem rup_dvd (m n : Nat) : 2 ^ n ∣ rup m n := ⟨_, Nat.mul_comm _ _⟩

theorem rup_least (m n y : Nat) (hy : 2 ^ n ∣ y) (hm : m ≤ y) : rup m n ≤ y := by
  obtain ⟨c, rfl⟩ := hy
  unfold rup
  have hpos := Nat.two_pow_pos n
  rw [Nat.mul_comm (2 ^ n) c]
  apply Nat.mul_le_mul_right
  rw [Nat.div_le_iff_le_mul_add_pred hpos]
  omega

theorem rup_mono (m : Nat) {n n' : Nat} (h : n ≤ n') : rup m n ≤ rup m n' :=
  rup_least m n _ (Nat.dvd_trans (Nat.pow_dvd_pow 2 h) (rup_dvd m n')) (le_rup m n')

theorem WN_zero (P : Leo.Params) (m : Nat) (f : Nat → Nat) (hf : ∀ x, m ≤ x → f x = 0) :
    ∀ n x, rup m n ≤ x → WN P n f x = 0 := by
  intro n
  induction n with
  | zero => exact fun x hx => hf x (Nat.le_trans (le_rup m 0) hx)
  | succ n ih =>
    exact wlN_zero P n (rup m (n + 1)) (rup_dvd m (n + 1)) (WN P n f)
      (fun x hx => ih x (Nat.le_trans (rup_mono m (Nat.le_succ n)) hx))

/-! ## all passes -/

/-- the state after `n` rounds -/
def frounds (P : Leo.Params) (mtrunc : Nat) (data : Array Nat) (n : Nat) : Array Nat × Nat × Nat :=
  (List.range' 0 n).foldl (fun s _ => fround P mtrunc s) (data, 1, 4)

theorem frounds_succ (P : Leo.Params) (mtrunc : Nat) (data : Array Nat) (n : Nat) :
    frounds P mtrunc data (n + 1) = fround P mtrunc (frounds P mtrunc data n) := by
  unfold frounds
  rw [List.range'_1_concat, List.foldl_append]
  simp only [List.foldl_cons, List.foldl_nil]

theorem frounds_spec (P : Leo.Params) (h : Nat) (hbits : P.bits = 2 * h) (data : Array Nat) (mtrunc : Nat)
    (hsz : data.size = 2 ^ P.bits) (hm : mtrunc ≤ 2 ^ P.bits) (hz : ∀ j, mtrunc ≤ j → data[j]! = 0) :
    ∀ n, n ≤ h → ∃ A : Array Nat, frounds P mtrunc data n = (A, 2 ^ (2 * n), 2 ^ (2 * n) * 4) ∧
      A.size = 2 ^ P.bits ∧ ∀ x, A[x]! = WN P (2 * n) (fun j => data[j]!) x := by
  intro n
  induction n with
  | zero => exact fun _ => ⟨data, rfl, hsz, fun x => rfl⟩
  | succ n ih =>
    intro hn
    obtain ⟨A, hA, hAs, hAx⟩ := ih (by omega)
    have h4 : 2 ^ (2 * n) * 4 = 2 ^ (2 * n + 2) := by rw [Nat.pow_add]
    have hdvd : 2 ^ (2 * n + 2) ∣ 2 ^ P.bits := Nat.pow_dvd_pow 2 (by omega)
    have hord : 2 ^ (2 * n) * 4 ≤ P.order := by
      unfold Leo.Params.order
      rw [Nat.one_shiftLeft, h4]
      exact Nat.le_of_dvd (Nat.two_pow_pos _) hdvd
    have hQ : (mtrunc + 2 ^ (2 * n) * 4 - 1) / (2 ^ (2 * n) * 4) * (2 ^ (2 * n) * 4) = rup mtrunc (2 * n + 2) := by
      rw [h4]; rfl
    have hfun : (fun j => A[j]!) = WN P (2 * n) (fun j => data[j]!) := funext hAx
    refine ⟨passArr P (2 ^ (2 * n)) (2 ^ (2 * n) * 4) ((mtrunc + 2 ^ (2 * n) * 4 - 1) / (2 ^ (2 * n) * 4)) A,
      ?_, ?_, fun x => ?_⟩
    · rw [frounds_succ, hA]
      unfold fround
      simp only
      rw [if_pos hord, Nat.shiftLeft_eq, show 2 * (n + 1) = 2 * n + 2 by omega, ← h4]
    · rw [(passArr_spec P (2 ^ (2 * n)) A (Nat.two_pow_pos _) _ (by
        rw [hQ, hAs]; exact rup_least _ _ _ hdvd hm)).1, hAs]
    · rw [passArr_wl P (2 * n) _ A (by rw [hQ, hAs]; exact rup_least _ _ _ hdvd hm), hQ, hfun]
      show _ = WN P (2 * n + 1 + 1) (fun j => data[j]!) x
      split
      · rfl
      · rename_i hx
        rw [hAx, WN_zero P mtrunc _ hz _ x (Nat.le_trans (rup_mono mtrunc (by omega)) (Nat.le_of_not_lt hx)),
          WN_zero P mtrunc _ hz _ x (Nat.le_of_not_lt hx)]

/-- **`fwht` is the composition of the `bits` radix-2 Walsh layers** (in `addMod`/`subMod` arithmetic), for even
`bits`, a table of `2^bits` entries vanishing from `mtrunc` on: the truncation is exact. -/
theorem fwht_WN (P : Leo.Params) (h : Nat) (hbits : P.bits = 2 * h) (data : Array Nat) (mtrunc : Nat)
    (hsz : data.size = 2 ^ P.bits) (hm : mtrunc ≤ 2 ^ P.bits) (hz : ∀ j, mtrunc ≤ j → data[j]! = 0) :
    (Leo.fwht P data mtrunc).size = 2 ^ P.bits ∧
    ∀ x, (Leo.fwht P data mtrunc)[x]! = WN P P.bits (fun j => data[j]!) x := by
  obtain ⟨A, hA, hAs, hAx⟩ := frounds_spec P h hbits data mtrunc hsz hm hz h (Nat.le_refl h)
  have : Leo.fwht P data mtrunc = A := by
    rw [fwht_eq, show P.bits / 2 = h by omega]
    show (frounds P mtrunc data h).1 = A
    rw [hA]
  rw [this, hbits]
  exact ⟨by rw [hAs, hbits], hAx⟩

end RSV.LCHDecode
