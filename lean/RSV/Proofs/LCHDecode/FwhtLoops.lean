import RSV.Model.LeoTables
import RSV.Proofs.Leo16.Loops
/-!
# `Leo.fwht` as folds, and the in-place radix-4 pass (structural; nothing is evaluated)

* `fwht_eq`: the `Id.run do` block of `Leo.fwht P data mtrunc` is, literally, a fold of `fround` over the state
  `(data, dist, dist4)`; one round is `passArr` (blocks `q * dist4`, `q < ⌈mtrunc / dist4⌉`), one block is `blockArr`
  (`i < dist`), one butterfly is `bstep` (four reads, four `set!`s at `off, off + D, off + 2D, off + 3D`);
* `blockArr_spec`, `passArr_spec`: the butterflies of a pass touch pairwise disjoint quadruples, so a pass over `Q`
  blocks is a simultaneous update: at `q·4D + i + c·D` (`q < Q`, `i < D`) the output `bf_c` of the butterfly on the
  four old values, everything from `Q·4D` on untouched.
-/
namespace RSV.LCHDecode
open RSV.Model RSV.Proofs.Leo16

/-- the four outputs of the radix-4 butterfly -/
def bf0 (P : Leo.Params) (t0 t1 t2 t3 : Nat) : Nat := Leo.addMod P (Leo.addMod P t0 t1) (Leo.addMod P t2 t3)
def bf1 (P : Leo.Params) (t0 t1 t2 t3 : Nat) : Nat := Leo.addMod P (Leo.subMod P t0 t1) (Leo.subMod P t2 t3)
def bf2 (P : Leo.Params) (t0 t1 t2 t3 : Nat) : Nat := Leo.subMod P (Leo.addMod P t0 t1) (Leo.addMod P t2 t3)
def bf3 (P : Leo.Params) (t0 t1 t2 t3 : Nat) : Nat := Leo.subMod P (Leo.subMod P t0 t1) (Leo.subMod P t2 t3)

/-- one radix-4 butterfly, in place, at offsets `off, off + D, off + 2D, off + 3D` -/
def bstep (P : Leo.Params) (D : Nat) (b : Array Nat) (off : Nat) : Array Nat :=
  (((b.set! off (bf0 P b[off]! b[off + D]! b[off + D * 2]! b[off + D * 3]!)).set!
      (off + D) (bf1 P b[off]! b[off + D]! b[off + D * 2]! b[off + D * 3]!)).set!
      (off + D * 2) (bf2 P b[off]! b[off + D]! b[off + D * 2]! b[off + D * 3]!)).set!
      (off + D * 3) (bf3 P b[off]! b[off + D]! b[off + D * 2]! b[off + D * 3]!)

/-- the `i` loop of one block -/
def blockArr (P : Leo.Params) (D r n : Nat) (b : Array Nat) : Array Nat :=
  (List.range' 0 n).foldl (fun b i => bstep P D b (r + i)) b

/-- one pass: the blocks `q * D4`, `q < Q` -/
def passArr (P : Leo.Params) (D D4 Q : Nat) (b : Array Nat) : Array Nat :=
  (List.range' 0 Q).foldl (fun b q => blockArr P D (q * D4) D b) b

/-- one round of the outer loop on the state `(data, dist, dist4)` -/
def fround (P : Leo.Params) (mtrunc : Nat) (s : Array Nat × Nat × Nat) : Array Nat × Nat × Nat :=
  if s.2.2 ≤ P.order then
    (passArr P s.2.1 s.2.2 ((mtrunc + s.2.2 - 1) / s.2.2) s.1, s.2.2, s.2.2 <<< 2)
  else (s.1, s.2.1, s.2.2)

theorem ite_pure_yield {β : Type} (c : Prop) [Decidable c] (a b : β) :
    (if c then (pure (ForInStep.yield a) : Id (ForInStep β)) else pure (ForInStep.yield b)) =
      pure (ForInStep.yield (if c then a else b)) := by
  split <;> rfl

theorem fwht_eq (P : Leo.Params) (data : Array Nat) (mtrunc : Nat) :
    Leo.fwht P data mtrunc =
      ((List.range' 0 (P.bits / 2)).foldl (fun s _ => fround P mtrunc s) (data, 1, 4)).1 := by
  unfold Leo.fwht
  simp only [Std.Legacy.Range.forIn_eq_forIn_range', Std.Legacy.Range.size,
    List.forIn_pure_yield_eq_foldl, bind_pure_comp, map_pure, Nat.sub_zero,
    Nat.add_one_sub_one, Nat.div_one, ite_pure_yield]
  rfl

/-! ## one butterfly -/

theorem bstep_size (P : Leo.Params) (D : Nat) (b : Array Nat) (off : Nat) :
    (bstep P D b off).size = b.size := by
  unfold bstep; simp

theorem bstep_frame (P : Leo.Params) (D : Nat) (b : Array Nat) (off j : Nat)
    (h0 : j ≠ off) (h1 : j ≠ off + D) (h2 : j ≠ off + D * 2) (h3 : j ≠ off + D * 3) :
    (bstep P D b off)[j]! = b[j]! := by
  unfold bstep
  rw [get_set_ne _ _ (Ne.symm h3), get_set_ne _ _ (Ne.symm h2), get_set_ne _ _ (Ne.symm h1),
    get_set_ne _ _ (Ne.symm h0)]

theorem bstep_get (P : Leo.Params) (D : Nat) (b : Array Nat) (off : Nat) (hD : 0 < D)
    (hsz : off + D * 3 < b.size) :
    (bstep P D b off)[off]! = bf0 P b[off]! b[off + D]! b[off + D * 2]! b[off + D * 3]! ∧
    (bstep P D b off)[off + D]! = bf1 P b[off]! b[off + D]! b[off + D * 2]! b[off + D * 3]! ∧
    (bstep P D b off)[off + D * 2]! = bf2 P b[off]! b[off + D]! b[off + D * 2]! b[off + D * 3]! ∧
    (bstep P D b off)[off + D * 3]! = bf3 P b[off]! b[off + D]! b[off + D * 2]! b[off + D * 3]! := by
  unfold bstep
  refine ⟨?_, ?_, ?_, ?_⟩
  · rw [get_set_ne _ _ (by omega), get_set_ne _ _ (by omega), get_set_ne _ _ (by omega),
      get_set_eq _ _ (by omega)]
  · rw [get_set_ne _ _ (by omega), get_set_ne _ _ (by omega), get_set_eq _ _ (by simp; omega)]
  · rw [get_set_ne _ _ (by omega), get_set_eq _ _ (by simp; omega)]
  · rw [get_set_eq _ _ (by simp; omega)]

/-! ## one block -/

theorem blockArr_succ (P : Leo.Params) (D r n : Nat) (b : Array Nat) :
    blockArr P D r (n + 1) b = bstep P D (blockArr P D r n b) (r + n) := by
  unfold blockArr
  rw [List.range'_1_concat, List.foldl_append]
  simp only [List.foldl_cons, List.foldl_nil, Nat.zero_add]

/-- the first `n` butterflies of the block at `r`: four values per `i < n`, everything else untouched -/
theorem blockArr_spec (P : Leo.Params) (D r : Nat) (b : Array Nat) (hD : 0 < D) (hsz : r + D * 4 ≤ b.size) :
    ∀ n, n ≤ D →
    (blockArr P D r n b).size = b.size ∧
    (∀ i, i < n →
      (blockArr P D r n b)[r + i]! = bf0 P b[r + i]! b[r + i + D]! b[r + i + D * 2]! b[r + i + D * 3]! ∧
      (blockArr P D r n b)[r + i + D]! = bf1 P b[r + i]! b[r + i + D]! b[r + i + D * 2]! b[r + i + D * 3]! ∧
      (blockArr P D r n b)[r + i + D * 2]! = bf2 P b[r + i]! b[r + i + D]! b[r + i + D * 2]! b[r + i + D * 3]! ∧
      (blockArr P D r n b)[r + i + D * 3]! = bf3 P b[r + i]! b[r + i + D]! b[r + i + D * 2]! b[r + i + D * 3]!) ∧
    (∀ j, (∀ i, i < n → j ≠ r + i ∧ j ≠ r + i + D ∧ j ≠ r + i + D * 2 ∧ j ≠ r + i + D * 3) →
      (blockArr P D r n b)[j]! = b[j]!) := by
  intro n
  induction n with
  | zero => exact fun _ => ⟨rfl, fun i hi => absurd hi (Nat.not_lt_zero i), fun j _ => rfl⟩
  | succ n ih =>
    intro hn
    obtain ⟨ihs, ih1, ih2⟩ := ih (by omega)
    rw [blockArr_succ]
    obtain ⟨g0, g1, g2, g3⟩ := bstep_get P D (blockArr P D r n b) (r + n) hD (by rw [ihs]; omega)
    have e0 : (blockArr P D r n b)[r + n]! = b[r + n]! := ih2 _ (fun i hi => by omega)
    have e1 : (blockArr P D r n b)[r + n + D]! = b[r + n + D]! := ih2 _ (fun i hi => by omega)
    have e2 : (blockArr P D r n b)[r + n + D * 2]! = b[r + n + D * 2]! := ih2 _ (fun i hi => by omega)
    have e3 : (blockArr P D r n b)[r + n + D * 3]! = b[r + n + D * 3]! := ih2 _ (fun i hi => by omega)
    rw [e0, e1, e2, e3] at g0 g1 g2 g3
    refine ⟨by rw [bstep_size, ihs], fun i hi => ?_, fun j hj => ?_⟩
    · by_cases hin : i = n
      · subst hin; exact ⟨g0, g1, g2, g3⟩
      · have hlt : i < n := by omega
        obtain ⟨a0, a1, a2, a3⟩ := ih1 i hlt
        rw [bstep_frame _ _ _ _ _ (by omega) (by omega) (by omega) (by omega),
          bstep_frame _ _ _ _ _ (by omega) (by omega) (by omega) (by omega),
          bstep_frame _ _ _ _ _ (by omega) (by omega) (by omega) (by omega),
          bstep_frame _ _ _ _ _ (by omega) (by omega) (by omega) (by omega)]
        exact ⟨a0, a1, a2, a3⟩
    · obtain ⟨h0, h1, h2, h3⟩ := hj n (by omega)
      rw [bstep_frame _ _ _ _ _ h0 h1 h2 h3]
      exact ih2 j (fun i hi => hj i (by omega))

/-! ## one pass -/

theorem passArr_succ (P : Leo.Params) (D D4 Q : Nat) (b : Array Nat) :
    passArr P D D4 (Q + 1) b = blockArr P D (Q * D4) D (passArr P D D4 Q b) := by
  unfold passArr
  rw [List.range'_1_concat, List.foldl_append]
  simp only [List.foldl_cons, List.foldl_nil, Nat.zero_add]

/-- the first `Q` blocks of a pass with distance `D` -/
theorem passArr_spec (P : Leo.Params) (D : Nat) (b : Array Nat) (hD : 0 < D) :
    ∀ Q, Q * (D * 4) ≤ b.size →
    (passArr P D (D * 4) Q b).size = b.size ∧
    (∀ q i, q < Q → i < D →
      (passArr P D (D * 4) Q b)[q * (D * 4) + i]! =
        bf0 P b[q * (D * 4) + i]! b[q * (D * 4) + i + D]! b[q * (D * 4) + i + D * 2]! b[q * (D * 4) + i + D * 3]! ∧
      (passArr P D (D * 4) Q b)[q * (D * 4) + i + D]! =
        bf1 P b[q * (D * 4) + i]! b[q * (D * 4) + i + D]! b[q * (D * 4) + i + D * 2]! b[q * (D * 4) + i + D * 3]! ∧
      (passArr P D (D * 4) Q b)[q * (D * 4) + i + D * 2]! =
        bf2 P b[q * (D * 4) + i]! b[q * (D * 4) + i + D]! b[q * (D * 4) + i + D * 2]! b[q * (D * 4) + i + D * 3]! ∧
      (passArr P D (D * 4) Q b)[q * (D * 4) + i + D * 3]! =
        bf3 P b[q * (D * 4) + i]! b[q * (D * 4) + i + D]! b[q * (D * 4) + i + D * 2]! b[q * (D * 4) + i + D * 3]!) ∧
    (∀ j, Q * (D * 4) ≤ j → (passArr P D (D * 4) Q b)[j]! = b[j]!) := by
  intro Q
  induction Q with
  | zero => exact fun _ => ⟨rfl, fun q i hq => absurd hq (Nat.not_lt_zero q), fun j _ => rfl⟩
  | succ Q ih =>
    intro hQ
    have hQ' : (Q + 1) * (D * 4) = Q * (D * 4) + D * 4 := by rw [Nat.add_mul, Nat.one_mul]
    obtain ⟨ihs, ih1, ih2⟩ := ih (by omega)
    rw [passArr_succ]
    obtain ⟨bs, b1, b2⟩ := blockArr_spec P D (Q * (D * 4)) (passArr P D (D * 4) Q b) hD
      (by rw [ihs]; omega) D (Nat.le_refl D)
    refine ⟨by rw [bs, ihs], fun q i hq hi => ?_, fun j hj => ?_⟩
    · by_cases hqQ : q = Q
      · subst hqQ
        have := b1 i hi
        rw [ih2 _ (by omega), ih2 _ (by omega), ih2 _ (by omega), ih2 _ (by omega)] at this
        exact this
      · have hlt : q < Q := by omega
        have hle : (q + 1) * (D * 4) ≤ Q * (D * 4) := Nat.mul_le_mul_right _ hlt
        rw [Nat.add_mul, Nat.one_mul] at hle
        rw [b2 _ (fun i' _ => by omega), b2 _ (fun i' _ => by omega), b2 _ (fun i' _ => by omega),
          b2 _ (fun i' _ => by omega)]
        exact ih1 q i hlt hi
    · rw [b2 _ (fun i' _ => by omega)]
      exact ih2 j (by omega)

end RSV.LCHDecode
