import Mathlib.Data.Nat.Bitwise
import Mathlib.Algebra.BigOperators.Ring.Finset
import Mathlib.Algebra.BigOperators.Intervals
import Mathlib.Tactic.Ring
/-!
# The Walsh–Hadamard transform over a commutative ring

* `wl b f`: the radix-2 layer at bit `b` on functions `ℕ → R`; `W n` the first `n` layers;
* `chi k i j = (-1)^{|i ∧ j|}` (bits below `k`), `H k a i = ∑_{j < 2^k} chi k i j · a j`;
* `W_eq_H`: `W k a x = H k a x` for `x < 2^k`;
* `chi_xor`, `chi_comm`, `sum_chi` (orthogonality), `H_H`: `H (H a) = 2^k · a`;
* `H_mul_H`: `H (H a · H b) = 2^k · (a ⊛ b)`, `(a ⊛ b) i = ∑_{j < 2^k} a j · b (i ^^^ j)`.
-/
namespace RSV.LCHDecode
open Finset

variable {R : Type*} [CommRing R]

/-- the radix-2 Walsh layer at bit `b` -/
def wl (b : ℕ) (f : ℕ → R) (x : ℕ) : R :=
  if x.testBit b then f (x - 2 ^ b) - f x else f x + f (x + 2 ^ b)

/-- the first `n` layers (bits `0, …, n-1`, in this order) -/
def W : ℕ → (ℕ → R) → ℕ → R
  | 0, f => f
  | n + 1, f => wl n (W n f)

def sgn (p : Bool) : R := if p then -1 else 1

/-- the Walsh character `(-1)^{|i ∧ j|}`, bits below `k` -/
def chi (k i j : ℕ) : R := ∏ b ∈ range k, sgn (i.testBit b && j.testBit b)

/-- the Walsh–Hadamard transform on `2^k` points -/
def H (k : ℕ) (a : ℕ → R) (i : ℕ) : R := ∑ j ∈ range (2 ^ k), chi k i j * a j

/-- XOR-convolution -/
def xconv (k : ℕ) (a b : ℕ → R) (i : ℕ) : R := ∑ j ∈ range (2 ^ k), a j * b (i ^^^ j)

/-! ## characters -/

theorem chi_comm (k i j : ℕ) : (chi k i j : R) = chi k j i := by
  unfold chi; simp only [Bool.and_comm]

theorem chi_succ (k i j : ℕ) : (chi (k + 1) i j : R) = chi k i j * sgn (i.testBit k && j.testBit k) :=
  prod_range_succ _ _

theorem sgn_xor (p q r : Bool) : (sgn (p && (q ^^ r)) : R) = sgn (p && q) * sgn (p && r) := by
  cases p <;> cases q <;> cases r <;> simp [sgn]

theorem chi_xor (k i j l : ℕ) : (chi k i (j ^^^ l) : R) = chi k i j * chi k i l := by
  unfold chi
  rw [← prod_mul_distrib]
  exact prod_congr rfl fun b _ => by rw [Nat.testBit_xor, sgn_xor]

/-- adding `2^n` to the second argument does not change the bits below `n` -/
theorem chi_add_right (n i j : ℕ) : (chi n i (2 ^ n + j) : R) = chi n i j := by
  unfold chi
  exact prod_congr rfl fun b hb => by rw [Nat.testBit_two_pow_add_gt (mem_range.mp hb)]

theorem chi_add_left (n i j : ℕ) : (chi n (2 ^ n + i) j : R) = chi n i j := by
  rw [chi_comm, chi_add_right, chi_comm]

theorem chi_zero_right (k i : ℕ) : (chi k i 0 : R) = 1 := by
  unfold chi
  exact prod_eq_one fun b _ => by simp [sgn]

/-- splitting a sum over `2^(n+1)` points -/
theorem sum_two_pow_succ {M : Type*} [AddCommMonoid M] (n : ℕ) (f : ℕ → M) :
    ∑ j ∈ range (2 ^ (n + 1)), f j = ∑ j ∈ range (2 ^ n), f j + ∑ j ∈ range (2 ^ n), f (2 ^ n + j) := by
  rw [show 2 ^ (n + 1) = 2 ^ n + 2 ^ n by rw [pow_succ]; ring, sum_range_add]

/-! ## the layers compute `H` -/

theorem W_block (a : ℕ → R) : ∀ n B i, 2 ^ n ∣ B → i < 2 ^ n →
    W n a (B + i) = ∑ j ∈ range (2 ^ n), chi n i j * a (B + j) := by
  intro n
  induction n with
  | zero =>
    intro B i _ hi
    have : i = 0 := by simpa using hi
    subst this
    simp [W, chi]
  | succ n ih =>
    intro B i hB hi
    obtain ⟨c, rfl⟩ := hB
    have hB' : 2 ^ n ∣ 2 ^ (n + 1) * c := ⟨2 * c, by rw [pow_succ]; ring⟩
    have hB'' : 2 ^ n ∣ 2 ^ (n + 1) * c + 2 ^ n := (Nat.dvd_add_right hB').mpr (dvd_refl _)
    have hBe : 2 ^ (n + 1) * c = 2 ^ n * (2 * c) := by rw [pow_succ]; ring
    rw [sum_two_pow_succ]
    show wl n (W n a) _ = _
    by_cases hlt : i < 2 ^ n
    · have hbit : (2 ^ (n + 1) * c + i).testBit n = false := by
        rw [hBe, Nat.testBit_two_pow_mul_add _ hlt, if_neg (lt_irrefl n), Nat.sub_self, Nat.testBit_zero]
        simp
      have hi0 : i.testBit n = false := Nat.testBit_lt_two_pow hlt
      unfold wl
      rw [hbit, if_neg (by simp), ih _ i hB' hlt,
        show 2 ^ (n + 1) * c + i + 2 ^ n = (2 ^ (n + 1) * c + 2 ^ n) + i by ring, ih _ i hB'' hlt]
      congr 1
      · exact sum_congr rfl fun j _ => by rw [chi_succ, hi0]; simp [sgn]
      · exact sum_congr rfl fun j _ => by rw [chi_succ, hi0, chi_add_right, add_assoc]; simp [sgn]
    · obtain ⟨i', rfl⟩ := Nat.exists_eq_add_of_le (Nat.le_of_not_lt hlt)
      have hi' : i' < 2 ^ n := by rw [pow_succ] at hi; omega
      have hbit : (2 ^ (n + 1) * c + (2 ^ n + i')).testBit n = true := by
        rw [show 2 ^ (n + 1) * c + (2 ^ n + i') = 2 ^ n * (2 * c + 1) + i' by rw [pow_succ]; ring,
          Nat.testBit_two_pow_mul_add _ hi', if_neg (lt_irrefl n), Nat.sub_self, Nat.testBit_zero]
        simp
      have hi0 : (2 ^ n + i').testBit n = true := by
        rw [Nat.testBit_two_pow_add_eq, Nat.testBit_lt_two_pow hi']; rfl
      unfold wl
      rw [hbit, if_pos rfl,
        show 2 ^ (n + 1) * c + (2 ^ n + i') - 2 ^ n = 2 ^ (n + 1) * c + i' by omega, ih _ i' hB' hi',
        show 2 ^ (n + 1) * c + (2 ^ n + i') = (2 ^ (n + 1) * c + 2 ^ n) + i' by ring, ih _ i' hB'' hi',
        sub_eq_add_neg, ← sum_neg_distrib]
      congr 1
      · exact sum_congr rfl fun j hj => by
          rw [chi_succ, chi_add_left, Nat.testBit_lt_two_pow (mem_range.mp hj)]; simp [sgn]
      · exact sum_congr rfl fun j _ => by
          rw [chi_succ, hi0, chi_add_left, chi_add_right, Nat.testBit_two_pow_add_eq,
            Nat.testBit_lt_two_pow (mem_range.mp ‹_›), add_assoc]
          simp [sgn]

/-- the `k` layers compute the Walsh–Hadamard transform -/
theorem W_eq_H (k : ℕ) (a : ℕ → R) (x : ℕ) (hx : x < 2 ^ k) : W k a x = H k a x := by
  have := W_block a k 0 x (dvd_zero _) hx
  simp only [Nat.zero_add] at this
  exact this

/-! ## orthogonality -/

theorem sum_chi_succ (k s : ℕ) :
    ∑ j ∈ range (2 ^ (k + 1)), (chi (k + 1) j s : R) =
      (∑ j ∈ range (2 ^ k), (chi k j s : R)) * (1 + sgn (s.testBit k)) := by
  rw [sum_two_pow_succ, mul_add, mul_one, sum_mul]
  congr 1
  · exact sum_congr rfl fun j hj => by
      rw [chi_succ, Nat.testBit_lt_two_pow (mem_range.mp hj)]; simp [sgn]
  · exact sum_congr rfl fun j hj => by
      rw [chi_succ, chi_add_left, Nat.testBit_two_pow_add_eq, Nat.testBit_lt_two_pow (mem_range.mp hj)]
      simp

theorem sum_chi_of_zero (k s : ℕ) (hs : ∀ b, b < k → s.testBit b = false) :
    ∑ j ∈ range (2 ^ k), (chi k j s : R) = 2 ^ k := by
  induction k with
  | zero => simp [chi]
  | succ k ih =>
    rw [sum_chi_succ, ih (fun b hb => hs b (by omega)), hs k (by omega)]
    simp only [sgn, Bool.false_eq_true, if_false]
    rw [pow_succ]; ring

theorem sum_chi_of_ne (k s : ℕ) (hs : ∃ b, b < k ∧ s.testBit b = true) :
    ∑ j ∈ range (2 ^ k), (chi k j s : R) = 0 := by
  induction k with
  | zero => obtain ⟨b, hb, _⟩ := hs; omega
  | succ k ih =>
    rw [sum_chi_succ]
    obtain ⟨b, hb, hbt⟩ := hs
    by_cases hbk : b = k
    · subst hbk; rw [hbt]; simp [sgn]
    · rw [ih ⟨b, by omega, hbt⟩, zero_mul]

/-- orthogonality of the Walsh characters -/
theorem sum_chi (k s : ℕ) (hs : s < 2 ^ k) :
    ∑ j ∈ range (2 ^ k), (chi k j s : R) = if s = 0 then 2 ^ k else 0 := by
  split
  · rename_i h0
    exact sum_chi_of_zero k s fun b _ => by rw [h0, Nat.zero_testBit]
  · rename_i h0
    apply sum_chi_of_ne
    by_contra hcon
    apply h0
    apply Nat.zero_of_testBit_eq_false
    intro b
    by_cases hb : b < k
    · by_contra hne
      exact hcon ⟨b, hb, by simpa using hne⟩
    · exact Nat.testBit_lt_two_pow (lt_of_lt_of_le hs (Nat.pow_le_pow_right (by decide) (by omega)))

/-- `H ∘ H = 2^k · id` -/
theorem H_H (k : ℕ) (a : ℕ → R) (i : ℕ) (hi : i < 2 ^ k) : H k (H k a) i = 2 ^ k * a i := by
  unfold H
  have h1 : ∀ j, (chi k i j : R) * ∑ l ∈ range (2 ^ k), chi k j l * a l =
      ∑ l ∈ range (2 ^ k), a l * chi k j (i ^^^ l) := by
    intro j
    rw [mul_sum]
    refine sum_congr rfl fun l _ => ?_
    rw [chi_xor, chi_comm k i j]
    ring
  rw [sum_congr rfl fun j _ => h1 j, sum_comm, sum_eq_single i]
  · rw [← mul_sum, Nat.xor_self, sum_chi k 0 (Nat.two_pow_pos k), if_pos rfl]
    ring
  · intro l hl hne
    rw [← mul_sum, sum_chi k _ (Nat.xor_lt_two_pow hi (mem_range.mp hl)), if_neg, mul_zero]
    intro h0
    exact hne (Nat.xor_eq_zero_iff.mp h0).symm
  · intro hnot
    exact absurd (mem_range.mpr hi) hnot

/-! ## the convolution theorem -/

/-- `H (H a · H b) = 2^k · (a ⊛ b)` -/
theorem H_mul_H (k : ℕ) (a b : ℕ → R) (i : ℕ) (hi : i < 2 ^ k) :
    H k (fun j => H k a j * H k b j) i = 2 ^ k * xconv k a b i := by
  unfold H xconv
  have h1 : ∀ j, (chi k i j : R) * ((∑ l ∈ range (2 ^ k), chi k j l * a l) * ∑ m ∈ range (2 ^ k), chi k j m * b m) =
      ∑ l ∈ range (2 ^ k), ∑ m ∈ range (2 ^ k), a l * b m * chi k j (i ^^^ l ^^^ m) := by
    intro j
    rw [sum_mul_sum, mul_sum]
    refine sum_congr rfl fun l _ => ?_
    rw [mul_sum]
    refine sum_congr rfl fun m _ => ?_
    rw [chi_xor, chi_xor, chi_comm k i j]
    ring
  rw [sum_congr rfl fun j _ => h1 j, sum_comm, mul_sum]
  refine sum_congr rfl fun l hl => ?_
  rw [sum_comm]
  have hil : i ^^^ l < 2 ^ k := Nat.xor_lt_two_pow hi (mem_range.mp hl)
  rw [sum_eq_single (i ^^^ l)]
  · rw [← mul_sum, Nat.xor_self, sum_chi k 0 (Nat.two_pow_pos k), if_pos rfl]
    ring
  · intro m hm hne
    rw [← mul_sum, sum_chi k _ (Nat.xor_lt_two_pow hil (mem_range.mp hm)), if_neg, mul_zero]
    intro h0
    exact hne (Nat.xor_eq_zero_iff.mp h0).symm
  · intro hnot
    exact absurd (mem_range.mpr hil) hnot

end RSV.LCHDecode
