import RSV.Proofs.LCHBridge.Iface
/-!
# Interface for the Leopard DECODER proofs (shared by the mathematics, the table proof and the refinement)

* `derivStep` / `derivLoop`: Leopard's formal-derivative loop on coefficient vectors (functions `ℕ → K`):
  `for i in 1 … n-1: width = lowbit(i); for k < width: f[i - width + k] += f[i + k]`
  (`width = ((i ^^^ (i-1)) + 1) >>> 1` is the lowest set bit of `i`).  Within one step the writes are below `i`
  and the reads at or above `i`, so a step is a simultaneous update.
* `Cantor β k`: the basis has `W_i(β_i) = 1` for every `i < k` (true of the Cantor bases Leopard uses; it makes the
  normalised subspace polynomials monic with formal derivative 1).
* `ElOK F E el`: the array `el` holds, at every index `i < 2^k`, the logarithm of `∏_{j ∈ E, j ≠ i} (φ i + φ j)` — the
  error-locator polynomial `Λ(x) = ∏_{e ∈ E} (x - ω_e)` at the present positions and its formal derivative at the
  erased ones.
-/
namespace RSV.LCHDecode
open RSV.Model.Leo RSV.LCH RSV.LCHBridge

variable {K : Type} [Field K]

/-- lowest set bit of `i` (`0` for `i = 0`), as the Go code computes it -/
def lowbit (i : ℕ) : ℕ := ((i ^^^ (i - 1)) + 1) >>> 1

/-- one outer iteration of the formal-derivative loop -/
def derivStep (i : ℕ) (f : ℕ → K) : ℕ → K :=
  fun x => if i - lowbit i ≤ x ∧ x < i then f x + f (x + lowbit i) else f x

/-- the whole loop on `n` coefficients: `i = 1, …, n-1` in this order -/
def derivLoop (n : ℕ) (f : ℕ → K) : ℕ → K :=
  (List.range' 1 (n - 1)).foldl (fun f i => derivStep i f) f

/-- Cantor-type basis: every subspace polynomial takes the value 1 at the next basis element -/
def Cantor (β : ℕ → K) (k : ℕ) : Prop := ∀ i, i < k → W β k i (β i) = 1

variable {C : Ctx}

/-- the locator table: logarithms of `Λ` / `Λ'` at every point, for the erased position set `E` -/
def ElOK (F : FieldCtx C K) (E : Finset ℕ) (el : Array ℕ) : Prop :=
  ∀ i, i < 2 ^ F.k →
    el[i]! < 2 ^ F.k ∧ F.g ^ (el[i]!) = ∏ j ∈ E.erase i, (F.φ i + F.φ j)

end RSV.LCHDecode
