import RSV.Proofs.LCHDecode.MathRS
import RSV.Proofs.LCH.Example

/-!
# Leopard decoder mathematics: the two statements consumed by the refinement, non-vacuity, axioms

* `decodeIdentity_holds`: the decoding identity in the literal shape `DecodeIdentity β k` of the
  schedule refinement (`Indep` and `Cantor` as premises);
* `encodeIsRS_holds`: "the encoder's codeword is the evaluation vector of a polynomial of degree
  `< n - m`" in the literal shape `EncodeIsRS β k` (`Indep` as premise);
* a non-vacuity example over `GF(2)` (`k = 1`, `β 0 = 1`);
* `#print axioms`.
-/

namespace RSV.LCHDecode
open RSV.LCH Finset

noncomputable section

variable {K : Type} [Field K] [CharP K 2] {β : ℕ → K} {k : ℕ}

/-- the body of `DecodeIdentity β k` -/
theorem decodeIdentity_holds (hβ : Indep β k) (hC : Cantor β k) :
    ∀ t T : ℕ, t < T → T ≤ k → ∀ a : ℕ → K, (∀ j, 2 ^ T - 2 ^ t ≤ j → a j = 0) →
      ∀ E : Finset ℕ, E ⊆ Finset.range (2 ^ T) → E.card ≤ 2 ^ t → ∀ e ∈ E,
        fft β k T 0 (derivLoop (2 ^ T) (ifft β k T 0 (fun j =>
          if j ∈ E then 0 else P β k T a (omega β k j) *
            ∏ e' ∈ E.erase j, (omega β k j + omega β k e')))) e =
        P β k T a (omega β k e) * ∏ e' ∈ E.erase e, (omega β k e + omega β k e') := by
  intro t T _ hT a ha E hE hcard e he
  exact decode_identity (c := fun j => P β k T a (omega β k j)) hβ hC hT
    (fun j hj _ => ha j hj) (fun _ _ => rfl) (fun x hx => mem_range.mp (hE hx)) hcard he

/-- the body of `EncodeIsRS β k` -/
theorem encodeIsRS_holds (hβ : Indep β k) :
    ∀ t T G : ℕ, t < T → T ≤ k → (G + 1) * 2 ^ t ≤ 2 ^ T → ∀ (data : ℕ → ℕ → K) (c : ℕ → K),
      (∀ r, r < 2 ^ t → c r = parity β k t G data r) →
      (∀ x, x < G * 2 ^ t → c (2 ^ t + x) = data (x / 2 ^ t) (x % 2 ^ t)) →
      (∀ j, (G + 1) * 2 ^ t ≤ j → j < 2 ^ T → c j = 0) →
      ∃ a : ℕ → K, (∀ j, 2 ^ T - 2 ^ t ≤ j → a j = 0) ∧
        ∀ j, j < 2 ^ T → c j = P β k T a (omega β k j) := by
  intro t T G htT hT hG data c hpar hdat hpad
  have hcw : ∀ j < 2 ^ T, c j = codeword β k t G data j := by
    intro j hj
    by_cases h1 : j < 2 ^ t
    · rw [hpar j h1, codeword_parity data h1]
    · by_cases h2 : j < (G + 1) * 2 ^ t
      · obtain ⟨x, rfl⟩ := Nat.exists_eq_add_of_le (Nat.le_of_not_lt h1)
        have hx : x < G * 2 ^ t := by rw [Nat.add_mul] at h2; omega
        rw [hdat x hx, codeword_data data hx]
      · rw [hpad j (Nat.le_of_not_lt h2) hj, codeword_pad data (Nat.le_of_not_lt h2)]
  have hcoef : ∀ j < 2 ^ T, ifft β k T 0 c j = ifft β k T 0 (codeword β k t G data) j :=
    ifft_congr β k hcw
  refine ⟨fun j => if j < 2 ^ T then ifft β k T 0 c j else 0, ?_, ?_⟩
  · intro j hj
    show (if j < 2 ^ T then ifft β k T 0 c j else 0) = 0
    by_cases hjT : j < 2 ^ T
    · rw [if_pos hjT, hcoef j hjT]
      exact codeword_top_zero hβ (le_of_lt htT) hT hG data j hj hjT
    · rw [if_neg hjT]
  · intro j hj
    rw [P_congr β k (a' := ifft β k T 0 c) (fun l hl => by rw [if_pos hl])]
    have := P_ifft hβ hT (dvd_zero _) c hj
    rw [zero_add] at this
    exact this.symm

/-! ### non-vacuity: `K = GF(2)`, `k = 1`, `β 0 = 1`; `n = 2`, `m = 1`, one data symbol -/

section Example

theorem cantor_zmod2 : Cantor (fun _ => (1 : ZMod 2)) 1 := by
  apply cantor_of_iterate
  intro i hi
  have : i = 0 := by omega
  subst this
  rfl

/-- the hypotheses of `decode_codeword` are satisfiable: one erasure (the data symbol) among the
two symbols of the `(2,1)` code is recovered -/
example (data : ℕ → ℕ → ZMod 2) :
    fft (fun _ => (1 : ZMod 2)) 1 1 0 (derivLoop (2 ^ 1) (ifft (fun _ => (1 : ZMod 2)) 1 1 0
        (fun j => if j ∈ ({1} : Finset ℕ) then 0
          else codeword (fun _ => (1 : ZMod 2)) 1 0 1 data j
            * locVal (fun _ => (1 : ZMod 2)) 1 {1} j))) 1
      * (locVal (fun _ => (1 : ZMod 2)) 1 {1} 1)⁻¹
      = codeword (fun _ => (1 : ZMod 2)) 1 0 1 data 1 :=
  decode_codeword indep_zmod2 cantor_zmod2 (t := 0) (T := 1) (G := 1) (by norm_num) (by norm_num)
    (by norm_num) data (E := {1}) (by simp) (by simp) (fun _ _ => rfl) (by simp)

end Example

end

end RSV.LCHDecode

#print axioms RSV.LCHDecode.Wp_succ
#print axioms RSV.LCHDecode.derivative_Wp
#print axioms RSV.LCHDecode.derivative_Xp
#print axioms RSV.LCHDecode.derivative_Pp
#print axioms RSV.LCHDecode.cantor_iff_iterate
#print axioms RSV.LCHDecode.lowbit_two_pow_mul_odd
#print axioms RSV.LCHDecode.derivLoop_eq_sum
#print axioms RSV.LCHDecode.derivLoop_eq_derivCoeff
#print axioms RSV.LCHDecode.derivLoop_congr
#print axioms RSV.LCHDecode.derivLoop_zero_above
#print axioms RSV.LCHDecode.locVal_ne_zero
#print axioms RSV.LCHDecode.zero_above_of_degree_Pp_lt
#print axioms RSV.LCHDecode.Pp_ifft_eq_of_eval
#print axioms RSV.LCHDecode.decode_identity'
#print axioms RSV.LCHDecode.decode_identity
#print axioms RSV.LCHDecode.decode_recover
#print axioms RSV.LCHDecode.eval_Qp
#print axioms RSV.LCHDecode.eval_Dp
#print axioms RSV.LCHDecode.codeword_top_zero
#print axioms RSV.LCHDecode.decode_codeword
#print axioms RSV.LCHDecode.decodeIdentity_holds
#print axioms RSV.LCHDecode.encodeIsRS_holds
#print axioms RSV.LCHDecode.cantor_zmod2
