import RSV.Proofs.LCHDecode.Iface
import RSV.Proofs.LCH.Poly
import Mathlib.Algebra.Polynomial.Derivative
import Mathlib.LinearAlgebra.Lagrange

/-!
# Leopard decoder mathematics, part 1: consequences of a Cantor basis

Under `Cantor β k` (`W_i(β_i) = 1` for `i < k`):

* `What_eq_W`, `Whatp_eq_Wp`: the normalisation is trivial;
* `Wp_succ`: the polynomial identity `W_{i+1} = W_i² + W_i(β_i)·W_i` (needs only `Indep`);
* `derivative_Wp`, `derivative_Whatp`: the formal derivative of `W_i` is the constant `1`;
* `derivative_Xp`: `X_j' = ∑_{i<k, bit i of j} X_{j - 2^i}`;
* `derivCoeff T a l = ∑_{i<T, bit i of l clear} a (l + 2^i)` and `derivative_Pp`:
  `(∑_{j<2^T} a_j X_j)' = ∑_{l<2^T} (derivCoeff T a l) X_l`;
* `cantor_iff_iterate`: `Cantor β k ↔ ∀ i < k, (x ↦ x² + x)^[i] (β i) = 1` (checkable criterion).
-/

namespace RSV.LCHDecode
open RSV.LCH Finset Polynomial

/-! ### bit arithmetic -/

/-- bit `i` clear, arithmetically -/
theorem testBit_false_iff (l i : ℕ) : l.testBit i = false ↔ l % 2 ^ (i + 1) < 2 ^ i := by
  rw [Nat.testBit_eq_decide_div_mod_eq, decide_eq_false_iff_not, Nat.mod_pow_succ]
  have := Nat.mod_lt l (Nat.two_pow_pos i)
  rcases Nat.mod_two_eq_zero_or_one (l / 2 ^ i) with h | h <;> rw [h] <;> omega

/-- setting a clear bit `i < T` of `l < 2^T` stays below `2^T` -/
theorem add_two_pow_lt {l i T : ℕ} (hl : l < 2 ^ T) (hi : i < T) (hb : l.testBit i = false) :
    l + 2 ^ i < 2 ^ T := by
  rw [testBit_false_iff] at hb
  obtain ⟨e, rfl⟩ := Nat.exists_eq_add_of_lt hi
  have h1 := Nat.div_add_mod l (2 ^ (i + 1))
  have h2 : 2 ^ (i + e + 1) = 2 ^ (i + 1) * 2 ^ e := by rw [← pow_add]; congr 1; omega
  have h3 : l / 2 ^ (i + 1) < 2 ^ e := by
    rw [Nat.div_lt_iff_lt_mul (Nat.two_pow_pos _), Nat.mul_comm, ← h2]; exact hl
  have h4 : 2 ^ (i + 1) * (l / 2 ^ (i + 1) + 1) ≤ 2 ^ (i + 1) * 2 ^ e :=
    Nat.mul_le_mul_left _ h3
  have h5 : 2 ^ (i + 1) = 2 * 2 ^ i := pow_succ' 2 i
  rw [h2]
  rw [Nat.mul_add, Nat.mul_one] at h4
  omega

/-- bits of `l + 2^i` when bit `i` of `l` is clear -/
theorem testBit_add_two_pow {l i : ℕ} (hb : l.testBit i = false) (b : ℕ) :
    (l + 2 ^ i).testBit b = (l.testBit b || decide (b = i)) := by
  have h0 : l + 2 ^ i = 2 ^ i * (l / 2 ^ i + 1) + l % 2 ^ i := by
    have := Nat.div_add_mod l (2 ^ i); rw [Nat.mul_add, Nat.mul_one]; omega
  have h1 : l = 2 ^ i * (l / 2 ^ i) + l % 2 ^ i := (Nat.div_add_mod l (2 ^ i)).symm
  have hm := Nat.mod_lt l (Nat.two_pow_pos i)
  have heven : l / 2 ^ i % 2 = 0 := by
    rw [Nat.testBit_eq_decide_div_mod_eq, decide_eq_false_iff_not] at hb; omega
  rw [h0, Nat.testBit_two_pow_mul_add _ hm]
  conv_rhs => rw [h1, Nat.testBit_two_pow_mul_add _ hm]
  by_cases hbi : b < i
  · simp [hbi, Nat.ne_of_lt hbi]
  · obtain ⟨d, rfl⟩ := Nat.exists_eq_add_of_le (Nat.le_of_not_lt hbi)
    simp only [hbi, if_false, Nat.add_sub_cancel_left]
    obtain ⟨c, hc⟩ : ∃ c, l / 2 ^ i = 2 * c := ⟨l / 2 ^ i / 2, by omega⟩
    rw [hc]
    cases d with
    | zero => simp [Nat.testBit_zero]
    | succ d =>
      have : i + (d + 1) ≠ i := by omega
      simp only [this, decide_false, Bool.or_false]
      rw [Nat.testBit_succ, Nat.testBit_succ]
      congr 1
      omega

/-- bits of `j - 2^i` when bit `i` of `j` is set -/
theorem testBit_sub_two_pow {j i : ℕ} (hb : j.testBit i = true) (b : ℕ) :
    (j - 2 ^ i).testBit b = (j.testBit b && !decide (b = i)) := by
  have hge : 2 ^ i ≤ j := Nat.ge_two_pow_of_testBit hb
  have hclear : (j - 2 ^ i).testBit i = false := by
    rw [testBit_false_iff]
    have h1 : ¬ j % 2 ^ (i + 1) < 2 ^ i := by
      rw [← testBit_false_iff]; simp [hb]
    exact blk_high_lt h1
  have h := testBit_add_two_pow hclear b
  rw [Nat.sub_add_cancel hge] at h
  by_cases hbi : b = i
  · subst hbi; simp [hclear]
  · simpa [hbi] using h.symm

noncomputable section

variable {K : Type} [Field K] [CharP K 2] {β : ℕ → K} {k : ℕ}

/-! ### the normalisation is trivial -/

omit [CharP K 2] in
theorem What_eq_W (hC : Cantor β k) {i : ℕ} (hi : i < k) (x : K) :
    What β k i x = W β k i x := by
  unfold What; rw [hC i hi, div_one]

omit [CharP K 2] in
theorem Whatp_eq_Wp (hC : Cantor β k) {i : ℕ} (hi : i < k) : Whatp β k i = Wp β k i := by
  unfold Whatp; rw [hC i hi, inv_one, C_1, one_mul]

/-! ### the recurrence of the subspace polynomials, in `K[X]` -/

theorem Wp_succ (hβ : Indep β k) {i : ℕ} (hi : i < k) :
    Wp β k (i + 1) = Wp β k i ^ 2 + C (W β k i (β i)) * Wp β k i := by
  classical
  have hpos := Nat.two_pow_pos i
  have hm2 : (Wp β k i ^ 2).Monic := (Wp_monic β k i).pow 2
  have hd2 : (Wp β k i ^ 2).natDegree = 2 ^ (i + 1) := by
    rw [(Wp_monic β k i).natDegree_pow, natDegree_Wp, pow_succ']
  have hlt : (C (W β k i (β i)) * Wp β k i).degree < (Wp β k i ^ 2).degree := by
    apply degree_lt_degree
    rw [hd2]
    exact lt_of_le_of_lt ((natDegree_C_mul_le _ _).trans (natDegree_Wp β k i).le)
      (by rw [pow_succ]; omega)
  have hmon := hm2.add_of_left hlt
  have hdeg : (Wp β k i ^ 2 + C (W β k i (β i)) * Wp β k i).natDegree = 2 ^ (i + 1) := by
    rw [natDegree_add_eq_left_of_degree_lt hlt, hd2]
  have hle : 2 ^ (i + 1) ≤ 2 ^ k := Nat.pow_le_pow_right (by decide) hi
  refine eq_of_degree_le_of_eval_index_eq (v := fun j => omega β k j) (range (2 ^ (i + 1)))
    ?_ ?_ ?_ ?_ ?_
  · intro a ha b hb hab
    have ha' : a < 2 ^ (i + 1) := by simpa using ha
    have hb' : b < 2 ^ (i + 1) := by simpa using hb
    exact hβ a (by omega) b (by omega) hab
  · rw [degree_eq_natDegree (Wp_monic β k (i + 1)).ne_zero, natDegree_Wp, card_range]
  · rw [degree_eq_natDegree (Wp_monic β k (i + 1)).ne_zero, degree_eq_natDegree hmon.ne_zero,
      natDegree_Wp, hdeg]
  · rw [(Wp_monic β k (i + 1)).leadingCoeff, hmon.leadingCoeff]
  · intro j _
    simp only [eval_add, eval_pow, eval_mul, eval_C, eval_Wp]
    exact W_succ' β k hi _

/-! ### formal derivatives -/

/-- under a Cantor basis every subspace polynomial has formal derivative `1` -/
theorem derivative_Wp (hβ : Indep β k) (hC : Cantor β k) {i : ℕ} (hi : i ≤ k) :
    derivative (Wp β k i) = 1 := by
  induction i with
  | zero => simp [Wp]
  | succ i ih =>
    have hik : i < k := hi
    have h2 : (2 : K) = 0 := CharTwo.two_eq_zero
    rw [Wp_succ hβ hik, hC i hik, C_1, one_mul, derivative_add, derivative_pow,
      ih (le_of_lt hik)]
    simp [h2]

theorem derivative_Whatp (hβ : Indep β k) (hC : Cantor β k) {i : ℕ} (hi : i < k) :
    derivative (Whatp β k i) = 1 := by
  rw [Whatp_eq_Wp hC hi, derivative_Wp hβ hC (le_of_lt hi)]

/-- `X_j' = ∑_{i<k, bit i of j set} X_{j - 2^i}` -/
theorem derivative_Xp (hβ : Indep β k) (hC : Cantor β k) (j : ℕ) :
    derivative (Xp β k j) = ∑ i ∈ range k, if j.testBit i then Xp β k (j - 2 ^ i) else 0 := by
  classical
  unfold Xp
  rw [derivative_prod_finset]
  refine Finset.sum_congr rfl fun i hi => ?_
  have hik := mem_range.mp hi
  by_cases hb : j.testBit i = true
  · rw [if_pos hb, if_pos hb, derivative_Whatp hβ hC hik, mul_one,
      ← Finset.mul_prod_erase (range k) _ hi, testBit_sub_two_pow hb]
    simp only [decide_true, Bool.not_true, Bool.and_false, Bool.false_eq_true, if_false, one_mul]
    refine Finset.prod_congr rfl fun b hb' => ?_
    rw [testBit_sub_two_pow hb]
    simp [(mem_erase.mp hb').1]
  · rw [if_neg hb, if_neg hb, derivative_one, mul_zero]

/-- the coefficient vector of the formal derivative in the novel basis:
`derivCoeff T a l = ∑_{i<T, bit i of l clear} a (l + 2^i)` -/
def derivCoeff (T : ℕ) (a : ℕ → K) (l : ℕ) : K :=
  ∑ i ∈ range T, if l.testBit i then 0 else a (l + 2 ^ i)

omit [CharP K 2] in
theorem derivCoeff_congr {T : ℕ} {a a' : ℕ → K} (h : ∀ j < 2 ^ T, a j = a' j) {l : ℕ}
    (hl : l < 2 ^ T) : derivCoeff T a l = derivCoeff T a' l := by
  unfold derivCoeff
  refine Finset.sum_congr rfl fun i hi => ?_
  by_cases hb : l.testBit i = true
  · rw [if_pos hb, if_pos hb]
  · rw [if_neg hb, if_neg hb, h _ (add_two_pow_lt hl (mem_range.mp hi) (by simpa using hb))]

/-- **the formal derivative in the novel basis** (Cantor basis):
`(∑_{j<2^T} a_j X_j)' = ∑_{l<2^T} (∑_{i<T, bit i of l clear} a_{l+2^i}) X_l` -/
theorem derivative_Pp (hβ : Indep β k) (hC : Cantor β k) {T : ℕ} (hT : T ≤ k) (a : ℕ → K) :
    derivative (Pp β k T a) = Pp β k T (derivCoeff T a) := by
  classical
  unfold Pp
  rw [derivative_sum]
  have hL : ∀ j ∈ range (2 ^ T), derivative (C (a j) * Xp β k j)
      = ∑ i ∈ range T, if j.testBit i = true then C (a j) * Xp β k (j - 2 ^ i) else 0 := by
    intro j hj
    have hj' := mem_range.mp hj
    rw [derivative_C_mul, derivative_Xp hβ hC, Finset.mul_sum,
      ← Finset.sum_subset (range_subset_range.mpr hT)]
    · refine Finset.sum_congr rfl fun i _ => ?_
      split <;> simp
    · intro i hi hni
      have hTi : T ≤ i := by simpa using hni
      have : j.testBit i = false :=
        Nat.testBit_lt_two_pow (lt_of_lt_of_le hj' (Nat.pow_le_pow_right (by decide) hTi))
      simp [this]
  have hR : ∀ l ∈ range (2 ^ T), C (derivCoeff T a l) * Xp β k l
      = ∑ i ∈ range T, if l.testBit i = false then C (a (l + 2 ^ i)) * Xp β k l else 0 := by
    intro l _
    unfold derivCoeff
    rw [map_sum, Finset.sum_mul]
    refine Finset.sum_congr rfl fun i _ => ?_
    cases l.testBit i <;> simp
  rw [Finset.sum_congr rfl hL, Finset.sum_congr rfl hR, Finset.sum_comm,
    Finset.sum_comm (s := range (2 ^ T))]
  refine Finset.sum_congr rfl fun i hi => ?_
  have hiT := mem_range.mp hi
  rw [← Finset.sum_filter, ← Finset.sum_filter]
  refine Finset.sum_nbij' (fun j => j - 2 ^ i) (fun l => l + 2 ^ i) ?_ ?_ ?_ ?_ ?_
  · intro j hj
    rw [mem_filter, mem_range] at hj ⊢
    refine ⟨lt_of_le_of_lt (Nat.sub_le _ _) hj.1, ?_⟩
    rw [testBit_sub_two_pow hj.2]; simp
  · intro l hl
    rw [mem_filter, mem_range] at hl ⊢
    refine ⟨add_two_pow_lt hl.1 hiT hl.2, ?_⟩
    rw [testBit_add_two_pow hl.2]; simp
  · intro j hj
    rw [mem_filter] at hj
    exact Nat.sub_add_cancel (Nat.ge_two_pow_of_testBit hj.2)
  · intro l _
    exact Nat.add_sub_cancel ..
  · intro j hj
    rw [mem_filter] at hj
    show _ = C (a (j - 2 ^ i + 2 ^ i)) * _
    rw [Nat.sub_add_cancel (Nat.ge_two_pow_of_testBit hj.2)]

/-! ### a checkable criterion for `Cantor` -/

/-- as long as the basis is Cantor below `i`, `W_j` is the `j`-fold iterate of `x ↦ x² + x` -/
theorem W_eq_iterate {i : ℕ} (hi : i ≤ k) (h : ∀ j < i, W β k j (β j) = 1) (x : K) :
    W β k i x = (fun y : K => y ^ 2 + y)^[i] x := by
  induction i with
  | zero => simp
  | succ i ih =>
    have hik : i < k := hi
    rw [Function.iterate_succ_apply', ← ih (le_of_lt hik) (fun j hj => h j (Nat.lt_succ_of_lt hj)),
      W_succ' β k hik, h i (Nat.lt_succ_self i), one_mul]

/-- `Cantor β k` can be checked by `k` short iterations of `x ↦ x² + x` -/
theorem cantor_iff_iterate :
    Cantor β k ↔ ∀ i, i < k → (fun y : K => y ^ 2 + y)^[i] (β i) = 1 := by
  constructor
  · intro hC i hi
    rw [← W_eq_iterate (le_of_lt hi) (fun j hj => hC j (lt_trans hj hi))]
    exact hC i hi
  · intro h i
    induction i using Nat.strong_induction_on with
    | _ i ih =>
      intro hi
      rw [W_eq_iterate (le_of_lt hi) (fun j hj => ih j hj (lt_trans hj hi))]
      exact h i hi

theorem cantor_of_iterate (h : ∀ i, i < k → (fun y : K => y ^ 2 + y)^[i] (β i) = 1) :
    Cantor β k := cantor_iff_iterate.mpr h

end

end RSV.LCHDecode
