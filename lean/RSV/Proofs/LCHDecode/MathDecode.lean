import RSV.Proofs.LCHDecode.MathDeriv
import RSV.Proofs.LCH.Correct

/-!
# Leopard decoder mathematics, part 4: the decoding identity (formal-derivative method)

`n = 2^T` points `ω_0 … ω_{n-1}`; a codeword `c j = f(ω_j)` of a polynomial `f = ∑ a_j X_j` with
`a_j = 0` for `j ≥ n - m` (degree `< n - m`); an erasure set `E ⊆ [0, n)` with `|E| ≤ m`.

* `locVal β k E i = ∏_{e ∈ E, e ≠ i} (ω_i + ω_e)`: the locator `Λ(x) = ∏_{e∈E} (x - ω_e)` at the
  present positions, its formal derivative at the erased ones; `locVal_ne_zero`;
* `degree_Pp_lt_of_zero_above`, `zero_above_of_degree_Pp_lt`: "top coefficients vanish" ⇔ degree bound;
* `Pp_ifft_eq_of_eval`: a polynomial of degree `< n` is `Pp T (ifft T 0 (its values))`;
* `decode_identity`:
  `fft T 0 (derivLoop n (ifft T 0 w)) e = c e * locVal E e` for `e ∈ E`,
  where `w j = if j ∈ E then 0 else c j * locVal E j`;
* `decode_recover`: the recipe `fft … e * (locVal E e)⁻¹ = c e`.
-/

namespace RSV.LCHDecode
open RSV.LCH Finset Polynomial

noncomputable section

variable {K : Type} [Field K] [CharP K 2] {β : ℕ → K} {k : ℕ}

/-- `Λ_i = ∏_{e ∈ E, e ≠ i} (ω_i + ω_e)` -/
def locVal (β : ℕ → K) (k : ℕ) (E : Finset ℕ) (i : ℕ) : K :=
  ∏ e ∈ E.erase i, (omega β k i + omega β k e)

theorem locVal_ne_zero (hβ : Indep β k) {E : Finset ℕ} (hE : ∀ e ∈ E, e < 2 ^ k) {i : ℕ}
    (hi : i < 2 ^ k) : locVal β k E i ≠ 0 := by
  unfold locVal
  rw [Finset.prod_ne_zero_iff]
  intro e he
  rw [mem_erase] at he
  rw [← CharTwo.sub_eq_add, sub_ne_zero]
  exact fun h => he.1 (hβ i hi e (hE e he.2) h).symm

/-- the error-locator polynomial `Λ = ∏_{e∈E} (X - ω_e)` -/
def locPoly (β : ℕ → K) (k : ℕ) (E : Finset ℕ) : K[X] := Lagrange.nodal E (omega β k)

/-- `Λ(ω_i) = Λ_i` at a present position -/
theorem eval_locPoly_of_notMem {E : Finset ℕ} {i : ℕ} (hi : i ∉ E) :
    (locPoly β k E).eval (omega β k i) = locVal β k E i := by
  unfold locPoly locVal
  rw [Lagrange.eval_nodal, erase_eq_of_notMem hi]
  exact Finset.prod_congr rfl fun e _ => CharTwo.sub_eq_add _ _

omit [CharP K 2] in
theorem eval_locPoly_of_mem {E : Finset ℕ} {i : ℕ} (hi : i ∈ E) :
    (locPoly β k E).eval (omega β k i) = 0 :=
  Lagrange.eval_nodal_at_node hi

/-- `Λ'(ω_e) = Λ_e` at an erased position -/
theorem eval_derivative_locPoly {E : Finset ℕ} {i : ℕ} (hi : i ∈ E) :
    (derivative (locPoly β k E)).eval (omega β k i) = locVal β k E i := by
  classical
  unfold locPoly locVal
  rw [Lagrange.eval_nodal_derivative_eval_node_eq hi, Lagrange.eval_nodal]
  exact Finset.prod_congr rfl fun e _ => CharTwo.sub_eq_add _ _

/-! ### degree ⇔ vanishing top coefficients -/

omit [CharP K 2] in
/-- coefficients vanishing on `[d, 2^T)` give degree `< d` -/
theorem degree_Pp_lt_of_zero_above {T d : ℕ} {a : ℕ → K}
    (ha : ∀ j, d ≤ j → j < 2 ^ T → a j = 0) : (Pp β k T a).degree < (d : WithBot ℕ) := by
  rw [← mem_degreeLT]
  unfold Pp
  refine Submodule.sum_mem _ fun j hj => ?_
  by_cases hjd : j < d
  · rw [mem_degreeLT]
    refine lt_of_le_of_lt degree_le_natDegree ?_
    have h1 : (C (a j) * Xp β k j).natDegree ≤ j :=
      (natDegree_C_mul_le _ _).trans ((natDegree_Xp_le β k j).trans (Nat.mod_le _ _))
    exact_mod_cast lt_of_le_of_lt h1 hjd
  · rw [ha j (Nat.le_of_not_lt hjd) (mem_range.mp hj), C_0, zero_mul]
    exact Submodule.zero_mem _

omit [CharP K 2] in
/-- conversely (the `X_j` have degree exactly `j`): degree `< d` forces the coefficients on
`[d, 2^T)` to vanish -/
theorem zero_above_of_degree_Pp_lt (hβ : Indep β k) {T d : ℕ} (hT : T ≤ k) {a : ℕ → K}
    (hdeg : (Pp β k T a).degree < (d : WithBot ℕ)) : ∀ j, d ≤ j → j < 2 ^ T → a j = 0 := by
  have hle : 2 ^ T ≤ 2 ^ k := Nat.pow_le_pow_right (by decide) hT
  suffices h : ∀ N, N ≤ 2 ^ T →
      (∑ j ∈ range N, C (a j) * Xp β k j).degree < (d : WithBot ℕ) →
      ∀ j, d ≤ j → j < N → a j = 0 from h (2 ^ T) le_rfl hdeg
  intro N
  induction N with
  | zero => intro _ _ j _ hj; omega
  | succ N ih =>
    intro hN hd
    rw [Finset.sum_range_succ] at hd
    by_cases hdN : d ≤ N
    · have hS : (∑ j ∈ range N, C (a j) * Xp β k j).degree < (N : WithBot ℕ) := by
        rw [← mem_degreeLT]
        refine Submodule.sum_mem _ fun j hj => ?_
        rw [mem_degreeLT]
        refine lt_of_le_of_lt degree_le_natDegree ?_
        have h1 : (C (a j) * Xp β k j).natDegree ≤ j :=
          (natDegree_C_mul_le _ _).trans ((natDegree_Xp_le β k j).trans (Nat.mod_le _ _))
        exact_mod_cast lt_of_le_of_lt h1 (mem_range.mp hj)
      have hXN : (Xp β k N).natDegree = N := natDegree_Xp_of_lt hβ (by omega)
      have hc0 : (∑ j ∈ range N, C (a j) * Xp β k j + C (a N) * Xp β k N).coeff N = 0 :=
        coeff_eq_zero_of_degree_lt (lt_of_lt_of_le hd (by exact_mod_cast hdN))
      rw [coeff_add, coeff_eq_zero_of_degree_lt hS, zero_add, coeff_C_mul] at hc0
      have hlc : (Xp β k N).coeff N ≠ 0 := by
        have h0 : Xp β k N ≠ 0 := by
          intro h
          have h2 := natDegree_Xp_of_lt hβ (show N + 1 - 1 < 2 ^ k by omega)
          by_cases hN0 : N = 0
          · subst hN0
            have : Xp β k 0 = 1 := by simp [Xp]
            rw [this] at h
            exact one_ne_zero h
          · rw [h, natDegree_zero] at hXN
            exact hN0 hXN.symm
        have := leadingCoeff_ne_zero.mpr h0
        rwa [leadingCoeff, hXN] at this
      have haN : a N = 0 := (mul_eq_zero.mp hc0).resolve_right hlc
      rw [haN, C_0, zero_mul, add_zero] at hd
      intro j hdj hj
      rcases Nat.lt_succ_iff_lt_or_eq.mp hj with h | h
      · exact ih (by omega) hd j hdj h
      · rw [h]; exact haN
    · intro j hdj hj; omega

/-! ### interpolation: a polynomial of degree `< 2^T` in the novel basis -/

/-- a polynomial of degree `< 2^T` with values `w j` at the points `ω_j` is `Pp T (ifft T 0 w)` -/
theorem Pp_ifft_eq_of_eval (hβ : Indep β k) {T : ℕ} (hT : T ≤ k) {g : K[X]} {w : ℕ → K}
    (hdeg : g.degree < ((2 ^ T : ℕ) : WithBot ℕ))
    (hev : ∀ j < 2 ^ T, g.eval (omega β k j) = w j) : g = Pp β k T (ifft β k T 0 w) := by
  have hle : 2 ^ T ≤ 2 ^ k := Nat.pow_le_pow_right (by decide) hT
  refine eq_of_degrees_lt_of_eval_index_eq (v := fun j => omega β k j) (range (2 ^ T)) ?_ ?_ ?_ ?_
  · intro x hx y hy hxy
    have hx' : x < 2 ^ T := by simpa using hx
    have hy' : y < 2 ^ T := by simpa using hy
    exact hβ x (by omega) y (by omega) hxy
  · rwa [card_range]
  · rw [card_range]; exact degree_Pp_lt β k T _
  · intro j hj
    have hj' := mem_range.mp hj
    have h := P_ifft hβ hT (dvd_zero _) w hj'
    rw [zero_add] at h
    rw [hev j hj', eval_Pp, h]

/-! ### the decoding identity -/

/-- **the decoding identity**, for any work vector `w` that agrees on `[0, n)` with
`j ↦ if j ∈ E then 0 else c j * Λ_j` -/
theorem decode_identity' (hβ : Indep β k) (hC : Cantor β k) {T m : ℕ} (hT : T ≤ k)
    {a c : ℕ → K} (ha : ∀ j, 2 ^ T - m ≤ j → j < 2 ^ T → a j = 0)
    (hc : ∀ j < 2 ^ T, c j = P β k T a (omega β k j))
    {E : Finset ℕ} (hE : ∀ e ∈ E, e < 2 ^ T) (hcard : E.card ≤ m)
    {w : ℕ → K} (hw : ∀ j < 2 ^ T, w j = if j ∈ E then 0 else c j * locVal β k E j)
    {e : ℕ} (he : e ∈ E) :
    fft β k T 0 (derivLoop (2 ^ T) (ifft β k T 0 w)) e = c e * locVal β k E e := by
  have heT := hE e he
  set b := ifft β k T 0 w with hb
  set g : K[X] := Pp β k T a * locPoly β k E with hg
  -- degree
  have hdeg : g.degree < ((2 ^ T : ℕ) : WithBot ℕ) := by
    by_cases hf0 : Pp β k T a = 0
    · rw [hg, hf0, zero_mul, degree_zero]; exact WithBot.bot_lt_coe _
    · have h1 : (Pp β k T a).natDegree < 2 ^ T - m :=
        (natDegree_lt_iff_degree_lt hf0).mpr (degree_Pp_lt_of_zero_above ha)
      have h2 : (locPoly β k E).natDegree = E.card := Lagrange.natDegree_nodal
      have h3 : g.natDegree ≤ (Pp β k T a).natDegree + (locPoly β k E).natDegree :=
        natDegree_mul_le
      refine lt_of_le_of_lt degree_le_natDegree ?_
      exact_mod_cast (show g.natDegree < 2 ^ T by omega)
  -- values
  have hev : ∀ j < 2 ^ T, g.eval (omega β k j) = w j := by
    intro j hj
    rw [hw j hj, hg, eval_mul, eval_Pp]
    by_cases hjE : j ∈ E
    · rw [if_pos hjE, eval_locPoly_of_mem hjE, mul_zero]
    · rw [if_neg hjE, eval_locPoly_of_notMem hjE, hc j hj]
  have hgb : g = Pp β k T b := Pp_ifft_eq_of_eval hβ hT hdeg hev
  -- the loop
  have hloop : ∀ l < 2 ^ T, derivLoop (2 ^ T) b l = b l + derivCoeff T b l :=
    fun l hl => derivLoop_eq_derivCoeff b hl
  have h0 := fft_correct hβ hT (dvd_zero _) (derivLoop (2 ^ T) b) heT
  rw [zero_add] at h0
  rw [h0, P_congr β k hloop, P_add, ← eval_Pp, ← eval_Pp, ← derivative_Pp hβ hC hT, ← hgb,
    hev e heT, hw e heT, if_pos he, zero_add, hg, derivative_mul, eval_add, eval_mul, eval_mul,
    eval_locPoly_of_mem he, mul_zero, zero_add, eval_derivative_locPoly he, eval_Pp, hc e heT]

/-- **the decoding identity** in the literal form of the decoder -/
theorem decode_identity (hβ : Indep β k) (hC : Cantor β k) {T m : ℕ} (hT : T ≤ k)
    {a c : ℕ → K} (ha : ∀ j, 2 ^ T - m ≤ j → j < 2 ^ T → a j = 0)
    (hc : ∀ j < 2 ^ T, c j = P β k T a (omega β k j))
    {E : Finset ℕ} (hE : ∀ e ∈ E, e < 2 ^ T) (hcard : E.card ≤ m) {e : ℕ} (he : e ∈ E) :
    fft β k T 0 (derivLoop (2 ^ T)
        (ifft β k T 0 (fun j => if j ∈ E then 0 else c j * locVal β k E j))) e
      = c e * locVal β k E e :=
  decode_identity' hβ hC hT ha hc hE hcard (fun _ _ => rfl) he

/-- **the recipe**: transform, differentiate, transform back, divide by `Λ'(ω_e)` -/
theorem decode_recover (hβ : Indep β k) (hC : Cantor β k) {T m : ℕ} (hT : T ≤ k)
    {a c : ℕ → K} (ha : ∀ j, 2 ^ T - m ≤ j → j < 2 ^ T → a j = 0)
    (hc : ∀ j < 2 ^ T, c j = P β k T a (omega β k j))
    {E : Finset ℕ} (hE : ∀ e ∈ E, e < 2 ^ T) (hcard : E.card ≤ m)
    {w : ℕ → K} (hw : ∀ j < 2 ^ T, w j = if j ∈ E then 0 else c j * locVal β k E j)
    {e : ℕ} (he : e ∈ E) :
    fft β k T 0 (derivLoop (2 ^ T) (ifft β k T 0 w)) e * (locVal β k E e)⁻¹ = c e := by
  have hle : 2 ^ T ≤ 2 ^ k := Nat.pow_le_pow_right (by decide) hT
  have hne : locVal β k E e ≠ 0 :=
    locVal_ne_zero hβ (fun x hx => lt_of_lt_of_le (hE x hx) hle) (lt_of_lt_of_le (hE e he) hle)
  rw [decode_identity' hβ hC hT ha hc hE hcard hw he, mul_assoc, mul_inv_cancel₀ hne, mul_one]

end

end RSV.LCHDecode
