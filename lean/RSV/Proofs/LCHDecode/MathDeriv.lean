import RSV.Proofs.LCHDecode.MathCantor
import Mathlib.Data.Nat.Factorization.Basic

/-!
# Leopard decoder mathematics, part 2: the formal-derivative loop

* `lowbit_two_pow_mul_odd`: `lowbit (2^b · (2c+1)) = 2^b`;
* `derivFold_eq_sum`: after the steps `i = 1 … s` position `x` holds
  `a x + ∑_{1 ≤ i ≤ s, i - lowbit i ≤ x < i} a (x + lowbit i)` — every read sees an ORIGINAL value
  (step `i` writes below `i`, reads at or above `i`);
* `derivLoop_eq_derivCoeff`: `derivLoop (2^T) a l = a l + derivCoeff T a l` for `l < 2^T`: position
  `l` receives `a (l + 2^b)` exactly once for every clear bit `b < T` of `l`, namely in step
  `i = (l / 2^b + 1) · 2^b`.  NOTE the summand `a l`: the loop computes the coefficients of `g + g'`,
  not of `g'` (e.g. `n = 2`: `(a₀, a₁) ↦ (a₀ + a₁, a₁)`); the decoder is still right because its `g`
  vanishes at every erased point;
* `derivLoop_congr`: only the values of `a` on `[0, 2^T)` matter.
-/

namespace RSV.LCHDecode
open Finset

/-! ### `lowbit` -/

theorem lowbit_two_pow_mul_odd (b c : ℕ) : lowbit (2 ^ b * (2 * c + 1)) = 2 ^ b := by
  unfold lowbit
  have hpos := Nat.two_pow_pos b
  have h1 : 2 ^ b * (2 * c + 1) = 2 ^ (b + 1) * c + 2 ^ b := by rw [pow_succ]; ring
  have h2 : 2 ^ b * (2 * c + 1) - 1 = 2 ^ (b + 1) * c + (2 ^ b - 1) := by rw [h1]; omega
  have hlt1 : 2 ^ b < 2 ^ (b + 1) := by rw [pow_succ]; omega
  have hlt2 : 2 ^ b - 1 < 2 ^ (b + 1) := by omega
  have hx : (2 ^ b * (2 * c + 1)) ^^^ (2 ^ b * (2 * c + 1) - 1) = 2 ^ (b + 1) - 1 := by
    rw [h2, h1]
    apply Nat.eq_of_testBit_eq
    intro j
    rw [Nat.testBit_xor, Nat.testBit_two_pow_mul_add _ hlt1, Nat.testBit_two_pow_mul_add _ hlt2,
      Nat.testBit_two_pow_sub_one]
    by_cases hj : j < b + 1
    · simp only [hj, if_true, Nat.testBit_two_pow, Nat.testBit_two_pow_sub_one]
      by_cases hjb : j < b
      · have : b ≠ j := by omega
        simp [hjb, this]
      · have : b = j := by omega
        simp [this]
    · simp [hj]
  rw [hx, Nat.sub_add_cancel Nat.one_le_two_pow, Nat.shiftRight_eq_div_pow, pow_succ]
  simp

/-- every positive number is `2^b · (2c+1)` -/
theorem exists_two_pow_mul_odd {i : ℕ} (hi : 0 < i) : ∃ b c, i = 2 ^ b * (2 * c + 1) := by
  obtain ⟨b, m, ⟨c, rfl⟩, h⟩ := Nat.exists_eq_two_pow_mul_odd (Nat.pos_iff_ne_zero.mp hi)
  exact ⟨b, c, h⟩

/-- the window of step `i` at level `b`, in terms of the position `x` -/
theorem window_iff {i b x : ℕ} (hi : 0 < i) :
    (lowbit i = 2 ^ b ∧ i - 2 ^ b ≤ x ∧ x < i) ↔
      (i = (x / 2 ^ b + 1) * 2 ^ b ∧ x.testBit b = false) := by
  have hpos := Nat.two_pow_pos b
  constructor
  · rintro ⟨hl, h1, h2⟩
    obtain ⟨b0, c, rfl⟩ := exists_two_pow_mul_odd hi
    rw [lowbit_two_pow_mul_odd] at hl
    have hb : b0 = b := Nat.pow_right_injective (le_refl 2) hl
    subst hb
    have hx : x / 2 ^ b0 = 2 * c := by
      apply Nat.div_eq_of_lt_le
      · have : 2 ^ b0 * (2 * c + 1) - 2 ^ b0 = 2 * c * 2 ^ b0 := by
          rw [Nat.mul_add, Nat.mul_one, Nat.add_sub_cancel, Nat.mul_comm]
        omega
      · rw [Nat.mul_comm]; exact h2
    refine ⟨by rw [hx, Nat.mul_comm], ?_⟩
    rw [Nat.testBit_eq_decide_div_mod_eq, hx]
    simp
  · rintro ⟨rfl, hb⟩
    have heven : x / 2 ^ b % 2 = 0 := by
      rw [Nat.testBit_eq_decide_div_mod_eq, decide_eq_false_iff_not] at hb; omega
    obtain ⟨c, hc⟩ : ∃ c, x / 2 ^ b = 2 * c := ⟨x / 2 ^ b / 2, by omega⟩
    refine ⟨?_, ?_, ?_⟩
    · rw [hc, Nat.mul_comm]; exact lowbit_two_pow_mul_odd b c
    · rw [Nat.add_mul, Nat.one_mul, Nat.add_sub_cancel, Nat.mul_comm]
      exact Nat.mul_div_le x (2 ^ b)
    · rw [Nat.mul_comm]; exact Nat.lt_mul_div_succ x hpos

variable {K : Type} [Field K]

/-! ### the loop reads original values only -/

/-- after the steps `1 … s` -/
theorem derivFold_eq_sum (s : ℕ) (a : ℕ → K) (x : ℕ) :
    (List.range' 1 s).foldl (fun f i => derivStep i f) a x
      = a x + ∑ i ∈ Ico 1 (s + 1),
          if i - lowbit i ≤ x ∧ x < i then a (x + lowbit i) else 0 := by
  induction s generalizing x with
  | zero => simp
  | succ s ih =>
    rw [List.range'_1_concat, List.foldl_append, List.foldl_cons, List.foldl_nil,
      Finset.sum_Ico_succ_top (by omega : 1 ≤ s + 1)]
    rw [show ∀ g : ℕ → K, derivStep (1 + s) g x
      = (if 1 + s - lowbit (1 + s) ≤ x ∧ x < 1 + s then g x + g (x + lowbit (1 + s)) else g x)
      from fun _ => rfl]
    by_cases hw : 1 + s - lowbit (1 + s) ≤ x ∧ x < 1 + s
    · have hw' : s + 1 - lowbit (s + 1) ≤ x ∧ x < s + 1 := by rwa [Nat.add_comm] at hw
      rw [if_pos hw, if_pos hw', ih x, ih (x + lowbit (1 + s)), Nat.add_comm s 1]
      rw [Finset.sum_eq_zero (s := Ico 1 (1 + s))
        (f := fun i => if i - lowbit i ≤ x + lowbit (1 + s) ∧ x + lowbit (1 + s) < i
          then a (x + lowbit (1 + s) + lowbit i) else 0)]
      · ring
      · intro i hi
        rw [mem_Ico] at hi
        rw [if_neg]
        omega
    · have hw' : ¬ (s + 1 - lowbit (s + 1) ≤ x ∧ x < s + 1) := by rwa [Nat.add_comm] at hw
      rw [if_neg hw, if_neg hw', ih x, add_zero]

/-- the loop on `n` coefficients: a sum of original values -/
theorem derivLoop_eq_sum (n : ℕ) (a : ℕ → K) (x : ℕ) :
    derivLoop n a x
      = a x + ∑ i ∈ Ico 1 n, if i - lowbit i ≤ x ∧ x < i then a (x + lowbit i) else 0 := by
  unfold derivLoop
  rw [derivFold_eq_sum]
  rcases Nat.eq_zero_or_pos n with rfl | hn
  · simp
  · rw [Nat.sub_add_cancel hn]

/-! ### regrouping the steps by level -/

/-- the contributions of all steps to position `x`, regrouped by the bit `b` -/
theorem sum_steps_eq_derivCoeff {T : ℕ} (a : ℕ → K) {x : ℕ} (hx : x < 2 ^ T) :
    (∑ i ∈ Ico 1 (2 ^ T), if i - lowbit i ≤ x ∧ x < i then a (x + lowbit i) else 0)
      = derivCoeff T a x := by
  classical
  have h1 : ∀ i ∈ Ico 1 (2 ^ T),
      (if i - lowbit i ≤ x ∧ x < i then a (x + lowbit i) else 0)
        = ∑ b ∈ range T, if i = (x / 2 ^ b + 1) * 2 ^ b ∧ x.testBit b = false
            then a (x + 2 ^ b) else 0 := by
    intro i hi
    rw [mem_Ico] at hi
    have hipos : 0 < i := hi.1
    obtain ⟨b0, c, hi0⟩ := exists_two_pow_mul_odd hipos
    have hlow : lowbit i = 2 ^ b0 := by rw [hi0]; exact lowbit_two_pow_mul_odd b0 c
    have hb0 : b0 < T := by
      have h2 : 2 ^ b0 ≤ i := by
        rw [hi0]; exact Nat.le_mul_of_pos_right _ (Nat.succ_pos _)
      exact (Nat.pow_lt_pow_iff_right (by decide : 1 < 2)).mp (lt_of_le_of_lt h2 hi.2)
    rw [Finset.sum_eq_single b0]
    · rw [hlow]
      exact if_congr (by rw [← window_iff hipos, hlow]; simp) rfl rfl
    · intro b _ hb
      rw [if_neg]
      rw [← window_iff hipos, hlow]
      rintro ⟨h, -⟩
      exact hb (Nat.pow_right_injective (le_refl 2) h).symm
    · intro h; exact absurd (mem_range.mpr hb0) h
  rw [Finset.sum_congr rfl h1, Finset.sum_comm]
  unfold derivCoeff
  refine Finset.sum_congr rfl fun b hb => ?_
  have hbT := mem_range.mp hb
  by_cases hbit : x.testBit b = true
  · rw [if_pos hbit]
    refine Finset.sum_eq_zero fun i _ => ?_
    rw [if_neg]
    rintro ⟨-, h⟩
    rw [hbit] at h
    exact Bool.noConfusion h
  · have hbit' : x.testBit b = false := by simpa using hbit
    rw [if_neg hbit]
    have hmem : (x / 2 ^ b + 1) * 2 ^ b ∈ Ico 1 (2 ^ T) := by
      rw [mem_Ico]
      have hpos := Nat.two_pow_pos b
      have h2 := add_two_pow_lt hx hbT hbit'
      have h3 : 2 ^ b * (x / 2 ^ b) ≤ x := Nat.mul_div_le x (2 ^ b)
      rw [Nat.add_mul, Nat.one_mul, Nat.mul_comm]
      omega
    rw [Finset.sum_eq_single_of_mem _ hmem]
    · rw [if_pos ⟨rfl, hbit'⟩]
    · intro i _ hne
      rw [if_neg]
      rintro ⟨h, -⟩
      exact hne h

/-- **the formal-derivative loop**: `derivLoop (2^T) a = a + (coefficients of the derivative)` on
`[0, 2^T)`.  (The loop ADDS the derivative to the original vector; at the erased positions the
decoder's polynomial vanishes, so the extra summand contributes nothing after the final FFT.) -/
theorem derivLoop_eq_derivCoeff {T : ℕ} (a : ℕ → K) {l : ℕ} (hl : l < 2 ^ T) :
    derivLoop (2 ^ T) a l = a l + derivCoeff T a l := by
  rw [derivLoop_eq_sum, sum_steps_eq_derivCoeff a hl]

/-- positions at or above `n - 1` are never written -/
theorem derivLoop_ge (n : ℕ) (a : ℕ → K) {x : ℕ} (hx : n ≤ x + 1) : derivLoop n a x = a x := by
  rw [derivLoop_eq_sum, Finset.sum_eq_zero, add_zero]
  intro i hi
  rw [mem_Ico] at hi
  rw [if_neg]
  omega

/-- the loop on `2^T` coefficients only looks at `[0, 2^T)` -/
theorem derivLoop_congr {T : ℕ} {a a' : ℕ → K} (h : ∀ j < 2 ^ T, a j = a' j) {l : ℕ}
    (hl : l < 2 ^ T) : derivLoop (2 ^ T) a l = derivLoop (2 ^ T) a' l := by
  rw [derivLoop_eq_derivCoeff a hl, derivLoop_eq_derivCoeff a' hl, h l hl, derivCoeff_congr h hl]

/-- truncation: if `a` vanishes on `[M, 2^T)` then so does the result of the loop -/
theorem derivLoop_zero_above {T M : ℕ} {a : ℕ → K} (h : ∀ j, M ≤ j → j < 2 ^ T → a j = 0) {l : ℕ}
    (hM : M ≤ l) (hl : l < 2 ^ T) : derivLoop (2 ^ T) a l = 0 := by
  rw [derivLoop_eq_derivCoeff a hl, h l hM hl, zero_add]
  unfold derivCoeff
  refine Finset.sum_eq_zero fun i hi => ?_
  by_cases hb : l.testBit i = true
  · rw [if_pos hb]
  · rw [if_neg hb]
    exact h _ (le_trans hM (Nat.le_add_right _ _)) (add_two_pow_lt hl (mem_range.mp hi) (by simpa using hb))

end RSV.LCHDecode
