import RSV.Proofs.LCHDecode.MathDecode
import RSV.Proofs.LCH.Encode

/-!
# Leopard decoder mathematics, part 3: the encoder produces Reed–Solomon codewords

`m = 2^t` parity positions, `n = 2^(t+d)` points.  The full codeword of the encoder of
`RSV.LCH.Encode` (`codeword`: parity at `[0, m)`, data group `g` at `[(g+1)m, (g+2)m)`, zeros up to
`n`) is the evaluation vector of ONE polynomial of degree `< n - m`:

* `yv h = W_t(ω_{h·m})` — the value of `W_t` on the coset number `h`; `Zp h` — the vanishing
  polynomial of coset `h`, `Zp h (x) = W_t(x) + yv h`;
* `Qp g = κ_g⁻¹ ∏_{h ≠ 0, g+1} Zp h` is `1` on the cosets `0` and `g+1` and `0` on all other cosets
  (`eval_Qp`; the two non-zero values agree because `h ↦ h ⊕ (g+1)` permutes the cosets and `yv` is
  additive: `prod_yv_shift`);
* `Dp = ∑_g p_g · Qp g` (`p_g` the interpolant of data group `g` on its coset) has degree
  `< n - m` (`degree_Dp_lt`) and evaluates to the codeword (`eval_Dp`);
* `codeword_top_zero`: the novel-basis coefficients `ifft T 0 codeword` vanish on `[n - m, n)`;
* `decode_codeword`: the recipe of `MathDecode` recovers every erased symbol of the codeword.
-/

namespace RSV.LCHDecode
open RSV.LCH Finset Polynomial

noncomputable section

variable {K : Type} [Field K] [CharP K 2] (β : ℕ → K) (k : ℕ)

/-- the value of `W_t` on coset number `h` -/
def yv (t h : ℕ) : K := W β k t (omega β k (h * 2 ^ t))

/-- the vanishing polynomial of coset number `h` -/
def Zp (t h : ℕ) : K[X] := ∏ j ∈ range (2 ^ t), (X - C (omega β k (h * 2 ^ t + j)))

/-- the index set of the cosets other than `0` and `g+1` -/
def others (d g : ℕ) : Finset ℕ := ((range (2 ^ d)).erase 0).erase (g + 1)

/-- normalising constant of `Qp` -/
def kap (t d g : ℕ) : K := ∏ h ∈ others d g, yv β k t h

/-- `1` on the cosets `0` and `g+1`, `0` on the others -/
def Qp (t d g : ℕ) : K[X] := C (kap β k t d g)⁻¹ * ∏ h ∈ others d g, Zp β k t h

/-- the interpolant of data group `g` on its coset -/
def pg (t : ℕ) (data : ℕ → ℕ → K) (g : ℕ) : K[X] :=
  Pp β k t (ifft β k t ((g + 1) * 2 ^ t) (data g))

/-- the codeword polynomial -/
def Dp (t d G : ℕ) (data : ℕ → ℕ → K) : K[X] :=
  ∑ g ∈ range G, pg β k t data g * Qp β k t d g

/-- the full codeword: parity, then the data groups, then zeros -/
def codeword (t G : ℕ) (data : ℕ → ℕ → K) : ℕ → K := fun j =>
  if j < 2 ^ t then parity β k t G data j
  else if j < (G + 1) * 2 ^ t then data (j / 2 ^ t - 1) (j % 2 ^ t) else 0

variable {β k}

omit [CharP K 2] in
theorem mem_others {d g h : ℕ} : h ∈ others d g ↔ h ≠ g + 1 ∧ h ≠ 0 ∧ h < 2 ^ d := by
  unfold others; simp only [mem_erase, mem_range]

omit [CharP K 2] in
theorem card_others {d g : ℕ} (hg : g + 1 < 2 ^ d) : (others d g).card = 2 ^ d - 2 := by
  unfold others
  rw [card_erase_of_mem, card_erase_of_mem, card_range]
  · rfl
  · exact mem_range.mpr (by omega)
  · exact mem_erase.mpr ⟨Nat.succ_ne_zero g, mem_range.mpr hg⟩

/-! ### the cosets of `V_t` -/

theorem eval_Zp {t : ℕ} (ht : t ≤ k) (h : ℕ) (x : K) :
    (Zp β k t h).eval x = W β k t x + yv β k t h := by
  unfold Zp yv
  rw [eval_prod]
  simp only [eval_sub, eval_X, eval_C]
  exact prod_coset ht (Dvd.intro_left _ rfl) x

theorem eval_Zp_omega {t : ℕ} (ht : t ≤ k) (h j : ℕ) :
    (Zp β k t h).eval (omega β k j) = yv β k t (j / 2 ^ t) + yv β k t h := by
  rw [eval_Zp ht, W_omega_shift β k ht j]
  rfl

omit [CharP K 2] in
theorem natDegree_Zp (t h : ℕ) : (Zp β k t h).natDegree = 2 ^ t := by
  unfold Zp
  rw [natDegree_prod_of_monic _ _ fun j _ => monic_X_sub_C _]
  simp

theorem yv_zero {t : ℕ} (ht : t ≤ k) : yv β k t 0 = 0 := by
  unfold yv; rw [zero_mul, omega_zero, W_apply_zero β k ht]

theorem yv_xor {t : ℕ} (ht : t ≤ k) (a b : ℕ) :
    yv β k t (a ^^^ b) = yv β k t a + yv β k t b := by
  unfold yv
  rw [← Nat.shiftLeft_eq, Nat.shiftLeft_xor_distrib, Nat.shiftLeft_eq, Nat.shiftLeft_eq,
    omega_xor, W_add β k ht]

omit [CharP K 2] in
theorem yv_ne_zero (hβ : Indep β k) {t h : ℕ} (h0 : 0 < h) (hh : h * 2 ^ t < 2 ^ k) :
    yv β k t h ≠ 0 :=
  W_omega_ne_zero hβ hh (Nat.le_mul_of_pos_left _ h0)

omit [CharP K 2] in
theorem kap_ne_zero (hβ : Indep β k) {t d g : ℕ} (hk : t + d ≤ k) : kap β k t d g ≠ 0 := by
  unfold kap
  rw [Finset.prod_ne_zero_iff]
  intro h hh
  rw [mem_others] at hh
  refine yv_ne_zero hβ (Nat.pos_of_ne_zero hh.2.1) ?_
  have h1 : h * 2 ^ t < 2 ^ d * 2 ^ t := Nat.mul_lt_mul_of_pos_right hh.2.2 (Nat.two_pow_pos t)
  have h2 : 2 ^ d * 2 ^ t = 2 ^ (t + d) := by rw [← pow_add, Nat.add_comm]
  have h3 : 2 ^ (t + d) ≤ 2 ^ k := Nat.pow_le_pow_right (by decide) hk
  omega

/-- `h ↦ h ⊕ (g+1)` permutes the cosets other than `0`, `g+1` -/
theorem prod_yv_shift {t : ℕ} (ht : t ≤ k) {d g : ℕ} (hg : g + 1 < 2 ^ d) :
    ∏ h ∈ others d g, (yv β k t (g + 1) + yv β k t h) = kap β k t d g := by
  unfold kap
  have hmap : ∀ h ∈ others d g, (g + 1) ^^^ h ∈ others d g := by
    intro h hh
    rw [mem_others] at hh ⊢
    refine ⟨fun e => ?_, fun e => ?_, Nat.xor_lt_two_pow hg hh.2.2⟩
    · have h' : (g + 1) ^^^ ((g + 1) ^^^ h) = (g + 1) ^^^ (g + 1) :=
        congrArg (fun z => (g + 1) ^^^ z) e
      rw [Nat.xor_xor_cancel_left, Nat.xor_self] at h'
      exact hh.2.1 h'
    · exact hh.1 (Nat.xor_eq_zero_iff.mp e).symm
  refine Finset.prod_nbij' (fun h => (g + 1) ^^^ h) (fun h => (g + 1) ^^^ h) hmap hmap ?_ ?_ ?_
  · intro h _; exact Nat.xor_xor_cancel_left _ _
  · intro h _; exact Nat.xor_xor_cancel_left _ _
  · intro h _; exact (yv_xor ht _ _).symm

/-- `Qp g` on the points: `1` on the cosets `0` and `g+1`, `0` elsewhere -/
theorem eval_Qp (hβ : Indep β k) {t d g j : ℕ} (hk : t + d ≤ k) (hg : g + 1 < 2 ^ d)
    (hj : j < 2 ^ (t + d)) :
    (Qp β k t d g).eval (omega β k j) = if j / 2 ^ t = 0 ∨ j / 2 ^ t = g + 1 then 1 else 0 := by
  have ht : t ≤ k := by omega
  have hκ := kap_ne_zero (β := β) (g := g) hβ hk
  have hh' : j / 2 ^ t < 2 ^ d := by
    rw [Nat.div_lt_iff_lt_mul (Nat.two_pow_pos t), ← pow_add, Nat.add_comm]; exact hj
  unfold Qp
  rw [eval_mul, eval_C, eval_prod]
  simp only [eval_Zp_omega ht]
  by_cases h0 : j / 2 ^ t = 0
  · rw [if_pos (Or.inl h0), h0, yv_zero ht]
    simp only [zero_add]
    exact inv_mul_cancel₀ hκ
  · by_cases h1 : j / 2 ^ t = g + 1
    · rw [if_pos (Or.inr h1), h1, prod_yv_shift ht hg]
      exact inv_mul_cancel₀ hκ
    · rw [if_neg (by tauto), Finset.prod_eq_zero (mem_others.mpr ⟨h1, h0, hh'⟩)
        (CharTwo.add_self_eq_zero (yv β k t (j / 2 ^ t))), mul_zero]

omit [CharP K 2] in
theorem natDegree_Qp_le {t d g : ℕ} (hg : g + 1 < 2 ^ d) :
    (Qp β k t d g).natDegree ≤ (2 ^ d - 2) * 2 ^ t := by
  unfold Qp
  refine (natDegree_C_mul_le _ _).trans ((natDegree_prod_le _ _).trans ?_)
  rw [Finset.sum_congr rfl fun h _ => natDegree_Zp (β := β) (k := k) t h, Finset.sum_const,
    card_others hg, smul_eq_mul]

/-! ### the codeword polynomial -/

omit [CharP K 2] in
theorem degree_Dp_lt {t d G : ℕ} (hG : G + 1 ≤ 2 ^ d) (data : ℕ → ℕ → K) :
    (Dp β k t d G data).degree < ((2 ^ (t + d) - 2 ^ t : ℕ) : WithBot ℕ) := by
  rw [← mem_degreeLT]
  unfold Dp
  refine Submodule.sum_mem _ fun g hg => ?_
  have hg' : g + 1 < 2 ^ d := by have := mem_range.mp hg; omega
  rw [mem_degreeLT]
  refine lt_of_le_of_lt degree_le_natDegree ?_
  have h1 : (pg β k t data g).natDegree < 2 ^ t := by
    by_cases h0 : pg β k t data g = 0
    · rw [h0, natDegree_zero]; exact Nat.two_pow_pos t
    · exact (natDegree_lt_iff_degree_lt h0).mpr (degree_Pp_lt β k t _)
  have h2 := natDegree_Qp_le (β := β) (k := k) (t := t) hg'
  have h3 : (pg β k t data g * Qp β k t d g).natDegree
      ≤ (pg β k t data g).natDegree + (Qp β k t d g).natDegree := natDegree_mul_le
  have h4 : 2 ^ (t + d) = 2 ^ d * 2 ^ t := by rw [← pow_add, Nat.add_comm]
  have h5 : (2 ^ d - 2) * 2 ^ t + 2 ^ t + 2 ^ t = 2 ^ d * 2 ^ t := by
    have : 2 ^ d = (2 ^ d - 2) + 1 + 1 := by omega
    conv_rhs => rw [this]
    ring
  exact_mod_cast (show (pg β k t data g * Qp β k t d g).natDegree < 2 ^ (t + d) - 2 ^ t by omega)

/-- the parity symbols are the sum of the group interpolants on `V_t` -/
theorem parity_eq_sum (hβ : Indep β k) {t G : ℕ} (ht : t ≤ k) (data : ℕ → ℕ → K) {r : ℕ}
    (hr : r < 2 ^ t) :
    parity β k t G data r = ∑ g ∈ range G, (pg β k t data g).eval (omega β k r) := by
  unfold parity pg
  rw [fft_sum_apply]
  refine Finset.sum_congr rfl fun g _ => ?_
  rw [fft_correct hβ ht (dvd_zero _) _ hr, zero_add, eval_Pp]

/-- **the codeword is the evaluation vector of `Dp`** -/
theorem eval_Dp (hβ : Indep β k) {t d G : ℕ} (hk : t + d ≤ k) (hG : G + 1 ≤ 2 ^ d)
    (data : ℕ → ℕ → K) {j : ℕ} (hj : j < 2 ^ (t + d)) :
    (Dp β k t d G data).eval (omega β k j) = codeword β k t G data j := by
  have ht : t ≤ k := by omega
  have hm := Nat.two_pow_pos t
  unfold Dp
  rw [eval_finsetSum]
  have hterm : ∀ g ∈ range G, (pg β k t data g * Qp β k t d g).eval (omega β k j)
      = if j / 2 ^ t = 0 ∨ j / 2 ^ t = g + 1 then (pg β k t data g).eval (omega β k j) else 0 := by
    intro g hg
    have hg' : g + 1 < 2 ^ d := by have := mem_range.mp hg; omega
    rw [eval_mul, eval_Qp hβ hk hg' hj]
    split <;> simp
  rw [Finset.sum_congr rfl hterm]
  unfold codeword
  by_cases hlo : j < 2 ^ t
  · rw [if_pos hlo, parity_eq_sum hβ ht data hlo]
    refine Finset.sum_congr rfl fun g _ => ?_
    rw [if_pos (Or.inl (Nat.div_eq_of_lt hlo))]
  · rw [if_neg hlo]
    have hdiv : 1 ≤ j / 2 ^ t := (Nat.one_le_div_iff hm).mpr (Nat.le_of_not_lt hlo)
    by_cases hmid : j < (G + 1) * 2 ^ t
    · rw [if_pos hmid]
      have hq : j / 2 ^ t < G + 1 := (Nat.div_lt_iff_lt_mul hm).mpr hmid
      have hmem : j / 2 ^ t - 1 ∈ range G := mem_range.mpr (by omega)
      rw [Finset.sum_eq_single_of_mem _ hmem]
      · rw [if_pos (Or.inr (by omega))]
        unfold pg
        rw [eval_Pp]
        have hidx : (j / 2 ^ t - 1 + 1) * 2 ^ t + j % 2 ^ t = j := by
          rw [Nat.sub_add_cancel hdiv]; exact Nat.div_add_mod' j (2 ^ t)
        have := P_ifft hβ ht (Dvd.intro_left (j / 2 ^ t - 1 + 1) rfl) (data (j / 2 ^ t - 1))
          (Nat.mod_lt j hm)
        rwa [hidx] at this
      · intro g _ hne
        rw [if_neg]
        omega
    · rw [if_neg hmid]
      have hq : G + 1 ≤ j / 2 ^ t := (Nat.le_div_iff_mul_le hm).mpr (Nat.le_of_not_lt hmid)
      refine Finset.sum_eq_zero fun g hg => ?_
      have := mem_range.mp hg
      rw [if_neg]
      omega

omit [CharP K 2] in
/-- the codeword in the coordinates of the task description -/
theorem codeword_parity {t G : ℕ} (data : ℕ → ℕ → K) {r : ℕ} (hr : r < 2 ^ t) :
    codeword β k t G data r = parity β k t G data r := by
  unfold codeword; rw [if_pos hr]

omit [CharP K 2] in
theorem codeword_data {t G : ℕ} (data : ℕ → ℕ → K) {x : ℕ} (hx : x < G * 2 ^ t) :
    codeword β k t G data (2 ^ t + x) = data (x / 2 ^ t) (x % 2 ^ t) := by
  have hm := Nat.two_pow_pos t
  unfold codeword
  rw [if_neg (by omega), if_pos (by rw [Nat.add_mul]; omega)]
  congr 1
  · rw [Nat.add_comm, Nat.add_div_right _ hm]; rfl
  · rw [Nat.add_mod_left]

omit [CharP K 2] in
theorem codeword_pad {t G : ℕ} (data : ℕ → ℕ → K) {j : ℕ} (hj : (G + 1) * 2 ^ t ≤ j) :
    codeword β k t G data j = 0 := by
  have hm := Nat.two_pow_pos t
  have : 2 ^ t ≤ (G + 1) * 2 ^ t := Nat.le_mul_of_pos_left _ (Nat.succ_pos G)
  unfold codeword
  rw [if_neg (by omega), if_neg (by omega)]

/-- **RS form of the encoder**: the novel-basis coefficients of the codeword vanish on `[n - m, n)`,
i.e. the codeword is the evaluation vector of a polynomial of degree `< n - m` -/
theorem codeword_top_zero (hβ : Indep β k) {t T G : ℕ} (htT : t ≤ T) (hT : T ≤ k)
    (hG : (G + 1) * 2 ^ t ≤ 2 ^ T) (data : ℕ → ℕ → K) :
    ∀ j, 2 ^ T - 2 ^ t ≤ j → j < 2 ^ T → ifft β k T 0 (codeword β k t G data) j = 0 := by
  obtain ⟨d, rfl⟩ := Nat.exists_eq_add_of_le htT
  have hG' : G + 1 ≤ 2 ^ d := by
    rw [pow_add, Nat.mul_comm (2 ^ t)] at hG
    exact Nat.le_of_mul_le_mul_right hG (Nat.two_pow_pos t)
  have hdeg := degree_Dp_lt (β := β) (k := k) (t := t) hG' data
  have hlt : (Dp β k t d G data).degree < ((2 ^ (t + d) : ℕ) : WithBot ℕ) :=
    lt_of_lt_of_le hdeg (by exact_mod_cast Nat.sub_le _ _)
  have hD := Pp_ifft_eq_of_eval hβ hT hlt (fun j hj => eval_Dp hβ hT hG' data hj)
  rw [hD] at hdeg
  exact zero_above_of_degree_Pp_lt hβ hT hdeg

/-- the codeword as evaluations of its own interpolant (for use with `decode_identity`) -/
theorem codeword_eq_eval (hβ : Indep β k) {t T G : ℕ} (hT : T ≤ k) (data : ℕ → ℕ → K) {j : ℕ}
    (hj : j < 2 ^ T) :
    codeword β k t G data j
      = P β k T (ifft β k T 0 (codeword β k t G data)) (omega β k j) := by
  have := P_ifft hβ hT (dvd_zero _) (codeword β k t G data) hj
  rw [zero_add] at this
  exact this.symm

/-- **erasure decoding of Leopard codewords**: with at most `m = 2^t` erasures `E ⊆ [0, n)`,
`w j = if j ∈ E then 0 else c j * Λ_j`, every erased symbol is
`fft (derivLoop (ifft w)) e * Λ_e⁻¹` -/
theorem decode_codeword (hβ : Indep β k) (hC : Cantor β k) {t T G : ℕ} (htT : t ≤ T) (hT : T ≤ k)
    (hG : (G + 1) * 2 ^ t ≤ 2 ^ T) (data : ℕ → ℕ → K)
    {E : Finset ℕ} (hE : ∀ e ∈ E, e < 2 ^ T) (hcard : E.card ≤ 2 ^ t)
    {w : ℕ → K} (hw : ∀ j < 2 ^ T, w j =
      if j ∈ E then 0 else codeword β k t G data j * locVal β k E j)
    {e : ℕ} (he : e ∈ E) :
    fft β k T 0 (derivLoop (2 ^ T) (ifft β k T 0 w)) e * (locVal β k E e)⁻¹
      = codeword β k t G data e :=
  decode_recover hβ hC hT (codeword_top_zero hβ htT hT hG data)
    (fun _ hj => codeword_eq_eval hβ hT data hj) hE hcard hw he

end

end RSV.LCHDecode
