import RSV.Proofs.LCHDecode.PruneFft
import RSV.Model.LeopardPrunedBits
import RSV.Proofs.Bitfield
import RSV.Proofs.LeoField.Loops
/-!
# The word-level bit fields are sound for the rows the decoder reads (core Lean only)

* `need8 d p missing recoverAll lvl r` (`RSV/Model/LeopardPrunedBits.lean`) = `errorBits.isNeeded(lvl, r)` of `leopard8.go`
  after the `set` calls of `reconstruct` (`errorBitPositions`, `RSV/Model/LeopardPruned.lean`) and `prepare()`: the
  word-level model `BF8` of `RSV/Model/BitfieldImpl.lean`; `need16`: the same for `leopard.go` (`BF16`);
* `reconLive_mem`: every row `reconstruct` reads is a position that was `set` (the padding `p … m`, set when `recoverAll`,
  is never read: a harmless spurious `true`);
* `needed_of_mem`: the L0 predicate `Bitfield.needed` is `true` at the start of the aligned `2^lvl`-block of an erased
  position, for every level `≥ 1`;
* `needSound8`, `needSound16`: `NeedSound (reconLive …) (need8 …)`, via `bf8_prepare` / `bf16_prepare` (`isNeeded` after
  `prepare` = `Bitfield.needed`).  GF(2^16) `isNeeded` at level `0` is never queried (`NeedSound` asks for levels `≥ 1` only:
  the pruned loops test the levels `t, t-2, … ≥ 2` in the radix-4 passes and `1` in the final radix-2 pass).
-/
namespace RSV.LCHDecode
open RSV.Model.Leo RSV.Proofs.LeoSched RSV.Proofs.LeoSchedRange RSV.Proofs.LCHSched
open RSV.Model.BitfieldImpl

/-- every row that `reconstruct` reads was `set` in the bit field -/
theorem reconLive_mem (d p : Nat) (missing : Nat → Bool) (recoverAll : Bool) (x : Nat)
    (h : reconLive d p missing recoverAll x = true) : x ∈ errorBitPositions d p missing recoverAll := by
  unfold reconLive at h
  unfold errorBitPositions
  simp only
  by_cases hx : x < ceilPow2 p
  · rw [if_pos hx] at h
    simp only [Bool.and_eq_true, decide_eq_true_eq] at h
    apply List.mem_append_left
    apply List.mem_append_left
    rw [List.mem_filter, List.mem_range]
    exact ⟨h.2.1, by rw [h.1, h.2.2]; rfl⟩
  · rw [if_neg hx] at h
    simp only [Bool.and_eq_true, decide_eq_true_eq] at h
    apply List.mem_append_right
    rw [List.mem_map]
    refine ⟨x - ceilPow2 p, ?_, by omega⟩
    rw [List.mem_filter, List.mem_range]
    exact ⟨by omega, h.2⟩

/-- every position that is `set` lies below `m + d` -/
theorem errorBitPositions_lt (d p : Nat) (missing : Nat → Bool) (recoverAll : Bool)
    (hpm : p ≤ ceilPow2 p) (e : Nat) (he : e ∈ errorBitPositions d p missing recoverAll) :
    e < ceilPow2 p + d := by
  unfold errorBitPositions at he
  simp only [List.mem_append, List.mem_filter, List.mem_range, List.mem_range'_1, List.mem_map] at he
  rcases he with (h | h) | ⟨i, hi, rfl⟩
  · omega
  · omega
  · omega

/-- the L0 predicate holds at the start of the aligned `2^lvl`-block of an erased position -/
theorem needed_of_mem (bits : Nat) (erased : List Nat) (lvl e : Nat) (hl : 1 ≤ lvl) (he : e ∈ erased) :
    RSV.Model.Bitfield.needed bits erased lvl (e / 2 ^ lvl * 2 ^ lvl) = true := by
  unfold RSV.Model.Bitfield.needed
  by_cases hb : lvl ≥ bits
  · rw [if_pos hb]
  · rw [if_neg hb, if_neg (by omega), List.any_eq_true]
    refine ⟨e, he, ?_⟩
    rw [Nat.shiftRight_eq_div_pow, Nat.shiftRight_eq_div_pow, Nat.mul_div_cancel _ (Nat.two_pow_pos lvl)]
    exact beq_self_eq_true _

/-- **GF(2^8)**: the prepared `errorBitfield8` is sound for the rows `reconstruct` reads -/
theorem needSound8 (d p : Nat) (missing : Nat → Bool) (recoverAll : Bool) (T : Nat)
    (hpm : p ≤ ceilPow2 p) (hadm : ceilPow2 p + d ≤ 256) :
    NeedSound (reconLive d p missing recoverAll) (need8 d p missing recoverAll) T (ceilPow2 p + d) := by
  intro lvl x h1 _ hx hl
  have hle := Nat.div_mul_le_self x (2 ^ lvl)
  show ((BF8.ofList (errorBitPositions d p missing recoverAll)).prepare).isNeeded lvl _ = true
  rw [RSV.Proofs.Bitfield.bf8_prepare _
    (fun e he => by have := errorBitPositions_lt d p missing recoverAll hpm e he; omega) lvl _ (by omega)]
  exact needed_of_mem 8 _ lvl x h1 (reconLive_mem d p missing recoverAll x hl)

/-- **GF(2^16)**: the prepared `errorBitfield` is sound for the rows `reconstruct` reads -/
theorem needSound16 (d p : Nat) (missing : Nat → Bool) (recoverAll : Bool) (T : Nat)
    (hpm : p ≤ ceilPow2 p) (hadm : ceilPow2 p + d ≤ 65536) :
    NeedSound (reconLive d p missing recoverAll) (need16 d p missing recoverAll) T (ceilPow2 p + d) := by
  intro lvl x h1 _ hx hl
  have hle := Nat.div_mul_le_self x (2 ^ lvl)
  show ((BF16.ofList (errorBitPositions d p missing recoverAll)).prepare).isNeeded lvl _ = true
  rw [RSV.Proofs.Bitfield.bf16_prepare _
    (fun e he => by have := errorBitPositions_lt d p missing recoverAll hpm e he; omega) lvl _ h1 (by omega)]
  exact needed_of_mem 16 _ lvl x h1 (reconLive_mem d p missing recoverAll x hl)

/-- the shapes of the decoder: `n = ceilPow2 (m + d) = 2^T ≤ 2^K` -/
theorem recon_shape (d p K : Nat) (hK : K ≤ 64) (hadm : ceilPow2 p + d ≤ 2 ^ K) :
    ∃ T, ceilPow2 (ceilPow2 p + d) = 2 ^ T ∧ ceilPow2 p + d ≤ 2 ^ T ∧ T ≤ K := by
  obtain ⟨T, hT⟩ := ceilPow2_pow2 (ceilPow2 p + d)
  have h64 : (2 : Nat) ^ K ≤ 2 ^ 64 := Nat.pow_le_pow_right (by decide) hK
  have h1 := le_ceilPow2 (ceilPow2 p + d) (by omega)
  have h2 := ceilPow2_le_pow (ceilPow2 p + d) K hadm
  rw [hT] at h1 h2
  exact ⟨T, hT, h1, (Nat.pow_le_pow_iff_right (a := 2) (by decide)).mp h2⟩

/-- **GF(2^8)**: the decoder that runs its final FFT through the prepared `errorBitfield8` returns exactly what the
decoder with the full FFT returns — every admissible shape, every erasure set, both modes -/
theorem reconstructPruned_bf8 (d p len : Nat) (sh : Array Vec) (missing : Nat → Bool) (recoverAll : Bool)
    (hadm : ceilPow2 p + d ≤ 256) :
    reconstructPruned (mkCtx P8) (need8 d p missing recoverAll) d p len sh missing recoverAll =
      reconstruct (mkCtx P8) d p len sh missing recoverAll := by
  have hpm : p ≤ ceilPow2 p := RSV.Proofs.LeoField.le_ceilPow2 (by omega)
  obtain ⟨T, hn, hmn, hT⟩ := recon_shape d p 8 (by decide) hadm
  have hb : (mkCtx P8).P.bits = 8 := rfl
  exact reconstructPruned_eq (mkCtx P8) _ d p len sh missing recoverAll T hn (by rw [hb]; omega) hpm hmn
    (needSound8 d p missing recoverAll T hpm hadm)

/-- **GF(2^16)**: the same with `errorBitfield` -/
theorem reconstructPruned_bf16 (d p len : Nat) (sh : Array Vec) (missing : Nat → Bool) (recoverAll : Bool)
    (hadm : ceilPow2 p + d ≤ 65536) :
    reconstructPruned (mkCtx P16) (need16 d p missing recoverAll) d p len sh missing recoverAll =
      reconstruct (mkCtx P16) d p len sh missing recoverAll := by
  have hpm : p ≤ ceilPow2 p := by
    rcases RSV.Proofs.LeoField.ceilPow2_spec p with h1 | h1
    · exact h1
    · rw [h1] at hadm; omega
  obtain ⟨T, hn, hmn, hT⟩ := recon_shape d p 16 (by decide) hadm
  have hb : (mkCtx P16).P.bits = 16 := rfl
  exact reconstructPruned_eq (mkCtx P16) _ d p len sh missing recoverAll T hn (by rw [hb]; omega) hpm hmn
    (needSound16 d p missing recoverAll T hpm hadm)

end RSV.LCHDecode

#print axioms RSV.LCHDecode.needSound8
#print axioms RSV.LCHDecode.needSound16
#print axioms RSV.LCHDecode.reconstructPruned_bf8
#print axioms RSV.LCHDecode.reconstructPruned_bf16
