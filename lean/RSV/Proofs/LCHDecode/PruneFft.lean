import RSV.Proofs.LCHDecode.PrunePass
/-!
# Soundness of the bit-field pruning of the final FFT (core Lean only)

* `NeedSound live need t mtrunc`: the bit field is sound (one-sided) for the read set `live`: for every level
  `1 ≤ lvl ≤ t` and every live row `x < mtrunc`, `need lvl` answers `true` at the start `x / 2^lvl · 2^lvl` of the aligned
  `2^lvl`-block of `x` (a spurious `true` anywhere is harmless; level `0` is never queried);
  `NeedSound.of_blocks`: the formulation "every `r` in the block of a live `x`" implies it;
* `run_fftLayersPruned`: rows of the final-pass block (size `2` for odd `t`, `4` for even `t`) of a live row are the rows
  of the clean forward network `fftRows`;
* `prune_sound`: **on every live row `x < mtrunc` the pruned transform equals the un-pruned one**;
* `run_fftLayersPruned_size`, `run_reconSchedPruned_row`, `reconstructPruned_eq`: the decoder with the pruned final
  transform returns exactly what `reconstruct` returns, when `need` is sound for `reconLive` (the rows `reconstruct` reads:
  erased data positions `m + i`; erased parity positions `i < p` when `recoverAll`).
-/
namespace RSV.LCHDecode
open RSV.Model.Leo RSV.Proofs.LeoSched RSV.Proofs.LeoSchedRange RSV.Proofs.LCHSched

variable (C : Ctx)

/-- one-sided soundness of the bit field for the read set `live` -/
def NeedSound (live : Nat → Bool) (need : Nat → Nat → Bool) (t mtrunc : Nat) : Prop :=
  ∀ lvl x, 1 ≤ lvl → lvl ≤ t → x < mtrunc → live x = true → need lvl (x / 2 ^ lvl * 2 ^ lvl) = true

/-- the block formulation: `need lvl r` holds for every `r` in the aligned `2^lvl`-block of a live row -/
theorem NeedSound.of_blocks {live : Nat → Bool} {need : Nat → Nat → Bool} {t mtrunc : Nat}
    (h : ∀ lvl r x, live x = true → x / 2 ^ lvl = r / 2 ^ lvl → need lvl r = true) :
    NeedSound live need t mtrunc := by
  intro lvl x _ _ _ hl
  apply h lvl _ x hl
  rw [Nat.mul_div_cancel _ (Nat.two_pow_pos lvl)]

/-- soundness for a larger read set implies soundness for a smaller one -/
theorem NeedSound.mono {live live' : Nat → Bool} {need : Nat → Nat → Bool} {t mtrunc : Nat}
    (h : NeedSound live need t mtrunc) (hl : ∀ x, live' x = true → live x = true) :
    NeedSound live' need t mtrunc :=
  fun lvl x h1 h2 h3 h4 => h lvl x h1 h2 h3 (hl x h4)

/-! ## composition of the passes -/

/-- the pruned radix-4 passes `0 … J-1`; pass `j` has distance `2^(t-2j-2)` and is tested at level `t - 2j` -/
def fftPassesFP (need : Nat → Nat → Bool) (mtrunc t J : Nat) (ρ : Rows) : Rows :=
  (List.range J).foldl (fun ρ j => pass4F (fftGadP C need (t - 2 * j) (2 ^ (t - 2 * j - 2)))
    ((mtrunc + 4 * 2 ^ (t - 2 * j - 2) - 1) / (4 * 2 ^ (t - 2 * j - 2))) (2 ^ (t - 2 * j - 2)) ρ) ρ

theorem fftPassesFP_agree (live : Nat → Bool) (need : Nat → Nat → Bool) (m mtrunc t : Nat)
    (hm : m = 2 ^ t) (hs : NeedSound live need t mtrunc) (ρ : Rows) (J : Nat) (hJ : 2 * J ≤ t) :
    AgreeLive live m mtrunc (2 ^ (t + 2 - 2 * J)) (fftPassesFP C need mtrunc t J ρ) (fftTopF C m t J ρ) := by
  induction J with
  | zero => intro idx _ _ _ _ _; rfl
  | succ J ih =>
    have ih' := ih (by omega)
    have hstep : fftPassesFP C need mtrunc t (J + 1) ρ =
        pass4F (fftGadP C need (t - 2 * J) (2 ^ (t - 2 * J - 2)))
          ((mtrunc + 4 * 2 ^ (t - 2 * J - 2) - 1) / (4 * 2 ^ (t - 2 * J - 2))) (2 ^ (t - 2 * J - 2))
          (fftPassesFP C need mtrunc t J ρ) := by
      unfold fftPassesFP
      rw [List.range_succ, List.foldl_append]
      rfl
    have h4 : 4 * 2 ^ (t - 2 * J - 2) = 2 ^ (t + 2 - 2 * (J + 1)) := by
      rw [four_mul_pow2]; congr 1; omega
    have h4' : 4 * 2 ^ (t - 2 * J - 2) = 2 ^ (t - 2 * J) := by
      rw [four_mul_pow2]; congr 1; omega
    have := fft_pass_agree_pruned C live need (t - 2 * J) m mtrunc (2 ^ (t - 2 * J - 2))
      (2 ^ (t + 2 - 2 * J)) (Nat.two_pow_pos _)
      (by rw [h4, hm]; exact Nat.pow_dvd_pow 2 (by omega))
      (by rw [h4]; exact Nat.pow_dvd_pow 2 (by omega))
      (by intro x hx hl; rw [h4']; exact hs (t - 2 * J) x (by omega) (by omega) hx hl) _ _ ih'
    rw [h4] at this
    rw [hstep, h4]
    exact this

/-- the whole schedule `fftLayersPruned C need mtrunc m` on row functions -/
def fftSchedFP (need : Nat → Nat → Bool) (mtrunc t : Nat) (ρ : Rows) : Rows :=
  if t % 2 = 1 then fin2FP C need 1 ((mtrunc + 2 - 1) / 2) (fftPassesFP C need mtrunc t (t / 2) ρ)
  else fftPassesFP C need mtrunc t (t / 2) ρ

theorem sim_fftLayersPruned (need : Nat → Nat → Bool) (mtrunc m t : Nat) (hm : m = 2 ^ t)
    (ht : t / 2 ≤ C.P.bits) (hmt : mtrunc ≤ m) :
    Sim C m (fftLayersPruned C need mtrunc m).toList (fftSchedFP C need mtrunc t) := by
  rw [fftLayersPruned_toList C need mtrunc m t hm hmt ht]
  have hpass : Sim C m ((List.range (t / 2)).flatMap fun j =>
        fftPassPruned C need (t - 2 * j) mtrunc (2 ^ (t - 2 * j - 2)))
      (fftPassesFP C need mtrunc t (t / 2)) := by
    apply Sim.flatMap
    intro j hj
    have hj' := List.mem_range.mp hj
    apply sim_fftPassPruned C need _ _ mtrunc _ (Nat.two_pow_pos _)
    apply ceil_mul_le _ _ _ (by have := Nat.two_pow_pos (t - 2 * j - 2); omega) _ hmt
    rw [four_mul_pow2, hm]; exact Nat.pow_dvd_pow 2 (by omega)
  unfold fftSchedFP
  by_cases hodd : t % 2 = 1
  · rw [if_pos hodd]
    have hfin := sim_fftFinalPruned C need 1 m mtrunc (ceil_mul_le _ _ _ (by decide)
      (by rw [hm, show t = (t - 1) + 1 by omega, Nat.pow_succ]; exact Nat.dvd_mul_left _ _) hmt)
    refine Sim.congr C (hpass.append C hfin) ?_
    funext ρ
    rw [if_pos hodd]
  · rw [if_neg hodd, List.append_nil]
    refine Sim.congr C hpass ?_
    funext ρ
    rw [if_neg hodd]

/-- **refinement, pruned forward transform**: every row of the final-pass block (of size `2` for odd `t`, `4` for even
`t`) of a live row `x < mtrunc` is the corresponding row of the clean network -/
theorem run_fftLayersPruned (live : Nat → Bool) (need : Nat → Nat → Bool) (shards : Array Vec) (len : Nat)
    (w : Array Vec) (mtrunc m t : Nat) (hm : m = 2 ^ t) (ht : t / 2 ≤ C.P.bits) (hmt : mtrunc ≤ m)
    (hsz : m ≤ w.size) (hs : NeedSound live need t mtrunc) (idx : Nat) (hidx : idx < m)
    (x : Nat) (hx : x < mtrunc) (hlive : live x = true)
    (hblk : x / (if t % 2 = 1 then 2 else 4) = idx / (if t % 2 = 1 then 2 else 4)) :
    (run C shards len w (fftLayersPruned C need mtrunc m).toList)[idx]! = (fftRows C t 0 0 1 w)[idx]! := by
  show rowsOf (run C shards len w (fftLayersPruned C need mtrunc m).toList) idx =
    rowsOf (fftRows C t 0 0 1 w) idx
  rw [sim_fftLayersPruned C need mtrunc m t hm ht hmt shards len w hsz, fftRows, ← hm,
    rowsOf_fftRowsAux C 0 m 0 1 t w (by omega), fftF_top C m t (t / 2) (by omega)]
  have hA := fftPassesFP_agree C live need m mtrunc t hm hs (rowsOf w) (t / 2) (by omega)
  unfold fftSchedFP
  by_cases hodd : t % 2 = 1
  · rw [if_pos hodd] at hblk ⊢
    have e : t - 2 * (t / 2) = 1 := by omega
    rw [e]
    have h2m : 2 ∣ m := by
      rw [hm, show t = (t - 1) + 1 by omega, Nat.pow_succ]; exact Nat.dvd_mul_left _ _
    have := fft_final_agree_pruned C live need 1 m mtrunc _ h2m
      (by rw [show t + 2 - 2 * (t / 2) = 3 by omega]; exact ⟨4, rfl⟩)
      (fun x hx hl => hs 1 x (Nat.le_refl 1) (by omega) hx hl) _ _ hA
    exact this idx hidx x hx hlive hblk
  · rw [if_neg hodd] at hblk ⊢
    have e : t - 2 * (t / 2) = 0 := by omega
    rw [e]
    rw [show t + 2 - 2 * (t / 2) = 2 by omega] at hA
    exact hA idx hidx x hx hlive hblk

/-- **soundness of pruning**: on every live row `x < mtrunc` the pruned transform equals the un-pruned one -/
theorem prune_sound (live : Nat → Bool) (need : Nat → Nat → Bool) (shards : Array Vec) (len : Nat)
    (w : Array Vec) (mtrunc m t : Nat) (hm : m = 2 ^ t) (ht : t / 2 ≤ C.P.bits) (hmt : mtrunc ≤ m)
    (hsz : m ≤ w.size) (hs : NeedSound live need t mtrunc) (x : Nat) (hx : x < mtrunc)
    (hlive : live x = true) :
    (run C shards len w (fftLayersPruned C need mtrunc m).toList)[x]! =
      (run C shards len w (fftLayers C mtrunc m).toList)[x]! := by
  rw [run_fftLayersPruned C live need shards len w mtrunc m t hm ht hmt hsz hs x (by omega) x hx hlive rfl,
    run_fftLayers_lt C shards len w mtrunc m t hm ht hmt hsz x hx]

/-! ## the decoder -/

/-- the work rows `reconstruct` reads: erased data positions `m + i`, and erased parity positions `i < p` when
`recoverAll` (`m = ceilPow2 p`) -/
def reconLive (d p : Nat) (missing : Nat → Bool) (recoverAll : Bool) (x : Nat) : Bool :=
  if x < ceilPow2 p then recoverAll && (decide (x < p) && missing (d + x))
  else decide (x < ceilPow2 p + d) && missing (x - ceilPow2 p)

/-- the pruned decoder schedule agrees with `reconSched` on every row that is read -/
theorem run_reconSchedPruned_row (live : Nat → Bool) (need : Nat → Nat → Bool) (sh : Array Vec) (len : Nat)
    (w : Array Vec) (d p T : Nat) (missing : Nat → Bool) (el : Array Nat)
    (hn : ceilPow2 (ceilPow2 p + d) = 2 ^ T) (hT : T / 2 ≤ C.P.bits) (hmn : ceilPow2 p + d ≤ 2 ^ T)
    (hsz : 2 ^ T ≤ w.size) (hs : NeedSound live need T (ceilPow2 p + d)) (x : Nat)
    (hx : x < ceilPow2 p + d) (hlive : live x = true) :
    (run C sh len w (reconSchedPruned C need d p missing el).toList)[x]! =
      (run C sh len w (reconSched C d p missing el).toList)[x]! := by
  rw [reconSchedPruned_toList, reconSched_toList, hn, run_append, run_append _ _ _ _ _ (fftLayers _ _ _).toList]
  exact prune_sound C live need sh len _ (ceilPow2 p + d) (2 ^ T) T rfl hT hmn
    (by simp only [size_run]; exact hsz) hs x hx hlive

/-- **the decoder with the pruned final transform returns exactly what `reconstruct` returns** -/
theorem reconstructPruned_eq (need : Nat → Nat → Bool) (d p len : Nat) (sh : Array Vec)
    (missing : Nat → Bool) (recoverAll : Bool) (T : Nat) (hn : ceilPow2 (ceilPow2 p + d) = 2 ^ T)
    (hT : T / 2 ≤ C.P.bits) (hpm : p ≤ ceilPow2 p) (hmn : ceilPow2 p + d ≤ 2 ^ T)
    (hs : NeedSound (reconLive d p missing recoverAll) need T (ceilPow2 p + d)) :
    reconstructPruned C need d p len sh missing recoverAll = reconstruct C d p len sh missing recoverAll := by
  unfold reconstructPruned reconstruct
  simp only
  congr 1
  funext i
  have hrow := run_reconSchedPruned_row C (reconLive d p missing recoverAll) need sh len
    (Array.replicate (ceilPow2 (ceilPow2 p + d)) (zeroVec len)) d p T missing (errLocs C d p missing) hn hT hmn
    (by simp [hn]) hs
  by_cases hmi : missing i.val = true
  · by_cases hid : i.val < d
    · have := hrow (ceilPow2 p + i.val) (by omega) (by
        unfold reconLive
        rw [if_neg (by omega), Nat.add_sub_cancel_left, hmi]
        simp; omega)
      simp only [hmi, hid, Bool.not_true, Bool.false_eq_true, if_false, if_true, this]
    · by_cases hra : recoverAll = true
      · have := hrow (i.val - d) (by omega) (by
          unfold reconLive
          rw [if_pos (by omega), show d + (i.val - d) = i.val by omega, hmi, hra]
          simp; omega)
        simp only [hmi, hid, hra, Bool.not_true, Bool.false_eq_true, if_false, if_true, this]
      · simp only [hmi, hid, hra, Bool.not_true, Bool.false_eq_true, if_false]
  · simp [hmi]

end RSV.LCHDecode

#print axioms RSV.LCHDecode.run_fftLayersPruned
#print axioms RSV.LCHDecode.prune_sound
#print axioms RSV.LCHDecode.run_reconSchedPruned_row
#print axioms RSV.LCHDecode.reconstructPruned_eq
