import RSV.Model.LeopardPruned
import RSV.Proofs.LCHDecode.SchedRecon
/-!
# The pruned generator `fftLayersPruned` as an explicit step list (core Lean only)

`fftLayersPruned C need mtrunc m` (`RSV/Model/LeopardPruned.lean`, the literal loops of `errorBitfield8.fftDIT8` /
`errorBitfield.fftDIT`) is shown EQUAL to the closed `flatMap` expression of `fftLayers_toList` with a filter on the
blocks:

* `fftPassPruned C need lvl mtrunc dist`: the blocks `r = q·4·dist < mtrunc` with `need lvl r = true`;
* `fftFinalPruned C need lvl mtrunc`: the pairs `r = 2q < mtrunc` with `need lvl r = true`;
* `fftLayersPruned_toList`: for `m = 2^t`, pass `j` (`j < t/2`) has distance `2^(t-2j-2)` and is tested at level
  `mipLevel = t - 2j` (so `2^mipLevel` is the block size `dist4` of the pass); the final radix-2 pass (odd `t`) is tested
  at level `1`.  Level `0` is never queried.
* `reconSchedPruned_toList`: the decoder schedule with the pruned final transform has the same prefix as
  `reconSched_toList`.
-/
namespace RSV.LCHDecode
open RSV.Model.Leo RSV.Proofs.LeoSched RSV.Proofs.LeoSchedRange RSV.Proofs.LCHSched

variable (C : Ctx)

/-- one pruned radix-4 forward pass: the blocks `r = q·(4·dist) < mtrunc` that the bit field needs at level `lvl` -/
def fftPassPruned (need : Nat → Nat → Bool) (lvl mtrunc dist : Nat) : List Step :=
  (List.range ((mtrunc + 4 * dist - 1) / (4 * dist))).flatMap fun q =>
    if need lvl (q * (4 * dist)) then fftBlock C dist (q * (4 * dist)) else []

/-- the pruned final radix-2 forward pass -/
def fftFinalPruned (need : Nat → Nat → Bool) (lvl mtrunc : Nat) : List Step :=
  (List.range ((mtrunc + 2 - 1) / 2)).flatMap fun q =>
    if need lvl (q * 2) then fft2 C (q * 2) (q * 2 + 1) (skewAt C (q * 2)) else []

theorem fftLayersPruned_toList (need : Nat → Nat → Bool) (mtrunc m t : Nat) (hm : m = 2 ^ t)
    (hmt : mtrunc ≤ m) (ht : t / 2 ≤ C.P.bits) :
    (fftLayersPruned C need mtrunc m).toList =
      ((List.range (t / 2)).flatMap fun j =>
          fftPassPruned C need (t - 2 * j) mtrunc (2 ^ (t - 2 * j - 2))) ++
        (if t % 2 = 1 then fftFinalPruned C need 1 mtrunc else []) := by
  unfold fftLayersPruned
  simp only [Std.Legacy.Range.forIn_eq_forIn_range', Std.Legacy.Range.size, Nat.sub_zero,
    Nat.add_one_sub_one, Nat.div_one, Nat.add_sub_cancel_left, forIn_append]
  apply bind_idx (fun r : Array Step => r.toList = _)
    (fun a (s : Array Step × Nat × Nat × Nat) =>
      s.2.1 = t - 2 * min a (t / 2) ∧ s.2.2.1 = 2 ^ (t - 2 * min a (t / 2)) ∧ s.2.2.2 = s.2.2.1 >>> 2 ∧
      s.1.toList = (List.range (min a (t / 2))).flatMap fun j =>
        fftPassPruned C need (t - 2 * j) mtrunc (2 ^ (t - 2 * j - 2)))
  · simp [hm, Nat.log2_two_pow]
  · rintro a _ _ ⟨out, mip, dist4, dist⟩ ⟨hmip, hd4, hd, ho⟩
    simp only at hmip hd hd4 ho ⊢
    by_cases hne : dist ≠ 0
    · rw [if_pos hne]
      refine ⟨_, rfl, ?_⟩
      obtain ⟨j', hjj, hdj, hd4j⟩ := pow2_shr2 _ (by rw [← hd4, ← hd]; exact hne)
      have ha : a < t / 2 := by omega
      have h1 : min a (t / 2) = a := by omega
      have h2 : min (a + 1) (t / 2) = a + 1 := by omega
      rw [h1] at hmip hd4 ho hjj
      rw [h2]
      have hj' : j' = t - 2 * a - 2 := by omega
      have hdist : dist = 2 ^ (t - 2 * a - 2) := by rw [hd, hd4, hjj, pow2_shr2_eq, Nat.add_sub_cancel]
      have hdist4 : dist4 = 4 * dist := by rw [hd4, hdist, hjj, Nat.add_sub_cancel, four_mul_pow2]
      refine ⟨?_, ?_, rfl, ?_⟩
      · show mip - 2 = t - 2 * (a + 1)
        omega
      · show dist = 2 ^ (t - 2 * (a + 1))
        rw [hdist]; congr 1
      · have hD : 0 < dist4 := by rw [hd4]; exact Nat.two_pow_pos _
        refine Eq.trans (mid_loop (fun r => if need mip r then fftBlock C dist r else []) mtrunc m dist4 hD
          hmt out _ ?_) ?_
        · rintro a ⟨o, r⟩
          by_cases hn : need mip r = true
          · simp only [hn, if_true]; rfl
          · simp [hn]
        · rw [range_succ_flatMap, ho]
          congr 1
          rw [hdist4, ← hdist, hmip]
          rfl
    · rw [if_neg hne]
      refine ⟨_, rfl, ?_⟩
      have ha : ¬ a < t / 2 := by
        intro ha
        apply hne
        have h1 : min a (t / 2) = a := by omega
        rw [h1] at hd4
        rw [hd, hd4, show t - 2 * a = (t - 2 * a - 2) + 2 by omega, pow2_shr2_eq]
        exact Nat.ne_of_gt (Nat.two_pow_pos _)
      have h1 : min a (t / 2) = t / 2 := by omega
      have h2 : min (a + 1) (t / 2) = t / 2 := by omega
      rw [h1] at hmip hd4 ho
      rw [h2]
      exact ⟨hmip, hd4, hd, ho⟩
  · rintro ⟨out, mip, dist4, dist⟩ ⟨hmip, hd4, hd, ho⟩
    have h3 : min (0 + C.P.bits) (t / 2) = t / 2 := by omega
    rw [h3] at hmip hd4 ho
    simp only at hmip hd hd4 ho ⊢
    by_cases hodd : t % 2 = 1
    · have h4 : dist4 = 2 := by rw [hd4, show t - 2 * (t / 2) = 1 by omega]; rfl
      have h5 : mip = 1 := by omega
      rw [if_pos h4, if_pos hodd]
      refine Eq.trans (mid_loop (fun r => if need mip r then fft2 C r (r + 1) (skewAt C r) else []) mtrunc m 2
        (by decide) hmt out _ ?_) ?_
      · rintro a ⟨o, r⟩
        by_cases hn : need mip r = true
        · simp only [hn, if_true]
        · simp [hn]
      · rw [ho, h5]
        rfl
    · have h4 : ¬ dist4 = 2 := by rw [hd4, show t - 2 * (t / 2) = 0 by omega]; decide
      rw [if_neg h4, if_neg hodd]
      show out.toList = _
      rw [ho, List.append_nil]

/-- the pruned decoder schedule: the prefix of `reconSched_toList`, then the pruned final transform -/
theorem reconSchedPruned_toList (need : Nat → Nat → Bool) (d p : Nat) (missing : Nat → Bool)
    (el : Array Nat) :
    (reconSchedPruned C need d p missing el).toList =
      loadStepsR d p (ceilPow2 p) (ceilPow2 (ceilPow2 p + d)) missing el ++
        (ifftLayers C 0 (ceilPow2 p + d) (ceilPow2 (ceilPow2 p + d)) 0 1).toList ++
        derivSteps (ceilPow2 (ceilPow2 p + d)) ++
        (fftLayersPruned C need (ceilPow2 p + d) (ceilPow2 (ceilPow2 p + d))).toList := by
  unfold reconSchedPruned
  simp only [Std.Legacy.Range.forIn_eq_forIn_range', Std.Legacy.Range.size, Nat.sub_zero,
    Nat.add_one_sub_one, Nat.div_one, forIn_push, pure_bind]
  generalize ceilPow2 (ceilPow2 p + d) = n
  generalize ceilPow2 p = m
  rw [forIn_append' _ derivInner _ (by intro i s; rfl)]
  simp [loadStepsR, parSteps, dataSteps, derivSteps, List.append_assoc]

end RSV.LCHDecode

#print axioms RSV.LCHDecode.fftLayersPruned_toList
#print axioms RSV.LCHDecode.reconSchedPruned_toList
