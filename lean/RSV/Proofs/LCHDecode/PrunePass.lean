import RSV.Proofs.LCHDecode.PruneGen
/-!
# One pruned pass on row functions, and agreement with the clean layers on the LIVE blocks (core Lean only)

`live : Nat → Bool` marks the output rows that will be read.  The invariant carried through the passes is

* `AgreeLive live m mtrunc D σ κ`: `σ` and `κ` agree on every row of every `D`-aligned block of `[0, m)` that contains a
  live row `x < mtrunc`.

A pruned radix-4 pass (`pass4F` of the gadgets `fftGadP` = `fftGad` where the bit field says "needed", identity
otherwise) maps `AgreeLive D'` states (`4d ∣ D'`) to `AgreeLive (4d)` states against the two clean layers `2d`, `d`
(`fft_pass_agree_pruned`), PROVIDED the bit field answers `true` for every `4d`-block holding a live row: such a block
is not skipped, the gadget's four input rows lie in the same `4d`-block, hence in a `D'`-block holding a live row.
The same for the final radix-2 pass (`fft_final_agree_pruned`).
-/
namespace RSV.LCHDecode
open RSV.Model.Leo RSV.Proofs.LeoSched RSV.Proofs.LeoSchedRange RSV.Proofs.LCHSched

variable (C : Ctx)

/-! ## 1. the pruned radix-4 pass on row functions -/

/-- gadget `i` of a pruned pass: the forward gadget if its block is needed, the identity otherwise -/
def fftGadP (need : Nat → Nat → Bool) (lvl d i : Nat) : Rows → Rows :=
  if need lvl (i / (4 * d) * (4 * d)) then fftGad C d i else id

theorem localOn_id (S : Nat → Prop) : LocalOn S (id : Rows → Rows) where
  frame := fun _ _ _ => rfl
  loc := fun _ _ h z hz => h z hz

theorem fftGadP_local (need : Nat → Nat → Bool) (lvl d i : Nat) :
    LocalOn (S4 (0 + i) d) (fftGadP C need lvl d i) := by
  unfold fftGadP
  split
  · exact fftGad_local C d i
  · exact localOn_id _

theorem flatMap_nil' {α β : Type} (l : List α) (f : α → List β) (h : ∀ a ∈ l, f a = []) :
    l.flatMap f = [] := by
  induction l with
  | nil => rfl
  | cons a l ih => rw [List.flatMap_cons, h a (by simp), ih fun b hb => h b (by simp [hb])]; rfl

theorem fftPassPruned_eq (need : Nat → Nat → Bool) (lvl mtrunc d : Nat) (hd : 0 < d) :
    fftPassPruned C need lvl mtrunc d =
      (idxList ((mtrunc + 4 * d - 1) / (4 * d)) d).flatMap fun i =>
        if need lvl (i / (4 * d) * (4 * d)) then
          fft4 C (0 + i) d (skw C 0 1 d (i / (4 * d) * (4 * d)))
            (skw C 0 1 d (i / (4 * d) * (4 * d) + 2 * d))
            (skw C 0 1 (2 * d) (i / (4 * d) * (4 * d)))
        else [] := by
  unfold fftPassPruned idxList
  rw [List.flatMap_assoc]
  apply flatMap_congr'
  intro q _
  by_cases hn : need lvl (q * (4 * d)) = true
  · rw [if_pos hn]
    unfold fftBlock
    apply flatMap_congr'
    intro i hi
    have hi' := List.mem_range'_1.mp hi
    obtain ⟨l, rfl⟩ : ∃ l, i = q * (4 * d) + l := ⟨i - q * (4 * d), by omega⟩
    rw [block_div q (4 * d) l (by omega), if_pos hn]
    unfold skw
    simp only [Nat.zero_add]
    congr 2 <;> omega
  · rw [if_neg hn]
    symm
    apply flatMap_nil'
    intro i hi
    have hi' := List.mem_range'_1.mp hi
    obtain ⟨l, rfl⟩ : ∃ l, i = q * (4 * d) + l := ⟨i - q * (4 * d), by omega⟩
    rw [block_div q (4 * d) l (by omega), if_neg hn]

theorem sim_fftPassPruned (need : Nat → Nat → Bool) (lvl n mtrunc d : Nat) (hd : 0 < d)
    (hn : (mtrunc + 4 * d - 1) / (4 * d) * (4 * d) ≤ n) :
    Sim C n (fftPassPruned C need lvl mtrunc d)
      (pass4F (fftGadP C need lvl d) ((mtrunc + 4 * d - 1) / (4 * d)) d) := by
  rw [fftPassPruned_eq C need lvl mtrunc d hd]
  apply Sim.flatMap
  intro i hi
  obtain ⟨q, hq, h1, h2⟩ := (mem_idxList _ d i).mp hi
  have := succ_mul_le (D := 4 * d) hq
  unfold fftGadP
  by_cases hb : need lvl (i / (4 * d) * (4 * d)) = true
  · rw [if_pos hb, if_pos hb]
    exact sim_fft4 C n (0 + i) d _ _ _ hd (by omega)
  · rw [if_neg hb, if_neg hb]
    exact Sim.nil C n

/-! ## 2. agreement on the live blocks -/

/-- `σ` and `κ` agree on every row of every `D`-aligned block of `[0, m)` that contains a live row `x < mtrunc` -/
def AgreeLive (live : Nat → Bool) (m mtrunc D : Nat) (σ κ : Rows) : Prop :=
  ∀ idx, idx < m → ∀ x, x < mtrunc → live x = true → x / D = idx / D → σ idx = κ idx

/-- rows of the same `D`-block lie in the same `D·c`-block -/
theorem div_eq_of_div_eq (x z D D' : Nat) (h : D ∣ D') (hxz : x / D = z / D) : x / D' = z / D' := by
  obtain ⟨c, rfl⟩ := h
  rw [← Nat.div_div_eq_div_mul, ← Nat.div_div_eq_div_mul, hxz]

theorem fft_pass_agree_pruned (live : Nat → Bool) (need : Nat → Nat → Bool) (lvl m mtrunc d D' : Nat)
    (hd : 0 < d) (hdm : 4 * d ∣ m) (hD' : 4 * d ∣ D')
    (hneed : ∀ x, x < mtrunc → live x = true → need lvl (x / (4 * d) * (4 * d)) = true)
    (σ κ : Rows) (hA : AgreeLive live m mtrunc D' σ κ) :
    AgreeLive live m mtrunc (4 * d)
      (pass4F (fftGadP C need lvl d) ((mtrunc + 4 * d - 1) / (4 * d)) d σ) (fftLL C m d κ) := by
  intro idx hidx x hx hlive hxd
  obtain ⟨nbF, hnbF⟩ := hdm
  have hD : 0 < 4 * d := by omega
  have hm' : m = nbF * (4 * d) := by rw [hnbF, Nat.mul_comm]
  obtain ⟨q, l, hq, hl, hc⟩ := decomp nbF d idx hd (by omega)
  have hqm := succ_mul_le (D := 4 * d) hq
  obtain ⟨e, he, hie⟩ : ∃ e, e < 4 * d ∧ idx = q * (4 * d) + e := ⟨idx - q * (4 * d), by omega, by omega⟩
  have hidxq : idx / (4 * d) = q := by
    rw [hie, Nat.mul_comm q, Nat.mul_add_div hD, Nat.div_eq_of_lt he, Nat.add_zero]
  have hxq : x / (4 * d) * (4 * d) = q * (4 * d) := by rw [hxd, hidxq]
  have hblk : q * (4 * d) < mtrunc := by
    have := Nat.div_mul_le_self x (4 * d)
    omega
  have hqnb : q < (mtrunc + 4 * d - 1) / (4 * d) := (mul_lt_iff_lt_ceil _ _ _ hD).mp hblk
  have hS : S4 (0 + (q * (4 * d) + l)) d idx := by unfold S4; omega
  have hnd : need lvl (q * (4 * d)) = true := by rw [← hxq]; exact hneed x hx hlive
  rw [pass4F_in _ 0 _ d (fftGadP_local C need lvl d) σ q l hqnb hl idx hS]
  have hgad : fftGadP C need lvl d (q * (4 * d) + l) = fftGad C d (q * (4 * d) + l) := by
    unfold fftGadP
    rw [block_div q (4 * d) l (by omega), if_pos hnd]
  rw [hgad]
  have hfull := fftPassF_eq C m d nbF hd (by omega) κ idx
  rw [if_pos (by omega)] at hfull
  rw [← hfull, pass4F_in _ 0 nbF d (fftGad_local C d) κ q l hq hl idx hS]
  apply (fftGad_local C d (q * (4 * d) + l)).loc σ κ _ idx hS
  intro z' hz'
  obtain ⟨e', he', hze⟩ : ∃ e', e' < 4 * d ∧ z' = q * (4 * d) + e' := by
    unfold S4 at hz'
    exact ⟨z' - q * (4 * d), by omega, by omega⟩
  have hzq : z' / (4 * d) = q := by
    rw [hze, Nat.mul_comm q, Nat.mul_add_div hD, Nat.div_eq_of_lt he', Nat.add_zero]
  exact hA z' (by omega) x hx hlive (div_eq_of_div_eq x z' (4 * d) D' hD' (by rw [hxd, hidxq, hzq]))

/-! ## 3. the pruned final radix-2 pass -/

/-- pair `q` of the pruned final pass -/
def fin2GadP (need : Nat → Nat → Bool) (lvl q : Nat) : Rows → Rows :=
  if need lvl (q * 2) then bf2 (bfF C) (q * 2) (q * 2 + 1) (skewAt C (q * 2)) else id

def fin2FP (need : Nat → Nat → Bool) (lvl nb : Nat) (ρ : Rows) : Rows :=
  (List.range nb).foldl (fun ρ q => fin2GadP C need lvl q ρ) ρ

theorem sim_fftFinalPruned (need : Nat → Nat → Bool) (lvl n mtrunc : Nat)
    (hn : (mtrunc + 2 - 1) / 2 * 2 ≤ n) :
    Sim C n (fftFinalPruned C need lvl mtrunc) (fin2FP C need lvl ((mtrunc + 2 - 1) / 2)) := by
  unfold fftFinalPruned
  apply Sim.flatMap
  intro q hq
  have hq' := List.mem_range.mp hq
  have := succ_mul_le (D := 2) hq'
  unfold fin2GadP
  by_cases hb : need lvl (q * 2) = true
  · rw [if_pos hb, if_pos hb]
    exact sim_fft2 C n _ _ _ (by omega) (by omega) (by omega)
  · rw [if_neg hb, if_neg hb]
    exact Sim.nil C n

theorem fin2FP_spec (need : Nat → Nat → Bool) (lvl nb : Nat) (ρ : Rows) (q : Nat) (hq : q < nb) (z : Nat)
    (hz : z = q * 2 ∨ z = q * 2 + 1) : fin2FP C need lvl nb ρ z = fin2GadP C need lvl q ρ z := by
  have hpw : (List.range nb).Pairwise fun a b =>
      ∀ z, (z = a * 2 ∨ z = a * 2 + 1) → ¬ (z = b * 2 ∨ z = b * 2 + 1) := by
    refine List.Pairwise.imp ?_ (List.pairwise_lt_range (n := nb))
    intro a b hab z h1 h2
    omega
  have key := foldl_disjoint (fin2GadP C need lvl) (fun q z => z = q * 2 ∨ z = q * 2 + 1)
    (fun q => by
      unfold fin2GadP
      split
      · exact LocalOn.bf2 (bfF C) _ (Or.inl rfl) (Or.inr rfl)
      · exact localOn_id _) _ hpw ρ
  exact key.1 q (List.mem_range.mpr hq) z hz

theorem fft_final_agree_pruned (live : Nat → Bool) (need : Nat → Nat → Bool) (lvl m mtrunc D' : Nat)
    (hdm : 2 ∣ m) (hD' : 2 ∣ D')
    (hneed : ∀ x, x < mtrunc → live x = true → need lvl (x / 2 * 2) = true)
    (σ κ : Rows) (hA : AgreeLive live m mtrunc D' σ κ) :
    AgreeLive live m mtrunc 2 (fin2FP C need lvl ((mtrunc + 2 - 1) / 2) σ)
      (layerF (bfF C) (skw C 0 1 1) 1 0 m κ) := by
  intro idx hidx x hx hlive hxd
  have h1 := Nat.div_add_mod idx 2
  have h2 := Nat.mod_lt idx (by decide : 0 < 2)
  have hlt : idx / 2 * 2 < mtrunc := by
    have := Nat.div_mul_le_self x 2
    rw [← hxd]; omega
  have hqnb : idx / 2 < (mtrunc + 2 - 1) / 2 := (mul_lt_iff_lt_ceil _ _ _ (by decide)).mp hlt
  obtain ⟨c, hc⟩ := hdm
  have hq2 : idx / 2 * 2 + 2 ≤ m := by omega
  obtain ⟨l0, l1⟩ := layer0_pair C m κ (idx / 2) hq2
  have hnd : need lvl (idx / 2 * 2) = true := by rw [← hxd]; exact hneed x hx hlive
  have a0 : σ (idx / 2 * 2) = κ (idx / 2 * 2) := by
    apply hA _ (by omega) x hx hlive
    apply div_eq_of_div_eq x _ 2 D' hD'
    rw [Nat.mul_div_cancel _ (by decide : 0 < 2)]; exact hxd
  have a1 : σ (idx / 2 * 2 + 1) = κ (idx / 2 * 2 + 1) := by
    apply hA _ (by omega) x hx hlive
    apply div_eq_of_div_eq x _ 2 D' hD'
    omega
  have hcase : idx = idx / 2 * 2 ∨ idx = idx / 2 * 2 + 1 := by omega
  rw [fin2FP_spec C need lvl _ σ (idx / 2) hqnb idx hcase]
  unfold fin2GadP
  rw [if_pos hnd]
  rcases hcase with h | h
  · rw [h] at l0 ⊢
    rw [Nat.mul_div_cancel _ (by decide : 0 < 2)] at l0 ⊢
    rw [l0]
    simp only [bf2, if_pos]
    rw [a0, a1]
  · have e : (idx / 2 * 2 + 1) / 2 = idx / 2 := by omega
    rw [h] at l1 ⊢
    rw [e] at l1 ⊢
    rw [l1]
    have hne : idx / 2 * 2 + 1 ≠ idx / 2 * 2 := by omega
    simp only [bf2, if_neg hne, if_pos]
    rw [a0, a1]

end RSV.LCHDecode

#print axioms RSV.LCHDecode.sim_fftPassPruned
#print axioms RSV.LCHDecode.fft_pass_agree_pruned
#print axioms RSV.LCHDecode.sim_fftFinalPruned
#print axioms RSV.LCHDecode.fft_final_agree_pruned
