import RSV.Proofs.LCHDecode.SchedRecon
import RSV.Proofs.LCHBridge.Layers
/-!
# The decoder schedule, read symbol-wise, is `fft ∘ derivLoop ∘ ifft` of the scaled received word

`F : FieldCtx C K` a field reading of the table context `C`, `hS : SkewOK F`.

* `rd_derivRows`: `rd F (derivRows n w) 0 s = derivLoop n (rd F w 0 s)` on `[0, n)`, `n = 2^T`;
* `wload F sh d p m missing el s`: the loaded work area at symbol position `s`, in the field:
  `0` at erased / padding positions, `φ (shard symbol) * g ^ el[idx]` at the present ones;
* `recon_symbol`: for every row `j < m + d` and symbol position `s < len`
  `φ ((run … (reconSched C d p missing el))[j]![s]!) = fft β k T 0 (derivLoop n (ifft β k T 0 wload)) j`
  (`β = beta F`, `k = F.k`, `n = ceilPow2 (ceilPow2 p + d) = 2^T`);
* `recon_rows_ok`: those rows have `len` symbols, all below `2^k`.
-/
set_option linter.unusedSectionVars false

namespace RSV.LCHDecode
open RSV.Model.Leo RSV.LCH RSV.LCHBridge RSV.Proofs.LeoSched RSV.Proofs.LCHSched

variable {C : Ctx} {K : Type} [Field K] {F : FieldCtx C K}

/-! ## 1. the derivative loop -/

theorem WF_derivRowStep {len i : ℕ} {w : Array Vec} (hw : WF len w) : WF len (derivRowStep i w) := by
  intro x hx
  rw [size_derivRowStep] at hx
  rw [derivRowStep_get i w x hx]
  split
  · rw [size_xorVec]; exact hw x hx
  · exact hw x hx

theorem symsBelow_derivRowStep {i : ℕ} {w : Array Vec} (hw : SymsBelow (2 ^ F.k) w) :
    SymsBelow (2 ^ F.k) (derivRowStep i w) := by
  intro x hx
  rw [size_derivRowStep] at hx
  show VecBelow _ _
  rw [derivRowStep_get i w x hx]
  split
  · exact vecBelow_xorVec (mulLinearOn_of_fieldCtx F) (hw.row _) (hw.row _)
  · exact hw.row x

theorem WF_derivRows {len n : ℕ} {w : Array Vec} (hw : WF len w) : WF len (derivRows n w) := by
  unfold derivRows
  generalize List.range' 1 (n - 1) = l
  induction l generalizing w with
  | nil => exact hw
  | cons a l ih => rw [List.foldl_cons]; exact ih (WF_derivRowStep hw)

theorem symsBelow_derivRows {n : ℕ} {w : Array Vec} (hw : SymsBelow (2 ^ F.k) w) :
    SymsBelow (2 ^ F.k) (derivRows n w) := by
  unfold derivRows
  generalize List.range' 1 (n - 1) = l
  induction l generalizing w with
  | nil => exact hw
  | cons a l ih => rw [List.foldl_cons]; exact ih (symsBelow_derivRowStep hw)

/-- one outer iteration, read symbol-wise, is `derivStep` -/
theorem rd_derivRowStep {len i s x : ℕ} {w : Array Vec} (hw : WF len w) (hb : SymsBelow (2 ^ F.k) w)
    (hs : s < len) (hx : x < w.size) :
    rd F (derivRowStep i w) 0 s x = derivStep i (rd F w 0 s) x := by
  rw [rd_apply, Nat.zero_add, derivRowStep_get i w x hx]
  unfold derivStep
  by_cases hin : i - lowbit i ≤ x ∧ x < i
  · rw [if_pos hin, if_pos hin, φ_xorVec F (by rw [hw x hx]; exact hs) (hb.row _) (hb.row _), rd_apply,
      rd_apply, Nat.zero_add, Nat.zero_add]
  · rw [if_neg hin, if_neg hin, rd_apply, Nat.zero_add]

/-- `derivStep i` on `[0, n)` depends only on the values on `[0, n)` when the reads stay below `n` -/
theorem derivStep_congr {n i : ℕ} {f g : ℕ → K} (h : ∀ x, x < n → f x = g x) (hi : i + lowbit i ≤ n)
    (x : ℕ) (hx : x < n) : derivStep i f x = derivStep i g x := by
  unfold derivStep
  by_cases hin : i - lowbit i ≤ x ∧ x < i
  · rw [if_pos hin, if_pos hin, h x hx, h (x + lowbit i) (by omega)]
  · rw [if_neg hin, if_neg hin, h x hx]

theorem rd_derivList {len s T : ℕ} (hs : s < len) (l : List ℕ) (hl : ∀ i ∈ l, 0 < i ∧ i < 2 ^ T)
    (w : Array Vec) (hsz : 2 ^ T ≤ w.size) (hw : WF len w) (hb : SymsBelow (2 ^ F.k) w) (f : ℕ → K)
    (hf : ∀ x, x < 2 ^ T → rd F w 0 s x = f x) :
    WF len (l.foldl (fun w i => derivRowStep i w) w) ∧
    SymsBelow (2 ^ F.k) (l.foldl (fun w i => derivRowStep i w) w) ∧
    ∀ x, x < 2 ^ T → rd F (l.foldl (fun w i => derivRowStep i w) w) 0 s x =
      (l.foldl (fun f i => derivStep i f) f) x := by
  induction l generalizing w f with
  | nil => exact ⟨hw, hb, hf⟩
  | cons a l ih =>
    have ha := hl a (by simp)
    rw [List.foldl_cons, List.foldl_cons]
    apply ih (fun i hi => hl i (by simp [hi])) _ (by rw [size_derivRowStep]; exact hsz)
      (WF_derivRowStep hw) (symsBelow_derivRowStep hb)
    intro x hx
    rw [rd_derivRowStep hw hb hs (by omega)]
    exact derivStep_congr hf (add_lowbit_le a T ha.1 ha.2) x hx

/-- **the derivative loop on rows, read symbol-wise, is `derivLoop`** (up to the values of the input on `[0,n)`) -/
theorem rd_derivRows {len s T : ℕ} {w : Array Vec} (hsz : 2 ^ T ≤ w.size) (hw : WF len w)
    (hb : SymsBelow (2 ^ F.k) w) (hs : s < len) (f : ℕ → K) (hf : ∀ x, x < 2 ^ T → rd F w 0 s x = f x) :
    WF len (derivRows (2 ^ T) w) ∧ SymsBelow (2 ^ F.k) (derivRows (2 ^ T) w) ∧
      ∀ x, x < 2 ^ T → rd F (derivRows (2 ^ T) w) 0 s x = derivLoop (2 ^ T) f x := by
  unfold derivRows derivLoop
  apply rd_derivList hs _ _ w hsz hw hb f hf
  intro i hi
  have := List.mem_range'_1.mp hi
  omega

/-- `derivLoop n` on `[0, n)` depends only on the values on `[0, n)` -/
theorem derivLoop_congr_pow {T : ℕ} {f g : ℕ → K} (h : ∀ x, x < 2 ^ T → f x = g x) (x : ℕ) (hx : x < 2 ^ T) :
    derivLoop (2 ^ T) f x = derivLoop (2 ^ T) g x := by
  unfold derivLoop
  suffices hs : ∀ (l : List ℕ), (∀ i ∈ l, 0 < i ∧ i < 2 ^ T) → ∀ f g : ℕ → K,
      (∀ x, x < 2 ^ T → f x = g x) → ∀ x, x < 2 ^ T →
        (l.foldl (fun f i => derivStep i f) f) x = (l.foldl (fun f i => derivStep i f) g) x by
    refine hs _ ?_ f g h x hx
    intro i hi
    have := List.mem_range'_1.mp hi
    omega
  intro l
  induction l with
  | nil => intro _ f g h; exact h
  | cons a l ih =>
    intro hl f g h
    have ha := hl a (by simp)
    rw [List.foldl_cons, List.foldl_cons]
    exact ih (fun i hi => hl i (by simp [hi])) _ _
      (derivStep_congr h (add_lowbit_le a T ha.1 ha.2))

/-! ## 2. the load phase -/

/-- the loaded work area at symbol position `s`, in the field -/
def wload (F : FieldCtx C K) (sh : Array Vec) (d p m : ℕ) (missing : ℕ → Bool) (el : Array ℕ) (s : ℕ) :
    ℕ → K := fun x =>
  if x < p then (if missing (d + x) then 0 else F.φ ((sh[d + x]!)[s]!) * F.g ^ el[x]!)
  else if x < m then 0
  else if x < m + d then (if missing (x - m) then 0 else F.φ ((sh[x - m]!)[s]!) * F.g ^ el[x]!)
  else 0

section Load
variable {sh : Array Vec} {len d p m n : ℕ} {missing : ℕ → Bool} {el : Array ℕ} {w : Array Vec}
  (hpm : p ≤ m) (hmn : m + d ≤ n) (hsz : n ≤ w.size)
  (hsh : ∀ i, i < d + p → missing i = false → (sh[i]!).size = len ∧ VecBelow (2 ^ F.k) sh[i]!)
  (hel : ∀ x, x < n → el[x]! < 2 ^ F.k)
include hpm hmn hsz hsh hel

omit hel in
theorem WF_loadRows (hw : WF len w) : WF len (loadRows C sh len d p m n missing el w) := by
  intro x hx
  rw [size_loadRows] at hx
  rw [loadRows_get C _ _ _ _ _ _ _ _ _ x hx]
  split
  · split
    · exact size_zeroVec len
    · rename_i h1 h2
      rw [size_mulVec]
      exact (hsh (d + x) (by omega) (by simpa using h2)).1
  · split
    · exact size_zeroVec len
    · split
      · split
        · exact size_zeroVec len
        · rename_i h1 h2 h3 h4
          rw [size_mulVec]
          exact (hsh (x - m) (by omega) (by simpa using h4)).1
      · split
        · exact size_zeroVec len
        · exact hw x hx

theorem symsBelow_loadRows (hb : SymsBelow (2 ^ F.k) w) :
    SymsBelow (2 ^ F.k) (loadRows C sh len d p m n missing el w) := by
  have hC := mulLinearOn_of_fieldCtx F
  have hB := Nat.two_pow_pos F.k
  intro x hx
  rw [size_loadRows] at hx
  show VecBelow _ _
  rw [loadRows_get C _ _ _ _ _ _ _ _ _ x hx]
  split
  · split
    · exact vecBelow_zeroVec hB len
    · rename_i h1 h2
      exact vecBelow_mulVec hC (hsh (d + x) (by omega) (by simpa using h2)).2 (hel x (by omega))
  · split
    · exact vecBelow_zeroVec hB len
    · split
      · split
        · exact vecBelow_zeroVec hB len
        · rename_i h1 h2 h3 h4
          exact vecBelow_mulVec hC (hsh (x - m) (by omega) (by simpa using h4)).2 (hel x (by omega))
      · split
        · exact vecBelow_zeroVec hB len
        · exact hb.row x

/-- reading the loaded rows -/
theorem rd_loadRows {s x : ℕ} (hs : s < len) (hx : x < n) :
    rd F (loadRows C sh len d p m n missing el w) 0 s x = wload F sh d p m missing el s x := by
  rw [rd_apply, Nat.zero_add, loadRows_get C _ _ _ _ _ _ _ _ _ x (by omega)]
  unfold wload
  by_cases h1 : x < p
  · rw [if_pos h1, if_pos h1]
    by_cases h2 : missing (d + x) = true
    · rw [if_pos h2, if_pos h2, φ_zeroVec]
    · rw [if_neg h2, if_neg h2]
      have := hsh (d + x) (by omega) (by simpa using h2)
      exact φ_mulVec F (by rw [this.1]; exact hs) this.2 (hel x hx)
  · rw [if_neg h1, if_neg h1]
    by_cases h2 : x < m
    · rw [if_pos h2, if_pos h2, φ_zeroVec]
    · rw [if_neg h2, if_neg h2]
      by_cases h3 : x < m + d
      · rw [if_pos h3, if_pos h3]
        by_cases h4 : missing (x - m) = true
        · rw [if_pos h4, if_pos h4, φ_zeroVec]
        · rw [if_neg h4, if_neg h4]
          have := hsh (x - m) (by omega) (by simpa using h4)
          exact φ_mulVec F (by rw [this.1]; exact hs) this.2 (hel x hx)
      · rw [if_neg h3, if_neg h3, if_pos hx, φ_zeroVec]

end Load

/-! ## 3. the decoder schedule -/

section Recon
variable (hS : SkewOK F) {sh : Array Vec} {len d p T : ℕ} {missing : ℕ → Bool} {el : Array ℕ}
  {w : Array Vec} (hTk : T ≤ F.k) (hpm : p ≤ ceilPow2 p) (hmn : ceilPow2 p + d ≤ 2 ^ T)
  (hsz : 2 ^ T ≤ w.size) (hw : WF len w) (hb : SymsBelow (2 ^ F.k) w)
  (hsh : ∀ i, i < d + p → missing i = false → (sh[i]!).size = len ∧ VecBelow (2 ^ F.k) sh[i]!)
  (hel : ∀ x, x < 2 ^ T → el[x]! < 2 ^ F.k)
include hS hTk hpm hmn hsz hw hb hsh hel

omit hel in
theorem reconWork_ok_aux :
    WF len (loadRows C sh len d p (ceilPow2 p) (2 ^ T) missing el w) ∧
    0 + 2 ^ T ≤ (loadRows C sh len d p (ceilPow2 p) (2 ^ T) missing el w).size ∧
    2 ^ T ≤ (ifftRows C T 0 0 1 (loadRows C sh len d p (ceilPow2 p) (2 ^ T) missing el w)).size := by
  refine ⟨WF_loadRows (F := F) hpm hmn hsz hsh hw, by rw [size_loadRows]; omega, ?_⟩
  rw [size_ifftRows, size_loadRows]; exact hsz

/-- `reconWork` keeps the rows well-formed and the symbols below `2^k` -/
theorem reconWork_ok :
    WF len (reconWork C sh len d p (ceilPow2 p) T missing el w) ∧
    SymsBelow (2 ^ F.k) (reconWork C sh len d p (ceilPow2 p) T missing el w) := by
  have G : Geo F T 0 0 1 := Geo.fwd hTk
  obtain ⟨hwL, hszL, hszI⟩ := reconWork_ok_aux hS hTk hpm hmn hsz hw hb hsh
  have hbL := symsBelow_loadRows hpm hmn hsz hsh hel hb
  unfold reconWork
  exact ⟨WF_derivRows (WF_ifftRows C len T 0 0 1 _ hszL hwL),
    symsBelow_derivRows (symsBelow_ifftRows G hS hszL hbL)⟩

/-- `reconWork` (load, inverse transform, derivative), read symbol-wise -/
theorem rd_reconWork {s : ℕ} (hs : s < len) :
    ∀ x, x < 2 ^ T → rd F (reconWork C sh len d p (ceilPow2 p) T missing el w) 0 s x =
      derivLoop (2 ^ T) (ifft (beta F) F.k T 0 (wload F sh d p (ceilPow2 p) missing el s)) x := by
  have G : Geo F T 0 0 1 := Geo.fwd hTk
  obtain ⟨hwL, hszL, hszI⟩ := reconWork_ok_aux hS hTk hpm hmn hsz hw hb hsh
  have hbL := symsBelow_loadRows hpm hmn hsz hsh hel hb
  unfold reconWork
  apply (rd_derivRows hszI (WF_ifftRows C len T 0 0 1 _ hszL hwL) (symsBelow_ifftRows G hS hszL hbL) hs _ _).2.2
  intro x hx
  rw [rd_ifftRows G hS hszL hwL hbL hs hx]
  exact ifft_congr (beta F) F.k (fun y hy => rd_loadRows hpm hmn hsz hsh hel hs hy) x hx

/-- **the decoder schedule, symbol-wise**: row `j < m + d` after `reconSched` is
`fft (derivLoop (ifft wload))` at `j` -/
theorem recon_symbol (hn : ceilPow2 (ceilPow2 p + d) = 2 ^ T) {s j : ℕ} (hs : s < len)
    (hj : j < ceilPow2 p + d) :
    F.φ (((run C sh len w (reconSched C d p missing el).toList)[j]!)[s]!) =
      fft (beta F) F.k T 0
        (derivLoop (2 ^ T) (ifft (beta F) F.k T 0 (wload F sh d p (ceilPow2 p) missing el s))) j := by
  have G : Geo F T 0 0 1 := Geo.fwd hTk
  obtain ⟨hwW, hbW⟩ := reconWork_ok hS hTk hpm hmn hsz hw hb hsh hel
  have hrd := rd_reconWork hS hTk hpm hmn hsz hw hb hsh hel hs
  have hszW : 0 + 2 ^ T ≤ (reconWork C sh len d p (ceilPow2 p) T missing el w).size := by
    rw [size_reconWork]; omega
  rw [run_reconSched_row C sh len w d p T missing el hn (by rw [F.hbits]; omega) hpm hmn hsz j hj]
  have h1 : ∀ w' : Array Vec, F.φ ((w'[j]!)[s]!) = rd F w' 0 s j := by
    intro w'; rw [rd_apply, Nat.zero_add]
  rw [h1, rd_fftRows G hS hszW hwW hbW hs (by omega)]
  exact fft_congr (beta F) F.k hrd j (by omega)

/-- the rows `j < m + d` after the schedule have `len` symbols, all below `2^k` -/
theorem recon_rows_ok (hn : ceilPow2 (ceilPow2 p + d) = 2 ^ T) {j : ℕ} (hj : j < ceilPow2 p + d) :
    ((run C sh len w (reconSched C d p missing el).toList)[j]!).size = len ∧
      VecBelow (2 ^ F.k) (run C sh len w (reconSched C d p missing el).toList)[j]! := by
  have G : Geo F T 0 0 1 := Geo.fwd hTk
  obtain ⟨hwW, hbW⟩ := reconWork_ok hS hTk hpm hmn hsz hw hb hsh hel
  have hszW : 0 + 2 ^ T ≤ (reconWork C sh len d p (ceilPow2 p) T missing el w).size := by
    rw [size_reconWork]; omega
  rw [run_reconSched_row C sh len w d p T missing el hn (by rw [F.hbits]; omega) hpm hmn hsz j hj]
  exact ⟨WF_fftRows C len T 0 0 1 _ hszW hwW j (by rw [size_fftRows, size_reconWork]; omega),
    (symsBelow_fftRows G hS hszW hbW).row j⟩

end Recon

end RSV.LCHDecode

#print axioms RSV.LCHDecode.rd_derivRows
#print axioms RSV.LCHDecode.rd_loadRows
#print axioms RSV.LCHDecode.rd_reconWork
#print axioms RSV.LCHDecode.recon_symbol
#print axioms RSV.LCHDecode.recon_rows_ok
