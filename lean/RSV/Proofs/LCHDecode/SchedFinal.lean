import RSV.Proofs.LCHDecode.SchedThm
import RSV.Proofs.LCHDecode.MathAll
/-!
# Leopard's `reconstruct` is correct: the two mathematical hypotheses of `SchedThm.lean` discharged

`MathAll.lean` proves the bodies of `DecodeIdentity β k` (from `Indep β k` and `Cantor β k`) and of `EncodeIsRS β k`
(from `Indep β k`).  For a field reading `F : FieldCtx C K`, `Indep (beta F) F.k` holds (`indep_beta'`), so what remains
is: `SkewOK F` (the skew table), `Cantor (beta F) F.k` (the basis is a Cantor basis) and the correctness of the locator
table `ElOK F (erasedPos d p missing) (errLocs C d p missing)`.
-/
namespace RSV.LCHDecode
open RSV.Model.Leo RSV.LCH RSV.LCHBridge RSV.Proofs.LeoSched

variable {C : Ctx} {K : Type} [Field K]

theorem decodeIdentity_of_cantor (F : FieldCtx C K) (hC : Cantor (beta F) F.k) :
    DecodeIdentity (beta F) F.k := by
  have := F.char2
  exact decodeIdentity_holds (indep_beta' F) hC

theorem encodeIsRS_of_fieldCtx (F : FieldCtx C K) : EncodeIsRS (beta F) F.k := by
  have := F.char2
  exact encodeIsRS_holds (indep_beta' F)

variable {F : FieldCtx C K}

/-- `reconstruct_rows` with the mathematics discharged -/
theorem reconstruct_rows_cantor (hS : SkewOK F) (hC : Cantor (beta F) F.k)
    {d p len : ℕ} {data sh : Array Vec} {missing : ℕ → Bool}
    (hd : 0 < d) (hp64 : p ≤ 2 ^ 64) (hk64 : F.k ≤ 64) (hadm : ceilPow2 p + d ≤ 2 ^ F.k)
    (hdsz : data.size = d) (hwd : WF len data) (hbd : SymsBelow (2 ^ F.k) data)
    (hmiss : ((Finset.range (d + p)).filter (fun i => missing i)).card ≤ p)
    (hshd : ∀ i, i < d → missing i = false → sh[i]! = data[i]!)
    (hshp : ∀ r, r < p → missing (d + r) = false → sh[d + r]! = (encode C d p len data)[r]!)
    {el : Array ℕ} (hel : ElOK F (erasedPos d p missing) el) :
    (∀ i, i < d → missing i = true →
      mulVec C (run C sh len (Array.replicate (ceilPow2 (ceilPow2 p + d)) (zeroVec len))
        (reconSched C d p missing el).toList)[ceilPow2 p + i]! (C.P.modulus - el[ceilPow2 p + i]!) =
        data[i]!) ∧
    (∀ r, r < p → missing (d + r) = true →
      mulVec C (run C sh len (Array.replicate (ceilPow2 (ceilPow2 p + d)) (zeroVec len))
        (reconSched C d p missing el).toList)[r]! (C.P.modulus - el[r]!) =
        (encode C d p len data)[r]!) :=
  reconstruct_rows hS (decodeIdentity_of_cantor F hC) (encodeIsRS_of_fieldCtx F) hd hp64 hk64 hadm hdsz hwd hbd
    hmiss hshd hshp hel

/-- **`reconstruct` returns the original shards** (mathematics discharged; remaining hypotheses: the skew table, the
Cantor basis, the locator table) -/
theorem reconstruct_correct_cantor (hS : SkewOK F) (hC : Cantor (beta F) F.k)
    {d p len : ℕ} {data sh : Array Vec} {missing : ℕ → Bool}
    (hd : 0 < d) (hp64 : p ≤ 2 ^ 64) (hk64 : F.k ≤ 64) (hadm : ceilPow2 p + d ≤ 2 ^ F.k)
    (hdsz : data.size = d) (hwd : WF len data) (hbd : SymsBelow (2 ^ F.k) data)
    (hmiss : ((Finset.range (d + p)).filter (fun i => missing i)).card ≤ p)
    (hshd : ∀ i, i < d → missing i = false → sh[i]! = data[i]!)
    (hshp : ∀ r, r < p → missing (d + r) = false → sh[d + r]! = (encode C d p len data)[r]!)
    (recoverAll : Bool) (hel : ElOK F (erasedPos d p missing) (errLocs C d p missing))
    (i : ℕ) (hi : i < d + p) :
    (reconstruct C d p len sh missing recoverAll)[i]! =
      if missing i = true ∧ (i < d ∨ recoverAll = true) then
        some (if i < d then data[i]! else (encode C d p len data)[i - d]!)
      else none :=
  reconstruct_correct hS (decodeIdentity_of_cantor F hC) (encodeIsRS_of_fieldCtx F) hd hp64 hk64 hadm hdsz hwd hbd
    hmiss hshd hshp recoverAll hel i hi

end RSV.LCHDecode

#print axioms RSV.LCHDecode.reconstruct_rows_cantor
#print axioms RSV.LCHDecode.reconstruct_correct_cantor
