import RSV.Proofs.LCHDecode.SchedFinal
import RSV.Proofs.LCHDecode.FwhtInstances
/-!
# Leopard's `reconstruct` is correct for GF(2^8) and GF(2^16): every hypothesis discharged

* `cantor8 : Cantor (beta F8) 8`, `cantor16 : Cantor (beta F16) 16` — Leopard's bases are Cantor bases
  (`cantor_of_iterate`: `k` short iterations of `y ↦ y² + y`, evaluated on the core carriers);
* `erasedPos_eq_erasedSet` — the erased set of `SchedThm.lean` is the one of `FwhtErrLocs.lean`;
* `reconstruct_correct8`, `reconstruct_correct16` — `SkewOK` (`skewOK8/16`), `Cantor`, `ElOK` (`errLocs_ok8/16`) plugged
  into `reconstruct_correct_cantor`.
-/
namespace RSV.LCHDecode
open RSV RSV.Model.Leo RSV.LCHBridge RSV.Proofs.LeoSched

theorem erasedPos_eq_erasedSet (d p : ℕ) (missing : ℕ → Bool) :
    erasedPos d p missing = erasedSet d p missing := rfl

/-! ## the Cantor bases -/

/-- `y ↦ y² + y` on the core carrier of `GF256` -/
def sq8 (v : ℕ) : ℕ := gmul v v ^^^ v

theorem iterate_sq8 (i : ℕ) (a : GF256) :
    ((fun y : GF256 => y ^ 2 + y)^[i] a).val = sq8^[i] a.val := by
  induction i generalizing a with
  | zero => rfl
  | succ i ih =>
    rw [Function.iterate_succ_apply, Function.iterate_succ_apply, ih]
    congr 1
    rw [pow_two]
    rfl

theorem sq8_basis : ∀ i, i < 8 → sq8^[i] (RSV.Proofs.LeoField.cm (2 ^ i)) = 1 := by decide +kernel

theorem cantor8 : Cantor (beta F8) 8 := by
  apply cantor_of_iterate
  intro i hi
  apply GF256.ext
  rw [iterate_sq8]
  show sq8^[i] (RSV.Proofs.LeoField.toGF (2 ^ i)).val = 1
  rw [RSV.Proofs.LeoField.toGF_val]
  exact sq8_basis i hi

/-- `y ↦ y² + y` on the core carrier of `GF65536` -/
def sq16 (v : ℕ) : ℕ := gmul16 v v ^^^ v

theorem iterate_sq16 (i : ℕ) (a : GF65536) :
    ((fun y : GF65536 => y ^ 2 + y)^[i] a).val = sq16^[i] a.val := by
  induction i generalizing a with
  | zero => rfl
  | succ i ih =>
    rw [Function.iterate_succ_apply, Function.iterate_succ_apply, ih]
    congr 1
    rw [pow_two]
    rfl

theorem sq16_basis : ∀ i, i < 16 → sq16^[i] (RSV.Proofs.Leo16.cm16 (2 ^ i)) = 1 := by decide +kernel

theorem cantor16 : Cantor (beta F16) 16 := by
  apply cantor_of_iterate
  intro i hi
  apply GF65536.ext
  rw [iterate_sq16]
  exact sq16_basis i hi

/-! ## the decoder of the two contexts -/

section
variable {d p len : ℕ} {data sh : Array Vec} {missing : ℕ → Bool}

/-- **GF(2^8)**: `reconstruct` returns `some` exactly at the missing data indices (and the missing parity indices when
`recoverAll`), and what it returns is the original shard -/
theorem reconstruct_correct8 (hd : 0 < d) (hp64 : p ≤ 2 ^ 64) (hadm : ceilPow2 p + d ≤ 256)
    (hdsz : data.size = d) (hwd : WF len data) (hbd : SymsBelow 256 data)
    (hmiss : ((Finset.range (d + p)).filter (fun i => missing i)).card ≤ p)
    (hshd : ∀ i, i < d → missing i = false → sh[i]! = data[i]!)
    (hshp : ∀ r, r < p → missing (d + r) = false → sh[d + r]! = (encode (mkCtx P8) d p len data)[r]!)
    (recoverAll : Bool) (i : ℕ) (hi : i < d + p) :
    (reconstruct (mkCtx P8) d p len sh missing recoverAll)[i]! =
      if missing i = true ∧ (i < d ∨ recoverAll = true) then
        some (if i < d then data[i]! else (encode (mkCtx P8) d p len data)[i - d]!)
      else none :=
  reconstruct_correct_cantor (F := F8) skewOK8 cantor8 hd hp64 (by decide) hadm hdsz hwd hbd hmiss hshd hshp
    recoverAll (errLocs_ok8 d p missing hadm) i hi

/-- **GF(2^16)** -/
theorem reconstruct_correct16 (hd : 0 < d) (hp64 : p ≤ 2 ^ 64) (hadm : ceilPow2 p + d ≤ 65536)
    (hdsz : data.size = d) (hwd : WF len data) (hbd : SymsBelow 65536 data)
    (hmiss : ((Finset.range (d + p)).filter (fun i => missing i)).card ≤ p)
    (hshd : ∀ i, i < d → missing i = false → sh[i]! = data[i]!)
    (hshp : ∀ r, r < p → missing (d + r) = false → sh[d + r]! = (encode (mkCtx P16) d p len data)[r]!)
    (recoverAll : Bool) (i : ℕ) (hi : i < d + p) :
    (reconstruct (mkCtx P16) d p len sh missing recoverAll)[i]! =
      if missing i = true ∧ (i < d ∨ recoverAll = true) then
        some (if i < d then data[i]! else (encode (mkCtx P16) d p len data)[i - d]!)
      else none :=
  reconstruct_correct_cantor (F := F16) skewOK16 cantor16 hd hp64 (by decide) hadm hdsz hwd hbd hmiss hshd hshp
    recoverAll (errLocs_ok16 d p missing hadm) i hi

end

end RSV.LCHDecode

#print axioms RSV.LCHDecode.cantor8
#print axioms RSV.LCHDecode.cantor16
#print axioms RSV.LCHDecode.reconstruct_correct8
#print axioms RSV.LCHDecode.reconstruct_correct16
