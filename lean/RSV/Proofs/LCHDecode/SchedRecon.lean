import RSV.Proofs.LCHDecode.Iface
/-!
# The decoder schedule `reconSched` at row level

* `reconSched_toList`: the schedule is `loadStepsR ++ ifftLayers C 0 (m+d) n 0 1 ++ derivSteps n ++ fftLayers C (m+d) n`
  (`m = ceilPow2 p`, `n = ceilPow2 (m + d)`);
* `run_loadStepsR`: the load phase produces `loadRows` (from ANY work area with at least `n` rows);
* `run_derivSteps`: the formal-derivative xor loop is `derivRows n` (a fold of `derivRowStep i`, which mirrors
  `derivStep i` of `Iface.lean`: row `x ∈ [i - lowbit i, i)` becomes `xorVec w[x]! w[x + lowbit i]!`);
* `run_reconSched_row`: for every row `j < m + d`,
  `(run … (reconSched …))[j]! = (fftRows C T 0 0 1 (derivRows n (ifftRows C T 0 0 1 (loadRows …))))[j]!`.
-/
namespace RSV.LCHDecode
open RSV.Model.Leo RSV.Proofs.LeoSched RSV.Proofs.LCHSched

variable (C : Ctx)

/-! ## 1. `reconSched` as an explicit list -/

/-- parity rows `i < p`: `work[i] = shards[d+i] · exp(el[i])`, or zero when the shard is missing -/
def parSteps (d p : Nat) (missing : Nat → Bool) (el : Array Nat) : List Step :=
  (List.range' 0 p).map fun i => if missing (d + i) then Step.clear i else Step.loadMul i (d + i) el[i]!

/-- data rows `m + i`, `i < d`: `work[m+i] = shards[i] · exp(el[m+i])`, or zero when the shard is missing -/
def dataSteps (d m : Nat) (missing : Nat → Bool) (el : Array Nat) : List Step :=
  (List.range' 0 d).map fun i =>
    if missing i then Step.clear (m + i) else Step.loadMul (m + i) i el[m + i]!

/-- the load phase of `reconSched` -/
def loadStepsR (d p m n : Nat) (missing : Nat → Bool) (el : Array Nat) : List Step :=
  parSteps d p missing el ++ (List.range' p (m - p)).map Step.clear ++ dataSteps d m missing el ++
    (List.range' (m + d) (n - (m + d))).map Step.clear

/-- outer iteration `i` of the formal-derivative loop -/
def derivInner (i : Nat) : List Step :=
  (List.range' 0 (lowbit i)).map fun k => Step.xor (i - lowbit i + k) (i + k)

/-- the formal-derivative loop on `n` rows -/
def derivSteps (n : Nat) : List Step := (List.range' 1 (n - 1)).flatMap derivInner

theorem reconSched_toList (d p : Nat) (missing : Nat → Bool) (el : Array Nat) :
    (reconSched C d p missing el).toList =
      loadStepsR d p (ceilPow2 p) (ceilPow2 (ceilPow2 p + d)) missing el ++
        (ifftLayers C 0 (ceilPow2 p + d) (ceilPow2 (ceilPow2 p + d)) 0 1).toList ++
        derivSteps (ceilPow2 (ceilPow2 p + d)) ++
        (fftLayers C (ceilPow2 p + d) (ceilPow2 (ceilPow2 p + d))).toList := by
  unfold reconSched
  simp only [Std.Legacy.Range.forIn_eq_forIn_range', Std.Legacy.Range.size, Nat.sub_zero,
    Nat.add_one_sub_one, Nat.div_one, forIn_push, pure_bind]
  generalize ceilPow2 (ceilPow2 p + d) = n
  generalize ceilPow2 p = m
  rw [forIn_append' _ derivInner _ (by intro i s; rfl)]
  simp [loadStepsR, parSteps, dataSteps, derivSteps, List.append_assoc]

/-! ## 2. the load phase -/

/-- a list of steps each of which overwrites row `base + k` with a value `val k` not depending on the work area -/
theorem run_setRows (shards : Array Vec) (len : Nat) (w : Array Vec) (base a cnt : Nat) (g : Nat → Step)
    (val : Nat → Vec) (hg : ∀ k (w' : Array Vec), step C shards len w' (g k) = w'.set! (base + k) (val k))
    (h : base + a + cnt ≤ w.size) (x : Nat) :
    (run C shards len w ((List.range' a cnt).map g))[x]! =
      if base + a ≤ x ∧ x < base + a + cnt then val (x - base) else w[x]! := by
  induction cnt with
  | zero => rw [if_neg (by omega)]; rfl
  | succ cnt ih =>
    rw [List.range'_concat, List.map_append, run_append, List.map_singleton, run_cons, run_nil, hg,
      Nat.one_mul, get!_set!, ih (by omega)]
    by_cases hx : base + (a + cnt) = x
    · subst hx
      rw [if_pos ⟨rfl, by rw [size_run]; omega⟩, if_pos (by omega), Nat.add_sub_cancel_left]
    · rw [if_neg (fun hh => hx hh.1)]
      by_cases h1 : base + a ≤ x ∧ x < base + a + cnt
      · rw [if_pos h1, if_pos (by omega)]
      · rw [if_neg h1, if_neg (by omega)]

/-- the work area after the load phase: scaled received shards, zero rows at the erased / padding positions -/
def loadRows (sh : Array Vec) (len d p m n : Nat) (missing : Nat → Bool) (el : Array Nat)
    (w : Array Vec) : Array Vec :=
  tab w.size fun x =>
    if x < p then (if missing (d + x) then zeroVec len else mulVec C sh[d + x]! el[x]!)
    else if x < m then zeroVec len
    else if x < m + d then (if missing (x - m) then zeroVec len else mulVec C sh[x - m]! el[x]!)
    else if x < n then zeroVec len
    else w[x]!

@[simp] theorem size_loadRows (sh : Array Vec) (len d p m n : Nat) (missing : Nat → Bool)
    (el : Array Nat) (w : Array Vec) : (loadRows C sh len d p m n missing el w).size = w.size := by
  simp [loadRows]

theorem loadRows_get (sh : Array Vec) (len d p m n : Nat) (missing : Nat → Bool) (el : Array Nat)
    (w : Array Vec) (x : Nat) (hx : x < w.size) :
    (loadRows C sh len d p m n missing el w)[x]! =
      if x < p then (if missing (d + x) then zeroVec len else mulVec C sh[d + x]! el[x]!)
      else if x < m then zeroVec len
      else if x < m + d then (if missing (x - m) then zeroVec len else mulVec C sh[x - m]! el[x]!)
      else if x < n then zeroVec len
      else w[x]! := tab_get _ _ x hx

theorem run_parSteps (sh : Array Vec) (len : Nat) (w : Array Vec) (d p : Nat) (missing : Nat → Bool)
    (el : Array Nat) (h : p ≤ w.size) (x : Nat) :
    (run C sh len w (parSteps d p missing el))[x]! =
      if x < p then (if missing (d + x) then zeroVec len else mulVec C sh[d + x]! el[x]!) else w[x]! := by
  unfold parSteps
  rw [run_setRows C sh len w 0 0 p _
    (fun x => if missing (d + x) then zeroVec len else mulVec C sh[d + x]! el[x]!)
    (by intro k w'; rw [Nat.zero_add]; split <;> rfl) (by omega) x]
  by_cases hx : x < p
  · rw [if_pos (by omega), if_pos hx, Nat.sub_zero]
  · rw [if_neg (by omega), if_neg hx]

theorem run_clears0 (sh : Array Vec) (len : Nat) (w : Array Vec) (a cnt : Nat) (h : a + cnt ≤ w.size)
    (x : Nat) :
    (run C sh len w ((List.range' a cnt).map Step.clear))[x]! =
      if a ≤ x ∧ x < a + cnt then zeroVec len else w[x]! := by
  rw [run_setRows C sh len w 0 a cnt _ (fun _ => zeroVec len)
    (by intro k w'; rw [Nat.zero_add]; rfl) (by omega) x]
  simp only [Nat.zero_add]

theorem run_dataSteps (sh : Array Vec) (len : Nat) (w : Array Vec) (d m : Nat) (missing : Nat → Bool)
    (el : Array Nat) (h : m + d ≤ w.size) (x : Nat) :
    (run C sh len w (dataSteps d m missing el))[x]! =
      if m ≤ x ∧ x < m + d then (if missing (x - m) then zeroVec len else mulVec C sh[x - m]! el[x]!)
      else w[x]! := by
  unfold dataSteps
  rw [run_setRows C sh len w m 0 d _
    (fun i => if missing i then zeroVec len else mulVec C sh[i]! el[m + i]!)
    (by intro k w'; split <;> rfl) (by omega) x]
  by_cases hx : m ≤ x ∧ x < m + d
  · rw [if_pos (by omega), if_pos hx, show m + (x - m) = x by omega]
  · rw [if_neg (by omega), if_neg hx]

/-- **the load phase**, from any work area with at least `n` rows -/
theorem run_loadStepsR (sh : Array Vec) (len : Nat) (w : Array Vec) (d p m n : Nat)
    (missing : Nat → Bool) (el : Array Nat) (hpm : p ≤ m) (hmn : m + d ≤ n) (hsz : n ≤ w.size) :
    run C sh len w (loadStepsR d p m n missing el) = loadRows C sh len d p m n missing el w := by
  apply ext! (by simp)
  intro x hx
  rw [size_run] at hx
  unfold loadStepsR
  rw [run_append, run_append, run_append,
    run_clears0 C sh len _ (m + d) (n - (m + d)) (by simp only [size_run]; omega) x,
    run_dataSteps C sh len _ d m missing el (by simp only [size_run]; omega) x,
    run_clears0 C sh len _ p (m - p) (by simp only [size_run]; omega) x,
    run_parSteps C sh len w d p missing el (by omega) x, loadRows_get C _ _ _ _ _ _ _ _ _ x hx]
  by_cases h1 : x < p
  · rw [if_neg (by omega), if_neg (by omega), if_neg (by omega), if_pos h1, if_pos h1]
  · rw [if_neg h1, if_neg h1]
    by_cases h2 : x < m
    · rw [if_neg (by omega), if_neg (by omega), if_pos (by omega), if_pos h2]
    · rw [if_neg h2]
      by_cases h3 : x < m + d
      · rw [if_neg (by omega), if_pos (by omega), if_pos h3]
      · rw [if_neg h3]
        by_cases h4 : x < n
        · rw [if_pos (by omega), if_pos h4]
        · rw [if_neg (by omega), if_neg (by omega), if_neg (by omega), if_neg h4]

/-- rows `[m + d, n)` are zero after the load phase -/
theorem loadRows_zero (sh : Array Vec) (len d p m n : Nat) (missing : Nat → Bool) (el : Array Nat)
    (w : Array Vec) (hpm : p ≤ m) (hsz : n ≤ w.size) (x : Nat) (h1 : m + d ≤ x) (h2 : x < n) :
    (loadRows C sh len d p m n missing el w)[x]! = zeroVec len := by
  rw [loadRows_get C _ _ _ _ _ _ _ _ _ x (by omega), if_neg (by omega), if_neg (by omega),
    if_neg (by omega), if_pos h2]

/-! ## 3. the formal-derivative loop -/

/-- `lowbit i = 2^v` with `2^v ∣ i` -/
theorem lowbit_spec (i : Nat) (hi : 0 < i) : ∃ v, lowbit i = 2 ^ v ∧ 2 ^ v ∣ i := by
  obtain ⟨v, hv, hd⟩ := RSV.Proofs.LeoSchedRange.lowbit i hi
  refine ⟨v, ?_, hd⟩
  unfold lowbit
  rw [hv, Nat.shiftRight_eq_div_pow, Nat.pow_succ, Nat.pow_one, Nat.mul_div_cancel _ (by decide : 0 < 2)]

theorem lowbit_pos (i : Nat) (hi : 0 < i) : 0 < lowbit i := by
  obtain ⟨v, hv, _⟩ := lowbit_spec i hi
  rw [hv]; exact Nat.two_pow_pos v

theorem lowbit_le (i : Nat) (hi : 0 < i) : lowbit i ≤ i := by
  obtain ⟨v, hv, hd⟩ := lowbit_spec i hi
  rw [hv]; exact Nat.le_of_dvd hi hd

/-- the reads of iteration `i < 2^T` stay below `2^T` -/
theorem add_lowbit_le (i T : Nat) (hi : 0 < i) (hiT : i < 2 ^ T) : i + lowbit i ≤ 2 ^ T := by
  obtain ⟨v, hv, hd⟩ := lowbit_spec i hi
  rw [hv]
  have hle : 2 ^ v ≤ i := Nat.le_of_dvd hi hd
  have hvT : v ≤ T := by
    apply Nat.le_of_lt
    exact (Nat.pow_lt_pow_iff_right (a := 2) (by decide)).mp (by omega)
  obtain ⟨c, hc⟩ := hd
  obtain ⟨e, he⟩ : 2 ^ v ∣ 2 ^ T := Nat.pow_dvd_pow 2 hvT
  rw [he, hc] at hiT ⊢
  have hce : c < e := Nat.lt_of_mul_lt_mul_left hiT
  calc 2 ^ v * c + 2 ^ v = 2 ^ v * (c + 1) := (Nat.mul_succ _ _).symm
    _ ≤ 2 ^ v * e := Nat.mul_le_mul_left _ hce

/-- `wd` xors `row (lo + k) ^= row (hi + k)`, writes below the reads -/
theorem run_xorsAt (shards : Array Vec) (len : Nat) (w : Array Vec) (lo hi wd : Nat)
    (hlh : lo + wd ≤ hi) (h : hi + wd ≤ w.size) (x : Nat) :
    (run C shards len w ((List.range' 0 wd).map fun k => Step.xor (lo + k) (hi + k)))[x]! =
      if lo ≤ x ∧ x < lo + wd then xorVec w[x]! w[hi + (x - lo)]! else w[x]! := by
  induction wd generalizing x with
  | zero => rw [if_neg (by omega)]; rfl
  | succ wd ih =>
    rw [List.range'_concat, List.map_append, run_append, List.map_singleton, run_cons, run_nil]
    simp only [step, Nat.zero_add, Nat.one_mul]
    rw [get!_set!, ih (by omega) (by omega) x, ih (by omega) (by omega) (lo + wd),
      ih (by omega) (by omega) (hi + wd), if_neg (by omega : ¬ (lo ≤ lo + wd ∧ lo + wd < lo + wd)),
      if_neg (by omega : ¬ (lo ≤ hi + wd ∧ hi + wd < lo + wd))]
    by_cases hx : lo + wd = x
    · subst hx
      rw [if_pos ⟨rfl, by rw [size_run]; omega⟩, if_pos (by omega), Nat.add_sub_cancel_left]
    · rw [if_neg (fun hh => hx hh.1)]
      by_cases h1 : lo ≤ x ∧ x < lo + wd
      · rw [if_pos h1, if_pos (by omega)]
      · rw [if_neg h1, if_neg (by omega)]

/-- one outer iteration of the derivative loop on rows (mirrors `derivStep`) -/
def derivRowStep (i : Nat) (w : Array Vec) : Array Vec :=
  tab w.size fun x => if i - lowbit i ≤ x ∧ x < i then xorVec w[x]! w[x + lowbit i]! else w[x]!

/-- the derivative loop on rows (mirrors `derivLoop`) -/
def derivRows (n : Nat) (w : Array Vec) : Array Vec :=
  (List.range' 1 (n - 1)).foldl (fun w i => derivRowStep i w) w

@[simp] theorem size_derivRowStep (i : Nat) (w : Array Vec) : (derivRowStep i w).size = w.size := by
  simp [derivRowStep]

theorem derivRowStep_get (i : Nat) (w : Array Vec) (x : Nat) (hx : x < w.size) :
    (derivRowStep i w)[x]! =
      if i - lowbit i ≤ x ∧ x < i then xorVec w[x]! w[x + lowbit i]! else w[x]! := tab_get _ _ x hx

theorem size_foldl_derivRowStep (l : List Nat) (w : Array Vec) :
    (l.foldl (fun w i => derivRowStep i w) w).size = w.size := by
  induction l generalizing w with
  | nil => rfl
  | cons a l ih => rw [List.foldl_cons, ih, size_derivRowStep]

@[simp] theorem size_derivRows (n : Nat) (w : Array Vec) : (derivRows n w).size = w.size :=
  size_foldl_derivRowStep _ w

theorem run_derivInner (shards : Array Vec) (len : Nat) (w : Array Vec) (i T : Nat) (hi : 0 < i)
    (hiT : i < 2 ^ T) (hsz : 2 ^ T ≤ w.size) :
    run C shards len w (derivInner i) = derivRowStep i w := by
  have h1 := lowbit_le i hi
  have h2 := add_lowbit_le i T hi hiT
  apply ext! (by simp)
  intro x hx
  rw [size_run] at hx
  unfold derivInner
  rw [run_xorsAt C shards len w (i - lowbit i) i (lowbit i) (by omega) (by omega) x,
    derivRowStep_get i w x hx]
  by_cases hin : i - lowbit i ≤ x ∧ x < i
  · rw [if_pos (by omega), if_pos hin, show i + (x - (i - lowbit i)) = x + lowbit i by omega]
  · rw [if_neg (by omega), if_neg hin]

theorem run_derivList (shards : Array Vec) (len : Nat) (T : Nat) (l : List Nat)
    (hl : ∀ i ∈ l, 0 < i ∧ i < 2 ^ T) (w : Array Vec) (hsz : 2 ^ T ≤ w.size) :
    run C shards len w (l.flatMap derivInner) = l.foldl (fun w i => derivRowStep i w) w := by
  induction l generalizing w with
  | nil => rfl
  | cons a l ih =>
    have ha := hl a (by simp)
    rw [List.flatMap_cons, run_append, run_derivInner C shards len w a T ha.1 ha.2 hsz, List.foldl_cons,
      ih (fun i hi => hl i (by simp [hi])) _ (by rw [size_derivRowStep]; exact hsz)]

/-- **the derivative loop**, row level -/
theorem run_derivSteps (shards : Array Vec) (len : Nat) (w : Array Vec) (T : Nat)
    (hsz : 2 ^ T ≤ w.size) : run C shards len w (derivSteps (2 ^ T)) = derivRows (2 ^ T) w := by
  unfold derivSteps derivRows
  apply run_derivList C shards len T _ _ w hsz
  intro i hi
  have := List.mem_range'_1.mp hi
  omega

/-! ## 4. the decoder schedule -/

/-- the work area before the final forward transform: load, inverse transform, formal derivative -/
def reconWork (sh : Array Vec) (len d p m T : Nat) (missing : Nat → Bool) (el : Array Nat)
    (w : Array Vec) : Array Vec :=
  derivRows (2 ^ T) (ifftRows C T 0 0 1 (loadRows C sh len d p m (2 ^ T) missing el w))

@[simp] theorem size_reconWork (sh : Array Vec) (len d p m T : Nat) (missing : Nat → Bool)
    (el : Array Nat) (w : Array Vec) : (reconWork C sh len d p m T missing el w).size = w.size := by
  simp [reconWork]

/-- **the decoder schedule, row level**: with `m = ceilPow2 p`, `n = ceilPow2 (m + d) = 2^T`, the schedule is
`reconWork` followed by `fftLayers C (m + d) n` -/
theorem run_reconSched (sh : Array Vec) (len : Nat) (w : Array Vec) (d p T : Nat)
    (missing : Nat → Bool) (el : Array Nat) (hn : ceilPow2 (ceilPow2 p + d) = 2 ^ T)
    (hT : T / 2 ≤ C.P.bits) (hpm : p ≤ ceilPow2 p) (hmn : ceilPow2 p + d ≤ 2 ^ T)
    (hsz : 2 ^ T ≤ w.size) :
    run C sh len w (reconSched C d p missing el).toList =
      run C sh len (reconWork C sh len d p (ceilPow2 p) T missing el w)
        (fftLayers C (ceilPow2 p + d) (2 ^ T)).toList := by
  rw [reconSched_toList, hn, run_append, run_append, run_append]
  congr 1
  generalize ceilPow2 p = m at hpm hmn
  rw [run_loadStepsR C sh len w d p m (2 ^ T) missing el hpm hmn hsz,
    run_ifftLayers_trunc C sh len _ 0 (m + d) (2 ^ T) 0 1 T rfl hT hmn (by simp; omega)
      (by
        intro idx h1 h2
        rw [Nat.zero_add]
        exact loadRows_zero C sh len d p m (2 ^ T) missing el w hpm hsz idx h1 h2),
    run_derivSteps C sh len _ T (by simp; omega)]
  rfl

/-- every row `j < m + d` after the schedule is row `j` of the clean forward network applied to `reconWork` -/
theorem run_reconSched_row (sh : Array Vec) (len : Nat) (w : Array Vec) (d p T : Nat)
    (missing : Nat → Bool) (el : Array Nat) (hn : ceilPow2 (ceilPow2 p + d) = 2 ^ T)
    (hT : T / 2 ≤ C.P.bits) (hpm : p ≤ ceilPow2 p) (hmn : ceilPow2 p + d ≤ 2 ^ T)
    (hsz : 2 ^ T ≤ w.size) (j : Nat) (hj : j < ceilPow2 p + d) :
    (run C sh len w (reconSched C d p missing el).toList)[j]! =
      (fftRows C T 0 0 1 (reconWork C sh len d p (ceilPow2 p) T missing el w))[j]! := by
  rw [run_reconSched C sh len w d p T missing el hn hT hpm hmn hsz]
  exact run_fftLayers_lt C sh len _ (ceilPow2 p + d) (2 ^ T) T rfl hT hmn (by simp; omega) j hj

/-- `ceilPow2 x ≤ 2^K` whenever `x ≤ 2^K` -/
theorem ceilPow2_le_pow (x K : Nat) (h : x ≤ 2 ^ K) : ceilPow2 x ≤ 2 ^ K := by
  rw [ceilPow2_eq]
  suffices hs : ∀ (l : List Nat) (k : Nat), (∃ e, e ≤ K ∧ k = 2 ^ e) →
      ∃ e, e ≤ K ∧ l.foldl (fun k _ => if k < x then k * 2 else k) k = 2 ^ e by
    obtain ⟨e, he, h'⟩ := hs (List.range' 0 64 1) 1 ⟨0, Nat.zero_le _, rfl⟩
    rw [h']; exact Nat.pow_le_pow_right (by decide) he
  intro l
  induction l with
  | nil => intro k hk; exact hk
  | cons a l ih =>
    intro k ⟨e, heK, he⟩
    simp only [List.foldl_cons]
    apply ih
    split
    · rename_i hlt
      have : e < K := by
        apply (Nat.pow_lt_pow_iff_right (a := 2) (by decide)).mp
        omega
      exact ⟨e + 1, this, by rw [he, Nat.pow_succ]⟩
    · exact ⟨e, heK, he⟩

end RSV.LCHDecode

#print axioms RSV.LCHDecode.reconSched_toList
#print axioms RSV.LCHDecode.run_loadStepsR
#print axioms RSV.LCHDecode.run_derivSteps
#print axioms RSV.LCHDecode.run_reconSched
#print axioms RSV.LCHDecode.run_reconSched_row
#print axioms RSV.LCHDecode.ceilPow2_le_pow
