import RSV.Proofs.LCHDecode.SchedBridge
import RSV.Proofs.LCHBridge.EncodeThm
/-!
# Leopard's `reconstruct` recovers the original shards (modulo two explicit mathematical hypotheses)

`F : FieldCtx C K` a field reading of the table context `C`, `hS : SkewOK F`.  The two mathematical facts

* `DecodeIdentity β k` — the Lin–Chung–Han / Leopard decoding identity
  `fft (derivLoop (ifft (c·Λ restricted to the present positions))) = c·Λ'` at the erased positions, and
* `EncodeIsRS β k` — the systematic codeword of the encoder (`parity`, data, zero padding) is the evaluation of a
  polynomial `P a` of "degree" `< n - m` in the novel basis,

are taken as hypotheses (both are statements about the field `K` only).  Under them, and the locator table being
correct (`ElOK F (erasedPos d p missing) el`), `reconstruct_rows` / `reconstruct_correct` show that the rows produced
by the decoder schedule, multiplied by `exp (modulus - el)`, are the original data / parity shards.
-/
namespace RSV.LCHDecode
open RSV.Model.Leo RSV.LCH RSV.LCHBridge RSV.Proofs.LeoSched RSV.Proofs.LCHSched Finset

/-! ## 1. the two mathematical hypotheses, the erased set -/

section Defs
variable {K : Type} [Field K]

/-- the decoding identity: `m = 2^t` parity positions, `n = 2^T` points, `a` the novel-basis coefficients of a
polynomial with `a j = 0` for `j ≥ n - m`, `c j = P a (ω_j)` its values, `E` an erasure set of at most `m` positions,
`Λ i = ∏_{e ∈ E, e ≠ i} (ω_i + ω_e)`: feeding `c·Λ` at the present positions (and `0` at the erased ones) through
`ifft`, the formal-derivative loop and `fft` gives `c·Λ` at the erased positions. -/
def DecodeIdentity (β : ℕ → K) (k : ℕ) : Prop :=
  ∀ t T : ℕ, t < T → T ≤ k → ∀ a : ℕ → K, (∀ j, 2 ^ T - 2 ^ t ≤ j → a j = 0) →
    ∀ E : Finset ℕ, E ⊆ Finset.range (2 ^ T) → E.card ≤ 2 ^ t → ∀ e ∈ E,
      fft β k T 0 (derivLoop (2 ^ T) (ifft β k T 0 (fun j =>
        if j ∈ E then 0
        else P β k T a (omega β k j) * ∏ e' ∈ E.erase j, (omega β k j + omega β k e')))) e =
      P β k T a (omega β k e) * ∏ e' ∈ E.erase e, (omega β k e + omega β k e')

/-- the encoder produces Reed–Solomon codewords: the vector `c` (`m = 2^t` parity symbols, then `G` groups of `m` data
symbols, then zeros up to `n = 2^T`) is the evaluation at `ω_0 … ω_{n-1}` of a polynomial `P a` whose novel-basis
coefficients vanish from `n - m` on. -/
def EncodeIsRS (β : ℕ → K) (k : ℕ) : Prop :=
  ∀ t T G : ℕ, t < T → T ≤ k → (G + 1) * 2 ^ t ≤ 2 ^ T → ∀ (data : ℕ → ℕ → K) (c : ℕ → K),
    (∀ r, r < 2 ^ t → c r = parity β k t G data r) →
    (∀ x, x < G * 2 ^ t → c (2 ^ t + x) = data (x / 2 ^ t) (x % 2 ^ t)) →
    (∀ j, (G + 1) * 2 ^ t ≤ j → j < 2 ^ T → c j = 0) →
    ∃ a : ℕ → K, (∀ j, 2 ^ T - 2 ^ t ≤ j → a j = 0) ∧
      ∀ j, j < 2 ^ T → c j = P β k T a (omega β k j)

end Defs

/-- the erased positions in the decoder's layout: missing parity shards at `i < p`, the padding `[p, m)`, missing
data shards at `m + c` (`m = ceilPow2 p`) -/
def erasedPos (d p : ℕ) (missing : ℕ → Bool) : Finset ℕ :=
  (Finset.range p).filter (fun i => missing (d + i)) ∪ Finset.Ico p (ceilPow2 p) ∪
    ((Finset.range d).filter (fun c => missing c)).image (ceilPow2 p + ·)

theorem mem_erasedPos {d p : ℕ} {missing : ℕ → Bool} {x : ℕ} :
    x ∈ erasedPos d p missing ↔
      (x < p ∧ missing (d + x) = true) ∨ (p ≤ x ∧ x < ceilPow2 p) ∨
        (ceilPow2 p ≤ x ∧ x < ceilPow2 p + d ∧ missing (x - ceilPow2 p) = true) := by
  unfold erasedPos
  simp only [mem_union, mem_filter, mem_range, mem_Ico, mem_image]
  constructor
  · rintro ((h | h) | ⟨c, ⟨hc, hm⟩, rfl⟩)
    · exact Or.inl h
    · exact Or.inr (Or.inl h)
    · exact Or.inr (Or.inr ⟨by omega, by omega, by rw [Nat.add_sub_cancel_left]; exact hm⟩)
  · rintro (h | h | ⟨h1, h2, h3⟩)
    · exact Or.inl (Or.inl h)
    · exact Or.inl (Or.inr h)
    · exact Or.inr ⟨x - ceilPow2 p, ⟨by omega, h3⟩, by omega⟩

theorem erasedPos_subset {d p n : ℕ} {missing : ℕ → Bool} (hpm : p ≤ ceilPow2 p)
    (hmn : ceilPow2 p + d ≤ n) : erasedPos d p missing ⊆ Finset.range n := by
  intro x hx
  rw [mem_erasedPos] at hx
  rw [mem_range]
  omega

/-- at most `p` missing shards: at most `m` erased positions -/
theorem card_erasedPos {d p : ℕ} {missing : ℕ → Bool} (hpm : p ≤ ceilPow2 p)
    (hmiss : ((Finset.range (d + p)).filter (fun i => missing i)).card ≤ p) :
    (erasedPos d p missing).card ≤ ceilPow2 p := by
  unfold erasedPos
  have h1 := card_union_le ((Finset.range p).filter (fun i => missing (d + i)) ∪ Finset.Ico p (ceilPow2 p))
    (((Finset.range d).filter (fun c => missing c)).image (ceilPow2 p + ·))
  have h2 := card_union_le ((Finset.range p).filter (fun i => missing (d + i))) (Finset.Ico p (ceilPow2 p))
  have h3 : (((Finset.range d).filter (fun c => missing c)).image (ceilPow2 p + ·)).card ≤
      ((Finset.range d).filter (fun c => missing c)).card := card_image_le
  have h4 : (Finset.Ico p (ceilPow2 p)).card = ceilPow2 p - p := Nat.card_Ico _ _
  have h5 : ((Finset.range p).filter (fun i => missing (d + i))).card =
      (((Finset.range p).filter (fun i => missing (d + i))).image (d + ·)).card :=
    (card_image_of_injective _ (fun a b h => Nat.add_left_cancel h)).symm
  have hdisj : Disjoint (((Finset.range p).filter (fun i => missing (d + i))).image (d + ·))
      ((Finset.range d).filter (fun c => missing c)) := by
    rw [disjoint_left]
    intro x hx hx'
    simp only [mem_image, mem_filter, mem_range] at hx hx'
    obtain ⟨a, _, rfl⟩ := hx
    omega
  have hsub : (((Finset.range p).filter (fun i => missing (d + i))).image (d + ·)) ∪
      ((Finset.range d).filter (fun c => missing c)) ⊆ (Finset.range (d + p)).filter (fun i => missing i) := by
    intro x hx
    simp only [mem_union, mem_image, mem_filter, mem_range] at hx ⊢
    rcases hx with ⟨a, ⟨ha, hm⟩, rfl⟩ | ⟨hx, hm⟩
    · exact ⟨by omega, hm⟩
    · exact ⟨by omega, hm⟩
  have h6 := card_le_card hsub
  rw [card_union_of_disjoint hdisj] at h6
  omega

/-! ## 2. the encoder's parity rows -/

variable {C : Ctx} {K : Type} [Field K] {F : FieldCtx C K}

/-- the parity rows of `encode` are well-formed, bounded, and read symbol-wise as the LCH `parity` -/
theorem encode_parity (hS : SkewOK F) {d p t len : ℕ} {data : Array Vec} (hd : 0 < d) (hp64 : p ≤ 2 ^ 64)
    (hm : ceilPow2 p = 2 ^ t) (hadm : d + ceilPow2 p ≤ 2 ^ F.k) (hdsz : data.size = d) (hwd : WF len data)
    (hbd : SymsBelow (2 ^ F.k) data) {r : ℕ} (hr : r < p) :
    ((encode C d p len data)[r]!).size = len ∧ VecBelow (2 ^ F.k) (encode C d p len data)[r]! ∧
    ∀ s, s < len → F.φ (((encode C d p len data)[r]!)[s]!) =
      parity (beta F) F.k t (ngroups (2 ^ t) d + 1) (fun g x => msg F data d s (g * 2 ^ t + x)) r := by
  have hm' := Nat.two_pow_pos t
  have hpm := le_ceilPow2 p hp64
  have hsize : ((encode C d p len data)[r]!).size = len := by
    have h := run_wf C (WF_replicate (2 * ceilPow2 p) len) hwd (steps := (encodeSched C d p).toList) (by
      intro s hs
      rw [Array.size_replicate, hdsz]
      exact RSV.Proofs.LeoSchedRange.encodeSched_in C d p hp64 s hs)
    unfold encode
    simp only
    rw [get!_extract _ 0 p r (by omega) (by simp; omega), Nat.zero_add]
    exact h.1 r (by rw [h.2, Array.size_replicate]; omega)
  rw [hm] at hadm hpm
  have htk : t ≤ F.k := (Nat.pow_le_pow_iff_right (a := 2) (by decide)).mp (by omega)
  have hrt : r < 2 ^ t := by omega
  obtain ⟨hA1, hA2⟩ := groups_arith hm' hd (Nat.pow_dvd_pow 2 htk) hadm
  have hrow := encode_row C len data d p t hm (by rw [F.hbits]; omega) hp64 r hr
  rw [hm] at hrow
  have key : ∀ s, s < len → ((encode C d p len data)[r]!)[s]! < 2 ^ F.k ∧
      F.φ (((encode C d p len data)[r]!)[s]!) =
        parity (beta F) F.k t (ngroups (2 ^ t) d + 1) (fun g x => msg F data d s (g * 2 ^ t + x)) r := by
    intro s hs
    obtain ⟨hWsz, hWwf, hWb, hWrd⟩ := encWork_spec hS htk (by omega) hwd hbd hs hA1
    rw [hrow]
    refine ⟨((symsBelow_fftRows (Geo.fwd htk) hS (by rw [hWsz]; omega) hWb).row r).get
      (Nat.two_pow_pos _) s, ?_⟩
    have h1 : ∀ w : Array Vec, F.φ ((w[r]!)[s]!) = rd F w 0 s r := by
      intro w; rw [rd_apply, Nat.zero_add]
    rw [h1, rd_fftRows (Geo.fwd htk) hS (by rw [hWsz]; omega) hWwf hWb hs hrt,
      fft_congr (beta F) F.k hWrd r hrt]
    rfl
  refine ⟨hsize, ?_, fun s hs => (key s hs).2⟩
  intro s hs
  rw [hsize] at hs
  exact (key s hs).1

/-! ## 3. the codeword, the locator values -/

/-- the systematic codeword at symbol position `s`, in the decoder's layout: the (would-be) parity symbols at
`j < m = 2^t`, the data symbols at `m + c` (zero beyond `d`) -/
noncomputable def cwVec (F : FieldCtx C K) (data : Array Vec) (d t s : ℕ) : ℕ → K := fun j =>
  if j < 2 ^ t then
    parity (beta F) F.k t (ngroups (2 ^ t) d + 1) (fun g x => msg F data d s (g * 2 ^ t + x)) j
  else msg F data d s (j - 2 ^ t)

/-- the locator table entry is the logarithm of the locator value, phrased with `omega` -/
theorem lam_eq {E : Finset ℕ} {el : Array ℕ} (hel : ElOK F E el) (hE : E ⊆ Finset.range (2 ^ F.k)) {x : ℕ}
    (hx : x < 2 ^ F.k) :
    ∏ e' ∈ E.erase x, (omega (beta F) F.k x + omega (beta F) F.k e') = F.g ^ el[x]! := by
  rw [(hel x hx).2]
  refine Finset.prod_congr rfl fun j hj => ?_
  have hj' : j < 2 ^ F.k := mem_range.mp (hE (mem_of_mem_erase hj))
  rw [omega_beta' F hx, omega_beta' F hj']

/-- multiplying a row by `exp (modulus - e)` undoes the scaling by `exp e` -/
theorem unscale_row {len e : ℕ} {v u : Vec} (hv : v.size = len) (hvb : VecBelow (2 ^ F.k) v)
    (hu : u.size = len) (hub : VecBelow (2 ^ F.k) u) (he : e < 2 ^ F.k)
    (h : ∀ s, s < len → F.φ v[s]! = F.φ u[s]! * F.g ^ e) : mulVec C v (C.P.modulus - e) = u := by
  have hB := Nat.two_pow_pos F.k
  have hmod := modulus_eq' F
  have hlt : C.P.modulus - e < 2 ^ F.k := by omega
  apply ext! (by rw [size_mulVec, hv, hu])
  intro s hs
  rw [size_mulVec, hv] at hs
  rw [get!_mulVec C v _ s (by omega)]
  apply F.φ_inj _ _ (F.mul_lt _ _ (hvb.get hB s) hlt) (hub.get hB s)
  rw [F.φ_mul _ _ (hvb.get hB s) hlt, h s hs, mul_assoc, ← pow_add,
    show e + (C.P.modulus - e) = 2 ^ F.k - 1 by omega, F.g_pow_modulus, mul_one]

/-! ## 4. the decoder -/

section Main
variable (hS : SkewOK F) (hDI : DecodeIdentity (beta F) F.k) (hRS : EncodeIsRS (beta F) F.k)
  {d p t T len : ℕ} {data sh : Array Vec} {missing : ℕ → Bool} {el : Array ℕ}
  (hd : 0 < d) (hp64 : p ≤ 2 ^ 64) (hm : ceilPow2 p = 2 ^ t) (hn : ceilPow2 (ceilPow2 p + d) = 2 ^ T)
  (hmn : ceilPow2 p + d ≤ 2 ^ T) (hTk : T ≤ F.k)
  (hdsz : data.size = d) (hwd : WF len data) (hbd : SymsBelow (2 ^ F.k) data)
  (hmiss : ((Finset.range (d + p)).filter (fun i => missing i)).card ≤ p)
  (hel : ElOK F (erasedPos d p missing) el)
  (hshd : ∀ i, i < d → missing i = false → sh[i]! = data[i]!)
  (hshp : ∀ r, r < p → missing (d + r) = false → sh[d + r]! = (encode C d p len data)[r]!)
include hS hd hp64 hm hmn hTk hdsz hwd hbd hshd hshp

/-- the received shards at the present positions are well-formed and bounded -/
theorem shards_ok : ∀ i, i < d + p → missing i = false →
    (sh[i]!).size = len ∧ VecBelow (2 ^ F.k) sh[i]! := by
  have hTk' : 2 ^ T ≤ 2 ^ F.k := Nat.pow_le_pow_right (by decide) hTk
  intro i hi hmi
  by_cases hid : i < d
  · rw [hshd i hid hmi]
    exact ⟨hwd i (by omega), hbd.row i⟩
  · obtain ⟨r, rfl⟩ : ∃ r, i = d + r := ⟨i - d, by omega⟩
    rw [hshp r (by omega) hmi]
    have := encode_parity hS hd hp64 hm (by omega) hdsz hwd hbd (r := r) (by omega)
    exact ⟨this.1, this.2.1⟩

include hel in
/-- the loaded work area is `c · Λ` at the present positions, `0` at the erased ones -/
theorem wload_eq {s : ℕ} (hs : s < len) {a : ℕ → K}
    (hac : ∀ j, j < 2 ^ T → cwVec F data d t s j = P (beta F) F.k T a (omega (beta F) F.k j))
    (x : ℕ) (hx : x < 2 ^ T) :
    wload F sh d p (ceilPow2 p) missing el s x =
      if x ∈ erasedPos d p missing then 0
      else P (beta F) F.k T a (omega (beta F) F.k x) *
        ∏ e' ∈ (erasedPos d p missing).erase x, (omega (beta F) F.k x + omega (beta F) F.k e') := by
  have hpm := le_ceilPow2 p hp64
  have hTk' : 2 ^ T ≤ 2 ^ F.k := Nat.pow_le_pow_right (by decide) hTk
  have hE : erasedPos d p missing ⊆ Finset.range (2 ^ F.k) :=
    (erasedPos_subset hpm hmn).trans (range_subset_range.mpr hTk')
  rw [lam_eq hel hE (by omega), ← hac x hx]
  unfold wload cwVec
  by_cases h1 : x < p
  · rw [if_pos h1, if_pos (show x < 2 ^ t by omega)]
    by_cases h2 : missing (d + x) = true
    · rw [if_pos h2, if_pos (mem_erasedPos.mpr (Or.inl ⟨h1, h2⟩))]
    · have hne : x ∉ erasedPos d p missing := by
        rw [mem_erasedPos]
        rintro (⟨_, h⟩ | h | h)
        · exact h2 h
        · omega
        · omega
      rw [if_neg h2, if_neg hne, hshp x h1 (by simpa using h2),
        (encode_parity hS hd hp64 hm (by omega) hdsz hwd hbd h1).2.2 s hs]
  · rw [if_neg h1]
    by_cases h2 : x < ceilPow2 p
    · rw [if_pos h2, if_pos (mem_erasedPos.mpr (Or.inr (Or.inl ⟨by omega, h2⟩)))]
    · rw [if_neg h2, if_neg (show ¬ x < 2 ^ t by omega)]
      by_cases h3 : x < ceilPow2 p + d
      · rw [if_pos h3]
        by_cases h4 : missing (x - ceilPow2 p) = true
        · rw [if_pos h4, if_pos (mem_erasedPos.mpr (Or.inr (Or.inr ⟨by omega, h3, h4⟩)))]
        · have hne : x ∉ erasedPos d p missing := by
            rw [mem_erasedPos]
            rintro (h | h | ⟨_, _, h⟩)
            · omega
            · omega
            · exact h4 h
          rw [if_neg h4, if_neg hne, hshd (x - ceilPow2 p) (by omega) (by simpa using h4), ← hm]
          unfold msg
          rw [if_pos (show x - ceilPow2 p < d by omega)]
      · rw [if_neg h3, if_neg (show x ∉ erasedPos d p missing by rw [mem_erasedPos]; omega)]
        unfold msg
        rw [if_neg (show ¬ x - 2 ^ t < d by omega), zero_mul]

include hDI hRS hn hmiss hel

/-- **the decoder at an erased position**: the row is the codeword symbol times the locator value -/
theorem recon_erased {e s : ℕ} (he : e ∈ erasedPos d p missing) (hs : s < len) :
    F.φ (((run C sh len (Array.replicate (2 ^ T) (zeroVec len)) (reconSched C d p missing el).toList)[e]!)[s]!) =
      cwVec F data d t s e * F.g ^ el[e]! := by
  have hm' := Nat.two_pow_pos t
  have hpm := le_ceilPow2 p hp64
  have hTk' : 2 ^ T ≤ 2 ^ F.k := Nat.pow_le_pow_right (by decide) hTk
  have htT : t < T := (Nat.pow_lt_pow_iff_right (a := 2) (by decide)).mp (by omega)
  have hE := erasedPos_subset (n := 2 ^ T) (missing := missing) hpm hmn
  have heT : e < 2 ^ T := mem_range.mp (hE he)
  have hej : e < ceilPow2 p + d := by rw [mem_erasedPos] at he; omega
  have hsh := shards_ok hS hd hp64 hm hmn hTk hdsz hwd hbd hshd hshp
  have helT : ∀ x, x < 2 ^ T → el[x]! < 2 ^ F.k := fun x hx => (hel x (by omega)).1
  -- the schedule, symbol-wise
  rw [recon_symbol hS hTk hpm hmn (by simp) (WF_replicate _ _) (symsBelow_replicate (Nat.two_pow_pos _) _ _)
    hsh helT hn hs hej]
  -- the codeword is a polynomial of low degree
  obtain ⟨hA1, hA2⟩ := groups_arith (N := 2 ^ T) hm' hd (Nat.pow_dvd_pow 2 (Nat.le_of_lt htT))
    (by omega)
  have hsucc : (ngroups (2 ^ t) d + 1 + 1) * 2 ^ t = (ngroups (2 ^ t) d + 1) * 2 ^ t + 2 ^ t :=
    Nat.succ_mul _ _
  obtain ⟨a, ha0, hac⟩ := hRS t T (ngroups (2 ^ t) d + 1) htT hTk hA1
    (fun g x => msg F data d s (g * 2 ^ t + x)) (cwVec F data d t s)
    (by intro r hr; unfold cwVec; rw [if_pos hr])
    (by
      intro x hx
      unfold cwVec
      rw [if_neg (by omega), Nat.add_sub_cancel_left, Nat.div_add_mod' x (2 ^ t)])
    (by
      intro j hj1 hj2
      unfold cwVec msg
      rw [if_neg (by omega), if_neg (by omega)])
  -- the decoding identity
  have hdi := hDI t T htT hTk a ha0 (erasedPos d p missing) hE
    (by rw [← hm]; exact card_erasedPos hpm hmiss) e he
  rw [fft_congr (beta F) F.k (fun x hx => derivLoop_congr_pow (fun y hy =>
    ifft_congr (beta F) F.k (wload_eq hS hd hp64 hm hmn hTk hdsz hwd hbd hel hshd hshp hs hac) y hy) x hx)
    e heT, hdi, ← hac e heT, lam_eq hel (hE.trans (range_subset_range.mpr hTk')) (by omega)]

end Main

/-! ## 5. the theorems -/

/-- the shapes `m = ceilPow2 p = 2^t`, `n = ceilPow2 (m + d) = 2^T ≤ 2^k` -/
theorem recon_shapes (F : FieldCtx C K) {d p : ℕ} (hk64 : F.k ≤ 64) (hadm : ceilPow2 p + d ≤ 2 ^ F.k) :
    ∃ t T, ceilPow2 p = 2 ^ t ∧ ceilPow2 (ceilPow2 p + d) = 2 ^ T ∧ ceilPow2 p + d ≤ 2 ^ T ∧ T ≤ F.k := by
  obtain ⟨t, ht⟩ := RSV.Proofs.LeoSchedRange.ceilPow2_pow2 p
  obtain ⟨T, hT⟩ := RSV.Proofs.LeoSchedRange.ceilPow2_pow2 (ceilPow2 p + d)
  have h64 : (2 : ℕ) ^ F.k ≤ 2 ^ 64 := Nat.pow_le_pow_right (by decide) hk64
  have h1 := le_ceilPow2 (ceilPow2 p + d) (by omega)
  have h2 := ceilPow2_le_pow (ceilPow2 p + d) F.k hadm
  rw [hT] at h1 h2
  exact ⟨t, T, ht, hT, h1, (Nat.pow_le_pow_iff_right (a := 2) (by decide)).mp h2⟩

section Thm
variable (hS : SkewOK F) (hDI : DecodeIdentity (beta F) F.k) (hRS : EncodeIsRS (beta F) F.k)
  {d p len : ℕ} {data sh : Array Vec} {missing : ℕ → Bool}
  (hd : 0 < d) (hp64 : p ≤ 2 ^ 64) (hk64 : F.k ≤ 64) (hadm : ceilPow2 p + d ≤ 2 ^ F.k)
  (hdsz : data.size = d) (hwd : WF len data) (hbd : SymsBelow (2 ^ F.k) data)
  (hmiss : ((Finset.range (d + p)).filter (fun i => missing i)).card ≤ p)
  (hshd : ∀ i, i < d → missing i = false → sh[i]! = data[i]!)
  (hshp : ∀ r, r < p → missing (d + r) = false → sh[d + r]! = (encode C d p len data)[r]!)
include hS hDI hRS hd hp64 hk64 hadm hdsz hwd hbd hmiss hshd hshp

/-- **the decoder schedule recovers the erased shards**: with a correct locator table `el`, the work rows after
`reconSched`, multiplied by `exp (modulus - el)`, are the original data shards (rows `m + i`) resp. the parity shards
that `encode` produces from them (rows `r`), at every missing index -/
theorem reconstruct_rows {el : Array ℕ} (hel : ElOK F (erasedPos d p missing) el) :
    (∀ i, i < d → missing i = true →
      mulVec C (run C sh len (Array.replicate (ceilPow2 (ceilPow2 p + d)) (zeroVec len))
        (reconSched C d p missing el).toList)[ceilPow2 p + i]! (C.P.modulus - el[ceilPow2 p + i]!) =
        data[i]!) ∧
    (∀ r, r < p → missing (d + r) = true →
      mulVec C (run C sh len (Array.replicate (ceilPow2 (ceilPow2 p + d)) (zeroVec len))
        (reconSched C d p missing el).toList)[r]! (C.P.modulus - el[r]!) =
        (encode C d p len data)[r]!) := by
  obtain ⟨t, T, hm, hn, hmn, hTk⟩ := recon_shapes F hk64 hadm
  have hpm := le_ceilPow2 p hp64
  have hTk' : 2 ^ T ≤ 2 ^ F.k := Nat.pow_le_pow_right (by decide) hTk
  have hsh := shards_ok hS hd hp64 hm hmn hTk hdsz hwd hbd hshd hshp
  have helT : ∀ x, x < 2 ^ T → el[x]! < 2 ^ F.k := fun x hx => (hel x (by omega)).1
  have hrow := fun j (hj : j < ceilPow2 p + d) =>
    recon_rows_ok hS hTk hpm hmn (w := Array.replicate (2 ^ T) (zeroVec len)) (by simp) (WF_replicate _ _)
      (symsBelow_replicate (Nat.two_pow_pos _) _ _) hsh helT hn hj
  rw [hn]
  constructor
  · intro i hi hmi
    have he : ceilPow2 p + i ∈ erasedPos d p missing :=
      mem_erasedPos.mpr (Or.inr (Or.inr ⟨by omega, by omega, by rw [Nat.add_sub_cancel_left]; exact hmi⟩))
    obtain ⟨hv, hvb⟩ := hrow (ceilPow2 p + i) (by omega)
    refine unscale_row hv hvb (hwd i (by omega)) (hbd.row i) (helT _ (by omega)) fun s hs => ?_
    rw [recon_erased hS hDI hRS hd hp64 hm hn hmn hTk hdsz hwd hbd hmiss hel hshd hshp he hs]
    congr 1
    unfold cwVec
    rw [hm, if_neg (show ¬ 2 ^ t + i < 2 ^ t by omega), Nat.add_sub_cancel_left]
    unfold msg
    rw [if_pos hi]
  · intro r hr hmr
    have he : r ∈ erasedPos d p missing := mem_erasedPos.mpr (Or.inl ⟨hr, hmr⟩)
    obtain ⟨hv, hvb⟩ := hrow r (by omega)
    obtain ⟨hu, hub, hpar⟩ := encode_parity hS hd hp64 hm (by omega) hdsz hwd hbd hr
    refine unscale_row hv hvb hu hub (helT _ (by omega)) fun s hs => ?_
    rw [recon_erased hS hDI hRS hd hp64 hm hn hmn hTk hdsz hwd hbd hmiss hel hshd hshp he hs, hpar s hs]
    congr 1
    unfold cwVec
    rw [if_pos (show r < 2 ^ t by omega)]

/-- **`reconstruct` is correct**: under the two mathematical hypotheses and the correctness of the locator table
computed by `errLocs`, `reconstruct` returns `some` exactly at the missing data indices (and at the missing parity
indices when `recoverAll`), and what it returns is the original shard -/
theorem reconstruct_correct (recoverAll : Bool)
    (hel : ElOK F (erasedPos d p missing) (errLocs C d p missing)) (i : ℕ) (hi : i < d + p) :
    (reconstruct C d p len sh missing recoverAll)[i]! =
      if missing i = true ∧ (i < d ∨ recoverAll = true) then
        some (if i < d then data[i]! else (encode C d p len data)[i - d]!)
      else none := by
  obtain ⟨h1, h2⟩ := reconstruct_rows hS hDI hRS hd hp64 hk64 hadm hdsz hwd hbd hmiss hshd hshp hel
  rw [get!_lt _ i (by rw [size_reconstruct]; exact hi)]
  simp only [reconstruct, Array.getElem_ofFn]
  by_cases hmi : missing i = true
  · by_cases hid : i < d
    · simpa [hmi, hid] using h1 i hid hmi
    · have h2' := h2 (i - d) (by omega) (by rw [show d + (i - d) = i by omega]; exact hmi)
      by_cases hra : recoverAll = true
      · simpa [hmi, hid, hra] using h2'
      · simp [hmi, hid, hra]
  · simp [hmi]

end Thm

end RSV.LCHDecode

#print axioms RSV.LCHDecode.card_erasedPos
#print axioms RSV.LCHDecode.encode_parity
#print axioms RSV.LCHDecode.recon_erased
#print axioms RSV.LCHDecode.reconstruct_rows
#print axioms RSV.LCHDecode.reconstruct_correct
