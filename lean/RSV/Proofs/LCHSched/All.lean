import RSV.Proofs.LCHSched.Sanity
/-!
# LCHSched: the literal radix-4 loop schedules refine the clean radix-2 butterfly network

Umbrella module; prints the axioms of the main theorems.
-/
open RSV.Proofs.LCHSched

#print axioms ifftLayers_toList
#print axioms fftLayers_toList
#print axioms fftLayerRows_get
#print axioms ifftLayerRows_get
#print axioms run_ifftLayers_full
#print axioms run_ifftLayers_trunc
#print axioms run_fftLayers
#print axioms run_fftLayers_lt
#print axioms run_fftLayers_ge
#print axioms run_fftLayers_wf
#print axioms run_ifftLayers_frame
#print axioms run_ifftLayers_wf
#print axioms WF_ifftRows
#print axioms WF_fftRows
#print axioms encodeSched_toList
#print axioms run_encodeSched
#print axioms run_encodeSched_row
#print axioms encode_row
#print axioms encGroup_get_lo
