import RSV.Proofs.LCHSched.Frame
/-!
# The encoder schedule at row level (core Lean only)
-/
namespace RSV.Proofs.LCHSched
open RSV.Model.Leo RSV.Proofs.LeoSched RSV.Proofs.LeoSchedRange

/-! ## 1. `encodeSched` as an explicit list -/

/-- a loop that only pushes steps -/
theorem forIn_push (l : List Nat) (g : Nat → Step) (init : Array Step) :
    (forIn (m := Id) l init fun i s => pure (ForInStep.yield (s.push (g i)))) =
      pure (init ++ (l.map g).toArray) := by
  induction l generalizing init with
  | nil => simp
  | cons a l ih =>
    rw [List.forIn_cons]
    show forIn l (init.push (g a)) _ = _
    rw [ih]
    congr 1
    apply Array.toList_inj.mp
    simp

/-- a loop whose body appends a list depending on the index -/
theorem forIn_append' (l : List Nat) (G : Nat → List Step)
    (f : Nat → Array Step → Id (ForInStep (Array Step)))
    (hf : ∀ i s, f i s = pure (ForInStep.yield (s ++ (G i).toArray))) (init : Array Step) :
    forIn l init f = pure (init ++ (l.flatMap G).toArray) := by
  have : f = fun i s => pure (ForInStep.yield (s ++ (G i).toArray)) := by
    funext i s; exact hf i s
  rw [this]
  exact forIn_append l G init

variable (C : Ctx)

/-- load `cnt` shards `off, off+1, …` into rows `base, base+1, …`, clear the rows up to `base + m` -/
def loadSteps (base off cnt m : Nat) : List Step :=
  (List.range' 0 cnt).map (fun k => Step.load (base + k) (off + k)) ++
    (List.range' cnt (m - cnt)).map (fun k => Step.clear (base + k))

def xorSteps (m : Nat) : List Step := (List.range' 0 m).map fun k => Step.xor k (m + k)

/-- the steps of the group `g ≥ 0` of further data shards -/
def groupSteps (d m g : Nat) : List Step :=
  loadSteps m (m + g * m) (if m + g * m + m ≤ d then m else d - (m + g * m)) m ++
    (ifftLayers C m (if m + g * m + m ≤ d then m else d - (m + g * m)) m (m - 1 + (m + g * m)) 0).toList ++
    xorSteps m

theorem encodeSched_toList (d p : Nat) :
    (encodeSched C d p).toList =
      loadSteps 0 0 (if d < ceilPow2 p then d else ceilPow2 p) (ceilPow2 p) ++
        (ifftLayers C 0 (if d < ceilPow2 p then d else ceilPow2 p) (ceilPow2 p) (ceilPow2 p - 1) 0).toList ++
        (if ceilPow2 p < d then
          (List.range' 0 ((d - ceilPow2 p + ceilPow2 p - 1) / ceilPow2 p)).flatMap
            (groupSteps C d (ceilPow2 p)) else []) ++
        (fftLayers C p (ceilPow2 p)).toList := by
  unfold encodeSched
  simp only [Std.Legacy.Range.forIn_eq_forIn_range', Std.Legacy.Range.size, Nat.sub_zero,
    Nat.add_one_sub_one, Nat.div_one, forIn_push, pure_bind]
  generalize ceilPow2 p = m
  generalize (if d < m then d else m) = mtrunc
  by_cases hmd : m < d
  · rw [if_pos hmd, if_pos hmd]
    rw [forIn_append' _ (groupSteps C d m) _ (by
      intro g s
      congr 2
      apply Array.toList_inj.mp
      simp [groupSteps, loadSteps, xorSteps, List.append_assoc])]
    simp [loadSteps, List.append_assoc]
  · rw [if_neg hmd, if_neg hmd]
    simp [loadSteps, List.append_assoc]

/-! ## 2. loads, clears, xors -/

theorem run_loads (shards : Array Vec) (len : Nat) (w : Array Vec) (base off n : Nat)
    (h : base + n ≤ w.size) (x : Nat) :
    (run C shards len w ((List.range' 0 n).map fun k => Step.load (base + k) (off + k)))[x]! =
      if base ≤ x ∧ x < base + n then shards[off + (x - base)]! else w[x]! := by
  induction n with
  | zero => rw [if_neg (by omega)]; rfl
  | succ n ih =>
    rw [List.range'_concat, List.map_append, run_append, List.map_singleton, run_cons, run_nil]
    simp only [step, Nat.zero_add, Nat.one_mul]
    rw [get!_set!, ih (by omega)]
    by_cases hx : base + n = x
    · subst hx
      rw [if_pos ⟨rfl, by rw [size_run]; omega⟩, if_pos (by omega), Nat.add_sub_cancel_left]
    · rw [if_neg (fun hh => hx hh.1)]
      by_cases h1 : base ≤ x ∧ x < base + n
      · rw [if_pos h1, if_pos (by omega)]
      · rw [if_neg h1, if_neg (by omega)]

theorem run_clears (shards : Array Vec) (len : Nat) (w : Array Vec) (base a n : Nat)
    (h : base + a + n ≤ w.size) (x : Nat) :
    (run C shards len w ((List.range' a n).map fun k => Step.clear (base + k)))[x]! =
      if base + a ≤ x ∧ x < base + a + n then zeroVec len else w[x]! := by
  induction n with
  | zero => rw [if_neg (by omega)]; rfl
  | succ n ih =>
    rw [List.range'_concat, List.map_append, run_append, List.map_singleton, run_cons, run_nil]
    simp only [step, Nat.one_mul]
    rw [get!_set!, ih (by omega)]
    by_cases hx : base + (a + n) = x
    · subst hx
      rw [if_pos ⟨rfl, by rw [size_run]; omega⟩, if_pos (by omega)]
    · rw [if_neg (fun hh => hx hh.1)]
      by_cases h1 : base + a ≤ x ∧ x < base + a + n
      · rw [if_pos h1, if_pos (by omega)]
      · rw [if_neg h1, if_neg (by omega)]

theorem run_xors (shards : Array Vec) (len : Nat) (w : Array Vec) (m n : Nat) (hn : n ≤ m)
    (h : m + n ≤ w.size) (x : Nat) :
    (run C shards len w ((List.range' 0 n).map fun k => Step.xor k (m + k)))[x]! =
      if x < n then xorVec w[x]! w[m + x]! else w[x]! := by
  induction n generalizing x with
  | zero => rw [if_neg (by omega)]; rfl
  | succ n ih =>
    rw [List.range'_concat, List.map_append, run_append, List.map_singleton, run_cons, run_nil]
    simp only [step, Nat.zero_add, Nat.one_mul]
    rw [get!_set!, ih (by omega) (by omega) x, ih (by omega) (by omega) n, ih (by omega) (by omega) (m + n),
      if_neg (by omega : ¬ n < n), if_neg (by omega : ¬ m + n < n)]
    by_cases hx : n = x
    · subst hx
      rw [if_pos ⟨rfl, by rw [size_run]; omega⟩, if_pos (by omega)]
    · rw [if_neg (fun hh => hx hh.1)]
      by_cases h1 : x < n
      · rw [if_pos h1, if_pos (by omega)]
      · rw [if_neg h1, if_neg (by omega)]

/-- rows `[base, base + cnt)` := shards `off, off+1, …`; rows `[base + cnt, base + m)` := zero -/
def dataRows (shards : Array Vec) (len base off cnt m : Nat) (w : Array Vec) : Array Vec :=
  tab w.size fun x =>
    if base ≤ x ∧ x < base + cnt then shards[off + (x - base)]!
    else if base + cnt ≤ x ∧ x < base + m then zeroVec len else w[x]!

/-- rows `k < m` := row `k` xor row `m + k` -/
def xorInto (m : Nat) (w : Array Vec) : Array Vec :=
  tab w.size fun x => if x < m then xorVec w[x]! w[m + x]! else w[x]!

@[simp] theorem size_dataRows (shards : Array Vec) (len base off cnt m : Nat) (w : Array Vec) :
    (dataRows shards len base off cnt m w).size = w.size := by simp [dataRows]

@[simp] theorem size_xorInto (m : Nat) (w : Array Vec) : (xorInto m w).size = w.size := by
  simp [xorInto]

theorem dataRows_get (shards : Array Vec) (len base off cnt m : Nat) (w : Array Vec) (x : Nat)
    (hx : x < w.size) :
    (dataRows shards len base off cnt m w)[x]! =
      if base ≤ x ∧ x < base + cnt then shards[off + (x - base)]!
      else if base + cnt ≤ x ∧ x < base + m then zeroVec len else w[x]! := tab_get _ _ x hx

theorem xorInto_get (m : Nat) (w : Array Vec) (x : Nat) (hx : x < w.size) :
    (xorInto m w)[x]! = if x < m then xorVec w[x]! w[m + x]! else w[x]! := tab_get _ _ x hx

theorem run_loadSteps (shards : Array Vec) (len : Nat) (w : Array Vec) (base off cnt m : Nat)
    (hc : cnt ≤ m) (h : base + m ≤ w.size) :
    run C shards len w (loadSteps base off cnt m) = dataRows shards len base off cnt m w := by
  apply ext! (by simp)
  intro x hx
  rw [size_run] at hx
  unfold loadSteps
  rw [run_append, run_clears C shards len _ base cnt (m - cnt) (by rw [size_run]; omega) x,
    run_loads C shards len w base off cnt (by omega) x, dataRows_get _ _ _ _ _ _ _ x hx]
  by_cases h1 : base ≤ x ∧ x < base + cnt
  · rw [if_neg (by omega), if_pos h1, if_pos h1]
  · rw [if_neg h1, if_neg h1]
    by_cases h2 : base + cnt ≤ x ∧ x < base + m
    · rw [if_pos (by omega), if_pos h2]
    · rw [if_neg (by omega), if_neg h2]

theorem run_xorSteps (shards : Array Vec) (len : Nat) (w : Array Vec) (m : Nat) (h : 2 * m ≤ w.size) :
    run C shards len w (xorSteps m) = xorInto m w := by
  apply ext! (by simp)
  intro x hx
  rw [size_run] at hx
  unfold xorSteps
  rw [run_xors C shards len w m m (Nat.le_refl _) (by omega) x, xorInto_get m w x hx]

/-! ## 3. the encoder -/

/-- group `g` of further data shards: load into rows `[m, 2m)` (zero-padded), inverse transform with
`skewOff = m - 1 + (m + g·m)`, xor into rows `[0, m)` -/
def encGroup (shards : Array Vec) (len d m t g : Nat) (w : Array Vec) : Array Vec :=
  xorInto m (ifftRows C t m (m - 1 + (m + g * m)) 0
    (dataRows shards len m (m + g * m) (if m + g * m + m ≤ d then m else d - (m + g * m)) m w))

/-- the work area before the final forward transform -/
def encWork (shards : Array Vec) (len d m t : Nat) (w : Array Vec) : Array Vec :=
  if m < d then
    (List.range' 0 ((d - m + m - 1) / m)).foldl (fun w g => encGroup C shards len d m t g w)
      (ifftRows C t 0 (m - 1) 0 (dataRows shards len 0 0 (if d < m then d else m) m w))
  else ifftRows C t 0 (m - 1) 0 (dataRows shards len 0 0 (if d < m then d else m) m w)

@[simp] theorem size_encGroup (shards : Array Vec) (len d m t g : Nat) (w : Array Vec) :
    (encGroup C shards len d m t g w).size = w.size := by simp [encGroup]

/-- accumulator rows after group `g`: row `k < m` := row `k` xor row `m + k` of the inverse transform of
the loaded group (rows `[0, m)` are not touched by the load / the transform on `[m, 2m)`) -/
theorem encGroup_get_lo (shards : Array Vec) (len d m t g : Nat) (w : Array Vec) (hm : m = 2 ^ t)
    (hsz : 2 * m ≤ w.size) (k : Nat) (hk : k < m) :
    (encGroup C shards len d m t g w)[k]! =
      xorVec w[k]! (ifftRows C t m (m - 1 + (m + g * m)) 0
        (dataRows shards len m (m + g * m) (if m + g * m + m ≤ d then m else d - (m + g * m)) m w))[m + k]! := by
  unfold encGroup
  rw [xorInto_get _ _ k (by simp; omega), if_pos hk,
    ifftRows_get_out C t m _ 0 _ (by rw [← hm]; simp; omega) k (Or.inl hk),
    dataRows_get _ _ _ _ _ _ _ k (by omega), if_neg (by omega), if_neg (by omega)]

theorem run_groupSteps (shards : Array Vec) (len : Nat) (w : Array Vec) (d m t g : Nat)
    (hm : m = 2 ^ t) (ht : t / 2 ≤ C.P.bits) (hsz : 2 * m ≤ w.size) :
    run C shards len w (groupSteps C d m g) = encGroup C shards len d m t g w := by
  have hcnt : (if m + g * m + m ≤ d then m else d - (m + g * m)) ≤ m := by split <;> omega
  unfold groupSteps encGroup
  rw [run_append, run_append, run_loadSteps C shards len w m _ _ m hcnt (by omega),
    run_ifftLayers_trunc C shards len _ m _ m _ 0 t hm ht hcnt (by simp; omega)
      (by
        intro idx h1 h2
        rw [dataRows_get _ _ _ _ _ _ _ _ (by omega), if_neg (by omega), if_pos (by omega)]),
    run_xorSteps C shards len _ m (by simp; omega)]

theorem run_groups (shards : Array Vec) (len : Nat) (d m t : Nat) (hm : m = 2 ^ t)
    (ht : t / 2 ≤ C.P.bits) (l : List Nat) (w : Array Vec) (hsz : 2 * m ≤ w.size) :
    run C shards len w (l.flatMap (groupSteps C d m)) =
      l.foldl (fun w g => encGroup C shards len d m t g w) w := by
  induction l generalizing w with
  | nil => rfl
  | cons g l ih =>
    rw [List.flatMap_cons, run_append, run_groupSteps C shards len w d m t g hm ht hsz, List.foldl_cons,
      ih _ (by rw [size_encGroup]; exact hsz)]

theorem size_foldl_encGroup (shards : Array Vec) (len d m t : Nat) (l : List Nat) (w : Array Vec) :
    (l.foldl (fun w g => encGroup C shards len d m t g w) w).size = w.size := by
  induction l generalizing w with
  | nil => rfl
  | cons g l ih => rw [List.foldl_cons, ih, size_encGroup]

@[simp] theorem size_encWork (shards : Array Vec) (len d m t : Nat) (w : Array Vec) :
    (encWork C shards len d m t w).size = w.size := by
  unfold encWork
  split
  · rw [size_foldl_encGroup]; simp
  · simp

/-- **the encoder schedule, row level**: with `m = ceilPow2 p = 2^t`, the schedule is
`encWork` (first group + accumulated further groups, all through the clean inverse network)
followed by `fftLayers C p m`; parity row `r < p` is row `r` of the clean forward network applied to
`encWork` -/
theorem run_encodeSched (shards : Array Vec) (len : Nat) (w : Array Vec) (d p t : Nat)
    (hm : ceilPow2 p = 2 ^ t) (ht : t / 2 ≤ C.P.bits) (hsz : 2 * ceilPow2 p ≤ w.size) :
    run C shards len w (encodeSched C d p).toList =
      run C shards len (encWork C shards len d (ceilPow2 p) t w) (fftLayers C p (ceilPow2 p)).toList := by
  rw [encodeSched_toList, run_append, run_append, run_append]
  congr 1
  generalize ceilPow2 p = m at hm hsz
  have hmt : (if d < m then d else m) ≤ m := by split <;> omega
  rw [run_loadSteps C shards len w 0 0 _ m hmt (by omega),
    run_ifftLayers_trunc C shards len _ 0 _ m (m - 1) 0 t hm ht hmt (by simp; omega)
      (by
        intro idx h1 h2
        rw [dataRows_get _ _ _ _ _ _ _ _ (by omega), if_neg (by omega), if_pos (by omega)])]
  unfold encWork
  by_cases hmd : m < d
  · rw [if_pos hmd, if_pos hmd, run_groups C shards len d m t hm ht _ _ (by simp; omega)]
  · rw [if_neg hmd, if_neg hmd]
    rfl

theorem run_encodeSched_row (shards : Array Vec) (len : Nat) (w : Array Vec) (d p t : Nat)
    (hm : ceilPow2 p = 2 ^ t) (ht : t / 2 ≤ C.P.bits) (hp : p ≤ 2 ^ 64)
    (hsz : 2 * ceilPow2 p ≤ w.size) (r : Nat) (hr : r < p) :
    (run C shards len w (encodeSched C d p).toList)[r]! =
      (fftRows C t 0 0 1 (encWork C shards len d (ceilPow2 p) t w))[r]! := by
  rw [run_encodeSched C shards len w d p t hm ht hsz]
  exact run_fftLayers_lt C shards len _ p (ceilPow2 p) t hm ht (le_ceilPow2 p hp) (by simp; omega) r hr

/-- the parity shards produced by `encode` -/
theorem encode_row (len : Nat) (data : Array Vec) (d p t : Nat)
    (hm : ceilPow2 p = 2 ^ t) (ht : t / 2 ≤ C.P.bits) (hp : p ≤ 2 ^ 64) (r : Nat) (hr : r < p) :
    (encode C d p len data)[r]! =
      (fftRows C t 0 0 1 (encWork C data len d (ceilPow2 p) t
        (Array.replicate (2 * ceilPow2 p) (zeroVec len))))[r]! := by
  have hpm := le_ceilPow2 p hp
  unfold encode
  simp only
  rw [← run_encodeSched_row C data len _ d p t hm ht hp (by simp) r hr]
  rw [get!_extract _ 0 p r (by omega) (by simp; omega), Nat.zero_add]

end RSV.Proofs.LCHSched
