import RSV.Proofs.LCHSched.Ifft
/-!
# `fftLayers` computes the clean forward network `fftRows` on the processed blocks (core Lean only)

`fftDIT` works on rows `[0, m)` (`base = 0`, `skewOff = 0`, `idxAdj = 1`), large distances first, and
in every pass (including the final radix-2 pass) skips the blocks whose start is `≥ mtrunc`.

* `AgreeOn m mtrunc D σ κ`: `σ` and `κ` agree on every `D`-aligned block of `[0, m)` whose start is
  `< mtrunc`;
* `fft_pass_agree`: a truncated radix-4 pass with distance `d` maps `AgreeOn D'` (`4d ∣ D'`) states to
  `AgreeOn (4d)` states, against the two clean layers `2d`, `d`;
* `fft_final_agree`: the same for the final truncated radix-2 pass;
* `run_fftLayers`: rows `idx` with `idx / Dl * Dl < mtrunc` (`Dl = 2` for odd `t`, `4` for even `t`)
  of `run … (fftLayers C mtrunc m)` are the rows of `fftRows C t 0 0 1 w`;
  `run_fftLayers_lt` (`idx < mtrunc`), `run_fftLayers_ge` (rows `≥ m` untouched).
-/
namespace RSV.Proofs.LCHSched
open RSV.Model.Leo RSV.Proofs.LeoSched RSV.Proofs.LeoSchedRange

variable (C : Ctx)

/-- the forward gadget at position `i` of a pass with distance `d` (rows `[0, m)`) -/
def fftGad (d i : Nat) : Rows → Rows :=
  fftG4 (bfF C) (0 + i) (0 + i + d) (0 + i + 2 * d) (0 + i + 3 * d)
    (skw C 0 1 d (i / (4 * d) * (4 * d)))
    (skw C 0 1 d (i / (4 * d) * (4 * d) + 2 * d))
    (skw C 0 1 (2 * d) (i / (4 * d) * (4 * d)))

theorem fftPass_eq (mtrunc d : Nat) (hd : 0 < d) :
    fftPass C mtrunc d =
      (idxList ((mtrunc + 4 * d - 1) / (4 * d)) d).flatMap fun i =>
        fft4 C (0 + i) d (skw C 0 1 d (i / (4 * d) * (4 * d)))
          (skw C 0 1 d (i / (4 * d) * (4 * d) + 2 * d))
          (skw C 0 1 (2 * d) (i / (4 * d) * (4 * d))) := by
  unfold fftPass idxList
  rw [List.flatMap_assoc]
  apply flatMap_congr'
  intro q _
  unfold fftBlock
  apply flatMap_congr'
  intro i hi
  have hi' := List.mem_range'_1.mp hi
  obtain ⟨l, rfl⟩ : ∃ l, i = q * (4 * d) + l := ⟨i - q * (4 * d), by omega⟩
  rw [block_div q (4 * d) l (by omega)]
  unfold skw
  simp only [Nat.zero_add]
  congr 2 <;> omega

theorem sim_fftPass (n mtrunc d : Nat) (hd : 0 < d)
    (hn : (mtrunc + 4 * d - 1) / (4 * d) * (4 * d) ≤ n) :
    Sim C n (fftPass C mtrunc d) (pass4F (fftGad C d) ((mtrunc + 4 * d - 1) / (4 * d)) d) := by
  rw [fftPass_eq C mtrunc d hd]
  apply Sim.flatMap
  intro i hi
  obtain ⟨q, hq, h1, h2⟩ := (mem_idxList _ d i).mp hi
  have := succ_mul_le (D := 4 * d) hq
  exact sim_fft4 C n (0 + i) d _ _ _ hd (by omega)

/-- the two forward layers with distances `2d` and `d` on rows `[0, m)` -/
def fftLL (m d : Nat) (ρ : Rows) : Rows :=
  layerF (bfF C) (skw C 0 1 d) d 0 m (layerF (bfF C) (skw C 0 1 (2 * d)) (2 * d) 0 m ρ)

theorem fftGad_local (d i : Nat) : LocalOn (S4 (0 + i) d) (fftGad C d i) := fftG4_local _ _ _ _ _ _

theorem fftPassF_eq (m d nb : Nat) (hd : 0 < d) (hnb : nb * (4 * d) ≤ m) (ρ : Rows) (z : Nat) :
    pass4F (fftGad C d) nb d ρ z =
      if 0 ≤ z ∧ z < 0 + nb * (4 * d) then fftLL C m d ρ z else ρ z := by
  apply pass4F_eq _ _ 0 nb d hd (fftGad_local C d)
  intro q l hq hl ρ z hz
  unfold fftGad fftLL
  rw [block_div q (4 * d) l (by omega)]
  have := succ_mul_le (D := 4 * d) hq
  exact fft_two_layers (bfF C) _ _ d 0 m hd ρ (q * (4 * d)) l ⟨q, Nat.mul_comm _ _⟩ hl (by omega) z hz

/-! ## agreement on the processed blocks -/

/-- `σ` and `κ` agree on every `D`-aligned block of `[0, m)` whose start is `< mtrunc` -/
def AgreeOn (m mtrunc D : Nat) (σ κ : Rows) : Prop :=
  ∀ idx, idx < m → idx / D * D < mtrunc → σ idx = κ idx

theorem div_mul_le_of_dvd (idx D D' : Nat) (hD : 0 < D) (h : D ∣ D') : idx / D' * D' ≤ idx / D * D := by
  obtain ⟨c, rfl⟩ := h
  have h1 : idx / (D * c) * (D * c) = D * (c * (idx / (D * c))) := by
    rw [Nat.mul_comm, Nat.mul_assoc]
  have h2 := Nat.div_mul_le_self idx (D * c)
  have h3 : D * (c * (idx / (D * c))) / D * D ≤ idx / D * D := div_mul_mono _ _ D (by omega)
  rw [Nat.mul_div_cancel_left _ hD, Nat.mul_comm _ D] at h3
  omega

theorem fft_pass_agree (m mtrunc d D' : Nat) (hd : 0 < d) (hdm : 4 * d ∣ m) (hD' : 4 * d ∣ D')
    (σ κ : Rows) (hA : AgreeOn m mtrunc D' σ κ) :
    AgreeOn m mtrunc (4 * d) (pass4F (fftGad C d) ((mtrunc + 4 * d - 1) / (4 * d)) d σ)
      (fftLL C m d κ) := by
  intro idx hidx hlt
  obtain ⟨nbF, hnbF⟩ := hdm
  have hD : 0 < 4 * d := by omega
  have hm' : m = nbF * (4 * d) := by rw [hnbF, Nat.mul_comm]
  obtain ⟨q, l, hq, hl, hc⟩ := decomp nbF d idx hd (by omega)
  have hqm := succ_mul_le (D := 4 * d) hq
  obtain ⟨e, he, hie⟩ : ∃ e, e < 4 * d ∧ idx = q * (4 * d) + e := ⟨idx - q * (4 * d), by omega, by omega⟩
  have hblk : q * (4 * d) < mtrunc := by
    rw [hie, block_div q (4 * d) e he] at hlt; exact hlt
  have hqnb : q < (mtrunc + 4 * d - 1) / (4 * d) := (mul_lt_iff_lt_ceil _ _ _ hD).mp hblk
  have hS : S4 (0 + (q * (4 * d) + l)) d idx := by unfold S4; omega
  rw [pass4F_in _ 0 _ d (fftGad_local C d) σ q l hqnb hl idx hS]
  have hfull := fftPassF_eq C m d nbF hd (by omega) κ idx
  rw [if_pos (by omega)] at hfull
  rw [← hfull, pass4F_in _ 0 nbF d (fftGad_local C d) κ q l hq hl idx hS]
  apply (fftGad_local C d (q * (4 * d) + l)).loc σ κ _ idx hS
  intro z' hz'
  obtain ⟨e', he', hze⟩ : ∃ e', e' < 4 * d ∧ z' = q * (4 * d) + e' := by
    unfold S4 at hz'
    exact ⟨z' - q * (4 * d), by omega, by omega⟩
  apply hA z' (by omega)
  have := div_mul_le_of_dvd z' (4 * d) D' hD hD'
  rw [hze, block_div q (4 * d) e' he'] at this
  rw [hze]
  omega

/-! ## the final (truncated) radix-2 pass -/

def fin2F (nb : Nat) (ρ : Rows) : Rows :=
  (List.range nb).foldl (fun ρ q => bf2 (bfF C) (q * 2) (q * 2 + 1) (skewAt C (q * 2)) ρ) ρ

theorem sim_fftFinal (n mtrunc : Nat) (hn : (mtrunc + 2 - 1) / 2 * 2 ≤ n) :
    Sim C n (fftFinal C mtrunc) (fin2F C ((mtrunc + 2 - 1) / 2)) := by
  unfold fftFinal
  apply Sim.flatMap
  intro q hq
  have hq' := List.mem_range.mp hq
  have := succ_mul_le (D := 2) hq'
  exact sim_fft2 C n _ _ _ (by omega) (by omega) (by omega)

theorem fin2F_spec (nb : Nat) (ρ : Rows) :
    (∀ q, q < nb → ∀ z, (z = q * 2 ∨ z = q * 2 + 1) →
        fin2F C nb ρ z = bf2 (bfF C) (q * 2) (q * 2 + 1) (skewAt C (q * 2)) ρ z) ∧
      (∀ z, nb * 2 ≤ z → fin2F C nb ρ z = ρ z) := by
  have hpw : (List.range nb).Pairwise fun a b =>
      ∀ z, (z = a * 2 ∨ z = a * 2 + 1) → ¬ (z = b * 2 ∨ z = b * 2 + 1) := by
    refine List.Pairwise.imp ?_ (List.pairwise_lt_range (n := nb))
    intro a b hab z h1 h2
    omega
  have key := foldl_disjoint
    (fun q => bf2 (bfF C) (q * 2) (q * 2 + 1) (skewAt C (q * 2)))
    (fun q z => z = q * 2 ∨ z = q * 2 + 1)
    (fun q => LocalOn.bf2 (bfF C) _ (Or.inl rfl) (Or.inr rfl)) _ hpw ρ
  constructor
  · intro q hq z hz
    exact key.1 q (List.mem_range.mpr hq) z hz
  · intro z hz
    apply key.2
    intro q hq hS
    have := List.mem_range.mp hq
    omega

/-- the clean layer with distance 1 on the pair `(2q, 2q+1)` -/
theorem layer0_pair (m : Nat) (ρ : Rows) (q : Nat) (hq : q * 2 + 2 ≤ m) :
    layerF (bfF C) (skw C 0 1 1) 1 0 m ρ (q * 2) = (bfF C (ρ (q * 2)) (ρ (q * 2 + 1)) (skewAt C (q * 2))).1 ∧
      layerF (bfF C) (skw C 0 1 1) 1 0 m ρ (q * 2 + 1) =
        (bfF C (ρ (q * 2)) (ρ (q * 2 + 1)) (skewAt C (q * 2))).2 := by
  have p := layerF_pair (bfF C) (skw C 0 1 1) 1 0 m ρ (q * 2) 0 ⟨q, by omega⟩ (by omega) (by omega)
  have hsk : skw C 0 1 1 (q * 2) = skewAt C (q * 2) := by unfold skw; congr 1; omega
  rw [Nat.zero_add, Nat.add_zero, hsk] at p
  exact p

theorem fft_final_agree (m mtrunc D' : Nat) (hdm : 2 ∣ m) (hD' : 2 ∣ D') (σ κ : Rows)
    (hA : AgreeOn m mtrunc D' σ κ) :
    AgreeOn m mtrunc 2 (fin2F C ((mtrunc + 2 - 1) / 2) σ) (layerF (bfF C) (skw C 0 1 1) 1 0 m κ) := by
  intro idx hidx hlt
  have h1 := Nat.div_add_mod idx 2
  have h2 := Nat.mod_lt idx (by decide : 0 < 2)
  have hqnb : idx / 2 < (mtrunc + 2 - 1) / 2 := (mul_lt_iff_lt_ceil _ _ _ (by decide)).mp hlt
  obtain ⟨c, hc⟩ := hdm
  have hq2 : idx / 2 * 2 + 2 ≤ m := by omega
  obtain ⟨l0, l1⟩ := layer0_pair C m κ (idx / 2) hq2
  have a0 : σ (idx / 2 * 2) = κ (idx / 2 * 2) := by
    apply hA _ (by omega)
    have := div_mul_le_of_dvd (idx / 2 * 2) 2 D' (by decide) hD'
    rw [Nat.mul_div_cancel _ (by decide : 0 < 2)] at this
    omega
  have a1 : σ (idx / 2 * 2 + 1) = κ (idx / 2 * 2 + 1) := by
    apply hA _ (by omega)
    have := div_mul_le_of_dvd (idx / 2 * 2 + 1) 2 D' (by decide) hD'
    have e : (idx / 2 * 2 + 1) / 2 * 2 = idx / 2 * 2 := block_div (idx / 2) 2 1 (by decide)
    omega
  have hcase : idx = idx / 2 * 2 ∨ idx = idx / 2 * 2 + 1 := by omega
  rw [(fin2F_spec C _ σ).1 (idx / 2) hqnb idx hcase]
  rcases hcase with h | h
  · rw [h] at l0 ⊢
    rw [Nat.mul_div_cancel _ (by decide : 0 < 2)] at l0 ⊢
    rw [l0]
    simp only [bf2, if_pos]
    rw [a0, a1]
  · have e : (idx / 2 * 2 + 1) / 2 = idx / 2 := by omega
    rw [h] at l1 ⊢
    rw [e] at l1 ⊢
    rw [l1]
    have hne : idx / 2 * 2 + 1 ≠ idx / 2 * 2 := by omega
    simp only [bf2, if_neg hne, if_pos]
    rw [a0, a1]

/-! ## composition -/

/-- forward layers `k-1, …, 0` on row functions -/
def fftF (base m skewOff idxAdj : Nat) : Nat → Rows → Rows
  | 0, ρ => ρ
  | k + 1, ρ => fftF base m skewOff idxAdj k
      (layerF (bfF C) (skw C skewOff idxAdj (2 ^ k)) (2 ^ k) base m ρ)

theorem rowsOf_fftRowsAux (base m skewOff idxAdj k : Nat) (w : Array Vec) (h : base + m ≤ w.size) :
    rowsOf (fftRowsAux C base m skewOff idxAdj k w) = fftF C base m skewOff idxAdj k (rowsOf w) := by
  induction k generalizing w with
  | zero => rfl
  | succ k ih =>
    rw [fftRowsAux, ih _ (by rw [size_fftLayerRows]; exact h), fftLayerRows,
      rowsOf_layerRows _ _ _ _ _ _ h]
    rfl

theorem fftF_succ_succ (m k : Nat) (ρ : Rows) :
    fftF C 0 m 0 1 (k + 2) ρ = fftF C 0 m 0 1 k (fftLL C m (2 ^ k) ρ) := by
  show fftF C 0 m 0 1 k (layerF _ _ _ _ _ (layerF _ _ (2 ^ (k + 1)) _ _ _)) = _
  rw [two_pow_succ']
  rfl

/-- the clean layers `t-1, …, t-2J` -/
def fftTopF (m t : Nat) : Nat → Rows → Rows
  | 0, ρ => ρ
  | J + 1, ρ => fftLL C m (2 ^ (t - 2 * J - 2)) (fftTopF m t J ρ)

theorem fftF_top (m t J : Nat) (hJ : 2 * J ≤ t) (ρ : Rows) :
    fftF C 0 m 0 1 t ρ = fftF C 0 m 0 1 (t - 2 * J) (fftTopF C m t J ρ) := by
  induction J with
  | zero => rfl
  | succ J ih =>
    rw [ih (by omega)]
    have e : t - 2 * J = (t - 2 * J - 2) + 2 := by omega
    have e' : t - 2 * (J + 1) = t - 2 * J - 2 := by omega
    rw [e, fftF_succ_succ, e']
    rfl

/-- the radix-4 passes `0 … J-1` of the truncated generator -/
def fftPassesF (mtrunc t J : Nat) (ρ : Rows) : Rows :=
  (List.range J).foldl (fun ρ j => pass4F (fftGad C (2 ^ (t - 2 * j - 2)))
    ((mtrunc + 4 * 2 ^ (t - 2 * j - 2) - 1) / (4 * 2 ^ (t - 2 * j - 2))) (2 ^ (t - 2 * j - 2)) ρ) ρ

theorem fftPassesF_agree (m mtrunc t : Nat) (hm : m = 2 ^ t) (ρ : Rows) (J : Nat) (hJ : 2 * J ≤ t) :
    AgreeOn m mtrunc (2 ^ (t + 2 - 2 * J)) (fftPassesF C mtrunc t J ρ) (fftTopF C m t J ρ) := by
  induction J with
  | zero => intro idx _ _; rfl
  | succ J ih =>
    have ih' := ih (by omega)
    have hstep : fftPassesF C mtrunc t (J + 1) ρ =
        pass4F (fftGad C (2 ^ (t - 2 * J - 2)))
          ((mtrunc + 4 * 2 ^ (t - 2 * J - 2) - 1) / (4 * 2 ^ (t - 2 * J - 2))) (2 ^ (t - 2 * J - 2))
          (fftPassesF C mtrunc t J ρ) := by
      unfold fftPassesF
      rw [List.range_succ, List.foldl_append]
      rfl
    have h4 : 4 * 2 ^ (t - 2 * J - 2) = 2 ^ (t + 2 - 2 * (J + 1)) := by
      rw [four_mul_pow2]; congr 1; omega
    have := fft_pass_agree C m mtrunc (2 ^ (t - 2 * J - 2)) (2 ^ (t + 2 - 2 * J)) (Nat.two_pow_pos _)
      (by rw [h4, hm]; exact Nat.pow_dvd_pow 2 (by omega))
      (by rw [h4]; exact Nat.pow_dvd_pow 2 (by omega)) _ _ ih'
    rw [h4] at this
    rw [hstep, h4]
    exact this

/-- the whole schedule `fftLayers C mtrunc m` on row functions -/
def fftSchedF (mtrunc t : Nat) (ρ : Rows) : Rows :=
  if t % 2 = 1 then fin2F C ((mtrunc + 2 - 1) / 2) (fftPassesF C mtrunc t (t / 2) ρ)
  else fftPassesF C mtrunc t (t / 2) ρ

theorem sim_fftLayers (mtrunc m t : Nat) (hm : m = 2 ^ t) (ht : t / 2 ≤ C.P.bits) (hmt : mtrunc ≤ m) :
    Sim C m (fftLayers C mtrunc m).toList (fftSchedF C mtrunc t) := by
  rw [fftLayers_toList C mtrunc m t hm hmt ht]
  have hpass : Sim C m ((List.range (t / 2)).flatMap fun j => fftPass C mtrunc (2 ^ (t - 2 * j - 2)))
      (fftPassesF C mtrunc t (t / 2)) := by
    apply Sim.flatMap
    intro j hj
    have hj' := List.mem_range.mp hj
    apply sim_fftPass C _ mtrunc _ (Nat.two_pow_pos _)
    apply ceil_mul_le _ _ _ (by have := Nat.two_pow_pos (t - 2 * j - 2); omega) _ hmt
    rw [four_mul_pow2, hm]; exact Nat.pow_dvd_pow 2 (by omega)
  unfold fftSchedF
  by_cases hodd : t % 2 = 1
  · rw [if_pos hodd]
    have hfin := sim_fftFinal C m mtrunc (ceil_mul_le _ _ _ (by decide)
      (by rw [hm, show t = (t - 1) + 1 by omega, Nat.pow_succ]; exact Nat.dvd_mul_left _ _) hmt)
    refine Sim.congr C (hpass.append C hfin) ?_
    funext ρ
    rw [if_pos hodd]
  · rw [if_neg hodd, List.append_nil]
    refine Sim.congr C hpass ?_
    funext ρ
    rw [if_neg hodd]

/-- **refinement, truncated forward transform**: every row of a block (of size `2` for odd `t`, `4` for
even `t`) whose start is `< mtrunc` is the corresponding row of the clean network -/
theorem run_fftLayers (shards : Array Vec) (len : Nat) (w : Array Vec) (mtrunc m t : Nat)
    (hm : m = 2 ^ t) (ht : t / 2 ≤ C.P.bits) (hmt : mtrunc ≤ m) (hsz : m ≤ w.size) (idx : Nat)
    (hidx : idx < m)
    (hblk : idx / (if t % 2 = 1 then 2 else 4) * (if t % 2 = 1 then 2 else 4) < mtrunc) :
    (run C shards len w (fftLayers C mtrunc m).toList)[idx]! = (fftRows C t 0 0 1 w)[idx]! := by
  show rowsOf (run C shards len w (fftLayers C mtrunc m).toList) idx = rowsOf (fftRows C t 0 0 1 w) idx
  rw [sim_fftLayers C mtrunc m t hm ht hmt shards len w hsz, fftRows, ← hm,
    rowsOf_fftRowsAux C 0 m 0 1 t w (by omega), fftF_top C m t (t / 2) (by omega)]
  have hA := fftPassesF_agree C m mtrunc t hm (rowsOf w) (t / 2) (by omega)
  unfold fftSchedF
  by_cases hodd : t % 2 = 1
  · rw [if_pos hodd] at hblk ⊢
    have e : t - 2 * (t / 2) = 1 := by omega
    rw [e]
    have h2m : 2 ∣ m := by
      rw [hm, show t = (t - 1) + 1 by omega, Nat.pow_succ]; exact Nat.dvd_mul_left _ _
    have := fft_final_agree C m mtrunc _ h2m
      (by rw [show t + 2 - 2 * (t / 2) = 3 by omega]; exact ⟨4, rfl⟩) _ _ hA
    exact this idx hidx hblk
  · rw [if_neg hodd] at hblk ⊢
    have e : t - 2 * (t / 2) = 0 := by omega
    rw [e]
    rw [show t + 2 - 2 * (t / 2) = 2 by omega] at hA
    exact hA idx hidx hblk

/-- rows `idx < mtrunc` in particular -/
theorem run_fftLayers_lt (shards : Array Vec) (len : Nat) (w : Array Vec) (mtrunc m t : Nat)
    (hm : m = 2 ^ t) (ht : t / 2 ≤ C.P.bits) (hmt : mtrunc ≤ m) (hsz : m ≤ w.size) (idx : Nat)
    (hidx : idx < mtrunc) :
    (run C shards len w (fftLayers C mtrunc m).toList)[idx]! = (fftRows C t 0 0 1 w)[idx]! := by
  apply run_fftLayers C shards len w mtrunc m t hm ht hmt hsz idx (by omega)
  exact Nat.lt_of_le_of_lt (Nat.div_mul_le_self _ _) hidx

end RSV.Proofs.LCHSched
