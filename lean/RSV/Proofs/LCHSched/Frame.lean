import RSV.Proofs.LCHSched.Fft
/-!
# Frame and well-formedness of the layer schedules and of the clean networks (core Lean only)

* `run_frame_ge`: steps that address only rows `< n` leave the rows `≥ n` alone (any step list);
* `Sim.run_irrel`: a simulated step list does not depend on the shard set / `len` parameter;
* `run_ifftLayers_frame`, `run_ifftLayers_wf`; `run_fftLayers_ge`, `run_fftLayers_wf`;
* `ifftRows_get_out`, `fftRows_get_out`, `WF_ifftRows`, `WF_fftRows` for the clean networks.
-/
namespace RSV.Proofs.LCHSched
open RSV.Model.Leo RSV.Proofs.LeoSched RSV.Proofs.LeoSchedRange

variable (C : Ctx)

theorem step_frame_ge {n k : Nat} (shards : Array Vec) (len : Nat) (w : Array Vec) {s : Step}
    (hs : InRange n k s) (x : Nat) (hx : n ≤ x) : (step C shards len w s)[x]! = w[x]! := by
  cases s with
  | load d sh => exact get!_set!_ne _ _ _ _ (by have := hs.1; omega)
  | loadMul d sh m => exact get!_set!_ne _ _ _ _ (by have := hs.1; omega)
  | clear d => exact get!_set!_ne _ _ _ _ (by have : d < n := hs; omega)
  | mulAdd d src m => exact get!_set!_ne _ _ _ _ (by have := hs.1; omega)
  | xor d src => exact get!_set!_ne _ _ _ _ (by have := hs.1; omega)

/-- steps that address only rows `< n` leave the rows `≥ n` alone -/
theorem run_frame_ge {n k : Nat} (shards : Array Vec) (len : Nat) (w : Array Vec) (steps : List Step)
    (hs : ∀ s ∈ steps, InRange n k s) (x : Nat) (hx : n ≤ x) :
    (run C shards len w steps)[x]! = w[x]! := by
  induction steps generalizing w with
  | nil => rfl
  | cons s ss ih =>
    rw [run_cons, ih _ (fun t ht => hs t (by simp [ht])), step_frame_ge C shards len w (hs s (by simp)) x hx]

/-- a simulated step list does not depend on the shard set or on `len` -/
theorem Sim.run_irrel {n : Nat} {L : List Step} {F : Rows → Rows} (h : Sim C n L F)
    (shards shards' : Array Vec) (len len' : Nat) (w : Array Vec) (hw : n ≤ w.size) :
    run C shards len w L = run C shards' len' w L := by
  apply rowsOf_inj (by simp)
  rw [h shards len w hw, h shards' len' w hw]

theorem foldl_frame {ι : Type} (G : ι → Rows → Rows) (l : List ι) (z : Nat)
    (h : ∀ j ∈ l, ∀ ρ, G j ρ z = ρ z) (ρ : Rows) : l.foldl (fun ρ j => G j ρ) ρ z = ρ z := by
  induction l generalizing ρ with
  | nil => rfl
  | cons a l ih =>
    rw [List.foldl_cons, ih (fun j hj => h j (by simp [hj])), h a (by simp)]

/-! ## `ifftLayers` -/

theorem ifftSchedF_frame (base mtrunc m skewOff idxAdj t : Nat) (hm : m = 2 ^ t) (hmt : mtrunc ≤ m)
    (ρ : Rows) (z : Nat) (hz : z < base ∨ base + m ≤ z) :
    ifftSchedF C base mtrunc m skewOff idxAdj t ρ z = ρ z := by
  have hp : ifftPassesF C base mtrunc skewOff idxAdj (t / 2) ρ z = ρ z := by
    unfold ifftPassesF
    apply foldl_frame
    intro j hj ρ
    have hj' := List.mem_range.mp hj
    have hd : 0 < 4 ^ j := Nat.pow_pos (by decide)
    have := ceil_mul_le mtrunc (4 * 4 ^ j) m (by omega)
      (by rw [hm, four_mul_four_pow]; exact Nat.pow_dvd_pow 2 (by omega)) hmt
    exact pass4F_out _ base _ _ (ifftGad_local C base skewOff idxAdj (4 ^ j)) ρ z (by omega)
  unfold ifftSchedF
  split
  · rw [layerF_out _ _ _ _ _ _ _ hz, hp]
  · exact hp

/-- `ifftLayers` leaves the rows outside `[base, base + m)` untouched -/
theorem run_ifftLayers_frame (shards : Array Vec) (len : Nat) (w : Array Vec)
    (base mtrunc m skewOff idxAdj t : Nat) (hm : m = 2 ^ t) (ht : t / 2 ≤ C.P.bits) (hmt : mtrunc ≤ m)
    (hsz : base + m ≤ w.size) (x : Nat) (hx : x < base ∨ base + m ≤ x) :
    (run C shards len w (ifftLayers C base mtrunc m skewOff idxAdj).toList)[x]! = w[x]! := by
  show rowsOf (run C shards len w (ifftLayers C base mtrunc m skewOff idxAdj).toList) x = rowsOf w x
  rw [sim_ifftLayers C base mtrunc m skewOff idxAdj t hm ht hmt shards len w hsz,
    ifftSchedF_frame C base mtrunc m skewOff idxAdj t hm hmt _ x hx]

theorem WF_empty (len : Nat) : WF len #[] := fun i hi => absurd hi (Nat.not_lt_zero i)

/-- `ifftLayers` preserves `WF len` (and the number of rows, `size_run`) -/
theorem run_ifftLayers_wf (shards : Array Vec) (len : Nat) (w : Array Vec)
    (base mtrunc m skewOff idxAdj t : Nat) (hm : m = 2 ^ t) (ht : t / 2 ≤ C.P.bits) (hmt : mtrunc ≤ m)
    (hsz : base + m ≤ w.size) (hw : WF len w) :
    WF len (run C shards len w (ifftLayers C base mtrunc m skewOff idxAdj).toList) := by
  rw [(sim_ifftLayers C base mtrunc m skewOff idxAdj t hm ht hmt).run_irrel C shards #[] len len w hsz]
  refine (run_wf C hw (WF_empty len) ?_).1
  intro s hs
  exact ifftLayers_in C base mtrunc m skewOff idxAdj w.size _ t hm hmt hsz s hs

/-! ## `fftLayers` -/

/-- `fftLayers` leaves the rows `≥ m` untouched -/
theorem run_fftLayers_ge (shards : Array Vec) (len : Nat) (w : Array Vec) (mtrunc m t : Nat)
    (hm : m = 2 ^ t) (hmt : mtrunc ≤ m) (x : Nat) (hx : m ≤ x) :
    (run C shards len w (fftLayers C mtrunc m).toList)[x]! = w[x]! :=
  run_frame_ge C shards len w _ (fftLayers_in C mtrunc m m 0 t hm hmt (Nat.le_refl _)) x hx

/-- `fftLayers` preserves `WF len` -/
theorem run_fftLayers_wf (shards : Array Vec) (len : Nat) (w : Array Vec) (mtrunc m t : Nat)
    (hm : m = 2 ^ t) (ht : t / 2 ≤ C.P.bits) (hmt : mtrunc ≤ m) (hsz : m ≤ w.size) (hw : WF len w) :
    WF len (run C shards len w (fftLayers C mtrunc m).toList) := by
  rw [(sim_fftLayers C mtrunc m t hm ht hmt).run_irrel C shards #[] len len w hsz]
  refine (run_wf C hw (WF_empty len) ?_).1
  intro s hs
  exact fftLayers_in C mtrunc m w.size _ t hm hmt hsz s hs

/-! ## the clean networks -/

theorem ifftRowsAux_get_out (base m skewOff idxAdj k : Nat) (w : Array Vec) (h : base + m ≤ w.size)
    (x : Nat) (hx : x < base ∨ base + m ≤ x) : (ifftRowsAux C base m skewOff idxAdj k w)[x]! = w[x]! := by
  induction k with
  | zero => rfl
  | succ k ih =>
    rw [ifftRowsAux, ifftLayerRows_get_out C _ _ _ _ _ _ (by rw [size_ifftRowsAux]; exact h) x hx, ih]

theorem fftRowsAux_get_out (base m skewOff idxAdj k : Nat) (w : Array Vec) (h : base + m ≤ w.size)
    (x : Nat) (hx : x < base ∨ base + m ≤ x) : (fftRowsAux C base m skewOff idxAdj k w)[x]! = w[x]! := by
  induction k generalizing w with
  | zero => rfl
  | succ k ih =>
    rw [fftRowsAux, ih _ (by rw [size_fftLayerRows]; exact h), fftLayerRows_get_out C _ _ _ _ _ _ h x hx]

/-- the clean inverse network leaves rows outside `[base, base + 2^t)` untouched -/
theorem ifftRows_get_out (t base skewOff idxAdj : Nat) (w : Array Vec) (h : base + 2 ^ t ≤ w.size)
    (x : Nat) (hx : x < base ∨ base + 2 ^ t ≤ x) : (ifftRows C t base skewOff idxAdj w)[x]! = w[x]! :=
  ifftRowsAux_get_out C base (2 ^ t) skewOff idxAdj t w h x hx

/-- the clean forward network leaves rows outside `[base, base + 2^t)` untouched -/
theorem fftRows_get_out (t base skewOff idxAdj : Nat) (w : Array Vec) (h : base + 2 ^ t ≤ w.size)
    (x : Nat) (hx : x < base ∨ base + 2 ^ t ≤ x) : (fftRows C t base skewOff idxAdj w)[x]! = w[x]! :=
  fftRowsAux_get_out C base (2 ^ t) skewOff idxAdj t w h x hx

theorem layer_dvd (k t : Nat) (hk : k < t) : 2 * 2 ^ k ∣ 2 ^ t := by
  rw [← two_pow_succ']; exact Nat.pow_dvd_pow 2 hk

theorem WF_ifftRowsAux (len base t skewOff idxAdj k : Nat) (hk : k ≤ t) (w : Array Vec)
    (h : base + 2 ^ t ≤ w.size) (hw : WF len w) : WF len (ifftRowsAux C base (2 ^ t) skewOff idxAdj k w) := by
  induction k with
  | zero => exact hw
  | succ k ih =>
    rw [ifftRowsAux]
    exact WF_layerRows _ _ _ _ _ _ _ (by rw [size_ifftRowsAux]; exact h)
      (fun x y s hx hy => size_bfI C hx hy s) (layer_dvd k t (by omega)) (ih (by omega))

theorem WF_fftRowsAux (len base t skewOff idxAdj k : Nat) (hk : k ≤ t) (w : Array Vec)
    (h : base + 2 ^ t ≤ w.size) (hw : WF len w) : WF len (fftRowsAux C base (2 ^ t) skewOff idxAdj k w) := by
  induction k generalizing w with
  | zero => exact hw
  | succ k ih =>
    rw [fftRowsAux]
    exact ih (by omega) _ (by rw [size_fftLayerRows]; exact h)
      (WF_layerRows _ _ _ _ _ _ _ h (fun x y s hx hy => size_bfF C hx hy s) (layer_dvd k t (by omega)) hw)

theorem WF_ifftRows (len t base skewOff idxAdj : Nat) (w : Array Vec) (h : base + 2 ^ t ≤ w.size)
    (hw : WF len w) : WF len (ifftRows C t base skewOff idxAdj w) :=
  WF_ifftRowsAux C len base t skewOff idxAdj t (Nat.le_refl _) w h hw

theorem WF_fftRows (len t base skewOff idxAdj : Nat) (w : Array Vec) (h : base + 2 ^ t ≤ w.size)
    (hw : WF len w) : WF len (fftRows C t base skewOff idxAdj w) :=
  WF_fftRowsAux C len base t skewOff idxAdj t (Nat.le_refl _) w h hw

end RSV.Proofs.LCHSched
