import RSV.Proofs.LeoSchedRange
/-!
# The loop generators `ifftLayers` / `fftLayers` as explicit step lists (core Lean only)

`ifftLayers` and `fftLayers` (`RSV/Model/Leopard.lean`) are `Id.run do` blocks with mutable
`dist / dist4 / r`.  Here they are shown EQUAL to closed `flatMap` expressions:

* `ifftLayers_toList`: for `m = 2^t`, `mtrunc ≤ m`, `t/2 ≤ C.P.bits`:
  `t/2` radix-4 passes (`ifftPass … (4^j)`, `j = 0 … t/2-1`) followed, when `4^(t/2) < 2^t` (`t` odd),
  by the radix-2 pass `ifftFinal … (4^(t/2))`;
* `fftLayers_toList`: `t/2` radix-4 passes (`fftPass mtrunc (2^(t-2j-2))`) followed, when
  `2^(t - 2(t/2)) = 2`, by the truncated radix-2 pass `fftFinal mtrunc`.

A pass over blocks `r = q·dist4 < mtrunc` is `(List.range nb).flatMap (block (q·dist4))` with
`nb = ⌈mtrunc / dist4⌉`.
-/
namespace RSV.Proofs.LCHSched
open RSV.Model.Leo RSV.Proofs.LeoSched RSV.Proofs.LeoSchedRange

/-! ## 1. loop rules -/

/-- a loop that only appends gadgets -/
theorem forIn_append (l : List Nat) (g : Nat → List Step) (init : Array Step) :
    (forIn (m := Id) l init fun i s => pure (ForInStep.yield (s ++ (g i).toArray))) =
      pure (init ++ (l.flatMap g).toArray) := by
  induction l generalizing init with
  | nil => simp
  | cons a l ih =>
    rw [List.forIn_cons]
    show forIn l (init ++ (g a).toArray) _ = _
    rw [ih]
    simp [List.flatMap_cons, Array.append_assoc]

/-- indexed loop invariant over `[s : s + n]`; the body must always `yield` -/
theorem forIn_idx {β : Type} (P : Nat → β → Prop) (n : Nat) :
    ∀ (s : Nat) (f : Nat → β → Id (ForInStep β)) (init : β), P s init →
      (∀ a, s ≤ a → a < s + n → ∀ b, P a b → ∃ b', f a b = pure (ForInStep.yield b') ∧ P (a + 1) b') →
      P (s + n) (forIn (List.range' s n) init f).run := by
  induction n with
  | zero => intro s f init h0 _; exact h0
  | succ n ih =>
    intro s f init h0 hs
    obtain ⟨b', hb', hP⟩ := hs s (Nat.le_refl _) (by omega) init h0
    rw [List.range'_succ, List.forIn_cons, hb']
    show P (s + (n + 1)) (forIn (List.range' (s + 1) n) b' f).run
    have := ih (s + 1) f b' hP (fun a h1 h2 b hb => hs a (by omega) (by omega) b hb)
    rwa [show s + 1 + n = s + (n + 1) by omega] at this

/-! ## 2. arithmetic -/

theorem four_pow (j : Nat) : 4 ^ j = 2 ^ (2 * j) := by
  rw [Nat.pow_mul]

theorem four_mul_four_pow (j : Nat) : 4 * 4 ^ j = 2 ^ (2 * j + 2) := by
  rw [four_pow, four_mul_pow2]

theorem four_pow_le_iff (j t : Nat) : 4 * 4 ^ j ≤ 2 ^ t ↔ j < t / 2 := by
  rw [four_mul_four_pow, Nat.pow_le_pow_iff_right (by decide)]; omega

theorem four_pow_lt_iff (j t : Nat) : 4 ^ j < 2 ^ t ↔ 2 * j < t := by
  rw [four_pow, Nat.pow_lt_pow_iff_right (by decide)]

/-- `q·D < n ↔ q < ⌈n / D⌉` -/
theorem mul_lt_iff_lt_ceil (q D n : Nat) (hD : 0 < D) : q * D < n ↔ q < (n + D - 1) / D := by
  rw [Nat.lt_div_iff_mul_lt hD]
  omega

theorem ceil_le_self (D n : Nat) (hD : 0 < D) : (n + D - 1) / D ≤ n := by
  rcases Nat.eq_zero_or_pos ((n + D - 1) / D) with h | h
  · omega
  · have h1 : (n + D - 1) / D - 1 < (n + D - 1) / D := by omega
    rw [← mul_lt_iff_lt_ceil _ D n hD] at h1
    have : (n + D - 1) / D - 1 ≤ ((n + D - 1) / D - 1) * D := Nat.le_mul_of_pos_right _ hD
    omega

/-! ## 3. the closed descriptions -/

variable (C : Ctx)

/-- the radix-4 gadgets of one block `[r, r + 4·dist)` of an inverse pass -/
def ifftBlock (base skewOff idxAdj dist r : Nat) : List Step :=
  (List.range' r dist).flatMap fun i =>
    ifft4 C (base + i) dist (skewAt C (skewOff + (r + dist) - idxAdj))
      (skewAt C (skewOff + (r + dist) + dist * 2 - idxAdj))
      (skewAt C (skewOff + (r + dist) + dist - idxAdj))

/-- one radix-4 inverse pass: all blocks with start `r = q·(4·dist) < mtrunc` -/
def ifftPass (base mtrunc skewOff idxAdj dist : Nat) : List Step :=
  (List.range ((mtrunc + 4 * dist - 1) / (4 * dist))).flatMap fun q =>
    ifftBlock C base skewOff idxAdj dist (q * (4 * dist))

/-- the final radix-2 inverse pass (not truncated) -/
def ifftFinal (base skewOff idxAdj dist : Nat) : List Step :=
  (List.range' 0 dist).flatMap fun i =>
    ifft2 C (base + i) (base + i + dist) (skewAt C (skewOff + dist - idxAdj))

def fftBlock (dist r : Nat) : List Step :=
  (List.range' r dist).flatMap fun i =>
    fft4 C i dist (skewAt C (r + dist - 1)) (skewAt C (r + dist + dist * 2 - 1))
      (skewAt C (r + dist + dist - 1))

def fftPass (mtrunc dist : Nat) : List Step :=
  (List.range ((mtrunc + 4 * dist - 1) / (4 * dist))).flatMap fun q => fftBlock C dist (q * (4 * dist))

/-- the final radix-2 forward pass: blocks `r = 2q < mtrunc` -/
def fftFinal (mtrunc : Nat) : List Step :=
  (List.range ((mtrunc + 2 - 1) / 2)).flatMap fun q => fft2 C (q * 2) (q * 2 + 1) (skewAt C (q * 2))

theorem range_succ_flatMap {β} (n : Nat) (f : Nat → List β) :
    (List.range (n + 1)).flatMap f = (List.range n).flatMap f ++ f n := by
  rw [List.range_succ, List.flatMap_append]; simp

/-! ## 4. `ifftLayers` -/

/-- `forIn_idx` followed by a continuation -/
theorem bind_idx {β γ : Type} (Q : γ → Prop) (P : Nat → β → Prop) (n s : Nat)
    {f : Nat → β → Id (ForInStep β)} {init : β} {g : β → Id γ} (h0 : P s init)
    (hs : ∀ a, s ≤ a → a < s + n → ∀ b, P a b → ∃ b', f a b = pure (ForInStep.yield b') ∧ P (a + 1) b')
    (hg : ∀ b, P (s + n) b → Q (g b).run) :
    Q ((forIn (List.range' s n) init f) >>= g).run :=
  hg _ (forIn_idx P n s f init h0 hs)

/-- middle loop of a radix-4 pass, generic in the block generator -/
theorem mid_loop (blk : Nat → List Step) (mtrunc m D4 : Nat) (hD : 0 < D4) (hmt : mtrunc ≤ m)
    (out : Array Step)
    (f : Nat → Array Step × Nat → Id (ForInStep (Array Step × Nat)))
    (hf : ∀ a s, f a s = if s.2 < mtrunc then pure (ForInStep.yield (s.1 ++ (blk s.2).toArray, s.2 + D4))
      else pure (ForInStep.yield (s.1, s.2))) :
    ((forIn (List.range' 0 m) (out, 0) f).run).1.toList =
      out.toList ++ (List.range ((mtrunc + D4 - 1) / D4)).flatMap fun q => blk (q * D4) := by
  have key := forIn_idx (β := Array Step × Nat)
    (fun q s => s.2 = (min q ((mtrunc + D4 - 1) / D4)) * D4 ∧
      s.1.toList = out.toList ++ (List.range (min q ((mtrunc + D4 - 1) / D4))).flatMap fun q => blk (q * D4))
    m 0 f (out, 0) (by simp) (by
      rintro a _ _ ⟨o, r⟩ ⟨hr, ho⟩
      simp only at hr ho
      rw [hf]
      simp only
      by_cases hlt : r < mtrunc
      · rw [if_pos hlt]
        refine ⟨_, rfl, ?_⟩
        have ha : a < (mtrunc + D4 - 1) / D4 := by
          rw [hr, mul_lt_iff_lt_ceil _ _ _ hD] at hlt
          omega
        have h1 : min a ((mtrunc + D4 - 1) / D4) = a := by omega
        have h2 : min (a + 1) ((mtrunc + D4 - 1) / D4) = a + 1 := by omega
        rw [h1] at hr ho
        rw [h2]
        refine ⟨?_, ?_⟩
        · show r + D4 = (a + 1) * D4
          rw [hr, Nat.succ_mul]
        · show (o ++ (blk r).toArray).toList = _
          rw [range_succ_flatMap, Array.toList_append, ho, hr, List.append_assoc]
      · rw [if_neg hlt]
        refine ⟨_, rfl, ?_⟩
        have ha : ¬ a < (mtrunc + D4 - 1) / D4 := by
          intro ha
          apply hlt
          rw [hr, mul_lt_iff_lt_ceil _ _ _ hD]
          omega
        have h1 : min a ((mtrunc + D4 - 1) / D4) = (mtrunc + D4 - 1) / D4 := by omega
        have h2 : min (a + 1) ((mtrunc + D4 - 1) / D4) = (mtrunc + D4 - 1) / D4 := by omega
        rw [h1] at hr ho
        rw [h2]
        exact ⟨hr, ho⟩)
  have hnb := ceil_le_self D4 mtrunc hD
  have h3 : min (0 + m) ((mtrunc + D4 - 1) / D4) = (mtrunc + D4 - 1) / D4 := by omega
  rw [h3] at key
  exact key.2

theorem ifftLayers_toList (base mtrunc m skewOff idxAdj t : Nat) (hm : m = 2 ^ t)
    (hmt : mtrunc ≤ m) (ht : t / 2 ≤ C.P.bits) :
    (ifftLayers C base mtrunc m skewOff idxAdj).toList =
      ((List.range (t / 2)).flatMap fun j => ifftPass C base mtrunc skewOff idxAdj (4 ^ j)) ++
        (if 4 ^ (t / 2) < 2 ^ t then ifftFinal C base skewOff idxAdj (4 ^ (t / 2)) else []) := by
  unfold ifftLayers
  simp only [Std.Legacy.Range.forIn_eq_forIn_range', Std.Legacy.Range.size, Nat.sub_zero,
    Nat.add_one_sub_one, Nat.div_one, Nat.add_sub_cancel_left, forIn_append]
  apply bind_idx (fun r : Array Step => r.toList = _)
    (fun a (s : Array Step × Nat × Nat) => s.2.1 = 4 ^ (min a (t / 2)) ∧ s.2.2 = 4 * s.2.1 ∧
      s.1.toList = (List.range (min a (t / 2))).flatMap fun j => ifftPass C base mtrunc skewOff idxAdj (4 ^ j))
  · simp
  · rintro a _ _ ⟨out, dist, dist4⟩ ⟨hd, hd4, ho⟩
    simp only at hd hd4 ho ⊢
    by_cases hle : dist4 ≤ m
    · rw [if_pos hle]
      refine ⟨_, rfl, ?_⟩
      have ha : a < t / 2 := by
        rw [hd4, hd, hm, four_pow_le_iff] at hle
        omega
      have h1 : min a (t / 2) = a := by omega
      have h2 : min (a + 1) (t / 2) = a + 1 := by omega
      rw [h1] at hd ho
      rw [h2]
      refine ⟨?_, ?_, ?_⟩
      · show dist4 = 4 ^ (a + 1)
        rw [hd4, hd, Nat.pow_succ, Nat.mul_comm]
      · show dist4 <<< 2 = 4 * dist4
        rw [Nat.shiftLeft_eq]; omega
      · have hD : 0 < dist4 := by
          rw [hd4, hd]; have := Nat.pow_pos (n := a) (by decide : 0 < 4); omega
        refine Eq.trans (mid_loop (fun r => ifftBlock C base skewOff idxAdj dist r) mtrunc m dist4 hD hmt
          out _ ?_) ?_
        · rintro a ⟨o, r⟩
          rfl
        · rw [range_succ_flatMap, ho]
          congr 1
          rw [hd4, hd]
          rfl
    · rw [if_neg hle]
      refine ⟨_, rfl, ?_⟩
      have ha : ¬ a < t / 2 := by
        intro ha
        apply hle
        rw [hd4, hd, hm, four_pow_le_iff]
        omega
      have h1 : min a (t / 2) = t / 2 := by omega
      have h2 : min (a + 1) (t / 2) = t / 2 := by omega
      rw [h1] at hd ho
      rw [h2]
      exact ⟨hd, hd4, ho⟩
  · rintro ⟨out, dist, dist4⟩ ⟨hd, hd4, ho⟩
    have h3 : min (0 + C.P.bits) (t / 2) = t / 2 := by omega
    rw [h3] at hd ho
    simp only at hd hd4 ho ⊢
    rw [← hm, ← hd]
    by_cases hlt : dist < m
    · rw [if_pos hlt, if_pos hlt]
      show (out ++ _).toList = _
      rw [Array.toList_append, ho]
      rfl
    · rw [if_neg hlt, if_neg hlt]
      show out.toList = _
      rw [ho, List.append_nil]

/-! ## 5. `fftLayers` -/

theorem pow2_shr2_eq (k : Nat) : 2 ^ (k + 2) >>> 2 = 2 ^ k := by
  rw [Nat.shiftRight_eq_div_pow, ← four_mul_pow2]
  exact Nat.mul_div_cancel_left _ (by decide)

theorem fftLayers_toList (mtrunc m t : Nat) (hm : m = 2 ^ t) (hmt : mtrunc ≤ m)
    (ht : t / 2 ≤ C.P.bits) :
    (fftLayers C mtrunc m).toList =
      ((List.range (t / 2)).flatMap fun j => fftPass C mtrunc (2 ^ (t - 2 * j - 2))) ++
        (if t % 2 = 1 then fftFinal C mtrunc else []) := by
  unfold fftLayers
  simp only [Std.Legacy.Range.forIn_eq_forIn_range', Std.Legacy.Range.size, Nat.sub_zero,
    Nat.add_one_sub_one, Nat.div_one, Nat.add_sub_cancel_left, forIn_append]
  apply bind_idx (fun r : Array Step => r.toList = _)
    (fun a (s : Array Step × Nat × Nat) => s.2.1 = 2 ^ (t - 2 * min a (t / 2)) ∧ s.2.2 = s.2.1 >>> 2 ∧
      s.1.toList = (List.range (min a (t / 2))).flatMap fun j => fftPass C mtrunc (2 ^ (t - 2 * j - 2)))
  · simp [hm]
  · rintro a _ _ ⟨out, dist4, dist⟩ ⟨hd4, hd, ho⟩
    simp only at hd hd4 ho ⊢
    by_cases hne : dist ≠ 0
    · rw [if_pos hne]
      refine ⟨_, rfl, ?_⟩
      obtain ⟨j', hjj, hdj, hd4j⟩ := pow2_shr2 _ (by rw [← hd4, ← hd]; exact hne)
      have ha : a < t / 2 := by omega
      have h1 : min a (t / 2) = a := by omega
      have h2 : min (a + 1) (t / 2) = a + 1 := by omega
      rw [h1] at hd4 ho hjj
      rw [h2]
      have hj' : j' = t - 2 * a - 2 := by omega
      have hdist : dist = 2 ^ (t - 2 * a - 2) := by rw [hd, hd4, hjj, pow2_shr2_eq, Nat.add_sub_cancel]
      have hdist4 : dist4 = 4 * dist := by rw [hd4, hdist, hjj, Nat.add_sub_cancel, four_mul_pow2]
      refine ⟨?_, rfl, ?_⟩
      · show dist = 2 ^ (t - 2 * (a + 1))
        rw [hdist]; congr 1
      · have hD : 0 < dist4 := by rw [hd4]; exact Nat.two_pow_pos _
        refine Eq.trans (mid_loop (fun r => fftBlock C dist r) mtrunc m dist4 hD hmt out _ ?_) ?_
        · rintro a ⟨o, r⟩
          rfl
        · rw [range_succ_flatMap, ho]
          congr 1
          rw [hdist4, ← hdist]
          rfl
    · rw [if_neg hne]
      refine ⟨_, rfl, ?_⟩
      have ha : ¬ a < t / 2 := by
        intro ha
        apply hne
        have h1 : min a (t / 2) = a := by omega
        rw [h1] at hd4
        rw [hd, hd4, show t - 2 * a = (t - 2 * a - 2) + 2 by omega, pow2_shr2_eq]
        exact Nat.ne_of_gt (Nat.two_pow_pos _)
      have h1 : min a (t / 2) = t / 2 := by omega
      have h2 : min (a + 1) (t / 2) = t / 2 := by omega
      rw [h1] at hd4 ho
      rw [h2]
      exact ⟨hd4, hd, ho⟩
  · rintro ⟨out, dist4, dist⟩ ⟨hd4, hd, ho⟩
    have h3 : min (0 + C.P.bits) (t / 2) = t / 2 := by omega
    rw [h3] at hd4 ho
    simp only at hd hd4 ho ⊢
    by_cases hodd : t % 2 = 1
    · have h4 : dist4 = 2 := by rw [hd4, show t - 2 * (t / 2) = 1 by omega]
      rw [if_pos h4, if_pos hodd]
      refine Eq.trans (mid_loop (fun r => fft2 C r (r + 1) (skewAt C r)) mtrunc m 2 (by decide) hmt out _ ?_) ?_
      · rintro a ⟨o, r⟩
        rfl
      · rw [ho]
        rfl
    · have h4 : ¬ dist4 = 2 := by rw [hd4, show t - 2 * (t / 2) = 0 by omega]; decide
      rw [if_neg h4, if_neg hodd]
      show out.toList = _
      rw [ho, List.append_nil]

end RSV.Proofs.LCHSched
