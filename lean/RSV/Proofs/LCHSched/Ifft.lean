import RSV.Proofs.LCHSched.Gen
import RSV.Proofs.LCHSched.Pass
/-!
# `ifftLayers` computes the clean inverse network `ifftRows` (core Lean only)

* `sim_ifftPass`: a radix-4 pass of the generator acts as `pass4F (ifftGad …) nb d`;
* `ifftPassF_eq`: which is (layer `d`, then layer `2d`) on the processed blocks `[base, base + nb·4d)`;
* `sim_ifftFinal`: the final radix-2 pass is the top layer;
* `ZeroFrom`: every `D`-aligned block of `[base, base+m)` starting at or after `mtrunc` is zero;
  `trunc_pass_eq` / `trunc_pass_zero`: on such a state the truncated pass equals the two full layers,
  and the result is `ZeroFrom (4·d)`;
* `run_ifftLayers_trunc`, `run_ifftLayers_full`: the refinement theorems.
-/
namespace RSV.Proofs.LCHSched
open RSV.Model.Leo RSV.Proofs.LeoSched RSV.Proofs.LeoSchedRange

variable (C : Ctx)

/-- the multiplier of the block with offset `b` in the layer with distance `d` -/
def skw (skewOff idxAdj d b : Nat) : Nat := skewAt C (skewOff + b + d - idxAdj)

/-- the inverse gadget at position `i` of a pass with distance `d` -/
def ifftGad (base skewOff idxAdj d i : Nat) : Rows → Rows :=
  ifftG4 (bfI C) (base + i) (base + i + d) (base + i + 2 * d) (base + i + 3 * d)
    (skw C skewOff idxAdj d (i / (4 * d) * (4 * d)))
    (skw C skewOff idxAdj d (i / (4 * d) * (4 * d) + 2 * d))
    (skw C skewOff idxAdj (2 * d) (i / (4 * d) * (4 * d)))

theorem ifftPass_eq (base mtrunc skewOff idxAdj d : Nat) (hd : 0 < d) :
    ifftPass C base mtrunc skewOff idxAdj d =
      (idxList ((mtrunc + 4 * d - 1) / (4 * d)) d).flatMap fun i =>
        ifft4 C (base + i) d (skw C skewOff idxAdj d (i / (4 * d) * (4 * d)))
          (skw C skewOff idxAdj d (i / (4 * d) * (4 * d) + 2 * d))
          (skw C skewOff idxAdj (2 * d) (i / (4 * d) * (4 * d))) := by
  unfold ifftPass idxList
  rw [List.flatMap_assoc]
  apply flatMap_congr'
  intro q _
  unfold ifftBlock
  apply flatMap_congr'
  intro i hi
  have hi' := List.mem_range'_1.mp hi
  obtain ⟨l, rfl⟩ : ∃ l, i = q * (4 * d) + l := ⟨i - q * (4 * d), by omega⟩
  rw [block_div q (4 * d) l (by omega)]
  unfold skw
  congr 2 <;> omega

theorem sim_ifftPass (n base mtrunc skewOff idxAdj d : Nat) (hd : 0 < d)
    (hn : base + (mtrunc + 4 * d - 1) / (4 * d) * (4 * d) ≤ n) :
    Sim C n (ifftPass C base mtrunc skewOff idxAdj d)
      (pass4F (ifftGad C base skewOff idxAdj d) ((mtrunc + 4 * d - 1) / (4 * d)) d) := by
  rw [ifftPass_eq C base mtrunc skewOff idxAdj d hd]
  apply Sim.flatMap
  intro i hi
  obtain ⟨q, hq, h1, h2⟩ := (mem_idxList _ d i).mp hi
  have := succ_mul_le (D := 4 * d) hq
  exact sim_ifft4 C n (base + i) d _ _ _ hd (by omega)

/-- the two inverse layers with distances `d` and `2d` -/
def ifftLL (base m skewOff idxAdj d : Nat) (ρ : Rows) : Rows :=
  layerF (bfI C) (skw C skewOff idxAdj (2 * d)) (2 * d) base m
    (layerF (bfI C) (skw C skewOff idxAdj d) d base m ρ)

theorem ifftGad_local (base skewOff idxAdj d i : Nat) :
    LocalOn (S4 (base + i) d) (ifftGad C base skewOff idxAdj d i) := ifftG4_local _ _ _ _ _ _

theorem ifftPassF_eq (base m skewOff idxAdj d nb : Nat) (hd : 0 < d) (hnb : nb * (4 * d) ≤ m)
    (ρ : Rows) (z : Nat) :
    pass4F (ifftGad C base skewOff idxAdj d) nb d ρ z =
      if base ≤ z ∧ z < base + nb * (4 * d) then ifftLL C base m skewOff idxAdj d ρ z else ρ z := by
  apply pass4F_eq _ _ base nb d hd (ifftGad_local C base skewOff idxAdj d)
  intro q l hq hl ρ z hz
  unfold ifftGad ifftLL
  rw [block_div q (4 * d) l (by omega)]
  have := succ_mul_le (D := 4 * d) hq
  exact ifft_two_layers (bfI C) _ _ d base m hd ρ (q * (4 * d)) l ⟨q, Nat.mul_comm _ _⟩ hl (by omega) z hz

/-! ## zero rows -/

theorem mulVec_zero (len s : Nat) : mulVec C (zeroVec len) s = zeroVec len := by
  apply ext! (by simp)
  intro i hi
  rw [get!_mulVec C _ s i (by simpa using hi), get!_zeroVec, mulSym_zero]

theorem bfI_zero (len s : Nat) : bfI C (zeroVec len) (zeroVec len) s = (zeroVec len, zeroVec len) := by
  unfold bfI
  simp only [xorVec_zeroVec, mulVec_zero]
  split <;> rfl

/-- every `D`-aligned block of `[base, base + m)` that starts at or after `mtrunc` is zero -/
def ZeroFrom (len base m mtrunc D : Nat) (ρ : Rows) : Prop :=
  ∀ idx, idx < m → mtrunc ≤ idx / D * D → ρ (base + idx) = zeroVec len

theorem ceil_mul_ge (n D : Nat) (hD : 0 < D) : n ≤ (n + D - 1) / D * D := by
  have h1 := Nat.div_add_mod (n + D - 1) D
  have h2 := Nat.mod_lt (n + D - 1) hD
  rw [Nat.mul_comm ((n + D - 1) / D) D]
  omega

theorem div_mul_mono (a b D : Nat) (h : a ≤ b) : a / D * D ≤ b / D * D :=
  Nat.mul_le_mul_right D (Nat.div_le_div_right h)

/-- in a skipped block all four rows of a gadget are zero, hence so are its outputs -/
theorem ifftGad_zero (len base skewOff idxAdj d i : Nat) (hd : 0 < d) (ρ : Rows)
    (h0 : ρ (base + i) = zeroVec len) (h1 : ρ (base + i + d) = zeroVec len)
    (h2 : ρ (base + i + 2 * d) = zeroVec len) (h3 : ρ (base + i + 3 * d) = zeroVec len) (z : Nat)
    (hz : S4 (base + i) d z) : ifftGad C base skewOff idxAdj d i ρ z = zeroVec len := by
  unfold ifftGad
  obtain ⟨v0, v1, v2, v3⟩ := ifftG4_vals (bfI C) (base + i) (base + i + d) (base + i + 2 * d)
    (base + i + 3 * d) (skw C skewOff idxAdj d (i / (4 * d) * (4 * d)))
    (skw C skewOff idxAdj d (i / (4 * d) * (4 * d) + 2 * d))
    (skw C skewOff idxAdj (2 * d) (i / (4 * d) * (4 * d))) ρ (by omega) (by omega) (by omega)
    (by omega) (by omega) (by omega)
  rcases S4_cases hz with rfl | rfl | rfl | rfl
  · rw [v0, h0, h1, h2, h3]; simp only [bfI_zero]
  · rw [v1, h0, h1, h2, h3]; simp only [bfI_zero]
  · rw [v2, h0, h1, h2, h3]; simp only [bfI_zero]
  · rw [v3, h0, h1, h2, h3]; simp only [bfI_zero]

/-- rows of a `4d`-block starting at or after `mtrunc` -/
theorem zeroFrom_block {len base m mtrunc d : Nat} {ρ : Rows} (hd : 0 < d)
    (hZ : ZeroFrom len base m mtrunc d ρ) (r : Nat) (hr : 4 * d ∣ r) (hrt : mtrunc ≤ r)
    (hrm : r + 4 * d ≤ m) (e : Nat) (he : e < 4 * d) : ρ (base + (r + e)) = zeroVec len := by
  apply hZ (r + e) (by omega)
  have hdr : d ∣ r := Nat.dvd_trans ⟨4, by omega⟩ hr
  obtain ⟨a, rfl⟩ := hdr
  have : d * a / d * d ≤ (d * a + e) / d * d := div_mul_mono _ _ d (by omega)
  rw [Nat.mul_div_cancel_left _ hd, Nat.mul_comm a d] at this
  omega

/-- **truncated pass = the two full layers**, when the skipped blocks are zero -/
theorem trunc_pass_eq (len base m mtrunc skewOff idxAdj d : Nat) (hd : 0 < d) (hdm : 4 * d ∣ m)
    (hmt : mtrunc ≤ m) (ρ : Rows) (hZ : ZeroFrom len base m mtrunc d ρ) :
    pass4F (ifftGad C base skewOff idxAdj d) ((mtrunc + 4 * d - 1) / (4 * d)) d ρ =
      ifftLL C base m skewOff idxAdj d ρ := by
  obtain ⟨nbF, hnbF⟩ := hdm
  have hD : 0 < 4 * d := by omega
  have hge := ceil_mul_ge mtrunc (4 * d) hD
  have hnb : (mtrunc + 4 * d - 1) / (4 * d) ≤ nbF := by
    have h1 := ceil_le_self (4 * d) mtrunc hD
    rcases Nat.lt_or_ge nbF ((mtrunc + 4 * d - 1) / (4 * d)) with h | h
    · rw [← mul_lt_iff_lt_ceil _ _ _ hD] at h
      rw [Nat.mul_comm] at h; omega
    · exact h
  have hnbm : (mtrunc + 4 * d - 1) / (4 * d) * (4 * d) ≤ m := by
    rw [hnbF, Nat.mul_comm (4 * d) nbF]; exact Nat.mul_le_mul_right _ hnb
  funext z
  rw [ifftPassF_eq C base m skewOff idxAdj d _ hd hnbm ρ z]
  by_cases hin : base ≤ z ∧ z < base + (mtrunc + 4 * d - 1) / (4 * d) * (4 * d)
  · rw [if_pos hin]
  · rw [if_neg hin]
    have hfull := ifftPassF_eq C base m skewOff idxAdj d nbF hd (by rw [hnbF, Nat.mul_comm]; exact Nat.le_refl _) ρ z
    by_cases hin2 : base ≤ z ∧ z < base + nbF * (4 * d)
    · rw [if_pos hin2] at hfull
      rw [← hfull]
      obtain ⟨q, l, hq, hl, hc⟩ := decomp nbF d (z - base) hd (by omega)
      have hS : S4 (base + (q * (4 * d) + l)) d z := by unfold S4; omega
      rw [pass4F_in _ base nbF d (ifftGad_local C base skewOff idxAdj d) ρ q l hq hl z hS]
      have hqm := succ_mul_le (D := 4 * d) hq
      have hqn : (mtrunc + 4 * d - 1) / (4 * d) ≤ q := by
        rcases Nat.lt_or_ge q ((mtrunc + 4 * d - 1) / (4 * d)) with h | h
        · have := succ_mul_le (D := 4 * d) h
          omega
        · exact h
      have hqt : mtrunc ≤ q * (4 * d) := Nat.le_trans hge (Nat.mul_le_mul_right _ hqn)
      have hb := fun e he => zeroFrom_block hd hZ (q * (4 * d)) ⟨q, Nat.mul_comm _ _⟩ hqt
        (by rw [hnbF, Nat.mul_comm (4 * d) nbF]; exact hqm) e he
      have hz0 : ρ z = zeroVec len := by
        have := hb (z - base - q * (4 * d)) (by omega)
        rwa [show base + (q * (4 * d) + (z - base - q * (4 * d))) = z by omega] at this
      rw [hz0]
      symm
      apply ifftGad_zero C len base skewOff idxAdj d _ hd ρ (hb l (by omega)) ?_ ?_ ?_ z hS
      · rw [show base + (q * (4 * d) + l) + d = base + (q * (4 * d) + (l + d)) by omega]
        exact hb (l + d) (by omega)
      · rw [show base + (q * (4 * d) + l) + 2 * d = base + (q * (4 * d) + (l + 2 * d)) by omega]
        exact hb (l + 2 * d) (by omega)
      · rw [show base + (q * (4 * d) + l) + 3 * d = base + (q * (4 * d) + (l + 3 * d)) by omega]
        exact hb (l + 3 * d) (by omega)
    · unfold ifftLL
      have hm' : m = nbF * (4 * d) := by rw [hnbF, Nat.mul_comm]
      rw [layerF_out _ _ _ _ _ _ _ (by omega), layerF_out _ _ _ _ _ _ _ (by omega)]

theorem div_mul_le_div_mul (idx d : Nat) (hd : 0 < d) : idx / (4 * d) * (4 * d) ≤ idx / d * d := by
  have h1 : idx / (4 * d) * (4 * d) = d * (4 * (idx / (4 * d))) := by
    rw [Nat.mul_comm, Nat.mul_comm 4 d, Nat.mul_assoc]
  have h2 := Nat.div_mul_le_self idx (4 * d)
  have h3 : d * (4 * (idx / (4 * d))) / d * d ≤ idx / d * d := div_mul_mono _ _ d (by omega)
  rw [Nat.mul_div_cancel_left _ hd, Nat.mul_comm _ d] at h3
  omega

/-- after a truncated pass the `4d`-aligned blocks from `mtrunc` on are (still) zero -/
theorem trunc_pass_zero (len base m mtrunc skewOff idxAdj d : Nat) (hd : 0 < d) (ρ : Rows)
    (hZ : ZeroFrom len base m mtrunc d ρ) :
    ZeroFrom len base m mtrunc (4 * d)
      (pass4F (ifftGad C base skewOff idxAdj d) ((mtrunc + 4 * d - 1) / (4 * d)) d ρ) := by
  intro idx hidx hge
  have hD : 0 < 4 * d := by omega
  have hnq : (mtrunc + 4 * d - 1) / (4 * d) ≤ idx / (4 * d) := by
    rcases Nat.lt_or_ge (idx / (4 * d)) ((mtrunc + 4 * d - 1) / (4 * d)) with h | h
    · rw [← mul_lt_iff_lt_ceil _ _ _ hD] at h; omega
    · exact h
  have h1 : (mtrunc + 4 * d - 1) / (4 * d) * (4 * d) ≤ idx :=
    Nat.le_trans (Nat.mul_le_mul_right _ hnq) (Nat.div_mul_le_self idx (4 * d))
  rw [pass4F_out _ base _ d (ifftGad_local C base skewOff idxAdj d) ρ _ (by omega)]
  exact hZ idx hidx (Nat.le_trans hge (div_mul_le_div_mul idx d hd))

/-! ## the final radix-2 pass -/

theorem sim_ifftFinal (n base skewOff idxAdj dist : Nat) (hd : 0 < dist) (hn : base + 2 * dist ≤ n) :
    Sim C n (ifftFinal C base skewOff idxAdj dist)
      (layerF (bfI C) (skw C skewOff idxAdj dist) dist base (2 * dist)) := by
  unfold ifftFinal
  refine Sim.congr C (Sim.flatMap C (List.range' 0 dist) _
    (fun i => bf2 (bfI C) (base + i) (base + i + dist) (skewAt C (skewOff + dist - idxAdj)))
    (fun i hi => by
      have := List.mem_range'_1.mp hi
      exact sim_ifft2 C n _ _ _ (by omega) (by omega) (by omega))) ?_
  funext ρ z
  have hpw : (List.range' 0 dist).Pairwise fun a b =>
      ∀ z, (z = base + a ∨ z = base + a + dist) → ¬ (z = base + b ∨ z = base + b + dist) := by
    refine List.Pairwise.imp_of_mem ?_ (List.pairwise_lt_range' (s := 0) (n := dist))
    intro a b ha hb hab z h1 h2
    have ha' := List.mem_range'_1.mp ha
    have hb' := List.mem_range'_1.mp hb
    omega
  have key := foldl_disjoint
    (fun i => bf2 (bfI C) (base + i) (base + i + dist) (skewAt C (skewOff + dist - idxAdj)))
    (fun i z => z = base + i ∨ z = base + i + dist)
    (fun i => LocalOn.bf2 (bfI C) _ (Or.inl rfl) (Or.inr rfl)) _ hpw ρ
  have hsk : skw C skewOff idxAdj dist 0 = skewAt C (skewOff + dist - idxAdj) := by
    unfold skw; congr 1
  by_cases hin : base ≤ z ∧ z < base + 2 * dist
  · by_cases hlo : z < base + dist
    · obtain ⟨l, rfl⟩ : ∃ l, z = base + l := ⟨z - base, by omega⟩
      rw [key.1 l (List.mem_range'_1.mpr (by omega)) _ (Or.inl rfl)]
      have p := (layerF_pair (bfI C) (skw C skewOff idxAdj dist) dist base (2 * dist) ρ 0 l
        (Nat.dvd_zero _) (by omega) (by omega)).1
      rw [Nat.add_zero, hsk] at p
      rw [p]
      simp only [bf2, if_pos]
    · obtain ⟨l, rfl⟩ : ∃ l, z = base + l + dist := ⟨z - base - dist, by omega⟩
      rw [key.1 l (List.mem_range'_1.mpr (by omega)) _ (Or.inr rfl)]
      have p := (layerF_pair (bfI C) (skw C skewOff idxAdj dist) dist base (2 * dist) ρ 0 l
        (Nat.dvd_zero _) (by omega) (by omega)).2
      rw [Nat.add_zero, hsk] at p
      rw [p]
      have hne : base + l + dist ≠ base + l := by omega
      simp only [bf2, if_neg hne, if_pos]
  · rw [key.2 z (fun i hi hS => by have := List.mem_range'_1.mp hi; omega),
      layerF_out _ _ _ _ _ _ _ (by omega)]

/-! ## composition -/

/-- inverse layers `0, …, k-1` on row functions -/
def ifftF (base m skewOff idxAdj : Nat) : Nat → Rows → Rows
  | 0, ρ => ρ
  | k + 1, ρ => layerF (bfI C) (skw C skewOff idxAdj (2 ^ k)) (2 ^ k) base m (ifftF base m skewOff idxAdj k ρ)

theorem rowsOf_ifftRowsAux (base m skewOff idxAdj k : Nat) (w : Array Vec) (h : base + m ≤ w.size) :
    rowsOf (ifftRowsAux C base m skewOff idxAdj k w) = ifftF C base m skewOff idxAdj k (rowsOf w) := by
  induction k with
  | zero => rfl
  | succ k ih =>
    rw [ifftRowsAux, ifftLayerRows, rowsOf_layerRows _ _ _ _ _ _ (by rw [size_ifftRowsAux]; exact h), ih]
    rfl

theorem ifftF_succ_succ (base m skewOff idxAdj k : Nat) (ρ : Rows) :
    ifftF C base m skewOff idxAdj (k + 2) ρ =
      ifftLL C base m skewOff idxAdj (2 ^ k) (ifftF C base m skewOff idxAdj k ρ) := by
  show layerF _ _ (2 ^ (k + 1)) _ _ (layerF _ _ _ _ _ _) = _
  rw [two_pow_succ']
  rfl

/-- the radix-4 passes `0 … h-1` of the truncated generator -/
def ifftPassesF (base mtrunc skewOff idxAdj h : Nat) (ρ : Rows) : Rows :=
  (List.range h).foldl (fun ρ j => pass4F (ifftGad C base skewOff idxAdj (4 ^ j))
    ((mtrunc + 4 * 4 ^ j - 1) / (4 * 4 ^ j)) (4 ^ j) ρ) ρ

theorem ifftPassesF_eq (len base m mtrunc skewOff idxAdj t : Nat) (hm : m = 2 ^ t) (hmt : mtrunc ≤ m)
    (ρ : Rows) (hZ : ZeroFrom len base m mtrunc 1 ρ) (h : Nat) (hh : 2 * h ≤ t) :
    ifftPassesF C base mtrunc skewOff idxAdj h ρ = ifftF C base m skewOff idxAdj (2 * h) ρ ∧
      ZeroFrom len base m mtrunc (4 ^ h) (ifftPassesF C base mtrunc skewOff idxAdj h ρ) := by
  induction h with
  | zero => exact ⟨rfl, hZ⟩
  | succ h ih =>
    obtain ⟨ih1, ih2⟩ := ih (by omega)
    have hd : 0 < 4 ^ h := Nat.pow_pos (by decide)
    have hdm : 4 * 4 ^ h ∣ m := by
      rw [hm, four_mul_four_pow]; exact Nat.pow_dvd_pow 2 (by omega)
    have hstep : ifftPassesF C base mtrunc skewOff idxAdj (h + 1) ρ =
        pass4F (ifftGad C base skewOff idxAdj (4 ^ h)) ((mtrunc + 4 * 4 ^ h - 1) / (4 * 4 ^ h)) (4 ^ h)
          (ifftPassesF C base mtrunc skewOff idxAdj h ρ) := by
      unfold ifftPassesF
      rw [List.range_succ, List.foldl_append]
      rfl
    rw [hstep]
    constructor
    · rw [trunc_pass_eq C len base m mtrunc skewOff idxAdj (4 ^ h) hd hdm hmt _ ih2, ih1,
        show 2 * (h + 1) = 2 * h + 2 by omega, ifftF_succ_succ, four_pow]
    · have := trunc_pass_zero C len base m mtrunc skewOff idxAdj (4 ^ h) hd _ ih2
      rw [show 4 ^ (h + 1) = 4 * 4 ^ h by rw [Nat.pow_succ, Nat.mul_comm]]
      exact this

theorem ceil_mul_le (n D m : Nat) (hD : 0 < D) (hdm : D ∣ m) (hn : n ≤ m) : (n + D - 1) / D * D ≤ m := by
  obtain ⟨c, hc⟩ := hdm
  have : (n + D - 1) / D ≤ c := by
    rcases Nat.lt_or_ge c ((n + D - 1) / D) with h | h
    · rw [← mul_lt_iff_lt_ceil _ _ _ hD, Nat.mul_comm] at h; omega
    · exact h
  have := Nat.mul_le_mul_right D this
  rw [Nat.mul_comm c, ← hc] at this
  exact this

/-- the whole schedule `ifftLayers C base mtrunc m skewOff idxAdj` on row functions -/
def ifftSchedF (base mtrunc m skewOff idxAdj t : Nat) (ρ : Rows) : Rows :=
  if 2 * (t / 2) < t then
    layerF (bfI C) (skw C skewOff idxAdj (4 ^ (t / 2))) (4 ^ (t / 2)) base m
      (ifftPassesF C base mtrunc skewOff idxAdj (t / 2) ρ)
  else ifftPassesF C base mtrunc skewOff idxAdj (t / 2) ρ

theorem sim_ifftLayers (base mtrunc m skewOff idxAdj t : Nat) (hm : m = 2 ^ t)
    (ht : t / 2 ≤ C.P.bits) (hmt : mtrunc ≤ m) :
    Sim C (base + m) (ifftLayers C base mtrunc m skewOff idxAdj).toList
      (ifftSchedF C base mtrunc m skewOff idxAdj t) := by
  rw [ifftLayers_toList C base mtrunc m skewOff idxAdj t hm hmt ht]
  have hpass : Sim C (base + m)
      ((List.range (t / 2)).flatMap fun j => ifftPass C base mtrunc skewOff idxAdj (4 ^ j))
      (ifftPassesF C base mtrunc skewOff idxAdj (t / 2)) := by
    apply Sim.flatMap
    intro j hj
    have hj' := List.mem_range.mp hj
    have hd : 0 < 4 ^ j := Nat.pow_pos (by decide)
    apply sim_ifftPass C _ base mtrunc skewOff idxAdj (4 ^ j) hd
    have := ceil_mul_le mtrunc (4 * 4 ^ j) m (by omega)
      (by rw [hm, four_mul_four_pow]; exact Nat.pow_dvd_pow 2 (by omega)) hmt
    omega
  unfold ifftSchedF
  by_cases hodd : 4 ^ (t / 2) < 2 ^ t
  · rw [if_pos hodd]
    rw [four_pow_lt_iff] at hodd
    have hd : 0 < 4 ^ (t / 2) := Nat.pow_pos (by decide)
    have h2 : 2 * 4 ^ (t / 2) = m := by
      rw [hm, four_pow, ← two_pow_succ']; congr 1; omega
    have hfin := sim_ifftFinal C (base + m) base skewOff idxAdj (4 ^ (t / 2)) hd (by omega)
    rw [h2] at hfin
    refine Sim.congr C (hpass.append C hfin) ?_
    funext ρ
    rw [if_pos hodd]
  · rw [if_neg hodd, List.append_nil]
    rw [four_pow_lt_iff] at hodd
    refine Sim.congr C hpass ?_
    funext ρ
    rw [if_neg hodd]

/-- **refinement, truncated inverse transform**: if the rows `base + mtrunc … base + m - 1` are zero,
`ifftLayers C base mtrunc m skewOff idxAdj` computes the full clean network `ifftRows` -/
theorem run_ifftLayers_trunc (shards : Array Vec) (len : Nat) (w : Array Vec)
    (base mtrunc m skewOff idxAdj t : Nat) (hm : m = 2 ^ t) (ht : t / 2 ≤ C.P.bits) (hmt : mtrunc ≤ m)
    (hsz : base + m ≤ w.size)
    (hzero : ∀ idx, mtrunc ≤ idx → idx < m → w[base + idx]! = zeroVec len) :
    run C shards len w (ifftLayers C base mtrunc m skewOff idxAdj).toList =
      ifftRows C t base skewOff idxAdj w := by
  apply rowsOf_inj (by simp)
  have hZ : ZeroFrom len base m mtrunc 1 (rowsOf w) := by
    intro idx hidx hge
    rw [Nat.div_one, Nat.mul_one] at hge
    exact hzero idx hge hidx
  obtain ⟨e1, _⟩ := ifftPassesF_eq C len base m mtrunc skewOff idxAdj t hm hmt (rowsOf w) hZ (t / 2)
    (by omega)
  rw [sim_ifftLayers C base mtrunc m skewOff idxAdj t hm ht hmt shards len w hsz, ifftRows, ← hm,
    rowsOf_ifftRowsAux C base m skewOff idxAdj t w hsz]
  unfold ifftSchedF
  by_cases hodd : 2 * (t / 2) < t
  · rw [if_pos hodd]
    have ht' : ifftF C base m skewOff idxAdj t = ifftF C base m skewOff idxAdj (2 * (t / 2) + 1) := by
      congr 1; omega
    rw [ht', e1, four_pow]
    rfl
  · rw [if_neg hodd, e1]
    rw [show 2 * (t / 2) = t by omega]

/-- **refinement, full inverse transform** (`mtrunc = m`) -/
theorem run_ifftLayers_full (shards : Array Vec) (len : Nat) (w : Array Vec)
    (base m skewOff idxAdj t : Nat) (hm : m = 2 ^ t) (ht : t / 2 ≤ C.P.bits) (hsz : base + m ≤ w.size) :
    run C shards len w (ifftLayers C base m m skewOff idxAdj).toList =
      ifftRows C t base skewOff idxAdj w :=
  run_ifftLayers_trunc C shards len w base m m skewOff idxAdj t hm ht (Nat.le_refl _) hsz
    (fun idx h1 h2 => by omega)

end RSV.Proofs.LCHSched
