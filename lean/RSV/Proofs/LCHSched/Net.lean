import RSV.Proofs.LeoSched
/-!
# The clean radix-2 butterfly network (core Lean only)

* `bfF` / `bfI`: the forward / inverse butterfly on two rows (= the effect of `fft2` / `ifft2`).
* `fftLayerRows C i base m skewOff idxAdj w` / `ifftLayerRows …`: layer `i` (distance `2^i`) on the rows
  `[base, base + m)` of a work area; the block starting at row offset `b` (a multiple of `2^(i+1)`) uses
  the multiplier `skewAt C (skewOff + b + 2^i - idxAdj)`.
  Closed forms: `fftLayerRows_get`, `ifftLayerRows_get` (rows inside), `…_get_out` (rows outside),
  `size_…`, `WF_…`.
* `fftRows C t base skewOff idxAdj w`: layers `t-1, …, 0` (layer `t-1` first), `m = 2^t`;
  `ifftRows C t base skewOff idxAdj w`: layers `0, …, t-1` (layer `0` first).

Internally everything is phrased on *row functions* `Rows = Nat → Vec` (`rowsOf w = fun x => w[x]!`),
which avoids all size side conditions: `layerF` is the layer on row functions, `layerRows` tabulates it.
-/
namespace RSV.Proofs.LCHSched
open RSV.Model.Leo RSV.Proofs.LeoSched

/-- forward butterfly on two rows = the effect of `fft2 C x y logm` -/
def bfF (C : Ctx) (x y : Vec) (logm : Nat) : Vec × Vec :=
  let x' := if logm = C.P.modulus then x else xorVec x (mulVec C y logm)
  (x', xorVec y x')

/-- inverse butterfly = the effect of `ifft2 C x y logm` -/
def bfI (C : Ctx) (x y : Vec) (logm : Nat) : Vec × Vec :=
  let y' := xorVec y x
  ((if logm = C.P.modulus then x else xorVec x (mulVec C y' logm)), y')

/-- a work area as a total function of the row index -/
abbrev Rows := Nat → Vec

def rowsOf (w : Array Vec) : Rows := fun x => w[x]!

/-- tabulate the first `n` rows -/
def tab (n : Nat) (ρ : Rows) : Array Vec := Array.ofFn (n := n) fun j => ρ j.val

@[simp] theorem size_tab (n : Nat) (ρ : Rows) : (tab n ρ).size = n := by simp [tab]

theorem tab_get (n : Nat) (ρ : Rows) (x : Nat) (h : x < n) : (tab n ρ)[x]! = ρ x := by
  rw [get!_lt _ x (by simpa using h)]; simp [tab]

theorem rowsOf_ge (w : Array Vec) (x : Nat) (h : w.size ≤ x) : rowsOf w x = #[] :=
  get!_ge w x h

/-- if `ρ` is `#[]` beyond `n`, tabulating loses nothing -/
theorem rowsOf_tab (n : Nat) (ρ : Rows) (h : ∀ x, n ≤ x → ρ x = #[]) : rowsOf (tab n ρ) = ρ := by
  funext x
  by_cases hx : x < n
  · exact tab_get n ρ x hx
  · rw [h x (Nat.le_of_not_lt hx)]
    exact get!_ge _ x (by simpa using Nat.le_of_not_lt hx)

theorem tab_rowsOf (w : Array Vec) : tab w.size (rowsOf w) = w := by
  apply ext! (by simp)
  intro i hi
  exact tab_get _ _ i (by simpa using hi)

theorem rowsOf_inj {w w' : Array Vec} (hs : w.size = w'.size) (h : rowsOf w = rowsOf w') : w = w' :=
  ext! hs fun i _ => congrFun h i

/-! ## one layer -/

/-- layer with distance `d` on rows `[base, base + m)`, on row functions; `sk b` is the multiplier of
the block with row offset `b` -/
def layerF (bf : Vec → Vec → Nat → Vec × Vec) (sk : Nat → Nat) (d base m : Nat) (ρ : Rows) : Rows :=
  fun x =>
    if base ≤ x ∧ x < base + m then
      if (x - base) % (2 * d) < d then
        (bf (ρ x) (ρ (x + d)) (sk ((x - base) / (2 * d) * (2 * d)))).1
      else (bf (ρ (x - d)) (ρ x) (sk ((x - base) / (2 * d) * (2 * d)))).2
    else ρ x

def layerRows (bf : Vec → Vec → Nat → Vec × Vec) (sk : Nat → Nat) (d base m : Nat) (w : Array Vec) :
    Array Vec := tab w.size (layerF bf sk d base m (rowsOf w))

@[simp] theorem size_layerRows (bf sk) (d base m : Nat) (w : Array Vec) :
    (layerRows bf sk d base m w).size = w.size := by simp [layerRows]

theorem layerF_out (bf sk) (d base m : Nat) (ρ : Rows) (x : Nat) (h : x < base ∨ base + m ≤ x) :
    layerF bf sk d base m ρ x = ρ x := by
  unfold layerF
  rw [if_neg (by omega)]

theorem rowsOf_layerRows (bf sk) (d base m : Nat) (w : Array Vec) (h : base + m ≤ w.size) :
    rowsOf (layerRows bf sk d base m w) = layerF bf sk d base m (rowsOf w) := by
  apply rowsOf_tab
  intro x hx
  rw [layerF_out _ _ _ _ _ _ _ (by omega)]
  exact rowsOf_ge w x hx

/-- pair form: for a block start `b` (a multiple of `2d`) and `l < d`, the rows `base + b + l` and
`base + b + l + d` are the two outputs of one butterfly -/
theorem layerF_pair (bf sk) (d base m : Nat) (ρ : Rows) (b l : Nat) (hb : 2 * d ∣ b) (hl : l < d)
    (hbm : b + 2 * d ≤ m) :
    layerF bf sk d base m ρ (base + b + l) =
        (bf (ρ (base + b + l)) (ρ (base + b + l + d)) (sk b)).1 ∧
      layerF bf sk d base m ρ (base + b + l + d) =
        (bf (ρ (base + b + l)) (ρ (base + b + l + d)) (sk b)).2 := by
  obtain ⟨a, rfl⟩ := hb
  have hd : 0 < 2 * d := by omega
  have e1 : base + 2 * d * a + l - base = 2 * d * a + l := by omega
  have e2 : base + 2 * d * a + l + d - base = 2 * d * a + (l + d) := by omega
  have m1 : (2 * d * a + l) % (2 * d) = l := by
    rw [Nat.mul_add_mod, Nat.mod_eq_of_lt (by omega)]
  have m2 : (2 * d * a + (l + d)) % (2 * d) = l + d := by
    rw [Nat.mul_add_mod, Nat.mod_eq_of_lt (by omega)]
  have d1 : (2 * d * a + l) / (2 * d) * (2 * d) = 2 * d * a := by
    rw [Nat.mul_add_div hd, Nat.div_eq_of_lt (by omega), Nat.add_zero, Nat.mul_comm]
  have d2 : (2 * d * a + (l + d)) / (2 * d) * (2 * d) = 2 * d * a := by
    rw [Nat.mul_add_div hd, Nat.div_eq_of_lt (by omega), Nat.add_zero, Nat.mul_comm]
  unfold layerF
  constructor
  · rw [if_pos (by omega), e1, m1, d1, if_pos hl]
  · rw [if_pos (by omega), e2, m2, d2, if_neg (by omega), Nat.add_sub_cancel]

/-! ## the layers of the two transforms -/

def fftLayerRows (C : Ctx) (i base m skewOff idxAdj : Nat) (w : Array Vec) : Array Vec :=
  layerRows (bfF C) (fun b => skewAt C (skewOff + b + 2 ^ i - idxAdj)) (2 ^ i) base m w

def ifftLayerRows (C : Ctx) (i base m skewOff idxAdj : Nat) (w : Array Vec) : Array Vec :=
  layerRows (bfI C) (fun b => skewAt C (skewOff + b + 2 ^ i - idxAdj)) (2 ^ i) base m w

/-- layers `k-1, …, 0` (layer `k-1` first) -/
def fftRowsAux (C : Ctx) (base m skewOff idxAdj : Nat) : Nat → Array Vec → Array Vec
  | 0, w => w
  | k + 1, w => fftRowsAux C base m skewOff idxAdj k (fftLayerRows C k base m skewOff idxAdj w)

/-- layers `0, …, k-1` (layer `0` first) -/
def ifftRowsAux (C : Ctx) (base m skewOff idxAdj : Nat) : Nat → Array Vec → Array Vec
  | 0, w => w
  | k + 1, w => ifftLayerRows C k base m skewOff idxAdj (ifftRowsAux C base m skewOff idxAdj k w)

/-- the forward transform on rows `[base, base + 2^t)`: layers `t-1, …, 0` -/
def fftRows (C : Ctx) (t base skewOff idxAdj : Nat) (w : Array Vec) : Array Vec :=
  fftRowsAux C base (2 ^ t) skewOff idxAdj t w

/-- the inverse transform on rows `[base, base + 2^t)`: layers `0, …, t-1` -/
def ifftRows (C : Ctx) (t base skewOff idxAdj : Nat) (w : Array Vec) : Array Vec :=
  ifftRowsAux C base (2 ^ t) skewOff idxAdj t w

/-! ## closed forms (the interface to the field-level mathematics) -/

theorem layerRows_get (bf sk) (d base m : Nat) (w : Array Vec) (h : base + m ≤ w.size) (idx : Nat)
    (hidx : idx < m) :
    (layerRows bf sk d base m w)[base + idx]! =
      if idx % (2 * d) < d then (bf w[base + idx]! w[base + idx + d]! (sk (idx / (2 * d) * (2 * d)))).1
      else (bf w[base + idx - d]! w[base + idx]! (sk (idx / (2 * d) * (2 * d)))).2 := by
  have := congrFun (rowsOf_layerRows bf sk d base m w h) (base + idx)
  simp only [rowsOf] at this
  rw [this]
  unfold layerF
  rw [if_pos (by omega), Nat.add_sub_cancel_left]
  rfl

theorem layerRows_get_out (bf sk) (d base m : Nat) (w : Array Vec) (h : base + m ≤ w.size) (x : Nat)
    (hx : x < base ∨ base + m ≤ x) : (layerRows bf sk d base m w)[x]! = w[x]! := by
  have := congrFun (rowsOf_layerRows bf sk d base m w h) x
  simp only [rowsOf] at this
  rw [this, layerF_out _ _ _ _ _ _ _ hx]
  rfl

theorem two_pow_succ' (i : Nat) : 2 ^ (i + 1) = 2 * 2 ^ i := by rw [Nat.pow_succ, Nat.mul_comm]

/-- **closed form of a forward layer**: row `base + idx` (`idx < m`) -/
theorem fftLayerRows_get (C : Ctx) (i base m skewOff idxAdj : Nat) (w : Array Vec)
    (h : base + m ≤ w.size) (idx : Nat) (hidx : idx < m) :
    (fftLayerRows C i base m skewOff idxAdj w)[base + idx]! =
      if idx % 2 ^ (i + 1) < 2 ^ i then
        (bfF C w[base + idx]! w[base + idx + 2 ^ i]!
          (skewAt C (skewOff + idx / 2 ^ (i + 1) * 2 ^ (i + 1) + 2 ^ i - idxAdj))).1
      else
        (bfF C w[base + idx - 2 ^ i]! w[base + idx]!
          (skewAt C (skewOff + idx / 2 ^ (i + 1) * 2 ^ (i + 1) + 2 ^ i - idxAdj))).2 := by
  rw [two_pow_succ']
  exact layerRows_get _ _ _ _ _ _ h idx hidx

/-- **closed form of an inverse layer**: row `base + idx` (`idx < m`) -/
theorem ifftLayerRows_get (C : Ctx) (i base m skewOff idxAdj : Nat) (w : Array Vec)
    (h : base + m ≤ w.size) (idx : Nat) (hidx : idx < m) :
    (ifftLayerRows C i base m skewOff idxAdj w)[base + idx]! =
      if idx % 2 ^ (i + 1) < 2 ^ i then
        (bfI C w[base + idx]! w[base + idx + 2 ^ i]!
          (skewAt C (skewOff + idx / 2 ^ (i + 1) * 2 ^ (i + 1) + 2 ^ i - idxAdj))).1
      else
        (bfI C w[base + idx - 2 ^ i]! w[base + idx]!
          (skewAt C (skewOff + idx / 2 ^ (i + 1) * 2 ^ (i + 1) + 2 ^ i - idxAdj))).2 := by
  rw [two_pow_succ']
  exact layerRows_get _ _ _ _ _ _ h idx hidx

theorem fftLayerRows_get_out (C : Ctx) (i base m skewOff idxAdj : Nat) (w : Array Vec)
    (h : base + m ≤ w.size) (x : Nat) (hx : x < base ∨ base + m ≤ x) :
    (fftLayerRows C i base m skewOff idxAdj w)[x]! = w[x]! := layerRows_get_out _ _ _ _ _ _ h x hx

theorem ifftLayerRows_get_out (C : Ctx) (i base m skewOff idxAdj : Nat) (w : Array Vec)
    (h : base + m ≤ w.size) (x : Nat) (hx : x < base ∨ base + m ≤ x) :
    (ifftLayerRows C i base m skewOff idxAdj w)[x]! = w[x]! := layerRows_get_out _ _ _ _ _ _ h x hx

@[simp] theorem size_fftLayerRows (C : Ctx) (i base m skewOff idxAdj : Nat) (w : Array Vec) :
    (fftLayerRows C i base m skewOff idxAdj w).size = w.size := size_layerRows _ _ _ _ _ _

@[simp] theorem size_ifftLayerRows (C : Ctx) (i base m skewOff idxAdj : Nat) (w : Array Vec) :
    (ifftLayerRows C i base m skewOff idxAdj w).size = w.size := size_layerRows _ _ _ _ _ _

@[simp] theorem size_fftRowsAux (C : Ctx) (base m skewOff idxAdj k : Nat) (w : Array Vec) :
    (fftRowsAux C base m skewOff idxAdj k w).size = w.size := by
  induction k generalizing w with
  | zero => rfl
  | succ k ih => rw [fftRowsAux, ih, size_fftLayerRows]

@[simp] theorem size_ifftRowsAux (C : Ctx) (base m skewOff idxAdj k : Nat) (w : Array Vec) :
    (ifftRowsAux C base m skewOff idxAdj k w).size = w.size := by
  induction k with
  | zero => rfl
  | succ k ih => rw [ifftRowsAux, size_ifftLayerRows, ih]

@[simp] theorem size_fftRows (C : Ctx) (t base skewOff idxAdj : Nat) (w : Array Vec) :
    (fftRows C t base skewOff idxAdj w).size = w.size := size_fftRowsAux _ _ _ _ _ _ _

@[simp] theorem size_ifftRows (C : Ctx) (t base skewOff idxAdj : Nat) (w : Array Vec) :
    (ifftRows C t base skewOff idxAdj w).size = w.size := size_ifftRowsAux _ _ _ _ _ _ _

/-! ## well-formedness -/

theorem size_bfF (C : Ctx) {len : Nat} {x y : Vec} (hx : x.size = len) (hy : y.size = len) (s : Nat) :
    (bfF C x y s).1.size = len ∧ (bfF C x y s).2.size = len := by
  unfold bfF
  constructor
  · simp only; split
    · exact hx
    · rw [size_xorVec]; exact hx
  · simp only; rw [size_xorVec]; exact hy

theorem size_bfI (C : Ctx) {len : Nat} {x y : Vec} (hx : x.size = len) (hy : y.size = len) (s : Nat) :
    (bfI C x y s).1.size = len ∧ (bfI C x y s).2.size = len := by
  unfold bfI
  constructor
  · simp only; split
    · exact hx
    · rw [size_xorVec]; exact hx
  · simp only; rw [size_xorVec]; exact hy

/-- a layer preserves `WF len` when the butterfly preserves row sizes and `2d ∣ m` -/
theorem WF_layerRows (bf sk) (d base m len : Nat) (w : Array Vec) (h : base + m ≤ w.size)
    (hbf : ∀ x y s, x.size = len → y.size = len → (bf x y s).1.size = len ∧ (bf x y s).2.size = len)
    (hdm : 2 * d ∣ m) (hw : WF len w) : WF len (layerRows bf sk d base m w) := by
  intro x hx
  rw [size_layerRows] at hx
  by_cases hin : base ≤ x ∧ x < base + m
  · obtain ⟨idx, rfl⟩ : ∃ idx, x = base + idx := ⟨x - base, by omega⟩
    have hidx : idx < m := by omega
    rw [layerRows_get _ _ _ _ _ _ h idx hidx]
    have hd0 : 0 < 2 * d := by
      rcases Nat.eq_zero_or_pos (2 * d) with h0 | h0
      · rw [h0] at hdm; have := Nat.eq_zero_of_zero_dvd hdm; omega
      · exact h0
    have hmod := Nat.mod_lt idx hd0
    have hdiv := Nat.div_add_mod idx (2 * d)
    have hblk : idx / (2 * d) * (2 * d) + 2 * d ≤ m := by
      obtain ⟨c, rfl⟩ := hdm
      have hlt : idx / (2 * d) < c := by
        rw [Nat.div_lt_iff_lt_mul hd0, Nat.mul_comm]; exact hidx
      calc idx / (2 * d) * (2 * d) + 2 * d = (idx / (2 * d) + 1) * (2 * d) := (Nat.succ_mul _ _).symm
        _ ≤ c * (2 * d) := Nat.mul_le_mul_right _ hlt
        _ = 2 * d * c := Nat.mul_comm _ _
    rw [Nat.mul_comm] at hdiv
    split
    · exact (hbf _ _ _ (hw _ (by omega)) (hw _ (by omega))).1
    · exact (hbf _ _ _ (hw _ (by omega)) (hw _ (by omega))).2
  · rw [layerRows_get_out _ _ _ _ _ _ h x (by omega)]
    exact hw x hx

end RSV.Proofs.LCHSched
