import RSV.Proofs.LCHSched.Sim
/-!
# One radix-4 pass = two radix-2 layers on the processed blocks (core Lean only)

* `ifftG4` / `fftG4`: the 4-row gadgets (= `ifft4` / `fft4`, `sim_ifft4` / `sim_fft4`), with their four
  output rows in closed form (`ifftG4_vals`, `fftG4_vals`);
* `idxList nb d`: the gadget positions `q·4d + l` (`q < nb`, `l < d`) of a pass, in program order;
  `pass4F G4 nb d`: the fold of the gadgets; `pass4F_in` / `pass4F_out` (from `foldl_disjoint`);
* `layerF_quad_d`, `layerF_quad_2d`: the layers with distance `d` and `2d` on the four rows
  `base + r + l + c·d` of a `4d`-aligned block;
* `pass4F_eq`: a pass whose gadgets agree with a row transformer `LL` on their own four rows equals
  `LL` on `[base, base + nb·4d)` and the identity elsewhere;
* `ifft_two_layers` / `fft_two_layers`: the gadgets agree with (layer `d` then layer `2d`) resp.
  (layer `2d` then layer `d`).
-/
namespace RSV.Proofs.LCHSched
open RSV.Model.Leo RSV.Proofs.LeoSched

/-! ## 1. the 4-row gadgets -/

def ifftG4 (bf : Vec → Vec → Nat → Vec × Vec) (x0 x1 x2 x3 m01 m23 m02 : Nat) (ρ : Rows) : Rows :=
  bf2 bf x1 x3 m02 (bf2 bf x0 x2 m02 (bf2 bf x2 x3 m23 (bf2 bf x0 x1 m01 ρ)))

def fftG4 (bf : Vec → Vec → Nat → Vec × Vec) (x0 x1 x2 x3 m01 m23 m02 : Nat) (ρ : Rows) : Rows :=
  bf2 bf x2 x3 m23 (bf2 bf x0 x1 m01 (bf2 bf x1 x3 m02 (bf2 bf x0 x2 m02 ρ)))

/-- the four rows of the gadget at `x` with distance `d` -/
def S4 (x d : Nat) (z : Nat) : Prop := z = x ∨ z = x + d ∨ z = x + 2 * d ∨ z = x + 3 * d

theorem ifftG4_vals (bf) (x0 x1 x2 x3 m01 m23 m02 : Nat) (ρ : Rows) (h01 : x0 ≠ x1) (h02 : x0 ≠ x2)
    (h03 : x0 ≠ x3) (h12 : x1 ≠ x2) (h13 : x1 ≠ x3) (h23 : x2 ≠ x3) :
    ifftG4 bf x0 x1 x2 x3 m01 m23 m02 ρ x0 =
        (bf (bf (ρ x0) (ρ x1) m01).1 (bf (ρ x2) (ρ x3) m23).1 m02).1 ∧
      ifftG4 bf x0 x1 x2 x3 m01 m23 m02 ρ x1 =
        (bf (bf (ρ x0) (ρ x1) m01).2 (bf (ρ x2) (ρ x3) m23).2 m02).1 ∧
      ifftG4 bf x0 x1 x2 x3 m01 m23 m02 ρ x2 =
        (bf (bf (ρ x0) (ρ x1) m01).1 (bf (ρ x2) (ρ x3) m23).1 m02).2 ∧
      ifftG4 bf x0 x1 x2 x3 m01 m23 m02 ρ x3 =
        (bf (bf (ρ x0) (ρ x1) m01).2 (bf (ρ x2) (ρ x3) m23).2 m02).2 := by
  simp [ifftG4, bf2, h01, h02, h03, h12, h13, h23, h01.symm, h02.symm, h03.symm, h12.symm, h13.symm,
    h23.symm]

theorem fftG4_vals (bf) (x0 x1 x2 x3 m01 m23 m02 : Nat) (ρ : Rows) (h01 : x0 ≠ x1) (h02 : x0 ≠ x2)
    (h03 : x0 ≠ x3) (h12 : x1 ≠ x2) (h13 : x1 ≠ x3) (h23 : x2 ≠ x3) :
    fftG4 bf x0 x1 x2 x3 m01 m23 m02 ρ x0 =
        (bf (bf (ρ x0) (ρ x2) m02).1 (bf (ρ x1) (ρ x3) m02).1 m01).1 ∧
      fftG4 bf x0 x1 x2 x3 m01 m23 m02 ρ x1 =
        (bf (bf (ρ x0) (ρ x2) m02).1 (bf (ρ x1) (ρ x3) m02).1 m01).2 ∧
      fftG4 bf x0 x1 x2 x3 m01 m23 m02 ρ x2 =
        (bf (bf (ρ x0) (ρ x2) m02).2 (bf (ρ x1) (ρ x3) m02).2 m23).1 ∧
      fftG4 bf x0 x1 x2 x3 m01 m23 m02 ρ x3 =
        (bf (bf (ρ x0) (ρ x2) m02).2 (bf (ρ x1) (ρ x3) m02).2 m23).2 := by
  simp [fftG4, bf2, h01, h02, h03, h12, h13, h23, h01.symm, h02.symm, h03.symm, h12.symm, h13.symm,
    h23.symm]

theorem ifftG4_local (bf) (x d m01 m23 m02 : Nat) :
    LocalOn (S4 x d) (ifftG4 bf x (x + d) (x + 2 * d) (x + 3 * d) m01 m23 m02) := by
  have s0 : S4 x d x := Or.inl rfl
  have s1 : S4 x d (x + d) := Or.inr (Or.inl rfl)
  have s2 : S4 x d (x + 2 * d) := Or.inr (Or.inr (Or.inl rfl))
  have s3 : S4 x d (x + 3 * d) := Or.inr (Or.inr (Or.inr rfl))
  exact ((((LocalOn.bf2 bf m01 s0 s1).comp (LocalOn.bf2 bf m23 s2 s3)).comp
    (LocalOn.bf2 bf m02 s0 s2)).comp (LocalOn.bf2 bf m02 s1 s3))

theorem fftG4_local (bf) (x d m01 m23 m02 : Nat) :
    LocalOn (S4 x d) (fftG4 bf x (x + d) (x + 2 * d) (x + 3 * d) m01 m23 m02) := by
  have s0 : S4 x d x := Or.inl rfl
  have s1 : S4 x d (x + d) := Or.inr (Or.inl rfl)
  have s2 : S4 x d (x + 2 * d) := Or.inr (Or.inr (Or.inl rfl))
  have s3 : S4 x d (x + 3 * d) := Or.inr (Or.inr (Or.inr rfl))
  exact ((((LocalOn.bf2 bf m02 s0 s2).comp (LocalOn.bf2 bf m02 s1 s3)).comp
    (LocalOn.bf2 bf m01 s0 s1)).comp (LocalOn.bf2 bf m23 s2 s3))

variable (C : Ctx)

theorem sim_ifft4 (n b d m01 m23 m02 : Nat) (hd : 0 < d) (hb : b + 3 * d < n) :
    Sim C n (ifft4 C b d m01 m23 m02)
      (ifftG4 (bfI C) b (b + d) (b + 2 * d) (b + 3 * d) m01 m23 m02) := by
  unfold ifft4
  exact (((sim_ifft2 C n b (b + d) m01 (by omega) (by omega) (by omega)).append C
    (sim_ifft2 C n (b + 2 * d) (b + 3 * d) m23 (by omega) (by omega) (by omega))).append C
    (sim_ifft2 C n b (b + 2 * d) m02 (by omega) (by omega) (by omega))).append C
    (sim_ifft2 C n (b + d) (b + 3 * d) m02 (by omega) (by omega) (by omega))

theorem sim_fft4 (n b d m01 m23 m02 : Nat) (hd : 0 < d) (hb : b + 3 * d < n) :
    Sim C n (fft4 C b d m01 m23 m02)
      (fftG4 (bfF C) b (b + d) (b + 2 * d) (b + 3 * d) m01 m23 m02) := by
  unfold fft4
  exact (((sim_fft2 C n b (b + 2 * d) m02 (by omega) (by omega) (by omega)).append C
    (sim_fft2 C n (b + d) (b + 3 * d) m02 (by omega) (by omega) (by omega))).append C
    (sim_fft2 C n b (b + d) m01 (by omega) (by omega) (by omega))).append C
    (sim_fft2 C n (b + 2 * d) (b + 3 * d) m23 (by omega) (by omega) (by omega))

/-! ## 2. the gadget positions of a pass -/

/-- positions `q·4d + l`, `q < nb`, `l < d`, in program order -/
def idxList (nb d : Nat) : List Nat := (List.range nb).flatMap fun q => List.range' (q * (4 * d)) d

theorem mem_idxList (nb d i : Nat) :
    i ∈ idxList nb d ↔ ∃ q, q < nb ∧ q * (4 * d) ≤ i ∧ i < q * (4 * d) + d := by
  unfold idxList
  rw [List.mem_flatMap]
  constructor
  · rintro ⟨q, hq, hi⟩
    exact ⟨q, List.mem_range.mp hq, List.mem_range'_1.mp hi⟩
  · rintro ⟨q, hq, hi⟩
    exact ⟨q, List.mem_range.mpr hq, List.mem_range'_1.mpr hi⟩

theorem succ_mul_le {q q' D : Nat} (h : q < q') : q * D + D ≤ q' * D :=
  calc q * D + D = (q + 1) * D := (Nat.succ_mul q D).symm
    _ ≤ q' * D := Nat.mul_le_mul_right D h

theorem idxList_pairwise (base nb d : Nat) :
    (idxList nb d).Pairwise fun a b => ∀ z, S4 (base + a) d z → ¬ S4 (base + b) d z := by
  unfold idxList
  rw [List.pairwise_flatMap]
  constructor
  · intro q _
    refine List.Pairwise.imp_of_mem ?_ (List.pairwise_lt_range' (s := q * (4 * d)) (n := d))
    intro a b ha hb hab z h1 h2
    have ha' := List.mem_range'_1.mp ha
    have hb' := List.mem_range'_1.mp hb
    unfold S4 at h1 h2
    omega
  · refine List.Pairwise.imp ?_ (List.pairwise_lt_range (n := nb))
    intro q q' hqq a ha b hb z h1 h2
    have ha' := List.mem_range'_1.mp ha
    have hb' := List.mem_range'_1.mp hb
    have := succ_mul_le (D := 4 * d) hqq
    unfold S4 at h1 h2
    omega

/-- the fold of the gadgets of one pass -/
def pass4F (G4 : Nat → Rows → Rows) (nb d : Nat) (ρ : Rows) : Rows :=
  (idxList nb d).foldl (fun ρ i => G4 i ρ) ρ

theorem pass4F_in (G4 : Nat → Rows → Rows) (base nb d : Nat)
    (hG : ∀ i, LocalOn (S4 (base + i) d) (G4 i)) (ρ : Rows) (q l : Nat) (hq : q < nb) (hl : l < d)
    (z : Nat) (hz : S4 (base + (q * (4 * d) + l)) d z) :
    pass4F G4 nb d ρ z = G4 (q * (4 * d) + l) ρ z :=
  (foldl_disjoint G4 (fun i => S4 (base + i) d) hG _ (idxList_pairwise base nb d) ρ).1 _
    ((mem_idxList nb d _).mpr ⟨q, hq, by omega, by omega⟩) z hz

theorem pass4F_out (G4 : Nat → Rows → Rows) (base nb d : Nat)
    (hG : ∀ i, LocalOn (S4 (base + i) d) (G4 i)) (ρ : Rows) (z : Nat)
    (hz : z < base ∨ base + nb * (4 * d) ≤ z) : pass4F G4 nb d ρ z = ρ z := by
  apply (foldl_disjoint G4 (fun i => S4 (base + i) d) hG _ (idxList_pairwise base nb d) ρ).2
  intro i hi hS
  obtain ⟨q, hq, h1, h2⟩ := (mem_idxList nb d i).mp hi
  have := succ_mul_le (D := 4 * d) hq
  unfold S4 at hS
  omega

/-- every row offset below `nb·4d` lies in exactly one gadget -/
theorem decomp (nb d idx : Nat) (hd : 0 < d) (h : idx < nb * (4 * d)) :
    ∃ q l, q < nb ∧ l < d ∧ (idx = q * (4 * d) + l ∨ idx = q * (4 * d) + l + d ∨
      idx = q * (4 * d) + l + 2 * d ∨ idx = q * (4 * d) + l + 3 * d) := by
  have hD : 0 < 4 * d := by omega
  refine ⟨idx / (4 * d), idx % (4 * d) % d, ?_, Nat.mod_lt _ hd, ?_⟩
  · rw [Nat.div_lt_iff_lt_mul hD]; exact h
  · have h1 := Nat.div_add_mod idx (4 * d)
    have h2 := Nat.div_add_mod (idx % (4 * d)) d
    have h3 : idx % (4 * d) / d < 4 := by
      rw [Nat.div_lt_iff_lt_mul hd]; exact Nat.mod_lt _ hD
    rw [Nat.mul_comm] at h1
    generalize idx % (4 * d) / d = c at h2 h3
    have hc : c = 0 ∨ c = 1 ∨ c = 2 ∨ c = 3 := by omega
    rcases hc with rfl | rfl | rfl | rfl <;> omega

theorem block_div (q D l : Nat) (hl : l < D) : (q * D + l) / D * D = q * D := by
  have hD : 0 < D := by omega
  rw [Nat.mul_comm q D, Nat.mul_add_div hD, Nat.div_eq_of_lt hl, Nat.add_zero, Nat.mul_comm]

/-- a pass whose gadgets agree with `LL` on their own rows is `LL` on the processed blocks -/
theorem pass4F_eq (G4 : Nat → Rows → Rows) (LL : Rows → Rows) (base nb d : Nat) (hd : 0 < d)
    (hG : ∀ i, LocalOn (S4 (base + i) d) (G4 i))
    (hq : ∀ q l, q < nb → l < d → ∀ ρ z, S4 (base + (q * (4 * d) + l)) d z →
      G4 (q * (4 * d) + l) ρ z = LL ρ z) (ρ : Rows) (z : Nat) :
    pass4F G4 nb d ρ z = if base ≤ z ∧ z < base + nb * (4 * d) then LL ρ z else ρ z := by
  by_cases hin : base ≤ z ∧ z < base + nb * (4 * d)
  · rw [if_pos hin]
    obtain ⟨q, l, hq', hl, hc⟩ := decomp nb d (z - base) hd (by omega)
    have hS : S4 (base + (q * (4 * d) + l)) d z := by
      unfold S4
      omega
    rw [pass4F_in G4 base nb d hG ρ q l hq' hl z hS]
    exact hq q l hq' hl ρ z hS
  · rw [if_neg hin]
    exact pass4F_out G4 base nb d hG ρ z (by omega)

/-! ## 3. the two layers on the four rows of a gadget -/

theorem layerF_quad_d (bf sk) (d base m : Nat) (ρ : Rows) (r l : Nat) (hr : 4 * d ∣ r) (hl : l < d)
    (hrm : r + 4 * d ≤ m) :
    layerF bf sk d base m ρ (base + r + l) =
        (bf (ρ (base + r + l)) (ρ (base + r + l + d)) (sk r)).1 ∧
      layerF bf sk d base m ρ (base + r + l + d) =
        (bf (ρ (base + r + l)) (ρ (base + r + l + d)) (sk r)).2 ∧
      layerF bf sk d base m ρ (base + r + l + 2 * d) =
        (bf (ρ (base + r + l + 2 * d)) (ρ (base + r + l + 3 * d)) (sk (r + 2 * d))).1 ∧
      layerF bf sk d base m ρ (base + r + l + 3 * d) =
        (bf (ρ (base + r + l + 2 * d)) (ρ (base + r + l + 3 * d)) (sk (r + 2 * d))).2 := by
  have h2 : 2 * d ∣ r := Nat.dvd_trans ⟨2, by omega⟩ hr
  have h2' : 2 * d ∣ r + 2 * d := Nat.dvd_add h2 (Nat.dvd_refl _)
  have p1 := layerF_pair bf sk d base m ρ r l h2 hl (by omega)
  have p2 := layerF_pair bf sk d base m ρ (r + 2 * d) l h2' hl (by omega)
  have e1 : base + (r + 2 * d) + l = base + r + l + 2 * d := by omega
  have e2 : base + r + l + 2 * d + d = base + r + l + 3 * d := by omega
  rw [e1, e2] at p2
  exact ⟨p1.1, p1.2, p2.1, p2.2⟩

theorem layerF_quad_2d (bf sk) (d base m : Nat) (ρ : Rows) (r l : Nat) (hr : 4 * d ∣ r) (hl : l < d)
    (hrm : r + 4 * d ≤ m) :
    layerF bf sk (2 * d) base m ρ (base + r + l) =
        (bf (ρ (base + r + l)) (ρ (base + r + l + 2 * d)) (sk r)).1 ∧
      layerF bf sk (2 * d) base m ρ (base + r + l + d) =
        (bf (ρ (base + r + l + d)) (ρ (base + r + l + 3 * d)) (sk r)).1 ∧
      layerF bf sk (2 * d) base m ρ (base + r + l + 2 * d) =
        (bf (ρ (base + r + l)) (ρ (base + r + l + 2 * d)) (sk r)).2 ∧
      layerF bf sk (2 * d) base m ρ (base + r + l + 3 * d) =
        (bf (ρ (base + r + l + d)) (ρ (base + r + l + 3 * d)) (sk r)).2 := by
  have h4 : 2 * (2 * d) ∣ r := by rwa [show 2 * (2 * d) = 4 * d by omega]
  have p1 := layerF_pair bf sk (2 * d) base m ρ r l h4 (by omega) (by omega)
  have p2 := layerF_pair bf sk (2 * d) base m ρ r (l + d) h4 (by omega) (by omega)
  have e1 : base + r + (l + d) = base + r + l + d := by omega
  have e2 : base + r + l + d + 2 * d = base + r + l + 3 * d := by omega
  rw [e1, e2] at p2
  exact ⟨p1.1, p2.1, p1.2, p2.2⟩

theorem S4_cases {x d z : Nat} (h : S4 x d z) : z = x ∨ z = x + d ∨ z = x + 2 * d ∨ z = x + 3 * d := h

/-- inverse gadget = layer `d` then layer `2d`, on the gadget's rows -/
theorem ifft_two_layers (bf) (sk1 sk2 : Nat → Nat) (d base m : Nat) (hd : 0 < d) (ρ : Rows)
    (r l : Nat) (hr : 4 * d ∣ r) (hl : l < d) (hrm : r + 4 * d ≤ m) (z : Nat)
    (hz : S4 (base + (r + l)) d z) :
    ifftG4 bf (base + (r + l)) (base + (r + l) + d) (base + (r + l) + 2 * d) (base + (r + l) + 3 * d)
        (sk1 r) (sk1 (r + 2 * d)) (sk2 r) ρ z =
      layerF bf sk2 (2 * d) base m (layerF bf sk1 d base m ρ) z := by
  rw [← Nat.add_assoc] at hz ⊢
  obtain ⟨v0, v1, v2, v3⟩ := ifftG4_vals bf (base + r + l) (base + r + l + d) (base + r + l + 2 * d)
    (base + r + l + 3 * d) (sk1 r) (sk1 (r + 2 * d)) (sk2 r) ρ (by omega) (by omega) (by omega)
    (by omega) (by omega) (by omega)
  obtain ⟨a0, a1, a2, a3⟩ := layerF_quad_d bf sk1 d base m ρ r l hr hl hrm
  obtain ⟨b0, b1, b2, b3⟩ := layerF_quad_2d bf sk2 d base m (layerF bf sk1 d base m ρ) r l hr hl hrm
  rcases S4_cases hz with rfl | rfl | rfl | rfl
  · rw [v0, b0, a0, a2]
  · rw [v1, b1, a1, a3]
  · rw [v2, b2, a0, a2]
  · rw [v3, b3, a1, a3]

/-- forward gadget = layer `2d` then layer `d`, on the gadget's rows -/
theorem fft_two_layers (bf) (sk1 sk2 : Nat → Nat) (d base m : Nat) (hd : 0 < d) (ρ : Rows)
    (r l : Nat) (hr : 4 * d ∣ r) (hl : l < d) (hrm : r + 4 * d ≤ m) (z : Nat)
    (hz : S4 (base + (r + l)) d z) :
    fftG4 bf (base + (r + l)) (base + (r + l) + d) (base + (r + l) + 2 * d) (base + (r + l) + 3 * d)
        (sk1 r) (sk1 (r + 2 * d)) (sk2 r) ρ z =
      layerF bf sk1 d base m (layerF bf sk2 (2 * d) base m ρ) z := by
  rw [← Nat.add_assoc] at hz ⊢
  obtain ⟨v0, v1, v2, v3⟩ := fftG4_vals bf (base + r + l) (base + r + l + d) (base + r + l + 2 * d)
    (base + r + l + 3 * d) (sk1 r) (sk1 (r + 2 * d)) (sk2 r) ρ (by omega) (by omega) (by omega)
    (by omega) (by omega) (by omega)
  obtain ⟨a0, a1, a2, a3⟩ := layerF_quad_2d bf sk2 d base m ρ r l hr hl hrm
  obtain ⟨b0, b1, b2, b3⟩ := layerF_quad_d bf sk1 d base m (layerF bf sk2 (2 * d) base m ρ) r l hr hl hrm
  rcases S4_cases hz with rfl | rfl | rfl | rfl
  · rw [v0, b0, a0, a1]
  · rw [v1, b1, a0, a1]
  · rw [v2, b2, a2, a3]
  · rw [v3, b3, a2, a3]

end RSV.Proofs.LCHSched
