import RSV.Proofs.LCHSched.Encode
/-!
# Sanity checks on a toy context (kernel evaluation, `decide +kernel`)

A 3-bit toy context with arbitrary tables (all that matters is that `run` and the clean networks are
evaluated on the same data): the literal loop schedules and the clean radix-2 networks agree on
concrete inputs, for odd and even `t`, `base ≠ 0`, both `idxAdj` conventions, with truncation.
These guard the closed forms / skew indexing of `Net.lean` against typos independently of the proofs.
-/
namespace RSV.Proofs.LCHSched.Sanity
open RSV.Model.Leo RSV.Proofs.LeoSched RSV.Proofs.LCHSched

def toyC : Ctx :=
  ⟨⟨3, 0, #[]⟩, ⟨#[0, 3, 1, 6, 2, 5, 4, 7], #[1, 2, 4, 3, 6, 7, 5, 1]⟩,
   ⟨#[1, 7, 3, 2, 5, 0, 6, 4, 1, 2, 3, 4, 5, 6, 7, 0, 3, 3, 1, 2, 6, 5, 4, 3, 2, 1], #[]⟩⟩

def toyW : Array Vec :=
  #[#[1], #[2], #[3], #[4], #[5], #[6], #[7], #[1], #[2], #[5], #[3], #[6], #[1], #[2], #[7], #[4], #[3], #[5]]

/-- `toyW` with rows `[k, 17)` zeroed -/
def toyZ (k : Nat) : Array Vec :=
  Array.ofFn (n := 18) fun i => if k ≤ i.val ∧ i.val < 17 then #[0] else toyW[i.val]!

-- full inverse transforms (t = 3, 2, 4, 1), encoder and decoder skew conventions
example : run toyC #[] 1 toyW (ifftLayers toyC 1 8 8 2 0).toList = ifftRows toyC 3 1 2 0 toyW := by
  decide +kernel
example : run toyC #[] 1 toyW (ifftLayers toyC 0 4 4 3 1).toList = ifftRows toyC 2 0 3 1 toyW := by
  decide +kernel
example : run toyC #[] 1 toyW (ifftLayers toyC 1 16 16 3 1).toList = ifftRows toyC 4 1 3 1 toyW := by
  decide +kernel
example : run toyC #[] 1 toyW (ifftLayers toyC 1 2 2 3 1).toList = ifftRows toyC 1 1 3 1 toyW := by
  decide +kernel
-- truncated inverse transforms on zero-padded input
example : run toyC #[] 1 (toyZ 6) (ifftLayers toyC 1 5 16 3 1).toList = ifftRows toyC 4 1 3 1 (toyZ 6) := by
  decide +kernel
example : run toyC #[] 1 (toyZ 4) (ifftLayers toyC 1 3 8 3 0).toList = ifftRows toyC 3 1 3 0 (toyZ 4) := by
  decide +kernel
-- … and the zero padding is necessary
example : run toyC #[] 1 toyW (ifftLayers toyC 1 5 16 3 1).toList ≠ ifftRows toyC 4 1 3 1 toyW := by
  decide +kernel
-- forward transforms
example : run toyC #[] 1 toyW (fftLayers toyC 8 8).toList = fftRows toyC 3 0 0 1 toyW := by decide +kernel
example : run toyC #[] 1 toyW (fftLayers toyC 16 16).toList = fftRows toyC 4 0 0 1 toyW := by decide +kernel
example : run toyC #[] 1 toyW (fftLayers toyC 4 4).toList = fftRows toyC 2 0 0 1 toyW := by decide +kernel
-- truncated forward transform: the rows of the processed final blocks agree
example : ∀ i < 6, (run toyC #[] 1 toyW (fftLayers toyC 5 8).toList)[i]! = (fftRows toyC 3 0 0 1 toyW)[i]! := by
  decide +kernel
example : ∀ i < 8, (run toyC #[] 1 toyW (fftLayers toyC 5 16).toList)[i]! = (fftRows toyC 4 0 0 1 toyW)[i]! := by
  decide +kernel

end RSV.Proofs.LCHSched.Sanity
