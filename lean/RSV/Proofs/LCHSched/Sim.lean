import RSV.Proofs.LCHSched.Net
/-!
# Step lists as transformers of row functions (core Lean only)

* `bf2 bf x y s`: one butterfly on rows `x, y` of a row function; `sim_fft2` / `sim_ifft2`: this is what
  `run` does on `fft2` / `ifft2`.
* `Sim C n L F`: on every work area with at least `n` rows, `rowsOf (run … w L) = F (rowsOf w)`;
  closed under `++` and `flatMap`.
* `LocalOn S G`: `G` changes only rows in `S`, and its outputs on `S` depend only on the inputs on `S`.
* `foldl_disjoint`: a fold of gadgets that are local on pairwise disjoint row sets acts on each set as
  its own gadget applied to the INITIAL rows, and leaves all other rows alone.
-/
namespace RSV.Proofs.LCHSched
open RSV.Model.Leo RSV.Proofs.LeoSched

/-- one butterfly on the rows `x`, `y` -/
def bf2 (bf : Vec → Vec → Nat → Vec × Vec) (x y s : Nat) (ρ : Rows) : Rows :=
  fun z => if z = x then (bf (ρ x) (ρ y) s).1 else if z = y then (bf (ρ x) (ρ y) s).2 else ρ z

theorem rowsOf_set! (w : Array Vec) (d : Nat) (v : Vec) (h : d < w.size) :
    rowsOf (w.set! d v) = fun z => if z = d then v else rowsOf w z := by
  funext z
  show (w.set! d v)[z]! = _
  rw [get!_set!]
  by_cases hz : z = d
  · subst hz; rw [if_pos ⟨rfl, h⟩, if_pos rfl]
  · rw [if_neg (fun hh => hz hh.1.symm), if_neg hz]; rfl

variable (C : Ctx)

/-- on every work area with at least `n` rows, the step list `L` acts on the row function as `F` -/
def Sim (n : Nat) (L : List Step) (F : Rows → Rows) : Prop :=
  ∀ (shards : Array Vec) (len : Nat) (w : Array Vec), n ≤ w.size →
    rowsOf (run C shards len w L) = F (rowsOf w)

theorem Sim.nil (n : Nat) : Sim C n [] id := fun _ _ _ _ => rfl

theorem Sim.append {n : Nat} {L₁ L₂ : List Step} {F₁ F₂ : Rows → Rows} (h₁ : Sim C n L₁ F₁)
    (h₂ : Sim C n L₂ F₂) : Sim C n (L₁ ++ L₂) (fun ρ => F₂ (F₁ ρ)) := by
  intro shards len w hw
  rw [run_append, h₂ shards len _ (by rw [size_run]; exact hw), h₁ shards len w hw]

theorem Sim.congr {n : Nat} {L : List Step} {F F' : Rows → Rows} (h : Sim C n L F) (hF : F = F') :
    Sim C n L F' := hF ▸ h

theorem Sim.flatMap {ι : Type} {n : Nat} (l : List ι) (f : ι → List Step) (G : ι → Rows → Rows)
    (h : ∀ k ∈ l, Sim C n (f k) (G k)) :
    Sim C n (l.flatMap f) (fun ρ => l.foldl (fun ρ k => G k ρ) ρ) := by
  induction l with
  | nil => exact Sim.nil C n
  | cons a l ih =>
    rw [List.flatMap_cons]
    exact Sim.append C (h a (by simp)) (ih fun k hk => h k (by simp [hk]))

theorem sim_fft2 (n x y logm : Nat) (hxy : x ≠ y) (hx : x < n) (hy : y < n) :
    Sim C n (fft2 C x y logm) (bf2 (bfF C) x y logm) := by
  intro shards len w hw
  have hx' : x < w.size := by omega
  have hy' : y < w.size := by omega
  unfold fft2
  by_cases hm : logm = C.P.modulus
  · rw [if_pos hm]
    simp only [List.nil_append, run_cons, run_nil, step]
    rw [rowsOf_set! _ _ _ hy']
    funext z
    simp only [bf2, bfF, if_pos hm]
    by_cases hzx : z = x
    · subst hzx; rw [if_neg hxy, if_pos rfl]
    · rw [if_neg hzx]; rfl
  · rw [if_neg hm]
    simp only [List.cons_append, List.nil_append, run_cons, run_nil, step]
    rw [rowsOf_set! _ _ _ (by rw [size_set!]; exact hy'), rowsOf_set! _ _ _ hx']
    have e1 : (w.set! x (xorVec w[x]! (mulVec C w[y]! logm)))[y]! = w[y]! :=
      get!_set!_ne _ _ _ _ hxy
    have e2 : (w.set! x (xorVec w[x]! (mulVec C w[y]! logm)))[x]! =
        xorVec w[x]! (mulVec C w[y]! logm) := get!_set!_self _ _ _ hx'
    rw [e1, e2]
    funext z
    simp only [bf2, bfF, if_neg hm]
    by_cases hzx : z = x
    · subst hzx; rw [if_neg hxy, if_pos rfl, if_pos rfl]; rfl
    · rw [if_neg hzx, if_neg hzx]; rfl

theorem sim_ifft2 (n x y logm : Nat) (hxy : x ≠ y) (hx : x < n) (hy : y < n) :
    Sim C n (ifft2 C x y logm) (bf2 (bfI C) x y logm) := by
  intro shards len w hw
  have hx' : x < w.size := by omega
  have hy' : y < w.size := by omega
  unfold ifft2
  by_cases hm : logm = C.P.modulus
  · rw [if_pos hm]
    simp only [List.append_nil, run_cons, run_nil, step]
    rw [rowsOf_set! _ _ _ hy']
    funext z
    simp only [bf2, bfI, if_pos hm]
    by_cases hzx : z = x
    · subst hzx; rw [if_neg hxy, if_pos rfl]
    · rw [if_neg hzx]; rfl
  · rw [if_neg hm]
    simp only [List.cons_append, List.nil_append, run_cons, run_nil, step]
    rw [rowsOf_set! _ _ _ (by rw [size_set!]; exact hx'), rowsOf_set! _ _ _ hy']
    have e1 : (w.set! y (xorVec w[y]! w[x]!))[x]! = w[x]! :=
      get!_set!_ne _ _ _ _ (Ne.symm hxy)
    have e2 : (w.set! y (xorVec w[y]! w[x]!))[y]! = xorVec w[y]! w[x]! := get!_set!_self _ _ _ hy'
    rw [e1, e2]
    funext z
    simp only [bf2, bfI, if_neg hm]
    by_cases hzx : z = x
    · subst hzx; rw [if_pos rfl, if_pos rfl]; rfl
    · rw [if_neg hzx, if_neg hzx]; rfl

/-! ## locality -/

/-- `G` changes only rows in `S`, and its outputs on `S` depend only on the inputs on `S` -/
structure LocalOn (S : Nat → Prop) (G : Rows → Rows) : Prop where
  frame : ∀ ρ z, ¬ S z → G ρ z = ρ z
  loc : ∀ ρ ρ', (∀ z, S z → ρ z = ρ' z) → ∀ z, S z → G ρ z = G ρ' z

theorem LocalOn.bf2 (bf) {S : Nat → Prop} {x y : Nat} (s : Nat) (hx : S x) (hy : S y) :
    LocalOn S (bf2 bf x y s) where
  frame := by
    intro ρ z hz
    unfold LCHSched.bf2
    rw [if_neg (fun h : z = x => hz (h ▸ hx)), if_neg (fun h : z = y => hz (h ▸ hy))]
  loc := by
    intro ρ ρ' h z hz
    unfold LCHSched.bf2
    rw [h x hx, h y hy, h z hz]

theorem LocalOn.comp {S : Nat → Prop} {G₁ G₂ : Rows → Rows} (h₁ : LocalOn S G₁) (h₂ : LocalOn S G₂) :
    LocalOn S (fun ρ => G₂ (G₁ ρ)) where
  frame := by
    intro ρ z hz
    show G₂ (G₁ ρ) z = ρ z
    rw [h₂.frame _ z hz, h₁.frame _ z hz]
  loc := by
    intro ρ ρ' h z hz
    exact h₂.loc _ _ (fun z' hz' => h₁.loc ρ ρ' h z' hz') z hz

/-- a fold of gadgets that are local on pairwise disjoint sets -/
theorem foldl_disjoint {ι : Type} (G : ι → Rows → Rows) (S : ι → Nat → Prop)
    (hG : ∀ k, LocalOn (S k) (G k)) (l : List ι)
    (hd : l.Pairwise fun a b => ∀ z, S a z → ¬ S b z) (ρ : Rows) :
    (∀ k ∈ l, ∀ z, S k z → l.foldl (fun ρ k => G k ρ) ρ z = G k ρ z) ∧
      (∀ z, (∀ k ∈ l, ¬ S k z) → l.foldl (fun ρ k => G k ρ) ρ z = ρ z) := by
  induction l generalizing ρ with
  | nil => exact ⟨fun k hk => by simp at hk, fun z _ => rfl⟩
  | cons a l ih =>
    rw [List.pairwise_cons] at hd
    obtain ⟨ih1, ih2⟩ := ih hd.2 (G a ρ)
    simp only [List.foldl_cons]
    constructor
    · intro k hk z hz
      rcases List.mem_cons.mp hk with rfl | hk'
      · rw [ih2 z (fun k' hk' hS => hd.1 k' hk' z hz hS)]
      · rw [ih1 k hk' z hz]
        apply (hG k).loc _ _ _ z hz
        intro z' hz'
        exact (hG a).frame ρ z' (fun hS => hd.1 k hk' z' hS hz')
    · intro z hz
      rw [ih2 z (fun k hk => hz k (by simp [hk]))]
      exact (hG a).frame ρ z (hz a (by simp))

theorem flatMap_congr' {α β : Type} (l : List α) (f g : α → List β) (h : ∀ a ∈ l, f a = g a) :
    l.flatMap f = l.flatMap g := by
  induction l with
  | nil => rfl
  | cons a l ih =>
    rw [List.flatMap_cons, List.flatMap_cons, h a (by simp), ih fun b hb => h b (by simp [hb])]

end RSV.Proofs.LCHSched
