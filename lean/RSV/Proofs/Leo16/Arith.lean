import RSV.Spec.BinField
import Mathlib.Logic.Function.Iterate
/-!
# GF(2^16) modulo 0x1002D from first principles: `x`-multiplication, products, powers of `x`

`xt = BF.xtime 16 0x1002D` (multiplication by `x`), `mul16 = BF.pmul 16 0x1002D`, `xpow n = xt^[n] 1`
(`= x^n`).  Structural facts (bounds, `mul16 a (x^n) = xt^[n] a`, `x^(i+j) = x^i · x^j`) and a fast
(square-and-multiply) evaluator `xpf` with `xpf f n = xpow n` for `n < 2^f`, so that single values
`xpow n` can be evaluated by the kernel with 16 products.
-/
namespace RSV.Proofs.Leo16
open RSV.BF

/-- the reduction polynomial `x^16 + x^5 + x^3 + x^2 + 1` of Leopard's GF(2^16) -/
abbrev poly16 : Nat := 0x1002D

/-- multiplication by `x` -/
def xt (a : Nat) : Nat := xtime 16 poly16 a

/-- the field product -/
def mul16 (a b : Nat) : Nat := pmul 16 poly16 a b

/-- `x^n` -/
def xpow (n : Nat) : Nat := xt^[n] 1

theorem xt_xor (a b : Nat) : xt (a ^^^ b) = xt a ^^^ xt b := xtime_xor 16 poly16 a b

theorem xt_zero : xt 0 = 0 := by decide

theorem mul16_xor_left (a a' b : Nat) : mul16 (a ^^^ a') b = mul16 a b ^^^ mul16 a' b :=
  pmul_xor_left 16 poly16 a a' b

theorem mul16_xor_right (a b b' : Nat) : mul16 a (b ^^^ b') = mul16 a b ^^^ mul16 a b' :=
  pmul_xor_right 16 poly16 a b b'

theorem mul16_zero_left (b : Nat) : mul16 0 b = 0 := by
  have h := mul16_xor_left 0 0 b
  simpa using h

theorem mul16_zero_right (a : Nat) : mul16 a 0 = 0 := by
  have h := mul16_xor_right a 0 0
  simpa using h

/-! ## bounds -/

theorem testBit15 {a : Nat} (ha : a < 65536) : a.testBit 15 = decide (32768 ≤ a) := by
  rw [Nat.testBit_eq_decide_div_mod_eq]
  congr 1
  apply propext
  constructor <;> intro h <;> omega

/-- `xt` in the form of the LFSR step of `initLUTs` -/
theorem xt_eq_step {a : Nat} (ha : a < 65536) :
    xt a = if a <<< 1 ≥ 65536 then (a <<< 1) ^^^ poly16 else a <<< 1 := by
  unfold xt xtime
  rw [show 16 - 1 = 15 from rfl, testBit15 ha, Nat.shiftLeft_eq]
  by_cases h : 32768 ≤ a
  · rw [if_pos (by simpa using h), if_pos (by omega)]
  · rw [if_neg (by simpa using h), if_neg (by omega)]

theorem xt_lt {a : Nat} (ha : a < 65536) : xt a < 65536 := by
  rw [xt_eq_step ha, Nat.shiftLeft_eq]
  split
  · apply Nat.lt_pow_two_of_testBit (n := 16)
    intro i hi
    rw [Nat.testBit_xor]
    by_cases h16 : i = 16
    · subst h16
      have : (a * 2 ^ 1).testBit 16 = true := by
        rw [Nat.testBit_eq_decide_div_mod_eq]; simp; omega
      rw [this]; decide
    · have h1 : (a * 2 ^ 1).testBit i = false :=
        Nat.testBit_lt_two_pow (Nat.lt_of_lt_of_le (show a * 2 ^ 1 < 2 ^ 17 by omega)
          (Nat.pow_le_pow_right (by decide) (by omega)))
      have h2 : poly16.testBit i = false :=
        Nat.testBit_lt_two_pow (Nat.lt_of_lt_of_le (show poly16 < 2 ^ 17 by decide)
          (Nat.pow_le_pow_right (by decide) (by omega)))
      rw [h1, h2]; rfl
  · omega

theorem xt_iter_lt {a : Nat} (ha : a < 65536) (n : Nat) : xt^[n] a < 65536 := by
  induction n with
  | zero => exact ha
  | succ n ih => rw [Function.iterate_succ_apply']; exact xt_lt ih

theorem xpow_lt (n : Nat) : xpow n < 65536 := xt_iter_lt (by decide) n

theorem pmulAux_lt (n : Nat) : ∀ a b, a < 65536 → pmulAux 16 poly16 n a b < 65536 := by
  induction n with
  | zero => intro a b _; simp [pmulAux]
  | succ n ih =>
    intro a b ha
    simp only [pmulAux]
    apply Nat.xor_lt_two_pow (n := 16)
    · split
      · exact ha
      · decide
    · exact ih _ _ (xt_lt ha)

theorem mul16_lt {a : Nat} (ha : a < 65536) (b : Nat) : mul16 a b < 65536 := pmulAux_lt 16 a b ha

/-! ## `1` and `x` -/

theorem pmulAux_zero_right (n a : Nat) : pmulAux 16 poly16 n a 0 = 0 := by
  have h := pmulAux_xor_right 16 poly16 n a 0 0
  simpa using h

theorem mul16_one_right (a : Nat) : mul16 a 1 = a := by
  show pmulAux 16 poly16 16 a 1 = a
  simp [pmulAux]

theorem mul16_xt_basis : ∀ i, i < 16 → ∀ j, j < 16 → mul16 (2^i) (xt (2^j)) = xt (mul16 (2^i) (2^j)) := by
  decide +kernel

/-- `a · (x b) = x (a · b)` -/
theorem mul16_xt {a b : Nat} (ha : a < 65536) (hb : b < 65536) : mul16 a (xt b) = xt (mul16 a b) := by
  refine ext_of_basis (fun a => mul16 a (xt b)) (fun a => xt (mul16 a b))
    (fun x y => mul16_xor_left x y _) (fun x y => by simp only [mul16_xor_left, xt_xor]) 16 ?_ a ha
  intro i hi
  exact ext_of_basis (fun b => mul16 (2^i) (xt b)) (fun b => xt (mul16 (2^i) b))
    (fun x y => by simp only [xt_xor, mul16_xor_right])
    (fun x y => by simp only [mul16_xor_right, xt_xor]) 16
    (fun j hj => mul16_xt_basis i hi j hj) b hb

theorem xpow_succ (n : Nat) : xpow (n + 1) = xt (xpow n) := Function.iterate_succ_apply' xt n 1

theorem xpow_zero : xpow 0 = 1 := rfl

theorem xpow_one : xpow 1 = 2 := by decide

/-- multiplying by `x^n` is `n`-fold multiplication by `x` -/
theorem mul16_xpow {a : Nat} (ha : a < 65536) (n : Nat) : mul16 a (xpow n) = xt^[n] a := by
  induction n with
  | zero => exact mul16_one_right a
  | succ n ih => rw [xpow_succ, mul16_xt ha (xpow_lt n), ih, Function.iterate_succ_apply']

theorem xpow_add (i j : Nat) : xpow (i + j) = mul16 (xpow i) (xpow j) := by
  rw [mul16_xpow (xpow_lt i), xpow, Nat.add_comm, Function.iterate_add_apply]; rfl

theorem mul16_two {a : Nat} (ha : a < 65536) : mul16 a 2 = xt a := by
  have := mul16_xpow ha 1
  rwa [xpow_one] at this

/-! ## square-and-multiply -/

/-- `x^n` for `n < 2^fuel` with `fuel` squarings -/
def xpf : Nat → Nat → Nat
  | 0, _ => 1
  | f+1, n =>
    let h := xpf f (n / 2)
    let s := mul16 h h
    if n % 2 = 1 then xt s else s

theorem xpf_eq (f : Nat) : ∀ n, n < 2 ^ f → xpf f n = xpow n := by
  induction f with
  | zero => intro n hn; have : n = 0 := by simpa using hn
            subst this; rfl
  | succ f ih =>
    intro n hn
    have h2 := ih (n / 2) (by rw [Nat.pow_succ] at hn; omega)
    simp only [xpf, h2, ← xpow_add]
    split
    · rw [← xpow_succ]; congr 1; omega
    · congr 1; omega

end RSV.Proofs.Leo16
