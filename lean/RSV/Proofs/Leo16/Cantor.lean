import RSV.Proofs.LeoField.Cantor
/-!
# Leopard GF(2^16): the Cantor map is an xor-linear bijection of `[0,65536)`

`cm16 = Leo.cantorMap Leo.P16` (bit `k` of the index selects `P16.cantor[k]`).  Its inverse `cmi16` is
the same kind of map for an explicit inverse basis; both composites are the identity on the 16 basis
vectors `2^i` (kernel evaluation), hence on all 16-bit values (`BF.ext_of_basis`).
-/
namespace RSV.Proofs.Leo16
open RSV.Model RSV.Proofs.LeoField

/-- the Cantor map of Leopard's GF(2^16) -/
def cm16 (i : Nat) : Nat := Leo.cantorMap Leo.P16 i

/-- inverse basis: `cm16 (Pinv.cantor[i]) = 2^i` -/
def Pinv : Leo.Params := ⟨16, 0, #[1, 18064, 26072, 25296, 22324, 17904, 21432, 7736, 31918, 20024,
  26376, 49756, 31332, 40620, 4388, 21050]⟩

/-- the inverse Cantor map -/
def cmi16 (v : Nat) : Nat := Leo.cantorMap Pinv v

theorem cm16_xor (i j : Nat) : cm16 (i ^^^ j) = cm16 i ^^^ cm16 j := cantorMap_xor Leo.P16 i j

theorem cmi16_xor (i j : Nat) : cmi16 (i ^^^ j) = cmi16 i ^^^ cmi16 j := cantorMap_xor Pinv i j

theorem cm16_zero : cm16 0 = 0 := cantorMap_zero Leo.P16

theorem cmi16_zero : cmi16 0 = 0 := cantorMap_zero Pinv

theorem cm16_lt (i : Nat) : cm16 i < 65536 := by
  unfold cm16 Leo.cantorMap
  exact cantor_fold_lt Leo.P16.cantor i 16 _ (by decide) 0 (by decide)

theorem cmi16_lt (i : Nat) : cmi16 i < 65536 := by
  unfold cmi16 Leo.cantorMap
  exact cantor_fold_lt Pinv.cantor i 16 _ (by decide) 0 (by decide)

/-- the image of the `i`-th unit vector is the `i`-th Cantor basis constant -/
theorem cm16_two_pow : ∀ i, i < 16 → cm16 (2 ^ i) = Leo.P16.cantor[i]! := by decide +kernel

theorem cm16_cmi16_basis : ∀ i, i < 16 → cm16 (cmi16 (2 ^ i)) = 2 ^ i := by decide +kernel

theorem cmi16_cm16_basis : ∀ i, i < 16 → cmi16 (cm16 (2 ^ i)) = 2 ^ i := by decide +kernel

theorem cm16_cmi16 {v : Nat} (hv : v < 65536) : cm16 (cmi16 v) = v :=
  RSV.BF.ext_of_basis (fun v => cm16 (cmi16 v)) (fun v => v)
    (fun x y => by simp only [cmi16_xor, cm16_xor]) (fun _ _ => rfl) 16 cm16_cmi16_basis v hv

theorem cmi16_cm16 {a : Nat} (ha : a < 65536) : cmi16 (cm16 a) = a :=
  RSV.BF.ext_of_basis (fun v => cmi16 (cm16 v)) (fun v => v)
    (fun x y => by simp only [cmi16_xor, cm16_xor]) (fun _ _ => rfl) 16 cmi16_cm16_basis a ha

theorem cm16_inj {i j : Nat} (hi : i < 65536) (hj : j < 65536) (h : cm16 i = cm16 j) : i = j := by
  rw [← cmi16_cm16 hi, ← cmi16_cm16 hj, h]

theorem cm16_surj {v : Nat} (hv : v < 65536) : ∃ a, a < 65536 ∧ cm16 a = v :=
  ⟨cmi16 v, cmi16_lt v, cm16_cmi16 hv⟩

theorem cm16_one : cm16 1 = 1 := by decide +kernel

theorem cmi16_one : cmi16 1 = 1 := by decide +kernel

theorem cm16_ne_zero {a : Nat} (h0 : a ≠ 0) (ha : a < 65536) : cm16 a ≠ 0 := by
  intro h
  exact h0 (cm16_inj ha (by decide) (h.trans cm16_zero.symm))

theorem cmi16_ne_zero {v : Nat} (h0 : v ≠ 0) (hv : v < 65536) : cmi16 v ≠ 0 := by
  intro h
  apply h0
  rw [← cm16_cmi16 hv, h, cm16_zero]

/-- `j + 2^i = j ^^^ 2^i` below `2^i` -/
theorem add_two_pow_eq_xor {i j : Nat} (hj : j < 2 ^ i) : j + 2 ^ i = j ^^^ 2 ^ i := by
  have h := Nat.two_pow_add_eq_or_of_lt hj 1
  rw [Nat.mul_one] at h
  rw [Nat.add_comm, h]
  apply Nat.eq_of_testBit_eq
  intro k
  rw [Nat.testBit_or, Nat.testBit_xor, Nat.testBit_two_pow]
  by_cases hk : i = k
  · subst hk; rw [Nat.testBit_lt_two_pow hj]; simp
  · simp [hk]

end RSV.Proofs.Leo16
