import RSV.Proofs.Leo16.Iso
import RSV.Model.LeoCert16
import RSV.Proofs.LeoField.Loops
import RSV.Proofs.CodeTheory
import Mathlib.Algebra.BigOperators.Fin
/-!
# The MDS certificate for Leopard GF(2^16) generators

The 16-bit mirror of the last part of `RSV/Proofs/LeoField.lean`:

* `ofNat_cm16`: the entry map `GF65536.ofNat ∘ cantorMap P16` of `Leo.mapMatrix16` is `toGF16`;
* `toGF16_leoDot`: a parity equation computed in Leopard's arithmetic (`leoMul C16`, xor) is the
  `GF65536` equation of the images;
* `leoX16_inj`, `leoY16_inj`, `leoX16_ne_leoY16`: the evaluation points are pairwise distinct
  (injectivity of the Cantor map on `[0,65536)`);
* `leo16Cert_sound`: a generator accepted by the executable certificate `Leo.leo16Cert` (which runs on
  the core carrier of `RSV/Model/GF65536.lean`, whose operations are definitionally those of the
  `Field` instance) is MDS.
-/
namespace RSV.Proofs.Leo16
open RSV RSV.Model

/-- the entry map of `Leo.mapMatrix16`, `Leo.leoX16`, `Leo.leoY16` is `toGF16` -/
theorem ofNat_cm16 (a : Nat) : GF65536.ofNat (Leo.cantorMap Leo.P16 a) = toGF16 a :=
  GF65536.ext (Nat.mod_eq_of_lt (cm16_lt a))

/-! ## transport of parity equations -/

/-- xor-sum of Leopard GF(2^16) products over a list of positions -/
def leoDot16 {ι : Type} (l : List ι) (g t : ι → Nat) : Nat :=
  l.foldl (fun acc c => acc ^^^ Leo.leoMul C16 (g c) (t c)) 0

theorem toGF16_fold {ι : Type} (l : List ι) (g t : ι → Nat) (hg : ∀ c, g c < 65536)
    (ht : ∀ c, t c < 65536) : ∀ acc,
    toGF16 (l.foldl (fun acc c => acc ^^^ Leo.leoMul C16 (g c) (t c)) acc) =
      toGF16 acc + (l.map fun c => toGF16 (g c) * toGF16 (t c)).sum := by
  induction l with
  | nil => intro acc; simp
  | cons x l ih =>
    intro acc
    simp only [List.foldl_cons, List.map_cons, List.sum_cons]
    rw [ih, toGF16_xor, toGF16_leoMul (hg x) (ht x), add_assoc]

/-- a parity equation computed in Leopard's arithmetic is the `GF65536` equation of the images -/
theorem toGF16_leoDot {d : ℕ} (g t : Fin d → Nat) (hg : ∀ c, g c < 65536)
    (ht : ∀ c, t c < 65536) :
    toGF16 (leoDot16 (List.finRange d) g t) = ∑ c, toGF16 (g c) * toGF16 (t c) := by
  unfold leoDot16
  rw [toGF16_fold _ g t hg ht, toGF16_zero, zero_add, Fin.sum_univ_def]

/-! ## the evaluation points -/

theorem leoY16_inj {d m : ℕ} (h : d + m ≤ 65536) : Function.Injective (Leo.leoY16 d m) := by
  intro a b hab
  have hab' : toGF16 (m + a.val) = toGF16 (m + b.val) := by
    rw [← ofNat_cm16, ← ofNat_cm16]; exact hab
  have := toGF16_inj (a := m + a.val) (b := m + b.val) (by omega) (by omega) hab'
  exact Fin.ext (by omega)

theorem leoX16_inj {p : ℕ} (h : p ≤ 65536) : Function.Injective (Leo.leoX16 p) := by
  intro a b hab
  have hab' : toGF16 a.val = toGF16 b.val := by
    rw [← ofNat_cm16, ← ofNat_cm16]; exact Option.some.inj hab
  have := toGF16_inj (a := a.val) (b := b.val) (by omega) (by omega) hab'
  exact Fin.ext this

theorem leoX16_ne_leoY16 {d p m : ℕ} (hpm : p ≤ m) (h : d + m ≤ 65536) (r : Fin p) (c : Fin d) :
    Leo.leoX16 p r ≠ some (Leo.leoY16 d m c) := by
  intro hab
  have hab' : toGF16 r.val = toGF16 (m + c.val) := by
    rw [← ofNat_cm16, ← ofNat_cm16]; exact Option.some.inj hab
  have := toGF16_inj (a := r.val) (b := m + c.val) (by omega) (by omega) hab'
  omega

theorem le_ceilPow2_16 {p : Nat} (h : Leo.ceilPow2 p ≤ 65536) : p ≤ Leo.ceilPow2 p := by
  rcases RSV.Proofs.LeoField.ceilPow2_spec p with h1 | h1
  · exact h1
  · rw [h1] at h; omega

/-! ## soundness of the certificate -/

theorem leo16Cert_sound (d p : ℕ) (G : Array (Array ℕ)) (h : d + Leo.ceilPow2 p ≤ 65536)
    (hc : Leo.leo16Cert d p G = true) :
    RSV.CodeTheory.MDS
      (fun (r : Fin p) (c : Fin d) => (Leo.mapMatrix16 (p := p) (d := d) G).get r c) := by
  have hpm : p ≤ Leo.ceilPow2 p := le_ceilPow2_16 (by omega)
  unfold Leo.leo16Cert at hc
  split at hc
  · cases hc
  split at hc
  · cases hc
  exact RSV.CodeTheory.certGC_sound' _ (Leo.leoX16 p) (Leo.leoY16 d (Leo.ceilPow2 p)) _ _ hc
    (leoY16_inj h) (leoX16_inj (by omega)) (leoX16_ne_leoY16 hpm h)

/-- an accepted generator has no zero entry -/
theorem leo16Cert_entries_ne_zero (d p : ℕ) (G : Array (Array ℕ))
    (hc : Leo.leo16Cert d p G = true) (r : Fin p) (c : Fin d) :
    (Leo.mapMatrix16 (p := p) (d := d) G).get r c ≠ 0 := by
  unfold Leo.leo16Cert at hc
  split at hc
  · cases hc
  split at hc
  · cases hc
  exact RSV.CodeTheory.certGC_entries_ne_zero _ (Leo.leoX16 p) (Leo.leoY16 d (Leo.ceilPow2 p)) _ _
    hc r c

end RSV.Proofs.Leo16
