import RSV.Proofs.Leo16.Order
import RSV.Model.GF65536
import Mathlib.Algebra.Field.Defs
import Mathlib.Algebra.CharP.Defs
import Mathlib.Algebra.CharP.Two
import Mathlib.Algebra.GroupWithZero.Basic
/-!
# `GF65536`: GF(2)[x]/(0x1002D) is a field (Mathlib `Field`), of characteristic 2

The carrier and its operations are the CORE ones of `RSV/Model/GF65536.lean` (naturals below 65536;
`+ = - = xor`, `neg = id`, `* = gmul16 = BF.pmul 16 0x1002D`, `a⁻¹ = ginv16 a`, i.e. `a^65534` by
square-and-multiply); the operations of the `Field` instance are *definitionally* those.  As for `GF256` the ring axioms come from
xor-linearity and `BF.ext_of_basis` (256 basis cases for commutativity by kernel evaluation;
associativity structurally from `mul16_xt`).  The inverse law is NOT checked by enumeration: every non-zero element is a power
of `x` (`xpow_surj`) and `x^65535 = 1`, so `a^65535 = 1`.
-/
namespace RSV.Proofs.Leo16
open RSV.BF

/-! ## ring laws of `mul16` on naturals -/

theorem mul16_comm_basis :
    ∀ i, i < 16 → ∀ j, j < 16 → mul16 (2^i) (2^j) = mul16 (2^j) (2^i) := by
  decide +kernel

theorem mul16_comm {a b : Nat} (ha : a < 65536) (hb : b < 65536) : mul16 a b = mul16 b a := by
  refine ext_of_basis (fun a => mul16 a b) (fun a => mul16 b a)
    (fun x y => mul16_xor_left x y b) (fun x y => mul16_xor_right b x y) 16 ?_ a ha
  intro i hi
  exact ext_of_basis (fun b => mul16 (2^i) b) (fun b => mul16 b (2^i))
    (fun x y => mul16_xor_right (2^i) x y) (fun x y => mul16_xor_left x y (2^i)) 16
    (fun j hj => mul16_comm_basis i hi j hj) b hb

theorem mul16_xt_iter {a b : Nat} (ha : a < 65536) (hb : b < 65536) (k : Nat) :
    mul16 a (xt^[k] b) = xt^[k] (mul16 a b) := by
  induction k with
  | zero => rfl
  | succ k ih =>
    rw [Function.iterate_succ_apply', Function.iterate_succ_apply', mul16_xt ha (xt_iter_lt hb k), ih]

theorem two_pow_eq_xpow : ∀ k, k < 16 → 2 ^ k = xpow k := by decide +kernel

/-- associativity: structural, from `a · (x b) = x (a · b)` (`mul16_xt`) on the basis `x^k` of the
third factor -/
theorem mul16_assoc {a b c : Nat} (ha : a < 65536) (hb : b < 65536) (hc : c < 65536) :
    mul16 (mul16 a b) c = mul16 a (mul16 b c) := by
  refine ext_of_basis (fun c => mul16 (mul16 a b) c) (fun c => mul16 a (mul16 b c))
    (fun x y => by simp only [mul16_xor_right]) (fun x y => by simp only [mul16_xor_right]) 16
    ?_ c hc
  intro k hk
  show mul16 (mul16 a b) (2 ^ k) = mul16 a (mul16 b (2 ^ k))
  rw [two_pow_eq_xpow k hk, mul16_xpow (mul16_lt ha b) k, mul16_xpow hb k, mul16_xt_iter ha hb k]

theorem mul16_one_left {b : Nat} (hb : b < 65536) : mul16 1 b = b := by
  rw [mul16_comm (by decide) hb, mul16_one_right]

/-- the product of the core carrier `RSV/Model/GF65536.lean` is `mul16` -/
theorem gmul16_eq (a b : Nat) : gmul16 a b = mul16 a b := rfl

end RSV.Proofs.Leo16

namespace RSV.GF65536
open RSV.BF RSV.Proofs.Leo16

theorem add_self (a : GF65536) : a + a = 0 := by
  apply GF65536.ext; simp

theorem sub_eq_add (a b : GF65536) : a - b = a + b := rfl

theorem neg_eq (a : GF65536) : -a = a := rfl

instance instCommRing : CommRing GF65536 where
  add := (· + ·)
  add_assoc a b c := by apply GF65536.ext; simp [Nat.xor_assoc]
  zero := 0
  zero_add a := by apply GF65536.ext; simp
  add_zero a := by apply GF65536.ext; simp
  nsmul := nsmulRec
  neg := Neg.neg
  sub := (· - ·)
  sub_eq_add_neg _ _ := rfl
  zsmul := zsmulRec
  neg_add_cancel a := add_self a
  add_comm a b := by apply GF65536.ext; simp [Nat.xor_comm]
  mul := (· * ·)
  left_distrib a b c := by apply GF65536.ext; simp [gmul16_eq, mul16_xor_right]
  right_distrib a b c := by apply GF65536.ext; simp [gmul16_eq, mul16_xor_left]
  zero_mul a := by apply GF65536.ext; simp [gmul16_eq, mul16_zero_left]
  mul_zero a := by apply GF65536.ext; simp [gmul16_eq, mul16_zero_right]
  mul_assoc a b c := by apply GF65536.ext; simp [gmul16_eq, mul16_assoc a.isLt b.isLt c.isLt]
  one := 1
  one_mul a := by apply GF65536.ext; simp [gmul16_eq, mul16_one_left a.isLt]
  mul_one a := by apply GF65536.ext; simp [gmul16_eq, mul16_one_right]
  npow n a := GF65536.pow a n
  npow_zero _ := rfl
  npow_succ _ _ := rfl
  mul_comm a b := by apply GF65536.ext; simp [gmul16_eq, mul16_comm a.isLt b.isLt]

/-! ## powers -/

theorem pow_eq (a : GF65536) (n : ℕ) : GF65536.pow a n = a ^ n := rfl

theorem pow_val (a : GF65536) (n : ℕ) : (a ^ n).val = ppow 16 poly16 a.val n := by
  induction n with
  | zero => rfl
  | succ n ih => rw [pow_succ, mul_val, ih]; rfl

/-- square-and-multiply is the monoid power -/
theorem gpowSq16_eq (a : GF65536) (f : ℕ) : ∀ n, n < 2 ^ f → gpowSq16 a.val f n = (a ^ n).val := by
  induction f with
  | zero => intro n hn; have : n = 0 := by simpa using hn
            subst this; rfl
  | succ f ih =>
    intro n hn
    have h2 := ih (n / 2) (by rw [Nat.pow_succ] at hn; omega)
    simp only [gpowSq16, h2]
    split
    · have : n = n / 2 + n / 2 + 1 := by omega
      conv => rhs; rw [this, pow_succ, pow_add]
      rfl
    · have : n = n / 2 + n / 2 := by omega
      conv => rhs; rw [this, pow_add]
      rfl

/-- `⁻¹` is the 65534th power -/
theorem inv_eq_pow (a : GF65536) : a⁻¹ = a ^ 65534 :=
  GF65536.ext (by rw [inv_val, ginv16, gpowSq16_eq a 16 65534 (by decide)])

/-- the class of `x` -/
def X : GF65536 := ⟨2, by decide⟩

theorem X_pow_val (k : ℕ) : (X ^ k).val = xpow k := by
  induction k with
  | zero => rfl
  | succ k ih =>
    rw [pow_succ, mul_val, ih, xpow_succ]
    exact mul16_two (xpow_lt k)

theorem X_pow_65535 : X ^ 65535 = 1 := GF65536.ext (by rw [X_pow_val, xpow_65535]; rfl)

/-- `x` generates the multiplicative group -/
theorem exists_X_pow {a : GF65536} (h : a ≠ 0) : ∃ k, k < 65535 ∧ a = X ^ k := by
  have h0 : a.val ≠ 0 := fun h' => h (GF65536.ext h')
  obtain ⟨k, hk, hx⟩ := xpow_surj h0 a.isLt
  exact ⟨k, hk, GF65536.ext (by rw [X_pow_val, hx])⟩

theorem pow_65535 {a : GF65536} (h : a ≠ 0) : a ^ 65535 = 1 := by
  obtain ⟨k, _, rfl⟩ := exists_X_pow h
  rw [← pow_mul, Nat.mul_comm, pow_mul, X_pow_65535, one_pow]

theorem mul_inv_cancel' {a : GF65536} (h : a ≠ 0) : a * a⁻¹ = 1 := by
  rw [inv_eq_pow, ← pow_succ', pow_65535 h]

theorem inv_zero' : (0 : GF65536)⁻¹ = 0 := by
  rw [inv_eq_pow]; exact zero_pow (by decide)

instance instField : Field GF65536 where
  __ := instCommRing
  inv := Inv.inv
  div := (· / ·)
  div_eq_mul_inv _ _ := rfl
  exists_pair_ne := ⟨0, 1, by decide⟩
  mul_inv_cancel a ha := mul_inv_cancel' ha
  inv_zero := inv_zero'
  nnqsmul := _
  nnqsmul_def := fun _ _ => rfl
  qsmul := _
  qsmul_def := fun _ _ => rfl

/-! the operations of the `Field` instance are the core ones, by `rfl` -/
example (a b : GF65536) :
    (HAdd.hAdd (self := @instHAdd _ instField.toAdd) a b).val = a.val ^^^ b.val := rfl
example (a b : GF65536) :
    (HSub.hSub (self := @instHSub _ instField.toSub) a b).val = a.val ^^^ b.val := rfl
example (a b : GF65536) :
    (HMul.hMul (self := @instHMul _ instField.toMul) a b).val = pmul 16 0x1002D a.val b.val := rfl
example (a : GF65536) : (@Inv.inv _ instField.toInv a).val = ginv16 a.val := rfl
example (a b : GF65536) : (HDiv.hDiv (self := @instHDiv _ instField.toDiv) a b).val
    = gmul16 a.val (ginv16 b.val) := rfl
example (a : GF65536) : (@Neg.neg _ instField.toNeg a) = a := rfl
example : (@Zero.zero _ instField.toZero : GF65536).val = 0 := rfl
example : (@One.one _ instField.toOne : GF65536).val = 1 := rfl

instance instCharP : CharP GF65536 2 :=
  CharTwo.of_one_ne_zero_of_two_eq_zero (by decide) (by
    show ((2 : ℕ) : GF65536) = 0
    rw [Nat.cast_ofNat, ← one_add_one_eq_two]; exact add_self 1)

end RSV.GF65536
