import RSV.Proofs.Leo16.Mul
import RSV.Proofs.Leo16.Field
/-!
# Leopard's GF(2^16) is `GF65536` through the Cantor map

* `log16_spec`, `exp16_log`, `log16_exp`, `cm16_exp`: `log` is the discrete logarithm to base `x` of the
  Cantor image, `exp` its inverse;
* `xpow_eq_ppow`: `xpow k` is `BF.ppow 16 0x1002D 2 k`;
* `cm16_leoMul`: the log/exp product of two symbols is the field product under the Cantor map;
* `toGF16`: the Cantor map into `GF65536` is an injective ring homomorphism.
-/
namespace RSV.Proofs.Leo16
open RSV.Model RSV.BF

/-! ## log / exp -/

theorem log16_spec {a : Nat} (h0 : a ≠ 0) (ha : a < 65536) : xpow (T16.log[a]!) = cm16 a := by
  rw [log16_get ha]; exact xpow_dlog (cm16_ne_zero h0 ha) (cm16_lt a)

theorem log16_lt {a : Nat} (h0 : a ≠ 0) (ha : a < 65536) : T16.log[a]! < 65535 := by
  rw [log16_get ha]; exact dlog_lt (cm16_ne_zero h0 ha) (cm16_lt a)

theorem log16_zero : T16.log[0]! = 65535 := by
  rw [log16_get (by decide), cm16_zero, dlog_zero]

theorem log16_le {a : Nat} (ha : a < 65536) : T16.log[a]! ≤ 65535 := by
  by_cases h0 : a = 0
  · rw [h0, log16_zero]
  · exact Nat.le_of_lt (log16_lt h0 ha)

theorem cm16_exp {k : Nat} (hk : k ≤ 65535) : cm16 (T16.exp[k]!) = xpow k := by
  rw [exp16_get hk, cm16_cmi16 (xpow_lt k)]

theorem exp16_65535 : T16.exp[65535]! = T16.exp[0]! := by
  rw [exp16_get (Nat.le_refl _), exp16_get (by decide), xpow_65535, xpow_zero]

theorem exp16_zero : T16.exp[0]! = 1 := by
  rw [exp16_get (by decide), xpow_zero, cmi16_one]

theorem exp16_ne_zero {k : Nat} (hk : k ≤ 65535) : T16.exp[k]! ≠ 0 := by
  rw [exp16_get hk]; exact cmi16_ne_zero (xpow_ne_zero k) (xpow_lt k)

theorem exp16_log {a : Nat} (h0 : a ≠ 0) (ha : a < 65536) : T16.exp[T16.log[a]!]! = a := by
  rw [exp16_get (log16_le ha), log16_spec h0 ha, cmi16_cm16 ha]

/-- the one exception: `exp[log[0]] = exp[65535] = exp[0] = 1 ≠ 0` -/
theorem exp16_log_zero : T16.exp[T16.log[0]!]! = 1 := by
  rw [log16_zero, exp16_65535, exp16_zero]

theorem log16_exp {k : Nat} (hk : k < 65535) : T16.log[T16.exp[k]!]! = k := by
  rw [exp16_get (by omega), log16_get (cmi16_lt _), cm16_cmi16 (xpow_lt k), dlog_xpow hk]

/-! ## `xpow` in terms of the specification's `ppow` -/

theorem ppow_two_lt (k : Nat) : ppow 16 poly16 2 k < 65536 := by
  induction k with
  | zero => show 1 < 65536; decide
  | succ k ih => exact mul16_lt ih 2

theorem xpow_eq_ppow (k : Nat) : xpow k = ppow 16 0x1002D 2 k := by
  induction k with
  | zero => rfl
  | succ k ih =>
    rw [xpow_succ, ih]
    exact (mul16_two (ppow_two_lt k)).symm

/-! ## the product of two symbols -/

theorem leoMul16_lt (a b : Nat) : Leo.leoMul C16 a b < 65536 := by
  unfold Leo.leoMul
  split
  · decide
  · exact exp16_lt (by have := addMod16_lt T16.log[a]! T16.log[b]!; exact Nat.le_of_lt_succ this)

theorem leoMul16_eq_mulLog {a b : Nat} (hb : b ≠ 0) :
    Leo.leoMul C16 a b = Leo.mulLog Leo.P16 T16 a (T16.log[b]!) := by
  unfold Leo.leoMul Leo.mulLog
  by_cases ha : a = 0
  · simp [ha]
  · simp only [ha, hb, decide_false, Bool.or_self, Bool.false_eq_true, if_false]; rfl

/-- Leopard's product is GF(2^16)/0x1002D multiplication under the Cantor map -/
theorem cm16_leoMul {a b : Nat} (ha : a < 65536) (hb : b < 65536) :
    cm16 (Leo.leoMul C16 a b) = mul16 (cm16 a) (cm16 b) := by
  by_cases hb0 : b = 0
  · subst hb0
    have : Leo.leoMul C16 a 0 = 0 := by simp [Leo.leoMul]
    rw [this, cm16_zero, mul16_zero_right]
  · rw [leoMul16_eq_mulLog hb0, cm16_mulLog ha (by have := log16_lt hb0 hb; omega),
      log16_spec hb0 hb]

/-! ## the ring homomorphism -/

/-- Leopard GF(2^16) symbol ↦ `GF65536` element -/
def toGF16 (a : Nat) : GF65536 := ⟨cm16 a, cm16_lt a⟩

theorem toGF16_val (a : Nat) : (toGF16 a).val = cm16 a := rfl

theorem toGF16_inj {a b : Nat} (ha : a < 65536) (hb : b < 65536) (h : toGF16 a = toGF16 b) : a = b :=
  cm16_inj ha hb (congrArg GF65536.val h)

theorem toGF16_surj (y : GF65536) : ∃ a, a < 65536 ∧ toGF16 a = y :=
  ⟨cmi16 y.val, cmi16_lt _, GF65536.ext (cm16_cmi16 y.isLt)⟩

theorem toGF16_xor (a b : Nat) : toGF16 (a ^^^ b) = toGF16 a + toGF16 b :=
  GF65536.ext (cm16_xor a b)

theorem toGF16_zero : toGF16 0 = 0 := GF65536.ext cm16_zero

theorem toGF16_one : toGF16 1 = 1 := GF65536.ext cm16_one

theorem toGF16_leoMul {a b : Nat} (ha : a < 65536) (hb : b < 65536) :
    toGF16 (Leo.leoMul C16 a b) = toGF16 a * toGF16 b :=
  GF65536.ext (cm16_leoMul ha hb)

/-- `mulSym a log_m` is multiplication by `x^log_m` in `GF65536` -/
theorem toGF16_mulSym {a m : Nat} (ha : a < 65536) (hm : m < 65536) :
    toGF16 (Leo.mulSym C16 a m) = toGF16 a * GF65536.X ^ m :=
  GF65536.ext (by
    rw [GF65536.mul_val, GF65536.X_pow_val, toGF16_val, toGF16_val, cm16_mulSym ha hm,
      gmul16_eq])

theorem mulSym16_65535 {a : Nat} (ha : a < 65536) : Leo.mulSym C16 a 65535 = a := by
  apply cm16_inj (mulLog16_lt _ _) ha
  rw [cm16_mulLog ha (by decide), xpow_65535, mul16_one_right]

/-! ## field identities of Leopard's product (transported along `toGF16`) -/

theorem toGF16_eq_zero {a : Nat} (ha : a < 65536) : toGF16 a = 0 ↔ a = 0 :=
  ⟨fun h => toGF16_inj ha (by decide) (h.trans toGF16_zero.symm), fun h => by rw [h, toGF16_zero]⟩

theorem leoMul16_comm {a b : Nat} (ha : a < 65536) (hb : b < 65536) :
    Leo.leoMul C16 a b = Leo.leoMul C16 b a :=
  toGF16_inj (leoMul16_lt _ _) (leoMul16_lt _ _)
    (by rw [toGF16_leoMul ha hb, toGF16_leoMul hb ha, mul_comm])

theorem leoMul16_assoc {a b c : Nat} (ha : a < 65536) (hb : b < 65536) (hc : c < 65536) :
    Leo.leoMul C16 (Leo.leoMul C16 a b) c = Leo.leoMul C16 a (Leo.leoMul C16 b c) :=
  toGF16_inj (leoMul16_lt _ _) (leoMul16_lt _ _)
    (by rw [toGF16_leoMul (leoMul16_lt _ _) hc, toGF16_leoMul ha hb,
      toGF16_leoMul ha (leoMul16_lt _ _), toGF16_leoMul hb hc, mul_assoc])

theorem leoMul16_xor_right {a b c : Nat} (ha : a < 65536) (hb : b < 65536) (hc : c < 65536) :
    Leo.leoMul C16 a (b ^^^ c) = Leo.leoMul C16 a b ^^^ Leo.leoMul C16 a c :=
  toGF16_inj (leoMul16_lt _ _) (Nat.xor_lt_two_pow (n := 16) (leoMul16_lt _ _) (leoMul16_lt _ _))
    (by rw [toGF16_leoMul ha (Nat.xor_lt_two_pow (n := 16) hb hc), toGF16_xor, toGF16_xor,
      toGF16_leoMul ha hb, toGF16_leoMul ha hc, mul_add])

theorem leoMul16_xor_left {a b c : Nat} (ha : a < 65536) (hb : b < 65536) (hc : c < 65536) :
    Leo.leoMul C16 (a ^^^ b) c = Leo.leoMul C16 a c ^^^ Leo.leoMul C16 b c :=
  toGF16_inj (leoMul16_lt _ _) (Nat.xor_lt_two_pow (n := 16) (leoMul16_lt _ _) (leoMul16_lt _ _))
    (by rw [toGF16_leoMul (Nat.xor_lt_two_pow (n := 16) ha hb) hc, toGF16_xor, toGF16_xor,
      toGF16_leoMul ha hc, toGF16_leoMul hb hc, add_mul])

theorem leoMul16_one {a : Nat} (ha : a < 65536) : Leo.leoMul C16 a 1 = a :=
  toGF16_inj (leoMul16_lt _ _) ha (by rw [toGF16_leoMul ha (by decide), toGF16_one, mul_one])

theorem one_leoMul16 {a : Nat} (ha : a < 65536) : Leo.leoMul C16 1 a = a := by
  rw [leoMul16_comm (by decide) ha, leoMul16_one ha]

theorem leoMul16_eq_zero {a b : Nat} (ha : a < 65536) (hb : b < 65536) :
    Leo.leoMul C16 a b = 0 ↔ a = 0 ∨ b = 0 := by
  rw [← toGF16_eq_zero (leoMul16_lt a b), toGF16_leoMul ha hb, mul_eq_zero, toGF16_eq_zero ha,
    toGF16_eq_zero hb]

/-- `exp[65535 - log[a]]` is the inverse of `a ≠ 0` -/
theorem leoMul16_inv {a : Nat} (ha : a < 65536) (h0 : a ≠ 0) :
    Leo.leoMul C16 a (T16.exp[65535 - T16.log[a]!]!) = 1 := by
  have hl := log16_lt h0 ha
  have hk : 65535 - T16.log[a]! ≤ 65535 := Nat.sub_le _ _
  apply cm16_inj (leoMul16_lt _ _) (by decide)
  rw [cm16_leoMul ha (exp16_lt hk), cm16_exp hk, ← log16_spec h0 ha, ← xpow_add, cm16_one,
    show T16.log[a]! + (65535 - T16.log[a]!) = 65535 by omega, xpow_65535]

end RSV.Proofs.Leo16
