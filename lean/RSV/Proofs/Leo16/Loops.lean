import RSV.Model.LeoTables
import Mathlib.Logic.Function.Iterate
/-!
# `initLUTs P` as folds, and the generic loop invariants (any parameters)

* `initLUTs_eq`: the `Id.run do` block of `Leo.initLUTs P` is, literally, a composition of five
  `List.foldl`s over `List.range'` (`lfsr`, `exp1`, `log2`, `log3`, `exp4`);
* `lfsr_fold`: the LFSR loop threads the state independently of the table: it is a fold of
  `set! (step^[i] 1) i`;
* `foldl_setg_*`: a fold of `set! (g i) (h i)`: untouched positions keep their value, a position
  written once holds that value;
* `foldl_map_get`: `for i in [0:n] do b := b.set! i (F b[i]!)` is a pointwise map on `[0,n)`;
* `cantor_loop`: the doubling loop computes any function `cm` with `cm 0 = 0` and
  `cm (j + 2^i) = cm j ^^^ cb[i]` (`j < 2^i`).
-/
namespace RSV.Proofs.Leo16
open RSV.Model

/-! ## `set!` -/

theorem get_set_ne (b : Array Nat) {i j : Nat} (v : Nat) (h : i ≠ j) : (b.set! i v)[j]! = b[j]! := by
  simp [Array.getElem!_eq_getD, Array.getD_eq_getD_getElem?, h]

theorem get_set_eq (b : Array Nat) {i : Nat} (v : Nat) (h : i < b.size) : (b.set! i v)[i]! = v := by
  simp [h]

theorem get_replicate (n v i : Nat) (h : i < n) : (Array.replicate n v)[i]! = v := by
  simp [h]

/-! ## the model as folds -/

/-- one LFSR step of `initLUTs` -/
def step (P : Leo.Params) (s : Nat) : Nat :=
  if s <<< 1 ≥ P.order then s <<< 1 ^^^ P.poly else s <<< 1

/-- loop 1 (table and final state) -/
def lfsr (P : Leo.Params) : Array Nat × Nat :=
  (List.range' 0 P.modulus).foldl (fun s i => (s.1.set! s.2 i, step P s.2))
    (Array.replicate P.order 0, 1)

/-- `exp` after loop 1 and `exp[0] = modulus` -/
def exp1 (P : Leo.Params) : Array Nat := (lfsr P).1.set! 0 P.modulus

/-- `log` after the Cantor doubling loop -/
def log2 (P : Leo.Params) : Array Nat :=
  (List.range' 0 P.bits).foldl (fun b a =>
    (List.range' 0 (1 <<< a)).foldl (fun b j => b.set! (j + 1 <<< a) (b[j]! ^^^ P.cantor[a]!)) b)
    (Array.replicate P.order 0)

/-- `log` after `log[i] := exp[log[i]]` (the final `log`) -/
def log3 (P : Leo.Params) : Array Nat :=
  (List.range' 0 P.order).foldl (fun b a => b.set! a (exp1 P)[b[a]!]!) (log2 P)

/-- `exp` after `exp[log[i]] := i` -/
def exp4 (P : Leo.Params) : Array Nat :=
  (List.range' 0 P.order).foldl (fun b a => b.set! (log3 P)[a]! a) (exp1 P)

/-- the final `exp` -/
def exp5 (P : Leo.Params) : Array Nat := (exp4 P).set! P.modulus (exp4 P)[0]!

theorem initLUTs_eq (P : Leo.Params) : Leo.initLUTs P = ⟨log3 P, exp5 P⟩ := by
  unfold Leo.initLUTs
  have hf : (fun (i : Nat) (s : Array Nat × Nat) =>
      (if s.snd <<< 1 ≥ P.order then
        pure (ForInStep.yield (s.fst.set! s.snd i, s.snd <<< 1 ^^^ P.poly))
      else pure (ForInStep.yield (s.fst.set! s.snd i, s.snd <<< 1)) :
        Id (ForInStep (Array Nat × Nat)))) =
      fun i s => pure (ForInStep.yield (s.fst.set! s.snd i, step P s.snd)) := by
    funext i s; unfold step; split <;> rfl
  simp only [Std.Legacy.Range.forIn_eq_forIn_range', Std.Legacy.Range.size, hf,
    List.forIn_pure_yield_eq_foldl, pure_bind, Id.run_pure, Nat.sub_zero,
    Nat.add_one_sub_one, Nat.div_one]
  rfl

/-! ## loop 1: the state does not depend on the table -/

theorem lfsr_fold (f : Nat → Nat) (e0 : Array Nat) (s0 : Nat) (n : Nat) :
    (List.range' 0 n).foldl (fun (s : Array Nat × Nat) i => (s.1.set! s.2 i, f s.2)) (e0, s0) =
      ((List.range' 0 n).foldl (fun e i => e.set! (f^[i] s0) i) e0, f^[n] s0) := by
  induction n with
  | zero => rfl
  | succ n ih =>
    rw [List.range'_1_concat, List.foldl_append, List.foldl_append, ih]
    simp only [List.foldl_cons, List.foldl_nil, Nat.zero_add, Function.iterate_succ_apply']

/-! ## folds of `set! (g i) (h i)` -/

theorem foldl_setg_size (g h : Nat → Nat) (l : List Nat) : ∀ t : Array Nat,
    (l.foldl (fun b x => b.set! (g x) (h x)) t).size = t.size := by
  induction l with
  | nil => intro t; rfl
  | cons y l ih => intro t; simp only [List.foldl_cons]; rw [ih]; simp

theorem foldl_setg_skip (g h : Nat → Nat) (j : Nat) (l : List Nat) (hj : ∀ x ∈ l, g x ≠ j) :
    ∀ t : Array Nat, (l.foldl (fun b x => b.set! (g x) (h x)) t)[j]! = t[j]! := by
  induction l with
  | nil => intro t; rfl
  | cons y l ih =>
    intro t
    simp only [List.foldl_cons]
    rw [ih (fun x hx => hj x (List.mem_cons_of_mem _ hx))]
    exact get_set_ne t _ (hj y List.mem_cons_self)

/-- a position all of whose writers agree on the value `h x` holds `h x` -/
theorem foldl_setg_hit (g h : Nat → Nat) (l : List Nat) : ∀ (x : Nat), x ∈ l →
    (∀ y ∈ l, g y = g x → h y = h x) → ∀ t : Array Nat, g x < t.size →
    (l.foldl (fun b x => b.set! (g x) (h x)) t)[g x]! = h x := by
  induction l with
  | nil => intro x hx; cases hx
  | cons y l ih =>
    intro x hx huniq t ht
    simp only [List.foldl_cons]
    by_cases hyl : ∃ z ∈ l, g z = g x
    · obtain ⟨z, hz, hgz⟩ := hyl
      have hhz := huniq z (List.mem_cons_of_mem _ hz) hgz
      have := ih z hz (fun w hw hgw => by
          rw [huniq w (List.mem_cons_of_mem _ hw) (hgw.trans hgz), hhz]) (t.set! (g y) (h y))
          (by rw [hgz]; simpa using ht)
      rw [hgz, hhz] at this
      exact this
    · have hxy : x = y := by
        rcases List.mem_cons.mp hx with h' | h'
        · exact h'
        · exact absurd ⟨x, h', rfl⟩ hyl
      subst hxy
      rw [foldl_setg_skip g h (g x) l (fun z hz hgz => hyl ⟨z, hz, hgz⟩)]
      exact get_set_eq t _ ht

/-! ## loop 3: a pointwise map -/

theorem foldl_map_get (F : Nat → Nat) (b0 : Array Nat) (n : Nat) (hn : n ≤ b0.size) :
    ((List.range' 0 n).foldl (fun b a => b.set! a (F b[a]!)) b0).size = b0.size ∧
    ∀ i, ((List.range' 0 n).foldl (fun b a => b.set! a (F b[a]!)) b0)[i]! =
      if i < n then F b0[i]! else b0[i]! := by
  induction n with
  | zero => exact ⟨rfl, fun i => by simp⟩
  | succ n ih =>
    obtain ⟨hs, hg⟩ := ih (by omega)
    rw [List.range'_1_concat, List.foldl_append]
    simp only [List.foldl_cons, List.foldl_nil, Nat.zero_add]
    refine ⟨by simpa using hs, fun i => ?_⟩
    by_cases hin : n = i
    · subst hin
      rw [get_set_eq _ _ (by omega), hg, if_neg (by omega), if_pos (by omega)]
    · rw [get_set_ne _ _ hin, hg]
      by_cases h1 : i < n
      · rw [if_pos h1, if_pos (by omega)]
      · rw [if_neg h1, if_neg (by omega)]

/-! ## loop 2: Cantor doubling -/

theorem cantor_inner (c w : Nat) (b0 : Array Nat) (m : Nat) (hm : m ≤ w) (hb : w + m ≤ b0.size) :
    ((List.range' 0 m).foldl (fun b j => b.set! (j + w) (b[j]! ^^^ c)) b0).size = b0.size ∧
    ∀ i, ((List.range' 0 m).foldl (fun b j => b.set! (j + w) (b[j]! ^^^ c)) b0)[i]! =
      if w ≤ i ∧ i < w + m then b0[i - w]! ^^^ c else b0[i]! := by
  induction m with
  | zero => exact ⟨rfl, fun i => by rw [if_neg (by omega)]; rfl⟩
  | succ m ih =>
    obtain ⟨hs, hg⟩ := ih (by omega) (by omega)
    rw [List.range'_1_concat, List.foldl_append]
    simp only [List.foldl_cons, List.foldl_nil, Nat.zero_add]
    refine ⟨by simpa using hs, fun i => ?_⟩
    by_cases hin : m + w = i
    · subst hin
      rw [get_set_eq _ _ (by omega), hg m, if_neg (by omega), if_pos (by omega)]
      congr 2; omega
    · rw [get_set_ne _ _ hin, hg]
      by_cases h1 : w ≤ i ∧ i < w + m
      · rw [if_pos h1, if_pos (by omega)]
      · rw [if_neg h1, if_neg (by omega)]

theorem cantor_loop (cb : Array Nat) (cm : Nat → Nat) (N bits : Nat) (hN : 2 ^ bits ≤ N)
    (h0 : cm 0 = 0) (hs : ∀ i, i < bits → ∀ j, j < 2 ^ i → cm (j + 2 ^ i) = cm j ^^^ cb[i]!) :
    ∀ n, n ≤ bits →
      ((List.range' 0 n).foldl (fun b a =>
        (List.range' 0 (1 <<< a)).foldl (fun b j => b.set! (j + 1 <<< a) (b[j]! ^^^ cb[a]!)) b)
        (Array.replicate N 0)).size = N ∧
      ∀ j, j < 2 ^ n → ((List.range' 0 n).foldl (fun b a =>
        (List.range' 0 (1 <<< a)).foldl (fun b j => b.set! (j + 1 <<< a) (b[j]! ^^^ cb[a]!)) b)
        (Array.replicate N 0))[j]! = cm j := by
  intro n
  induction n with
  | zero =>
    intro _
    refine ⟨by simp, fun j hj => ?_⟩
    have : j = 0 := by simpa using hj
    subst this
    have hpos : 0 < N := Nat.lt_of_lt_of_le (Nat.two_pow_pos bits) hN
    rw [h0]; exact get_replicate N 0 0 hpos
  | succ n ih =>
    intro hn
    obtain ⟨hsz, hg⟩ := ih (by omega)
    rw [List.range'_1_concat, List.foldl_append]
    simp only [List.foldl_cons, List.foldl_nil, Nat.zero_add]
    rw [Nat.one_shiftLeft]
    have hle : 2 ^ (n + 1) ≤ N := Nat.le_trans (Nat.pow_le_pow_right (by decide) hn) hN
    rw [Nat.pow_succ] at hle
    generalize List.foldl _ (Array.replicate N 0) (List.range' 0 n) = b at hsz hg ⊢
    obtain ⟨hsz', hg'⟩ := cantor_inner cb[n]! (2 ^ n) b (2 ^ n) (Nat.le_refl _) (by omega)
    rw [hsz] at hsz'
    refine ⟨hsz', fun j hj => ?_⟩
    rw [Nat.pow_succ] at hj
    rw [hg' j]
    by_cases hjw : 2 ^ n ≤ j
    · rw [if_pos ⟨hjw, by omega⟩, hg _ (by omega), ← hs n (by omega) _ (by omega)]
      congr 1; omega
    · rw [if_neg (by omega)]; exact hg j (by omega)

end RSV.Proofs.Leo16
