import RSV.Proofs.Leo16.Mul
import RSV.Proofs.LeoField.Loops
/-!
# Leopard GF(2^16): the product lookup tables equal the direct product (structural)

`T16 = initLUTs P16`.  For EVERY multiplier `m < 65536` and operand `a < 65536` (no table is evaluated):

* `nib_2`, `nib_3`, `nib_get` (any parameters): entry `nib·16 + x` of `nibbleProducts P T m` is
  `mulLog P T ((x <<< 4·nib) % order) m` (the loops of `nibbleProducts`: every index is written once);
* `nibble_compose16`: the xor of the four nibble products of `a` is `mulLog a m` (`a` is the xor of its four shifted
  nibbles, `mulLog16_xor`);
* `mul16LUT_get`: `Lo[a &&& 255] ^^^ Hi[a >>> 8] = mulLog a m` for the pair `mul16LUT P16 T16 m`
  (`mul16LUTs[log_m].Lo/.Hi`), and `mul16LUT_lo`, `mul16LUT_hi`: `Lo[i] = mulLog i m`, `Hi[j] = mulLog (j <<< 8) m`;
* `mul256LUT16_lo`, `mul256LUT16_hi`: entry `i < 64` of the 128-byte SIMD table is the low byte and entry `64 + i` the
  high byte of `mulLog ((i % 16) <<< (4 * (i / 16))) m`; `mul256LUT16_compose`: xoring the four low-byte entries
  selected by the nibbles of `a` gives the low byte of `mulLog a m`, the four high-byte entries its high byte.
-/
namespace RSV.Proofs.Leo16
open RSV.Model RSV.Proofs.LeoField

/-! ## the loops of `nibbleProducts`, nibbles 2 and 3 (any parameters) -/

theorem nib_2 (P : Leo.Params) (T : Leo.LUTs) (m x : Nat) (hx : x < 16) :
    (Leo.nibbleProducts P T m)[x + 32]! = Leo.mulLog P T ((x <<< 8) % P.order) m := by
  unfold Leo.nibbleProducts
  simp only [Std.Legacy.Range.forIn_eq_forIn_range', Std.Legacy.Range.size,
    List.forIn_pure_yield_eq_foldl, pure_bind, bind_pure, Id.run_pure, Nat.sub_zero,
    Nat.add_one_sub_one, Nat.div_one]
  rw [show List.range' 0 4 = [0, 1, 2, 3] from rfl]
  simp only [List.foldl_cons, List.foldl_nil]
  have hmem : ∀ z, z ∈ List.range' 0 16 ↔ z < 16 := by intro z; simp [List.mem_range'_1]
  rw [foldl_set_skip (fun x => Leo.mulLog P T (x <<< (4 * 3) % P.order) m) (3 * 16) (x + 32) _
        (fun z hz => by have := (hmem z).mp hz; omega)]
  have := foldl_set_hit (fun x => Leo.mulLog P T (x <<< (4 * 2) % P.order) m) (2 * 16) x _
    ((hmem x).mpr hx)
    (List.foldl (fun b x => b.set! (1 * 16 + x) (Leo.mulLog P T (x <<< (4 * 1) % P.order) m))
      (List.foldl (fun b x => b.set! (0 * 16 + x)
        (Leo.mulLog P T (x <<< (4 * 0) % P.order) m)) (Array.replicate 64 0) (List.range' 0 16))
      (List.range' 0 16))
    (by rw [foldl_set_size, foldl_set_size]; simp; omega)
  rw [show x + 32 = 2 * 16 + x by omega]
  simpa using this

theorem nib_3 (P : Leo.Params) (T : Leo.LUTs) (m x : Nat) (hx : x < 16) :
    (Leo.nibbleProducts P T m)[x + 48]! = Leo.mulLog P T ((x <<< 12) % P.order) m := by
  unfold Leo.nibbleProducts
  simp only [Std.Legacy.Range.forIn_eq_forIn_range', Std.Legacy.Range.size,
    List.forIn_pure_yield_eq_foldl, pure_bind, bind_pure, Id.run_pure, Nat.sub_zero,
    Nat.add_one_sub_one, Nat.div_one]
  rw [show List.range' 0 4 = [0, 1, 2, 3] from rfl]
  simp only [List.foldl_cons, List.foldl_nil]
  have hmem : ∀ z, z ∈ List.range' 0 16 ↔ z < 16 := by intro z; simp [List.mem_range'_1]
  have := foldl_set_hit (fun x => Leo.mulLog P T (x <<< (4 * 3) % P.order) m) (3 * 16) x _
    ((hmem x).mpr hx)
    (List.foldl (fun b x => b.set! (2 * 16 + x) (Leo.mulLog P T (x <<< (4 * 2) % P.order) m))
      (List.foldl (fun b x => b.set! (1 * 16 + x) (Leo.mulLog P T (x <<< (4 * 1) % P.order) m))
        (List.foldl (fun b x => b.set! (0 * 16 + x)
          (Leo.mulLog P T (x <<< (4 * 0) % P.order) m)) (Array.replicate 64 0) (List.range' 0 16))
        (List.range' 0 16))
      (List.range' 0 16))
    (by rw [foldl_set_size, foldl_set_size, foldl_set_size]; simp; omega)
  rw [show x + 48 = 3 * 16 + x by omega]
  simpa using this

/-- every entry of `nibbleProducts`: index `nib·16 + x` holds the product of the nibble value `x` shifted to nibble
position `nib` -/
theorem nib_get (P : Leo.Params) (T : Leo.LUTs) (m nib x : Nat) (hn : nib < 4) (hx : x < 16) :
    (Leo.nibbleProducts P T m)[nib * 16 + x]! = Leo.mulLog P T ((x <<< (4 * nib)) % P.order) m := by
  have h : nib = 0 ∨ nib = 1 ∨ nib = 2 ∨ nib = 3 := by omega
  rcases h with rfl | rfl | rfl | rfl
  · rw [Nat.zero_mul, Nat.zero_add]; exact nib_lo P T m x hx
  · rw [Nat.one_mul, Nat.add_comm]; exact nib_hi P T m x hx
  · rw [Nat.add_comm]; exact nib_2 P T m x hx
  · rw [Nat.add_comm]; exact nib_3 P T m x hx

/-! ## bits -/

/-- a number is the xor of its low `n` bits and the rest shifted back -/
theorem split_low (a n : Nat) : (a &&& (2 ^ n - 1)) ^^^ ((a >>> n) <<< n) = a := by
  apply Nat.eq_of_testBit_eq
  intro i
  rw [Nat.testBit_xor, Nat.testBit_and, Nat.testBit_two_pow_sub_one, Nat.testBit_shiftLeft,
    Nat.testBit_shiftRight]
  by_cases h : i < n
  · simp [h, Nat.not_le.mpr h]
  · have : n + (i - n) = i := by omega
    simp [h, Nat.le_of_not_lt h, this]

theorem byte_split : ∀ i, i < 256 → i &&& 15 < 16 ∧ i >>> 4 < 16 ∧
    (i &&& 15) < 65536 ∧ (i >>> 4) <<< 4 < 65536 ∧ (i &&& 15) ^^^ ((i >>> 4) <<< 4) = i ∧
    (i &&& 15) <<< 8 < 65536 ∧ (i >>> 4) <<< 12 < 65536 ∧
    ((i &&& 15) <<< 8) ^^^ ((i >>> 4) <<< 12) = i <<< 8 ∧ i <<< 8 < 65536 := by decide +kernel

theorem nibble_shift_lt : ∀ nib, nib < 4 → ∀ x, x < 16 → x <<< (4 * nib) < 65536 := by decide +kernel

theorem and255_lt (a : Nat) : a &&& 255 < 256 := Nat.and_lt_two_pow a (n := 8) (by decide)

theorem shr8_lt {a : Nat} (ha : a < 65536) : a >>> 8 < 256 := by
  rw [Nat.shiftRight_eq_div_pow]; omega

/-! ## `mul16LUTs[log_m].Lo / .Hi` -/

theorem mul16LUT_fst (P : Leo.Params) (T : Leo.LUTs) (m i : Nat) (hi : i < 256) :
    (Leo.mul16LUT P T m).1[i]! =
      (Leo.nibbleProducts P T m)[i &&& 15]! ^^^ (Leo.nibbleProducts P T m)[(i >>> 4) + 16]! := by
  unfold Leo.mul16LUT
  simp [hi]

theorem mul16LUT_snd (P : Leo.Params) (T : Leo.LUTs) (m i : Nat) (hi : i < 256) :
    (Leo.mul16LUT P T m).2[i]! =
      (Leo.nibbleProducts P T m)[(i &&& 15) + 32]! ^^^ (Leo.nibbleProducts P T m)[(i >>> 4) + 48]! := by
  unfold Leo.mul16LUT
  simp [hi]

/-- `Lo[i]` is the product of the low byte value `i` -/
theorem mul16LUT_lo {m i : Nat} (hm : m < 65536) (hi : i < 256) :
    (Leo.mul16LUT Leo.P16 T16 m).1[i]! = Leo.mulLog Leo.P16 T16 i m := by
  obtain ⟨h1, h2, h3, h4, h5, -⟩ := byte_split i hi
  rw [mul16LUT_fst _ _ _ _ hi, nib_lo _ _ _ _ h1, nib_hi _ _ _ _ h2, P16_order, Nat.mod_eq_of_lt h3,
    Nat.mod_eq_of_lt h4, ← mulLog16_xor h3 h4 hm, h5]

/-- `Hi[j]` is the product of the high byte value `j`, i.e. of `j <<< 8` -/
theorem mul16LUT_hi {m j : Nat} (hm : m < 65536) (hj : j < 256) :
    (Leo.mul16LUT Leo.P16 T16 m).2[j]! = Leo.mulLog Leo.P16 T16 (j <<< 8) m := by
  obtain ⟨h1, h2, -, -, -, h6, h7, h8, -⟩ := byte_split j hj
  rw [mul16LUT_snd _ _ _ _ hj, nib_2 _ _ _ _ h1, nib_3 _ _ _ _ h2, P16_order, Nat.mod_eq_of_lt h6,
    Nat.mod_eq_of_lt h7, ← mulLog16_xor h6 h7 hm, h8]

/-- **the two-table product**: `Lo[a & 255] ^ Hi[a >> 8]` is the direct product, every multiplier and operand -/
theorem mul16LUT_get {m a : Nat} (hm : m < 65536) (ha : a < 65536) :
    (Leo.mul16LUT Leo.P16 T16 m).1[a &&& 255]! ^^^ (Leo.mul16LUT Leo.P16 T16 m).2[a >>> 8]! =
      Leo.mulLog Leo.P16 T16 a m := by
  have hl := and255_lt a
  have hh := shr8_lt ha
  have hh8 : (a >>> 8) <<< 8 < 65536 := (byte_split _ hh).2.2.2.2.2.2.2.2
  rw [mul16LUT_lo hm hl, mul16LUT_hi hm hh, ← mulLog16_xor (by omega) hh8 hm]
  congr 1
  exact split_low a 8

/-! ## the four nibbles -/

theorem nibbles_of {a : Nat} (ha : a < 65536) :
    (a &&& 255) &&& 15 = a &&& 15 ∧ (a &&& 255) >>> 4 = (a >>> 4) &&& 15 ∧
    (a >>> 8) >>> 4 = a >>> 12 ∧ a >>> 12 < 16 ∧ (a >>> 4) &&& 15 < 16 ∧ (a >>> 8) &&& 15 < 16 ∧
    a &&& 15 < 16 := by
  refine ⟨?_, ?_, ?_, ?_, ?_, ?_, ?_⟩
  · rw [Nat.and_assoc]; rfl
  · rw [Nat.shiftRight_and_distrib]; rfl
  · rw [← Nat.shiftRight_add]
  · rw [Nat.shiftRight_eq_div_pow]; omega
  · exact Nat.and_lt_two_pow _ (n := 4) (by decide)
  · exact Nat.and_lt_two_pow _ (n := 4) (by decide)
  · exact Nat.and_lt_two_pow _ (n := 4) (by decide)

/-- **nibble composition**: the xor of the four nibble-table entries selected by the nibbles of `a` is the direct
product -/
theorem nibble_compose16 {m a : Nat} (hm : m < 65536) (ha : a < 65536) :
    (Leo.nibbleProducts Leo.P16 T16 m)[a &&& 15]! ^^^
      (Leo.nibbleProducts Leo.P16 T16 m)[((a >>> 4) &&& 15) + 16]! ^^^
      (Leo.nibbleProducts Leo.P16 T16 m)[((a >>> 8) &&& 15) + 32]! ^^^
      (Leo.nibbleProducts Leo.P16 T16 m)[(a >>> 12) + 48]! = Leo.mulLog Leo.P16 T16 a m := by
  obtain ⟨e1, e2, e3, -⟩ := nibbles_of ha
  rw [← mul16LUT_get hm ha, mul16LUT_fst _ _ _ _ (and255_lt a), mul16LUT_snd _ _ _ _ (shr8_lt ha), e1, e2, e3]
  simp only [Nat.xor_assoc]

/-- the same with the entries written as products of the shifted nibbles -/
theorem nibble_compose16_mul {m a : Nat} (hm : m < 65536) (ha : a < 65536) :
    Leo.mulLog Leo.P16 T16 (a &&& 15) m ^^^
      Leo.mulLog Leo.P16 T16 (((a >>> 4) &&& 15) <<< 4) m ^^^
      Leo.mulLog Leo.P16 T16 (((a >>> 8) &&& 15) <<< 8) m ^^^
      Leo.mulLog Leo.P16 T16 ((a >>> 12) <<< 12) m = Leo.mulLog Leo.P16 T16 a m := by
  obtain ⟨-, -, -, h3, h1, h2, h0⟩ := nibbles_of ha
  rw [← nibble_compose16 hm ha, nib_lo _ _ _ _ h0, nib_hi _ _ _ _ h1, nib_2 _ _ _ _ h2, nib_3 _ _ _ _ h3, P16_order,
    Nat.mod_eq_of_lt (by omega : a &&& 15 < 65536),
    Nat.mod_eq_of_lt (nibble_shift_lt 1 (by decide) _ h1),
    Nat.mod_eq_of_lt (nibble_shift_lt 2 (by decide) _ h2),
    Nat.mod_eq_of_lt (nibble_shift_lt 3 (by decide) _ h3)]

/-! ## the 128-byte SIMD table `multiply256LUT[log_m]` -/

theorem mul256LUT16_fst (P : Leo.Params) (T : Leo.LUTs) (m i : Nat) (hi : i < 64) :
    (Leo.mul256LUT16 P T m)[i]! = (Leo.nibbleProducts P T m)[i]! &&& 0xFF := by
  unfold Leo.mul256LUT16
  simp [hi, show i < 128 by omega]

theorem mul256LUT16_snd (P : Leo.Params) (T : Leo.LUTs) (m i : Nat) (hi : i < 64) :
    (Leo.mul256LUT16 P T m)[64 + i]! = (Leo.nibbleProducts P T m)[i]! >>> 8 := by
  unfold Leo.mul256LUT16
  simp [show 64 + i < 128 by omega]

theorem nib16_get {m i : Nat} (hi : i < 64) :
    (Leo.nibbleProducts Leo.P16 T16 m)[i]! = Leo.mulLog Leo.P16 T16 ((i % 16) <<< (4 * (i / 16))) m := by
  have h := nib_get Leo.P16 T16 m (i / 16) (i % 16) (by omega) (Nat.mod_lt _ (by decide))
  rw [show i / 16 * 16 + i % 16 = i by omega, P16_order,
    Nat.mod_eq_of_lt (nibble_shift_lt _ (by omega) _ (Nat.mod_lt _ (by decide)))] at h
  exact h

/-- entry `i < 64`: the low byte of the product of nibble value `i % 16` at nibble position `i / 16` -/
theorem mul256LUT16_lo {m i : Nat} (hi : i < 64) :
    (Leo.mul256LUT16 Leo.P16 T16 m)[i]! =
      Leo.mulLog Leo.P16 T16 ((i % 16) <<< (4 * (i / 16))) m &&& 0xFF := by
  rw [mul256LUT16_fst _ _ _ _ hi, nib16_get hi]

/-- entry `64 + i`: the high byte of the same product -/
theorem mul256LUT16_hi {m i : Nat} (hi : i < 64) :
    (Leo.mul256LUT16 Leo.P16 T16 m)[64 + i]! =
      Leo.mulLog Leo.P16 T16 ((i % 16) <<< (4 * (i / 16))) m >>> 8 := by
  rw [mul256LUT16_snd _ _ _ _ hi, nib16_get hi]

/-- the SIMD kernels' composition: xoring the four low-byte (high-byte) entries selected by the nibbles of `a` gives
the low (high) byte of the direct product -/
theorem mul256LUT16_compose {m a : Nat} (hm : m < 65536) (ha : a < 65536) :
    (Leo.mul256LUT16 Leo.P16 T16 m)[a &&& 15]! ^^^
      (Leo.mul256LUT16 Leo.P16 T16 m)[((a >>> 4) &&& 15) + 16]! ^^^
      (Leo.mul256LUT16 Leo.P16 T16 m)[((a >>> 8) &&& 15) + 32]! ^^^
      (Leo.mul256LUT16 Leo.P16 T16 m)[(a >>> 12) + 48]! = Leo.mulLog Leo.P16 T16 a m &&& 0xFF ∧
    (Leo.mul256LUT16 Leo.P16 T16 m)[64 + (a &&& 15)]! ^^^
      (Leo.mul256LUT16 Leo.P16 T16 m)[64 + (((a >>> 4) &&& 15) + 16)]! ^^^
      (Leo.mul256LUT16 Leo.P16 T16 m)[64 + (((a >>> 8) &&& 15) + 32)]! ^^^
      (Leo.mul256LUT16 Leo.P16 T16 m)[64 + ((a >>> 12) + 48)]! = Leo.mulLog Leo.P16 T16 a m >>> 8 := by
  obtain ⟨-, -, -, h3, h1, h2, h0⟩ := nibbles_of ha
  constructor
  · rw [mul256LUT16_fst _ _ _ _ (by omega), mul256LUT16_fst _ _ _ _ (by omega),
      mul256LUT16_fst _ _ _ _ (by omega), mul256LUT16_fst _ _ _ _ (by omega),
      ← Nat.and_xor_distrib_right, ← Nat.and_xor_distrib_right, ← Nat.and_xor_distrib_right,
      nibble_compose16 hm ha]
  · rw [mul256LUT16_snd _ _ _ _ (by omega), mul256LUT16_snd _ _ _ _ (by omega),
      mul256LUT16_snd _ _ _ _ (by omega), mul256LUT16_snd _ _ _ _ (by omega),
      ← Nat.shiftRight_xor_distrib, ← Nat.shiftRight_xor_distrib, ← Nat.shiftRight_xor_distrib,
      nibble_compose16 hm ha]

end RSV.Proofs.Leo16
