import RSV.Proofs.Leo16.Tables
import RSV.Proofs.LeoSchedBounded
/-!
# Leopard GF(2^16): the table product is the field product under the Cantor map

* `addMod16_eq`, `xpow_addMod16`: `addMod` adds exponents modulo 65535 (`x^65535 = 1`);
* `cm16_mulLog`: `cm16 (mulLog a m) = (cm16 a) · x^m` in GF(2)[x]/(0x1002D), for all `a, m < 65536`
  (`m = 65535` is the exponent 0);
* `mulLog16_xor`, `mulLog16_lt`: xor-linearity and closure, hence `MulLinearOn (mkCtx P16) 65536`.
-/
namespace RSV.Proofs.Leo16
open RSV.Model RSV.Proofs.LeoSched

/-! ## `addMod` -/

theorem addMod16_eq {x y : Nat} (hx : x ≤ 65535) (hy : y ≤ 65535) :
    Leo.addMod Leo.P16 x y = if x + y < 65536 then x + y else x + y - 65535 := by
  show (x + y + (x + y) >>> 16) % (1 <<< 16) = _
  rw [Nat.shiftRight_eq_div_pow, show (1 <<< 16 : Nat) = 65536 from rfl,
    show (2 ^ 16 : Nat) = 65536 from rfl]
  split <;> omega

theorem addMod16_lt (x y : Nat) : Leo.addMod Leo.P16 x y < 65536 :=
  Nat.mod_lt _ (by decide)

theorem xpow_addMod16 {x y : Nat} (hx : x ≤ 65535) (hy : y ≤ 65535) :
    xpow (Leo.addMod Leo.P16 x y) = xpow (x + y) := by
  rw [addMod16_eq hx hy]
  split
  · rfl
  · have h : x + y = (x + y - 65535) + 65535 := by omega
    conv => rhs; rw [h]
    exact (xpow_add_65535 _).symm

/-! ## `mulLog` -/

theorem exp16_lt {k : Nat} (hk : k ≤ 65535) : T16.exp[k]! < 65536 := by
  rw [exp16_get hk]; exact cmi16_lt _

theorem mulLog16_lt (a m : Nat) : Leo.mulLog Leo.P16 T16 a m < 65536 := by
  unfold Leo.mulLog
  split
  · decide
  · exact exp16_lt (by have := addMod16_lt T16.log[a]! m; omega)

/-- `mulLog a log_m` is the field product of `a` with `x^log_m` -/
theorem cm16_mulLog {a m : Nat} (ha : a < 65536) (hm : m < 65536) :
    cm16 (Leo.mulLog Leo.P16 T16 a m) = mul16 (cm16 a) (xpow m) := by
  unfold Leo.mulLog
  split
  next h => subst h; rw [cm16_zero, mul16_zero_left]
  next h =>
    have hc0 := cm16_ne_zero h ha
    have hl := dlog_lt hc0 (cm16_lt a)
    rw [log16_get ha, exp16_get (by have := addMod16_lt (dlog (cm16 a)) m; omega),
      cm16_cmi16 (xpow_lt _), xpow_addMod16 (by omega) (by omega), xpow_add,
      xpow_dlog hc0 (cm16_lt a)]

theorem mulLog16_xor {a b m : Nat} (ha : a < 65536) (hb : b < 65536) (hm : m < 65536) :
    Leo.mulLog Leo.P16 T16 (a ^^^ b) m =
      Leo.mulLog Leo.P16 T16 a m ^^^ Leo.mulLog Leo.P16 T16 b m := by
  have hab : a ^^^ b < 65536 := Nat.xor_lt_two_pow (n := 16) ha hb
  apply cm16_inj (mulLog16_lt _ _)
    (Nat.xor_lt_two_pow (n := 16) (mulLog16_lt _ _) (mulLog16_lt _ _))
  rw [cm16_xor, cm16_mulLog hab hm, cm16_mulLog ha hm, cm16_mulLog hb hm, cm16_xor,
    mul16_xor_left]

/-! ## the context of the driver -/

/-- the model's GF(2^16) context -/
def C16 : Leo.Ctx := Leo.mkCtx Leo.P16

theorem C16_P : C16.P = Leo.P16 := rfl
theorem C16_T : C16.T = T16 := rfl

theorem mulSym16_eq (a m : Nat) : Leo.mulSym C16 a m = Leo.mulLog Leo.P16 T16 a m := rfl

theorem cm16_mulSym {a m : Nat} (ha : a < 65536) (hm : m < 65536) :
    cm16 (Leo.mulSym C16 a m) = mul16 (cm16 a) (xpow m) := cm16_mulLog ha hm

/-- the bounded algebraic hypothesis of the schedule theorems holds for the real GF(2^16) tables -/
theorem mulLinearOn_gf16 : MulLinearOn (Leo.mkCtx Leo.P16) 65536 where
  zero := mulSym_zero C16
  lt := fun a m _ _ => mulLog16_lt a m
  xor := fun a b m ha hb hm => mulLog16_xor ha hb hm
  pow2 := ⟨16, by decide⟩

end RSV.Proofs.Leo16
