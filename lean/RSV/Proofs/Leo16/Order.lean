import RSV.Proofs.Leo16.Arith
import Mathlib.Dynamics.PeriodicPts.Defs
import Mathlib.Data.Nat.Prime.Basic
import Mathlib.Data.Fintype.Card
import Mathlib.Data.Fintype.Basic
import Mathlib.Data.Fintype.EquivFin
import Mathlib.Tactic.NormNum.Prime
/-!
# `x` has multiplicative order 65535 in GF(2)[x]/(0x1002D)

`xpow 65535 = 1` and `xpow (65535/q) ≠ 1` for the prime divisors `q ∈ {3, 5, 17, 257}` (five kernel
evaluations of `xpf`, 16 products each); hence the minimal period of `1` under `xt` is 65535, the
powers `x^0 … x^65534` are pairwise distinct, non-zero, and (pigeonhole) exhaust the non-zero 16-bit
values: the discrete logarithm `dlog` exists.
-/
namespace RSV.Proofs.Leo16
open Function

theorem xpow_65535 : xpow 65535 = 1 := by
  rw [← xpf_eq 16 65535 (by decide)]; decide +kernel

theorem xpow_21845 : xpow 21845 ≠ 1 := by
  rw [← xpf_eq 16 21845 (by decide)]; decide +kernel

theorem xpow_13107 : xpow 13107 ≠ 1 := by
  rw [← xpf_eq 16 13107 (by decide)]; decide +kernel

theorem xpow_3855 : xpow 3855 ≠ 1 := by
  rw [← xpf_eq 16 3855 (by decide)]; decide +kernel

theorem xpow_255 : xpow 255 ≠ 1 := by
  rw [← xpf_eq 16 255 (by decide)]; decide +kernel

theorem isPeriodicPt_65535 : IsPeriodicPt xt 65535 1 := xpow_65535

/-- a proper divisor of `65535 = 3·5·17·257` divides one of the four maximal proper divisors -/
theorem dvd_maximal {p : Nat} (hp : p ∣ 65535) (hne : p ≠ 65535) :
    p ∣ 21845 ∨ p ∣ 13107 ∨ p ∣ 3855 ∨ p ∣ 255 := by
  obtain ⟨c, hc⟩ := hp
  have hc1 : c ≠ 1 := by rintro rfl; omega
  obtain ⟨q, hq, hqc⟩ := Nat.exists_prime_and_dvd hc1
  obtain ⟨e, he⟩ := hqc
  have hq' : q ∣ 3 * (5 * (17 * 257)) :=
    ⟨p * e, by rw [he] at hc; rw [← show 65535 = 3 * (5 * (17 * 257)) from rfl, hc, Nat.mul_left_comm]⟩
  have h3 : Nat.Prime 3 := by norm_num
  have h5 : Nat.Prime 5 := by norm_num
  have h17 : Nat.Prime 17 := by norm_num
  have h257 : Nat.Prime 257 := by norm_num
  have key : ∀ r, q = r → 65535 = r * (65535 / r) → p ∣ 65535 / r := by
    intro r hr hM
    subst hr
    have hqpos := hq.pos
    refine ⟨e, ?_⟩
    have : q * (65535 / q) = q * (p * e) := by rw [← hM, hc, he, Nat.mul_left_comm]
    exact Nat.eq_of_mul_eq_mul_left hqpos this
  rcases (Nat.Prime.dvd_mul hq).mp hq' with h | h
  · exact Or.inl (key 3 ((Nat.prime_dvd_prime_iff_eq hq h3).mp h) (by decide))
  rcases (Nat.Prime.dvd_mul hq).mp h with h | h
  · exact Or.inr (Or.inl (key 5 ((Nat.prime_dvd_prime_iff_eq hq h5).mp h) (by decide)))
  rcases (Nat.Prime.dvd_mul hq).mp h with h | h
  · exact Or.inr (Or.inr (Or.inl (key 17 ((Nat.prime_dvd_prime_iff_eq hq h17).mp h) (by decide))))
  · exact Or.inr (Or.inr (Or.inr (key 257 ((Nat.prime_dvd_prime_iff_eq hq h257).mp h) (by decide))))

/-- `x` has order exactly 65535 -/
theorem minimalPeriod_xt : minimalPeriod xt 1 = 65535 := by
  by_contra hne
  have hd := isPeriodicPt_65535.minimalPeriod_dvd
  have hp := isPeriodicPt_minimalPeriod xt 1
  rcases dvd_maximal hd hne with h | h | h | h
  · exact xpow_21845 (hp.trans_dvd h)
  · exact xpow_13107 (hp.trans_dvd h)
  · exact xpow_3855 (hp.trans_dvd h)
  · exact xpow_255 (hp.trans_dvd h)

/-- the powers `x^0 … x^65534` are pairwise distinct -/
theorem xpow_inj {i j : Nat} (hi : i < 65535) (hj : j < 65535) (h : xpow i = xpow j) : i = j :=
  (iterate_eq_iterate_iff_of_lt_minimalPeriod (by rw [minimalPeriod_xt]; exact hi)
    (by rw [minimalPeriod_xt]; exact hj)).mp h

theorem xpow_mod (n : Nat) : xpow (n % 65535) = xpow n := isPeriodicPt_65535.iterate_mod_apply n

theorem xpow_add_65535 (n : Nat) : xpow (n + 65535) = xpow n := by
  rw [← xpow_mod (n + 65535), Nat.add_mod_right, xpow_mod]

/-! ## `xt` is injective, powers of `x` are non-zero -/

theorem xt_eq_zero {a : Nat} (ha : a < 65536) (h : xt a = 0) : a = 0 := by
  rw [xt_eq_step ha, Nat.shiftLeft_eq] at h
  split at h
  · exfalso
    have h1 : (a * 2 ^ 1 ^^^ poly16).testBit 0 = true := by
      rw [Nat.testBit_xor]
      have : (a * 2 ^ 1).testBit 0 = false := by
        rw [Nat.testBit_eq_decide_div_mod_eq]; simp
      rw [this]; decide
    rw [h] at h1; exact absurd h1 (by decide)
  · omega

theorem xpow_ne_zero (n : Nat) : xpow n ≠ 0 := by
  induction n with
  | zero => decide
  | succ n ih => rw [xpow_succ]; exact fun h => ih (xt_eq_zero (xpow_lt n) h)

/-! ## the discrete logarithm (pigeonhole) -/

/-- every non-zero 16-bit value is a power of `x` -/
theorem xpow_surj {v : Nat} (h0 : v ≠ 0) (hv : v < 65536) : ∃ k, k < 65535 ∧ xpow k = v := by
  let f : Fin 65535 → Fin 65535 := fun k =>
    ⟨xpow k.val - 1, by have := xpow_lt k.val; have := xpow_ne_zero k.val; omega⟩
  have hf : Injective f := by
    intro a b hab
    have h1 : xpow a.val - 1 = xpow b.val - 1 := congrArg Fin.val hab
    have := xpow_ne_zero a.val; have := xpow_ne_zero b.val
    exact Fin.ext (xpow_inj a.isLt b.isLt (by omega))
  obtain ⟨k, hk⟩ := (Finite.injective_iff_surjective.mp hf) ⟨v - 1, by omega⟩
  refine ⟨k.val, k.isLt, ?_⟩
  have h1 : xpow k.val - 1 = v - 1 := congrArg Fin.val hk
  have := xpow_ne_zero k.val
  omega

/-- the discrete logarithm to base `x` (65535 outside the non-zero 16-bit values) -/
noncomputable def dlog (v : Nat) : Nat :=
  if h : v ≠ 0 ∧ v < 65536 then Classical.choose (xpow_surj h.1 h.2) else 65535

theorem dlog_lt {v : Nat} (h0 : v ≠ 0) (hv : v < 65536) : dlog v < 65535 := by
  unfold dlog; rw [dif_pos ⟨h0, hv⟩]; exact (Classical.choose_spec (xpow_surj h0 hv)).1

theorem xpow_dlog {v : Nat} (h0 : v ≠ 0) (hv : v < 65536) : xpow (dlog v) = v := by
  unfold dlog; rw [dif_pos ⟨h0, hv⟩]; exact (Classical.choose_spec (xpow_surj h0 hv)).2

theorem dlog_xpow {k : Nat} (hk : k < 65535) : dlog (xpow k) = k :=
  xpow_inj (dlog_lt (xpow_ne_zero k) (xpow_lt k)) hk (xpow_dlog (xpow_ne_zero k) (xpow_lt k))

theorem dlog_zero : dlog 0 = 65535 := by unfold dlog; rw [dif_neg (by simp)]

theorem dlog_inj {u v : Nat} (hu0 : u ≠ 0) (hu : u < 65536) (hv0 : v ≠ 0) (hv : v < 65536)
    (h : dlog u = dlog v) : u = v := by
  rw [← xpow_dlog hu0 hu, ← xpow_dlog hv0 hv, h]

end RSV.Proofs.Leo16
