import RSV.Proofs.Leo16.Order
import RSV.Proofs.Leo16.Cantor
import RSV.Proofs.Leo16.Loops
/-!
# The GF(2^16) tables `initLUTs P16`, entry by entry (structural: no table is evaluated)

With `T16 = Leo.initLUTs Leo.P16`:

* `log16_get`: `T16.log[a]! = dlog (cm16 a)` for `a < 65536` (`dlog 0 = 65535`);
* `exp16_get`: `T16.exp[k]! = cmi16 (xpow k)` for `k ≤ 65535`.

The proof follows the five loops of the model (`Leo16/Loops.lean`): the LFSR loop writes `i` at the
pairwise distinct positions `x^i` (`xpow_inj`), the doubling loop computes the Cantor map, loop 3 is a
pointwise map, loop 4 writes `i` at the pairwise distinct positions `log[i]` (`i = 0` at position
65535, overwritten by the final `exp[modulus] := exp[0]`).
-/
namespace RSV.Proofs.Leo16
open RSV.Model

/-- the model's GF(2^16) tables -/
def T16 : Leo.LUTs := Leo.initLUTs Leo.P16

theorem P16_order : Leo.P16.order = 65536 := by decide
theorem P16_modulus : Leo.P16.modulus = 65535 := by decide
theorem P16_bits : Leo.P16.bits = 16 := rfl

theorem size_set (b : Array Nat) (i v : Nat) : (b.set! i v).size = b.size := by simp

theorem T16_log : T16.log = log3 Leo.P16 := by unfold T16; rw [initLUTs_eq]
theorem T16_exp : T16.exp = exp5 Leo.P16 := by unfold T16; rw [initLUTs_eq]

/-! ## loop 1 -/

theorem step_eq_xt {s : Nat} (hs : s < 65536) : step Leo.P16 s = xt s := by
  rw [xt_eq_step hs]; rfl

theorem step_iter (i : Nat) : (step Leo.P16)^[i] 1 = xpow i := by
  induction i with
  | zero => rfl
  | succ i ih => rw [Function.iterate_succ_apply', ih, step_eq_xt (xpow_lt i), xpow_succ]

theorem lfsr_fst : (lfsr Leo.P16).1 =
    (List.range' 0 65535).foldl (fun e i => e.set! (xpow i) ((fun i => i) i))
      (Array.replicate 65536 0) := by
  unfold lfsr
  rw [lfsr_fold, P16_order, P16_modulus]
  have : (fun (e : Array Nat) i => e.set! ((step Leo.P16)^[i] 1) i) =
      fun e i => e.set! (xpow i) i := by
    funext e i; rw [step_iter]
  rw [this]

theorem exp1_size : (exp1 Leo.P16).size = 65536 := by
  unfold exp1
  rw [size_set, lfsr_fst, foldl_setg_size xpow (fun i => i)]; simp

/-- after loop 1 and `exp[0] := modulus`, `exp` is the discrete logarithm -/
theorem exp1_get {v : Nat} (hv : v < 65536) : (exp1 Leo.P16)[v]! = dlog v := by
  unfold exp1
  rw [P16_modulus]
  by_cases h0 : v = 0
  · subst h0
    rw [dlog_zero]
    apply get_set_eq
    rw [lfsr_fst, foldl_setg_size xpow (fun i => i)]; simp
  · rw [get_set_ne _ _ (Ne.symm h0), lfsr_fst]
    have hk := dlog_lt h0 hv
    have := foldl_setg_hit xpow (fun i => i) (List.range' 0 65535) (dlog v)
      (by rw [List.mem_range'_1]; omega)
      (fun y hy h => by
        rw [List.mem_range'_1] at hy
        exact xpow_inj (by omega) hk h)
      (Array.replicate 65536 0) (by have := xpow_lt (dlog v); simpa using this)
    rw [xpow_dlog h0 hv] at this
    exact this

/-! ## loop 2 -/

theorem cm16_add_two_pow {i j : Nat} (hi : i < 16) (hj : j < 2 ^ i) :
    cm16 (j + 2 ^ i) = cm16 j ^^^ Leo.P16.cantor[i]! := by
  rw [add_two_pow_eq_xor hj, cm16_xor, cm16_two_pow i hi]

theorem log2_spec : (log2 Leo.P16).size = 65536 ∧ ∀ j, j < 65536 → (log2 Leo.P16)[j]! = cm16 j := by
  have := cantor_loop Leo.P16.cantor cm16 65536 16 (by decide) cm16_zero
    (fun i hi j hj => cm16_add_two_pow hi hj) 16 (Nat.le_refl _)
  unfold log2
  rw [P16_order, P16_bits]
  exact this

/-! ## loop 3 -/

theorem log3_size : (log3 Leo.P16).size = 65536 := by
  unfold log3
  rw [P16_order, (foldl_map_get _ _ 65536 (by rw [log2_spec.1])).1, log2_spec.1]

/-- the final `log` table -/
theorem log3_get {a : Nat} (ha : a < 65536) : (log3 Leo.P16)[a]! = dlog (cm16 a) := by
  unfold log3
  rw [P16_order, (foldl_map_get _ _ 65536 (by rw [log2_spec.1])).2 a, if_pos ha,
    log2_spec.2 a ha, exp1_get (cm16_lt a)]

theorem log3_zero : (log3 Leo.P16)[0]! = 65535 := by
  rw [log3_get (by decide), cm16_zero, dlog_zero]

theorem log3_lt {a : Nat} (h0 : a ≠ 0) (ha : a < 65536) : (log3 Leo.P16)[a]! < 65535 := by
  rw [log3_get ha]; exact dlog_lt (cm16_ne_zero h0 ha) (cm16_lt a)

/-- `i ↦ log[i]` is injective on `[0,65536)` -/
theorem log3_inj {a b : Nat} (ha : a < 65536) (hb : b < 65536)
    (h : (log3 Leo.P16)[a]! = (log3 Leo.P16)[b]!) : a = b := by
  by_cases ha0 : a = 0
  · by_cases hb0 : b = 0
    · rw [ha0, hb0]
    · have := log3_lt hb0 hb; rw [ha0, log3_zero] at h; omega
  · by_cases hb0 : b = 0
    · have := log3_lt ha0 ha; rw [hb0, log3_zero] at h; omega
    · rw [log3_get ha, log3_get hb] at h
      exact cm16_inj ha hb (dlog_inj (cm16_ne_zero ha0 ha) (cm16_lt a) (cm16_ne_zero hb0 hb)
        (cm16_lt b) h)

/-! ## loop 4 and the final `exp[modulus] := exp[0]` -/

theorem exp4_size : (exp4 Leo.P16).size = 65536 := by
  unfold exp4; rw [foldl_setg_size (fun a => (log3 Leo.P16)[a]!) (fun a => a), exp1_size]

/-- after loop 4, position `log[a]` holds `a` -/
theorem exp4_get_log {a : Nat} (ha : a < 65536) : (exp4 Leo.P16)[(log3 Leo.P16)[a]!]! = a := by
  unfold exp4
  rw [P16_order]
  exact foldl_setg_hit (fun a => (log3 Leo.P16)[a]!) (fun a => a) (List.range' 0 65536) a
    (by rw [List.mem_range'_1]; omega)
    (fun y hy h => by
      rw [List.mem_range'_1] at hy
      exact log3_inj (by omega) ha h)
    (exp1 Leo.P16) (by
      rw [exp1_size]
      by_cases h0 : a = 0
      · rw [h0, log3_zero]; decide
      · have := log3_lt h0 ha; omega)

theorem exp4_get {k : Nat} (hk : k < 65535) : (exp4 Leo.P16)[k]! = cmi16 (xpow k) := by
  have hl : (log3 Leo.P16)[cmi16 (xpow k)]! = k := by
    rw [log3_get (cmi16_lt _), cm16_cmi16 (xpow_lt k), dlog_xpow hk]
  have := exp4_get_log (cmi16_lt (xpow k))
  rwa [hl] at this

theorem exp4_modulus : (exp4 Leo.P16)[65535]! = 0 := by
  have := exp4_get_log (a := 0) (by decide)
  rwa [log3_zero] at this

theorem exp5_size : (exp5 Leo.P16).size = 65536 := by
  unfold exp5; simp [exp4_size]

/-- the final `exp` table: `exp[k]` is the Cantor pre-image of `x^k`, for every `k ≤ 65535` -/
theorem exp5_get {k : Nat} (hk : k ≤ 65535) : (exp5 Leo.P16)[k]! = cmi16 (xpow k) := by
  unfold exp5
  rw [P16_modulus]
  by_cases h : k = 65535
  · subst h
    rw [get_set_eq _ _ (by rw [exp4_size]; decide), exp4_get (by decide), xpow_65535, xpow_zero]
  · rw [get_set_ne _ _ (Ne.symm h), exp4_get (by omega)]

/-! ## the tables of the model -/

theorem log16_size : T16.log.size = 65536 := by rw [T16_log, log3_size]

theorem exp16_size : T16.exp.size = 65536 := by rw [T16_exp, exp5_size]

theorem log16_get {a : Nat} (ha : a < 65536) : T16.log[a]! = dlog (cm16 a) := by
  rw [T16_log, log3_get ha]

theorem exp16_get {k : Nat} (hk : k ≤ 65535) : T16.exp[k]! = cmi16 (xpow k) := by
  rw [T16_exp, exp5_get hk]

end RSV.Proofs.Leo16
