import RSV.Proofs.LeoField.Cantor
import RSV.Proofs.LeoField.LogTable
import RSV.Proofs.LeoField.ExpTable
import RSV.Proofs.LeoField.Loops
import Mathlib.Algebra.BigOperators.Fin
import RSV.Proofs.CodeTheory
/-!
# Leopard's GF(2^8) is `GF256` through the Cantor map

* `T8_log_get`, `T8_exp_get`: the model's tables are the literals of `LeoField/Lits.lean`
  (two kernel evaluations of `initLUTs P8`, `LeoField/LogTable.lean`, `LeoField/ExpTable.lean`);
* `log_spec`, `exp_log`, `log_exp`, `cm_exp`: `log` is the discrete logarithm to base `x` of the Cantor
  image and `exp` its inverse;
* `cm_leoMul`, `cm_mulSym`: the table products are the GF(2^8)/0x11D product under the Cantor map
  (structural: `addMod` adds exponents modulo 255);
* `mul8LUT_get`: the nibble-composed product table is the direct product;
* field identities of `leoMul`; the MDS certificate for Leopard generators; the transport of parity
  equations to `GF256`.
-/
namespace RSV.Proofs.LeoField
open RSV.Model

/-! ## the model's tables are the literals -/

theorem T8_log_get (i : Nat) : T8.log[i]! = logLit[i]! := by
  have h : T8.log = logLit.toArray :=
    (Array.toArray_toList (xs := T8.log)).symm.trans (congrArg List.toArray T8_log_toList)
  rw [h]; simp

theorem T8_exp_get (i : Nat) : T8.exp[i]! = expLit[i]! := by
  have h : T8.exp = expLit.toArray :=
    (Array.toArray_toList (xs := T8.exp)).symm.trans (congrArg List.toArray T8_exp_toList)
  rw [h]; simp

theorem C8_T : C8.T = T8 := rfl
theorem C8_P : C8.P = Leo.P8 := rfl

/-! ## log / exp -/

theorem log_spec {i : Nat} (h0 : 0 < i) (hi : i < 256) : gpow 2 (T8.log[i]!) = cm i := by
  rw [T8_log_get]; exact lit_log i hi (by omega)

theorem log_lt {i : Nat} (h0 : i ≠ 0) (hi : i < 256) : T8.log[i]! < 255 := by
  rw [T8_log_get]; exact lit_log_lt i hi h0

theorem log_zero : T8.log[0]! = 255 := by rw [T8_log_get]; exact lit_log_zero

theorem exp_log {i : Nat} (h0 : i ≠ 0) (hi : i < 256) : T8.exp[T8.log[i]!]! = i := by
  rw [T8_exp_get, T8_log_get]; exact lit_exp_log i hi h0

theorem exp_log_zero : T8.exp[T8.log[0]!]! = 1 := by
  rw [T8_exp_get, T8_log_get]; exact lit_exp_log_zero

theorem exp_255 : T8.exp[255]! = T8.exp[0]! := by
  rw [T8_exp_get, T8_exp_get]; exact lit_exp_255

theorem log_exp {k : Nat} (hk : k < 255) : T8.log[T8.exp[k]!]! = k := by
  rw [T8_log_get, T8_exp_get]; exact lit_log_exp k hk

theorem exp_lt (k : Nat) : T8.exp[k]! < 256 := by
  rw [T8_exp_get]
  by_cases hk : k < 256
  · exact lit_exp_lt k hk
  · have : expLit[k]! = 0 := by
      rw [getElem!_neg]; rfl
      rw [lit_length.2]; exact hk
    omega

theorem cm_exp {k : Nat} (hk : k ≤ 255) : cm (T8.exp[k]!) = gpow 2 k := by
  rw [T8_exp_get]; exact lit_cm_exp k hk

/-! ## `addMod` is addition of exponents -/

theorem addMod_eq {x y : Nat} (hx : x ≤ 255) (hy : y ≤ 255) :
    Leo.addMod Leo.P8 x y = if x + y < 256 then x + y else x + y - 255 := by
  show (x + y + (x + y) >>> 8) % (1 <<< 8) = _
  rw [Nat.shiftRight_eq_div_pow, show (1 <<< 8 : Nat) = 256 from rfl, show (2 ^ 8 : Nat) = 256 from rfl]
  split <;> omega

theorem addMod_le {x y : Nat} (hx : x ≤ 255) (hy : y ≤ 255) : Leo.addMod Leo.P8 x y ≤ 255 := by
  rw [addMod_eq hx hy]; split <;> omega

theorem gpow_add (a : Nat) (ha : a < 256) (x y : Nat) :
    gpow a (x + y) = gmul (gpow a x) (gpow a y) := by
  have h := congrArg GF256.val (pow_add (⟨a, ha⟩ : GF256) x y)
  rw [GF256.mul_val, GF256.pow_val, GF256.pow_val, GF256.pow_val] at h
  exact h

theorem gpow_addMod {x y : Nat} (hx : x ≤ 255) (hy : y ≤ 255) :
    gpow 2 (Leo.addMod Leo.P8 x y) = gmul (gpow 2 x) (gpow 2 y) := by
  rw [addMod_eq hx hy, ← gpow_add 2 (by decide)]
  split
  · rfl
  · have h : x + y = (x + y - 255) + 255 := by omega
    conv => rhs; rw [h, gpow_add 2 (by decide), gpow_two_255, gmul_one_right (gpow_lt _ _)]

/-! ## the products -/

theorem mulLog_lt (a m : Nat) : Leo.mulLog Leo.P8 T8 a m < 256 := by
  unfold Leo.mulLog
  split
  · decide
  · exact exp_lt _

/-- `mulLog a log_m` is the field product of `a` with `x^log_m` -/
theorem cm_mulLog {a m : Nat} (ha : a < 256) (hm : m < 256) :
    cm (Leo.mulLog Leo.P8 T8 a m) = gmul (cm a) (gpow 2 m) := by
  unfold Leo.mulLog
  split
  next h => subst h; rw [cm_zero, gmul_zero_left]
  next h =>
    have hl := log_lt h ha
    rw [cm_exp (addMod_le (by omega) (by omega)), gpow_addMod (by omega) (by omega),
      log_spec (by omega) ha]

theorem cm_mulSym {a m : Nat} (ha : a < 256) (hm : m < 256) :
    cm (Leo.mulSym C8 a m) = gmul (cm a) (gpow 2 m) := cm_mulLog ha hm

theorem leoMul_lt (a b : Nat) : Leo.leoMul C8 a b < 256 := by
  unfold Leo.leoMul
  split
  · decide
  · rw [C8_T]; exact exp_lt _

/-- Leopard's product is the GF(2^8)/0x11D product under the Cantor map -/
theorem cm_leoMul {a b : Nat} (ha : a < 256) (hb : b < 256) :
    cm (Leo.leoMul C8 a b) = gmul (cm a) (cm b) := by
  unfold Leo.leoMul
  split
  next h =>
    simp only [Bool.or_eq_true, decide_eq_true_eq] at h
    rcases h with h | h
    · subst h; rw [cm_zero, gmul_zero_left]
    · subst h; rw [cm_zero, gmul_zero_right]
  next h =>
    simp only [Bool.or_eq_true, decide_eq_true_eq, not_or] at h
    rw [C8_T, C8_P]
    have hla := log_lt h.1 ha
    have hlb := log_lt h.2 hb
    rw [cm_exp (addMod_le (by omega) (by omega)), gpow_addMod (by omega) (by omega),
      log_spec (by omega) ha, log_spec (by omega) hb]


/-! ## xor-linearity of the products, and the nibble tables -/

theorem mulLog_xor {a b m : Nat} (ha : a < 256) (hb : b < 256) (hm : m < 256) :
    Leo.mulLog Leo.P8 T8 (a ^^^ b) m = Leo.mulLog Leo.P8 T8 a m ^^^ Leo.mulLog Leo.P8 T8 b m := by
  apply cm_inj (mulLog_lt _ _) (Nat.xor_lt_two_pow (n := 8) (mulLog_lt _ _) (mulLog_lt _ _))
  rw [cm_xor, cm_mulLog (Nat.xor_lt_two_pow (n := 8) ha hb) hm, cm_mulLog ha hm, cm_mulLog hb hm,
    cm_xor, gmul_xor_left]

theorem mulSym_eq (a m : Nat) : Leo.mulSym C8 a m = Leo.mulLog Leo.P8 T8 a m := rfl

theorem mulSym_xor {a b m : Nat} (ha : a < 256) (hb : b < 256) (hm : m < 256) :
    Leo.mulSym C8 (a ^^^ b) m = Leo.mulSym C8 a m ^^^ Leo.mulSym C8 b m := mulLog_xor ha hb hm

theorem nibble_split : ∀ a, a < 256 → a &&& 15 < 16 ∧ a >>> 4 < 16 ∧ (a >>> 4) <<< 4 < 256 ∧
    (a &&& 15) ^^^ ((a >>> 4) <<< 4) = a := by decide +kernel

/-- the 256-entry product table composed from the two 16-entry nibble tables is the direct product -/
theorem mul8LUT_get {m a : Nat} (hm : m < 256) (ha : a < 256) :
    (Leo.mul8LUT Leo.P8 T8 m)[a]! = Leo.mulSym C8 a m := by
  obtain ⟨h1, h2, h3, h4⟩ := nibble_split a ha
  have hget : (Leo.mul8LUT Leo.P8 T8 m)[a]! =
      (Leo.nibbleProducts Leo.P8 T8 m)[a &&& 15]! ^^^
        (Leo.nibbleProducts Leo.P8 T8 m)[(a >>> 4) + 16]! := by
    unfold Leo.mul8LUT
    simp [ha]
  have ho : Leo.P8.order = 256 := rfl
  rw [hget, nib_lo _ _ _ _ h1, nib_hi _ _ _ _ h2, ho, Nat.mod_eq_of_lt (by omega : a &&& 15 < 256),
    Nat.mod_eq_of_lt h3, ← mulLog_xor (by omega) h3 hm, h4]
  rfl

/-- the two 16-entry nibble tables (`multiply256LUT8`) are products of `x` and `x <<< 4` -/
theorem mul256LUT8_get {m x : Nat} (hx : x < 16) :
    (Leo.mul256LUT8 Leo.P8 T8 m)[x]! = Leo.mulSym C8 x m ∧
    (Leo.mul256LUT8 Leo.P8 T8 m)[x + 16]! = Leo.mulSym C8 (x <<< 4) m := by
  have ho : Leo.P8.order = 256 := rfl
  have hs : x <<< 4 < 256 := by rw [Nat.shiftLeft_eq]; omega
  constructor
  · have : (Leo.mul256LUT8 Leo.P8 T8 m)[x]! = (Leo.nibbleProducts Leo.P8 T8 m)[x]! := by
      unfold Leo.mul256LUT8
      simp [show x < 32 by omega]
    rw [this, nib_lo _ _ _ _ hx, ho, Nat.mod_eq_of_lt (by omega)]; rfl
  · have : (Leo.mul256LUT8 Leo.P8 T8 m)[x + 16]! = (Leo.nibbleProducts Leo.P8 T8 m)[x + 16]! := by
      unfold Leo.mul256LUT8
      simp [show x + 16 < 32 by omega]
    rw [this, nib_hi _ _ _ _ hx, ho, Nat.mod_eq_of_lt hs]; rfl

/-! ## field identities of Leopard's product (transported through `cm`) -/

theorem leoMul_comm {a b : Nat} (ha : a < 256) (hb : b < 256) :
    Leo.leoMul C8 a b = Leo.leoMul C8 b a := by
  apply cm_inj (leoMul_lt _ _) (leoMul_lt _ _)
  rw [cm_leoMul ha hb, cm_leoMul hb ha, gmul_comm (cm_lt _) (cm_lt _)]

theorem leoMul_assoc {a b c : Nat} (ha : a < 256) (hb : b < 256) (hc : c < 256) :
    Leo.leoMul C8 (Leo.leoMul C8 a b) c = Leo.leoMul C8 a (Leo.leoMul C8 b c) := by
  apply cm_inj (leoMul_lt _ _) (leoMul_lt _ _)
  rw [cm_leoMul (leoMul_lt _ _) hc, cm_leoMul ha hb, cm_leoMul ha (leoMul_lt _ _), cm_leoMul hb hc,
    gmul_assoc (cm_lt _) (cm_lt _) (cm_lt _)]

theorem leoMul_xor_right {a b c : Nat} (ha : a < 256) (hb : b < 256) (hc : c < 256) :
    Leo.leoMul C8 a (b ^^^ c) = Leo.leoMul C8 a b ^^^ Leo.leoMul C8 a c := by
  apply cm_inj (leoMul_lt _ _) (Nat.xor_lt_two_pow (n := 8) (leoMul_lt _ _) (leoMul_lt _ _))
  rw [cm_xor, cm_leoMul ha (Nat.xor_lt_two_pow (n := 8) hb hc), cm_leoMul ha hb, cm_leoMul ha hc,
    cm_xor, gmul_xor_right]

theorem leoMul_xor_left {a b c : Nat} (ha : a < 256) (hb : b < 256) (hc : c < 256) :
    Leo.leoMul C8 (a ^^^ b) c = Leo.leoMul C8 a c ^^^ Leo.leoMul C8 b c := by
  apply cm_inj (leoMul_lt _ _) (Nat.xor_lt_two_pow (n := 8) (leoMul_lt _ _) (leoMul_lt _ _))
  rw [cm_xor, cm_leoMul (Nat.xor_lt_two_pow (n := 8) ha hb) hc, cm_leoMul ha hc, cm_leoMul hb hc,
    cm_xor, gmul_xor_left]

theorem leoMul_one {a : Nat} (ha : a < 256) : Leo.leoMul C8 a 1 = a := by
  apply cm_inj (leoMul_lt _ _) ha
  rw [cm_leoMul ha (by decide), cm_one, gmul_one_right (cm_lt _)]

theorem one_leoMul {a : Nat} (ha : a < 256) : Leo.leoMul C8 1 a = a := by
  rw [leoMul_comm (by decide) ha, leoMul_one ha]

/-- no zero divisors -/
theorem leoMul_eq_zero {a b : Nat} (ha : a < 256) (hb : b < 256) :
    Leo.leoMul C8 a b = 0 ↔ a = 0 ∨ b = 0 := by
  constructor
  · intro h
    have h1 : gmul (cm a) (cm b) = 0 := by rw [← cm_leoMul ha hb, h, cm_zero]
    have h2 : (⟨cm a, cm_lt a⟩ : GF256) * ⟨cm b, cm_lt b⟩ = 0 := GF256.ext h1
    rcases mul_eq_zero.mp h2 with h3 | h3
    · left; exact cm_eq_zero a ha (congrArg GF256.val h3)
    · right; exact cm_eq_zero b hb (congrArg GF256.val h3)
  · rintro (h | h)
    · subst h; rfl
    · subst h; unfold Leo.leoMul; simp

/-- every non-zero element has an inverse for Leopard's product -/
theorem leoMul_inv {a : Nat} (ha : a < 256) (h0 : a ≠ 0) :
    Leo.leoMul C8 a (T8.exp[255 - T8.log[a]!]!) = 1 := by
  have hl := log_lt h0 ha
  apply cm_inj (leoMul_lt _ _) (by decide)
  rw [cm_leoMul ha (exp_lt _), cm_exp (by omega), ← log_spec (by omega) ha, ← gpow_add 2 (by decide),
    show T8.log[a]! + (255 - T8.log[a]!) = 255 by omega, gpow_two_255, cm_one]

/-! ## the image in `GF256` -/

/-- Leopard symbol ↦ `GF256` element -/
def toGF (a : Nat) : GF256 := GF256.ofNat (cm a)

theorem toGF_val (a : Nat) : (toGF a).val = cm a := Nat.mod_eq_of_lt (cm_lt a)

theorem toGF_inj {a b : Nat} (ha : a < 256) (hb : b < 256) (h : toGF a = toGF b) : a = b :=
  cm_inj ha hb (GF256.ofNat_injOn _ _ (cm_lt a) (cm_lt b) h)

theorem toGF_xor (a b : Nat) : toGF (a ^^^ b) = toGF a + toGF b := by
  unfold toGF; rw [cm_xor]; exact GF256.ofNat_xor_add _ _ (cm_lt a) (cm_lt b)

theorem toGF_zero : toGF 0 = 0 := by unfold toGF; rw [cm_zero]; rfl

theorem toGF_leoMul {a b : Nat} (ha : a < 256) (hb : b < 256) :
    toGF (Leo.leoMul C8 a b) = toGF a * toGF b := by
  apply GF256.ext
  rw [GF256.mul_val, toGF_val, toGF_val, toGF_val, cm_leoMul ha hb]

/-- xor-sum of Leopard products over a list of positions -/
def leoDot {ι : Type} (l : List ι) (g t : ι → Nat) : Nat :=
  l.foldl (fun acc c => acc ^^^ Leo.leoMul C8 (g c) (t c)) 0

theorem toGF_fold {ι : Type} (l : List ι) (g t : ι → Nat) (hg : ∀ c, g c < 256)
    (ht : ∀ c, t c < 256) : ∀ acc,
    toGF (l.foldl (fun acc c => acc ^^^ Leo.leoMul C8 (g c) (t c)) acc) =
      toGF acc + (l.map fun c => toGF (g c) * toGF (t c)).sum := by
  induction l with
  | nil => intro acc; simp
  | cons x l ih =>
    intro acc
    simp only [List.foldl_cons, List.map_cons, List.sum_cons]
    rw [ih, toGF_xor, toGF_leoMul (hg x) (ht x), add_assoc]

/-- a parity equation computed in Leopard's arithmetic is the `GF256` equation of the images -/
theorem toGF_leoDot {d : ℕ} (g t : Fin d → Nat) (hg : ∀ c, g c < 256) (ht : ∀ c, t c < 256) :
    toGF (leoDot (List.finRange d) g t) = ∑ c, toGF (g c) * toGF (t c) := by
  unfold leoDot
  rw [toGF_fold _ g t hg ht, toGF_zero, zero_add, Fin.sum_univ_def]

/-! ## the MDS certificate for Leopard GF(2^8) generators -/

theorem leoY_inj {d m : ℕ} (h : d + m ≤ 256) : Function.Injective (Leo.leoY d m) := by
  intro a b hab
  have := toGF_inj (a := m + a.val) (b := m + b.val) (by omega) (by omega) hab
  exact Fin.ext (by omega)

theorem leoX_inj {p : ℕ} (h : p ≤ 256) : Function.Injective (Leo.leoX p) := by
  intro a b hab
  have := toGF_inj (a := a.val) (b := b.val) (by omega) (by omega) (Option.some.inj hab)
  exact Fin.ext this

theorem leoX_ne_leoY {d p m : ℕ} (hpm : p ≤ m) (h : d + m ≤ 256) (r : Fin p) (c : Fin d) :
    Leo.leoX p r ≠ some (Leo.leoY d m c) := by
  intro hab
  have := toGF_inj (a := r.val) (b := m + c.val) (by omega) (by omega) (Option.some.inj hab)
  omega

theorem leo8Cert_sound (d p : ℕ) (G : Array (Array ℕ)) (h : d + Leo.ceilPow2 p ≤ 256)
    (hc : Leo.leo8Cert d p G = true) :
    RSV.CodeTheory.MDS (fun (r : Fin p) (c : Fin d) => (Leo.mapMatrix (p := p) (d := d) G).get r c) := by
  have hpm : p ≤ Leo.ceilPow2 p := le_ceilPow2 (by omega)
  unfold Leo.leo8Cert at hc
  split at hc
  · cases hc
  split at hc
  · cases hc
  exact RSV.CodeTheory.certGC_sound' _ (Leo.leoX p) (Leo.leoY d (Leo.ceilPow2 p)) _ _ hc
    (leoY_inj h) (leoX_inj (by omega)) (leoX_ne_leoY hpm h)

end RSV.Proofs.LeoField
