import RSV.Proofs.LeoField.Lits
import RSV.Proofs.GF256Field
/-!
# Leopard GF(2^8): the Cantor map is an xor-linear bijection of `[0,256)`, and the facts about the
literal `log` / `exp` tables (cheap kernel enumerations over 256 cases)
-/
namespace RSV.Proofs.LeoField
open RSV.Model

/-! ## the Cantor map (any parameters) -/

theorem xor4 (a b c : Nat) : (a ^^^ b) ^^^ c = (a ^^^ c) ^^^ b := by
  apply Nat.eq_of_testBit_eq; intro i; simp only [Nat.testBit_xor]
  cases a.testBit i <;> cases b.testBit i <;> cases c.testBit i <;> rfl

theorem xor_xor_xor (a b c : Nat) : (a ^^^ b) ^^^ (c ^^^ c) = a ^^^ b := by simp

theorem cantor_fold_xor (cb : Array Nat) (i j : Nat) (l : List Nat) : ∀ a b,
    l.foldl (fun acc k => if (i ^^^ j).testBit k then acc ^^^ cb[k]! else acc) (a ^^^ b) =
      l.foldl (fun acc k => if i.testBit k then acc ^^^ cb[k]! else acc) a ^^^
      l.foldl (fun acc k => if j.testBit k then acc ^^^ cb[k]! else acc) b := by
  induction l with
  | nil => intro a b; rfl
  | cons x l ih =>
    intro a b
    simp only [List.foldl_cons]
    rw [← ih]
    congr 1
    rw [Nat.testBit_xor]
    cases i.testBit x <;> cases j.testBit x <;> simp
    · apply Nat.eq_of_testBit_eq; intro n; simp only [Nat.testBit_xor]
      cases a.testBit n <;> cases b.testBit n <;> cases cb[x]!.testBit n <;> rfl
    · apply Nat.eq_of_testBit_eq; intro n; simp only [Nat.testBit_xor]
      cases a.testBit n <;> cases b.testBit n <;> cases cb[x]!.testBit n <;> rfl
    · apply Nat.eq_of_testBit_eq; intro n; simp only [Nat.testBit_xor]
      cases a.testBit n <;> cases b.testBit n <;> cases cb[x]!.testBit n <;> rfl

/-- the Cantor map is xor-linear (any parameters) -/
theorem cantorMap_xor (P : Leo.Params) (i j : Nat) :
    Leo.cantorMap P (i ^^^ j) = Leo.cantorMap P i ^^^ Leo.cantorMap P j := by
  unfold Leo.cantorMap
  have := cantor_fold_xor P.cantor i j (List.range P.bits) 0 0
  simpa using this

theorem cantorMap_zero (P : Leo.Params) : Leo.cantorMap P 0 = 0 := by
  have := cantorMap_xor P 0 0
  simpa using this

theorem cantor_fold_lt (cb : Array Nat) (i n : Nat) (l : List Nat) (h : ∀ k ∈ l, cb[k]! < 2 ^ n) :
    ∀ a, a < 2 ^ n → l.foldl (fun acc k => if i.testBit k then acc ^^^ cb[k]! else acc) a < 2 ^ n := by
  induction l with
  | nil => intro a ha; exact ha
  | cons x l ih =>
    intro a ha
    simp only [List.foldl_cons]
    apply ih (fun k hk => h k (List.mem_cons_of_mem _ hk))
    split
    · exact Nat.xor_lt_two_pow ha (h x List.mem_cons_self)
    · exact ha

/-! ## GF(2^8) -/

theorem cm_xor (i j : Nat) : cm (i ^^^ j) = cm i ^^^ cm j := cantorMap_xor Leo.P8 i j

theorem cm_zero : cm 0 = 0 := cantorMap_zero Leo.P8

theorem cm_lt (i : Nat) : cm i < 256 := by
  unfold cm Leo.cantorMap
  exact cantor_fold_lt Leo.P8.cantor i 8 _ (by decide) 0 (by decide)

theorem cm_eq_zero : ∀ i, i < 256 → cm i = 0 → i = 0 := by decide +kernel

/-- the 8 Cantor literals are a basis: the map is injective on `[0,256)` -/
theorem cm_inj {i j : Nat} (hi : i < 256) (hj : j < 256) (h : cm i = cm j) : i = j := by
  have h1 : cm (i ^^^ j) = 0 := by rw [cm_xor, h, Nat.xor_self]
  have h2 := cm_eq_zero (i ^^^ j) (Nat.xor_lt_two_pow (n := 8) hi hj) h1
  calc i = i ^^^ 0 := (Nat.xor_zero i).symm
    _ = i ^^^ (i ^^^ j) := by rw [h2]
    _ = j := by rw [← Nat.xor_assoc, Nat.xor_self, Nat.zero_xor]

theorem cm_one : cm 1 = 1 := by decide +kernel

set_option maxRecDepth 1000000 in
/-- … and onto `[0,256)` (65,536 evaluations of an 8-step fold) -/
theorem cm_surj : ∀ y, y < 256 → ∃ i, i < 256 ∧ cm i = y := by decide +kernel

/-! ## facts on the literal tables -/

theorem lit_length : logLit.length = 256 ∧ expLit.length = 256 := by decide +kernel

/-- NB: false at `i = 0` (`log 0 = 255` and `exp 255 = exp 0 = 1`) -/
theorem lit_exp_log : ∀ i, i < 256 → i ≠ 0 → expLit[logLit[i]!]! = i := by decide +kernel

theorem lit_exp_log_zero : expLit[logLit[0]!]! = 1 := by decide +kernel

theorem lit_log_exp : ∀ k, k < 255 → logLit[expLit[k]!]! = k := by decide +kernel

theorem lit_log_lt : ∀ i, i < 256 → i ≠ 0 → logLit[i]! < 255 := by decide +kernel

theorem lit_log_zero : logLit[0]! = 255 := by decide +kernel

theorem lit_exp_255 : expLit[255]! = expLit[0]! := by decide +kernel

theorem lit_exp_lt : ∀ k, k < 256 → expLit[k]! < 256 := by decide +kernel

theorem lit_exp_zero : cm (expLit[0]!) = 1 := by decide +kernel

/-- the `exp` literal follows the LFSR `· * x` under the Cantor map (254 field products) -/
theorem lit_exp_succ : ∀ k, k < 254 → cm (expLit[k+1]!) = gmul (cm (expLit[k]!)) 2 := by
  decide +kernel

theorem gpow_two_255 : gpow 2 255 = 1 := by decide +kernel

/-- `cm ∘ exp` is `k ↦ x^k` -/
theorem lit_cm_exp : ∀ k, k ≤ 255 → cm (expLit[k]!) = gpow 2 k := by
  have h : ∀ k, k ≤ 254 → cm (expLit[k]!) = gpow 2 k := by
    intro k
    induction k with
    | zero => intro _; exact lit_exp_zero
    | succ k ih =>
      intro hk
      rw [lit_exp_succ k (by omega), ih (by omega)]
      rfl
  intro k hk
  by_cases h255 : k = 255
  · subst h255; rw [lit_exp_255, lit_exp_zero, gpow_two_255]
  · exact h k (by omega)

/-- `log` is the discrete logarithm to base `x` of the Cantor image -/
theorem lit_log : ∀ i, i < 256 → i ≠ 0 → gpow 2 (logLit[i]!) = cm i := by
  intro i hi h0
  rw [← lit_cm_exp _ (by have := lit_log_lt i hi h0; omega), lit_exp_log i hi h0]

end RSV.Proofs.LeoField
