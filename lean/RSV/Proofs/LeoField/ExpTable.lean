import RSV.Proofs.LeoField.Lits
/-! kernel evaluation of `initLUTs P8`: the `exp` table -/
namespace RSV.Proofs.LeoField
open RSV.Model

set_option maxRecDepth 1000000 in
theorem T8_exp_toList : T8.exp.toList = expLit := by decide +kernel

end RSV.Proofs.LeoField
