import RSV.Proofs.LeoField.Lits
/-! kernel evaluation of `initLUTs P8`: the `log` table -/
namespace RSV.Proofs.LeoField
open RSV.Model

set_option maxRecDepth 1000000 in
theorem T8_log_toList : T8.log.toList = logLit := by decide +kernel

end RSV.Proofs.LeoField
