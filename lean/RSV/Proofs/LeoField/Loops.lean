import RSV.Model.LeoCert
/-!
# Leopard: the `Id.run` loops of `nibbleProducts` and `ceilPow2` (structural, any parameters)

The `for` loops are rewritten to `List.foldl` over `List.range'`; `nibbleProducts` is then a fold of
`set!`s (last write wins, every index written once), `ceilPow2` a 64-fold doubling.
-/
namespace RSV.Proofs.LeoField
open RSV.Model

/-! ## folds of `set!` -/

theorem foldl_set_size (g : Nat → Nat) (base : Nat) (l : List Nat) : ∀ t : Array Nat,
    (l.foldl (fun b x => b.set! (base + x) (g x)) t).size = t.size := by
  induction l with
  | nil => intro t; rfl
  | cons y l ih => intro t; simp only [List.foldl_cons]; rw [ih]; simp

theorem foldl_set_skip (g : Nat → Nat) (base j : Nat) (l : List Nat)
    (hj : ∀ x ∈ l, base + x ≠ j) : ∀ t : Array Nat,
    (l.foldl (fun b x => b.set! (base + x) (g x)) t)[j]! = t[j]! := by
  induction l with
  | nil => intro t; rfl
  | cons y l ih =>
    intro t
    simp only [List.foldl_cons]
    rw [ih (fun x hx => hj x (List.mem_cons_of_mem _ hx))]
    have := hj y List.mem_cons_self
    simp [Array.getElem!_eq_getD, Array.getD_eq_getD_getElem?, this]

theorem foldl_set_hit (g : Nat → Nat) (base x : Nat) (l : List Nat) (hx : x ∈ l) : ∀ t : Array Nat,
    base + x < t.size → (l.foldl (fun b x => b.set! (base + x) (g x)) t)[base + x]! = g x := by
  induction l with
  | nil => cases hx
  | cons y l ih =>
    intro t ht
    simp only [List.foldl_cons]
    by_cases hxl : x ∈ l
    · exact ih hxl _ (by simpa using ht)
    · have hxy : x = y := by
        rcases List.mem_cons.mp hx with h | h
        · exact h
        · exact absurd h hxl
      subst hxy
      rw [foldl_set_skip g base (base + x) l (fun z hz h => hxl (by have : z = x := by omega
                                                                    rw [← this]; exact hz))]
      simp [ht]

theorem nib_lo (P : Leo.Params) (T : Leo.LUTs) (m x : Nat) (hx : x < 16) :
    (Leo.nibbleProducts P T m)[x]! = Leo.mulLog P T (x % P.order) m := by
  unfold Leo.nibbleProducts
  simp only [Std.Legacy.Range.forIn_eq_forIn_range', Std.Legacy.Range.size,
    List.forIn_pure_yield_eq_foldl, pure_bind, bind_pure, Id.run_pure, Nat.sub_zero,
    Nat.add_one_sub_one, Nat.div_one]
  rw [show List.range' 0 4 = [0, 1, 2, 3] from rfl]
  simp only [List.foldl_cons, List.foldl_nil]
  have hmem : ∀ z, z ∈ List.range' 0 16 ↔ z < 16 := by intro z; simp [List.mem_range'_1]
  rw [foldl_set_skip (fun x => Leo.mulLog P T (x <<< (4 * 3) % P.order) m) (3 * 16) x _
        (fun z hz => by have := (hmem z).mp hz; omega),
      foldl_set_skip (fun x => Leo.mulLog P T (x <<< (4 * 2) % P.order) m) (2 * 16) x _
        (fun z hz => by have := (hmem z).mp hz; omega),
      foldl_set_skip (fun x => Leo.mulLog P T (x <<< (4 * 1) % P.order) m) (1 * 16) x _
        (fun z hz => by have := (hmem z).mp hz; omega)]
  have := foldl_set_hit (fun x => Leo.mulLog P T (x <<< (4 * 0) % P.order) m) (0 * 16) x _
    ((hmem x).mpr hx) (Array.replicate 64 0) (by simp; omega)
  simpa using this

theorem nib_hi (P : Leo.Params) (T : Leo.LUTs) (m x : Nat) (hx : x < 16) :
    (Leo.nibbleProducts P T m)[x + 16]! = Leo.mulLog P T ((x <<< 4) % P.order) m := by
  unfold Leo.nibbleProducts
  simp only [Std.Legacy.Range.forIn_eq_forIn_range', Std.Legacy.Range.size,
    List.forIn_pure_yield_eq_foldl, pure_bind, bind_pure, Id.run_pure, Nat.sub_zero,
    Nat.add_one_sub_one, Nat.div_one]
  rw [show List.range' 0 4 = [0, 1, 2, 3] from rfl]
  simp only [List.foldl_cons, List.foldl_nil]
  have hmem : ∀ z, z ∈ List.range' 0 16 ↔ z < 16 := by intro z; simp [List.mem_range'_1]
  rw [foldl_set_skip (fun x => Leo.mulLog P T (x <<< (4 * 3) % P.order) m) (3 * 16) (x + 16) _
        (fun z hz => by have := (hmem z).mp hz; omega),
      foldl_set_skip (fun x => Leo.mulLog P T (x <<< (4 * 2) % P.order) m) (2 * 16) (x + 16) _
        (fun z hz => by have := (hmem z).mp hz; omega)]
  have := foldl_set_hit (fun x => Leo.mulLog P T (x <<< (4 * 1) % P.order) m) (1 * 16) x _
    ((hmem x).mpr hx) (List.foldl (fun b x => b.set! (0 * 16 + x)
      (Leo.mulLog P T (x <<< (4 * 0) % P.order) m)) (Array.replicate 64 0) (List.range' 0 16))
    (by rw [foldl_set_size]; simp; omega)
  rw [show x + 16 = 1 * 16 + x by omega]
  simpa using this


/-! ## `ceilPow2` -/

theorem ceil_fold (n : Nat) (l : List Nat) : ∀ k j, (n ≤ k ∨ k = 2 ^ j) →
    (n ≤ l.foldl (fun s (_ : Nat) => if s < n then s * 2 else s) k ∨
      l.foldl (fun s (_ : Nat) => if s < n then s * 2 else s) k = 2 ^ (j + l.length)) := by
  induction l with
  | nil => intro k j h; simpa using h
  | cons y l ih =>
    intro k j h
    simp only [List.foldl_cons, List.length_cons]
    have := ih (if k < n then k * 2 else k) (j + 1) (by
      split
      · right; rcases h with h | h
        · omega
        · rw [h, Nat.pow_succ]
      · left; omega)
    rwa [show j + 1 + l.length = j + (l.length + 1) by omega] at this

theorem ceilPow2_spec (n : Nat) : n ≤ Leo.ceilPow2 n ∨ Leo.ceilPow2 n = 2 ^ 64 := by
  unfold Leo.ceilPow2
  have hf : (fun (x : Nat) (s : Nat) =>
      (if s < n then pure (ForInStep.yield (s * 2)) else pure (ForInStep.yield s) : Id (ForInStep Nat))) =
      fun x s => pure (ForInStep.yield (if s < n then s * 2 else s)) := by
    funext x s; split <;> rfl
  simp only [Std.Legacy.Range.forIn_eq_forIn_range', Std.Legacy.Range.size, hf,
    List.forIn_pure_yield_eq_foldl, bind_pure, Id.run_pure, Nat.sub_zero,
    Nat.add_one_sub_one, Nat.div_one]
  have := ceil_fold n (List.range' 0 64) 1 0 (Or.inr rfl)
  simpa using this

theorem le_ceilPow2 {p : Nat} (h : Leo.ceilPow2 p ≤ 256) : p ≤ Leo.ceilPow2 p := by
  rcases ceilPow2_spec p with h1 | h1
  · exact h1
  · rw [h1] at h; omega

end RSV.Proofs.LeoField
