import RSV.Model.Leopard
/-!
# Leopard schedules: structural facts about the interpreter `run` (core Lean only)

Everything here is about `RSV.Model.Leo.run` on an ARBITRARY list of `Step`s, so it applies to
`encodeSched d p` and `reconSched d p missing el` for every `(d, p)`, every erasure set and every
shard size.

* `WF len v`: every row of `v` has `len` symbols.   `InRange nrows nshards s`: step `s` addresses
  work rows `< nrows` and shards `< nshards`.
* `run_wf`: well-formedness and the number of rows are preserved.
* `run_map` (`RowHom`): a row map `f` that commutes with zero / `mulVec` / `xorVec` commutes with `run`
  — instances: the projection onto symbol `k` (locality) and any symbol window `[a, b)` (chunking).
* `run_zipWith` (`RowHom2`): a binary row map `g` that commutes with zero / `mulVec` / `xorVec`
  commutes with `run` — instances: `xorVec` (linearity, needs `MulLinear`) and `++` (chunking).
* `initOK` / `definedAfter` / `run_scratch`: independence of the initial work contents.
* `le_ceilPow2`, `size_encode`, `size_reconstruct`, `reconstruct_present`, `reconstruct_dataOnly`;
  `encode_map` / `encode_zipWith` / `reconstruct_map` / `reconstruct_zipWith` lift the two homomorphism
  theorems to the wrappers; `errLocs_congr` / `reconSched_congr` / `reconstruct_congr`: dependence on the
  erasure set only through `[0, d + p)`.
-/
namespace RSV.Proofs.LeoSched
open RSV.Model.Leo

/-! ## 0. array helpers phrased with `a[i]!` -/

theorem get!_lt {α} [Inhabited α] (a : Array α) (i : Nat) (h : i < a.size) : a[i]! = a[i] :=
  getElem!_pos a i h

theorem get!_ge {α} [Inhabited α] (a : Array α) (i : Nat) (h : a.size ≤ i) : a[i]! = default :=
  getElem!_neg a i (Nat.not_lt.mpr h)

theorem ext! {α} [Inhabited α] {a b : Array α} (hs : a.size = b.size)
    (h : ∀ i, i < a.size → a[i]! = b[i]!) : a = b := by
  apply Array.ext hs
  intro i h1 h2
  have := h i h1
  rwa [get!_lt a i h1, get!_lt b i h2] at this

@[simp] theorem size_set! {α} (a : Array α) (d : Nat) (v : α) : (a.set! d v).size = a.size := by
  simp [Array.set!_eq_setIfInBounds]

theorem get!_set! {α} [Inhabited α] (a : Array α) (d i : Nat) (v : α) :
    (a.set! d v)[i]! = if d = i ∧ d < a.size then v else a[i]! := by
  rw [Array.set!_eq_setIfInBounds]
  by_cases hi : i < a.size
  · rw [get!_lt _ i (by simpa using hi), Array.getElem_setIfInBounds hi, get!_lt a i hi]
    by_cases hd : d = i
    · subst hd; simp [hi]
    · simp [hd]
  · have hi' : a.size ≤ i := Nat.le_of_not_lt hi
    rw [get!_ge _ i (by simpa using hi'), get!_ge a i hi']
    by_cases hd : d = i
    · subst hd; simp [hi]
    · simp [hd]

theorem get!_set!_self {α} [Inhabited α] (a : Array α) (d : Nat) (v : α) (h : d < a.size) :
    (a.set! d v)[d]! = v := by rw [get!_set!, if_pos ⟨rfl, h⟩]

theorem get!_set!_ne {α} [Inhabited α] (a : Array α) (d i : Nat) (v : α) (h : d ≠ i) :
    (a.set! d v)[i]! = a[i]! := by rw [get!_set!, if_neg (fun hh => h hh.1)]

theorem map_set! {α β} (f : α → β) (a : Array α) (d : Nat) (v : α) :
    (a.set! d v).map f = (a.map f).set! d (f v) := by
  simp [Array.set!_eq_setIfInBounds, Array.map_setIfInBounds]

theorem get!_map {α β} [Inhabited α] [Inhabited β] (f : α → β) (a : Array α) (i : Nat)
    (h : i < a.size) : (a.map f)[i]! = f a[i]! := by
  rw [get!_lt _ i (by simpa using h), get!_lt a i h]; simp

theorem get!_zipWith {α β γ} [Inhabited α] [Inhabited β] [Inhabited γ] (g : α → β → γ)
    (a : Array α) (b : Array β) (i : Nat) (ha : i < a.size) (hb : i < b.size) :
    (Array.zipWith g a b)[i]! = g a[i]! b[i]! := by
  rw [get!_lt _ i (by simp [Array.size_zipWith]; omega), get!_lt a i ha, get!_lt b i hb]; simp

theorem zipWith_set! {α β γ} (g : α → β → γ) (a : Array α) (b : Array β) (d : Nat) (x : α) (y : β)
    (hs : a.size = b.size) :
    Array.zipWith g (a.set! d x) (b.set! d y) = (Array.zipWith g a b).set! d (g x y) := by
  apply Array.ext
  · simp [Array.set!_eq_setIfInBounds, Array.size_zipWith]
  · intro i h1 h2
    simp only [Array.set!_eq_setIfInBounds, Array.size_zipWith, Array.size_setIfInBounds] at h1 h2
    have hia : i < a.size := by omega
    have hib : i < b.size := by omega
    simp only [Array.set!_eq_setIfInBounds, Array.getElem_zipWith,
      Array.getElem_setIfInBounds hia, Array.getElem_setIfInBounds hib]
    rw [Array.getElem_setIfInBounds (by simp [Array.size_zipWith]; omega)]
    by_cases hd : d = i <;> simp [hd]

/-! ## 1. rows: sizes and symbols of `zeroVec`, `xorVec`, `mulVec` -/

variable (C : Ctx)

@[simp] theorem size_zeroVec (len : Nat) : (zeroVec len).size = len := by simp [zeroVec]
@[simp] theorem size_xorVec (x y : Vec) : (xorVec x y).size = x.size := by simp [xorVec]
@[simp] theorem size_mulVec (x : Vec) (m : Nat) : (mulVec C x m).size = x.size := by simp [mulVec]

theorem get!_zeroVec (len k : Nat) : (zeroVec len)[k]! = 0 := by
  by_cases h : k < len
  · rw [get!_lt _ k (by simpa using h)]; simp [zeroVec]
  · rw [get!_ge _ k (by simpa using Nat.le_of_not_lt h)]; rfl

theorem get!_xorVec (x y : Vec) (k : Nat) (h : k < x.size) :
    (xorVec x y)[k]! = x[k]! ^^^ y[k]! := by
  rw [get!_lt _ k (by simpa using h), get!_lt x k h]; simp [xorVec]

theorem get!_mulVec (x : Vec) (m k : Nat) (h : k < x.size) :
    (mulVec C x m)[k]! = mulSym C x[k]! m := by
  rw [get!_lt _ k (by simpa using h), get!_lt x k h]; simp [mulVec]

/-- `mulSym C 0 m = 0` holds by definition of `mulLog` (the `a = 0` guard) -/
theorem mulSym_zero (m : Nat) : mulSym C 0 m = 0 := by simp [mulSym, mulLog]

/-- the two algebraic facts about the symbol multiplication used by linearity -/
structure MulLinear (C : Ctx) : Prop where
  zero : ∀ m, mulSym C 0 m = 0
  xor : ∀ a b m, mulSym C (a ^^^ b) m = mulSym C a m ^^^ mulSym C b m

/-! ## 2. well-formedness -/

/-- every row has `len` symbols -/
def WF (len : Nat) (w : Array Vec) : Prop := ∀ i, i < w.size → w[i]!.size = len

/-- the step addresses rows inside the work area and shards inside the shard set -/
def InRange (nrows nshards : Nat) : Step → Prop
  | .load dst sh => dst < nrows ∧ sh < nshards
  | .loadMul dst sh _ => dst < nrows ∧ sh < nshards
  | .clear dst => dst < nrows
  | .mulAdd dst src _ => dst < nrows ∧ src < nrows
  | .xor dst src => dst < nrows ∧ src < nrows

instance (nrows nshards : Nat) (s : Step) : Decidable (InRange nrows nshards s) := by
  cases s <;> unfold InRange <;> infer_instance

/-- executable form of `∀ s ∈ steps, InRange nrows nshards s` -/
def allInRange (nrows nshards : Nat) (steps : List Step) : Bool :=
  steps.all fun s => decide (InRange nrows nshards s)

theorem allInRange_iff (nrows nshards : Nat) (steps : List Step) :
    allInRange nrows nshards steps = true ↔ ∀ s ∈ steps, InRange nrows nshards s := by
  simp [allInRange]

theorem WF_set! {len : Nat} {w : Array Vec} (hw : WF len w) (d : Nat) (v : Vec) (hv : v.size = len) :
    WF len (w.set! d v) := by
  intro i hi
  rw [get!_set!]
  split
  · exact hv
  · exact hw i (by simpa using hi)

theorem WF_replicate (n len : Nat) : WF len (Array.replicate n (zeroVec len)) := by
  intro i hi
  have hi' : i < n := by simpa using hi
  rw [get!_lt _ i hi]; simp

@[simp] theorem run_nil (shards : Array Vec) (len : Nat) (w : Array Vec) :
    run C shards len w [] = w := rfl

@[simp] theorem run_cons (shards : Array Vec) (len : Nat) (w : Array Vec) (s : Step) (ss : List Step) :
    run C shards len w (s :: ss) = run C shards len (step C shards len w s) ss := rfl

/-- the shard set is a read-only parameter of `run`: it is threaded unchanged through every step and
is not part of the result; running `s₁ ++ s₂` is running `s₁` then `s₂` on the SAME shards -/
theorem run_append (shards : Array Vec) (len : Nat) (w : Array Vec) (s₁ s₂ : List Step) :
    run C shards len w (s₁ ++ s₂) = run C shards len (run C shards len w s₁) s₂ := by
  simp [run, List.foldl_append]

@[simp] theorem size_step (shards : Array Vec) (len : Nat) (w : Array Vec) (s : Step) :
    (step C shards len w s).size = w.size := by
  cases s <;> simp [step]

/-- the number of work rows never changes (no hypothesis needed) -/
@[simp] theorem size_run (shards : Array Vec) (len : Nat) (w : Array Vec) (steps : List Step) :
    (run C shards len w steps).size = w.size := by
  induction steps generalizing w with
  | nil => rfl
  | cons s ss ih => rw [run_cons, ih, size_step]

theorem step_wf {len : Nat} {shards w : Array Vec} (hw : WF len w) (hs : WF len shards) {s : Step}
    (hr : InRange w.size shards.size s) : WF len (step C shards len w s) := by
  cases s with
  | load d sh => exact WF_set! hw _ _ (hs sh hr.2)
  | loadMul d sh m => exact WF_set! hw _ _ (by rw [size_mulVec]; exact hs sh hr.2)
  | clear d => exact WF_set! hw _ _ (size_zeroVec len)
  | mulAdd d src m => exact WF_set! hw _ _ (by rw [size_xorVec]; exact hw d hr.1)
  | xor d src => exact WF_set! hw _ _ (by rw [size_xorVec]; exact hw d hr.1)

/-- **well-formedness is preserved** -/
theorem run_wf {len : Nat} {shards w : Array Vec} (hw : WF len w) (hs : WF len shards)
    {steps : List Step} (hr : ∀ s ∈ steps, InRange w.size shards.size s) :
    WF len (run C shards len w steps) ∧ (run C shards len w steps).size = w.size := by
  refine ⟨?_, size_run C shards len w steps⟩
  induction steps generalizing w with
  | nil => exact hw
  | cons s ss ih =>
    rw [run_cons]
    apply ih (step_wf C hw hs (hr s (by simp)))
    intro t ht
    rw [size_step]
    exact hr t (by simp [ht])

/-! ## 3. unary row homomorphisms commute with `run` -/

/-- `f` maps rows of `len` symbols to rows of `len'` symbols and commutes with the three row
operations of the interpreter -/
structure RowHom (C : Ctx) (len len' : Nat) (f : Vec → Vec) : Prop where
  zero : f (zeroVec len) = zeroVec len'
  mul : ∀ x m, x.size = len → f (mulVec C x m) = mulVec C (f x) m
  xor : ∀ x y, x.size = len → y.size = len → f (xorVec x y) = xorVec (f x) (f y)

theorem step_map {len len' : Nat} {f : Vec → Vec} (hf : RowHom C len len' f)
    {shards w : Array Vec} (hw : WF len w) (hs : WF len shards) {s : Step}
    (hr : InRange w.size shards.size s) :
    (step C shards len w s).map f = step C (shards.map f) len' (w.map f) s := by
  cases s with
  | load d sh => simp only [step]; rw [map_set!, get!_map f shards sh hr.2]
  | loadMul d sh m =>
    simp only [step]; rw [map_set!, get!_map f shards sh hr.2, hf.mul _ _ (hs sh hr.2)]
  | clear d => simp only [step]; rw [map_set!, hf.zero]
  | mulAdd d src m =>
    simp only [step]
    rw [map_set!, get!_map f w d hr.1, get!_map f w src hr.2,
      hf.xor _ _ (hw d hr.1) (by rw [size_mulVec]; exact hw src hr.2), hf.mul _ _ (hw src hr.2)]
  | xor d src =>
    simp only [step]
    rw [map_set!, get!_map f w d hr.1, get!_map f w src hr.2, hf.xor _ _ (hw d hr.1) (hw src hr.2)]

theorem run_map {len len' : Nat} {f : Vec → Vec} (hf : RowHom C len len' f)
    {shards w : Array Vec} (hw : WF len w) (hs : WF len shards) {steps : List Step}
    (hr : ∀ s ∈ steps, InRange w.size shards.size s) :
    (run C shards len w steps).map f = run C (shards.map f) len' (w.map f) steps := by
  induction steps generalizing w with
  | nil => rfl
  | cons s ss ih =>
    rw [run_cons, run_cons, ← step_map C hf hw hs (hr s (by simp))]
    apply ih (step_wf C hw hs (hr s (by simp)))
    intro t ht
    rw [size_step]
    exact hr t (by simp [ht])

/-! ### instance: projection onto symbol `k` -/

/-- each row reduced to its `k`-th symbol -/
def proj (k : Nat) (v : Array Vec) : Array Vec := v.map fun row => #[row[k]!]

theorem rowHom_proj {len k : Nat} (hk : k < len) : RowHom C len 1 (fun row => #[row[k]!]) where
  zero := by rw [get!_zeroVec]; rfl
  mul := by
    intro x m hx
    rw [get!_mulVec C x m k (by omega)]
    simp [mulVec]
  xor := by
    intro x y hx hy
    rw [get!_xorVec x y k (by omega)]
    apply ext! (by simp)
    intro i hi
    have hi0 : i = 0 := by simpa using hi
    subst hi0
    rw [get!_xorVec _ _ 0 (by simp)]
    simp

/-! ### instance: symbol windows `[a, b)` -/

theorem get!_extract {α} [Inhabited α] (x : Array α) (a b i : Nat) (hi : i < b - a) (hb : b ≤ x.size) :
    (x.extract a b)[i]! = x[a + i]! := by
  rw [get!_lt _ i (by simp [Array.size_extract]; omega), get!_lt x (a + i) (by omega)]
  simp

theorem RowHom.congr {C : Ctx} {len len' : Nat} {f f' : Vec → Vec} (hf : RowHom C len len' f)
    (h : ∀ x, x.size = len → f x = f' x) : RowHom C len len' f' where
  zero := by rw [← h _ (size_zeroVec len)]; exact hf.zero
  mul := by
    intro x m hx
    rw [← h _ (by rw [size_mulVec]; exact hx), ← h _ hx]; exact hf.mul x m hx
  xor := by
    intro x y hx hy
    rw [← h _ (by rw [size_xorVec]; exact hx), ← h _ hx, ← h _ hy]; exact hf.xor x y hx hy

theorem rowHom_window {len a b : Nat} (hb : b ≤ len) :
    RowHom C len (b - a) (fun row => row.extract a b) where
  zero := by
    apply ext! (by simp [Array.size_extract]; omega)
    intro i hi
    have hi' : i < b - a := by simp [Array.size_extract] at hi; omega
    rw [get!_extract _ a b i hi' (by simpa using hb), get!_zeroVec, get!_zeroVec]
  mul := by
    intro x m hx
    apply ext! (by simp [Array.size_extract])
    intro i hi
    have hi' : i < b - a := by simp [Array.size_extract] at hi; omega
    rw [get!_extract _ a b i hi' (by simp; omega), get!_mulVec C x m _ (by omega),
      get!_mulVec C _ m i (by simp [Array.size_extract]; omega), get!_extract x a b i hi' (by omega)]
  xor := by
    intro x y hx hy
    apply ext! (by simp [Array.size_extract])
    intro i hi
    have hi' : i < b - a := by simp [Array.size_extract] at hi; omega
    rw [get!_extract _ a b i hi' (by simp; omega), get!_xorVec x y _ (by omega),
      get!_xorVec _ _ i (by simp [Array.size_extract]; omega), get!_extract x a b i hi' (by omega),
      get!_extract y a b i hi' (by omega)]

/-! ## 4. binary row homomorphisms commute with `run` -/

/-- `g` combines a row of `l₁` and a row of `l₂` symbols into a row of `l` symbols and commutes
with the three row operations of the interpreter -/
structure RowHom2 (C : Ctx) (l₁ l₂ l : Nat) (g : Vec → Vec → Vec) : Prop where
  size : ∀ x y, x.size = l₁ → y.size = l₂ → (g x y).size = l
  zero : g (zeroVec l₁) (zeroVec l₂) = zeroVec l
  mul : ∀ x y m, x.size = l₁ → y.size = l₂ → g (mulVec C x m) (mulVec C y m) = mulVec C (g x y) m
  xor : ∀ x x' y y', x.size = l₁ → x'.size = l₁ → y.size = l₂ → y'.size = l₂ →
    g (xorVec x x') (xorVec y y') = xorVec (g x y) (g x' y')

theorem WF_zipWith {l₁ l₂ l : Nat} {g : Vec → Vec → Vec}
    (hsz : ∀ x y, x.size = l₁ → y.size = l₂ → (g x y).size = l)
    {a b : Array Vec} (ha : WF l₁ a) (hb : WF l₂ b) : WF l (Array.zipWith g a b) := by
  intro i hi
  have hi' : i < a.size ∧ i < b.size := by simp [Array.size_zipWith] at hi; omega
  rw [get!_zipWith g a b i hi'.1 hi'.2]
  exact hsz _ _ (ha i hi'.1) (hb i hi'.2)

theorem step_zipWith {l₁ l₂ l : Nat} {g : Vec → Vec → Vec} (hg : RowHom2 C l₁ l₂ l g)
    {s₁ s₂ w₁ w₂ : Array Vec} (hw₁ : WF l₁ w₁) (hw₂ : WF l₂ w₂) (hs₁ : WF l₁ s₁) (hs₂ : WF l₂ s₂)
    (hws : w₁.size = w₂.size) (hss : s₁.size = s₂.size) {s : Step}
    (hr : InRange w₁.size s₁.size s) :
    step C (Array.zipWith g s₁ s₂) l (Array.zipWith g w₁ w₂) s =
      Array.zipWith g (step C s₁ l₁ w₁ s) (step C s₂ l₂ w₂ s) := by
  cases s with
  | load d sh =>
    simp only [step]
    rw [zipWith_set! g _ _ _ _ _ hws, get!_zipWith g s₁ s₂ sh hr.2 (hss ▸ hr.2)]
  | loadMul d sh m =>
    simp only [step]
    rw [zipWith_set! g _ _ _ _ _ hws, get!_zipWith g s₁ s₂ sh hr.2 (hss ▸ hr.2),
      hg.mul _ _ _ (hs₁ sh hr.2) (hs₂ sh (hss ▸ hr.2))]
  | clear d =>
    simp only [step]
    rw [zipWith_set! g _ _ _ _ _ hws, hg.zero]
  | mulAdd d src m =>
    simp only [step]
    have hd₂ : d < w₂.size := hws ▸ hr.1
    have hsrc₂ : src < w₂.size := hws ▸ hr.2
    rw [zipWith_set! g _ _ _ _ _ hws, get!_zipWith g w₁ w₂ d hr.1 hd₂,
      get!_zipWith g w₁ w₂ src hr.2 hsrc₂,
      hg.xor _ _ _ _ (hw₁ d hr.1) (by rw [size_mulVec]; exact hw₁ src hr.2) (hw₂ d hd₂)
        (by rw [size_mulVec]; exact hw₂ src hsrc₂),
      hg.mul _ _ _ (hw₁ src hr.2) (hw₂ src hsrc₂)]
  | xor d src =>
    simp only [step]
    have hd₂ : d < w₂.size := hws ▸ hr.1
    have hsrc₂ : src < w₂.size := hws ▸ hr.2
    rw [zipWith_set! g _ _ _ _ _ hws, get!_zipWith g w₁ w₂ d hr.1 hd₂,
      get!_zipWith g w₁ w₂ src hr.2 hsrc₂,
      hg.xor _ _ _ _ (hw₁ d hr.1) (hw₁ src hr.2) (hw₂ d hd₂) (hw₂ src hsrc₂)]

theorem run_zipWith {l₁ l₂ l : Nat} {g : Vec → Vec → Vec} (hg : RowHom2 C l₁ l₂ l g)
    {s₁ s₂ w₁ w₂ : Array Vec} (hw₁ : WF l₁ w₁) (hw₂ : WF l₂ w₂) (hs₁ : WF l₁ s₁) (hs₂ : WF l₂ s₂)
    (hws : w₁.size = w₂.size) (hss : s₁.size = s₂.size) {steps : List Step}
    (hr : ∀ s ∈ steps, InRange w₁.size s₁.size s) :
    run C (Array.zipWith g s₁ s₂) l (Array.zipWith g w₁ w₂) steps =
      Array.zipWith g (run C s₁ l₁ w₁ steps) (run C s₂ l₂ w₂ steps) := by
  induction steps generalizing w₁ w₂ with
  | nil => rfl
  | cons s ss ih =>
    have hr₁ : InRange w₁.size s₁.size s := hr s (by simp)
    have hr₂ : InRange w₂.size s₂.size s := by rw [← hws, ← hss]; exact hr₁
    rw [run_cons, run_cons, run_cons, step_zipWith C hg hw₁ hw₂ hs₁ hs₂ hws hss hr₁]
    apply ih (step_wf C hw₁ hs₁ hr₁) (step_wf C hw₂ hs₂ hr₂) (by simp [hws])
    intro t ht
    rw [size_step]
    exact hr t (by simp [ht])

/-! ### instance: `xorVec` (linearity) -/

theorem xor4 (a b c d : Nat) : (a ^^^ b) ^^^ (c ^^^ d) = (a ^^^ c) ^^^ (b ^^^ d) := by
  apply Nat.eq_of_testBit_eq; intro i; simp only [Nat.testBit_xor]
  cases a.testBit i <;> cases b.testBit i <;> cases c.testBit i <;> cases d.testBit i <;> rfl

theorem rowHom2_xor (hC : MulLinear C) (len : Nat) : RowHom2 C len len len xorVec where
  size := by intro x y hx _; rw [size_xorVec]; exact hx
  zero := by
    apply ext! (by simp)
    intro i hi
    rw [get!_xorVec _ _ i (by simpa using hi), get!_zeroVec]; rfl
  mul := by
    intro x y m hx hy
    apply ext! (by simp)
    intro i hi
    have hi' : i < len := by simpa [hx] using hi
    rw [get!_xorVec _ _ i (by simp; omega), get!_mulVec C x m i (by omega),
      get!_mulVec C y m i (by omega), get!_mulVec C _ m i (by simp; omega),
      get!_xorVec x y i (by omega), hC.xor]
  xor := by
    intro x x' y y' hx hx' hy hy'
    apply ext! (by simp)
    intro i hi
    have hi' : i < len := by simpa [hx] using hi
    rw [get!_xorVec _ _ i (by simp; omega), get!_xorVec x x' i (by omega),
      get!_xorVec y y' i (by omega), get!_xorVec _ _ i (by simp; omega),
      get!_xorVec x y i (by omega), get!_xorVec x' y' i (by omega), xor4]

/-! ### instance: `++` (chunking) -/

theorem get!_append (x y : Vec) (i : Nat) :
    (x ++ y)[i]! = if i < x.size then x[i]! else y[i - x.size]! := by
  by_cases h : i < (x ++ y).size
  · rw [get!_lt _ i h, Array.getElem_append]
    have h' : i < x.size + y.size := by simpa using h
    by_cases h1 : i < x.size
    · simp [h1]
    · simp only [h1, dite_false, if_false]; rw [get!_lt y (i - x.size) (by omega)]
  · have h' : x.size + y.size ≤ i := by simpa using h
    rw [get!_ge _ i (by simpa using h'), if_neg (by omega), get!_ge y _ (by omega)]

theorem rowHom2_append (l₁ l₂ : Nat) : RowHom2 C l₁ l₂ (l₁ + l₂) (· ++ ·) where
  size := by intro x y hx hy; simp [hx, hy]
  zero := by
    apply ext! (by simp)
    intro i _
    rw [get!_append, get!_zeroVec, get!_zeroVec, get!_zeroVec]; simp
  mul := by
    intro x y m _ _
    simp [mulVec]
  xor := by
    intro x x' y y' hx hx' hy hy'
    apply ext! (by simp)
    intro i hi
    have hi' : i < l₁ + l₂ := by simpa [hx, hy] using hi
    show (xorVec x x' ++ xorVec y y')[i]! = (xorVec (x ++ y) (x' ++ y'))[i]!
    rw [get!_xorVec (x ++ y) (x' ++ y') i (by simp; omega), get!_append, get!_append, get!_append]
    simp only [size_xorVec, hx, hx']
    by_cases h1 : i < l₁
    · simp only [h1, if_true]; rw [get!_xorVec x x' i (by omega)]
    · simp only [h1, if_false]; rw [get!_xorVec y y' _ (by omega)]

/-! ## 5. the zero schedule state -/

/-- `n` rows of `len` zero symbols -/
def zeroRows (n len : Nat) : Array Vec := Array.replicate n (zeroVec len)

@[simp] theorem size_zeroRows (n len : Nat) : (zeroRows n len).size = n := by simp [zeroRows]

theorem get!_zeroRows (n len i : Nat) (h : i < n) : (zeroRows n len)[i]! = zeroVec len := by
  rw [get!_lt _ i (by simpa using h)]; simp [zeroRows]

theorem WF_zeroRows (n len : Nat) : WF len (zeroRows n len) := WF_replicate n len

theorem zeroRows_set! (n len d : Nat) : (zeroRows n len).set! d (zeroVec len) = zeroRows n len := by
  apply ext! (by simp)
  intro i hi
  have hi' : i < n := by simpa using hi
  rw [get!_set!, get!_zeroRows n len i hi']
  split <;> rfl

theorem mulVec_zeroVec (hC : MulLinear C) (len m : Nat) : mulVec C (zeroVec len) m = zeroVec len := by
  apply ext! (by simp)
  intro i hi
  rw [get!_mulVec C _ m i (by simpa using hi), get!_zeroVec, hC.zero]

theorem xorVec_zeroVec (len : Nat) : xorVec (zeroVec len) (zeroVec len) = zeroVec len := by
  apply ext! (by simp)
  intro i hi
  rw [get!_xorVec _ _ i (by simpa using hi), get!_zeroVec]; rfl

theorem step_zero (hC : MulLinear C) {n nsh len : Nat} {s : Step} (hr : InRange n nsh s) :
    step C (zeroRows nsh len) len (zeroRows n len) s = zeroRows n len := by
  cases s with
  | load d sh => simp only [step]; rw [get!_zeroRows nsh len sh hr.2, zeroRows_set!]
  | loadMul d sh m =>
    simp only [step]; rw [get!_zeroRows nsh len sh hr.2, mulVec_zeroVec C hC, zeroRows_set!]
  | clear d => simp only [step]; rw [zeroRows_set!]
  | mulAdd d src m =>
    simp only [step]
    rw [get!_zeroRows n len d hr.1, get!_zeroRows n len src hr.2, mulVec_zeroVec C hC,
      xorVec_zeroVec, zeroRows_set!]
  | xor d src =>
    simp only [step]
    rw [get!_zeroRows n len d hr.1, get!_zeroRows n len src hr.2, xorVec_zeroVec, zeroRows_set!]

/-- all-zero shards and all-zero work give all-zero work -/
theorem run_zero (hC : MulLinear C) {n nsh len : Nat} {steps : List Step}
    (hr : ∀ s ∈ steps, InRange n nsh s) :
    run C (zeroRows nsh len) len (zeroRows n len) steps = zeroRows n len := by
  induction steps with
  | nil => rfl
  | cons s ss ih =>
    rw [run_cons, step_zero C hC (hr s (by simp))]
    exact ih fun t ht => hr t (by simp [ht])

/-! ## 6. row-wise xor of two states, finite xor-combinations -/

/-- row-wise xor of two work areas / shard sets of equal shape -/
def xorRows (a b : Array Vec) : Array Vec := Array.zipWith xorVec a b

theorem size_xorRows (a b : Array Vec) (h : a.size = b.size) : (xorRows a b).size = a.size := by
  simp [xorRows, Array.size_zipWith, h]

theorem WF_xorRows {len : Nat} {a b : Array Vec} (ha : WF len a) (hb : WF len b) :
    WF len (xorRows a b) :=
  WF_zipWith (fun x y hx _ => by rw [size_xorVec]; exact hx) ha hb

/-- linearity of `run` in (shards, work) -/
theorem run_xorRows (hC : MulLinear C) {len : Nat} {s₁ s₂ w₁ w₂ : Array Vec}
    (hw₁ : WF len w₁) (hw₂ : WF len w₂) (hs₁ : WF len s₁) (hs₂ : WF len s₂)
    (hws : w₁.size = w₂.size) (hss : s₁.size = s₂.size) {steps : List Step}
    (hr : ∀ s ∈ steps, InRange w₁.size s₁.size s) :
    run C (xorRows s₁ s₂) len (xorRows w₁ w₂) steps =
      xorRows (run C s₁ len w₁ steps) (run C s₂ len w₂ steps) :=
  run_zipWith C (rowHom2_xor C hC len) hw₁ hw₂ hs₁ hs₂ hws hss hr

/-- xor of a finite family of states of shape `n × len` -/
def xorSum (n len : Nat) (l : List (Array Vec)) : Array Vec := l.foldr xorRows (zeroRows n len)

theorem xorSum_wf {n len : Nat} {l : List (Array Vec)} (h : ∀ a ∈ l, WF len a ∧ a.size = n) :
    WF len (xorSum n len l) ∧ (xorSum n len l).size = n := by
  induction l with
  | nil => exact ⟨WF_zeroRows n len, size_zeroRows n len⟩
  | cons a l ih =>
    have ih' := ih fun b hb => h b (by simp [hb])
    have ha := h a (by simp)
    refine ⟨WF_xorRows ha.1 ih'.1, ?_⟩
    show (xorRows a (xorSum n len l)).size = n
    rw [size_xorRows _ _ (by rw [ha.2, ih'.2]), ha.2]

/-- superposition: the result on a finite xor-combination of inputs is the xor-combination of the
results on the individual inputs (e.g. the unit vectors) -/
theorem run_xorSum (hC : MulLinear C) {nrows nsh len : Nat} {steps : List Step}
    (hr : ∀ s ∈ steps, InRange nrows nsh s) (L : List (Array Vec × Array Vec))
    (hL : ∀ q ∈ L, (WF len q.1 ∧ q.1.size = nsh) ∧ (WF len q.2 ∧ q.2.size = nrows)) :
    run C (xorSum nsh len (L.map (·.1))) len (xorSum nrows len (L.map (·.2))) steps =
      xorSum nrows len (L.map fun q => run C q.1 len q.2 steps) := by
  induction L with
  | nil => exact run_zero C hC hr
  | cons q L ih =>
    have hq := hL q (by simp)
    have hL' : ∀ q ∈ L, (WF len q.1 ∧ q.1.size = nsh) ∧ (WF len q.2 ∧ q.2.size = nrows) :=
      fun r hr' => hL r (by simp [hr'])
    have h1 := xorSum_wf (n := nsh) (len := len) (l := L.map (·.1))
      (by intro a ha; simp only [List.mem_map] at ha; obtain ⟨r, hr', rfl⟩ := ha; exact (hL' r hr').1)
    have h2 := xorSum_wf (n := nrows) (len := len) (l := L.map (·.2))
      (by intro a ha; simp only [List.mem_map] at ha; obtain ⟨r, hr', rfl⟩ := ha; exact (hL' r hr').2)
    show run C (xorRows q.1 (xorSum nsh len (L.map (·.1)))) len
        (xorRows q.2 (xorSum nrows len (L.map (·.2)))) steps =
      xorRows (run C q.1 len q.2 steps) (xorSum nrows len (L.map fun q => run C q.1 len q.2 steps))
    rw [run_xorRows C hC hq.2.1 h2.1 hq.1.1 h1.1 (by rw [hq.2.2, h2.2]) (by rw [hq.1.2, h1.2])
      (by rw [hq.2.2, hq.1.2]; exact hr), ih hL']

/-! ## 7. independence of the initial work contents -/

/-- rows defined after step `s`, given the rows `D` defined before -/
def defStep (D : Array Bool) : Step → Array Bool
  | .load d _ => D.set! d true
  | .loadMul d _ _ => D.set! d true
  | .clear d => D.set! d true
  | .mulAdd _ _ _ => D
  | .xor _ _ => D

/-- step `s` reads only rows of `D` -/
def readsOK (D : Array Bool) : Step → Bool
  | .mulAdd d src _ => D[d]! && D[src]!
  | .xor d src => D[d]! && D[src]!
  | _ => true

def initOKFrom (D : Array Bool) : List Step → Bool
  | [] => true
  | s :: ss => readsOK D s && initOKFrom (defStep D s) ss

def definedFrom (D : Array Bool) (steps : List Step) : Array Bool := steps.foldl defStep D

/-- no step reads a work row before a `load` / `loadMul` / `clear` has written it
(`nrows` work rows, none defined initially) -/
def initOK (nrows : Nat) (steps : List Step) : Bool :=
  initOKFrom (Array.replicate nrows false) steps

/-- the rows written by `load` / `loadMul` / `clear` somewhere in `steps` -/
def definedAfter (nrows : Nat) (steps : List Step) : Array Bool :=
  definedFrom (Array.replicate nrows false) steps

/-- two work areas agree on the rows marked in `D` -/
def Agree (D : Array Bool) (w w' : Array Vec) : Prop :=
  w.size = w'.size ∧ ∀ i : Nat, D[i]! = true → w[i]! = w'[i]!

theorem agree_set! {D : Array Bool} {w w' : Array Vec} (h : Agree D w w') (d : Nat) (v : Vec) :
    Agree (D.set! d true) (w.set! d v) (w'.set! d v) := by
  refine ⟨by simp [h.1], ?_⟩
  intro i hi
  by_cases hdi : d = i
  · subst hdi
    by_cases hd : d < w.size
    · rw [get!_set!_self w d v hd, get!_set!_self w' d v (h.1 ▸ hd)]
    · have hd' : w.size ≤ d := Nat.le_of_not_lt hd
      rw [get!_ge _ d (by simpa using hd'), get!_ge _ d (by simpa using h.1 ▸ hd')]
  · rw [get!_set!_ne _ _ _ _ hdi, get!_set!_ne _ _ _ _ hdi]
    apply h.2
    rwa [get!_set!_ne _ _ _ _ hdi] at hi

theorem agree_set!_same {D : Array Bool} {w w' : Array Vec} (h : Agree D w w') (d : Nat) (v : Vec) :
    Agree D (w.set! d v) (w'.set! d v) := by
  refine ⟨by simp [h.1], ?_⟩
  intro i hi
  rw [get!_set!, get!_set!, ← h.1]
  split
  · rfl
  · exact h.2 i hi

theorem step_agree {shards : Array Vec} {len : Nat} {D : Array Bool} {w w' : Array Vec} {s : Step}
    (hok : readsOK D s = true) (h : Agree D w w') :
    Agree (defStep D s) (step C shards len w s) (step C shards len w' s) := by
  cases s with
  | load d sh => exact agree_set! h d _
  | loadMul d sh m => exact agree_set! h d _
  | clear d => exact agree_set! h d _
  | mulAdd d src m =>
    simp only [readsOK, Bool.and_eq_true] at hok
    simp only [step, defStep]
    rw [← h.2 d hok.1, ← h.2 src hok.2]
    exact agree_set!_same h d _
  | xor d src =>
    simp only [readsOK, Bool.and_eq_true] at hok
    simp only [step, defStep]
    rw [← h.2 d hok.1, ← h.2 src hok.2]
    exact agree_set!_same h d _

theorem run_agree {shards : Array Vec} {len : Nat} {steps : List Step} {D : Array Bool}
    {w w' : Array Vec} (hok : initOKFrom D steps = true) (h : Agree D w w') :
    Agree (definedFrom D steps) (run C shards len w steps) (run C shards len w' steps) := by
  induction steps generalizing D w w' with
  | nil => exact h
  | cons s ss ih =>
    simp only [initOKFrom, Bool.and_eq_true] at hok
    exact ih hok.2 (step_agree C hok.1 h)

/-- **scratch independence**: if no step reads an undefined row, every row that is defined at the
end has the same content whatever the initial work area was -/
theorem run_scratch {shards : Array Vec} {len nrows : Nat} {steps : List Step}
    (hok : initOK nrows steps = true) {w w' : Array Vec} (hsz : w.size = w'.size) :
    ∀ i : Nat, (definedAfter nrows steps)[i]! = true →
      (run C shards len w steps)[i]! = (run C shards len w' steps)[i]! := by
  have h0 : Agree (Array.replicate nrows false) w w' := by
    refine ⟨hsz, ?_⟩
    intro i hi
    by_cases h : i < nrows
    · rw [get!_lt _ i (by simpa using h)] at hi; simp at hi
    · rw [get!_ge _ i (by simpa using Nat.le_of_not_lt h)] at hi; exact absurd hi (by decide)
  exact (run_agree C hok h0).2

/-! ## 8. `ceilPow2`, shapes of `encode` / `reconstruct`, `errLocs` -/

theorem ceilPow2_eq (n : Nat) :
    ceilPow2 n = (List.range' 0 64 1).foldl (fun k _ => if k < n then k * 2 else k) 1 := by
  unfold ceilPow2
  simp only [Std.Legacy.Range.forIn_eq_forIn_range', Std.Legacy.Range.size]
  have : ∀ (l : List Nat) (k0 : Nat),
      (forIn (m := Id) l k0 fun _ s => if s < n then pure (ForInStep.yield (s * 2)) else pure (ForInStep.yield s)) =
        pure (l.foldl (fun k _ => if k < n then k * 2 else k) k0) := by
    intro l
    induction l with
    | nil => intro k0; rfl
    | cons a l ih =>
      intro k0
      simp only [List.forIn_cons, List.foldl_cons]
      by_cases h : k0 < n <;> simp [h, ih]
  rw [this]; rfl

theorem foldl_double (n : Nat) (l : List Nat) (k : Nat) :
    n ≤ l.foldl (fun k _ => if k < n then k * 2 else k) k ∨
      l.foldl (fun k _ => if k < n then k * 2 else k) k = k * 2 ^ l.length := by
  induction l generalizing k with
  | nil => right; simp
  | cons a l ih =>
    simp only [List.foldl_cons, List.length_cons]
    by_cases h : k < n
    · simp only [h, if_true]
      rcases ih (k * 2) with h' | h'
      · left; exact h'
      · right; rw [h', Nat.pow_succ, Nat.mul_assoc, Nat.mul_comm 2]
    · simp only [h, if_false]
      rcases ih k with h' | h'
      · left; exact h'
      · left; rw [h']
        have : 0 < 2 ^ l.length := Nat.two_pow_pos _
        calc n ≤ k := Nat.le_of_not_lt h
          _ = k * 1 := (Nat.mul_one k).symm
          _ ≤ k * 2 ^ l.length := Nat.mul_le_mul_left k this

theorem le_ceilPow2 (n : Nat) (h : n ≤ 2 ^ 64) : n ≤ ceilPow2 n := by
  rw [ceilPow2_eq]
  rcases foldl_double n (List.range' 0 64 1) 1 with h' | h'
  · exact h'
  · rw [h']; simpa using h

theorem size_encode (d p len : Nat) (data : Array Vec) (hp : p ≤ 2 * ceilPow2 p) :
    (encode C d p len data).size = p := by
  simp only [encode, Array.size_extract, size_run, Array.size_replicate]
  omega

theorem size_reconstruct (d p len : Nat) (shards : Array Vec) (missing : Nat → Bool) (ra : Bool) :
    (reconstruct C d p len shards missing ra).size = d + p := by
  simp [reconstruct]

theorem reconstruct_present (d p len : Nat) (shards : Array Vec) (missing : Nat → Bool) (ra : Bool)
    (i : Nat) (h : missing i = false) : (reconstruct C d p len shards missing ra)[i]! = none := by
  by_cases hi : i < d + p
  · rw [get!_lt _ i (by rw [size_reconstruct]; exact hi)]
    simp [reconstruct, h]
  · rw [get!_ge _ i (by rw [size_reconstruct]; omega)]; rfl

theorem reconstruct_dataOnly (d p len : Nat) (shards : Array Vec) (missing : Nat → Bool)
    (i : Nat) (h : d ≤ i) : (reconstruct C d p len shards missing false)[i]! = none := by
  by_cases hi : i < d + p
  · rw [get!_lt _ i (by rw [size_reconstruct]; exact hi)]
    have : ¬ i < d := by omega
    simp [reconstruct, this]
  · rw [get!_ge _ i (by rw [size_reconstruct]; omega)]; rfl

theorem errLocs_congr (d p : Nat) (missing missing' : Nat → Bool)
    (h : ∀ i, i < d + p → missing i = missing' i) :
    errLocs C d p missing = errLocs C d p missing' := by
  have he : (Array.ofFn fun i : Fin C.P.order =>
        if i.val < p then (if missing (d + i.val) then 1 else 0)
        else if i.val < ceilPow2 p then 1
        else if i.val < ceilPow2 p + d then (if missing (i.val - ceilPow2 p) then 1 else 0)
        else 0) =
      (Array.ofFn fun i : Fin C.P.order =>
        if i.val < p then (if missing' (d + i.val) then 1 else 0)
        else if i.val < ceilPow2 p then 1
        else if i.val < ceilPow2 p + d then (if missing' (i.val - ceilPow2 p) then 1 else 0)
        else 0) := by
    congr 1
    funext i
    by_cases h1 : i.val < p
    · simp only [h1, if_true]; rw [h (d + i.val) (by omega)]
    · simp only [h1, if_false]
      by_cases h2 : i.val < ceilPow2 p
      · simp only [h2, if_true]
      · simp only [h2, if_false]
        by_cases h3 : i.val < ceilPow2 p + d
        · simp only [h3, if_true]; rw [h (i.val - ceilPow2 p) (by omega)]
        · simp only [h3, if_false]
  simp only [errLocs, he]

/-! ## 9. the wrappers `encode` / `reconstruct` commute with row homomorphisms -/

theorem encode_map {len len' : Nat} {f : Vec → Vec} (hf : RowHom C len len' f) (d p : Nat)
    {data : Array Vec} (hs : WF len data)
    (hr : ∀ s ∈ (encodeSched C d p).toList, InRange (2 * ceilPow2 p) data.size s) :
    (encode C d p len data).map f = encode C d p len' (data.map f) := by
  simp only [encode]
  rw [Array.map_extract, run_map C hf (WF_replicate _ len) hs (by simpa using hr),
    Array.map_replicate, hf.zero]

theorem encode_zipWith {l₁ l₂ l : Nat} {g : Vec → Vec → Vec} (hg : RowHom2 C l₁ l₂ l g) (d p : Nat)
    {s₁ s₂ : Array Vec} (hs₁ : WF l₁ s₁) (hs₂ : WF l₂ s₂) (hss : s₁.size = s₂.size)
    (hr : ∀ s ∈ (encodeSched C d p).toList, InRange (2 * ceilPow2 p) s₁.size s) :
    encode C d p l (Array.zipWith g s₁ s₂) =
      Array.zipWith g (encode C d p l₁ s₁) (encode C d p l₂ s₂) := by
  simp only [encode]
  rw [← Array.extract_zipWith,
    ← run_zipWith C hg (WF_replicate _ l₁) (WF_replicate _ l₂) hs₁ hs₂ (by simp) hss (by simpa using hr),
    Array.zipWith_replicate, hg.zero, Nat.min_self]

/-- pointwise combination of two optional rows -/
def optZip (g : Vec → Vec → Vec) : Option Vec → Option Vec → Option Vec
  | some x, some y => some (g x y)
  | _, _ => none

theorem reconstruct_map {len len' : Nat} {f : Vec → Vec} (hf : RowHom C len len' f) (d p : Nat)
    {shards : Array Vec} (missing : Nat → Bool) (ra : Bool) (hs : WF len shards)
    (hp : p ≤ ceilPow2 p) (hn : ceilPow2 p + d ≤ ceilPow2 (ceilPow2 p + d))
    (hr : ∀ s ∈ (reconSched C d p missing (errLocs C d p missing)).toList,
      InRange (ceilPow2 (ceilPow2 p + d)) shards.size s) :
    (reconstruct C d p len shards missing ra).map (Option.map f) =
      reconstruct C d p len' (shards.map f) missing ra := by
  have hW := run_wf C (WF_replicate (ceilPow2 (ceilPow2 p + d)) len) hs
    (steps := (reconSched C d p missing (errLocs C d p missing)).toList) (by simpa using hr)
  have hrun := run_map C hf (WF_replicate (ceilPow2 (ceilPow2 p + d)) len) hs
    (steps := (reconSched C d p missing (errLocs C d p missing)).toList) (by simpa using hr)
  rw [Array.map_replicate, hf.zero] at hrun
  have hsz : (run C shards len (Array.replicate (ceilPow2 (ceilPow2 p + d)) (zeroVec len))
      (reconSched C d p missing (errLocs C d p missing)).toList).size = ceilPow2 (ceilPow2 p + d) := by
    simp
  simp only [reconstruct, Array.map_ofFn]
  congr 1
  funext i
  have hi := i.isLt
  simp only [Function.comp]
  rw [← hrun]
  by_cases hm : missing i.val
  · by_cases hd : i.val < d
    · have hj : ceilPow2 p + i.val < ceilPow2 (ceilPow2 p + d) := by omega
      simp only [hm, hd, Bool.not_true, Bool.false_eq_true, if_false, if_true, Option.map_some]
      rw [get!_map f _ _ (by rw [hsz]; exact hj), hf.mul _ _ (hW.1 _ (by rw [hsz]; exact hj))]
    · cases ra
      · simp [hm, hd]
      · have hj : i.val - d < ceilPow2 (ceilPow2 p + d) := by omega
        simp only [hm, hd, Bool.not_true, Bool.false_eq_true, if_false, if_true, Option.map_some]
        rw [get!_map f _ _ (by rw [hsz]; exact hj), hf.mul _ _ (hW.1 _ (by rw [hsz]; exact hj))]
  · simp [hm]

theorem reconstruct_zipWith {l₁ l₂ l : Nat} {g : Vec → Vec → Vec} (hg : RowHom2 C l₁ l₂ l g)
    (d p : Nat) {s₁ s₂ : Array Vec} (missing : Nat → Bool) (ra : Bool)
    (hs₁ : WF l₁ s₁) (hs₂ : WF l₂ s₂) (hss : s₁.size = s₂.size)
    (hp : p ≤ ceilPow2 p) (hn : ceilPow2 p + d ≤ ceilPow2 (ceilPow2 p + d))
    (hr : ∀ s ∈ (reconSched C d p missing (errLocs C d p missing)).toList,
      InRange (ceilPow2 (ceilPow2 p + d)) s₁.size s) :
    reconstruct C d p l (Array.zipWith g s₁ s₂) missing ra =
      Array.zipWith (optZip g) (reconstruct C d p l₁ s₁ missing ra)
        (reconstruct C d p l₂ s₂ missing ra) := by
  have hr₂ : ∀ s ∈ (reconSched C d p missing (errLocs C d p missing)).toList,
      InRange (ceilPow2 (ceilPow2 p + d)) s₂.size s := by rw [← hss]; exact hr
  have hW₁ := run_wf C (WF_replicate (ceilPow2 (ceilPow2 p + d)) l₁) hs₁
    (steps := (reconSched C d p missing (errLocs C d p missing)).toList) (by simpa using hr)
  have hW₂ := run_wf C (WF_replicate (ceilPow2 (ceilPow2 p + d)) l₂) hs₂
    (steps := (reconSched C d p missing (errLocs C d p missing)).toList) (by simpa using hr₂)
  have hrun := run_zipWith C hg (WF_replicate (ceilPow2 (ceilPow2 p + d)) l₁)
    (WF_replicate (ceilPow2 (ceilPow2 p + d)) l₂) hs₁ hs₂ (by simp) hss
    (steps := (reconSched C d p missing (errLocs C d p missing)).toList) (by simpa using hr)
  rw [Array.zipWith_replicate, hg.zero, Nat.min_self] at hrun
  apply ext!
  · simp [size_reconstruct, Array.size_zipWith]
  · intro i hi
    rw [size_reconstruct] at hi
    rw [get!_zipWith _ _ _ i (by rw [size_reconstruct]; exact hi) (by rw [size_reconstruct]; exact hi),
      get!_lt _ i (by rw [size_reconstruct]; exact hi), get!_lt _ i (by rw [size_reconstruct]; exact hi),
      get!_lt _ i (by rw [size_reconstruct]; exact hi)]
    simp only [reconstruct, Array.getElem_ofFn]
    rw [hrun]
    by_cases hm : missing i
    · by_cases hd : i < d
      · have hj : ceilPow2 p + i < ceilPow2 (ceilPow2 p + d) := by omega
        simp only [hm, hd, Bool.not_true, Bool.false_eq_true, if_false, if_true, optZip]
        rw [get!_zipWith g _ _ _ (by rw [hW₁.2]; simpa using hj) (by rw [hW₂.2]; simpa using hj),
          hg.mul _ _ _ (hW₁.1 _ (by rw [hW₁.2]; simpa using hj)) (hW₂.1 _ (by rw [hW₂.2]; simpa using hj))]
      · cases ra
        · simp [hm, hd, optZip]
        · have hj : i - d < ceilPow2 (ceilPow2 p + d) := by omega
          simp only [hm, hd, Bool.not_true, Bool.false_eq_true, if_false, if_true, optZip]
          rw [get!_zipWith g _ _ _ (by rw [hW₁.2]; simpa using hj) (by rw [hW₂.2]; simpa using hj),
            hg.mul _ _ _ (hW₁.1 _ (by rw [hW₁.2]; simpa using hj)) (hW₂.1 _ (by rw [hW₂.2]; simpa using hj))]
    · simp [hm, optZip]

/-! ## 10. the Reconstruct schedule depends on the erasure set only through `[0, d + p)` -/

theorem forIn_congr_mem {m : Type → Type} [Monad m] {α β : Type} (l : List α)
    (f g : α → β → m (ForInStep β)) (h : ∀ a ∈ l, ∀ s, f a s = g a s) (init : β) :
    forIn l init f = forIn l init g := by
  induction l generalizing init with
  | nil => rfl
  | cons a l ih =>
    simp only [List.forIn_cons]
    rw [h a (by simp)]
    congr 1
    funext r
    cases r with
    | done b => rfl
    | yield b => exact ih (fun a ha s => h a (by simp [ha]) s) b

theorem reconSched_congr (C : Ctx) (d p : Nat) (missing missing' : Nat → Bool) (el : Array Nat)
    (h : ∀ i, i < d + p → missing i = missing' i) :
    reconSched C d p missing el = reconSched C d p missing' el := by
  unfold reconSched
  simp only [Std.Legacy.Range.forIn_eq_forIn_range', Std.Legacy.Range.size, Nat.sub_zero,
    Nat.add_sub_cancel, Nat.div_one]
  have h1 : ∀ a ∈ List.range' 0 p, ∀ s : Array Step,
      (pure (ForInStep.yield (s.push (if missing (d + a) = true then Step.clear a
          else Step.loadMul a (d + a) el[a]!))) : Id (ForInStep (Array Step))) =
        pure (ForInStep.yield (s.push (if missing' (d + a) = true then Step.clear a
          else Step.loadMul a (d + a) el[a]!))) := by
    intro a ha s
    have : a < p := by simpa [List.mem_range'_1] using ha
    rw [h (d + a) (by omega)]
  have h3 : ∀ a ∈ List.range' 0 d, ∀ s : Array Step,
      (pure (ForInStep.yield (s.push (if missing a = true then Step.clear (ceilPow2 p + a)
          else Step.loadMul (ceilPow2 p + a) a el[ceilPow2 p + a]!))) : Id (ForInStep (Array Step))) =
        pure (ForInStep.yield (s.push (if missing' a = true then Step.clear (ceilPow2 p + a)
          else Step.loadMul (ceilPow2 p + a) a el[ceilPow2 p + a]!))) := by
    intro a ha s
    have : a < d := by simpa [List.mem_range'_1] using ha
    rw [h a (by omega)]
  rw [forIn_congr_mem _ _ _ h1]
  simp only [forIn_congr_mem _ _ _ h3]

theorem reconstruct_congr (C : Ctx) (d p len : Nat) (shards : Array Vec) (missing missing' : Nat → Bool)
    (ra : Bool) (h : ∀ i, i < d + p → missing i = missing' i) :
    reconstruct C d p len shards missing ra = reconstruct C d p len shards missing' ra := by
  simp only [reconstruct]
  rw [errLocs_congr C d p missing missing' h,
    reconSched_congr C d p missing missing' (errLocs C d p missing') h]
  congr 1
  funext i
  rw [h i.val i.isLt]

end RSV.Proofs.LeoSched
