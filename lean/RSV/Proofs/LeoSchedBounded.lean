import RSV.Proofs.LeoSched
/-!
# Leopard schedules: linearity under a BOUNDED hypothesis on the symbol multiplication

`MulLinear C` (`RSV/Proofs/LeoSched.lean`) quantifies over all naturals; a real table context reads
`T.log[a]!`, which is meaningless for `a ≥ order`, so only the bounded statement can be instantiated:

* `MulLinearOn C B`: `B = 2^k`, `mulSym C 0 m = 0`, and for `a, b, m < B`: `mulSym C a m < B` and
  `mulSym C (a ^^^ b) m = mulSym C a m ^^^ mulSym C b m`;
* `SymsBelow B v`: every symbol of every row of `v` is `< B`;
* `LogsBelow B steps`: the multiplier `logm` of every `loadMul` / `mulAdd` step is `< B`
  (`allLogsBelow` is the executable form).

Results: `run` preserves `SymsBelow B` (`run_symsBelow`; no `WF` / `InRange` needed), and `run`,
`encode`, `reconstruct` are xor-linear on bounded inputs (`run_xorRows_on`, `C04_encode_linear_on`,
`C05_reconstruct_linear_on`).
-/
namespace RSV.Proofs.LeoSched
open RSV.Model.Leo

/-- the algebraic facts about the symbol multiplication, for symbols and multipliers below `B` -/
structure MulLinearOn (C : Ctx) (B : Nat) : Prop where
  zero : ∀ m, mulSym C 0 m = 0
  lt : ∀ a m, a < B → m < B → mulSym C a m < B
  xor : ∀ a b m, a < B → b < B → m < B → mulSym C (a ^^^ b) m = mulSym C a m ^^^ mulSym C b m
  pow2 : ∃ k, B = 2 ^ k

theorem MulLinearOn.pos {C : Ctx} {B : Nat} (h : MulLinearOn C B) : 0 < B := by
  obtain ⟨k, rfl⟩ := h.pow2; exact Nat.two_pow_pos k

theorem MulLinearOn.xor_lt {C : Ctx} {B : Nat} (h : MulLinearOn C B) {a b : Nat} (ha : a < B)
    (hb : b < B) : a ^^^ b < B := by
  obtain ⟨k, rfl⟩ := h.pow2; exact Nat.xor_lt_two_pow ha hb

/-- the unbounded hypothesis implies the bounded one, given closure under the product -/
theorem MulLinear.on {C : Ctx} (h : MulLinear C) (k : Nat)
    (hlt : ∀ a m, a < 2 ^ k → m < 2 ^ k → mulSym C a m < 2 ^ k) : MulLinearOn C (2 ^ k) :=
  ⟨h.zero, hlt, fun a b m _ _ _ => h.xor a b m, ⟨k, rfl⟩⟩

/-! ## bounded rows and states -/

/-- every symbol of the row is `< B` -/
def VecBelow (B : Nat) (x : Vec) : Prop := ∀ k, k < x.size → x[k]! < B

/-- every symbol of every row is `< B` -/
def SymsBelow (B : Nat) (v : Array Vec) : Prop :=
  ∀ i, i < v.size → ∀ k, k < v[i]!.size → (v[i]!)[k]! < B

theorem VecBelow.get {B : Nat} {x : Vec} (h : VecBelow B x) (hB : 0 < B) (k : Nat) : x[k]! < B := by
  by_cases hk : k < x.size
  · exact h k hk
  · rw [get!_ge x k (Nat.le_of_not_lt hk)]; exact hB

theorem SymsBelow.row {B : Nat} {v : Array Vec} (h : SymsBelow B v) (i : Nat) : VecBelow B v[i]! := by
  by_cases hi : i < v.size
  · exact h i hi
  · rw [get!_ge v i (Nat.le_of_not_lt hi)]
    intro k hk
    exact absurd hk (by simp [show (default : Vec) = #[] from rfl])

theorem vecBelow_zeroVec {B : Nat} (hB : 0 < B) (len : Nat) : VecBelow B (zeroVec len) := by
  intro k _; rw [get!_zeroVec]; exact hB

theorem vecBelow_mulVec {C : Ctx} {B : Nat} (hC : MulLinearOn C B) {x : Vec} (hx : VecBelow B x)
    {m : Nat} (hm : m < B) : VecBelow B (mulVec C x m) := by
  intro k hk
  have hk' : k < x.size := by simpa using hk
  rw [get!_mulVec C x m k hk']
  exact hC.lt _ _ (hx k hk') hm

theorem vecBelow_xorVec {C : Ctx} {B : Nat} (hC : MulLinearOn C B) {x y : Vec} (hx : VecBelow B x)
    (hy : VecBelow B y) : VecBelow B (xorVec x y) := by
  intro k hk
  have hk' : k < x.size := by simpa using hk
  rw [get!_xorVec x y k hk']
  exact hC.xor_lt (hx k hk') (hy.get hC.pos k)

theorem symsBelow_set! {B : Nat} {w : Array Vec} (hw : SymsBelow B w) (d : Nat) {v : Vec}
    (hv : VecBelow B v) : SymsBelow B (w.set! d v) := by
  intro i hi
  rw [get!_set!]
  split
  · exact hv
  · exact hw i (by simpa using hi)

theorem symsBelow_replicate {B : Nat} (hB : 0 < B) (n len : Nat) :
    SymsBelow B (Array.replicate n (zeroVec len)) := by
  intro i hi
  have hi' : i < n := by simpa using hi
  rw [get!_lt _ i hi]
  simp only [Array.getElem_replicate]
  exact vecBelow_zeroVec hB len

theorem symsBelow_xorRows {C : Ctx} {B : Nat} (hC : MulLinearOn C B) {a b : Array Vec}
    (ha : SymsBelow B a) (hb : SymsBelow B b) : SymsBelow B (xorRows a b) := by
  intro i hi
  have hi' : i < a.size ∧ i < b.size := by
    simp only [xorRows, Array.size_zipWith] at hi; omega
  show VecBelow B (Array.zipWith xorVec a b)[i]!
  rw [get!_zipWith xorVec a b i hi'.1 hi'.2]
  exact vecBelow_xorVec hC (ha.row i) (hb.row i)

/-! ## bounded multipliers -/

/-- the multiplier of a `loadMul` / `mulAdd` step is `< B` -/
def LogBelow (B : Nat) : Step → Prop
  | .loadMul _ _ m => m < B
  | .mulAdd _ _ m => m < B
  | _ => True

instance (B : Nat) (s : Step) : Decidable (LogBelow B s) := by
  cases s <;> unfold LogBelow <;> infer_instance

/-- every multiplier occurring in the schedule is `< B` -/
def LogsBelow (B : Nat) (steps : List Step) : Prop := ∀ s ∈ steps, LogBelow B s

/-- executable form of `LogsBelow` -/
def allLogsBelow (B : Nat) (steps : List Step) : Bool := steps.all fun s => decide (LogBelow B s)

theorem allLogsBelow_iff (B : Nat) (steps : List Step) :
    allLogsBelow B steps = true ↔ LogsBelow B steps := by
  simp [allLogsBelow, LogsBelow]

/-! ## `run` preserves `SymsBelow` -/

variable (C : Ctx)

theorem step_symsBelow {B : Nat} (hC : MulLinearOn C B) {len : Nat} {shards w : Array Vec}
    (hw : SymsBelow B w) (hs : SymsBelow B shards) {s : Step} (hl : LogBelow B s) :
    SymsBelow B (step C shards len w s) := by
  cases s with
  | load d sh => exact symsBelow_set! hw d (hs.row sh)
  | loadMul d sh m => exact symsBelow_set! hw d (vecBelow_mulVec hC (hs.row sh) hl)
  | clear d => exact symsBelow_set! hw d (vecBelow_zeroVec hC.pos len)
  | mulAdd d src m =>
    exact symsBelow_set! hw d (vecBelow_xorVec hC (hw.row d) (vecBelow_mulVec hC (hw.row src) hl))
  | xor d src => exact symsBelow_set! hw d (vecBelow_xorVec hC (hw.row d) (hw.row src))

/-- symbols stay below `B` (no `WF` / `InRange` hypothesis needed) -/
theorem run_symsBelow {B : Nat} (hC : MulLinearOn C B) {len : Nat} {shards w : Array Vec}
    (hw : SymsBelow B w) (hs : SymsBelow B shards) {steps : List Step} (hl : LogsBelow B steps) :
    SymsBelow B (run C shards len w steps) := by
  induction steps generalizing w with
  | nil => exact hw
  | cons s ss ih =>
    rw [run_cons]
    exact ih (step_symsBelow C hC hw hs (hl s (by simp))) (fun t ht => hl t (by simp [ht]))

/-! ## linearity on bounded inputs -/

theorem mulVec_xorVec_on {B : Nat} (hC : MulLinearOn C B) {len : Nat} {x y : Vec}
    (hx : x.size = len) (hy : y.size = len) (bx : VecBelow B x) (by' : VecBelow B y) {m : Nat}
    (hm : m < B) : xorVec (mulVec C x m) (mulVec C y m) = mulVec C (xorVec x y) m := by
  apply ext! (by simp)
  intro i hi
  have hi' : i < len := by simpa [hx] using hi
  rw [get!_xorVec _ _ i (by simp; omega), get!_mulVec C x m i (by omega),
    get!_mulVec C y m i (by omega), get!_mulVec C _ m i (by simp; omega),
    get!_xorVec x y i (by omega), hC.xor _ _ _ (bx i (by omega)) (by' i (by omega)) hm]

theorem xorVec_xorVec {len : Nat} {x x' y y' : Vec} (hx : x.size = len) (hx' : x'.size = len)
    (hy : y.size = len) (hy' : y'.size = len) :
    xorVec (xorVec x x') (xorVec y y') = xorVec (xorVec x y) (xorVec x' y') := by
  apply ext! (by simp)
  intro i hi
  have hi' : i < len := by simpa [hx] using hi
  rw [get!_xorVec _ _ i (by simp; omega), get!_xorVec x x' i (by omega),
    get!_xorVec y y' i (by omega), get!_xorVec _ _ i (by simp; omega),
    get!_xorVec x y i (by omega), get!_xorVec x' y' i (by omega), xor4]

theorem step_xorRows_on {B : Nat} (hC : MulLinearOn C B) {len : Nat} {s₁ s₂ w₁ w₂ : Array Vec}
    (hw₁ : WF len w₁) (hw₂ : WF len w₂) (hs₁ : WF len s₁) (hs₂ : WF len s₂)
    (bw₁ : SymsBelow B w₁) (bw₂ : SymsBelow B w₂) (bs₁ : SymsBelow B s₁) (bs₂ : SymsBelow B s₂)
    (hws : w₁.size = w₂.size) (hss : s₁.size = s₂.size) {s : Step}
    (hr : InRange w₁.size s₁.size s) (hl : LogBelow B s) :
    step C (xorRows s₁ s₂) len (xorRows w₁ w₂) s =
      xorRows (step C s₁ len w₁ s) (step C s₂ len w₂ s) := by
  unfold xorRows
  cases s with
  | load d sh =>
    simp only [step]
    rw [zipWith_set! xorVec _ _ _ _ _ hws, get!_zipWith xorVec s₁ s₂ sh hr.2 (hss ▸ hr.2)]
  | loadMul d sh m =>
    simp only [step]
    rw [zipWith_set! xorVec _ _ _ _ _ hws, get!_zipWith xorVec s₁ s₂ sh hr.2 (hss ▸ hr.2),
      mulVec_xorVec_on C hC (hs₁ sh hr.2) (hs₂ sh (hss ▸ hr.2)) (bs₁.row sh) (bs₂.row sh) hl]
  | clear d =>
    simp only [step]
    rw [zipWith_set! xorVec _ _ _ _ _ hws, xorVec_zeroVec]
  | mulAdd d src m =>
    simp only [step]
    have hd₂ : d < w₂.size := hws ▸ hr.1
    have hsrc₂ : src < w₂.size := hws ▸ hr.2
    rw [zipWith_set! xorVec _ _ _ _ _ hws, get!_zipWith xorVec w₁ w₂ d hr.1 hd₂,
      get!_zipWith xorVec w₁ w₂ src hr.2 hsrc₂,
      xorVec_xorVec (hw₁ d hr.1) (by rw [size_mulVec]; exact hw₁ src hr.2) (hw₂ d hd₂)
        (by rw [size_mulVec]; exact hw₂ src hsrc₂),
      mulVec_xorVec_on C hC (hw₁ src hr.2) (hw₂ src hsrc₂) (bw₁.row src) (bw₂.row src) hl]
  | xor d src =>
    simp only [step]
    have hd₂ : d < w₂.size := hws ▸ hr.1
    have hsrc₂ : src < w₂.size := hws ▸ hr.2
    rw [zipWith_set! xorVec _ _ _ _ _ hws, get!_zipWith xorVec w₁ w₂ d hr.1 hd₂,
      get!_zipWith xorVec w₁ w₂ src hr.2 hsrc₂,
      xorVec_xorVec (hw₁ d hr.1) (hw₁ src hr.2) (hw₂ d hd₂) (hw₂ src hsrc₂)]

/-- **linearity of `run` on bounded inputs** -/
theorem run_xorRows_on {B : Nat} (hC : MulLinearOn C B) {len : Nat} {s₁ s₂ w₁ w₂ : Array Vec}
    (hw₁ : WF len w₁) (hw₂ : WF len w₂) (hs₁ : WF len s₁) (hs₂ : WF len s₂)
    (bw₁ : SymsBelow B w₁) (bw₂ : SymsBelow B w₂) (bs₁ : SymsBelow B s₁) (bs₂ : SymsBelow B s₂)
    (hws : w₁.size = w₂.size) (hss : s₁.size = s₂.size) {steps : List Step}
    (hr : ∀ s ∈ steps, InRange w₁.size s₁.size s) (hl : LogsBelow B steps) :
    run C (xorRows s₁ s₂) len (xorRows w₁ w₂) steps =
      xorRows (run C s₁ len w₁ steps) (run C s₂ len w₂ steps) := by
  induction steps generalizing w₁ w₂ with
  | nil => rfl
  | cons s ss ih =>
    have hr₁ : InRange w₁.size s₁.size s := hr s (by simp)
    have hr₂ : InRange w₂.size s₂.size s := by rw [← hws, ← hss]; exact hr₁
    have hl₁ : LogBelow B s := hl s (by simp)
    rw [run_cons, run_cons, run_cons,
      step_xorRows_on C hC hw₁ hw₂ hs₁ hs₂ bw₁ bw₂ bs₁ bs₂ hws hss hr₁ hl₁]
    apply ih (step_wf C hw₁ hs₁ hr₁) (step_wf C hw₂ hs₂ hr₂)
      (step_symsBelow C hC bw₁ bs₁ hl₁) (step_symsBelow C hC bw₂ bs₂ hl₁) (by simp [hws])
    · intro t ht
      rw [size_step]
      exact hr t (by simp [ht])
    · exact fun t ht => hl t (by simp [ht])

/-- all-zero shards and work give all-zero work (needs only `mulSym C 0 m = 0`) -/
theorem run_zero_on {B : Nat} (hC : MulLinearOn C B) {n nsh len : Nat} {steps : List Step}
    (hr : ∀ s ∈ steps, InRange n nsh s) :
    run C (zeroRows nsh len) len (zeroRows n len) steps = zeroRows n len := by
  have mz : ∀ m, mulVec C (zeroVec len) m = zeroVec len := by
    intro m
    apply ext! (by simp)
    intro i hi
    rw [get!_mulVec C _ m i (by simpa using hi), get!_zeroVec, hC.zero]
  induction steps with
  | nil => rfl
  | cons s ss ih =>
    rw [run_cons]
    have hs := hr s (by simp)
    have : step C (zeroRows nsh len) len (zeroRows n len) s = zeroRows n len := by
      cases s with
      | load d sh => simp only [step]; rw [get!_zeroRows nsh len sh hs.2, zeroRows_set!]
      | loadMul d sh m => simp only [step]; rw [get!_zeroRows nsh len sh hs.2, mz, zeroRows_set!]
      | clear d => simp only [step]; rw [zeroRows_set!]
      | mulAdd d src m =>
        simp only [step]
        rw [get!_zeroRows n len d hs.1, get!_zeroRows n len src hs.2, mz, xorVec_zeroVec,
          zeroRows_set!]
      | xor d src =>
        simp only [step]
        rw [get!_zeroRows n len d hs.1, get!_zeroRows n len src hs.2, xorVec_zeroVec, zeroRows_set!]
    rw [this]
    exact ih fun t ht => hr t (by simp [ht])

/-! ## the wrappers -/

/-- `encode` is xor-linear on bounded shards -/
theorem C04_encode_linear_on {B : Nat} (hC : MulLinearOn C B) {len : Nat} (d p : Nat)
    {s₁ s₂ : Array Vec} (hs₁ : WF len s₁) (hs₂ : WF len s₂)
    (bs₁ : SymsBelow B s₁) (bs₂ : SymsBelow B s₂) (hss : s₁.size = s₂.size)
    (hr : ∀ s ∈ (encodeSched C d p).toList, InRange (2 * ceilPow2 p) s₁.size s)
    (hl : LogsBelow B (encodeSched C d p).toList) :
    encode C d p len (xorRows s₁ s₂) = xorRows (encode C d p len s₁) (encode C d p len s₂) := by
  have h := run_xorRows_on C hC (WF_replicate (2 * ceilPow2 p) len) (WF_replicate (2 * ceilPow2 p) len)
    hs₁ hs₂ (symsBelow_replicate hC.pos _ len) (symsBelow_replicate hC.pos _ len) bs₁ bs₂ (by simp) hss
    (steps := (encodeSched C d p).toList) (by simpa using hr) hl
  simp only [xorRows] at h ⊢
  rw [Array.zipWith_replicate, xorVec_zeroVec, Nat.min_self] at h
  simp only [encode]
  rw [← Array.extract_zipWith, ← h]

/-- the encoded parity symbols stay below `B` -/
theorem C04_encode_symsBelow {B : Nat} (hC : MulLinearOn C B) {len : Nat} (d p : Nat)
    {data : Array Vec} (bs : SymsBelow B data) (hl : LogsBelow B (encodeSched C d p).toList) :
    SymsBelow B (encode C d p len data) := by
  have h := run_symsBelow C hC (len := len) (symsBelow_replicate hC.pos (2 * ceilPow2 p) len) bs hl
  intro i hi
  simp only [encode] at hi ⊢
  have hi' : i < p ∧ i < 2 * ceilPow2 p := by
    simp [Array.size_extract] at hi; omega
  have he : ((run C data len (Array.replicate (2 * ceilPow2 p) (zeroVec len))
      (encodeSched C d p).toList).extract 0 p)[i]! =
      (run C data len (Array.replicate (2 * ceilPow2 p) (zeroVec len)) (encodeSched C d p).toList)[i]! := by
    rw [get!_lt _ i hi, Array.getElem_extract, get!_lt _ i (by simpa using hi'.2)]
    simp
  rw [he]
  exact h.row i

/-- `reconstruct` is xor-linear on bounded shards, for a FIXED erasure set; the final multipliers
`modulus - el[j]` are `< B` because `modulus < B` -/
theorem C05_reconstruct_linear_on {B : Nat} (hC : MulLinearOn C B) (hmod : C.P.modulus < B)
    {len : Nat} (d p : Nat) {s₁ s₂ : Array Vec} (missing : Nat → Bool) (ra : Bool)
    (hs₁ : WF len s₁) (hs₂ : WF len s₂) (bs₁ : SymsBelow B s₁) (bs₂ : SymsBelow B s₂)
    (hss : s₁.size = s₂.size)
    (hp : p ≤ ceilPow2 p) (hn : ceilPow2 p + d ≤ ceilPow2 (ceilPow2 p + d))
    (hr : ∀ s ∈ (reconSched C d p missing (errLocs C d p missing)).toList,
      InRange (ceilPow2 (ceilPow2 p + d)) s₁.size s)
    (hl : LogsBelow B (reconSched C d p missing (errLocs C d p missing)).toList) :
    reconstruct C d p len (xorRows s₁ s₂) missing ra =
      Array.zipWith (optZip xorVec) (reconstruct C d p len s₁ missing ra)
        (reconstruct C d p len s₂ missing ra) := by
  have hr₂ : ∀ s ∈ (reconSched C d p missing (errLocs C d p missing)).toList,
      InRange (ceilPow2 (ceilPow2 p + d)) s₂.size s := by rw [← hss]; exact hr
  have hW₁ := run_wf C (WF_replicate (ceilPow2 (ceilPow2 p + d)) len) hs₁
    (steps := (reconSched C d p missing (errLocs C d p missing)).toList) (by simpa using hr)
  have hW₂ := run_wf C (WF_replicate (ceilPow2 (ceilPow2 p + d)) len) hs₂
    (steps := (reconSched C d p missing (errLocs C d p missing)).toList) (by simpa using hr₂)
  have bW₁ := run_symsBelow C hC (len := len)
    (symsBelow_replicate hC.pos (ceilPow2 (ceilPow2 p + d)) len) bs₁ hl
  have bW₂ := run_symsBelow C hC (len := len)
    (symsBelow_replicate hC.pos (ceilPow2 (ceilPow2 p + d)) len) bs₂ hl
  have hrun := run_xorRows_on C hC (WF_replicate (ceilPow2 (ceilPow2 p + d)) len)
    (WF_replicate (ceilPow2 (ceilPow2 p + d)) len) hs₁ hs₂
    (symsBelow_replicate hC.pos _ len) (symsBelow_replicate hC.pos _ len) bs₁ bs₂ (by simp) hss
    (steps := (reconSched C d p missing (errLocs C d p missing)).toList) (by simpa using hr) hl
  simp only [xorRows] at hrun ⊢
  rw [Array.zipWith_replicate, xorVec_zeroVec, Nat.min_self] at hrun
  have hmul : ∀ x : Nat, C.P.modulus - x < B := fun x => Nat.lt_of_le_of_lt (Nat.sub_le _ _) hmod
  apply ext!
  · simp [size_reconstruct, Array.size_zipWith]
  · intro i hi
    rw [size_reconstruct] at hi
    rw [get!_zipWith _ _ _ i (by rw [size_reconstruct]; exact hi) (by rw [size_reconstruct]; exact hi),
      get!_lt _ i (by rw [size_reconstruct]; exact hi), get!_lt _ i (by rw [size_reconstruct]; exact hi),
      get!_lt _ i (by rw [size_reconstruct]; exact hi)]
    simp only [reconstruct, Array.getElem_ofFn]
    rw [hrun]
    by_cases hm : missing i
    · by_cases hd : i < d
      · have hj : ceilPow2 p + i < ceilPow2 (ceilPow2 p + d) := by omega
        simp only [hm, hd, Bool.not_true, Bool.false_eq_true, if_false, if_true, optZip]
        rw [get!_zipWith xorVec _ _ _ (by rw [hW₁.2]; simpa using hj) (by rw [hW₂.2]; simpa using hj),
          mulVec_xorVec_on C hC (hW₁.1 _ (by rw [hW₁.2]; simpa using hj))
            (hW₂.1 _ (by rw [hW₂.2]; simpa using hj)) (bW₁.row _) (bW₂.row _) (hmul _)]
      · cases ra
        · simp [hm, hd, optZip]
        · have hj : i - d < ceilPow2 (ceilPow2 p + d) := by omega
          simp only [hm, hd, Bool.not_true, Bool.false_eq_true, if_false, if_true, optZip]
          rw [get!_zipWith xorVec _ _ _ (by rw [hW₁.2]; simpa using hj) (by rw [hW₂.2]; simpa using hj),
            mulVec_xorVec_on C hC (hW₁.1 _ (by rw [hW₁.2]; simpa using hj))
              (hW₂.1 _ (by rw [hW₂.2]; simpa using hj)) (bW₁.row _) (bW₂.row _) (hmul _)]
    · simp [hm, optZip]

end RSV.Proofs.LeoSched
