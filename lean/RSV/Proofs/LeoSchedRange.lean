import RSV.Model.Leopard
import RSV.Proofs.LeoSched
/-!
# Leopard schedules: every generated step is in range, for ALL configurations (core Lean only)

`RSV/Proofs/LeoSched.lean` proves its theorems about `run` under the hypothesis
`∀ s ∈ sched, InRange nrows nshards s`.  Here that hypothesis is PROVED for the schedule generators of
`RSV/Model/Leopard.lean`, for every context `C` (any tables, any `C.P.bits`), every `d`, every `p ≤ 2^64`:

* `forIn_inv` / `bind_inv` / `bind_invV`: loop-invariant rule for the `Id.run do … for … in [a:b]` loops
  (after `Std.Legacy.Range.forIn_eq_forIn_range'` they are `forIn` over `List.range'`);
* `AllIn n k out`: every step of the accumulator is `InRange n k`; closed under `push` / `++`;
* `ifftLayers_in`: `ifftLayers base mtrunc m off adj` addresses only rows `< base + m`, provided
  `m = 2^e` and `mtrunc ≤ m`.  Invariants: `dist = 2^j`, `j ≤ e`, `dist4 = 4·dist` (outer loop),
  `dist4 ∣ r` (middle loop); `dist4 ∣ r`, `dist4 ∣ m`, `r < m` give `r + dist4 ≤ m` (`add_le_of_dvd`);
* `fftLayers_in`: `fftLayers mtrunc m` addresses only rows `< m` (same hypotheses);
* `ceilPow2_pow2`: `ceilPow2 p` is a power of two for every `p`;
* `encodeSched_in`, and `reconSched_in` (the formal-derivative loop needs `lowbit`:
  `(i ^^^ (i-1)) + 1 = 2^(t+1)` with `2^t ∣ i`).
-/
namespace RSV.Proofs.LeoSchedRange
open RSV.Model.Leo RSV.Proofs.LeoSched

/-! ## 1. invariant rule for `for` loops in `Id` -/

/-- loop invariant: `P` holds initially and is preserved by every iteration (whether it yields or
breaks), so it holds for the result -/
theorem forIn_inv {α β : Type} (P : β → Prop) (l : List α) (f : α → β → Id (ForInStep β))
    (init : β) (h0 : P init) (hs : ∀ a ∈ l, ∀ b, P b → P (f a b).run.value) :
    P (forIn l init f).run := by
  induction l generalizing init with
  | nil => exact h0
  | cons a l ih =>
    rw [List.forIn_cons]
    have h1 := hs a (by simp) init h0
    show P (Id.run (match (f a init).run with
      | ForInStep.done b => pure b
      | ForInStep.yield b => forIn l b f))
    cases h : (f a init).run with
    | done b => rw [h] at h1; exact h1
    | yield b =>
      rw [h] at h1
      exact ih b h1 (fun a ha => hs a (by simp [ha]))

/-- sequencing: `P` for the first computation, and `P b → Q (rest b)` -/
theorem bind_inv {β γ : Type} (P : β → Prop) {Q : γ → Prop} {x : Id β} {g : β → Id γ}
    (hx : P x.run) (hg : ∀ b, P b → Q (g b).run) : Q (x >>= g).run := hg _ hx

/-- the same inside a loop body, whose result is a `ForInStep` -/
theorem bind_invV {β γ : Type} (P : β → Prop) {Q : γ → Prop} {x : Id β} {g : β → Id (ForInStep γ)}
    (hx : P x.run) (hg : ∀ b, P b → Q (g b).run.value) : Q (x >>= g).run.value := hg _ hx

theorem forIn_inv' {α β : Type} (P : β → Prop) {l : List α} {f : α → β → Id (ForInStep β)}
    {init : β} (h0 : P init) (hs : ∀ a ∈ l, ∀ b, P b → P (f a b).run.value) :
    P (forIn l init f).run := forIn_inv P l f init h0 hs

/-! ## 2. accumulators of in-range steps -/

/-- every step of the accumulator addresses rows `< n` and shards `< k` -/
def AllIn (n k : Nat) (a : Array Step) : Prop := ∀ s ∈ a.toList, InRange n k s

theorem AllIn.empty (n k : Nat) : AllIn n k #[] := by intro s hs; simp at hs

theorem AllIn.push {n k : Nat} {a : Array Step} (h : AllIn n k a) {s : Step} (hs : InRange n k s) :
    AllIn n k (a.push s) := by
  intro t ht
  simp only [Array.toList_push, List.mem_append, List.mem_singleton] at ht
  rcases ht with ht | rfl
  · exact h t ht
  · exact hs

theorem AllIn.append {n k : Nat} {a b : Array Step} (h : AllIn n k a) (hb : AllIn n k b) :
    AllIn n k (a ++ b) := by
  intro t ht
  simp only [Array.toList_append, List.mem_append] at ht
  rcases ht with ht | ht
  · exact h t ht
  · exact hb t ht

theorem AllIn.appendList {n k : Nat} {a : Array Step} (h : AllIn n k a) {l : List Step}
    (hl : ∀ s ∈ l, InRange n k s) : AllIn n k (a ++ l.toArray) :=
  h.append (by intro t ht; exact hl t (by simpa using ht))

/-! ## 3. butterflies -/

variable (C : Ctx)

theorem fft2_in {n k x y : Nat} (logm : Nat) (hx : x < n) (hy : y < n) :
    ∀ s ∈ fft2 C x y logm, InRange n k s := by
  intro s hs
  unfold fft2 at hs
  split at hs <;> simp at hs
  · subst hs; exact ⟨hy, hx⟩
  · rcases hs with rfl | rfl
    · exact ⟨hx, hy⟩
    · exact ⟨hy, hx⟩

theorem ifft2_in {n k x y : Nat} (logm : Nat) (hx : x < n) (hy : y < n) :
    ∀ s ∈ ifft2 C x y logm, InRange n k s := by
  intro s hs
  unfold ifft2 at hs
  split at hs <;> simp at hs
  · subst hs; exact ⟨hy, hx⟩
  · rcases hs with rfl | rfl
    · exact ⟨hy, hx⟩
    · exact ⟨hx, hy⟩

theorem fft4_in {n k b dist : Nat} (m01 m23 m02 : Nat) (h : b + 3 * dist < n) :
    ∀ s ∈ fft4 C b dist m01 m23 m02, InRange n k s := by
  intro s hs
  unfold fft4 at hs
  simp only [List.mem_append] at hs
  rcases hs with ((hs | hs) | hs) | hs
  · exact fft2_in C _ (by omega) (by omega) s hs
  · exact fft2_in C _ (by omega) (by omega) s hs
  · exact fft2_in C _ (by omega) (by omega) s hs
  · exact fft2_in C _ (by omega) (by omega) s hs

theorem ifft4_in {n k b dist : Nat} (m01 m23 m02 : Nat) (h : b + 3 * dist < n) :
    ∀ s ∈ ifft4 C b dist m01 m23 m02, InRange n k s := by
  intro s hs
  unfold ifft4 at hs
  simp only [List.mem_append] at hs
  rcases hs with ((hs | hs) | hs) | hs
  · exact ifft2_in C _ (by omega) (by omega) s hs
  · exact ifft2_in C _ (by omega) (by omega) s hs
  · exact ifft2_in C _ (by omega) (by omega) s hs
  · exact ifft2_in C _ (by omega) (by omega) s hs

/-! ## 4. arithmetic of powers of two -/

/-- `D ∣ r`, `D ∣ m`, `r < m` ⟹ `r + D ≤ m` -/
theorem add_le_of_dvd {D r m : Nat} (hr : D ∣ r) (hm : D ∣ m) (h : r < m) : r + D ≤ m := by
  obtain ⟨a, rfl⟩ := hr
  obtain ⟨b, rfl⟩ := hm
  have hD : 0 < D := by
    rcases Nat.eq_zero_or_pos D with h0 | h0
    · subst h0; simp at h
    · exact h0
  have hab : a < b := Nat.lt_of_mul_lt_mul_left h
  calc D * a + D = D * (a + 1) := by rw [Nat.mul_succ]
    _ ≤ D * b := Nat.mul_le_mul_left D hab

theorem pow2_le_dvd {a b : Nat} (h : 2 ^ a ≤ 2 ^ b) : a ≤ b :=
  (Nat.pow_le_pow_iff_right (by decide)).mp h

theorem pow2_lt {a b : Nat} (h : 2 ^ a < 2 ^ b) : a < b :=
  (Nat.pow_lt_pow_iff_right (by decide)).mp h

theorem four_mul_pow2 (j : Nat) : 4 * 2 ^ j = 2 ^ (j + 2) := by
  rw [Nat.pow_succ, Nat.pow_succ]; omega

/-! ## 5. the layer loops -/

/-- outer-loop state `(out, dist, dist4)` of `ifftLayers` -/
def IOuter (n k e : Nat) (s : Array Step × Nat × Nat) : Prop :=
  AllIn n k s.fst ∧ ∃ j, s.snd.fst = 2 ^ j ∧ j ≤ e ∧ s.snd.snd = 4 * s.snd.fst

/-- middle-loop state `(out, r)` -/
def IMid (n k D : Nat) (s : Array Step × Nat) : Prop :=
  AllIn n k s.fst ∧ D ∣ s.snd

theorem ifftLayers_in (base mtrunc m off adj n k e : Nat) (hm : m = 2 ^ e) (hmt : mtrunc ≤ m)
    (hn : base + m ≤ n) : AllIn n k (ifftLayers C base mtrunc m off adj) := by
  unfold ifftLayers
  simp only [Std.Legacy.Range.forIn_eq_forIn_range', Std.Legacy.Range.size, Nat.sub_zero,
    Nat.add_one_sub_one, Nat.div_one]
  apply bind_inv (IOuter n k e)
  · apply forIn_inv' (IOuter n k e)
    · exact ⟨AllIn.empty n k, 0, rfl, Nat.zero_le _, rfl⟩
    · rintro _ _ ⟨out, dist, dist4⟩ ⟨hout, j, hj, hje, h4⟩
      simp only at hout hj h4 ⊢
      split
      · rename_i hle
        apply bind_invV (IMid n k dist4)
        · apply forIn_inv' (IMid n k dist4)
          · exact ⟨hout, Nat.dvd_zero _⟩
          · rintro _ _ ⟨out1, r⟩ ⟨hout1, hr⟩
            simp only at hout1 hr ⊢
            split
            · rename_i hlt
              apply bind_invV (AllIn n k)
              · apply forIn_inv' (AllIn n k)
                · exact hout1
                · intro i hi out2 hout2
                  simp only [Id.run_pure, ForInStep.value_yield]
                  apply hout2.appendList
                  apply ifft4_in
                  have hi' := List.mem_range'_1.mp hi
                  have h42 : dist4 = 2 ^ (j + 2) := by rw [h4, hj, four_mul_pow2]
                  have hdm : dist4 ∣ m := by
                    rw [h42, hm]; exact Nat.pow_dvd_pow 2 (pow2_le_dvd (by rw [← h42, ← hm]; exact hle))
                  have := add_le_of_dvd hr hdm (Nat.lt_of_lt_of_le hlt hmt)
                  omega
              · intro out2 hout2
                simp only [Id.run_pure, ForInStep.value_yield]
                exact ⟨hout2, Nat.dvd_add hr (Nat.dvd_refl _)⟩
            · simp only [Id.run_pure, ForInStep.value_yield]
              exact ⟨hout1, hr⟩
        · rintro ⟨out1, r⟩ ⟨hout1, hr⟩
          simp only [Id.run_pure, ForInStep.value_yield]
          refine ⟨hout1, j + 2, ?_, ?_, ?_⟩
          · show dist4 = 2 ^ (j + 2)
            rw [h4, hj, four_mul_pow2]
          · apply pow2_le_dvd
            rw [← four_mul_pow2, ← hj, ← h4, ← hm]; exact hle
          · show dist4 <<< 2 = 4 * dist4
            rw [Nat.shiftLeft_eq]; omega
      · simp only [Id.run_pure, ForInStep.value_yield]
        exact ⟨hout, j, hj, hje, h4⟩
  · rintro ⟨out, dist, dist4⟩ ⟨hout, j, hj, hje, h4⟩
    simp only at hout hj h4 ⊢
    split
    · rename_i hlt
      apply bind_inv (AllIn n k)
      · apply forIn_inv' (AllIn n k)
        · exact hout
        · intro i hi out2 hout2
          simp only [Id.run_pure, ForInStep.value_yield]
          apply hout2.appendList
          have hi' := List.mem_range'_1.mp hi
          have hjl : j < e := pow2_lt (by rw [← hj, ← hm]; exact hlt)
          have h2 : 2 ^ (j + 1) ≤ 2 ^ e := Nat.pow_le_pow_right (by decide) hjl
          rw [Nat.pow_succ, ← hj, ← hm] at h2
          exact ifft2_in C _ (by omega) (by omega)
      · intro b hb; exact hb
    · exact hout

theorem pow2_shr2 (j : Nat) (h : 2 ^ j >>> 2 ≠ 0) :
    ∃ j', j = j' + 2 ∧ 2 ^ j >>> 2 = 2 ^ j' ∧ 2 ^ j = 4 * 2 ^ j' := by
  match j, h with
  | 0, h => exact absurd rfl h
  | 1, h => exact absurd rfl h
  | j' + 2, _ =>
    refine ⟨j', rfl, ?_, (four_mul_pow2 j').symm⟩
    rw [Nat.shiftRight_eq_div_pow, ← four_mul_pow2]
    exact Nat.mul_div_cancel_left _ (by decide)

/-- outer-loop state `(out, dist4, dist)` of `fftLayers` -/
def FOuter (n k e : Nat) (s : Array Step × Nat × Nat) : Prop :=
  AllIn n k s.fst ∧ ∃ j, s.snd.fst = 2 ^ j ∧ j ≤ e ∧ s.snd.snd = s.snd.fst >>> 2

theorem fftLayers_in (mtrunc m n k e : Nat) (hm : m = 2 ^ e) (hmt : mtrunc ≤ m)
    (hn : m ≤ n) : AllIn n k (fftLayers C mtrunc m) := by
  unfold fftLayers
  simp only [Std.Legacy.Range.forIn_eq_forIn_range', Std.Legacy.Range.size, Nat.sub_zero,
    Nat.add_one_sub_one, Nat.div_one]
  apply bind_inv (FOuter n k e)
  · apply forIn_inv' (FOuter n k e)
    · exact ⟨AllIn.empty n k, e, hm, Nat.le_refl _, rfl⟩
    · rintro _ _ ⟨out, dist4, dist⟩ ⟨hout, j, hj, hje, h4⟩
      simp only at hout hj h4 ⊢
      split
      · rename_i hne
        obtain ⟨j', hjj, hd, hd4⟩ := pow2_shr2 j (by rw [← hj, ← h4]; exact hne)
        have hdist : dist = 2 ^ j' := by rw [h4, hj, hd]
        have h44 : dist4 = 4 * dist := by rw [hj, hd4, hdist]
        have hdm : dist4 ∣ m := by rw [hj, hm]; exact Nat.pow_dvd_pow 2 hje
        apply bind_invV (IMid n k dist4)
        · apply forIn_inv' (IMid n k dist4)
          · exact ⟨hout, Nat.dvd_zero _⟩
          · rintro _ _ ⟨out1, r⟩ ⟨hout1, hr⟩
            simp only at hout1 hr ⊢
            split
            · rename_i hlt
              apply bind_invV (AllIn n k)
              · apply forIn_inv' (AllIn n k)
                · exact hout1
                · intro i hi out2 hout2
                  simp only [Id.run_pure, ForInStep.value_yield]
                  apply hout2.appendList
                  apply fft4_in
                  have hi' := List.mem_range'_1.mp hi
                  have := add_le_of_dvd hr hdm (Nat.lt_of_lt_of_le hlt hmt)
                  omega
              · intro out2 hout2
                simp only [Id.run_pure, ForInStep.value_yield]
                exact ⟨hout2, Nat.dvd_add hr (Nat.dvd_refl _)⟩
            · simp only [Id.run_pure, ForInStep.value_yield]
              exact ⟨hout1, hr⟩
        · rintro ⟨out1, r⟩ ⟨hout1, hr⟩
          simp only [Id.run_pure, ForInStep.value_yield]
          exact ⟨hout1, j', hdist, by omega, rfl⟩
      · simp only [Id.run_pure, ForInStep.value_yield]
        exact ⟨hout, j, hj, hje, h4⟩
  · rintro ⟨out, dist4, dist⟩ ⟨hout, j, hj, hje, h4⟩
    simp only at hout hj h4 ⊢
    split
    · rename_i h2
      have hdm : 2 ∣ m := by
        have : dist4 ∣ m := by rw [hj, hm]; exact Nat.pow_dvd_pow 2 hje
        rwa [h2] at this
      apply bind_inv (IMid n k 2)
      · apply forIn_inv' (IMid n k 2)
        · exact ⟨hout, Nat.dvd_zero _⟩
        · rintro _ _ ⟨out1, r⟩ ⟨hout1, hr⟩
          simp only at hout1 hr ⊢
          split
          · rename_i hlt
            simp only [Id.run_pure, ForInStep.value_yield]
            have := add_le_of_dvd hr hdm (Nat.lt_of_lt_of_le hlt hmt)
            exact ⟨hout1.appendList (fft2_in C _ (by omega) (by omega)),
              Nat.dvd_add hr (Nat.dvd_refl _)⟩
          · simp only [Id.run_pure, ForInStep.value_yield]
            exact ⟨hout1, hr⟩
      · intro b hb; exact hb.1
    · exact hout

/-! ## 6. `ceilPow2`, `encodeSched` -/

theorem ceilPow2_pow2 (p : Nat) : ∃ e, ceilPow2 p = 2 ^ e := by
  rw [ceilPow2_eq]
  suffices h : ∀ (l : List Nat) (k : Nat), (∃ e, k = 2 ^ e) →
      ∃ e, l.foldl (fun k _ => if k < p then k * 2 else k) k = 2 ^ e from h _ 1 ⟨0, rfl⟩
  intro l
  induction l with
  | nil => intro k hk; exact hk
  | cons a l ih =>
    intro k ⟨e, he⟩
    simp only [List.foldl_cons]
    apply ih
    split
    · exact ⟨e + 1, by rw [he, Nat.pow_succ]⟩
    · exact ⟨e, he⟩

/-- a `for` loop that only pushes in-range steps -/
theorem forIn_push_in {n k : Nat} {l : List Nat} {init : Array Step} {g : Nat → Step}
    (h0 : AllIn n k init) (hg : ∀ i ∈ l, InRange n k (g i)) :
    AllIn n k (forIn (m := Id) l init fun i s => pure (ForInStep.yield (s.push (g i)))).run := by
  apply forIn_inv' (AllIn n k) h0
  intro i hi s hs
  simp only [Id.run_pure, ForInStep.value_yield]
  exact hs.push (hg i hi)

theorem groups_lt {d m g : Nat} (hm : 0 < m) (hmd : m < d) (hg : g < (d - m + m - 1) / m) :
    m + g * m < d := by
  have h1 : (g + 1) * m ≤ (d - m + m - 1) / m * m := Nat.mul_le_mul_right m hg
  have h2 := Nat.div_mul_le_self (d - m + m - 1) m
  rw [Nat.succ_mul] at h1
  omega

theorem encodeSched_in (d p : Nat) (hpb : p ≤ 2 ^ 64) :
    AllIn (2 * ceilPow2 p) d (encodeSched C d p) := by
  obtain ⟨e, hm⟩ := ceilPow2_pow2 p
  have hp := le_ceilPow2 p hpb
  unfold encodeSched
  simp only [Std.Legacy.Range.forIn_eq_forIn_range', Std.Legacy.Range.size, Nat.sub_zero,
    Nat.add_one_sub_one, Nat.div_one]
  generalize ceilPow2 p = m at hm hp ⊢
  have hm0 : 0 < m := by rw [hm]; exact Nat.two_pow_pos e
  have hmt : (if d < m then d else m) ≤ m := by split <;> omega
  have hmtd : (if d < m then d else m) ≤ d := by split <;> omega
  apply bind_inv (AllIn (2 * m) d)
  · apply forIn_push_in (AllIn.empty _ _)
    intro i hi
    have := List.mem_range'_1.mp hi
    exact ⟨by omega, by omega⟩
  intro s1 hs1
  apply bind_inv (AllIn (2 * m) d)
  · apply forIn_push_in hs1
    intro i hi
    have := List.mem_range'_1.mp hi
    show i < 2 * m
    omega
  intro s2 hs2
  have hs3 : AllIn (2 * m) d (s2 ++ ifftLayers C 0 (if d < m then d else m) m (m - 1) 0) :=
    hs2.append (ifftLayers_in C 0 _ m _ 0 _ _ e hm hmt (by omega))
  have hfft : AllIn (2 * m) d (fftLayers C p m) := fftLayers_in C p m _ _ e hm hp (by omega)
  split
  · rename_i hmd
    apply bind_inv (AllIn (2 * m) d)
    · apply forIn_inv' (AllIn (2 * m) d) hs3
      intro g hg s hs
      have hg' := groups_lt (g := g) hm0 hmd (by have := (List.mem_range'_1.mp hg).2; omega)
      have hcnt : (if m + g * m + m ≤ d then m else d - (m + g * m)) ≤ m := by split <;> omega
      have hcntd : m + g * m + (if m + g * m + m ≤ d then m else d - (m + g * m)) ≤ d := by
        split <;> omega
      apply bind_invV (AllIn (2 * m) d)
      · apply forIn_push_in hs
        intro i hi
        have := List.mem_range'_1.mp hi
        exact ⟨by omega, by omega⟩
      intro t1 ht1
      apply bind_invV (AllIn (2 * m) d)
      · apply forIn_push_in ht1
        intro i hi
        have := List.mem_range'_1.mp hi
        show m + i < 2 * m
        omega
      intro t2 ht2
      apply bind_invV (AllIn (2 * m) d)
      · apply forIn_push_in (ht2.append (ifftLayers_in C m _ m _ 0 _ _ e hm hcnt (by omega)))
        intro i hi
        have := List.mem_range'_1.mp hi
        exact ⟨by omega, by omega⟩
      intro t3 ht3
      exact ht3
    · intro s4 hs4
      exact hs4.append hfft
  · exact hs3.append hfft

/-! ## 7. `reconSched` -/

/-- `i ^^^ (i - 1)` is `2^(t+1) - 1` where `2^t` is the lowest set bit of `i` -/
theorem lowbit (i : Nat) (hi : 0 < i) : ∃ t, (i ^^^ (i - 1)) + 1 = 2 ^ (t + 1) ∧ 2 ^ t ∣ i := by
  induction i using Nat.strongRecOn with
  | _ i ih =>
    have hdecomp : (i ^^^ (i - 1)) = 2 * ((i ^^^ (i - 1)) / 2) + (i ^^^ (i - 1)) % 2 :=
      (Nat.div_add_mod _ 2).symm
    have hmod : (i ^^^ (i - 1)) % 2 = 1 := by
      rw [Nat.xor_mod_two_eq_one]; omega
    rw [Nat.xor_div_two] at hdecomp
    rcases Nat.mod_two_eq_zero_or_one i with h0 | h1
    · -- even
      have hj : 0 < i / 2 := by omega
      obtain ⟨t, ht, hdvd⟩ := ih (i / 2) (by omega) hj
      have : (i - 1) / 2 = i / 2 - 1 := by omega
      rw [this] at hdecomp
      refine ⟨t + 1, ?_, ?_⟩
      · rw [Nat.pow_succ 2 (t + 1)]; omega
      · have h2 : i = i / 2 * 2 := by omega
        rw [h2, Nat.pow_succ]
        exact Nat.mul_dvd_mul hdvd (Nat.dvd_refl 2)
    · -- odd
      have : (i - 1) / 2 = i / 2 := by omega
      rw [this, Nat.xor_self] at hdecomp
      exact ⟨0, by omega, by simp⟩

theorem deriv_in {n e i k : Nat} (hn : n = 2 ^ e) (hi : 0 < i) (hin : i < n)
    (hk : k < ((i ^^^ (i - 1)) + 1) >>> 1) : i + k < n := by
  obtain ⟨t, ht, hdvd⟩ := lowbit i hi
  rw [ht, Nat.shiftRight_eq_div_pow, Nat.pow_succ, Nat.pow_one,
    Nat.mul_div_cancel _ (by decide : 0 < 2)] at hk
  have hle : 2 ^ t ≤ i := Nat.le_of_dvd hi hdvd
  have hte : t ≤ e := Nat.le_of_lt (pow2_lt (by rw [← hn]; omega))
  have hdn : 2 ^ t ∣ n := by rw [hn]; exact Nat.pow_dvd_pow 2 hte
  have := add_le_of_dvd hdvd hdn hin
  omega

theorem reconSched_in (d p : Nat) (missing : Nat → Bool) (el : Array Nat) (hpb : p ≤ 2 ^ 64)
    (hmd : ceilPow2 p + d ≤ 2 ^ 64) :
    AllIn (ceilPow2 (ceilPow2 p + d)) (d + p) (reconSched C d p missing el) := by
  obtain ⟨e, hn⟩ := ceilPow2_pow2 (ceilPow2 p + d)
  have hp := le_ceilPow2 p hpb
  have hmn := le_ceilPow2 (ceilPow2 p + d) hmd
  unfold reconSched
  simp only [Std.Legacy.Range.forIn_eq_forIn_range', Std.Legacy.Range.size, Nat.sub_zero,
    Nat.add_one_sub_one, Nat.div_one]
  generalize ceilPow2 (ceilPow2 p + d) = n at hn hmn ⊢
  generalize ceilPow2 p = m at hp hmn ⊢
  apply bind_inv (AllIn n (d + p))
  · apply forIn_push_in (AllIn.empty _ _)
    intro i hi
    have := List.mem_range'_1.mp hi
    split
    · show i < n; omega
    · exact ⟨by omega, by omega⟩
  intro s1 hs1
  apply bind_inv (AllIn n (d + p))
  · apply forIn_push_in hs1
    intro i hi
    have := List.mem_range'_1.mp hi
    show i < n; omega
  intro s2 hs2
  apply bind_inv (AllIn n (d + p))
  · apply forIn_push_in hs2
    intro i hi
    have := List.mem_range'_1.mp hi
    split
    · show m + i < n; omega
    · exact ⟨by omega, by omega⟩
  intro s3 hs3
  apply bind_inv (AllIn n (d + p))
  · apply forIn_push_in hs3
    intro i hi
    have := List.mem_range'_1.mp hi
    show i < n; omega
  intro s4 hs4
  apply bind_inv (AllIn n (d + p))
  · apply forIn_inv' (AllIn n (d + p))
      (hs4.append (ifftLayers_in C 0 (m + d) n 0 1 _ _ e hn hmn (by omega)))
    intro i hi s hs
    have hi' := List.mem_range'_1.mp hi
    apply bind_invV (AllIn n (d + p))
    · apply forIn_push_in hs
      intro k hk
      have hk' := List.mem_range'_1.mp hk
      have := deriv_in (i := i) (k := k) hn (by omega) (by omega) (by omega)
      exact ⟨by omega, by omega⟩
    · intro t ht; exact ht
  intro s5 hs5
  exact hs5.append (fftLayers_in C (m + d) n _ _ e hn hmn (Nat.le_refl _))

end RSV.Proofs.LeoSchedRange
