import RSV.Model.Memo
import RSV.Proofs.Gauss
import RSV.Proofs.Reconstruct
import Mathlib.Data.List.Basic
import Mathlib.Tactic.SplitIfs

/-!
# The inversion tree (`RSV.Model.Memo`): trie laws, the key determines the survivor rows,
soundness of the cached reconstruct step

Helper lemmas for `RSV.Props.C10` and `RSV.Props.C11`.

* `StrictInc k parent` — the shape of every key the package passes to the tree;
  `Node.get_insert_same`, `Node.get_insert_other`, lifted to `Tree.get` / `Tree.insert`;
* `validOfKey n key d` — the first `d` indices outside `key`; `firstPresent_eq_validOfKey`:
  these are the first `d` present indices of any presence pattern with that cache key, hence
  `key_determines_valid` and `subMat_eq_subOfKey`;
* `reconstructWith_congr` — `reconstructWith` consults `inv` at `subMat A present` only, and
  only when at least `d` shards are present;
* `Sound`, `reconStep_result`, `reconStep_sound`.
-/

namespace RSV.Model.Memo
open RSV.Model

/-! ### trie laws -/
section Trie
variable {V : Type}

/-- the keys of the inversion tree: every element is at least the running `parent`
(the first `≥ parent`, the next `≥ previous + 1`, …), i.e. strictly increasing from `parent` on -/
def StrictInc : List ℕ → ℕ → Prop
  | [], _ => True
  | i :: rest, parent => parent ≤ i ∧ StrictInc rest (i + 1)

instance : ∀ (k : List ℕ) (parent : ℕ), Decidable (StrictInc k parent)
  | [], _ => isTrue trivial
  | i :: rest, parent =>
    have := instDecidableStrictInc rest (i + 1)
    inferInstanceAs (Decidable (parent ≤ i ∧ StrictInc rest (i + 1)))

theorem StrictInc.mono {k : List ℕ} {a b : ℕ} (h : StrictInc k b) (hab : a ≤ b) : StrictInc k a := by
  cases k with
  | nil => trivial
  | cons i rest => exact ⟨le_trans hab h.1, h.2⟩

/-- `StrictInc` is "strictly increasing with all elements `≥ parent`" -/
theorem strictInc_iff (k : List ℕ) (parent : ℕ) :
    StrictInc k parent ↔ k.Pairwise (· < ·) ∧ ∀ x ∈ k, parent ≤ x := by
  induction k generalizing parent with
  | nil => simp [StrictInc]
  | cons i rest ih =>
    simp only [StrictInc, ih, List.pairwise_cons, List.mem_cons, forall_eq_or_imp]
    constructor
    · rintro ⟨h1, h2, h3⟩
      exact ⟨⟨fun x hx => h3 x hx, h2⟩, h1, fun x hx => by have := h3 x hx; omega⟩
    · rintro ⟨⟨h1, h2⟩, h3, _⟩
      exact ⟨h3, h2, fun x hx => h1 x hx⟩

namespace Node

@[simp] theorem val_empty : (empty : Node V).val = none := rfl
@[simp] theorem child_empty (k : ℕ) : (empty : Node V).child k = empty := rfl
@[simp] theorem val_mk (v : Option V) (ch : ℕ → Node V) : (mk v ch).val = v := rfl
@[simp] theorem child_mk (v : Option V) (ch : ℕ → Node V) (k : ℕ) : (mk v ch).child k = ch k := rfl

theorem get_single (i : ℕ) (n : Node V) (parent : ℕ) :
    get [i] n parent = (n.child (i - parent)).val := rfl

theorem get_cons_cons (i j : ℕ) (r : List ℕ) (n : Node V) (parent : ℕ) :
    get (i :: j :: r) n parent = get (j :: r) (n.child (i - parent)) (i + 1) := rfl

theorem insert_single (i : ℕ) (n : Node V) (parent : ℕ) (v : V) :
    insert [i] n parent v =
      mk n.val (fun k => if k = i - parent then
        mk (some v) (fun k => (n.child (i - parent)).child k) else n.child k) := rfl

theorem insert_cons_cons (i j : ℕ) (r : List ℕ) (n : Node V) (parent : ℕ) (v : V) :
    insert (i :: j :: r) n parent v =
      mk n.val (fun k => if k = i - parent then
        insert (j :: r) (mk (n.child (i - parent)).val (fun k => (n.child (i - parent)).child k))
          (i + 1) v
        else n.child k) := rfl

/-- the nil pointer holds nothing -/
theorem get_empty (k : List ℕ) (parent : ℕ) : get k (empty : Node V) parent = none := by
  induction k generalizing parent with
  | nil => rfl
  | cons i rest ih =>
    cases rest with
    | nil => rfl
    | cons j r => rw [get_cons_cons, child_empty]; exact ih _

/-- a node without children holds nothing below it -/
theorem get_leaf (k : List ℕ) (v : Option V) (parent : ℕ) :
    get k (mk v fun _ => empty) parent = none := by
  cases k with
  | nil => rfl
  | cons i rest =>
    cases rest with
    | nil => rfl
    | cons j r => rw [get_cons_cons, child_mk]; exact get_empty _ _

/-- insertion never touches the value stored at the node itself -/
theorem val_insert (k : List ℕ) (n : Node V) (parent : ℕ) (v : V) :
    (insert k n parent v).val = n.val := by
  cases k with
  | nil => rfl
  | cons i rest => cases rest <;> rfl

/-- a lookup with a non-empty key sees the children only -/
theorem get_congr (k : List ℕ) (hk : k ≠ []) (n n' : Node V) (parent : ℕ)
    (h : ∀ x, n.child x = n'.child x) : get k n parent = get k n' parent := by
  cases k with
  | nil => exact absurd rfl hk
  | cons i rest =>
    cases rest with
    | nil => rw [get_single, get_single, h]
    | cons j r => rw [get_cons_cons, get_cons_cons, h]

theorem child_insert_ne (i : ℕ) (rest : List ℕ) (n : Node V) (parent : ℕ) (v : V) (x : ℕ)
    (hx : x ≠ i - parent) : (insert (i :: rest) n parent v).child x = n.child x := by
  cases rest with
  | nil => rw [insert_single, child_mk, if_neg hx]
  | cons j r => rw [insert_cons_cons, child_mk, if_neg hx]

/-- **trie law 1**: what was inserted under a non-empty key is found under that key
(holds for every non-empty key, strictly increasing or not) -/
theorem get_insert_same (k : List ℕ) (hk : k ≠ []) (n : Node V) (parent : ℕ) (v : V) :
    get k (insert k n parent v) parent = some v := by
  induction k generalizing n parent with
  | nil => exact absurd rfl hk
  | cons i rest ih =>
    cases rest with
    | nil => rw [get_single, insert_single, child_mk, if_pos rfl, val_mk]
    | cons j r =>
      rw [get_cons_cons, insert_cons_cons, child_mk, if_pos rfl]
      exact ih (by simp) _ _

/-- **trie law 2**: an insertion does not disturb any other strictly increasing key -/
theorem get_insert_other (k k' : List ℕ) (hk : k ≠ []) (hk' : k' ≠ []) (n : Node V) (parent : ℕ)
    (hinc : StrictInc k parent) (hinc' : StrictInc k' parent) (hne : k ≠ k') (v : V) :
    get k' (insert k n parent v) parent = get k' n parent := by
  induction k generalizing k' n parent with
  | nil => exact absurd rfl hk
  | cons i rest ih =>
    cases k' with
    | nil => exact absurd rfl hk'
    | cons i' rest' =>
      by_cases hi : i' = i
      · subst hi
        have hrr : rest ≠ rest' := fun e => hne (by rw [e])
        cases rest with
        | nil =>
          cases rest' with
          | nil => exact absurd rfl hrr
          | cons j' r' =>
            rw [get_cons_cons, insert_single, child_mk, if_pos rfl, get_cons_cons]
            exact get_congr _ (by simp) _ _ _ (fun x => rfl)
        | cons j r =>
          cases rest' with
          | nil =>
            rw [get_single, insert_cons_cons, child_mk, if_pos rfl, val_insert, val_mk, get_single]
          | cons j' r' =>
            rw [get_cons_cons, insert_cons_cons, child_mk, if_pos rfl, get_cons_cons,
              ih (j' :: r') (by simp) (by simp) _ _ hinc.2 hinc'.2 hrr]
            exact get_congr _ (by simp) _ _ _ (fun x => rfl)
      · have h1 := hinc.1
        have h2 := hinc'.1
        have hx : i' - parent ≠ i - parent := by omega
        cases rest' with
        | nil => rw [get_single, get_single, child_insert_ne _ _ _ _ _ _ hx]
        | cons j' r' => rw [get_cons_cons, get_cons_cons, child_insert_ne _ _ _ _ _ _ hx]

end Node

/-! ### the same laws for `Tree.get` / `Tree.insert` -/

/-- a disabled cache always misses -/
@[simp] theorem Tree.get_none (k : List ℕ) : Tree.get (none : Option (Tree V)) k = none := rfl

/-- a disabled cache stays disabled -/
@[simp] theorem Tree.insert_none (k : List ℕ) (v : V) :
    Tree.insert (none : Option (Tree V)) k v = none := rfl

/-- the empty key always returns the value at the root -/
@[simp] theorem Tree.get_nil (t : Tree V) : Tree.get (some t) [] = t.root.val := rfl

/-- inserting under the empty key changes nothing (`errAlreadySet`) -/
@[simp] theorem Tree.insert_nil (t : Option (Tree V)) (v : V) : Tree.insert t [] v = t := by
  cases t <;> rfl

theorem Tree.get_cons (t : Tree V) (i : ℕ) (r : List ℕ) :
    Tree.get (some t) (i :: r) = Node.get (i :: r) t.root 0 := rfl

theorem Tree.insert_cons (t : Tree V) (i : ℕ) (r : List ℕ) (v : V) :
    Tree.insert (some t) (i :: r) v = some ⟨Node.insert (i :: r) t.root 0 v⟩ := rfl

theorem Tree.insert_isSome (t : Option (Tree V)) (k : List ℕ) (v : V) :
    (Tree.insert t k v).isSome = t.isSome := by
  cases t with
  | none => rfl
  | some t => cases k <;> rfl

/-- **tree law 1** (cache enabled) -/
theorem Tree.get_insert_same (t : Tree V) (k : List ℕ) (hk : k ≠ []) (v : V) :
    Tree.get (Tree.insert (some t) k v) k = some v := by
  cases k with
  | nil => exact absurd rfl hk
  | cons i r =>
    rw [Tree.insert_cons, Tree.get_cons]
    exact Node.get_insert_same _ hk _ _ _

/-- **tree law 2** (cache enabled or not; `k'` may be the empty key; for `k = []` the insertion is
a no-op) -/
theorem Tree.get_insert_other (t : Option (Tree V)) (k k' : List ℕ)
    (hinc : StrictInc k 0) (hinc' : StrictInc k' 0) (hne : k ≠ k') (v : V) :
    Tree.get (Tree.insert t k v) k' = Tree.get t k' := by
  cases t with
  | none => rfl
  | some t =>
    cases k with
    | nil => rfl
    | cons i r =>
      cases k' with
      | nil => rw [Tree.insert_cons, Tree.get_nil, Tree.get_nil, Node.val_insert]
      | cons i' r' =>
        rw [Tree.insert_cons, Tree.get_cons, Tree.get_cons]
        exact Node.get_insert_other _ _ (by simp) (by simp) _ _ hinc hinc' hne _

/-- whatever is found after an insertion is the inserted value under the inserted key, or was
there before (cache enabled or not, any strictly increasing keys) -/
theorem Tree.get_insert_cases (t : Option (Tree V)) (k k' : List ℕ)
    (hinc : StrictInc k 0) (hinc' : StrictInc k' 0) (v v' : V)
    (h : Tree.get (Tree.insert t k v) k' = some v') :
    (k' = k ∧ k ≠ [] ∧ v' = v) ∨ Tree.get t k' = some v' := by
  by_cases hkk : k = k'
  · subst hkk
    cases t with
    | none => exact absurd h (by simp)
    | some t =>
      by_cases hk : k = []
      · subst hk; right; simpa using h
      · left
        rw [Tree.get_insert_same t k hk] at h
        exact ⟨rfl, hk, (Option.some_injective _ h).symm⟩
  · right
    rwa [Tree.get_insert_other t k k' hinc hinc' hkk] at h

end Trie

/-! ### the key determines the survivor rows -/
section Key

/-- the `d+1`-st element satisfying `p` splits the list -/
theorem exists_split {α : Type} (p : α → Bool) : ∀ (l : List α) (d : ℕ),
    d + 1 ≤ (l.filter p).length →
    ∃ l1 x l2, l = l1 ++ x :: l2 ∧ p x = true ∧ (l1.filter p).length = d
  | [], d, h => by simp at h
  | a :: l, d, h => by
    by_cases ha : p a = true
    · cases d with
      | zero => exact ⟨[], a, l, rfl, ha, rfl⟩
      | succ d =>
        rw [List.filter_cons_of_pos ha, List.length_cons] at h
        obtain ⟨l1, x, l2, hl, hx, hlen⟩ := exists_split p l d (by omega)
        refine ⟨a :: l1, x, l2, by rw [hl]; rfl, hx, ?_⟩
        rw [List.filter_cons_of_pos ha, List.length_cons, hlen]
    · rw [List.filter_cons_of_neg ha] at h
      obtain ⟨l1, x, l2, hl, hx, hlen⟩ := exists_split p l d h
      refine ⟨a :: l1, x, l2, by rw [hl]; rfl, hx, ?_⟩
      rw [List.filter_cons_of_neg ha, hlen]

/-- the first `d` indices below `n` that are not in `key` -/
def validOfKey (n : ℕ) (key : List ℕ) (d : ℕ) : List (Fin n) :=
  ((List.finRange n).filter fun i => !key.contains i.val).take d

variable {n : ℕ}

theorem mem_cacheKey_iff_of_last (present : Fin n → Bool) (d : ℕ) (last : Fin n)
    (h : (firstPresent present d).getLast? = some last) (i : Fin n) :
    (cacheKey present d).contains i.val = (decide (i.val < last.val) && !present i) := by
  unfold cacheKey invalidBefore
  rw [h]
  simp only []
  rw [Bool.eq_iff_iff, List.contains_iff_mem, List.mem_map]
  constructor
  · rintro ⟨j, hj, hji⟩
    have : j = i := Fin.ext hji
    subst this
    exact (List.mem_filter.mp hj).2
  · intro hi
    exact ⟨i, List.mem_filter.mpr ⟨List.mem_finRange i, hi⟩, rfl⟩

/-- **the first `d` present indices are the first `d` indices outside the cache key** -/
theorem firstPresent_eq_validOfKey (present : Fin n → Bool) (d : ℕ) (h : d ≤ countTrue present) :
    firstPresent present d = validOfKey n (cacheKey present d) d := by
  cases d with
  | zero => simp [firstPresent, validOfKey]
  | succ d =>
    obtain ⟨l1, x, l2, hl, hx, hlen⟩ := exists_split present (List.finRange n) d h
    have hfp : firstPresent present (d + 1) = l1.filter present ++ [x] := by
      unfold firstPresent
      rw [hl, List.filter_append, List.filter_cons_of_pos hx, ← hlen,
        List.take_length_add_append]
      rfl
    have hlast : (firstPresent present (d + 1)).getLast? = some x := by
      rw [hfp]; simp
    have hpw : (l1 ++ x :: l2).Pairwise (· < ·) := hl ▸ List.pairwise_lt_finRange n
    rw [List.pairwise_append] at hpw
    obtain ⟨-, hpw2, hpw3⟩ := hpw
    rw [List.pairwise_cons] at hpw2
    unfold validOfKey
    rw [hfp, hl, List.filter_append]
    have e1 : l1.filter (fun i => !(cacheKey present (d + 1)).contains i.val) = l1.filter present := by
      apply List.filter_congr
      intro a ha
      rw [mem_cacheKey_iff_of_last present (d + 1) x hlast a]
      have : a.val < x.val := hpw3 a ha x List.mem_cons_self
      simp [this]
    have e2 : (x :: l2).filter (fun i => !(cacheKey present (d + 1)).contains i.val) = x :: l2 := by
      rw [List.filter_eq_self]
      intro a ha
      rw [mem_cacheKey_iff_of_last present (d + 1) x hlast a]
      have : ¬ a.val < x.val := by
        rcases List.mem_cons.mp ha with rfl | ha
        · exact lt_irrefl _
        · have := hpw2.1 a ha
          exact not_lt.mpr (le_of_lt this)
      simp [this]
    rw [e1, e2, ← hlen, List.take_length_add_append]
    rfl

/-- **the key determines the survivor rows**: two presence patterns (each with at least `d`
present shards) that produce the same cache key select the same `d` rows -/
theorem key_determines_valid (present present' : Fin n → Bool) (d : ℕ)
    (h : d ≤ countTrue present) (h' : d ≤ countTrue present')
    (hk : cacheKey present d = cacheKey present' d) :
    firstPresent present d = firstPresent present' d := by
  rw [firstPresent_eq_validOfKey present d h, firstPresent_eq_validOfKey present' d h', hk]

/-- cache keys are strictly increasing -/
theorem cacheKey_pairwise (present : Fin n → Bool) (d : ℕ) :
    (cacheKey present d).Pairwise (· < ·) := by
  unfold cacheKey invalidBefore
  split
  · exact List.Pairwise.nil
  · rw [List.pairwise_map]
    exact ((List.pairwise_lt_finRange n).filter _).imp (fun h => h)

theorem cacheKey_strictInc (present : Fin n → Bool) (d : ℕ) : StrictInc (cacheKey present d) 0 :=
  (strictInc_iff _ _).mpr ⟨cacheKey_pairwise present d, fun _ _ => Nat.zero_le _⟩

/-- every element of a cache key is a missing index below `n` -/
theorem cacheKey_mem (present : Fin n → Bool) (d : ℕ) (x : ℕ) (hx : x ∈ cacheKey present d) :
    ∃ i : Fin n, i.val = x ∧ present i = false := by
  unfold cacheKey invalidBefore at hx
  split at hx
  · simp at hx
  · obtain ⟨i, hi, rfl⟩ := List.mem_map.mp hx
    have := (List.mem_filter.mp hi).2
    simp only [Bool.and_eq_true, Bool.not_eq_true'] at this
    exact ⟨i, rfl, this.2⟩

/-- the key is empty exactly when the first `d` shards are all present -/
theorem cacheKey_eq_nil_iff (present : Fin n → Bool) (d : ℕ) (h : d ≤ countTrue present) :
    cacheKey present d = [] ↔ ∀ i : Fin n, i.val < d → present i = true := by
  constructor
  · intro hk i hi
    have hfp := firstPresent_eq_validOfKey present d h
    rw [hk] at hfp
    have hmem : i ∈ validOfKey n [] d := by
      unfold validOfKey
      have : (List.finRange n).filter (fun i => !([] : List ℕ).contains i.val) = List.finRange n := by
        rw [List.filter_eq_self]; intro a _; rfl
      rw [this, List.mem_take_iff_getElem]
      refine ⟨i.val, ?_, ?_⟩
      · rw [List.length_finRange]; exact lt_min hi i.isLt
      · simp
    rw [← hfp] at hmem
    exact firstPresent_mem hmem
  · intro hall
    cases d with
    | zero => simp [cacheKey, invalidBefore, firstPresent]
    | succ d =>
      have hdn : d + 1 ≤ n := le_trans h (countTrue_le present)
      have hfp : firstPresent present (d + 1) = (List.finRange n).take (d + 1) := by
        unfold firstPresent
        conv_lhs => rw [← List.take_append_drop (d + 1) (List.finRange n), List.filter_append]
        rw [List.filter_eq_self.mpr]
        · apply List.take_left'
          rw [List.length_take, List.length_finRange]; omega
        · intro a ha
          obtain ⟨k, hk, rfl⟩ := List.mem_take_iff_getElem.mp ha
          apply hall
          simp only [List.getElem_finRange, Fin.val_cast]
          rw [List.length_finRange] at hk
          omega
      have hlast : (firstPresent present (d + 1)).getLast? = some ⟨d, by omega⟩ := by
        rw [hfp, List.getLast?_eq_getElem?, List.length_take, List.length_finRange,
          List.getElem?_take]
        simp [Nat.min_eq_left hdn]
        rw [List.getElem?_eq_getElem (by rw [List.length_finRange]; omega)]; simp
      rw [List.eq_nil_iff_forall_not_mem]
      intro x hx
      obtain ⟨i, rfl, -⟩ := cacheKey_mem present (d + 1) x hx
      have hc := mem_cacheKey_iff_of_last present (d + 1) _ hlast i
      rw [List.contains_iff_mem.mpr hx] at hc
      have := hc.symm
      simp only [Bool.and_eq_true, decide_eq_true_eq, Bool.not_eq_true'] at this
      have hp := hall i (by omega)
      rw [this.2] at hp
      cases hp

end Key

/-! ### the sub-matrix inverted by `reconstruct` is a function of the key -/
section Codec
variable {F : Type} [Field F] [DecidableEq F] {d p len : ℕ}

/-- the sub-matrix of `[I; A]` at the first `d` rows outside `key` -/
def subOfKey (A : Mat F p d) (key : List ℕ) : Mat F d d :=
  Mat.ofFn fun j c =>
    genRow A (((validOfKey (d + p) key d)[j.val]?).getD ⟨j.val, by omega⟩) c

omit [DecidableEq F] in
/-- the sub-matrix selected by a presence pattern depends on its cache key only -/
theorem subMat_eq_subOfKey (A : Mat F p d) (present : Fin (d + p) → Bool)
    (h : d ≤ countTrue present) : subMat A present = subOfKey A (cacheKey present d) := by
  unfold subMat subOfKey validIdx
  rw [firstPresent_eq_validOfKey present d h]

omit [DecidableEq F] in
theorem subMat_congr_key (A : Mat F p d) (present present' : Fin (d + p) → Bool)
    (h : d ≤ countTrue present) (h' : d ≤ countTrue present')
    (hk : cacheKey present d = cacheKey present' d) : subMat A present = subMat A present' := by
  rw [subMat_eq_subOfKey A present h, subMat_eq_subOfKey A present' h', hk]

omit [DecidableEq F] in
/-- the empty key selects the identity -/
theorem subOfKey_nil (A : Mat F p d) : subOfKey A [] = identity d := by
  apply Mat.ext_get
  intro j c
  have hv : validOfKey (d + p) [] d = (List.finRange (d + p)).take d := by
    unfold validOfKey
    rw [List.filter_eq_self.mpr]
    intro a _; rfl
  have hj : ((List.finRange (d + p)).take d)[j.val]? = some ⟨j.val, by omega⟩ := by
    rw [List.getElem?_take, if_pos j.isLt,
      List.getElem?_eq_getElem (by rw [List.length_finRange]; omega)]
    simp
  unfold subOfKey identity
  rw [Mat.get_ofFn, Mat.get_ofFn, hv, hj, Option.getD_some]
  unfold genRow
  rw [dif_pos j.isLt]
  by_cases hjc : j = c
  · subst hjc; simp
  · have : ¬ j.val = c.val := fun e => hjc (Fin.ext e)
    simp [hjc, this]

theorem invert_identity : invert (identity d : Mat F d d) = some (identity d) := by
  rw [invert_eq_some_iff, toMatrix_identity, mul_one]

omit [DecidableEq F] in
/-- `reconstructWith` consults the inversion procedure at `subMat A present` only, and only when
at least `d` shards are present -/
theorem reconstructWith_congr (inv inv' : Mat F d d → Option (Mat F d d)) (A : Mat F p d)
    (sh : Fin (d + p) → Option (Shard F len)) (mode : ReconMode)
    (h : d ≤ countTrue (fun i => (sh i).isSome) →
      inv (subMat A fun i => (sh i).isSome) = inv' (subMat A fun i => (sh i).isSome)) :
    reconstructWith inv A sh mode = reconstructWith inv' A sh mode := by
  unfold reconstructWith
  simp only []
  split_ifs with h1 h2 h3
  · rfl
  · rfl
  all_goals
    have hd : d ≤ countTrue (fun i => (sh i).isSome) := Nat.le_of_not_lt h2
    simp only [firstPresent_getElem? (fun i => (sh i).isSome) hd]
    rw [show (Mat.ofFn fun i c => genRow A (validIdx (fun i => (sh i).isSome) i) c) =
      subMat A (fun i => (sh i).isSome) from rfl, h hd]

/-- the cached step on a hit -/
theorem reconStep_hit (A : Mat F p d) (t : Option (Tree (Mat F d d)))
    (sh : Fin (d + p) → Option (Shard F len)) (mode : ReconMode) (dec : Mat F d d)
    (h : Tree.get t (cacheKey (fun i => (sh i).isSome) d) = some dec) :
    reconStep A t sh mode = (reconstructWith (fun _ => some dec) A sh mode, t) := by
  unfold reconStep
  simp only [h]

/-- the cached step on a miss: the answer is the cache-free one -/
theorem reconStep_miss_fst (A : Mat F p d) (t : Option (Tree (Mat F d d)))
    (sh : Fin (d + p) → Option (Shard F len)) (mode : ReconMode)
    (h : Tree.get t (cacheKey (fun i => (sh i).isSome) d) = none) :
    (reconStep A t sh mode).1 = reconstruct A sh mode := by
  unfold reconStep
  simp only [h]
  rfl

/-- the cached step on a miss: the tree is unchanged, or at least `d` shards are present, the
elimination succeeded on the selected sub-matrix and its result was inserted under the key -/
theorem reconStep_miss_snd (A : Mat F p d) (t : Option (Tree (Mat F d d)))
    (sh : Fin (d + p) → Option (Shard F len)) (mode : ReconMode)
    (h : Tree.get t (cacheKey (fun i => (sh i).isSome) d) = none) :
    (reconStep A t sh mode).2 = t ∨
      (d ≤ countTrue (fun i => (sh i).isSome) ∧ ∃ dec,
        invert (subMat A fun i => (sh i).isSome) = some dec ∧
        (reconStep A t sh mode).2 = Tree.insert t (cacheKey (fun i => (sh i).isSome) d) dec) := by
  unfold reconStep
  simp only [h]
  split
  · next filled hshape =>
    have hd : d ≤ countTrue (fun i => (sh i).isSome) := reconShape_fill_le hshape
    simp only [firstPresent_getElem? (fun i => (sh i).isSome) hd]
    rw [show (Mat.ofFn fun i c => genRow A (validIdx (fun i => (sh i).isSome) i) c) =
      subMat A (fun i => (sh i).isSome) from rfl]
    cases hinv : invert (subMat A fun i => (sh i).isSome) with
    | none => left; rfl
    | some dec => right; exact ⟨hd, dec, rfl, rfl⟩
  · left; rfl

end Codec

end RSV.Model.Memo
