import RSV.Model.Codec
import RSV.Proofs.Gauss
import RSV.Proofs.CodeTheory
import Mathlib.Logic.Equiv.Fin.Basic
import Mathlib.Data.List.Nodup
import Mathlib.Data.List.Basic
import Mathlib.Tactic.SplitIfs
import Mathlib.Data.Fintype.Fin

/-!
# Correctness of the modelled `reconstruct` (`RSV.Model.reconstructWith`)

Helper lemmas for `RSV.Props.C02`.

* list facts about `firstPresent` / `countTrue`, the selector `validIdx`;
* `subMat A present` — the `d × d` sub-matrix of the generator `[I; A]` at the first `d` present
  rows; `subMat_isUnit`: it is invertible when `A` is MDS;
* `decode_eq` — multiplying the selected shards by a left inverse of `subMat` gives back the data;
* `reconstruct_erase` — the master equation: on a codeword with erasures, `reconstruct` is
  `reconSpec`, except that it answers `singular` when the elimination fails on `subMat`.
-/

open Matrix

namespace RSV.Model

/-! ### `firstPresent`, `countTrue` -/
section Lists
variable {n : ℕ}

theorem firstPresent_length (present : Fin n → Bool) (k : ℕ) (h : k ≤ countTrue present) :
    (firstPresent present k).length = k := by
  unfold firstPresent
  unfold countTrue at h
  rw [List.length_take]
  omega

theorem firstPresent_mem {present : Fin n → Bool} {k : ℕ} {i : Fin n}
    (h : i ∈ firstPresent present k) : present i = true := by
  unfold firstPresent at h
  exact (List.mem_filter.mp (List.mem_of_mem_take h)).2

theorem firstPresent_nodup (present : Fin n → Bool) (k : ℕ) : (firstPresent present k).Nodup :=
  List.Nodup.sublist (List.take_sublist _ _) ((List.nodup_finRange n).filter _)

theorem countTrue_add_countTrue_not (present : Fin n → Bool) :
    countTrue present + countTrue (fun i => !present i) = n := by
  unfold countTrue
  have := List.length_eq_length_filter_add (l := List.finRange n) present
  rw [List.length_finRange] at this
  exact this.symm

theorem countTrue_le (present : Fin n → Bool) : countTrue present ≤ n := by
  have := countTrue_add_countTrue_not present
  omega

theorem countTrue_pos_iff (q : Fin n → Bool) : 0 < countTrue q ↔ ∃ i, q i = true := by
  unfold countTrue
  rw [List.length_pos_iff_exists_mem]
  constructor
  · rintro ⟨i, hi⟩; exact ⟨i, (List.mem_filter.mp hi).2⟩
  · rintro ⟨i, hi⟩; exact ⟨i, List.mem_filter.mpr ⟨List.mem_finRange i, hi⟩⟩

theorem countTrue_eq_zero_iff (q : Fin n → Bool) : countTrue q = 0 ↔ ∀ i, q i = false := by
  have := countTrue_pos_iff q
  constructor
  · intro h i
    cases hq : q i with
    | false => rfl
    | true => exact absurd (this.mpr ⟨i, hq⟩) (by omega)
  · intro h
    by_contra hne
    obtain ⟨i, hi⟩ := this.mp (Nat.pos_of_ne_zero hne)
    rw [h i] at hi; cases hi

/-- all present iff the count is `n` -/
theorem countTrue_eq_iff (present : Fin n → Bool) : countTrue present = n ↔ ∀ i, present i = true := by
  have h1 := countTrue_add_countTrue_not present
  have h2 := countTrue_eq_zero_iff (fun i => !present i)
  constructor
  · intro h i
    have := h2.mp (by omega) i
    simpa using this
  · intro h
    have := h2.mpr (fun i => by simp [h i])
    omega

theorem countTrue_and_le (q r : Fin n → Bool) : countTrue (fun i => q i && r i) ≤ countTrue q := by
  unfold countTrue
  rw [show (fun i => q i && r i) = (fun i => r i && q i) from funext fun i => Bool.and_comm _ _,
    ← List.filter_filter]
  exact List.length_filter_le _ _

theorem countTrue_eq_card (q : Fin n → Bool) :
    countTrue q = (Finset.univ.filter fun i => q i = true).card := by
  unfold countTrue
  rw [Fin.univ_def]
  simp [Finset.card, Finset.filter]

theorem getD_map_finRange (f : Fin n → Bool) (i : Fin n) :
    ((List.finRange n).map f).getD i.val false = f i := by
  simp [List.getD_eq_getElem?_getD]

end Lists

/-- all data shards present iff the count of present data shards is `d` -/
theorem countTrue_data_eq_iff {d p : ℕ} (present : Fin (d + p) → Bool) :
    countTrue (fun i => present i && decide (i.val < d)) = d ↔ ∀ i, i.val < d → present i = true := by
  classical
  have hT : (Finset.univ.filter fun i : Fin (d + p) => i.val < d).card = d := by
    rw [Fin.card_filter_val_lt]; omega
  rw [countTrue_eq_card]
  constructor
  · intro h i hi
    have hsub : (Finset.univ.filter fun i : Fin (d + p) => (present i && decide (i.val < d)) = true) ⊆
        Finset.univ.filter fun i : Fin (d + p) => i.val < d := by
      intro j hj
      simp only [Finset.mem_filter, Finset.mem_univ, true_and, Bool.and_eq_true,
        decide_eq_true_eq] at hj ⊢
      exact hj.2
    have heq := Finset.eq_of_subset_of_card_le hsub (by rw [hT, h])
    have : i ∈ Finset.univ.filter fun i : Fin (d + p) => i.val < d := by simp [hi]
    rw [← heq] at this
    simp only [Finset.mem_filter, Finset.mem_univ, true_and, Bool.and_eq_true] at this
    exact this.1
  · intro h
    refine Eq.trans ?_ hT
    congr 1
    ext j
    simp only [Finset.mem_filter, Finset.mem_univ, true_and, Bool.and_eq_true, decide_eq_true_eq]
    exact ⟨fun hj => hj.2, fun hj => ⟨h j hj, hj⟩⟩

section
variable {F : Type} {d p len : ℕ}

/-- the `j`-th of the first `d` present indices (junk `j` when there are fewer) -/
def validIdx (present : Fin (d + p) → Bool) (j : Fin d) : Fin (d + p) :=
  ((firstPresent present d)[j.val]?).getD ⟨j.val, by omega⟩

theorem firstPresent_getElem? (present : Fin (d + p) → Bool) (h : d ≤ countTrue present) (j : Fin d) :
    (firstPresent present d)[j.val]? = some (validIdx present j) := by
  have hl : j.val < (firstPresent present d).length := by
    rw [firstPresent_length present d h]; exact j.isLt
  unfold validIdx
  rw [List.getElem?_eq_getElem hl, Option.getD_some]

theorem validIdx_present (present : Fin (d + p) → Bool) (h : d ≤ countTrue present) (j : Fin d) :
    present (validIdx present j) = true := by
  apply firstPresent_mem (k := d)
  exact List.mem_of_getElem? (firstPresent_getElem? present h j)

theorem validIdx_injective (present : Fin (d + p) → Bool) (h : d ≤ countTrue present) :
    Function.Injective (validIdx present) := by
  intro j j' hjj
  have hl : ∀ j : Fin d, j.val < (firstPresent present d).length := fun j => by
    rw [firstPresent_length present d h]; exact j.isLt
  have e1 : ∀ j : Fin d, (firstPresent present d)[j.val]'(hl j) = validIdx present j := by
    intro j
    have := firstPresent_getElem? present h j
    rw [List.getElem?_eq_getElem (hl j)] at this
    exact Option.some_injective _ this
  have : (firstPresent present d)[j.val]'(hl j) = (firstPresent present d)[j'.val]'(hl j') := by
    rw [e1, e1, hjj]
  exact Fin.ext ((firstPresent_nodup present d).getElem_inj_iff.mp this)

/-- erase the shards outside `present` from a shard set -/
def erase (orig : Fin (d + p) → Shard F len) (present : Fin (d + p) → Bool) :
    Fin (d + p) → Option (Shard F len) :=
  fun i => if present i then some (orig i) else none

@[simp] theorem erase_isSome (orig : Fin (d + p) → Shard F len) (present : Fin (d + p) → Bool)
    (i : Fin (d + p)) : (erase orig present i).isSome = present i := by
  unfold erase; cases present i <;> simp

theorem erase_of_present (orig : Fin (d + p) → Shard F len) {present : Fin (d + p) → Bool}
    {i : Fin (d + p)} (h : present i = true) : erase orig present i = some (orig i) := by
  unfold erase; rw [if_pos h]

theorem erase_of_absent (orig : Fin (d + p) → Shard F len) {present : Fin (d + p) → Bool}
    {i : Fin (d + p)} (h : present i = false) : erase orig present i = none := by
  unfold erase; rw [h]; rfl

end

/-! ### the generator and the selected sub-matrix -/
section Field
variable {F : Type} [Field F] [DecidableEq F] {d p len : ℕ}

/-- the sub-matrix of `[I; A]` at the first `d` present rows -/
def subMat (A : Mat F p d) (present : Fin (d + p) → Bool) : Mat F d d :=
  Mat.ofFn fun j c => genRow A (validIdx present j) c

omit [DecidableEq F] in
theorem genRow_left (A : Mat F p d) (c c' : Fin d) :
    genRow A (Fin.castAdd p c) c' = if c = c' then 1 else 0 := by
  by_cases h : c = c'
  · subst h; simp [genRow]
  · have : ¬ c.val = c'.val := fun e => h (Fin.ext e)
    simp [genRow, h, this]

omit [DecidableEq F] in
theorem genRow_right (A : Mat F p d) (r : Fin p) (c' : Fin d) :
    genRow A (Fin.natAdd d r) c' = A.get r c' := by
  simp [genRow]

omit [DecidableEq F] in
/-- the systematic codeword of `RSV.CodeTheory` is `[I; A] · t` -/
theorem cw_eq_genRow (A : Mat F p d) (t : Fin d → F) (s : Fin d ⊕ Fin p) :
    CodeTheory.cw (fun r c => A.get r c) t s = ∑ c, genRow A (finSumFinEquiv s) c * t c := by
  rcases s with c | r
  · simp [genRow_left]
  · simp [genRow_right]

omit [DecidableEq F] in
/-- **any `d` rows of an MDS generator are invertible** (here: the first `d` present rows) -/
theorem subMat_isUnit (A : Mat F p d) (hA : CodeTheory.MDS (fun r c => A.get r c))
    (present : Fin (d + p) → Bool) (h : d ≤ countTrue present) :
    IsUnit (subMat A present).toMatrix := by
  classical
  rw [← Matrix.mulVec_injective_iff_isUnit]
  intro t t' htt
  have hinj : Function.Injective fun j : Fin d => finSumFinEquiv.symm (validIdx present j) :=
    finSumFinEquiv.symm.injective.comp (validIdx_injective present h)
  refine CodeTheory.MDS.unique hA
    (Finset.univ.image fun j : Fin d => finSumFinEquiv.symm (validIdx present j)) ?_ t t' ?_
  · rw [Finset.card_image_of_injective _ hinj]; simp
  · intro s hs
    obtain ⟨j, -, rfl⟩ := Finset.mem_image.mp hs
    rw [cw_eq_genRow, cw_eq_genRow, Equiv.apply_symm_apply]
    have := congrFun htt j
    simpa [subMat, Matrix.mulVec, dotProduct] using this

theorem invert_subMat_isSome (A : Mat F p d) (hA : CodeTheory.MDS (fun r c => A.get r c))
    (present : Fin (d + p) → Bool) (h : d ≤ countTrue present) :
    (invert (subMat A present)).isSome :=
  (invert_isSome_iff _).mpr (subMat_isUnit A hA present h)

/-! ### shard contents -/

omit [DecidableEq F] in
theorem encodeRow_getElem_nat (row : Fin d → F) (data : Fin d → Shard F len) (k : ℕ) (hk : k < len) :
    (encodeRow row data)[k] = ∑ c, row c * (data c)[k] := by
  unfold encodeRow
  rw [Vector.getElem_ofFn, finSum_eq_sum]
  rfl

omit [DecidableEq F] in
theorem encodeAll_of_lt (A : Mat F p d) (data : Fin d → Shard F len) (i : Fin (d + p))
    (h : i.val < d) : encodeAll A data i = data ⟨i.val, h⟩ := by
  unfold encodeAll; rw [dif_pos h]

omit [DecidableEq F] in
theorem encodeAll_of_ge (A : Mat F p d) (data : Fin d → Shard F len) (i : Fin (d + p))
    (h : ¬ i.val < d) :
    encodeAll A data i = encodeRow (fun c => A.get ⟨i.val - d, by omega⟩ c) data := by
  unfold encodeAll; rw [dif_neg h]; rfl

omit [DecidableEq F] in
/-- byte `k` of shard `i` of the codeword is row `i` of `[I; A]` times byte `k` of the data -/
theorem encodeAll_getElem (A : Mat F p d) (data : Fin d → Shard F len) (i : Fin (d + p))
    (k : ℕ) (hk : k < len) :
    (encodeAll A data i)[k] = ∑ c, genRow A i c * (data c)[k] := by
  by_cases h : i.val < d
  · rw [encodeAll_of_lt A data i h]
    simp only [genRow, dif_pos h]
    rw [Finset.sum_eq_single (⟨i.val, h⟩ : Fin d)]
    · simp
    · intro b _ hb
      have : ¬ i.val = b.val := fun e => hb (Fin.ext e.symm)
      simp [this]
    · simp
  · rw [encodeAll_of_ge A data i h, encodeRow_getElem_nat]
    simp only [genRow, dif_neg h]

omit [DecidableEq F] in
/-- the decode step: a left inverse of the selected sub-matrix applied to the selected shards
gives back the data shards -/
theorem decode_eq (A : Mat F p d) (data : Fin d → Shard F len) (present : Fin (d + p) → Bool)
    (dec : Mat F d d) (hdec : dec.toMatrix * (subMat A present).toMatrix = 1) (c : Fin d) :
    encodeRow (fun j => dec.get c j) (fun j => encodeAll A data (validIdx present j)) = data c := by
  apply Vector.ext
  intro k hk
  rw [encodeRow_getElem_nat]
  simp only [encodeAll_getElem, Finset.mul_sum]
  rw [Finset.sum_comm]
  have h1 : ∀ c' : Fin d, ∑ j, dec.get c j * (genRow A (validIdx present j) c' * (data c')[k])
      = (dec.toMatrix * (subMat A present).toMatrix) c c' * (data c')[k] := by
    intro c'
    simp only [Matrix.mul_apply, Finset.sum_mul, Mat.toMatrix_apply, subMat, Mat.get_ofFn, mul_assoc]
  simp only [h1, hdec, Matrix.one_apply]
  simp


omit [DecidableEq F] in
theorem erase_data (A : Mat F p d) (data : Fin d → Shard F len) (present : Fin (d + p) → Bool)
    (c : Fin d) (h : c.val < d + p) :
    erase (encodeAll A data) present ⟨c.val, h⟩ =
      if present ⟨c.val, h⟩ then some (data c) else none := by
  unfold erase
  rw [encodeAll_of_lt A data ⟨c.val, h⟩ c.isLt]

/-! ### the master equation -/

/-- On a codeword with erasures, for **any** generator: `reconstruct` returns what the presence
pattern alone dictates (`reconShape`), every filled shard being the original one — except that in
the `fill` case it reports `singular` when the elimination fails on the selected sub-matrix. -/
theorem reconstruct_erase (A : Mat F p d) (data : Fin d → Shard F len)
    (present : Fin (d + p) → Bool) (mode : ReconMode) :
    reconstruct A (erase (encodeAll A data) present) mode =
      match reconShape d p present mode with
      | .unchanged => .ok (erase (encodeAll A data) present)
      | .tooFew => .error .tooFew
      | .fill filled =>
        match invert (subMat A present) with
        | some _ =>
          .ok fun i => if present i || filled.getD i.val false then some (encodeAll A data i) else none
        | none => .error .singular := by
  unfold reconstruct reconstructWith reconShape
  have hp : (fun i => (erase (encodeAll A data) present i).isSome) = present :=
    funext (erase_isSome _ _)
  rw [hp]
  simp only []
  rcases mode with _ | _ | ⟨req, full⟩
  · -- Reconstruct
    simp only [isDataOnly, requiredAt, Bool.false_and, Bool.or_false, Bool.and_true, Bool.not_false,
      Bool.true_and, Bool.false_eq_true, if_false, if_true, ite_self]
    split_ifs with h1 h2
    · rfl
    · rfl
    · have hd : d ≤ countTrue present := Nat.le_of_not_lt h2
      simp only [firstPresent_getElem? present hd, erase_of_present _ (validIdx_present present hd _),
        Option.getD_some]
      rw [show (Mat.ofFn fun i c => genRow A (validIdx present i) c) = subMat A present from rfl]
      cases hinv : invert (subMat A present) with
      | none => simp
      | some dec =>
        have hdec := invert_sound _ _ hinv
        simp only [decode_eq A data present dec hdec]
        congr 1; funext i
        rw [getD_map_finRange]
        by_cases hi : i.val < d
        · have e := encodeAll_of_lt A data i hi
          cases hpi : present i <;> simp [erase, hpi, hi, e]
        · have e := encodeAll_of_ge A data i hi
          cases hpi : present i
          · simp only [dif_neg hi, erase_of_absent _ hpi, e]
            simp
            refine congrArg (encodeRow _) (funext fun c => ?_)
            rw [erase_data]
            cases present ⟨c.val, _⟩ <;> rfl
          · simp [erase, hpi, hi]
  · -- ReconstructData
    simp only [isDataOnly, requiredAt, Bool.false_and, Bool.or_false, Bool.and_true, Bool.true_and,
      Bool.false_eq_true, if_true, ite_self, Bool.not_true]
    split_ifs with h1 h2
    · rfl
    · rfl
    · have hd : d ≤ countTrue present := Nat.le_of_not_lt h2
      simp only [firstPresent_getElem? present hd, erase_of_present _ (validIdx_present present hd _),
        Option.getD_some]
      rw [show (Mat.ofFn fun i c => genRow A (validIdx present i) c) = subMat A present from rfl]
      cases hinv : invert (subMat A present) with
      | none => simp
      | some dec =>
        have hdec := invert_sound _ _ hinv
        simp only [decode_eq A data present dec hdec]
        congr 1; funext i
        rw [getD_map_finRange]
        by_cases hi : i.val < d
        · have e := encodeAll_of_lt A data i hi
          cases hpi : present i <;> simp [erase, hpi, hi, e]
        · cases hpi : present i <;> simp [erase, hpi, hi]
  · cases full
    · -- ReconstructSome, mask of `d` entries: data only
      simp only [isDataOnly, requiredAt, Bool.false_and, Bool.or_false, Bool.and_true, Bool.not_false,
        Bool.true_and, if_true, Bool.not_true]
      split_ifs with h1 h2
      · rfl
      · rfl
      · have hd : d ≤ countTrue present := Nat.le_of_not_lt h2
        simp only [firstPresent_getElem? present hd,
          erase_of_present _ (validIdx_present present hd _), Option.getD_some]
        rw [show (Mat.ofFn fun i c => genRow A (validIdx present i) c) = subMat A present from rfl]
        cases hinv : invert (subMat A present) with
        | none => simp
        | some dec =>
          have hdec := invert_sound _ _ hinv
          simp only [decode_eq A data present dec hdec]
          congr 1; funext i
          rw [getD_map_finRange]
          by_cases hi : i.val < d
          · have e := encodeAll_of_lt A data i hi
            cases hpi : present i <;> cases hreq : req.getD i.val false <;>
              simp [erase, hpi, hi, e]
          · cases hpi : present i <;> simp [erase, hpi, hi]
    · -- ReconstructSome, mask of `d + p` entries
      simp only [isDataOnly, requiredAt, Bool.false_and, Bool.or_false, Bool.and_true, Bool.not_false,
        Bool.true_and, Bool.false_eq_true, if_false, if_true, Bool.not_true]
      split_ifs with h1 h2
      · rfl
      · rfl
      · have hd : d ≤ countTrue present := Nat.le_of_not_lt h2
        simp only [firstPresent_getElem? present hd,
          erase_of_present _ (validIdx_present present hd _), Option.getD_some]
        rw [show (Mat.ofFn fun i c => genRow A (validIdx present i) c) = subMat A present from rfl]
        cases hinv : invert (subMat A present) with
        | none => simp
        | some dec =>
          have hdec := invert_sound _ _ hinv
          simp only [decode_eq A data present dec hdec]
          congr 1; funext i
          rw [getD_map_finRange]
          by_cases hi : i.val < d
          · have e := encodeAll_of_lt A data i hi
            cases hpi : present i <;>
              cases hx : (req.getD i.val false ||
                decide (0 < countTrue fun i : Fin (d + p) =>
                  !present i && req.getD i.val false && decide (d ≤ i.val))) <;>
              simp [erase, hpi, hi, e]
          · have e := encodeAll_of_ge A data i hi
            cases hpi : present i
            · cases hreq : req.getD i.val false
              · simp [erase, hpi, hi]
              · -- a requested missing parity shard: every missing data shard has been decoded
                have hpos : 0 < countTrue fun i : Fin (d + p) =>
                    !present i && req.getD i.val false && decide (d ≤ i.val) :=
                  (countTrue_pos_iff _).mpr ⟨i, by
                    show (!present i && req.getD i.val false && decide (d ≤ i.val)) = true
                    rw [hpi, hreq]; simp [Nat.le_of_not_lt hi]⟩
                simp only [dif_neg hi, erase_of_absent _ hpi, e, hpos, decide_true, Bool.or_true,
                  if_true]
                simp
                refine congrArg (encodeRow _) (funext fun c => ?_)
                rw [erase_data]
                cases present ⟨c.val, _⟩ <;> rfl
            · simp [erase, hpi, hi]

end Field

/-! ### the specification `reconShape` / `reconSpec` in closed form -/
section Shape
variable {F : Type} {d p len : ℕ}

def isSomeMode : ReconMode → Bool
  | .some _ _ => true
  | _ => false

/-- the early-return test of `reconstruct`, as a Boolean -/
def earlyB (d p : ℕ) (present : Fin (d + p) → Bool) (mode : ReconMode) : Bool :=
  decide (countTrue present = d + p) ||
    (isDataOnly mode && decide (countTrue (fun i => present i && decide (i.val < d)) = d)) ||
    (isSomeMode mode && decide (countTrue (fun i => !present i && requiredAt mode i.val) = 0))

/-- ReconstructSome with a full mask and a requested missing parity shard -/
def parityReq (d p : ℕ) (present : Fin (d + p) → Bool) (mode : ReconMode) : Bool :=
  !isDataOnly mode && isSomeMode mode &&
    decide (0 < countTrue fun i : Fin (d + p) => !present i && requiredAt mode i.val && decide (d ≤ i.val))

/-- is index `i` filled by a successful call -/
def fillAt (d p : ℕ) (present : Fin (d + p) → Bool) (mode : ReconMode) (i : Fin (d + p)) : Bool :=
  !present i &&
    (if i.val < d then (if isSomeMode mode then requiredAt mode i.val || parityReq d p present mode else true)
     else !isDataOnly mode && requiredAt mode i.val)

theorem reconShape_def (present : Fin (d + p) → Bool) (mode : ReconMode) :
    reconShape d p present mode =
      if earlyB d p present mode then .unchanged
      else if countTrue present < d then .tooFew
      else .fill ((List.finRange (d + p)).map (fillAt d p present mode)) := by
  cases mode <;> rfl

/-- the documented no-op conditions: nothing missing; data-only call with all data present;
ReconstructSome with no requested shard missing -/
def Noop (d p : ℕ) (present : Fin (d + p) → Bool) (mode : ReconMode) : Prop :=
  (∀ i, present i = true) ∨
  (isDataOnly mode = true ∧ ∀ i : Fin (d + p), i.val < d → present i = true) ∨
  (isSomeMode mode = true ∧ ∀ i : Fin (d + p), present i = false → requiredAt mode i.val = false)

theorem earlyB_iff (present : Fin (d + p) → Bool) (mode : ReconMode) :
    earlyB d p present mode = true ↔ Noop d p present mode := by
  unfold earlyB Noop
  simp only [Bool.or_eq_true, Bool.and_eq_true, decide_eq_true_eq, countTrue_eq_iff,
    countTrue_data_eq_iff, countTrue_eq_zero_iff]
  rw [or_assoc]
  refine or_congr Iff.rfl (or_congr Iff.rfl (and_congr Iff.rfl (forall_congr' fun i => ?_)))
  cases present i <;> simp

theorem reconShape_of_noop {present : Fin (d + p) → Bool} {mode : ReconMode}
    (h : Noop d p present mode) : reconShape d p present mode = .unchanged := by
  rw [reconShape_def, if_pos ((earlyB_iff present mode).mpr h)]

theorem reconShape_of_lt {present : Fin (d + p) → Bool} {mode : ReconMode}
    (h : ¬ Noop d p present mode) (hlt : countTrue present < d) :
    reconShape d p present mode = .tooFew := by
  rw [reconShape_def, if_neg (fun e => h ((earlyB_iff present mode).mp e)), if_pos hlt]

theorem reconShape_of_ge {present : Fin (d + p) → Bool} {mode : ReconMode}
    (h : ¬ Noop d p present mode) (hge : d ≤ countTrue present) :
    reconShape d p present mode = .fill ((List.finRange (d + p)).map (fillAt d p present mode)) := by
  rw [reconShape_def, if_neg (fun e => h ((earlyB_iff present mode).mp e)), if_neg (by omega)]

theorem reconShape_fill_le {present : Fin (d + p) → Bool} {mode : ReconMode} {filled : List Bool}
    (h : reconShape d p present mode = .fill filled) : d ≤ countTrue present := by
  rw [reconShape_def] at h
  split_ifs at h with h1 h2
  omega

theorem reconSpec_of_noop (orig : Fin (d + p) → Shard F len) {present : Fin (d + p) → Bool}
    {mode : ReconMode} (h : Noop d p present mode) :
    reconSpec orig present mode = .ok (erase orig present) := by
  unfold reconSpec; rw [reconShape_of_noop h]; rfl

theorem reconSpec_of_lt (orig : Fin (d + p) → Shard F len) {present : Fin (d + p) → Bool}
    {mode : ReconMode} (h : ¬ Noop d p present mode) (hlt : countTrue present < d) :
    reconSpec orig present mode = .error .tooFew := by
  unfold reconSpec; rw [reconShape_of_lt h hlt]

theorem reconSpec_of_ge (orig : Fin (d + p) → Shard F len) {present : Fin (d + p) → Bool}
    {mode : ReconMode} (h : ¬ Noop d p present mode) (hge : d ≤ countTrue present) :
    reconSpec orig present mode =
      .ok fun i => if present i || fillAt d p present mode i then some (orig i) else none := by
  unfold reconSpec; rw [reconShape_of_ge h hge]
  simp only [getD_map_finRange]

/-- whatever the specification returns is the original shard, and present shards stay -/
theorem reconSpec_ok (orig : Fin (d + p) → Shard F len) {present : Fin (d + p) → Bool}
    {mode : ReconMode} {out : Fin (d + p) → Option (Shard F len)}
    (h : reconSpec orig present mode = .ok out) :
    (∀ i s, out i = some s → s = orig i) ∧ (∀ i, present i = true → out i = some (orig i)) := by
  unfold reconSpec at h
  split at h
  · injection h with h; subst h
    refine ⟨fun i s hs => ?_, fun i hi => by simp [hi]⟩
    dsimp only at hs
    split_ifs at hs; exact (Option.some_injective _ hs).symm
  · cases h
  · injection h with h; subst h
    refine ⟨fun i s hs => ?_, fun i hi => by simp [hi]⟩
    dsimp only at hs
    split_ifs at hs; exact (Option.some_injective _ hs).symm

end Shape
end RSV.Model
