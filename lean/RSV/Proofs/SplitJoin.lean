import RSV.Model.SplitJoin

/-!
# Lemmas on `chunks`, `fillPadding`, `split`, `join` (core Lean only)

* `chunks_length`, `chunks_mem_length`, `chunks_flatten`, `chunks_add`, `chunks_append_left`;
* `fillPadding_eq_chunks`: the `copy` loop into fresh zero shards is cutting `src ++ zeros`;
* `split_core`: the three capacity cases of `Split` collapse to the specification;
* `scan_some`, `copy_some`, `scan_none`: the two loops of `Join`.
-/

namespace RSV.Proofs.SplitJoin
open RSV.Model.SJ

/-! ## zeros -/

@[simp] theorem length_zeros (n : Nat) : (zeros n).length = n := by simp [zeros]

theorem zeros_add (a b : Nat) : zeros (a + b) = zeros a ++ zeros b := by
  simp [zeros, List.replicate_append_replicate]

theorem take_zeros (i n : Nat) : (zeros n).take i = zeros (min i n) := by
  simp [zeros, List.take_replicate]

theorem drop_zeros (i n : Nat) : (zeros n).drop i = zeros (n - i) := by
  simp [zeros, List.drop_replicate]

@[simp] theorem zeros_zero : zeros 0 = [] := rfl

/-! ## perShard -/

theorem perShard_props (q d len : Nat) (hq : 0 < q) (hd : 0 < d) (hl : 0 < len) :
    0 < perShard q d len ∧ q ∣ perShard q d len ∧ len ≤ d * perShard q d len := by
  unfold perShard
  generalize hc : (len + d - 1) / d = c
  have h1 := Nat.div_add_mod (len + d - 1) d
  have h2 := Nat.mod_lt (len + d - 1) hd
  rw [hc] at h1
  have hdc : len ≤ d * c := by omega
  have hc0 : 0 < c := by
    rcases Nat.eq_zero_or_pos c with h | h
    · subst h; omega
    · exact h
  generalize hm : (c + q - 1) / q = m
  have h3 := Nat.div_add_mod (c + q - 1) q
  have h4 := Nat.mod_lt (c + q - 1) hq
  rw [hm] at h3
  have hcm : c ≤ m * q := by rw [Nat.mul_comm]; omega
  refine ⟨by omega, ⟨m, Nat.mul_comm _ _⟩, ?_⟩
  exact Nat.le_trans hdc (Nat.mul_le_mul_left d hcm)

/-! ## chunks -/

@[simp] theorem chunks_length (k n : Nat) (l : List Nat) : (chunks k n l).length = n := by
  induction n generalizing l with
  | zero => rfl
  | succ n ih => simp [chunks, ih]

theorem chunks_mem_length (k n : Nat) (l : List Nat) (h : n * k ≤ l.length) :
    ∀ s ∈ chunks k n l, s.length = k := by
  induction n generalizing l with
  | zero => intro s hs; simp [chunks] at hs
  | succ n ih =>
    intro s hs
    have hk : k + n * k ≤ l.length := by rw [Nat.succ_mul] at h; omega
    simp only [chunks, List.mem_cons] at hs
    rcases hs with hs | hs
    · subst hs; rw [List.length_take]; omega
    · exact ih (l.drop k) (by rw [List.length_drop]; omega) s hs

theorem chunks_flatten (k n : Nat) (l : List Nat) : (chunks k n l).flatten = l.take (n * k) := by
  induction n generalizing l with
  | zero => simp [chunks]
  | succ n ih =>
    simp only [chunks, List.flatten_cons, ih]
    rw [Nat.succ_mul, Nat.add_comm (n * k) k, List.take_add]

theorem chunks_add (k a b : Nat) (l : List Nat) :
    chunks k (a + b) l = chunks k a l ++ chunks k b (l.drop (a * k)) := by
  induction a generalizing l with
  | zero => simp [chunks]
  | succ a ih =>
    rw [Nat.add_right_comm a 1 b]
    simp only [chunks, List.cons_append, ih, List.drop_drop]
    rw [Nat.succ_mul, Nat.add_comm (a * k) k]

theorem chunks_append_left (k n : Nat) (l l' : List Nat) (h : n * k ≤ l.length) :
    chunks k n (l ++ l') = chunks k n l := by
  induction n generalizing l with
  | zero => rfl
  | succ n ih =>
    have hk : k + n * k ≤ l.length := by rw [Nat.succ_mul] at h; omega
    simp only [chunks]
    rw [List.take_append_of_le_length (by omega), List.drop_append_of_le_length (by omega),
      ih (l.drop k) (by rw [List.length_drop]; omega)]

theorem chunks_take_prefix (k a b : Nat) (l : List Nat) :
    (chunks k (a + b) l).take a = chunks k a l := by
  rw [chunks_add, List.take_left' (chunks_length k a l)]

theorem chunks_drop_prefix (k a b : Nat) (l : List Nat) :
    (chunks k (a + b) l).drop a = chunks k b (l.drop (a * k)) := by
  rw [chunks_add, List.drop_left' (chunks_length k a l)]

/-! ## fillPadding -/

@[simp] theorem fillPadding_length (k n : Nat) (src : List Nat) : (fillPadding k n src).length = n := by
  induction n generalizing src with
  | zero => rfl
  | succ n ih => simp [fillPadding, ih]

theorem fillPadding_eq_chunks (k n : Nat) (src : List Nat) (h : src.length ≤ n * k) :
    fillPadding k n src = chunks k n (src ++ zeros (n * k - src.length)) := by
  induction n generalizing src with
  | zero => rfl
  | succ n ih =>
    have hk : src.length ≤ k + n * k := by rw [Nat.succ_mul] at h; omega
    have hsm : (n + 1) * k = k + n * k := by rw [Nat.succ_mul]; omega
    simp only [fillPadding, chunks]
    rw [hsm]
    have ih' := ih (src.drop k) (by rw [List.length_drop]; omega)
    rw [ih', List.length_drop, List.take_append, List.drop_append, take_zeros, drop_zeros,
      List.length_take]
    rw [show k - min k src.length = min (k - src.length) (k + n * k - src.length) by omega,
      show n * k - (src.length - k) = k + n * k - src.length - (k - src.length) by omega]

theorem fillPadding_nil (k n : Nat) : fillPadding k n [] = List.replicate n (zeros k) := by
  induction n with
  | zero => rfl
  | succ n ih => simp [fillPadding, ih, List.replicate_succ]

/-! ## split -/

/-- the common form of the capacity cases: `data1 = data ++ zeros e` with `e` spare bytes cleared -/
theorem split_core (ps total : Nat) (data data1 : List Nat) (e : Nat) (hps : 0 < ps)
    (h1 : data1 = data ++ zeros e) (h : data.length + e ≤ total * ps) :
    chunks ps (min total (data1.length / ps)) data1 ++
      (if data1.length < total * ps then
        (if data.length > ps * (data1.length / ps) then
          fillPadding ps (total - data1.length / ps)
            ((data1.take data.length).drop (ps * (data1.length / ps)))
         else List.replicate (total - data1.length / ps) (zeros ps))
       else []).take (total - min total (data1.length / ps))
    = chunks ps total (data ++ zeros (total * ps - data.length)) := by
  have hlen1 : data1.length = data.length + e := by simp [h1]
  have htk : data1.take data.length = data := by rw [h1, List.take_left' rfl]
  generalize hf : data1.length / ps = f
  have hfle : f * ps ≤ data1.length := by rw [← hf]; exact Nat.div_mul_le_self _ _
  by_cases hlt : data1.length < total * ps
  · -- some shards must be allocated
    have hft : f < total := by rw [← hf]; exact (Nat.div_lt_iff_lt_mul hps).2 hlt
    have hfps : f * ps < total * ps := by omega
    have hsub : (total - f) * ps = total * ps - f * ps := Nat.sub_mul _ _ _
    rw [if_pos hlt, Nat.min_eq_right (Nat.le_of_lt hft), htk, Nat.mul_comm ps f]
    have hpad : (if data.length > f * ps then fillPadding ps (total - f) (data.drop (f * ps))
          else List.replicate (total - f) (zeros ps))
        = fillPadding ps (total - f) (data.drop (f * ps)) := by
      split
      · rfl
      · rw [List.drop_of_length_le (by omega), fillPadding_nil]
    rw [hpad, List.take_of_length_le (by simp)]
    rw [fillPadding_eq_chunks _ _ _ (by rw [List.length_drop]; omega)]
    have htot : total = f + (total - f) := by omega
    rw [show chunks ps total (data ++ zeros (total * ps - data.length))
        = chunks ps (f + (total - f)) (data ++ zeros (total * ps - data.length)) by rw [← htot],
      chunks_add]
    congr 1
    · -- the shards cut from the input
      have hz : zeros (total * ps - data.length) = zeros e ++ zeros (total * ps - data.length - e) := by
        rw [← zeros_add]; congr 1; omega
      rw [hz, ← List.append_assoc, ← h1, chunks_append_left _ _ _ _ hfle]
    · -- the allocated shards
      rw [List.drop_append, drop_zeros, List.length_drop]
      congr 3
      omega
  · -- everything fits in the capacity
    have heq : data1.length = total * ps := by omega
    have hf' : f = total := by rw [← hf, heq]; exact Nat.mul_div_cancel _ hps
    rw [if_neg hlt, hf', Nat.min_self, List.take_nil, List.append_nil, h1]
    congr 3
    omega

theorem split_eq_spec (q d p : Nat) (hq : 0 < q) (hd : 0 < d) (data spare : List Nat) :
    split q d p data spare = splitSpec q d p data := by
  unfold split splitSpec
  by_cases h0 : data.length = 0
  · simp [h0]
  · rw [if_neg h0, if_neg h0]
    by_cases h1 : d + p = 1 ∧ (q = 1 ∨ data.length % 64 = 0)
    · rw [if_pos h1, if_pos h1]
    · rw [if_neg h1, if_neg h1]
      obtain ⟨hps, -, hle⟩ := perShard_props q d data.length hq hd (Nat.pos_of_ne_zero h0)
      have hneed : data.length ≤ (d + p) * perShard q d data.length := by
        rw [Nat.add_mul]; omega
      simp only []
      congr 1
      generalize perShard q d data.length = ps at *
      by_cases hc : data.length + spare.length > data.length
      · rw [if_pos hc]
        by_cases hc2 : data.length + spare.length > (d + p) * ps
        · rw [if_pos hc2]
          exact split_core ps (d + p) data _ ((d + p) * ps - data.length) hps rfl (by omega)
        · rw [if_neg hc2]
          exact split_core ps (d + p) data _ (data.length + spare.length - data.length) hps rfl
            (by omega)
      · rw [if_neg hc]
        exact split_core ps (d + p) data data 0 hps (by simp) (by omega)

/-! ## splitSpec -/

theorem splitSpec_general (q d p : Nat) (data : List Nat) (hl : 0 < data.length)
    (h1 : ¬ (d + p = 1 ∧ (q = 1 ∨ data.length % 64 = 0))) :
    splitSpec q d p data = .ok (chunks (perShard q d data.length) (d + p)
      (data ++ zeros ((d + p) * perShard q d data.length - data.length))) := by
  unfold splitSpec
  rw [if_neg (by omega), if_neg h1]

/-! ## join -/

theorem scan_some (outSize : Nat) (T : List (List Nat)) (size : Nat) :
    ∃ r, join.scan outSize (T.map some) size = .ok r ∧
      (r < outSize ↔ size + T.flatten.length < outSize) := by
  induction T generalizing size with
  | nil => exact ⟨size, rfl, by simp⟩
  | cons s rest ih =>
    simp only [List.map_cons, join.scan]
    by_cases h : size + s.length ≥ outSize
    · rw [if_pos h]
      exact ⟨_, rfl, by simp; omega⟩
    · rw [if_neg h]
      obtain ⟨r, hr, hiff⟩ := ih (size + s.length)
      exact ⟨r, hr, by rw [hiff]; simp; omega⟩

theorem copy_some (T : List (List Nat)) (w : Nat) (acc : List Nat) :
    join.copy (T.map some) w acc = acc ++ T.flatten.take w := by
  induction T generalizing w acc with
  | nil => simp [join.copy]
  | cons s rest ih =>
    simp only [List.map_cons, join.copy, List.flatten_cons, List.take_append]
    by_cases h : w < s.length
    · rw [if_pos h, show w - s.length = 0 by omega]; simp
    · rw [if_neg h, ih, List.take_of_length_le (l := s) (i := w) (by omega), List.append_assoc]

/-- total length of the present shards of a list -/
def presentLen (l : List (Option (List Nat))) : Nat := (l.map fun o => (o.getD []).length).sum

theorem scan_none (outSize : Nat) (l : List (Option (List Nat))) (size i : Nat)
    (hi : l[i]? = some none) (hlt : size + presentLen (l.take i) < outSize) :
    join.scan outSize l size = .error .reconstructRequired := by
  induction l generalizing size i with
  | nil => simp at hi
  | cons o rest ih =>
    cases o with
    | none => rfl
    | some s =>
      cases i with
      | zero => simp at hi
      | succ j =>
        simp only [List.getElem?_cons_succ] at hi
        simp only [presentLen, List.take_succ_cons, List.map_cons, List.sum_cons,
          Option.getD_some] at hlt
        simp only [join.scan]
        rw [if_neg (by omega)]
        exact ih (size + s.length) j hi (by simp only [presentLen]; omega)

theorem join_some (d : Nat) (shs : List (List Nat)) (hlen : d ≤ shs.length) (outSize : Nat) :
    join d (shs.map some) outSize =
      if ((shs.take d).flatten).length < outSize then .error .shortData
      else .ok (((shs.take d).flatten).take outSize) := by
  unfold join
  rw [if_neg (by simp; omega), ← List.map_take]
  obtain ⟨r, hr, hiff⟩ := scan_some outSize (shs.take d) 0
  dsimp only
  rw [hr]
  simp only [copy_some, List.nil_append]
  simp only [Nat.zero_add] at hiff
  by_cases h : r < outSize
  · rw [if_pos h, if_pos (hiff.1 h)]
  · rw [if_neg h, if_neg (fun h' => h (hiff.2 h'))]

end RSV.Proofs.SplitJoin
