import RSV.Model.Streams
/-!
# Lemmas about the streaming model (`RSV.Model.St`) — core Lean only

`cleanRd` / `cleanWr` / `wrOf`: fault-free readers and writers.
`scan`: what `readShardsAux` computes on fault-free readers, on the level of the remaining lengths.
-/
namespace RSV.Proofs.Streams
open RSV.Model.St

/-- fault-free reader with remaining content `data` -/
def cleanRd (data : List Nat) : Rd := ⟨data, none⟩
/-- fresh fault-free writer -/
def cleanWr : Wr := ⟨[], none, false⟩
/-- fault-free writer that has accepted `g` -/
def wrOf (g : List Nat) : Wr := ⟨g, none, false⟩
/-- block `k` (block size `B`) of a stream -/
def blockAt (B k : Nat) (s : List Nat) : List Nat := (s.drop (k * B)).take B
/-- the first `n` blocks of size `B` of a stream -/
def blocksOf (B : Nat) : Nat → List Nat → List (List Nat)
  | 0, _ => []
  | n + 1, s => s.take B :: blocksOf B n (s.drop B)

theorem cleanWr_eq : cleanWr = wrOf [] := rfl

/-! ## readFull -/

theorem readFull_clean (data : List Nat) (want : Nat) :
    readFull ⟨data, none⟩ want =
      (data.take want,
       (if want ≤ data.length then ReadOutcome.full
        else if data = [] then ReadOutcome.eof else ReadOutcome.unexpectedEOF),
       ⟨data.drop want, none⟩) := by
  unfold readFull
  by_cases h : want ≤ data.length
  · simp [h]
  · have h' : data.length ≤ want := by omega
    simp [h, List.take_of_length_le h', List.drop_of_length_le h']

theorem readFull_fault (data : List Nat) (k want : Nat) (hk : k < want) (hd : k ≤ data.length) :
    readFull ⟨data, some k⟩ want = (data.take k, ReadOutcome.error, ⟨data.drop k, some 0⟩) := by
  unfold readFull
  have h1 : min k data.length = k := by omega
  have h2 : ¬ want ≤ k := by omega
  simp [h1, h2, hd]

/-- a reader whose fault (if any) lies beyond the requested bytes delivers a full block -/
theorem readFull_full (r : Rd) (want : Nat) (hlen : want ≤ r.data.length)
    (hf : ∀ k, r.failIn = some k → want ≤ k) :
    readFull r want = (r.data.take want, ReadOutcome.full, ⟨r.data.drop want, r.failIn.map (· - want)⟩) := by
  unfold readFull
  cases hfi : r.failIn with
  | none => simp [hlen]
  | some k =>
    have := hf k hfi
    have h1 : want ≤ min k r.data.length := by omega
    simp [h1]

/-! ## readShards on fault-free readers -/

/-- the final decision of `readShardsAux` -/
def fin (size : Option Nat) (full : Bool) (accB : List (List Nat)) (accR : List (Option Rd)) : ReadShards :=
  if full && size.isSome then .err .shardSize
  else if size = some 0 then .eof accR
  else .ok accB accR

theorem readShardsAux_nil (i : Nat) (size : Option Nat) (full : Bool) (accB accR) :
    readShardsAux [] [] i size full accB accR = fin size full accB accR := by
  simp [readShardsAux, fin]

/-- the `size` / `full` bookkeeping of `readShardsAux` on the remaining lengths of fault-free
readers (`none` = nil reader); result `none` = `ErrShardSize` -/
def scan (B : Nat) : List (Option Nat) → Option Nat → Bool → Option (Option Nat × Bool)
  | [], size, full => some (size, full)
  | none :: ns, size, full => scan B ns size full
  | some n :: ns, size, full =>
    if B ≤ n then scan B ns size true
    else match size with
      | none => scan B ns (some n) full
      | some sz => if n = sz then scan B ns size full else none

/-- buffer lengths matching a list of optional streams: every present stream has a buffer of
length `B` -/
inductive LensOK (B : Nat) : List Nat → List (Option (List Nat)) → Prop
  | nil : LensOK B [] []
  | consSome (s : List Nat) {ls os} : LensOK B ls os → LensOK B (B :: ls) (some s :: os)
  | consNone (l : Nat) {ls os} : LensOK B ls os → LensOK B (l :: ls) (none :: os)

theorem LensOK.length_eq {B ls os} (h : LensOK B ls os) : ls.length = os.length := by
  induction h <;> simp [*]

theorem LensOK.replicate (B : Nat) (ss : List (List Nat)) :
    LensOK B (List.replicate ss.length B) (ss.map some) := by
  induction ss with
  | nil => exact .nil
  | cons s ss ih => simpa [List.replicate_succ] using LensOK.consSome s ih

/-- the readers of a list of optional clean streams -/
def rdsOf (os : List (Option (List Nat))) : List (Option Rd) := os.map (Option.map cleanRd)
/-- the blocks delivered by them for buffer size `B` -/
def takeB (B : Nat) (os : List (Option (List Nat))) : List (List Nat) :=
  os.map fun o => (o.map (List.take B)).getD []
/-- the streams after the block -/
def dropB (B : Nat) (os : List (Option (List Nat))) : List (Option (List Nat)) :=
  os.map (Option.map (List.drop B))

theorem readShardsAux_clean (B : Nat) {lens os} (h : LensOK B lens os) :
    ∀ (ls : List Nat) (rs : List (Option Rd)) (i : Nat) (size : Option Nat) (full : Bool) accB accR,
    readShardsAux (lens ++ ls) (rdsOf os ++ rs) i size full accB accR =
      match scan B (os.map (Option.map List.length)) size full with
      | none => .err .shardSize
      | some (sz, fl) =>
        readShardsAux ls rs (i + os.length) sz fl (accB ++ takeB B os) (accR ++ rdsOf (dropB B os)) := by
  induction h with
  | nil => intro ls rs i size full accB accR; simp [rdsOf, takeB, dropB, scan]
  | consNone l _ ih =>
    intro ls rs i size full accB accR
    have := ih ls rs (i + 1) size full (accB ++ [[]]) (accR ++ [none])
    simp only [rdsOf, List.map_cons, Option.map_none, List.cons_append, readShardsAux, scan, takeB, dropB,
      Option.getD_none, List.length_cons] at this ⊢
    rw [this]
    simp [List.append_assoc, Nat.add_assoc, Nat.add_comm 1]
  | consSome s _ ih =>
    intro ls rs i size full accB accR
    simp only [rdsOf, List.map_cons, Option.map_some, List.cons_append, readShardsAux, scan, takeB, dropB,
      Option.getD_some, List.length_cons, cleanRd, readFull_clean]
    by_cases hB : B ≤ s.length
    · have := ih ls rs (i + 1) size true (accB ++ [s.take B]) (accR ++ [some ⟨s.drop B, none⟩])
      simp only [rdsOf, takeB, dropB] at this
      simp only [hB, if_true]
      rw [this]
      simp [List.append_assoc, Nat.add_assoc, Nat.add_comm 1]
    · have hlen : (s.take B).length = s.length := by simp; omega
      simp only [hB, if_false]
      by_cases hs : s = []
      · subst hs
        cases size with
        | none =>
          have := ih ls rs (i + 1) (some 0) full (accB ++ [[]]) (accR ++ [some ⟨[], none⟩])
          simp only [rdsOf, takeB, dropB] at this
          simp [this, List.append_assoc, Nat.add_assoc, Nat.add_comm 1]
        | some sz =>
          by_cases hz : 0 = sz
          · subst hz
            have := ih ls rs (i + 1) (some 0) full (accB ++ [[]]) (accR ++ [some ⟨[], none⟩])
            simp only [rdsOf, takeB, dropB] at this
            simp [this, List.append_assoc, Nat.add_assoc, Nat.add_comm 1]
          · simp [hz]
      · cases size with
        | none =>
          have := ih ls rs (i + 1) (some s.length) full (accB ++ [s.take B]) (accR ++ [some ⟨s.drop B, none⟩])
          simp only [rdsOf, takeB, dropB] at this
          simp only [hs, if_false, hlen]
          rw [this]
          simp [List.append_assoc, Nat.add_assoc, Nat.add_comm 1]
        | some sz =>
          by_cases hz : s.length = sz
          · have := ih ls rs (i + 1) (some sz) full (accB ++ [s.take B]) (accR ++ [some ⟨s.drop B, none⟩])
            simp only [rdsOf, takeB, dropB] at this
            simp only [hs, if_false, hlen, hz, ne_eq, not_true_eq_false, if_true]
            rw [this]
            simp [List.append_assoc, Nat.add_assoc, Nat.add_comm 1]
          · simp [hs, hlen, hz]


/-! ### properties of `scan` -/

theorem scan_full (B : Nat) : ∀ (ns : List (Option Nat)) (size : Option Nat) (full : Bool),
    (∀ n, some n ∈ ns → B ≤ n) → scan B ns size full = some (size, full || ns.any Option.isSome)
  | [], size, full, _ => by simp [scan]
  | none :: ns, size, full, h => by
    have := scan_full B ns size full (fun n hn => h n (List.mem_cons_of_mem _ hn))
    simp [scan, this]
  | some n :: ns, size, full, h => by
    have hn : B ≤ n := h n (List.mem_cons_self ..)
    have := scan_full B ns size true (fun n hn => h n (List.mem_cons_of_mem _ hn))
    simp [scan, this, hn]

theorem scan_short (B m : Nat) (hm : m < B) : ∀ (ns : List (Option Nat)) (size : Option Nat) (full : Bool),
    (∀ n, some n ∈ ns → n = m) → (size = none ∨ size = some m) →
    scan B ns size full = some (if ns.any Option.isSome then some m else size, full)
  | [], size, full, _, _ => by simp [scan]
  | none :: ns, size, full, h, hs => by
    have := scan_short B m hm ns size full (fun n hn => h n (List.mem_cons_of_mem _ hn)) hs
    simp [scan, this]
  | some n :: ns, size, full, h, hs => by
    have hn : n = m := h n (List.mem_cons_self ..)
    subst hn
    have hB : ¬ B ≤ n := by omega
    have := scan_short B n hm ns (some n) full (fun n hn => h n (List.mem_cons_of_mem _ hn)) (Or.inr rfl)
    rcases hs with hs | hs <;> subst hs <;> simp [scan, this, hB]

theorem scan_inv (B : Nat) : ∀ (ns : List (Option Nat)) (size : Option Nat) (full : Bool) (sz' : Option Nat) (fl' : Bool),
    scan B ns size full = some (sz', fl') →
      (fl' = true ↔ (full = true ∨ ∃ n, some n ∈ ns ∧ B ≤ n)) ∧
      (∀ n, some n ∈ ns → n < B → sz' = some n) ∧
      (∀ z, size = some z → sz' = some z) ∧
      (sz' = none → size = none ∧ ∀ n, some n ∈ ns → B ≤ n)
  | [], size, full, sz', fl', h => by
    simp [scan] at h
    obtain ⟨rfl, rfl⟩ := h
    simp
  | none :: ns, size, full, sz', fl', h => by
    simp only [scan] at h
    have := scan_inv B ns size full sz' fl' h
    simpa using this
  | some n :: ns, size, full, sz', fl', h => by
    simp only [scan] at h
    by_cases hB : B ≤ n
    · simp only [hB, if_true] at h
      obtain ⟨h1, h2, h3, h4⟩ := scan_inv B ns size true sz' fl' h
      refine ⟨?_, ?_, h3, ?_⟩
      · simp only [true_or, iff_true] at h1
        simp only [h1, true_iff]
        exact Or.inr ⟨n, List.mem_cons_self .., hB⟩
      · intro k hk hk'
        rcases List.mem_cons.1 hk with hk | hk
        · cases hk; omega
        · exact h2 k hk hk'
      · intro hz
        refine ⟨(h4 hz).1, ?_⟩
        intro k hk
        rcases List.mem_cons.1 hk with hk | hk
        · cases hk; exact hB
        · exact (h4 hz).2 k hk
    · simp only [hB, if_false] at h
      cases size with
      | none =>
        simp only at h
        obtain ⟨h1, h2, h3, h4⟩ := scan_inv B ns (some n) full sz' fl' h
        have hsz := h3 n rfl
        refine ⟨?_, ?_, by simp, ?_⟩
        · rw [h1]
          constructor
          · rintro (h | ⟨k, hk, hk'⟩)
            · exact Or.inl h
            · exact Or.inr ⟨k, List.mem_cons_of_mem _ hk, hk'⟩
          · rintro (h | ⟨k, hk, hk'⟩)
            · exact Or.inl h
            · rcases List.mem_cons.1 hk with hk | hk
              · cases hk; omega
              · exact Or.inr ⟨k, hk, hk'⟩
        · intro k hk hk'
          rcases List.mem_cons.1 hk with hk | hk
          · cases hk; exact hsz
          · exact h2 k hk hk'
        · intro hz; rw [hz] at hsz; cases hsz
      | some sz =>
        simp only at h
        by_cases hz : n = sz
        · subst hz
          simp only [if_true] at h
          obtain ⟨h1, h2, h3, h4⟩ := scan_inv B ns (some n) full sz' fl' h
          have hsz := h3 n rfl
          refine ⟨?_, ?_, h3, ?_⟩
          · rw [h1]
            constructor
            · rintro (h | ⟨k, hk, hk'⟩)
              · exact Or.inl h
              · exact Or.inr ⟨k, List.mem_cons_of_mem _ hk, hk'⟩
            · rintro (h | ⟨k, hk, hk'⟩)
              · exact Or.inl h
              · rcases List.mem_cons.1 hk with hk | hk
                · cases hk; omega
                · exact Or.inr ⟨k, hk, hk'⟩
          · intro k hk hk'
            rcases List.mem_cons.1 hk with hk | hk
            · cases hk; exact hsz
            · exact h2 k hk hk'
          · intro hz; rw [hz] at hsz; cases hsz
        · simp [hz] at h

/-! ### `readShards` on fault-free readers: the three possible results -/

theorem readShards_clean (B : Nat) {lens os} (h : LensOK B lens os) :
    readShards lens (rdsOf os) =
      match scan B (os.map (Option.map List.length)) none false with
      | none => .err .shardSize
      | some (sz, fl) => fin sz fl (takeB B os) (rdsOf (dropB B os)) := by
  have := readShardsAux_clean B h [] [] 0 none false [] []
  simp only [List.append_nil, List.nil_append, readShardsAux_nil] at this
  exact this

/-- all present streams deliver a full block -/
theorem readShards_clean_full (B : Nat) {lens os} (h : LensOK B lens os)
    (hfull : ∀ s, some s ∈ os → B ≤ s.length) :
    readShards lens (rdsOf os) = .ok (takeB B os) (rdsOf (dropB B os)) := by
  rw [readShards_clean B h, scan_full]
  · simp [fin]
  · intro n hn
    obtain ⟨o, ho, hon⟩ := List.mem_map.1 hn
    cases o with
    | none => cases hon
    | some s => simp at hon; subst hon; exact hfull s ho

/-- all present streams have the same remaining length `m < B`, `0 < m` -/
theorem readShards_clean_short (B m : Nat) (hm : m < B) (hm0 : 0 < m) {lens os} (h : LensOK B lens os)
    (hlen : ∀ s, some s ∈ os → s.length = m) :
    readShards lens (rdsOf os) = .ok (takeB B os) (rdsOf (dropB B os)) := by
  rw [readShards_clean B h, scan_short B m hm]
  · have : ¬ m = 0 := by omega
    by_cases ha : (os.map (Option.map List.length)).any Option.isSome <;> simp [fin, ha, this]
  · intro n hn
    obtain ⟨o, ho, hon⟩ := List.mem_map.1 hn
    cases o with
    | none => cases hon
    | some s => simp at hon; subst hon; exact hlen s ho
  · exact Or.inl rfl

/-- all present streams are exhausted (and there is one) -/
theorem readShards_clean_eof (B : Nat) (hB : 0 < B) {lens os} (h : LensOK B lens os)
    (hlen : ∀ s, some s ∈ os → s.length = 0) (hex : ∃ s, some s ∈ os) :
    readShards lens (rdsOf os) = .eof (rdsOf (dropB B os)) := by
  rw [readShards_clean B h, scan_short B 0 hB]
  · have ha : (os.map (Option.map List.length)).any Option.isSome = true := by
      obtain ⟨s, hs⟩ := hex
      simp only [List.any_eq_true]
      exact ⟨some s.length, List.mem_map.2 ⟨some s, hs, rfl⟩, rfl⟩
    simp [fin, ha]
  · intro n hn
    obtain ⟨o, ho, hon⟩ := List.mem_map.1 hn
    cases o with
    | none => cases hon
    | some s => simp at hon; subst hon; exact hlen s ho
  · exact Or.inl rfl

/-- the converse: whatever `readShards` returns on fault-free readers, it is `ErrShardSize` unless the
present streams deliver blocks of one common length -/
theorem readShards_clean_inv (B : Nat) {lens os} (h : LensOK B lens os) :
    readShards lens (rdsOf os) = .err .shardSize ∨
    (readShards lens (rdsOf os) = .eof (rdsOf (dropB B os)) ∧ ∀ s, some s ∈ os → s.length = 0) ∨
    (readShards lens (rdsOf os) = .ok (takeB B os) (rdsOf (dropB B os)) ∧
      ((∀ s, some s ∈ os → B ≤ s.length) ∨
       ∃ m, 0 < m ∧ ∀ s, some s ∈ os → s.length = m ∧ s.length < B)) := by
  rw [readShards_clean B h]
  cases hsc : scan B (os.map (Option.map List.length)) none false with
  | none => exact Or.inl rfl
  | some q =>
    obtain ⟨sz, fl⟩ := q
    obtain ⟨h1, h2, -, h4⟩ := scan_inv B _ _ _ _ _ hsc
    have mem : ∀ s, some s ∈ os → some s.length ∈ os.map (Option.map List.length) :=
      fun s hs => List.mem_map.2 ⟨some s, hs, rfl⟩
    cases sz with
    | none =>
      refine Or.inr (Or.inr ⟨by simp [fin], Or.inl ?_⟩)
      exact fun s hs => (h4 rfl).2 _ (mem s hs)
    | some m =>
      cases fl with
      | true => exact Or.inl (by simp [fin])
      | false =>
        have hno : ∀ s, some s ∈ os → s.length < B := by
          intro s hs
          apply Nat.lt_of_not_le
          intro hle
          have := h1.2 (Or.inr ⟨_, mem s hs, hle⟩)
          cases this
        have hall : ∀ s, some s ∈ os → s.length = m := by
          intro s hs
          have := h2 _ (mem s hs) (hno s hs)
          simpa using this.symm
        by_cases hm : m = 0
        · subst hm
          exact Or.inr (Or.inl ⟨by simp [fin], hall⟩)
        · refine Or.inr (Or.inr ⟨by simp [fin, hm], Or.inr ⟨m, by omega, ?_⟩⟩)
          exact fun s hs => ⟨hall s hs, hno s hs⟩


/-! ### all streams present -/

/-- the readers of a list of clean streams -/
def cl (ss : List (List Nat)) : List (Option Rd) := ss.map fun s => some (cleanRd s)

theorem rdsOf_map_some (ss : List (List Nat)) : rdsOf (ss.map some) = cl ss := by
  simp [rdsOf, cl]
theorem takeB_map_some (B : Nat) (ss : List (List Nat)) : takeB B (ss.map some) = ss.map (List.take B) := by
  simp [takeB]
theorem dropB_map_some (B : Nat) (ss : List (List Nat)) :
    dropB B (ss.map some) = (ss.map (List.drop B)).map some := by
  simp [dropB]

theorem readShards_cl_full (B : Nat) (ss : List (List Nat)) (h : ∀ s ∈ ss, B ≤ s.length) :
    readShards (List.replicate ss.length B) (cl ss) = .ok (ss.map (List.take B)) (cl (ss.map (List.drop B))) := by
  have := readShards_clean_full B (LensOK.replicate B ss) (by simpa using h)
  simpa only [rdsOf_map_some, takeB_map_some, dropB_map_some] using this

theorem readShards_cl_short (B m : Nat) (hm : m < B) (hm0 : 0 < m) (ss : List (List Nat))
    (h : ∀ s ∈ ss, s.length = m) :
    readShards (List.replicate ss.length B) (cl ss) = .ok (ss.map (List.take B)) (cl (ss.map (List.drop B))) := by
  have := readShards_clean_short B m hm hm0 (LensOK.replicate B ss) (by simpa using h)
  simpa only [rdsOf_map_some, takeB_map_some, dropB_map_some] using this

theorem readShards_cl_eof (B : Nat) (hB : 0 < B) (ss : List (List Nat)) (hne : ss ≠ [])
    (h : ∀ s ∈ ss, s.length = 0) :
    readShards (List.replicate ss.length B) (cl ss) = .eof (cl (ss.map (List.drop B))) := by
  have hex : ∃ s, some s ∈ ss.map some := by
    cases ss with
    | nil => exact absurd rfl hne
    | cons s _ => exact ⟨s, by simp⟩
  have := readShards_clean_eof B hB (LensOK.replicate B ss) (by simpa using h) hex
  simpa only [rdsOf_map_some, takeB_map_some, dropB_map_some] using this

theorem readShards_cl_inv (B : Nat) (ss : List (List Nat)) :
    readShards (List.replicate ss.length B) (cl ss) = .err .shardSize ∨
    (readShards (List.replicate ss.length B) (cl ss) = .eof (cl (ss.map (List.drop B))) ∧ ∀ s ∈ ss, s.length = 0) ∨
    (readShards (List.replicate ss.length B) (cl ss) = .ok (ss.map (List.take B)) (cl (ss.map (List.drop B))) ∧
      ((∀ s ∈ ss, B ≤ s.length) ∨ ∃ m, 0 < m ∧ ∀ s ∈ ss, s.length = m ∧ s.length < B)) := by
  have := readShards_clean_inv B (LensOK.replicate B ss)
  simpa only [rdsOf_map_some, takeB_map_some, dropB_map_some, List.mem_map, Option.some.injEq,
    exists_eq_right] using this

/-! ## writers -/

/-- writers without limit that have accepted `og` (`none` = nil writer) -/
def wsOf (ogs : List (Option (List Nat))) : List (Option Wr) := ogs.map (Option.map wrOf)
/-- append block `j` to writer `j` -/
def appendO (ogs : List (Option (List Nat))) (bs : List (List Nat)) : List (Option (List Nat)) :=
  List.zipWith (fun og b => og.map (· ++ b)) ogs bs

theorem writeTo_wrOf (g b : List Nat) : writeTo (wrOf g) b = (wrOf (g ++ b), none) := rfl

theorem writeShardsSeq_clean : ∀ (ogs : List (Option (List Nat))) (bs : List (List Nat)) (i : Nat) (acc : List (Option Wr)),
    ogs.length = bs.length →
    writeShardsSeq (wsOf ogs) bs i acc = (acc ++ wsOf (appendO ogs bs), none)
  | [], [], i, acc, _ => by simp [wsOf, appendO, writeShardsSeq]
  | none :: ogs, b :: bs, i, acc, h => by
    have := writeShardsSeq_clean ogs bs (i + 1) (acc ++ [none]) (by simpa using h)
    simp only [wsOf, appendO] at this
    simp [wsOf, appendO, writeShardsSeq, this]
  | some g :: ogs, b :: bs, i, acc, h => by
    have := writeShardsSeq_clean ogs bs (i + 1) (acc ++ [some (wrOf (g ++ b))]) (by simpa using h)
    simp only [wsOf, appendO] at this
    simp [wsOf, appendO, writeShardsSeq, this, writeTo_wrOf]

theorem writeShardsConc_clean : ∀ (ogs : List (Option (List Nat))) (bs : List (List Nat)) (i : Nat) (acc : List (Option Wr)) (e : Option Err),
    ogs.length = bs.length →
    writeShardsConc (wsOf ogs) bs i acc e = (acc ++ wsOf (appendO ogs bs), e)
  | [], [], i, acc, e, _ => by simp [wsOf, appendO, writeShardsConc]
  | none :: ogs, b :: bs, i, acc, e, h => by
    have := writeShardsConc_clean ogs bs (i + 1) (acc ++ [none]) e (by simpa using h)
    simp only [wsOf, appendO] at this
    simp [wsOf, appendO, writeShardsConc, this]
  | some g :: ogs, b :: bs, i, acc, e, h => by
    have := writeShardsConc_clean ogs bs (i + 1) (acc ++ [some (wrOf (g ++ b))]) e (by simpa using h)
    simp only [wsOf, appendO] at this
    simp [wsOf, appendO, writeShardsConc, this, writeTo_wrOf]

theorem writeShards_clean (conc : Bool) (ogs : List (Option (List Nat))) (bs : List (List Nat))
    (h : ogs.length = bs.length) :
    writeShards conc (wsOf ogs) bs 0 [] = (wsOf (appendO ogs bs), none) := by
  cases conc <;> simp [writeShards, writeShardsSeq_clean _ _ _ _ h, writeShardsConc_clean _ _ _ _ _ h]

theorem appendO_map_some (gs bs : List (List Nat)) :
    appendO (gs.map some) bs = (List.zipWith (· ++ ·) gs bs).map some := by
  induction gs generalizing bs with
  | nil => simp [appendO]
  | cons g gs ih =>
    cases bs with
    | nil => simp [appendO]
    | cons b bs => have := ih bs; simp only [appendO] at this; simp [appendO, this]

/-! ## shardSize -/

theorem shardSize_eq (m : Nat) : ∀ (blocks : List (List Nat)),
    (∀ b ∈ blocks, b.length = 0 ∨ b.length = m) → (∃ b ∈ blocks, b.length ≠ 0) → shardSize blocks = m
  | [], _, h => by obtain ⟨b, hb, _⟩ := h; cases hb
  | b :: bs, hall, hex => by
    by_cases hb : b.length = 0
    · have : shardSize (b :: bs) = shardSize bs := by simp [shardSize, List.find?, hb]
      rw [this]
      apply shardSize_eq m bs (fun b hb => hall b (List.mem_cons_of_mem _ hb))
      obtain ⟨b', hb', hne⟩ := hex
      rcases List.mem_cons.1 hb' with rfl | hb'
      · exact absurd hb hne
      · exact ⟨b', hb', hne⟩
    · have := hall b (List.mem_cons_self ..)
      simp [shardSize, List.find?, hb]
      omega

theorem shardSize_all (m : Nat) (hm : 0 < m) (blocks : List (List Nat)) (hne : blocks ≠ [])
    (h : ∀ b ∈ blocks, b.length = m) : shardSize blocks = m := by
  apply shardSize_eq m blocks (fun b hb => Or.inr (h b hb))
  cases blocks with
  | nil => exact absurd rfl hne
  | cons b bs => exact ⟨b, List.mem_cons_self .., by have := h b (List.mem_cons_self ..); omega⟩

theorem map_length_of_any_false (size : Nat) : ∀ (blocks : List (List Nat)),
    (blocks.any fun b => decide (b.length ≠ size)) = false → blocks.map List.length = List.replicate blocks.length size
  | [], _ => rfl
  | b :: bs, h => by
    simp only [List.any_cons, Bool.or_eq_false_iff, decide_eq_false_iff_not, ne_eq, Decidable.not_not] at h
    simp [List.replicate_succ, h.1, map_length_of_any_false size bs h.2]


/-! ## list helpers -/

theorem zipWith_append_assoc : ∀ (a b c : List (List Nat)),
    List.zipWith (· ++ ·) (List.zipWith (· ++ ·) a b) c = List.zipWith (· ++ ·) a (List.zipWith (· ++ ·) b c)
  | [], _, _ => by simp
  | _ :: _, [], _ => by simp
  | _ :: _, _ :: _, [] => by simp
  | x :: a, y :: b, z :: c => by simp [zipWith_append_assoc a b c]

theorem zipWith_take_drop (B : Nat) : ∀ (ss : List (List Nat)),
    List.zipWith (· ++ ·) (ss.map (List.take B)) (ss.map (List.drop B)) = ss
  | [] => rfl
  | s :: ss => by simp [zipWith_take_drop B ss]

theorem map_take_of_le (B : Nat) (ss : List (List Nat)) (h : ∀ s ∈ ss, s.length ≤ B) :
    ss.map (List.take B) = ss := by
  induction ss with
  | nil => rfl
  | cons s ss ih =>
    simp only [List.map_cons]
    rw [List.take_of_length_le (h s (List.mem_cons_self ..)), ih (fun s hs => h s (List.mem_cons_of_mem _ hs))]

theorem zipWith_nil_left (n : Nat) : ∀ (par : List (List Nat)), par.length = n →
    List.zipWith (· ++ ·) (List.replicate n ([] : List Nat)) par = par
  | [], h => by simp
  | x :: par, h => by
    subst h
    simp [List.replicate_succ, zipWith_nil_left par.length par rfl]

theorem foldl_max_ge (rs : List Rd) : ∀ (m : Nat),
    m ≤ rs.foldl (fun m r => max m r.data.length) m ∧
    ∀ r ∈ rs, r.data.length ≤ rs.foldl (fun m r => max m r.data.length) m := by
  induction rs with
  | nil => intro m; simp
  | cons r rs ih =>
    intro m
    obtain ⟨h1, h2⟩ := ih (max m r.data.length)
    simp only [List.foldl_cons]
    refine ⟨by omega, ?_⟩
    intro r' hr'
    rcases List.mem_cons.1 hr' with rfl | hr'
    · omega
    · exact h2 r' hr'

theorem filterMap_cl (ss : List (List Nat)) : (cl ss).filterMap id = ss.map cleanRd := by
  induction ss with
  | nil => rfl
  | cons s ss ih => simp only [cl] at ih; simp [cl, ih]

/-! ## the encode loop on fault-free equal-length streams -/

/-- `encode` of the in-memory codec is defined on `d` rows of one length and column-local:
the parity of a row-wise concatenation is the row-wise concatenation of the parities -/
structure EncLocal (C : BlockCodec) : Prop where
  len : ∀ (blocks : List (List Nat)) (n : Nat), blocks.length = C.d → 0 < n → (∀ b ∈ blocks, b.length = n) →
    (C.encode blocks).length = C.p
  app : ∀ (b₁ b₂ : List (List Nat)) (n₁ n₂ : Nat), b₁.length = C.d → b₂.length = C.d → 0 < n₁ → 0 < n₂ →
    (∀ b ∈ b₁, b.length = n₁) → (∀ b ∈ b₂, b.length = n₂) →
    C.encode (List.zipWith (· ++ ·) b₁ b₂) = List.zipWith (· ++ ·) (C.encode b₁) (C.encode b₂)

/-- the `p` parity writers after having accepted `gs` -/
def pw (gs : List (List Nat)) : List (Option Wr) := gs.map fun g => some (wrOf g)

theorem wsOf_map_some (gs : List (List Nat)) : wsOf (gs.map some) = pw gs := by simp [wsOf, pw]

theorem encodeLoop_eof (C : BlockCodec) (conc : Bool) (fuel B : Nat) (hB : 0 < B) (ss : List (List Nat))
    (hne : ss ≠ []) (h0 : ∀ s ∈ ss, s.length = 0) (ws : List (Option Wr)) (read : Nat) :
    encodeLoop C conc (fuel + 1) (List.replicate ss.length B) (cl ss) ws read =
      ⟨if read = 0 then some .shardNoData else none, ws⟩ := by
  simp only [encodeLoop, readShards_cl_eof B hB ss hne h0]

theorem encodeLoop_step (C : BlockCodec) (hC : EncLocal C) (conc : Bool) (fuel B n : Nat) (hB : 0 < B) (hn : 0 < n)
    (ss : List (List Nat)) (hd : ss.length = C.d) (hd0 : 0 < C.d) (hlen : ∀ s ∈ ss, s.length = n)
    (gs : List (List Nat)) (hp : gs.length = C.p) (read : Nat) :
    encodeLoop C conc (fuel + 1) (List.replicate ss.length B) (cl ss) (pw gs) read =
      encodeLoop C conc fuel (List.replicate ss.length (min B n)) (cl (ss.map (List.drop B)))
        (pw (List.zipWith (· ++ ·) gs (C.encode (ss.map (List.take B))))) (read + min B n) := by
  have hread : readShards (List.replicate ss.length B) (cl ss) =
      .ok (ss.map (List.take B)) (cl (ss.map (List.drop B))) := by
    by_cases hBn : B ≤ n
    · exact readShards_cl_full B ss (fun s hs => by rw [hlen s hs]; exact hBn)
    · exact readShards_cl_short B n (by omega) hn ss hlen
  have hbl : ∀ b ∈ ss.map (List.take B), b.length = min B n := by
    intro b hb
    obtain ⟨s, hs, rfl⟩ := List.mem_map.1 hb
    simp [hlen s hs]
  have hm : 0 < min B n := by omega
  have hne : ss.map (List.take B) ≠ [] := by
    intro h; rw [List.map_eq_nil_iff] at h; subst h; simp at hd; omega
  have hsz : shardSize (ss.map (List.take B)) = min B n := shardSize_all _ hm _ hne hbl
  have hany : ((ss.map (List.take B)).any fun b => decide (b.length ≠ min B n)) = false := by
    rw [List.any_eq_false]
    intro b hb
    simp [hbl b hb]
  have hplen : gs.length = (C.encode (ss.map (List.take B))).length := by
    rw [hp, hC.len _ (min B n) (by simpa using hd) hm hbl]
  have hw := writeShards_clean conc (gs.map some) (C.encode (ss.map (List.take B))) (by simpa using hplen)
  rw [wsOf_map_some, appendO_map_some, wsOf_map_some] at hw
  have hml : (ss.map (List.take B)).map List.length = List.replicate ss.length (min B n) := by
    have := map_length_of_any_false _ _ hany
    simpa using this
  have hm0 : ¬ min B n = 0 := by omega
  simp only [encodeLoop, hread, hsz, hm0, if_false, hany, hw, hml]
  simp

theorem encodeLoop_clean (C : BlockCodec) (hC : EncLocal C) (conc : Bool) (hd0 : 0 < C.d) :
    ∀ (fuel B n : Nat), 0 < B → 0 < n → n / B + 2 ≤ fuel →
    ∀ (ss : List (List Nat)), ss.length = C.d → (∀ s ∈ ss, s.length = n) →
    ∀ (gs : List (List Nat)), gs.length = C.p → ∀ (read : Nat),
    encodeLoop C conc fuel (List.replicate ss.length B) (cl ss) (pw gs) read =
      ⟨none, pw (List.zipWith (· ++ ·) gs (C.encode ss))⟩ := by
  intro fuel
  induction fuel with
  | zero => intro B n _ _ hf; exact absurd hf (Nat.not_succ_le_zero _)
  | succ fuel ih =>
    intro B n hB hn hf ss hd hlen gs hp read
    rw [encodeLoop_step C hC conc fuel B n hB hn ss hd hd0 hlen gs hp read]
    have hne : ss ≠ [] := by intro h; subst h; simp at hd; omega
    by_cases hBn : n ≤ B
    · -- last block
      have hmin : min B n = n := by omega
      have htake : ss.map (List.take B) = ss := map_take_of_le B ss (fun s hs => by rw [hlen s hs]; exact hBn)
      have hdrop0 : ∀ s ∈ ss.map (List.drop B), s.length = 0 := by
        intro b hb
        obtain ⟨s, hs, rfl⟩ := List.mem_map.1 hb
        simp [hlen s hs]; omega
      have h2 : 2 ≤ fuel + 1 := Nat.le_trans (Nat.le_add_left 2 _) hf
      obtain ⟨f, rfl⟩ : ∃ f, fuel = f + 1 := ⟨fuel - 1, by omega⟩
      have := encodeLoop_eof C conc f n hn (ss.map (List.drop B)) (by simpa using hne) hdrop0
        (pw (List.zipWith (· ++ ·) gs (C.encode (ss.map (List.take B))))) (read + n)
      simp only [List.length_map] at this
      rw [hmin, this, htake]
      have : ¬ read + n = 0 := by omega
      rw [if_neg this]
    · -- a full block, more to come
      have hmin : min B n = B := by omega
      have hdropl : ∀ s ∈ ss.map (List.drop B), s.length = n - B := by
        intro b hb
        obtain ⟨s, hs, rfl⟩ := List.mem_map.1 hb
        simp [hlen s hs]
      have htakel : ∀ s ∈ ss.map (List.take B), s.length = B := by
        intro b hb
        obtain ⟨s, hs, rfl⟩ := List.mem_map.1 hb
        simp [hlen s hs]; omega
      have hdiv : n / B = (n - B) / B + 1 := Nat.div_eq_sub_div hB (by omega)
      have hplen : (List.zipWith (· ++ ·) gs (C.encode (ss.map (List.take B)))).length = C.p := by
        rw [List.length_zipWith, hC.len _ B (by simpa using hd) hB htakel, hp]; simp
      have := ih B (n - B) hB (by omega) (by omega) (ss.map (List.drop B)) (by simpa using hd) hdropl
        _ hplen (read + B)
      simp only [List.length_map] at this
      rw [hmin, this, zipWith_append_assoc,
        ← hC.app _ _ B (n - B) (by simpa using hd) (by simpa using hd) hB (by omega) htakel hdropl,
        zipWith_take_drop]


/-! ## unequal streams are never accepted -/

theorem lengths_eq_of_drop (B : Nat) (ss : List (List Nat))
    (hcase : (∀ s ∈ ss, B ≤ s.length) ∨ ∃ m, 0 < m ∧ ∀ s ∈ ss, s.length = m ∧ s.length < B)
    (hdrop : ∀ s ∈ ss.map (List.drop B), ∀ s' ∈ ss.map (List.drop B), s.length = s'.length) :
    ∀ s ∈ ss, ∀ s' ∈ ss, s.length = s'.length := by
  intro s hs s' hs'
  rcases hcase with hfull | ⟨m, _, hm⟩
  · have := hdrop _ (List.mem_map.2 ⟨s, hs, rfl⟩) _ (List.mem_map.2 ⟨s', hs', rfl⟩)
    have h1 := hfull s hs
    have h2 := hfull s' hs'
    simp at this
    omega
  · rw [(hm s hs).1, (hm s' hs').1]

theorem encodeLoop_none_equal (C : BlockCodec) (conc : Bool) :
    ∀ (fuel B : Nat) (ss : List (List Nat)) (ws : List (Option Wr)) (read : Nat),
    (encodeLoop C conc fuel (List.replicate ss.length B) (cl ss) ws read).err = none →
    ∀ s ∈ ss, ∀ s' ∈ ss, s.length = s'.length := by
  intro fuel
  induction fuel with
  | zero => intro B ss ws read h; simp [encodeLoop] at h
  | succ fuel ih =>
    intro B ss ws read hres
    rcases readShards_cl_inv B ss with h | ⟨_, h0⟩ | ⟨h, hcase⟩
    · simp [encodeLoop, h] at hres
    · intro s hs s' hs'; rw [h0 s hs, h0 s' hs']
    · simp only [encodeLoop, h] at hres
      split at hres
      · simp at hres
      · split at hres
        · simp at hres
        · rename_i hany
          split at hres
          · simp at hres
          · have hml := map_length_of_any_false _ _ (Bool.eq_false_iff.mpr hany)
            rw [hml] at hres
            simp only [List.length_map] at hres
            have := ih _ (ss.map (List.drop B)) _ _ (by simpa using hres)
            exact lengths_eq_of_drop B ss hcase this

theorem verifyLoop_true_equal (C : BlockCodec) :
    ∀ (fuel B : Nat) (ss : List (List Nat)) (read : Nat),
    verifyLoop C fuel (List.replicate ss.length B) (cl ss) read = (true, none) →
    ∀ s ∈ ss, ∀ s' ∈ ss, s.length = s'.length := by
  intro fuel
  induction fuel with
  | zero => intro B ss read h; simp [verifyLoop] at h
  | succ fuel ih =>
    intro B ss read hres
    rcases readShards_cl_inv B ss with h | ⟨_, h0⟩ | ⟨h, hcase⟩
    · simp [verifyLoop, h] at hres
    · intro s hs s' hs'; rw [h0 s hs, h0 s' hs']
    · simp only [verifyLoop, h] at hres
      split at hres
      · simp at hres
      · split at hres
        · simp at hres
        · rename_i hany
          split at hres
          · have hml := map_length_of_any_false _ _ (Bool.eq_false_iff.mpr hany)
            rw [hml] at hres
            simp only [List.length_map] at hres
            have := ih _ (ss.map (List.drop B)) _ (by simpa using hres)
            exact lengths_eq_of_drop B ss hcase this
          · simp at hres


/-! ## the verify loop on fault-free equal-length streams -/

/-- the in-memory `Verify` verdict is column-local: `d+p` rows that are row-wise concatenations are
consistent iff both parts are -/
structure VerLocal (C : BlockCodec) : Prop where
  app : ∀ (b₁ b₂ : List (List Nat)) (n₁ n₂ : Nat), b₁.length = C.d + C.p → b₂.length = C.d + C.p → 0 < n₁ → 0 < n₂ →
    (∀ b ∈ b₁, b.length = n₁) → (∀ b ∈ b₂, b.length = n₂) →
    C.verify (List.zipWith (· ++ ·) b₁ b₂) = (C.verify b₁ && C.verify b₂)

theorem verifyLoop_eof (C : BlockCodec) (fuel B : Nat) (hB : 0 < B) (ss : List (List Nat))
    (hne : ss ≠ []) (h0 : ∀ s ∈ ss, s.length = 0) (read : Nat) :
    verifyLoop C (fuel + 1) (List.replicate ss.length B) (cl ss) read =
      if read = 0 then (false, some .shardNoData) else (true, none) := by
  simp only [verifyLoop, readShards_cl_eof B hB ss hne h0]

theorem verifyLoop_step (C : BlockCodec) (fuel B n : Nat) (hB : 0 < B) (hn : 0 < n)
    (ss : List (List Nat)) (hne : ss ≠ []) (hlen : ∀ s ∈ ss, s.length = n) (read : Nat) :
    verifyLoop C (fuel + 1) (List.replicate ss.length B) (cl ss) read =
      if C.verify (ss.map (List.take B)) then
        verifyLoop C fuel (List.replicate ss.length (min B n)) (cl (ss.map (List.drop B))) (read + min B n)
      else (false, none) := by
  have hread : readShards (List.replicate ss.length B) (cl ss) =
      .ok (ss.map (List.take B)) (cl (ss.map (List.drop B))) := by
    by_cases hBn : B ≤ n
    · exact readShards_cl_full B ss (fun s hs => by rw [hlen s hs]; exact hBn)
    · exact readShards_cl_short B n (by omega) hn ss hlen
  have hbl : ∀ b ∈ ss.map (List.take B), b.length = min B n := by
    intro b hb
    obtain ⟨s, hs, rfl⟩ := List.mem_map.1 hb
    simp [hlen s hs]
  have hm : 0 < min B n := by omega
  have hne' : ss.map (List.take B) ≠ [] := by
    intro h; rw [List.map_eq_nil_iff] at h; exact hne h
  have hsz : shardSize (ss.map (List.take B)) = min B n := shardSize_all _ hm _ hne' hbl
  have hany : ((ss.map (List.take B)).any fun b => decide (b.length ≠ min B n)) = false := by
    rw [List.any_eq_false]
    intro b hb
    simp [hbl b hb]
  have hml : (ss.map (List.take B)).map List.length = List.replicate ss.length (min B n) := by
    have := map_length_of_any_false _ _ hany
    simpa using this
  have hm0 : ¬ min B n = 0 := by omega
  simp only [verifyLoop, hread, hsz, hm0, if_false, hany, hml]
  simp

theorem verifyLoop_clean (C : BlockCodec) (hC : VerLocal C) :
    ∀ (fuel B n : Nat), 0 < B → 0 < n → n / B + 2 ≤ fuel →
    ∀ (ss : List (List Nat)), ss ≠ [] → ss.length = C.d + C.p → (∀ s ∈ ss, s.length = n) →
    ∀ (read : Nat),
    verifyLoop C fuel (List.replicate ss.length B) (cl ss) read = (C.verify ss, none) := by
  intro fuel
  induction fuel with
  | zero => intro B n _ _ hf; exact absurd hf (Nat.not_succ_le_zero _)
  | succ fuel ih =>
    intro B n hB hn hf ss hne hd hlen read
    rw [verifyLoop_step C fuel B n hB hn ss hne hlen read]
    by_cases hBn : n ≤ B
    · have hmin : min B n = n := by omega
      have htake : ss.map (List.take B) = ss := map_take_of_le B ss (fun s hs => by rw [hlen s hs]; exact hBn)
      have hdrop0 : ∀ s ∈ ss.map (List.drop B), s.length = 0 := by
        intro b hb
        obtain ⟨s, hs, rfl⟩ := List.mem_map.1 hb
        simp [hlen s hs]; omega
      have h2 : 2 ≤ fuel + 1 := Nat.le_trans (Nat.le_add_left 2 _) hf
      obtain ⟨f, rfl⟩ : ∃ f, fuel = f + 1 := ⟨fuel - 1, by omega⟩
      have := verifyLoop_eof C f n hn (ss.map (List.drop B)) (by simpa using hne) hdrop0 (read + n)
      simp only [List.length_map] at this
      rw [hmin, this, htake]
      have : ¬ read + n = 0 := by omega
      rw [if_neg this]
      cases C.verify ss <;> simp
    · have hmin : min B n = B := by omega
      have hdropl : ∀ s ∈ ss.map (List.drop B), s.length = n - B := by
        intro b hb
        obtain ⟨s, hs, rfl⟩ := List.mem_map.1 hb
        simp [hlen s hs]
      have htakel : ∀ s ∈ ss.map (List.take B), s.length = B := by
        intro b hb
        obtain ⟨s, hs, rfl⟩ := List.mem_map.1 hb
        simp [hlen s hs]; omega
      have hdiv : n / B = (n - B) / B + 1 := Nat.div_eq_sub_div hB (by omega)
      have := ih B (n - B) hB (by omega) (by omega) (ss.map (List.drop B)) (by simpa using hne)
        (by simpa using hd) hdropl (read + B)
      simp only [List.length_map] at this
      have happ := hC.app _ _ B (n - B) (by simpa using hd) (by simpa using hd) hB (by omega) htakel hdropl
      rw [zipWith_take_drop] at happ
      rw [hmin, this, happ]
      cases C.verify (ss.map (List.take B)) <;> simp


/-! ## reader faults -/

/-- what a reader that delivers a full block contributes -/
def blkOf (l : Nat) (r : Option Rd) : List Nat := match r with | none => [] | some r => (readFull r l).1
def nextOf (l : Nat) (r : Option Rd) : Option Rd := match r with | none => none | some r => some (readFull r l).2.2

/-- a prefix of readers that all deliver full blocks (or are nil) -/
theorem readShardsAux_fullprefix : ∀ (lp : List Nat) (rp : List (Option Rd)), lp.length = rp.length →
    (∀ q ∈ lp.zip rp, ∀ r', q.2 = some r' → (readFull r' q.1).2.1 = .full) →
    ∀ (ls : List Nat) (rs : List (Option Rd)) (i : Nat) (size : Option Nat) (full : Bool) accB accR,
    readShardsAux (lp ++ ls) (rp ++ rs) i size full accB accR =
      readShardsAux ls rs (i + rp.length) size (full || rp.any Option.isSome)
        (accB ++ List.zipWith blkOf lp rp) (accR ++ List.zipWith nextOf lp rp)
  | [], [], _, _, ls, rs, i, size, full, accB, accR => by simp
  | l :: lp, none :: rp, hl, h, ls, rs, i, size, full, accB, accR => by
    have := readShardsAux_fullprefix lp rp (by simpa using hl)
      (fun q hq => h q (by simp only [List.zip_cons_cons]; exact List.mem_cons_of_mem _ hq))
      ls rs (i + 1) size full (accB ++ [[]]) (accR ++ [none])
    simp only [List.cons_append, readShardsAux, this]
    simp [blkOf, nextOf, Nat.add_assoc, Nat.add_comm 1]
  | l :: lp, some r :: rp, hl, h, ls, rs, i, size, full, accB, accR => by
    have hr : (readFull r l).2.1 = .full := h (l, some r) (by simp) r rfl
    have := readShardsAux_fullprefix lp rp (by simpa using hl)
      (fun q hq => h q (by simp only [List.zip_cons_cons]; exact List.mem_cons_of_mem _ hq))
      ls rs (i + 1) size true (accB ++ [(readFull r l).1]) (accR ++ [some (readFull r l).2.2])
    simp only [List.cons_append, readShardsAux]
    rcases hrf : readFull r l with ⟨got, oc, r'⟩
    rw [hrf] at hr this
    simp only at hr this
    subst hr
    simp only [this]
    simp [blkOf, nextOf, hrf, Nat.add_assoc, Nat.add_comm 1]

theorem readShardsAux_fault (l : Nat) (r : Rd) (h : (readFull r l).2.1 = .error)
    (ls : List Nat) (rs : List (Option Rd)) (i : Nat) (size : Option Nat) (full : Bool) accB accR :
    readShardsAux (l :: ls) (some r :: rs) i size full accB accR = .err (.read i) := by
  simp only [readShardsAux]
  rcases hrf : readFull r l with ⟨got, oc, r'⟩
  rw [hrf] at h
  simp only at h
  subst h
  rfl

theorem LensOK.replicate' (B : Nat) : ∀ (os : List (Option (List Nat))), LensOK B (List.replicate os.length B) os
  | [] => .nil
  | none :: os => by simpa [List.replicate_succ] using LensOK.consNone B (LensOK.replicate' B os)
  | some s :: os => by simpa [List.replicate_succ] using LensOK.consSome s (LensOK.replicate' B os)

/-- fault-free lower-index readers of one common remaining length, then a reader whose fault lies
inside the bytes it has to deliver: `StreamReadError{Stream: i}` -/
theorem readShardsAux_clean_then_fault (B n : Nat) {lens pre} (hl : LensOK B lens pre)
    (hpre : ∀ s, some s ∈ pre → s.length = n)
    (l : Nat) (r : Rd) (h : (readFull r l).2.1 = .error) (ls : List Nat) (rs : List (Option Rd)) :
    readShards (lens ++ l :: ls) (rdsOf pre ++ some r :: rs) = .err (.read pre.length) := by
  unfold readShards
  rw [readShardsAux_clean B hl]
  have hmem : ∀ k, some k ∈ pre.map (Option.map List.length) → k = n := by
    intro k hk
    obtain ⟨o, ho, hon⟩ := List.mem_map.1 hk
    cases o with
    | none => cases hon
    | some s => simp at hon; subst hon; exact hpre s ho
  by_cases hBn : B ≤ n
  · rw [scan_full B _ _ _ (fun k hk => by rw [hmem k hk]; exact hBn)]
    simp only [Nat.zero_add]
    exact readShardsAux_fault l r h ..
  · rw [scan_short B n (by omega) _ _ _ hmem (Or.inl rfl)]
    simp only [Nat.zero_add]
    exact readShardsAux_fault l r h ..

/-- lower-index readers that deliver full blocks, then a faulty reader -/
theorem readShards_full_then_fault (lp : List Nat) (rp : List (Option Rd)) (hl : lp.length = rp.length)
    (hfull : ∀ q ∈ lp.zip rp, ∀ r', q.2 = some r' → (readFull r' q.1).2.1 = .full)
    (l : Nat) (r : Rd) (h : (readFull r l).2.1 = .error) (ls : List Nat) (rs : List (Option Rd)) :
    readShards (lp ++ l :: ls) (rp ++ some r :: rs) = .err (.read rp.length) := by
  unfold readShards
  rw [readShardsAux_fullprefix lp rp hl hfull]
  simp only [Nat.zero_add]
  exact readShardsAux_fault l r h ..

/-! ## writer faults -/

theorem writeShardsSeq_prefix : ∀ (pre : List (Option (List Nat))) (bpre : List (List Nat)), pre.length = bpre.length →
    ∀ (ws : List (Option Wr)) (bs : List (List Nat)) (i : Nat) (acc : List (Option Wr)),
    writeShardsSeq (wsOf pre ++ ws) (bpre ++ bs) i acc =
      writeShardsSeq ws bs (i + pre.length) (acc ++ wsOf (appendO pre bpre))
  | [], [], _, ws, bs, i, acc => by simp [wsOf, appendO]
  | none :: pre, b :: bpre, h, ws, bs, i, acc => by
    have := writeShardsSeq_prefix pre bpre (by simpa using h) ws bs (i + 1) (acc ++ [none])
    simp only [wsOf, appendO] at this
    simp [wsOf, appendO, writeShardsSeq, this, Nat.add_assoc, Nat.add_comm 1]
  | some g :: pre, b :: bpre, h, ws, bs, i, acc => by
    have := writeShardsSeq_prefix pre bpre (by simpa using h) ws bs (i + 1) (acc ++ [some (wrOf (g ++ b))])
    simp only [wsOf, appendO] at this
    simp [wsOf, appendO, writeShardsSeq, this, writeTo_wrOf, Nat.add_assoc, Nat.add_comm 1]

theorem writeShardsConc_prefix : ∀ (pre : List (Option (List Nat))) (bpre : List (List Nat)), pre.length = bpre.length →
    ∀ (ws : List (Option Wr)) (bs : List (List Nat)) (i : Nat) (acc : List (Option Wr)) (e : Option Err),
    writeShardsConc (wsOf pre ++ ws) (bpre ++ bs) i acc e =
      writeShardsConc ws bs (i + pre.length) (acc ++ wsOf (appendO pre bpre)) e
  | [], [], _, ws, bs, i, acc, e => by simp [wsOf, appendO]
  | none :: pre, b :: bpre, h, ws, bs, i, acc, e => by
    have := writeShardsConc_prefix pre bpre (by simpa using h) ws bs (i + 1) (acc ++ [none]) e
    simp only [wsOf, appendO] at this
    simp [wsOf, appendO, writeShardsConc, this, Nat.add_assoc, Nat.add_comm 1]
  | some g :: pre, b :: bpre, h, ws, bs, i, acc, e => by
    have := writeShardsConc_prefix pre bpre (by simpa using h) ws bs (i + 1) (acc ++ [some (wrOf (g ++ b))]) e
    simp only [wsOf, appendO] at this
    simp [wsOf, appendO, writeShardsConc, this, writeTo_wrOf, Nat.add_assoc, Nat.add_comm 1]

theorem writeTo_limit (g : List Nat) (k : Nat) (short : Bool) (b : List Nat) (hk : k < b.length) :
    writeTo ⟨g, some k, short⟩ b = (⟨g ++ b.take k, some 0, short⟩, some short) := by
  have : ¬ b.length ≤ k := by omega
  simp [writeTo, this]

/-- sequential `writeShards`: fault-free writers, then writer `j` whose limit is below its block:
`StreamWriteError{Stream: j}`, the later writers receive nothing -/
theorem writeShards_seq_limit (pre : List (Option (List Nat))) (bpre : List (List Nat)) (hpre : pre.length = bpre.length)
    (g : List Nat) (k : Nat) (short : Bool) (b : List Nat) (hk : k < b.length)
    (rest : List (Option Wr)) (bpost : List (List Nat)) :
    writeShards false (wsOf pre ++ some ⟨g, some k, short⟩ :: rest) (bpre ++ b :: bpost) 0 [] =
      (wsOf (appendO pre bpre) ++ some ⟨g ++ b.take k, some 0, short⟩ :: rest,
       some (.write pre.length short)) := by
  simp [writeShards, writeShardsSeq_prefix pre bpre hpre, writeShardsSeq, writeTo_limit g k short b hk]

/-- concurrent `writeShards`: every other (fault-free) writer still receives its block -/
theorem writeShards_conc_limit (pre : List (Option (List Nat))) (bpre : List (List Nat)) (hpre : pre.length = bpre.length)
    (g : List Nat) (k : Nat) (short : Bool) (b : List Nat) (hk : k < b.length)
    (post : List (Option (List Nat))) (bpost : List (List Nat)) (hpost : post.length = bpost.length) :
    writeShards true (wsOf pre ++ some ⟨g, some k, short⟩ :: wsOf post) (bpre ++ b :: bpost) 0 [] =
      (wsOf (appendO pre bpre) ++ some ⟨g ++ b.take k, some 0, short⟩ :: wsOf (appendO post bpost),
       some (.write pre.length short)) := by
  simp [writeShards, writeShardsConc_prefix pre bpre hpre, writeShardsConc, writeTo_limit g k short b hk,
    writeShardsConc_clean _ _ _ _ _ hpost]


/-! ## blocks -/

theorem blocksOf_length (B : Nat) : ∀ (n : Nat) (s : List Nat), (blocksOf B n s).length = n
  | 0, _ => rfl
  | n + 1, s => by simp [blocksOf, blocksOf_length B n]

theorem blocksOf_flatten (B : Nat) : ∀ (n : Nat) (s : List Nat), (blocksOf B n s).flatten = s.take (n * B)
  | 0, s => by simp [blocksOf]
  | n + 1, s => by
    simp only [blocksOf, List.flatten_cons, blocksOf_flatten B n]
    rw [Nat.add_mul, Nat.one_mul, Nat.add_comm, List.take_add]

theorem blocksOf_getElem? (B : Nat) : ∀ (n : Nat) (s : List Nat) (i : Nat), i < n →
    (blocksOf B n s)[i]? = some (blockAt B i s)
  | 0, _, i, h => by omega
  | n + 1, s, 0, _ => by simp [blocksOf, blockAt]
  | n + 1, s, i + 1, h => by
    simp only [blocksOf, List.getElem?_cons_succ]
    rw [blocksOf_getElem? B n _ i (by omega)]
    simp [blockAt, Nat.add_mul, Nat.add_comm]

theorem blocksOf_append (B : Nat) : ∀ (m n : Nat) (s : List Nat),
    blocksOf B (m + n) s = blocksOf B m s ++ blocksOf B n (s.drop (m * B))
  | 0, n, s => by simp [blocksOf]
  | m + 1, n, s => by
    have : m + 1 + n = (m + n) + 1 := by omega
    rw [this]
    simp only [blocksOf, List.cons_append, blocksOf_append B m n]
    simp [Nat.add_mul, Nat.add_comm]

/-! ## stream Split -/

theorem pw_append (a b : List (List Nat)) : pw (a ++ b) = pw a ++ pw b := by simp [pw]

theorem findIdx?_isNone_eq_none {α} (l : List (Option α)) (h : ∀ x ∈ l, x.isSome = true) :
    l.findIdx? Option.isNone = none := by
  rw [List.findIdx?_eq_none_iff]
  intro x hx
  cases x with
  | none => have := h none hx; simp at this
  | some _ => simp

theorem findIdx?_pw (gs : List (List Nat)) : (pw gs).findIdx? Option.isNone = none := by
  apply findIdx?_isNone_eq_none
  intro x hx
  obtain ⟨g, _, rfl⟩ := List.mem_map.1 hx
  rfl

/-- the copy loop of `Split` over fault-free writers while the combined source has full chunks -/
theorem split_go_prefix (size ps : Nat) (got : List Nat) (oc : ReadOutcome) :
    ∀ (pre : List (List Nat)) (ws : List (Option Wr)) (av : List Nat) (i : Nat) (acc : List (Option Wr)),
    pre.length * ps ≤ av.length →
    split.go size ps got oc (pw pre ++ ws) av i acc =
      split.go size ps got oc ws (av.drop (pre.length * ps)) (i + pre.length)
        (acc ++ pw (List.zipWith (· ++ ·) pre (blocksOf ps pre.length av)))
  | [], ws, av, i, acc, _ => by simp [pw, blocksOf]
  | g :: pre, ws, av, i, acc, h => by
    have h' : (pre.length + 1) * ps ≤ av.length := by simpa using h
    rw [Nat.add_mul, Nat.one_mul] at h'
    have hps : ps ≤ av.length := by omega
    have hlen : (av.take ps).length = ps := by simp; omega
    have := split_go_prefix size ps got oc pre ws (av.drop ps) (i + 1) (acc ++ [some (wrOf (g ++ av.take ps))])
      (by simp; omega)
    simp only [pw, List.map_cons, List.cons_append, split.go, writeTo_wrOf, hlen, ne_eq, not_true_eq_false,
      if_false, List.length_cons, blocksOf, List.zipWith_cons_cons]
    simp only [pw] at this
    rw [this]
    simp [Nat.add_mul, Nat.add_assoc, Nat.add_comm 1, Nat.add_comm ps]

theorem split_go_clean (size ps : Nat) (got : List Nat) (oc : ReadOutcome) (gs : List (List Nat)) (av : List Nat)
    (h : gs.length * ps ≤ av.length) :
    split.go size ps got oc (pw gs) av 0 [] =
      ⟨if got.length ≠ size then some (if oc = .error then .rawRead else .shortData) else none,
       pw (List.zipWith (· ++ ·) gs (blocksOf ps gs.length av))⟩ := by
  have := split_go_prefix size ps got oc gs [] av 0 [] h
  simp only [List.append_nil, List.nil_append] at this
  rw [this]
  simp [split.go]

/-- whatever the combined source holds: with fault-free writers and a source that ended before `size`
bytes the copy loop reports the reader's error resp. `ErrShortData` -/
theorem split_go_short (size ps : Nat) (got : List Nat) (oc : ReadOutcome) (hgot : got.length ≠ size) :
    ∀ (gs : List (List Nat)) (av : List Nat) (i : Nat) (acc : List (Option Wr)),
    (split.go size ps got oc (pw gs) av i acc).err = some (if oc = .error then .rawRead else .shortData)
  | [], av, i, acc => by simp [pw, split.go, hgot]
  | g :: gs, av, i, acc => by
    simp only [pw, List.map_cons, split.go, writeTo_wrOf]
    split
    · rfl
    · exact split_go_short size ps got oc hgot gs _ _ _

theorem le_mul_ceil (size d : Nat) (hd : 0 < d) : size ≤ d * ((size + d - 1) / d) := by
  have h1 := Nat.div_add_mod (size + d - 1) d
  have h2 := Nat.mod_lt (size + d - 1) hd
  omega

/-! ## stream Join -/

theorem readFull_cleanRd (data : List Nat) (want : Nat) :
    readFull (cleanRd data) want =
      (data.take want,
       (if want ≤ data.length then ReadOutcome.full
        else if data = [] then ReadOutcome.eof else ReadOutcome.unexpectedEOF),
       cleanRd (data.drop want)) := readFull_clean data want

theorem gather_clean : ∀ (ss : List (List Nat)) (acc : List Nat) (need : Nat),
    join.gather (cl ss) acc need = (acc ++ ss.flatten.take need, false)
  | [], acc, need => by simp [cl, join.gather]
  | s :: ss, acc, need => by
    simp only [cl, List.map_cons, join.gather, readFull_cleanRd]
    by_cases hn : need = 0
    · simp [hn]
    · have ih := gather_clean ss (acc ++ s.take need) (need - (s.take need).length)
      simp only [cl] at ih
      have hoc : ¬ ((if need ≤ s.length then ReadOutcome.full
          else if s = [] then ReadOutcome.eof else ReadOutcome.unexpectedEOF) = ReadOutcome.error) := by
        split
        · simp
        · split <;> simp
      have : need - (s.take need).length = need - s.length := by simp; omega
      rw [this] at ih
      simp only [hn, if_false, hoc, List.flatten_cons, List.take_append, this, ih, List.append_assoc]

/-- fault-free readers that together hold fewer bytes than still needed are copied completely -/
theorem gather_prefix : ∀ (pre : List (List Nat)) (rs : List (Option Rd)) (acc : List Nat) (need : Nat),
    pre.flatten.length < need →
    join.gather (cl pre ++ rs) acc need = join.gather rs (acc ++ pre.flatten) (need - pre.flatten.length)
  | [], rs, acc, need, _ => by simp [cl]
  | s :: pre, rs, acc, need, h => by
    simp only [List.flatten_cons, List.length_append] at h
    have hn : ¬ need = 0 := by omega
    have hs : ¬ need ≤ s.length := by omega
    have hs' : s.length ≤ need := by omega
    have hoc : ¬ ((if s = [] then ReadOutcome.eof else ReadOutcome.unexpectedEOF) = ReadOutcome.error) := by
      split <;> simp
    have ih := gather_prefix pre rs (acc ++ s) (need - s.length) (by omega)
    simp only [cl] at ih
    simp only [cl, List.map_cons, List.cons_append, join.gather, readFull_cleanRd, hn, hs, if_false, hoc,
      List.take_of_length_le hs', ih, List.flatten_cons, List.length_append, List.append_assoc]
    congr 1
    omega

theorem findIdx?_cl (ss : List (List Nat)) : (cl ss).findIdx? Option.isNone = none := by
  apply findIdx?_isNone_eq_none
  intro x hx
  obtain ⟨g, _, rfl⟩ := List.mem_map.1 hx
  rfl


/-! ## stream Split / Join: the fault-free runs -/

theorem split_clean (d p : Nat) (hd : 0 < d) (data : List Nat) (size : Nat) (hs : 0 < size)
    (hlen : size ≤ data.length) (gs : List (List Nat)) (hg : gs.length = d) :
    split d p ⟨data, none⟩ (pw gs) size =
      ⟨none, pw (List.zipWith (· ++ ·) gs (blocksOf ((size + d - 1) / d) d
        (data.take size ++ List.replicate ((d + p) * ((size + d - 1) / d) - size) 0)))⟩ := by
  have h0 : ¬ size = 0 := by omega
  have h1 : ¬ (pw gs).length ≠ d := by simp [pw, hg]
  have hceil := le_mul_ceil size d hd
  have hmul : (d + p) * ((size + d - 1) / d) = d * ((size + d - 1) / d) + p * ((size + d - 1) / d) := Nat.add_mul ..
  have hav : gs.length * ((size + d - 1) / d) ≤
      (data.take size ++ List.replicate ((d + p) * ((size + d - 1) / d) - size) 0).length := by
    rw [hg]
    simp only [List.length_append, List.length_take, List.length_replicate]
    omega
  have hgo := split_go_clean size ((size + d - 1) / d) (data.take size) .full gs _ hav
  have hl : (data.take size).length = size := by simp; omega
  simp only [split, h0, h1, if_false, findIdx?_pw, readFull_clean, hlen, if_true]
  simp only [show ¬ (ReadOutcome.full = ReadOutcome.error) by simp, if_false]
  rw [hgo, hg]
  simp [hl]

theorem join_clean (d : Nat) (g : List Nat) (ss : List (List Nat)) (hd : ss.length = d) (extra : List (Option Rd))
    (outSize : Nat) :
    join d (wrOf g) (cl ss ++ extra) outSize =
      (if (ss.flatten.take outSize).length < outSize then some .shortData else none,
       wrOf (g ++ ss.flatten.take outSize)) := by
  have h1 : ¬ (cl ss ++ extra).length < d := by simp [cl, hd]
  have h2 : (cl ss ++ extra).take d = cl ss := by
    have : (cl ss).length = d := by simp [cl, hd]
    rw [← this, List.take_left]
  simp only [join, h1, if_false, h2, findIdx?_cl, gather_clean, List.nil_append, writeTo_wrOf]
  simp
  split <;> rfl


/-! ## a reader fault anywhere in the stream: the block loops report it -/

theorem zipWith_blkOf_cl (B : Nat) : ∀ (ss : List (List Nat)),
    List.zipWith blkOf (List.replicate ss.length B) (cl ss) = ss.map (List.take B)
  | [] => rfl
  | s :: ss => by
    have := zipWith_blkOf_cl B ss
    simp only [cl] at this
    simp [cl, List.replicate_succ, blkOf, readFull_cleanRd, this]

theorem zipWith_nextOf_cl (B : Nat) : ∀ (ss : List (List Nat)),
    List.zipWith nextOf (List.replicate ss.length B) (cl ss) = cl (ss.map (List.drop B))
  | [] => rfl
  | s :: ss => by
    have := zipWith_nextOf_cl B ss
    simp only [cl] at this
    simp [cl, List.replicate_succ, nextOf, readFull_cleanRd, this]

theorem replicate_split (a b B : Nat) :
    List.replicate (a + 1 + b) B = List.replicate a B ++ B :: List.replicate b B := by
  rw [← List.replicate_succ, List.replicate_append_replicate]; congr 1; omega

/-- all streams hold a full block and the fault of the one faulty reader lies beyond it -/
theorem readShards_mix_full (B : Nat) (pre post : List (List Nat)) (data : List Nat) (k : Nat)
    (hpre : ∀ s ∈ pre, B ≤ s.length) (hpost : ∀ s ∈ post, B ≤ s.length) (hdata : B ≤ data.length) (hk : B ≤ k) :
    readShards (List.replicate (pre.length + 1 + post.length) B) (cl pre ++ some ⟨data, some k⟩ :: cl post) =
      .ok ((pre ++ data :: post).map (List.take B))
        (cl (pre.map (List.drop B)) ++ some ⟨data.drop B, some (k - B)⟩ :: cl (post.map (List.drop B))) := by
  have hfd : readFull ⟨data, some k⟩ B = (data.take B, .full, ⟨data.drop B, some (k - B)⟩) := by
    have := readFull_full ⟨data, some k⟩ B hdata (by intro k' hk'; cases hk'; exact hk)
    simpa using this
  have hall : ∀ q ∈ (List.replicate (pre.length + 1 + post.length) B).zip (cl pre ++ some ⟨data, some k⟩ :: cl post),
      ∀ r', q.2 = some r' → (readFull r' q.1).2.1 = .full := by
    intro q hq r' hr'
    have h1 : q.1 = B := List.eq_of_mem_replicate (List.of_mem_zip hq).1
    have h2 := (List.of_mem_zip hq).2
    rw [h1]
    rcases List.mem_append.1 h2 with h2 | h2
    · obtain ⟨s, hs, hsq⟩ := List.mem_map.1 h2
      rw [← hsq] at hr'; cases hr'
      simp [readFull_cleanRd, hpre s hs]
    · rcases List.mem_cons.1 h2 with h2 | h2
      · rw [h2] at hr'; cases hr'
        rw [hfd]
      · obtain ⟨s, hs, hsq⟩ := List.mem_map.1 h2
        rw [← hsq] at hr'; cases hr'
        simp [readFull_cleanRd, hpost s hs]
  have := readShardsAux_fullprefix (List.replicate (pre.length + 1 + post.length) B)
    (cl pre ++ some ⟨data, some k⟩ :: cl post) (by simp [cl]; omega) hall [] [] 0 none false [] []
  simp only [List.append_nil, List.nil_append, readShardsAux_nil] at this
  unfold readShards
  rw [this]
  have hz1 : List.zipWith blkOf (List.replicate (pre.length + 1 + post.length) B)
      (cl pre ++ some ⟨data, some k⟩ :: cl post) = (pre ++ data :: post).map (List.take B) := by
    rw [replicate_split, List.zipWith_append (by simp [cl]), List.zipWith_cons_cons, zipWith_blkOf_cl,
      zipWith_blkOf_cl]
    simp [blkOf, hfd]
  have hz2 : List.zipWith nextOf (List.replicate (pre.length + 1 + post.length) B)
      (cl pre ++ some ⟨data, some k⟩ :: cl post) =
      cl (pre.map (List.drop B)) ++ some ⟨data.drop B, some (k - B)⟩ :: cl (post.map (List.drop B)) := by
    rw [replicate_split, List.zipWith_append (by simp [cl]), List.zipWith_cons_cons, zipWith_nextOf_cl,
      zipWith_nextOf_cl]
    simp [nextOf, hfd]
  rw [hz1, hz2]
  simp [fin]

theorem readShards_mix_fault (B n : Nat) (pre post : List (List Nat)) (data : List Nat) (k : Nat)
    (hpre : ∀ s ∈ pre, s.length = n) (hk : k < B) (hk' : k ≤ data.length) :
    readShards (List.replicate (pre.length + 1 + post.length) B) (cl pre ++ some ⟨data, some k⟩ :: cl post) =
      .err (.read pre.length) := by
  rw [replicate_split]
  have := readShardsAux_clean_then_fault B n (LensOK.replicate B pre) (by simpa using hpre) B ⟨data, some k⟩
    (by rw [readFull_fault data k B hk hk']) (List.replicate post.length B) (cl post)
  rw [rdsOf_map_some] at this
  simpa using this

/-- `Encode`: equal-length streams, one reader with a fault at position `k < n`, fault-free parity
writers: the loop ends with `StreamReadError{Stream: i}` -/
theorem encodeLoop_fault (C : BlockCodec) (hC : EncLocal C) (conc : Bool) :
    ∀ (fuel B n k : Nat), 0 < B → k < n → k / B + 1 ≤ fuel →
    ∀ (pre post : List (List Nat)) (data : List Nat), pre.length + 1 + post.length = C.d →
    (∀ s ∈ pre, s.length = n) → (∀ s ∈ post, s.length = n) → data.length = n →
    ∀ (gs : List (List Nat)), gs.length = C.p → ∀ (read : Nat),
    (encodeLoop C conc fuel (List.replicate (pre.length + 1 + post.length) B)
      (cl pre ++ some ⟨data, some k⟩ :: cl post) (pw gs) read).err = some (.read pre.length) := by
  intro fuel
  induction fuel with
  | zero => intro B n k _ _ hf; exact absurd hf (Nat.not_succ_le_zero _)
  | succ fuel ih =>
    intro B n k hB hkn hf pre post data hd hpre hpost hdata gs hp read
    by_cases hkB : k < B
    · simp only [encodeLoop, readShards_mix_fault B n pre post data k hpre hkB (by omega)]
    · have hBk : B ≤ k := by omega
      have hread := readShards_mix_full B pre post data k (fun s hs => by rw [hpre s hs]; omega)
        (fun s hs => by rw [hpost s hs]; omega) (by omega) hBk
      have hbl : ∀ b ∈ (pre ++ data :: post).map (List.take B), b.length = B := by
        intro b hb
        obtain ⟨s, hs, rfl⟩ := List.mem_map.1 hb
        have : s.length = n := by
          rcases List.mem_append.1 hs with hs | hs
          · exact hpre s hs
          · rcases List.mem_cons.1 hs with rfl | hs
            · exact hdata
            · exact hpost s hs
        simp [this]; omega
      have hne : (pre ++ data :: post).map (List.take B) ≠ [] := by simp
      have hsz : shardSize ((pre ++ data :: post).map (List.take B)) = B := shardSize_all _ hB _ hne hbl
      have hany : (((pre ++ data :: post).map (List.take B)).any fun b => decide (b.length ≠ B)) = false := by
        rw [List.any_eq_false]
        intro b hb
        simp [hbl b hb]
      have hlen' : ((pre ++ data :: post).map (List.take B)).length = C.d := by simp; omega
      have hplen : gs.length = (C.encode ((pre ++ data :: post).map (List.take B))).length := by
        rw [hp, hC.len _ B hlen' hB hbl]
      have hw := writeShards_clean conc (gs.map some) (C.encode ((pre ++ data :: post).map (List.take B)))
        (by simpa using hplen)
      rw [wsOf_map_some, appendO_map_some, wsOf_map_some] at hw
      have hml : ((pre ++ data :: post).map (List.take B)).map List.length =
          List.replicate (pre.length + 1 + post.length) B := by
        have := map_length_of_any_false _ _ hany
        rw [this]; congr 1; simp; omega
      have hB0 : ¬ B = 0 := by omega
      simp only [encodeLoop, hread, hsz, hB0, if_false, hany, hw, hml]
      have hdiv : k / B = (k - B) / B + 1 := Nat.div_eq_sub_div hB hBk
      have := ih B (n - B) (k - B) hB (by omega) (by omega) (pre.map (List.drop B)) (post.map (List.drop B))
        (data.drop B) (by simpa using hd)
        (by intro s hs; obtain ⟨s', hs', rfl⟩ := List.mem_map.1 hs; simp [hpre s' hs'])
        (by intro s hs; obtain ⟨s', hs', rfl⟩ := List.mem_map.1 hs; simp [hpost s' hs'])
        (by simp [hdata]) (List.zipWith (· ++ ·) gs (C.encode ((pre ++ data :: post).map (List.take B))))
        (by rw [List.length_zipWith, ← hplen, Nat.min_self, hp]) (read + B)
      simpa using this

/-- `Verify` with a reader fault at position `k < n`: the verdict is never `true` -/
theorem verifyLoop_fault (C : BlockCodec) :
    ∀ (fuel B n k : Nat), 0 < B → k < n →
    ∀ (pre post : List (List Nat)) (data : List Nat),
    (∀ s ∈ pre, s.length = n) → (∀ s ∈ post, s.length = n) → data.length = n → ∀ (read : Nat),
    verifyLoop C fuel (List.replicate (pre.length + 1 + post.length) B)
        (cl pre ++ some ⟨data, some k⟩ :: cl post) read = (false, some (.read pre.length)) ∨
    verifyLoop C fuel (List.replicate (pre.length + 1 + post.length) B)
        (cl pre ++ some ⟨data, some k⟩ :: cl post) read = (false, none) ∨
    verifyLoop C fuel (List.replicate (pre.length + 1 + post.length) B)
        (cl pre ++ some ⟨data, some k⟩ :: cl post) read = (false, some (.codec 999)) := by
  intro fuel
  induction fuel with
  | zero => intro B n k _ _ pre post data _ _ _ read; exact Or.inr (Or.inr rfl)
  | succ fuel ih =>
    intro B n k hB hkn pre post data hpre hpost hdata read
    by_cases hkB : k < B
    · left
      simp only [verifyLoop, readShards_mix_fault B n pre post data k hpre hkB (by omega)]
    · have hBk : B ≤ k := by omega
      have hread := readShards_mix_full B pre post data k (fun s hs => by rw [hpre s hs]; omega)
        (fun s hs => by rw [hpost s hs]; omega) (by omega) hBk
      have hbl : ∀ b ∈ (pre ++ data :: post).map (List.take B), b.length = B := by
        intro b hb
        obtain ⟨s, hs, rfl⟩ := List.mem_map.1 hb
        have : s.length = n := by
          rcases List.mem_append.1 hs with hs | hs
          · exact hpre s hs
          · rcases List.mem_cons.1 hs with rfl | hs
            · exact hdata
            · exact hpost s hs
        simp [this]; omega
      have hne : (pre ++ data :: post).map (List.take B) ≠ [] := by simp
      have hsz : shardSize ((pre ++ data :: post).map (List.take B)) = B := shardSize_all _ hB _ hne hbl
      have hany : (((pre ++ data :: post).map (List.take B)).any fun b => decide (b.length ≠ B)) = false := by
        rw [List.any_eq_false]
        intro b hb
        simp [hbl b hb]
      have hml : ((pre ++ data :: post).map (List.take B)).map List.length =
          List.replicate (pre.length + 1 + post.length) B := by
        have := map_length_of_any_false _ _ hany
        rw [this]; congr 1; simp; omega
      have hB0 : ¬ B = 0 := by omega
      simp only [verifyLoop, hread, hsz, hB0, if_false, hany, hml]
      cases C.verify ((pre ++ data :: post).map (List.take B)) with
      | false => exact Or.inr (Or.inl rfl)
      | true =>
        have := ih B (n - B) (k - B) hB (by omega) (pre.map (List.drop B)) (post.map (List.drop B))
          (data.drop B)
          (by intro s hs; obtain ⟨s', hs', rfl⟩ := List.mem_map.1 hs; simp [hpre s' hs'])
          (by intro s hs; obtain ⟨s', hs', rfl⟩ := List.mem_map.1 hs; simp [hpost s' hs'])
          (by simp [hdata]) (read + B)
        simpa using this


/-! ## the reconstruct loop on fault-free streams -/

/-- keep the rows at the wanted indices -/
def maskRows (want : List Bool) (rows : List (List Nat)) : List (Option (List Nat)) :=
  List.zipWith (fun w r => if w then some r else none) want rows

theorem maskRows_length (want : List Bool) (rows : List (List Nat)) (h : rows.length = want.length) :
    (maskRows want rows).length = want.length := by simp [maskRows, h]

theorem appendO_mask_congr : ∀ (want : List Bool) (gs full w : List (List Nat)),
    gs.length = want.length → full.length = want.length → w.length = want.length →
    maskRows want full = maskRows want w →
    appendO (maskRows want gs) full = maskRows want (List.zipWith (· ++ ·) gs w)
  | [], _, _, _, _, _, _, _ => by simp [maskRows, appendO]
  | b :: want, g :: gs, f :: full, x :: w, hg, hf, hw, h => by
    simp only [maskRows, List.zipWith_cons_cons, List.cons.injEq] at h
    have ih := appendO_mask_congr want gs full w (by simpa using hg) (by simpa using hf) (by simpa using hw) h.2
    simp only [maskRows, appendO] at ih
    simp only [maskRows, appendO, List.zipWith_cons_cons, ih, List.cons.injEq, and_true]
    cases b
    · simp
    · have := h.1; simp at this; simp [this]
  | _ :: _, [], _, _, hg, _, _, _ => by simp at hg
  | _ :: _, _ :: _, [], _, _, hf, _, _ => by simp at hf
  | _ :: _, _ :: _, _ :: _, [], _, _, hw, _ => by simp at hw

/-- in-memory `Reconstruct` works on every column window `[a, a+b)` of the shards: given the present
windows (`[]` for the absent ones) it returns `want.length` rows which, at the wanted indices, are the
windows of the original shards -/
def RecOK (C : BlockCodec) (dataOnly : Bool) (want : List Bool) (os : List (Option (List Nat)))
    (orig : List (List Nat)) (n : Nat) : Prop :=
  ∀ a b, 0 < b → a + b ≤ n → ∃ full, C.reconstruct (takeB b (dropB a os)) dataOnly = .ok full ∧
    full.length = want.length ∧
    maskRows want full = maskRows want (orig.map fun s => (s.drop a).take b)

theorem RecOK.shift {C dataOnly want os orig n} (h : RecOK C dataOnly want os orig n) (B : Nat) (hB : B ≤ n) :
    RecOK C dataOnly want (dropB B os) (orig.map (List.drop B)) (n - B) := by
  intro a b hb hab
  obtain ⟨full, h1, h2, h3⟩ := h (B + a) b hb (by omega)
  refine ⟨full, ?_, h2, ?_⟩
  · have : dropB a (dropB B os) = dropB (B + a) os := by
      simp only [dropB, List.map_map]
      congr 1
      funext o
      cases o <;> simp [List.drop_drop]
    rw [this]; exact h1
  · rw [h3, List.map_map]
    congr 2
    funext s
    simp [List.drop_drop]

theorem takeB_min (B n : Nat) (os : List (Option (List Nat))) (h : ∀ s, some s ∈ os → s.length = n) :
    takeB B os = takeB (min B n) os := by
  induction os with
  | nil => rfl
  | cons o os ih =>
    have ih' := ih (fun s hs => h s (List.mem_cons_of_mem _ hs))
    simp only [takeB] at ih'
    cases o with
    | none => simp [takeB, ih']
    | some s =>
      have hs := h s (List.mem_cons_self ..)
      simp only [takeB, List.map_cons, Option.map_some, Option.getD_some, ih', List.cons.injEq, and_true]
      by_cases hBn : B ≤ n
      · rw [Nat.min_eq_left hBn]
      · rw [Nat.min_eq_right (by omega), List.take_of_length_le (by omega), List.take_of_length_le (by omega)]

theorem dropB_zero (os : List (Option (List Nat))) : dropB 0 os = os := by
  simp only [dropB]
  conv => rhs; rw [← List.map_id os]
  congr 1
  funext o
  cases o <;> simp

theorem nextLens_ok (B' B m : Nat) (hm : m ≠ 0) : ∀ (os : List (Option (List Nat))),
    (∀ s, some s ∈ os → (s.take B').length = m) →
    LensOK m (((takeB B' os).zip (List.replicate (takeB B' os).length B)).map
      fun (b, bb) => if b.length = 0 then bb else b.length) (dropB B' os)
  | [], _ => .nil
  | none :: os, h => by
    have ih := nextLens_ok B' B m hm os (fun s hs => h s (List.mem_cons_of_mem _ hs))
    simp only [takeB, dropB] at ih
    simp only [takeB, dropB, List.map_cons, Option.map_none, Option.getD_none, List.length_cons,
      List.replicate_succ, List.zip_cons_cons, List.length_nil, if_true]
    exact LensOK.consNone B ih
  | some s :: os, h => by
    have ih := nextLens_ok B' B m hm os (fun s hs => h s (List.mem_cons_of_mem _ hs))
    have hs := h s (List.mem_cons_self ..)
    simp only [takeB, dropB] at ih
    simp only [takeB, dropB, List.map_cons, Option.map_some, Option.getD_some, List.length_cons,
      List.replicate_succ, List.zip_cons_cons, hs, hm, if_false]
    exact LensOK.consSome _ ih

theorem takeB_blocks (B m : Nat) (os : List (Option (List Nat))) (h : ∀ s, some s ∈ os → (s.take B).length = m) :
    ∀ b ∈ takeB B os, b.length = 0 ∨ b.length = m := by
  intro b hb
  obtain ⟨o, ho, rfl⟩ := List.mem_map.1 hb
  cases o with
  | none => left; rfl
  | some s => right; exact h s ho

theorem reconLoop_eof (C : BlockCodec) (conc dataOnly : Bool) (B fuel B' : Nat) (hB' : 0 < B')
    {lens os} (hl : LensOK B' lens os) (h0 : ∀ s, some s ∈ os → s.length = 0) (hex : ∃ s, some s ∈ os)
    (ws : List (Option Wr)) (read : Nat) :
    reconLoop C conc dataOnly B (fuel + 1) lens (rdsOf os) ws read =
      ⟨if read = 0 then some .shardNoData else none, ws⟩ := by
  simp only [reconLoop, readShards_clean_eof B' hB' hl h0 hex]

theorem reconLoop_step (C : BlockCodec) (conc dataOnly : Bool) (B fuel B' n : Nat) (hB' : 0 < B') (hn : 0 < n)
    (want : List Bool) {lens os} (hl : LensOK B' lens os) (hlen : ∀ s, some s ∈ os → s.length = n)
    (hex : ∃ s, some s ∈ os) (orig gs : List (List Nat)) (ho : orig.length = want.length)
    (hg : gs.length = want.length) (hrec : RecOK C dataOnly want os orig n) (read : Nat) :
    ∃ lens', LensOK (min B' n) lens' (dropB B' os) ∧
    reconLoop C conc dataOnly B (fuel + 1) lens (rdsOf os) (wsOf (maskRows want gs)) read =
      reconLoop C conc dataOnly B fuel lens' (rdsOf (dropB B' os))
        (wsOf (maskRows want (List.zipWith (· ++ ·) gs (orig.map (List.take (min B' n)))))) (read + min B' n) := by
  have hm : 0 < min B' n := by omega
  have hm0 : ¬ min B' n = 0 := by omega
  have htl : ∀ s, some s ∈ os → (s.take B').length = min B' n := by
    intro s hs; simp [hlen s hs]
  have hread : readShards lens (rdsOf os) = .ok (takeB B' os) (rdsOf (dropB B' os)) := by
    by_cases hBn : B' ≤ n
    · exact readShards_clean_full B' hl (fun s hs => by rw [hlen s hs]; exact hBn)
    · exact readShards_clean_short B' n (by omega) hn hl hlen
  have hbl := takeB_blocks B' (min B' n) os htl
  have hsz : shardSize (takeB B' os) = min B' n := by
    apply shardSize_eq _ _ hbl
    obtain ⟨s, hs⟩ := hex
    exact ⟨s.take B', List.mem_map.2 ⟨some s, hs, rfl⟩, by rw [htl s hs]; exact hm0⟩
  have hany : ((takeB B' os).any fun b => decide (b.length ≠ 0) && decide (b.length ≠ min B' n)) = false := by
    rw [List.any_eq_false]
    intro b hb
    rcases hbl b hb with h | h <;> simp [h]
  obtain ⟨full, hfull, hfl, hmask⟩ := hrec 0 (min B' n) hm (by omega)
  rw [dropB_zero, ← takeB_min B' n os hlen] at hfull
  have hmask' : maskRows want full = maskRows want (orig.map (List.take (min B' n))) := by
    rw [hmask]; simp
  have hw := writeShards_clean conc (maskRows want gs) full (by rw [maskRows_length _ _ hg, hfl])
  rw [appendO_mask_congr want gs full _ hg hfl (by simpa using ho) hmask'] at hw
  refine ⟨_, nextLens_ok B' B (min B' n) hm0 os htl, ?_⟩
  simp only [reconLoop, hread, hsz, hm0, if_false, hany, hfull, hw]
  simp

theorem reconLoop_clean (C : BlockCodec) (conc dataOnly : Bool) (B : Nat) (want : List Bool) :
    ∀ (fuel B' n : Nat), 0 < B' → 0 < n → n / B' + 2 ≤ fuel →
    ∀ (lens : List Nat) (os : List (Option (List Nat))), LensOK B' lens os →
    (∀ s, some s ∈ os → s.length = n) → (∃ s, some s ∈ os) →
    ∀ (orig gs : List (List Nat)), orig.length = want.length → (∀ r ∈ orig, r.length = n) →
    gs.length = want.length → RecOK C dataOnly want os orig n → ∀ (read : Nat),
    reconLoop C conc dataOnly B fuel lens (rdsOf os) (wsOf (maskRows want gs)) read =
      ⟨none, wsOf (maskRows want (List.zipWith (· ++ ·) gs orig))⟩ := by
  intro fuel
  induction fuel with
  | zero => intro B' n _ _ hf; exact absurd hf (Nat.not_succ_le_zero _)
  | succ fuel ih =>
    intro B' n hB' hn hf lens os hl hlen hex orig gs ho horig hg hrec read
    obtain ⟨lens', hl', hstep⟩ := reconLoop_step C conc dataOnly B fuel B' n hB' hn want hl hlen hex orig gs ho hg
      hrec read
    rw [hstep]
    have hex' : ∃ s, some s ∈ dropB B' os := by
      obtain ⟨s, hs⟩ := hex
      exact ⟨s.drop B', List.mem_map.2 ⟨some s, hs, rfl⟩⟩
    have hdl : ∀ s, some s ∈ dropB B' os → s.length = n - B' := by
      intro s hs
      obtain ⟨o, ho', hos⟩ := List.mem_map.1 hs
      cases o with
      | none => cases hos
      | some s' => simp at hos; subst hos; simp [hlen s' ho']
    by_cases hBn : n ≤ B'
    · have hmin : min B' n = n := by omega
      have htake : orig.map (List.take n) = orig :=
        map_take_of_le n orig (fun s hs => by rw [horig s hs]; exact Nat.le_refl _)
      have h2 : 2 ≤ fuel + 1 := Nat.le_trans (Nat.le_add_left 2 _) hf
      obtain ⟨f, rfl⟩ : ∃ f, fuel = f + 1 := ⟨fuel - 1, by omega⟩
      rw [hmin] at hl' ⊢
      rw [reconLoop_eof C conc dataOnly B f n hn hl' (fun s hs => by rw [hdl s hs]; omega) hex', htake]
      have : ¬ read + n = 0 := by omega
      rw [if_neg this]
    · have hmin : min B' n = B' := by omega
      have hdiv : n / B' = (n - B') / B' + 1 := Nat.div_eq_sub_div hB' (by omega)
      rw [hmin] at hl' ⊢
      rw [ih B' (n - B') hB' (by omega) (by omega) lens' (dropB B' os) hl' hdl hex'
        (orig.map (List.drop B')) _ (by simpa using ho)
        (by intro r hr; obtain ⟨r', hr', rfl⟩ := List.mem_map.1 hr; simp [horig r' hr'])
        (by rw [List.length_zipWith]; simp [hg, ho])
        (hrec.shift B' (by omega)) (read + B'),
        zipWith_append_assoc, zipWith_take_drop]


/-! ## a toy codec (2 data + 1 xor parity) showing that the locality hypotheses are satisfiable -/

def toy : BlockCodec where
  d := 2
  p := 1
  encode := fun b => match b with
    | [x, y] => [List.zipWith (· ^^^ ·) x y]
    | _ => [[]]
  verify := fun b => match b with
    | [x, y, z] => decide (List.zipWith (· ^^^ ·) x y = z)
    | _ => false
  reconstruct := fun b _ => match b with
    | [x, y, z] => .ok [if x.length = 0 then List.zipWith (· ^^^ ·) y z else x,
                        if y.length = 0 then List.zipWith (· ^^^ ·) x z else y,
                        if z.length = 0 then List.zipWith (· ^^^ ·) x y else z]
    | _ => .error 1

theorem toy_encLocal : EncLocal toy where
  len := by
    intro blocks n hl _ _
    match blocks, hl with
    | [x, y], _ => rfl
  app := by
    intro b₁ b₂ n₁ n₂ h1 h2 _ _ hl1 _
    match b₁, h1, b₂, h2 with
    | [x₁, y₁], _, [x₂, y₂], _ =>
      have hx : x₁.length = y₁.length := by rw [hl1 x₁ (by simp), hl1 y₁ (by simp)]
      simp [toy, List.zipWith_append hx]

theorem toy_verLocal : VerLocal toy where
  app := by
    intro b₁ b₂ n₁ n₂ h1 h2 _ _ hl1 _
    match b₁, h1, b₂, h2 with
    | [x₁, y₁, z₁], _, [x₂, y₂, z₂], _ =>
      have hx : x₁.length = y₁.length := by rw [hl1 x₁ (by simp), hl1 y₁ (by simp)]
      have hz : (List.zipWith (· ^^^ ·) x₁ y₁).length = z₁.length := by
        rw [List.length_zipWith, hl1 x₁ (by simp), hl1 y₁ (by simp), hl1 z₁ (by simp), Nat.min_self]
      simp only [toy, List.zipWith_cons_cons, List.zipWith_nil_right, List.zipWith_append hx]
      by_cases h : List.zipWith (· ^^^ ·) x₁ y₁ ++ List.zipWith (· ^^^ ·) x₂ y₂ = z₁ ++ z₂
      · have := List.append_inj h hz
        simp [this.1, this.2]
      · have : ¬ (List.zipWith (· ^^^ ·) x₁ y₁ = z₁ ∧ List.zipWith (· ^^^ ·) x₂ y₂ = z₂) := by
          rintro ⟨e1, e2⟩; exact h (by rw [e1, e2])
        simp only [h, decide_false]
        by_cases e1 : List.zipWith (· ^^^ ·) x₁ y₁ = z₁
        · have e2 : ¬ List.zipWith (· ^^^ ·) x₂ y₂ = z₂ := fun e2 => this ⟨e1, e2⟩
          simp [e2]
        · simp [e1]

end RSV.Proofs.Streams
