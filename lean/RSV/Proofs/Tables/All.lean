import RSV.Proofs.Tables.Mul00
import RSV.Proofs.Tables.Gfni00
import RSV.Proofs.Tables.Mul01
import RSV.Proofs.Tables.Gfni01
import RSV.Proofs.Tables.Mul02
import RSV.Proofs.Tables.Gfni02
import RSV.Proofs.Tables.Mul03
import RSV.Proofs.Tables.Gfni03
import RSV.Proofs.Tables.Mul04
import RSV.Proofs.Tables.Gfni04
import RSV.Proofs.Tables.Mul05
import RSV.Proofs.Tables.Gfni05
import RSV.Proofs.Tables.Mul06
import RSV.Proofs.Tables.Gfni06
import RSV.Proofs.Tables.Mul07
import RSV.Proofs.Tables.Gfni07
import RSV.Proofs.Tables.Mul08
import RSV.Proofs.Tables.Gfni08
import RSV.Proofs.Tables.Mul09
import RSV.Proofs.Tables.Gfni09
import RSV.Proofs.Tables.Mul10
import RSV.Proofs.Tables.Gfni10
import RSV.Proofs.Tables.Mul11
import RSV.Proofs.Tables.Gfni11
import RSV.Proofs.Tables.Mul12
import RSV.Proofs.Tables.Gfni12
import RSV.Proofs.Tables.Mul13
import RSV.Proofs.Tables.Gfni13
import RSV.Proofs.Tables.Mul14
import RSV.Proofs.Tables.Gfni14
import RSV.Proofs.Tables.Mul15
import RSV.Proofs.Tables.Gfni15
import RSV.Proofs.Tables.Small
/-! assembles the per-chunk kernel evaluations into statements about whole tables -/
namespace RSV.Tables
open RSV RSV.Gen

theorem mulTable_ok (a b : Nat) (ha : a < 256) (hb : b < 256) : byteAt (mulTableRows[a]!) b = gmul a b := by
  have h : a = 16 * (a / 16) + a % 16 := by omega
  have hm : a % 16 < 16 := Nat.mod_lt _ (by decide)
  have hq : a / 16 < 16 := by omega
  generalize a / 16 = q at h hq
  generalize a % 16 = r at h hm
  subst h
  match q, hq with
  | 0, _ => exact mulTable_rows_00 r hm b hb
  | 1, _ => exact mulTable_rows_01 r hm b hb
  | 2, _ => exact mulTable_rows_02 r hm b hb
  | 3, _ => exact mulTable_rows_03 r hm b hb
  | 4, _ => exact mulTable_rows_04 r hm b hb
  | 5, _ => exact mulTable_rows_05 r hm b hb
  | 6, _ => exact mulTable_rows_06 r hm b hb
  | 7, _ => exact mulTable_rows_07 r hm b hb
  | 8, _ => exact mulTable_rows_08 r hm b hb
  | 9, _ => exact mulTable_rows_09 r hm b hb
  | 10, _ => exact mulTable_rows_10 r hm b hb
  | 11, _ => exact mulTable_rows_11 r hm b hb
  | 12, _ => exact mulTable_rows_12 r hm b hb
  | 13, _ => exact mulTable_rows_13 r hm b hb
  | 14, _ => exact mulTable_rows_14 r hm b hb
  | 15, _ => exact mulTable_rows_15 r hm b hb
  | n+16, h => exact absurd h (by omega)

theorem gfni_ok (a x : Nat) (ha : a < 256) (hx : x < 256) :
    affineByte (wordAt gf2p811dMulMatrices a) x = gmul a x := by
  have h : a = 16 * (a / 16) + a % 16 := by omega
  have hm : a % 16 < 16 := Nat.mod_lt _ (by decide)
  have hq : a / 16 < 16 := by omega
  generalize a / 16 = q at h hq
  generalize a % 16 = r at h hm
  subst h
  match q, hq with
  | 0, _ => exact gfni_rows_00 r hm x hx
  | 1, _ => exact gfni_rows_01 r hm x hx
  | 2, _ => exact gfni_rows_02 r hm x hx
  | 3, _ => exact gfni_rows_03 r hm x hx
  | 4, _ => exact gfni_rows_04 r hm x hx
  | 5, _ => exact gfni_rows_05 r hm x hx
  | 6, _ => exact gfni_rows_06 r hm x hx
  | 7, _ => exact gfni_rows_07 r hm x hx
  | 8, _ => exact gfni_rows_08 r hm x hx
  | 9, _ => exact gfni_rows_09 r hm x hx
  | 10, _ => exact gfni_rows_10 r hm x hx
  | 11, _ => exact gfni_rows_11 r hm x hx
  | 12, _ => exact gfni_rows_12 r hm x hx
  | 13, _ => exact gfni_rows_13 r hm x hx
  | 14, _ => exact gfni_rows_14 r hm x hx
  | 15, _ => exact gfni_rows_15 r hm x hx
  | n+16, h => exact absurd h (by omega)

end RSV.Tables
