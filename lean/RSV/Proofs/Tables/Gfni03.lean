import RSV.Spec.GF256
import RSV.Spec.Lanes
import RSV.Gen.Tables
/-! kernel evaluation: the regenerated GFNI bit-matrices 48..63, applied with the
GF2P8AFFINEQB byte semantics, multiply by the coefficient -/
namespace RSV.Tables
open RSV RSV.Gen
set_option maxRecDepth 100000 in
theorem gfni_rows_03 : ∀ a, a < 16 → ∀ x, x < 256 →
    affineByte (wordAt gf2p811dMulMatrices (48 + a)) x = gmul (48 + a) x := by decide +kernel
end RSV.Tables
