import RSV.Spec.GF256
import RSV.Gen.Tables
/-! kernel evaluation: rows 0..15 of the regenerated `mulTable` equal shift-and-reduce products -/
namespace RSV.Tables
open RSV RSV.Gen
set_option maxRecDepth 100000 in
theorem mulTable_rows_00 : ∀ a, a < 16 → ∀ b, b < 256 →
    byteAt (mulTableRows[0 + a]!) b = gmul (0 + a) b := by decide +kernel
end RSV.Tables
