import RSV.Spec.GF256
import RSV.Gen.Tables
/-! kernel evaluation: rows 16..31 of the regenerated `mulTable` equal shift-and-reduce products -/
namespace RSV.Tables
open RSV RSV.Gen
set_option maxRecDepth 100000 in
theorem mulTable_rows_01 : ∀ a, a < 16 → ∀ b, b < 256 →
    byteAt (mulTableRows[16 + a]!) b = gmul (16 + a) b := by decide +kernel
end RSV.Tables
