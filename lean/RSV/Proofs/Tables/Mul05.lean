import RSV.Spec.GF256
import RSV.Gen.Tables
/-! kernel evaluation: rows 80..95 of the regenerated `mulTable` equal shift-and-reduce products -/
namespace RSV.Tables
open RSV RSV.Gen
set_option maxRecDepth 100000 in
theorem mulTable_rows_05 : ∀ a, a < 16 → ∀ b, b < 256 →
    byteAt (mulTableRows[80 + a]!) b = gmul (80 + a) b := by decide +kernel
end RSV.Tables
