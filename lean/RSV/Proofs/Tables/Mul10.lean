import RSV.Spec.GF256
import RSV.Gen.Tables
/-! kernel evaluation: rows 160..175 of the regenerated `mulTable` equal shift-and-reduce products -/
namespace RSV.Tables
open RSV RSV.Gen
set_option maxRecDepth 100000 in
theorem mulTable_rows_10 : ∀ a, a < 16 → ∀ b, b < 256 →
    byteAt (mulTableRows[160 + a]!) b = gmul (160 + a) b := by decide +kernel
end RSV.Tables
