import RSV.Spec.GF256
import RSV.Gen.Tables
import RSV.Gen.Facts
/-! kernel evaluation of the small regenerated GF(2^8) tables against shift-and-reduce arithmetic -/
namespace RSV.Tables
open RSV RSV.Gen

/-- the generating polynomial constant of galois.go is the low byte of 0x11D -/
theorem generatingPolynomial_ok : generatingPolynomial + 256 = poly8 := by decide

theorem fieldSize_ok : fieldSize = 256 := by decide

set_option maxRecDepth 100000 in
/-- `expTable` is the sequence of powers of `x` (= 2): starts at 1, each entry is the previous times 2 -/
theorem expTable_rec : byteAt expTable 0 = 1 ∧ ∀ i, i < 255 → byteAt expTable (i+1) = gmul (byteAt expTable i) 2 := by
  decide +kernel

theorem expTable_pow (i : Nat) (hi : i < 256) : byteAt expTable i = gpow 2 i := by
  induction i with
  | zero => exact expTable_rec.1
  | succ n ih =>
    rw [expTable_rec.2 n (by omega), ih (by omega)]
    rfl

set_option maxRecDepth 100000 in
/-- `x` has order 255: the powers `x^0 … x^254` are pairwise distinct is implied by log∘exp = id -/
theorem logTable_exp : ∀ i, i < 255 → byteAt logTable (byteAt expTable i) = i := by decide +kernel

set_option maxRecDepth 100000 in
theorem expTable_log : ∀ a, a < 256 → a ≠ 0 → byteAt expTable (byteAt logTable a) = a := by decide +kernel

theorem expTable_255 : byteAt expTable 255 = 1 := by decide +kernel

set_option maxRecDepth 100000 in
theorem invTable_ok : byteAt invTable 0 = 0 ∧ ∀ a, a < 256 → a ≠ 0 → gmul a (byteAt invTable a) = 1 := by
  decide +kernel

set_option maxRecDepth 100000 in
theorem mulTableLow_ok : ∀ a, a < 256 → ∀ n, n < 16 → byteAt (mulTableLowRows[a]!) n = gmul a n := by
  decide +kernel

set_option maxRecDepth 100000 in
theorem mulTableHigh_ok : ∀ a, a < 256 → ∀ n, n < 16 → byteAt (mulTableHighRows[a]!) n = gmul a (n * 16) := by
  decide +kernel

end RSV.Tables
