import RSV.Proofs.Generators
/-!
# Property C01 — every generator matrix the library builds is MDS

All statements are about the concrete carrier `GF256` of the executable model; the point
`GF256.ofNat r` is the field element `byte(r)` of the Go code.  Helper lemmas live in
`RSV.Proofs.Generators`, the coding theory in `RSV.Proofs.CodeTheory`, the correctness of the
Gaussian elimination in `RSV.Proofs.Gauss`.
-/

-- some hypotheses (`0 < d`, `0 < p`) are part of the published statements but not needed
set_option linter.unusedVariables false

namespace RSV.Props.C01
open RSV.Model RSV.CodeTheory RSV.Generators

/-- parity part of a generator as a function matrix -/
def parityFn {d p : ℕ} (G : Mat GF256 (d + p) d) : Fin p → Fin d → GF256 :=
  fun r c => (parityPart p rfl G).get r c

/-- the Cauchy generator (`WithCauchyMatrix`) is MDS -/
theorem C01_cauchy (d p : ℕ) (hd : 0 < d) (hp : 0 < p) (h : d + p ≤ 256) :
    MDS (parityFn (buildMatrixCauchy GF256.ofNat d (d + p))) :=
  buildMatrixCauchy_parity_mds GF256.ofNat d p (ofNat_injOn_le h)

/-- the single XOR parity row (`WithFastOneParityMatrix`) is MDS -/
theorem C01_xor (d : ℕ) (hd : 0 < d) (h : d + 1 ≤ 256) :
    MDS (parityFn (buildXorMatrix (F := GF256) d (d + 1))) :=
  buildXorMatrix_parity_mds GF256.ofNat d (ofNat_injOn_le (by omega))

/-- the default (Backblaze-compatible) generator: Vandermonde · (top square)⁻¹ never fails, its
parity rows are the Lagrange basis over nodes `0..d-1` evaluated at `d..d+p-1`, and it is MDS -/
theorem C01_default (d p : ℕ) (hd : 0 < d) (hp : 0 < p) (h : d + p ≤ 256) :
    ∃ G, buildMatrix GF256.ofNat d (d + p) (Nat.le_add_right d p) = some G ∧
      (∀ r c, parityFn G r c
        = lagrAt (fun c : Fin d => GF256.ofNat c.val) (GF256.ofNat (d + r.val)) c) ∧
      MDS (parityFn G) := by
  obtain ⟨G, hG, hE⟩ := buildMatrix_spec GF256.ofNat d (d + p) (Nat.le_add_right d p)
    (ofNat_injOn_le (by omega))
  refine ⟨G, hG, ?_, buildMatrix_parity_mds GF256.ofNat d p (ofNat_injOn_le h) G hG⟩
  intro r c
  unfold parityFn
  rw [parityPart_get, hE]

/-- proof-carrying check used by the driver on the matrix extracted from the running Go code -/
theorem C01_cert {d p : ℕ} (hd : 0 < d) (hp : 0 < p) (h : d + p ≤ 256) (inf : Option (Fin p))
    (A : Mat GF256 p d) (hc : certNat hd hp GF256.ofNat inf A = true) :
    MDS (fun r c => A.get r c) :=
  certNat_sound hd hp GF256.ofNat inf A (ofNat_injOn_le h) hc

/-- same, for arbitrary scalars `u v` (the driver memoises them) -/
theorem C01_certGC {d p : ℕ} (h : d + p ≤ 256) (inf : Option (Fin p)) (A : Mat GF256 p d)
    (u : Fin p → GF256) (v : Fin d → GF256)
    (hc : certGC A (fun r => if inf = some r then none else some (GF256.ofNat (d + r.val)))
      (fun c => GF256.ofNat c.val) u v = true) :
    MDS (fun r c => A.get r c) := by
  obtain ⟨hy, hx, hxy⟩ := natPoints_distinct (d := d) (p := p) GF256.ofNat inf (ofNat_injOn_le h)
  exact certGC_sound' A _ _ u v hc hy hx hxy

/-- with no parity the only size-`d` subset is all the data -/
theorem C01_p0 (d : ℕ) (A : Fin 0 → Fin d → GF256) : MDS A := mds_p0 A

/-- MDS means: the loss of any `≤ p` shards leaves the data determined -/
theorem C01_any_p_losses {d p : ℕ} {A : Fin p → Fin d → GF256} (hA : MDS A)
    (lost : Finset (Fin d ⊕ Fin p)) (hl : lost.card ≤ p) (t t' : Fin d → GF256)
    (heq : ∀ i, i ∉ lost → cw A t i = cw A t' i) : t = t' :=
  mds_any_p_losses hA lost hl t t' heq

/-! ### non-vacuity -/

/-- the default builder succeeds (10 data + 4 parity, the README example) -/
example : ∃ G, buildMatrix GF256.ofNat 10 14 (by decide) = some G :=
  let ⟨G, hG, _⟩ := C01_default 10 4 (by decide) (by decide) (by decide)
  ⟨G, hG⟩

/-- the hypotheses of the builders' theorems are satisfiable up to the full 256 shards -/
example : MDS (parityFn (buildMatrixCauchy GF256.ofNat 200 (200 + 56))) :=
  C01_cauchy 200 56 (by decide) (by decide) (by decide)

/-- the certificate accepts the 2 × 2 Cauchy parity matrix (evaluated in the kernel) -/
example : certNat (d := 2) (p := 2) (by decide) (by decide) GF256.ofNat none
    (parityPart 2 rfl (buildMatrixCauchy GF256.ofNat 2 (2 + 2))) = true := by decide +kernel

/-- … and the all-ones row with that row at infinity -/
example : certNat (d := 3) (p := 1) (by decide) (by decide) GF256.ofNat (some 0)
    (parityPart 1 rfl (buildXorMatrix (F := GF256) 3 (3 + 1))) = true := by decide +kernel

/-- … and rejects a matrix with a singular 2 × 2 minor -/
example : certNat (d := 2) (p := 2) (by decide) (by decide) GF256.ofNat none
    (Mat.ofFn fun _ _ => (1 : GF256)) = false := by decide +kernel

end RSV.Props.C01

#print axioms RSV.Props.C01.C01_cauchy
#print axioms RSV.Props.C01.C01_xor
#print axioms RSV.Props.C01.C01_default
#print axioms RSV.Props.C01.C01_cert
#print axioms RSV.Props.C01.C01_certGC
#print axioms RSV.Props.C01.C01_p0
#print axioms RSV.Props.C01.C01_any_p_losses
