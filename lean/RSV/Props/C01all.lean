import RSV.Props.C17buildMatrix
import RSV.Props.C17matrix
import RSV.Props.C01
import RSV.Props.C01leo
import RSV.Props.C01leo16
import RSV.Props.C01jerasure
import RSV.Props.C04leoAll
/-! C01 umbrella: the GF(2^8) matrix families (`RSV.Props.C01`) and the Leopard GF(2^8) certificate
(`RSV.Props.C01leo`: `C01_leo8_cert`, `C01_leo8_any_d`) -/
namespace RSV.Props.C01all
open RSV RSV.Model RSV.CodeTheory RSV.Props.C01

/-- the three closed-form GF(2^8) families are MDS for every admissible configuration -/
theorem C01_families (d p : ℕ) (hd : 0 < d) (hp : 0 < p) (h : d + p ≤ 256) :
    MDS (parityFn (buildMatrixCauchy GF256.ofNat d (d + p))) ∧
    (∃ G, buildMatrix GF256.ofNat d (d + p) (Nat.le_add_right d p) = some G ∧ MDS (parityFn G)) ∧
    (p = 1 → MDS (parityFn (buildXorMatrix (F := GF256) d (d + 1)))) :=
  ⟨C01_cauchy d p hd hp h,
   let ⟨G, hG, _, hM⟩ := C01_default d p hd hp h; ⟨G, hG, hM⟩,
   fun hp1 => C01_xor d hd (by omega)⟩

/-- what the driver's per-configuration certificate establishes (Jerasure, and any matrix read
from the running implementation) -/
theorem C01_certificate {d p : ℕ} (h : d + p ≤ 256) (inf : Option (Fin p)) (A : Mat GF256 p d)
    (u : Fin p → GF256) (v : Fin d → GF256)
    (hc : certGC A (fun r => if inf = some r then none else some (GF256.ofNat (d + r.val)))
      (fun c => GF256.ofNat c.val) u v = true) : MDS (fun r c => A.get r c) :=
  C01_certGC h inf A u v hc

/-- MDS is exactly "the loss of any p or fewer shards never makes the data unrecoverable" -/
theorem C01_losses {d p : ℕ} {A : Fin p → Fin d → GF256} (hA : MDS A) (lost : Finset (Fin d ⊕ Fin p))
    (hl : lost.card ≤ p) (t t' : Fin d → GF256) (heq : ∀ i, i ∉ lost → cw A t i = cw A t' i) : t = t' :=
  C01_any_p_losses hA lost hl t t' heq

end RSV.Props.C01all
