import RSV.Props.C01
import RSV.Proofs.Jerasure
/-!
# Property C01, Jerasure family — a theorem for every configuration

`buildMatrixJerasure GF256.ofNat d (d + p)` (`WithJerasureMatrix`) is systematic and MDS for all
`0 < d`, `0 < p`, `d + p ≤ 256`; the pivot search of its main loop never fails; its first parity
row and first parity column are all ones.  Proofs: `RSV.Proofs.JerasureInv` (the invariant "every
`d` rows independent") and `RSV.Proofs.Jerasure` (the builder).
-/

namespace RSV.Props.C01
open RSV.Model RSV.CodeTheory RSV.Generators RSV.Jerasure

/-- the points `byte(0) = 0, byte(1), …, byte(d+p-2)` the Jerasure builder uses are distinct
(the last row is overwritten: it is the point at infinity) -/
theorem jerasure_points {d p : ℕ} (h : d + p ≤ 256) :
    GF256.ofNat 0 = 0 ∧
    ∀ a b, a < d + p - 1 → b < d + p - 1 → GF256.ofNat a = GF256.ofNat b → a = b :=
  ⟨rfl, ofNat_injOn_le (by omega)⟩

/-- the Jerasure generator (`WithJerasureMatrix`): top square = identity, parity part MDS -/
theorem C01_jerasure (d p : ℕ) (hd : 0 < d) (hp : 0 < p) (h : d + p ≤ 256) :
    (∀ (r : Fin (d + p)) (c : Fin d), r.val < d →
      (buildMatrixJerasure GF256.ofNat d (d + p) (by omega) hd).get r c
        = if r.val = c.val then 1 else 0) ∧
    MDS (parityFn (buildMatrixJerasure GF256.ofNat d (d + p) (by omega) hd)) :=
  let ⟨hT, hM, _, _⟩ := buildMatrixJerasure_mds GF256.ofNat d p hd hp
    (jerasure_points h).1 (jerasure_points h).2
  ⟨hT, hM⟩

/-- the normalisation Jerasure is known for: first parity row and first parity column all ones -/
theorem C01_jerasure_ones (d p : ℕ) (hd : 0 < d) (hp : 0 < p) (h : d + p ≤ 256) :
    (∀ c, parityFn (buildMatrixJerasure GF256.ofNat d (d + p) (by omega) hd) ⟨0, hp⟩ c = 1) ∧
    (∀ r, parityFn (buildMatrixJerasure GF256.ofNat d (d + p) (by omega) hd) r ⟨0, hd⟩ = 1) := by
  obtain ⟨_, _, hrow, hcol⟩ := buildMatrixJerasure_mds GF256.ofNat d p hd hp
    (jerasure_points h).1 (jerasure_points h).2
  constructor
  · intro c
    unfold parityFn
    rw [parityPart_get]
    exact hrow c
  · intro r
    unfold parityFn
    rw [parityPart_get]
    exact hcol _ (Nat.le_add_right d r.val)

/-- every `d` rows of the full `(d + p) × d` generator are independent: a message killed by `d`
rows is zero -/
theorem C01_jerasure_rows (d p : ℕ) (hd : 0 < d) (hp : 0 < p) (h : d + p ≤ 256)
    (S : Finset (Fin (d + p))) (hS : S.card = d) (t : Fin d → GF256)
    (h0 : ∀ i ∈ S, ∑ c, (buildMatrixJerasure GF256.ofNat d (d + p) (by omega) hd).get i c * t c = 0) :
    t = 0 :=
  (buildMatrixJerasure_rowsMDS GF256.ofNat d (d + p) (by omega) hd
    (jerasure_points h).1 (jerasure_points h).2).1 S hS t h0

/-- the pivot search of column `k` of the main loop always finds a row: the `none` branch of the
model (the Go loop would index out of range) is dead code -/
theorem C01_jerasure_pivot (d p : ℕ) (hd : 0 < d) (hp : 0 < p) (h : d + p ≤ 256)
    (k : ℕ) (hk : k < d) :
    (findFirst (fun r : Fin (d + p) => decide (k ≤ r.val) &&
      decide ((jerasureLoop (Nat.le_add_right d p) (jerInit GF256.ofNat d (d + p)) k
        (Nat.le_of_lt hk)).get r ⟨k, hk⟩ ≠ 0))).isSome :=
  buildMatrixJerasure_pivot GF256.ofNat d (d + p) (by omega) hd
    (jerasure_points h).1 (jerasure_points h).2 k hk

/-- any `≤ p` lost shards of a Jerasure-encoded stripe leave the data determined -/
theorem C01_jerasure_losses (d p : ℕ) (hd : 0 < d) (hp : 0 < p) (h : d + p ≤ 256)
    (lost : Finset (Fin d ⊕ Fin p)) (hl : lost.card ≤ p) (t t' : Fin d → GF256)
    (heq : ∀ i, i ∉ lost →
      cw (parityFn (buildMatrixJerasure GF256.ofNat d (d + p) (by omega) hd)) t i
        = cw (parityFn (buildMatrixJerasure GF256.ofNat d (d + p) (by omega) hd)) t' i) :
    t = t' :=
  C01_any_p_losses (C01_jerasure d p hd hp h).2 lost hl t t' heq

/-! ### non-vacuity -/

/-- the 3 + 2 Jerasure generator, evaluated in the kernel: identity on top, then `1 1 1` and
`1 245 244` -/
example : (buildMatrixJerasure GF256.ofNat 3 (3 + 2) (by decide) (by decide)).toList.map
      (fun row => row.toList.map GF256.val)
    = [[1, 0, 0], [0, 1, 0], [0, 0, 1], [1, 1, 1], [1, 245, 244]] := by decide +kernel

/-- a concrete parity entry that is neither `0` nor `1` -/
example : parityFn (buildMatrixJerasure GF256.ofNat 3 (3 + 2) (by decide) (by decide))
    ⟨1, by decide⟩ ⟨2, by decide⟩ = GF256.ofNat 244 := by decide +kernel

/-- degenerate shape `d = 1` (first and last row overwrite the same single column) -/
example : (buildMatrixJerasure GF256.ofNat 1 (1 + 2) (by decide) (by decide)).toList.map
      (fun row => row.toList.map GF256.val) = [[1], [1], [1]] := by decide +kernel

/-- degenerate shape `p = 1` (the only parity row is the point at infinity) -/
example : (buildMatrixJerasure GF256.ofNat 4 (4 + 1) (by decide) (by decide)).toList.map
      (fun row => row.toList.map GF256.val)
    = [[1, 0, 0, 0], [0, 1, 0, 0], [0, 0, 1, 0], [0, 0, 0, 1], [1, 1, 1, 1]] := by decide +kernel

/-- the theorem applies up to the full 256 shards -/
example : MDS (parityFn (buildMatrixJerasure GF256.ofNat 200 (200 + 56) (by decide) (by decide))) :=
  (C01_jerasure 200 56 (by decide) (by decide) (by decide)).2

/-- the certificate of the driver rejects a matrix with a singular minor, so `MDS` is not a
property every matrix has (same witness as in `RSV.Props.C01`) -/
example : ¬ MDS (fun (_ : Fin 2) (_ : Fin 2) => (1 : GF256)) := by
  intro hM
  have := hM {Sum.inr 0, Sum.inr 1} (by decide) (fun _ => 1) (by
    intro i hi
    simp only [Finset.mem_insert, Finset.mem_singleton] at hi
    rcases hi with rfl | rfl <;> simp [cw] <;> exact CharTwo.two_eq_zero)
  have h1 := congrFun this 0
  simp at h1

end RSV.Props.C01

#print axioms RSV.Props.C01.jerasure_points
#print axioms RSV.Props.C01.C01_jerasure
#print axioms RSV.Props.C01.C01_jerasure_ones
#print axioms RSV.Props.C01.C01_jerasure_rows
#print axioms RSV.Props.C01.C01_jerasure_pivot
#print axioms RSV.Props.C01.C01_jerasure_losses
