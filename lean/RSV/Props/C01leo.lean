import RSV.Proofs.LeoField
/-!
# C01 (Leopard part) — Leopard GF(2^8) generators are MDS via the certificate

A Leopard generator matrix `G` (`p × d`, entries are Leopard symbols, i.e. Cantor-basis indices) is
mapped entry-wise into `GF256` by the Cantor map (`Leo.mapMatrix`).  The driver runs the
generalised-Cauchy certificate `Leo.leo8Cert` on the matrix the Go implementation produced; the
evaluation points are the images of index `r` (parity `r`) and `m + c` (data `c`), `m = ceilPow2 p`,
which are pairwise distinct because the Cantor map is injective on `[0,256)`.

`C01_leo8_transport` makes the interpretation explicit: a parity symbol computed in Leopard's own
arithmetic (`leoMul`, xor) maps under `toGF = GF256.ofNat ∘ cm` to the `GF256` codeword equation
whose MDS property is certified.
-/
namespace RSV.Props.C01leo
open RSV RSV.Model RSV.CodeTheory RSV.Proofs.LeoField

/-- `p ≤ ceilPow2 p` whenever the result fits (the loop doubles at most 64 times) -/
theorem C01_leo8_ceilPow2 (p : ℕ) : p ≤ Leo.ceilPow2 p ∨ Leo.ceilPow2 p = 2 ^ 64 := ceilPow2_spec p

/-- the evaluation points are pairwise distinct -/
theorem C01_leo8_points (d p : ℕ) (h : d + Leo.ceilPow2 p ≤ 256) :
    Function.Injective (Leo.leoX p) ∧ Function.Injective (Leo.leoY d (Leo.ceilPow2 p)) ∧
    ∀ r c, Leo.leoX p r ≠ some (Leo.leoY d (Leo.ceilPow2 p) c) := by
  have hpm : p ≤ Leo.ceilPow2 p := le_ceilPow2 (by omega)
  exact ⟨leoX_inj (by omega), leoY_inj h, leoX_ne_leoY hpm h⟩

/-- a Leopard GF(2^8) generator accepted by the certificate is MDS -/
theorem C01_leo8_cert (d p : ℕ) (G : Array (Array ℕ)) (h : d + Leo.ceilPow2 p ≤ 256)
    (hc : Leo.leo8Cert d p G = true) :
    RSV.CodeTheory.MDS (fun (r : Fin p) (c : Fin d) => (Leo.mapMatrix (p := p) (d := d) G).get r c) :=
  leo8Cert_sound d p G h hc

/-- transport: the xor-sum of Leopard products `⊕_c G[r][c] ⊗ t[c]` maps to the `GF256` sum of
products of the images -/
theorem C01_leo8_transport {d : ℕ} (g t : Fin d → ℕ) (hg : ∀ c, g c < 256) (ht : ∀ c, t c < 256) :
    GF256.ofNat (cm ((List.finRange d).foldl (fun acc c => acc ^^^ Leo.leoMul C8 (g c) (t c)) 0)) =
      ∑ c, GF256.ofNat (cm (g c)) * GF256.ofNat (cm (t c)) :=
  toGF_leoDot g t hg ht

/-- … hence parity row `r` of a Leopard generator, computed in Leopard's arithmetic on a message `t`,
is coordinate `inr r` of the `GF256` codeword of the mapped matrix on the mapped message -/
theorem C01_leo8_transport_cw {d p : ℕ} (G : Array (Array ℕ)) (t : Fin d → ℕ)
    (hG : ∀ (r : Fin p) (c : Fin d), (G[r.val]!)[c.val]! < 256) (ht : ∀ c, t c < 256) (r : Fin p) :
    GF256.ofNat (cm ((List.finRange d).foldl
        (fun acc c => acc ^^^ Leo.leoMul C8 ((G[r.val]!)[c.val]!) (t c)) 0)) =
      cw (fun (r : Fin p) (c : Fin d) => (Leo.mapMatrix (p := p) (d := d) G).get r c)
        (fun c => GF256.ofNat (cm (t c))) (Sum.inr r) := by
  rw [cw_inr, C01_leo8_transport (fun c => (G[r.val]!)[c.val]!) t (hG r) ht]
  simp [Leo.mapMatrix]

/-- consequence: for an accepted generator, a message of Leopard symbols is determined by any `d` of
the `d + p` symbols (data symbols and parity symbols computed in Leopard's arithmetic) -/
theorem C01_leo8_any_d {d p : ℕ} (G : Array (Array ℕ)) (h : d + Leo.ceilPow2 p ≤ 256)
    (hc : Leo.leo8Cert d p G = true) (hG : ∀ (r : Fin p) (c : Fin d), (G[r.val]!)[c.val]! < 256)
    (S : Finset (Fin d ⊕ Fin p)) (hS : S.card = d) (t t' : Fin d → ℕ)
    (ht : ∀ c, t c < 256) (ht' : ∀ c, t' c < 256)
    (hdata : ∀ c, Sum.inl c ∈ S → t c = t' c)
    (hpar : ∀ r, Sum.inr r ∈ S →
      (List.finRange d).foldl (fun acc c => acc ^^^ Leo.leoMul C8 ((G[r.val]!)[c.val]!) (t c)) 0 =
      (List.finRange d).foldl (fun acc c => acc ^^^ Leo.leoMul C8 ((G[r.val]!)[c.val]!) (t' c)) 0) :
    t = t' := by
  have hM := C01_leo8_cert d p G h hc
  have := hM.unique S hS (fun c => GF256.ofNat (cm (t c))) (fun c => GF256.ofNat (cm (t' c))) (by
    intro i hi
    rcases i with c | r
    · simp only [cw_inl]; rw [hdata c hi]
    · rw [← C01_leo8_transport_cw G t hG ht r, ← C01_leo8_transport_cw G t' hG ht' r, hpar r hi])
  funext c
  exact toGF_inj (ht c) (ht' c) (congrFun this c)

end RSV.Props.C01leo

#print axioms RSV.Props.C01leo.C01_leo8_ceilPow2
#print axioms RSV.Props.C01leo.C01_leo8_points
#print axioms RSV.Props.C01leo.C01_leo8_cert
#print axioms RSV.Props.C01leo.C01_leo8_transport
#print axioms RSV.Props.C01leo.C01_leo8_transport_cw
#print axioms RSV.Props.C01leo.C01_leo8_any_d
