import RSV.Proofs.Leo16.Cert
/-!
# C01 (Leopard GF(2^16) part) — Leopard 16-bit generators are MDS via the certificate

The 16-bit mirror of `RSV/Props/C01leo.lean`.  A Leopard GF(2^16) generator matrix `G` (`p × d`,
entries are Leopard symbols, i.e. Cantor-basis indices below 65536) is mapped entry-wise into
`GF65536` by the Cantor map (`Leo.mapMatrix16`).  The driver runs the generalised-Cauchy certificate
`Leo.leo16Cert` (core Lean, `RSV/Model/LeoCert16.lean`, on the core carrier `RSV/Model/GF65536.lean`) on
the matrix the Go implementation produced; the evaluation points are the images of index `r`
(parity `r`) and `m + c` (data `c`), `m = ceilPow2 p`, pairwise distinct because the Cantor map is
injective on `[0,65536)`.

`C01_leo16_transport` makes the interpretation explicit: a parity symbol computed in Leopard's own
arithmetic (`leoMul C16` through the 65,536-entry log/exp tables of `initLUTs P16`, xor) maps under
`toGF16 = GF65536.ofNat ∘ cm16` to the `GF65536` codeword equation whose MDS property is certified.
-/
namespace RSV.Props.C01leo16
open RSV RSV.Model RSV.CodeTheory RSV.Proofs.Leo16

/-- `p ≤ ceilPow2 p` whenever the result fits -/
theorem C01_leo16_ceilPow2 (p : ℕ) (h : Leo.ceilPow2 p ≤ 65536) : p ≤ Leo.ceilPow2 p :=
  le_ceilPow2_16 h

/-- the evaluation points are pairwise distinct -/
theorem C01_leo16_points (d p : ℕ) (h : d + Leo.ceilPow2 p ≤ 65536) :
    Function.Injective (Leo.leoX16 p) ∧ Function.Injective (Leo.leoY16 d (Leo.ceilPow2 p)) ∧
    ∀ r c, Leo.leoX16 p r ≠ some (Leo.leoY16 d (Leo.ceilPow2 p) c) := by
  have hpm : p ≤ Leo.ceilPow2 p := le_ceilPow2_16 (by omega)
  exact ⟨leoX16_inj (by omega), leoY16_inj h, leoX16_ne_leoY16 hpm h⟩

/-- a Leopard GF(2^16) generator accepted by the certificate is MDS -/
theorem C01_leo16_cert (d p : ℕ) (G : Array (Array ℕ)) (h : d + Leo.ceilPow2 p ≤ 65536)
    (hc : Leo.leo16Cert d p G = true) :
    RSV.CodeTheory.MDS
      (fun (r : Fin p) (c : Fin d) => (Leo.mapMatrix16 (p := p) (d := d) G).get r c) :=
  leo16Cert_sound d p G h hc

/-- the certificate runs on the field of `RSV/Proofs/Leo16/Field.lean`: the core operations of the
carrier (`RSV/Model/GF65536.lean`) are those of the `Field` instance, by `rfl` -/
theorem C01_leo16_carrier (a b : GF65536) :
    (a + b).val = a.val ^^^ b.val ∧ (a - b).val = a.val ^^^ b.val ∧
    (a * b).val = RSV.BF.pmul 16 0x1002D a.val b.val ∧ (a⁻¹).val = ginv16 a.val ∧
    a⁻¹ = a ^ 65534 :=
  ⟨rfl, rfl, rfl, rfl, GF65536.inv_eq_pow a⟩

/-- transport: the xor-sum of Leopard products `⊕_c G[r][c] ⊗ t[c]` maps to the `GF65536` sum of
products of the images -/
theorem C01_leo16_transport {d : ℕ} (g t : Fin d → ℕ) (hg : ∀ c, g c < 65536)
    (ht : ∀ c, t c < 65536) :
    GF65536.ofNat (cm16 ((List.finRange d).foldl
        (fun acc c => acc ^^^ Leo.leoMul C16 (g c) (t c)) 0)) =
      ∑ c, GF65536.ofNat (cm16 (g c)) * GF65536.ofNat (cm16 (t c)) := by
  have := toGF16_leoDot g t hg ht
  simp only [← ofNat_cm16] at this
  exact this

/-- … hence parity row `r` of a Leopard generator, computed in Leopard's arithmetic on a message `t`,
is coordinate `inr r` of the `GF65536` codeword of the mapped matrix on the mapped message -/
theorem C01_leo16_transport_cw {d p : ℕ} (G : Array (Array ℕ)) (t : Fin d → ℕ)
    (hG : ∀ (r : Fin p) (c : Fin d), (G[r.val]!)[c.val]! < 65536) (ht : ∀ c, t c < 65536)
    (r : Fin p) :
    GF65536.ofNat (cm16 ((List.finRange d).foldl
        (fun acc c => acc ^^^ Leo.leoMul C16 ((G[r.val]!)[c.val]!) (t c)) 0)) =
      cw (fun (r : Fin p) (c : Fin d) => (Leo.mapMatrix16 (p := p) (d := d) G).get r c)
        (fun c => GF65536.ofNat (cm16 (t c))) (Sum.inr r) := by
  rw [cw_inr, C01_leo16_transport (fun c => (G[r.val]!)[c.val]!) t (hG r) ht]
  simp [Leo.mapMatrix16, cm16]

/-- consequence: for an accepted generator, a message of Leopard symbols is determined by any `d` of
the `d + p` symbols (data symbols and parity symbols computed in Leopard's arithmetic) -/
theorem C01_leo16_any_d {d p : ℕ} (G : Array (Array ℕ)) (h : d + Leo.ceilPow2 p ≤ 65536)
    (hc : Leo.leo16Cert d p G = true)
    (hG : ∀ (r : Fin p) (c : Fin d), (G[r.val]!)[c.val]! < 65536)
    (S : Finset (Fin d ⊕ Fin p)) (hS : S.card = d) (t t' : Fin d → ℕ)
    (ht : ∀ c, t c < 65536) (ht' : ∀ c, t' c < 65536)
    (hdata : ∀ c, Sum.inl c ∈ S → t c = t' c)
    (hpar : ∀ r, Sum.inr r ∈ S →
      (List.finRange d).foldl (fun acc c => acc ^^^ Leo.leoMul C16 ((G[r.val]!)[c.val]!) (t c)) 0 =
      (List.finRange d).foldl (fun acc c => acc ^^^ Leo.leoMul C16 ((G[r.val]!)[c.val]!) (t' c)) 0) :
    t = t' := by
  have hM := C01_leo16_cert d p G h hc
  have := hM.unique S hS (fun c => GF65536.ofNat (cm16 (t c)))
    (fun c => GF65536.ofNat (cm16 (t' c))) (by
    intro i hi
    rcases i with c | r
    · simp only [cw_inl]; rw [hdata c hi]
    · rw [← C01_leo16_transport_cw G t hG ht r, ← C01_leo16_transport_cw G t' hG ht' r,
        hpar r hi])
  funext c
  have hc' := congrFun this c
  simp only [cm16, ofNat_cm16] at hc'
  exact toGF16_inj (ht c) (ht' c) hc'

/-! ## non-vacuity: the certificate accepts the real Leopard GF(2^16) generator for `d = 3, p = 2`
(`Leo.encode (mkCtx P16) 3 2` on the unit vectors gives `[[3, 2, 5], [2, 3, 4]]`), and rejects a
perturbed matrix -/

example : Leo.leo16Cert 3 2 #[#[3, 2, 5], #[2, 3, 4]] = true := by decide +kernel

example : Leo.leo16Cert 3 2 #[#[3, 2, 5], #[2, 3, 5]] = false := by decide +kernel

example : Leo.leo16Cert 1 1 #[#[1]] = true := by decide +kernel

/-- … so that matrix is MDS over `GF65536` -/
theorem C01_leo16_example :
    RSV.CodeTheory.MDS (fun (r : Fin 2) (c : Fin 3) =>
      (Leo.mapMatrix16 (p := 2) (d := 3) #[#[3, 2, 5], #[2, 3, 4]]).get r c) :=
  C01_leo16_cert 3 2 _ (by decide +kernel) (by decide +kernel)

end RSV.Props.C01leo16

#print axioms RSV.Props.C01leo16.C01_leo16_ceilPow2
#print axioms RSV.Props.C01leo16.C01_leo16_points
#print axioms RSV.Props.C01leo16.C01_leo16_cert
#print axioms RSV.Props.C01leo16.C01_leo16_carrier
#print axioms RSV.Props.C01leo16.C01_leo16_transport
#print axioms RSV.Props.C01leo16.C01_leo16_transport_cw
#print axioms RSV.Props.C01leo16.C01_leo16_any_d
#print axioms RSV.Props.C01leo16.C01_leo16_example
