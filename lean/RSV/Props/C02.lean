import RSV.Proofs.Reconstruct
import Mathlib.Algebra.Field.Rat
import Mathlib.Tactic.FinCases

/-!
# C02 — Reconstruct / ReconstructData / ReconstructSome return the original shards

Model: `RSV.Model.reconstruct` (`reedSolomon.reconstruct` of `reedsolomon.go`: choose the first `d`
present shards, invert that `d × d` sub-matrix of the generator `[I; A]`, multiply to recover the
missing data shards, re-encode the requested missing parity shards).
Specification: `RSV.Model.reconSpec` / `reconShape` (which indices are filled is a function of the
presence pattern and the mode only; every filled shard is the original).

The input is a codeword `encodeAll A data` with the shards outside `present` erased
(`RSV.Model.erase`).  Proof machinery: `RSV.Proofs.Reconstruct`.
-/

namespace RSV.Props.C02
open RSV.Model RSV.CodeTheory

section Main
variable {F : Type} [Field F] [DecidableEq F] {d p len : ℕ}

/-- **C02 main.** For an MDS generator, Reconstruct / ReconstructData / ReconstructSome on an
encoded shard set with erasures return exactly the specification: the input unchanged on the
documented no-op conditions, `ErrTooFewShards` when fewer than `d` shards are present, otherwise
success with every filled shard equal to the original and every present shard untouched; never
`errSingular`. -/
theorem C02_mds (A : Mat F p d) (hA : MDS (fun r c => A.get r c)) (data : Fin d → Shard F len)
    (present : Fin (d + p) → Bool) (mode : ReconMode) :
    reconstruct A (erase (encodeAll A data) present) mode =
      reconSpec (encodeAll A data) present mode := by
  rw [reconstruct_erase]
  unfold reconSpec
  cases hs : reconShape d p present mode with
  | unchanged => rfl
  | tooFew => rfl
  | fill filled =>
    obtain ⟨dec, hdec⟩ := Option.isSome_iff_exists.mp
      (invert_subMat_isSome A hA present (reconShape_fill_le hs))
    simp only [hdec]

/-- **C02 for any generator** (PAR1, custom matrices — not necessarily MDS): the call either
behaves exactly as the specification or reports `errSingular`. -/
theorem C02_any (A : Mat F p d) (data : Fin d → Shard F len)
    (present : Fin (d + p) → Bool) (mode : ReconMode) :
    reconstruct A (erase (encodeAll A data) present) mode =
        reconSpec (encodeAll A data) present mode ∨
      reconstruct A (erase (encodeAll A data) present) mode = .error .singular := by
  rw [reconstruct_erase]
  unfold reconSpec
  cases hs : reconShape d p present mode with
  | unchanged => exact Or.inl rfl
  | tooFew => exact Or.inl rfl
  | fill filled =>
    cases hinv : invert (subMat A present) with
    | none => exact Or.inr rfl
    | some dec => exact Or.inl rfl

/-- **C02, any generator: never wrong bytes.** Whatever a successful call returns in a slot is
the original shard. -/
theorem C02_never_wrong (A : Mat F p d) (data : Fin d → Shard F len)
    (present : Fin (d + p) → Bool) (mode : ReconMode) (out : Fin (d + p) → Option (Shard F len))
    (h : reconstruct A (erase (encodeAll A data) present) mode = .ok out) :
    ∀ i s, out i = some s → s = encodeAll A data i := by
  rcases C02_any A data present mode with e | e
  · rw [e] at h; exact (reconSpec_ok _ h).1
  · rw [e] at h; cases h

/-- **C02, any generator: present shards are untouched** by a successful call. -/
theorem C02_present_untouched (A : Mat F p d) (data : Fin d → Shard F len)
    (present : Fin (d + p) → Bool) (mode : ReconMode) (out : Fin (d + p) → Option (Shard F len))
    (h : reconstruct A (erase (encodeAll A data) present) mode = .ok out) :
    ∀ i, present i = true → out i = some (encodeAll A data i) := by
  rcases C02_any A data present mode with e | e
  · rw [e] at h; exact (reconSpec_ok _ h).2
  · rw [e] at h; cases h

/-- **C02, any generator: the documented early returns.** If nothing is missing, or the call is
data-only (ReconstructData, ReconstructSome with a `d`-entry mask) and no data shard is missing, or
the call is ReconstructSome and no requested shard is missing, the input comes back unchanged —
even with fewer than `d` shards present. -/
theorem C02_noop (A : Mat F p d) (data : Fin d → Shard F len)
    (present : Fin (d + p) → Bool) (mode : ReconMode)
    (h : (∀ i, present i = true) ∨
      (isDataOnly mode = true ∧ ∀ i : Fin (d + p), i.val < d → present i = true) ∨
      ((∃ req full, mode = .some req full) ∧
        ∀ i : Fin (d + p), present i = false → requiredAt mode i.val = false)) :
    reconstruct A (erase (encodeAll A data) present) mode =
      .ok (erase (encodeAll A data) present) := by
  have hn : Noop d p present mode := by
    rcases h with h | h | ⟨⟨req, full, rfl⟩, h⟩
    · exact Or.inl h
    · exact Or.inr (Or.inl h)
    · exact Or.inr (Or.inr ⟨rfl, h⟩)
  rw [reconstruct_erase, reconShape_of_noop hn]

/-- **C02, any generator: `ErrTooFewShards`.** With fewer than `d` shards present the call fails
with `ErrTooFewShards` — unless it is a ReconstructSome call none of whose requested shards is
missing (then `C02_noop` applies). -/
theorem C02_too_few (A : Mat F p d) (data : Fin d → Shard F len)
    (present : Fin (d + p) → Bool) (mode : ReconMode) (hlt : countTrue present < d)
    (hreq : ∀ req full, mode = .some req full →
      ∃ i : Fin (d + p), present i = false ∧ requiredAt mode i.val = true) :
    reconstruct A (erase (encodeAll A data) present) mode = .error .tooFew := by
  have hn : ¬ Noop d p present mode := by
    rintro (h | ⟨-, h⟩ | ⟨hs, h⟩)
    · have := (countTrue_eq_iff present).mpr h
      omega
    · have h1 := (countTrue_data_eq_iff present).mpr h
      have h2 := countTrue_and_le present (fun i => decide (i.val < d))
      omega
    · rcases mode with _ | _ | ⟨req, full⟩
      · cases hs
      · cases hs
      · obtain ⟨i, hi1, hi2⟩ := hreq req full rfl
        rw [h i hi1] at hi2; cases hi2
  rw [reconstruct_erase, reconShape_of_lt hn hlt]

/-- **C02, any generator: `ErrTooFewShards` exactly when** fewer than `d` shards are present and
none of the early-return conditions (`RSV.Model.Noop`) holds. -/
theorem C02_too_few_iff (A : Mat F p d) (data : Fin d → Shard F len)
    (present : Fin (d + p) → Bool) (mode : ReconMode) :
    reconstruct A (erase (encodeAll A data) present) mode = .error .tooFew ↔
      countTrue present < d ∧ ¬ Noop d p present mode := by
  rw [reconstruct_erase]
  by_cases hn : Noop d p present mode
  · rw [reconShape_of_noop hn]
    exact ⟨fun h => (by cases h), fun h => absurd hn h.2⟩
  · by_cases hlt : countTrue present < d
    · rw [reconShape_of_lt hn hlt]
      exact ⟨fun _ => ⟨hlt, hn⟩, fun _ => rfl⟩
    · rw [reconShape_of_ge hn (Nat.le_of_not_lt hlt)]
      refine ⟨fun h => ?_, fun h => absurd h.1 hlt⟩
      dsimp only at h
      split at h <;> cases h

/-- with at most `p` shards missing there are at least `d` present -/
theorem C02_enough (present : Fin (d + p) → Bool)
    (h : countTrue (fun i => !present i) ≤ p) : d ≤ countTrue present := by
  have := countTrue_add_countTrue_not present
  omega

/-- **C02 headline corollary.** MDS generator, at most `p` shards lost: `Reconstruct` restores
every shard of the codeword. -/
theorem C02_reconstruct_all (A : Mat F p d) (hA : MDS (fun r c => A.get r c))
    (data : Fin d → Shard F len) (present : Fin (d + p) → Bool)
    (h : countTrue (fun i => !present i) ≤ p) :
    reconstruct A (erase (encodeAll A data) present) .all =
      .ok fun i => some (encodeAll A data i) := by
  rw [C02_mds A hA]
  have hge := C02_enough present h
  by_cases hn : Noop d p present .all
  · rw [reconSpec_of_noop _ hn]
    have hall : ∀ i, present i = true := by
      rcases hn with h | ⟨h, -⟩ | ⟨h, -⟩
      · exact h
      · cases h
      · cases h
    congr 1; funext i; simp [erase, hall i]
  · rw [reconSpec_of_ge _ hn hge]
    congr 1; funext i
    cases hp : present i <;> simp [fillAt, isSomeMode, isDataOnly, requiredAt, hp]

end Main

/-! ### what the specification says, mode by mode -/
section Spec
variable {G : Type} {d p len : ℕ}

/-- Reconstruct, at least `d` shards present: every shard is restored -/
theorem C02_spec_all (orig : Fin (d + p) → Shard G len) (present : Fin (d + p) → Bool)
    (hge : d ≤ countTrue present) :
    reconSpec orig present .all = .ok fun i => some (orig i) := by
  by_cases hn : Noop d p present .all
  · rw [reconSpec_of_noop _ hn]
    have hall : ∀ i, present i = true := by
      rcases hn with h | ⟨h, -⟩ | ⟨h, -⟩
      · exact h
      · cases h
      · cases h
    congr 1; funext i; simp [erase, hall i]
  · rw [reconSpec_of_ge _ hn hge]
    congr 1; funext i
    cases hp : present i <;> simp [fillAt, isSomeMode, isDataOnly, requiredAt, hp]

/-- ReconstructData, at least `d` shards present: exactly the data shards are restored, parity
slots are left as they were -/
theorem C02_spec_data (orig : Fin (d + p) → Shard G len) (present : Fin (d + p) → Bool)
    (hge : d ≤ countTrue present) :
    reconSpec orig present .dataOnly =
      .ok fun i => if present i || decide (i.val < d) then some (orig i) else none := by
  by_cases hn : Noop d p present .dataOnly
  · rw [reconSpec_of_noop _ hn]
    congr 1; funext i
    rcases hn with h | ⟨-, h⟩ | ⟨h, -⟩
    · simp [erase, h i]
    · by_cases hi : i.val < d
      · simp [erase, h i hi]
      · simp [erase, hi]
    · cases h
  · rw [reconSpec_of_ge _ hn hge]
    congr 1; funext i
    cases hp : present i <;> by_cases hi : i.val < d <;>
      simp [fillAt, isSomeMode, isDataOnly, requiredAt, hp, hi]

/-- ReconstructSome (`full = true`: mask over all `d + p` shards; `full = false`: mask over the `d`
data shards, parity is never computed), at least `d` shards present: the call succeeds and
1. every requested shard (data shard, or parity shard when the mask is full) is restored;
2. present shards are untouched;
3. every returned shard is the original;
4. nothing else is filled except, when a requested parity shard is missing, the missing data
   shards (all of them are decoded on the way);
5. with a data-only mask no parity slot is filled. -/
theorem C02_spec_some (orig : Fin (d + p) → Shard G len) (present : Fin (d + p) → Bool)
    (req : List Bool) (full : Bool) (hge : d ≤ countTrue present) :
    ∃ out, reconSpec orig present (.some req full) = .ok out ∧
      (∀ i : Fin (d + p), requiredAt (.some req full) i.val = true → (i.val < d ∨ full = true) →
        out i = some (orig i)) ∧
      (∀ i, present i = true → out i = some (orig i)) ∧
      (∀ i s, out i = some s → s = orig i) ∧
      (∀ i : Fin (d + p), out i ≠ none → present i = true ∨ requiredAt (.some req full) i.val = true ∨
        (i.val < d ∧ full = true ∧ ∃ j : Fin (d + p), d ≤ j.val ∧ present j = false ∧
          requiredAt (.some req full) j.val = true)) ∧
      (full = false → ∀ i : Fin (d + p), d ≤ i.val → present i = false → out i = none) := by
  by_cases hn : Noop d p present (.some req full)
  · refine ⟨_, reconSpec_of_noop _ hn, ?_, (reconSpec_ok _ (reconSpec_of_noop orig hn)).2,
      (reconSpec_ok _ (reconSpec_of_noop orig hn)).1, ?_, ?_⟩
    · intro i hr hi
      apply erase_of_present
      rcases hn with h | ⟨h1, h⟩ | ⟨-, h⟩
      · exact h i
      · rcases hi with hi | hi
        · exact h i hi
        · subst hi; cases h1
      · cases hp : present i with
        | true => rfl
        | false => rw [h i hp] at hr; cases hr
    · intro i hne
      left
      cases hp : present i with
      | true => rfl
      | false => exact absurd (erase_of_absent orig hp) hne
    · intro _ i _ hp
      exact erase_of_absent orig hp
  · refine ⟨_, reconSpec_of_ge _ hn hge, ?_, (reconSpec_ok _ (reconSpec_of_ge orig hn hge)).2,
      (reconSpec_ok _ (reconSpec_of_ge orig hn hge)).1, ?_, ?_⟩
    · intro i hr hi
      cases hp : present i with
      | true => simp
      | false =>
        have : fillAt d p present (.some req full) i = true := by
          by_cases hlt : i.val < d
          · simp [fillAt, hp, hlt, isSomeMode, hr]
          · have hf : full = true := hi.resolve_left hlt
            subst hf
            simp [fillAt, hp, hlt, isDataOnly, hr]
        simp [this]
    · intro i hne
      cases hp : present i with
      | true => exact Or.inl rfl
      | false =>
        right
        cases hr : requiredAt (.some req full) i.val with
        | true => exact Or.inl rfl
        | false =>
          right
          have hfill : fillAt d p present (.some req full) i = true := by
            by_contra hf
            apply hne
            simp [hp, hf]
          by_cases hlt : i.val < d
          · simp only [fillAt, hp, Bool.not_false, Bool.true_and, if_pos hlt, isSomeMode, if_true, hr,
              Bool.false_or] at hfill
            simp only [parityReq, isDataOnly, isSomeMode, Bool.and_true, Bool.and_eq_true,
              Bool.not_eq_true', decide_eq_true_eq] at hfill
            obtain ⟨j, hj⟩ := (countTrue_pos_iff _).mp hfill.2
            simp only [Bool.and_eq_true, Bool.not_eq_true', decide_eq_true_eq] at hj
            exact ⟨hlt, by simpa using hfill.1, j, hj.2, hj.1.1, hj.1.2⟩
          · simp [fillAt, hp, hlt, hr] at hfill
    · intro hf i hi hp
      have hlt : ¬ i.val < d := by omega
      simp [fillAt, hp, hlt, isDataOnly, hf]

end Spec

/-! ### non-vacuity: the hypotheses of `C02_mds` are satisfiable -/

/-- the `2 + 1` XOR-parity code over `ℚ` is MDS, so `C02_mds` applies to it -/
example : ∃ A : Mat ℚ 1 2, MDS (fun r c => A.get r c) := by
  refine ⟨Mat.ofFn fun _ _ => 1, ?_⟩
  have h := ones_mds (F := ℚ) (d := 2) (fun c => if c = 0 then 0 else 1) (by
    intro a b; fin_cases a <;> fin_cases b <;> simp)
  simpa using h

/-- a concrete instance: data shard 0 lost, `Reconstruct` brings the whole codeword back -/
example (data : Fin 2 → Shard ℚ 3) :
    reconstruct (Mat.ofFn fun _ _ => (1 : ℚ) : Mat ℚ 1 2)
        (erase (encodeAll (Mat.ofFn fun _ _ => (1 : ℚ) : Mat ℚ 1 2) data) (fun i => decide (i.val ≠ 0))) .all =
      .ok fun i => some (encodeAll (Mat.ofFn fun _ _ => (1 : ℚ) : Mat ℚ 1 2) data i) := by
  refine C02_reconstruct_all _ ?_ data _ (by decide)
  have h := ones_mds (F := ℚ) (d := 2) (fun c => if c = 0 then 0 else 1) (by
    intro a b; fin_cases a <;> fin_cases b <;> simp)
  simpa using h

end RSV.Props.C02

#print axioms RSV.Props.C02.C02_mds
#print axioms RSV.Props.C02.C02_any
#print axioms RSV.Props.C02.C02_never_wrong
#print axioms RSV.Props.C02.C02_present_untouched
#print axioms RSV.Props.C02.C02_noop
#print axioms RSV.Props.C02.C02_too_few
#print axioms RSV.Props.C02.C02_too_few_iff
#print axioms RSV.Props.C02.C02_enough
#print axioms RSV.Props.C02.C02_reconstruct_all
#print axioms RSV.Props.C02.C02_spec_all
#print axioms RSV.Props.C02.C02_spec_data
#print axioms RSV.Props.C02.C02_spec_some
