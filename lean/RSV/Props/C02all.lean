import RSV.Props.C02
import RSV.Props.C17invert
/-! C02 umbrella: the reconstruction theorems (`RSV.Props.C02`, about `RSV.Model.invert`) and the theorem that the package's
`matrix.Invert`, as regenerated from the current `matrix.go`, IS that inversion (`RSV.Props.C17invert.C17m_Invert`) -/
