import RSV.Props.C03gen
import RSV.Proofs.Columns
/-!
# C03 — Encode produces exactly the specified GF(2^8) code and leaves data untouched

Generator identities are in `RSV.Props.C03gen`; here: what Encode does with a generator.
`encodeAll A data` is the model of the shard set after `Encode`.
-/
namespace RSV.Props.C03
open RSV RSV.Model

variable {F : Type} [Field F] {d p len : ℕ}

/-- byte `k` of parity shard `r` is `Σ_c A[r][c] · data[c][k]` -/
theorem C03_encode_formula (A : Mat F p d) (data : Fin d → Shard F len) (r : Fin p) (k : Fin len) :
    (encodeSpec A data r)[k] = ∑ c, A.get r c * (data c)[k] := encodeSpec_getElem A data r k

/-- Encode leaves the data shards unchanged -/
theorem C03_data_untouched (A : Mat F p d) (data : Fin d → Shard F len) (i : Fin (d + p)) (h : i.val < d) :
    encodeAll A data i = data ⟨i.val, h⟩ := by
  simp [encodeAll, h]

/-- parity shards of the encoded set are `encodeSpec` -/
theorem C03_parity (A : Mat F p d) (data : Fin d → Shard F len) (i : Fin (d + p)) (h : ¬ i.val < d) :
    encodeAll A data i = encodeSpec A data ⟨i.val - d, by omega⟩ := by
  simp [encodeAll, h]

/-- column-locality: a parity byte depends only on the data bytes at the same offset — so slicing or
concatenating shard sets commutes with encoding (two data sets, possibly of different lengths,
that agree in column `k` / `k'` give the same parity byte there) -/
theorem C03_local {len' : ℕ} (A : Mat F p d) (data : Fin d → Shard F len) (data' : Fin d → Shard F len')
    (k : Fin len) (k' : Fin len') (h : ∀ c, (data c)[k] = (data' c)[k']) (r : Fin p) :
    (encodeSpec A data r)[k] = (encodeSpec A data' r)[k'] := by
  rw [encodeSpec_getElem, encodeSpec_getElem]
  exact Finset.sum_congr rfl fun c _ => by rw [h c]

/-- linearity in the data (xor of two data sets encodes to the xor of the parities) -/
theorem C03_linear (A : Mat F p d) (data data' : Fin d → Shard F len) (r : Fin p) (k : Fin len) :
    (encodeSpec A (fun c => Vector.ofFn fun j => (data c)[j] + (data' c)[j]) r)[k]
      = (encodeSpec A data r)[k] + (encodeSpec A data' r)[k] := by
  simp only [encodeSpec_getElem]
  rw [← Finset.sum_add_distrib]
  refine Finset.sum_congr rfl fun c _ => ?_
  have : (Vector.ofFn fun j : Fin len => (data c)[j] + (data' c)[j])[k] = (data c)[k] + (data' c)[k] := by
    simp [Fin.getElem_fin]
  rw [this]; ring

/-- the field of the codec: multiplication of `GF256` is multiplication of polynomials over GF(2)
modulo `x^8+x^4+x^3+x^2+1`, addition is xor -/
theorem C03_field (a b : GF256) : (a * b).val = BF.pmul 8 0x11D a.val b.val ∧ (a + b).val = a.val ^^^ b.val :=
  ⟨rfl, rfl⟩

example : (GF256.ofNat 2 * GF256.ofNat 128).val = 0x1D := by decide

end RSV.Props.C03
