import RSV.Props.C03
import RSV.Props.C17matrix
import RSV.Props.C17buildMatrix
/-! C03 umbrella: the encoding theorems (`RSV.Props.C03`, about the generators of `RSV.Model.Builders`) and the theorems that the
package's generator builders, as regenerated from the current Go source, build exactly those matrices
(`RSV.Props.C17matrix`, `RSV.Props.C17buildMatrix`) -/
