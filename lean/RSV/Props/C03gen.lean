import RSV.Props.C01
/-!
# Property C03 (generator part) — the generators are systematic and have the published entries

* top `d × d` square of every generator is the identity (`C03_top_*`);
* closed forms of the parity entries: `1/(i xor j)` (Cauchy), `(c+1)^r` (PAR1), `1` (XOR),
  Lagrange basis values (default), and the defining equation of the default generator
  `G · (top Vandermonde) = Vandermonde`.

Statements about the concrete carrier `GF256`; `GF256.ofNat r` is `byte(r)`.
-/

-- some hypotheses (`0 < d`, `0 < p`, `d + p ≤ 256`) are part of the published statements but
-- not needed by every proof
set_option linter.unusedVariables false

namespace RSV.Props.C03gen
open RSV.Model RSV.CodeTheory RSV.Generators RSV.Props.C01

/-! ### the top square is the identity -/

theorem C03_top_default (d p : ℕ) (hd : 0 < d) (hp : 0 < p) (h : d + p ≤ 256)
    (G : Mat GF256 (d + p) d)
    (hG : buildMatrix GF256.ofNat d (d + p) (Nat.le_add_right d p) = some G)
    (i : Fin (d + p)) (hi : i.val < d) (c : Fin d) :
    G.get i c = if i.val = c.val then 1 else 0 :=
  buildMatrix_top GF256.ofNat d (d + p) _ (ofNat_injOn_le (by omega)) G hG i hi c

theorem C03_top_cauchy (d p : ℕ) (i : Fin (d + p)) (hi : i.val < d) (c : Fin d) :
    (buildMatrixCauchy GF256.ofNat d (d + p)).get i c = if i.val = c.val then 1 else 0 :=
  buildMatrixCauchy_top GF256.ofNat d (d + p) i hi c

theorem C03_top_par1 (d p : ℕ) (i : Fin (d + p)) (hi : i.val < d) (c : Fin d) :
    (buildMatrixPAR1 GF256.ofNat d (d + p)).get i c = if i.val = c.val then 1 else 0 :=
  buildMatrixPAR1_top GF256.ofNat d (d + p) i hi c

theorem C03_top_xor (d p : ℕ) (i : Fin (d + p)) (hi : i.val < d) (c : Fin d) :
    (buildXorMatrix (F := GF256) d (d + p)).get i c = if i.val = c.val then 1 else 0 :=
  buildXorMatrix_top d (d + p) i hi c

/-! ### parity entries -/

/-- the published `1/(i xor j)` with `i = d + r` the shard index of the parity row -/
theorem C03_cauchy_entry (d p : ℕ) (h : d + p ≤ 256) (r : Fin p) (c : Fin d) :
    parityFn (buildMatrixCauchy GF256.ofNat d (d + p)) r c
      = (GF256.ofNat ((d + r.val) ^^^ c.val))⁻¹ := by
  unfold parityFn
  rw [buildMatrixCauchy_parity, GF256.ofNat_xor _ _ (by omega) (by omega)]

/-- PAR1: `(c+1)^r` -/
theorem C03_par1_entry (d p : ℕ) (r : Fin p) (c : Fin d) :
    parityFn (buildMatrixPAR1 GF256.ofNat d (d + p)) r c = (GF256.ofNat (c.val + 1)) ^ r.val :=
  buildMatrixPAR1_parity GF256.ofNat d p r c

/-- XOR parity: all ones -/
theorem C03_xor_entry (d p : ℕ) (r : Fin p) (c : Fin d) :
    parityFn (buildXorMatrix (F := GF256) d (d + p)) r c = 1 :=
  buildXorMatrix_parity d p r c

/-- default generator: every entry (top and parity rows alike) is the Lagrange basis polynomial
of node `c` over the nodes `0..d-1`, evaluated at the shard index `r`; equivalently
`G = vandermonde · (top square)⁻¹`: row `r` of `G` times the top Vandermonde square is row `r`
of the Vandermonde matrix -/
theorem C03_default_entry (d p : ℕ) (hd : 0 < d) (hp : 0 < p) (h : d + p ≤ 256)
    (G : Mat GF256 (d + p) d)
    (hG : buildMatrix GF256.ofNat d (d + p) (Nat.le_add_right d p) = some G) :
    (∀ (r : Fin (d + p)) (c : Fin d),
      G.get r c = lagrAt (fun c : Fin d => GF256.ofNat c.val) (GF256.ofNat r.val) c) ∧
    (∀ (r : Fin p) (c : Fin d),
      parityFn G r c = lagrAt (fun c : Fin d => GF256.ofNat c.val) (GF256.ofNat (d + r.val)) c) ∧
    (∀ (r : Fin (d + p)) (k : Fin d),
      ∑ c : Fin d, G.get r c * (GF256.ofNat c.val) ^ k.val = (GF256.ofNat r.val) ^ k.val) := by
  have hinj := ofNat_injOn_le (n := d) (by omega)
  refine ⟨buildMatrix_entry GF256.ofNat d (d + p) _ hinj G hG, ?_,
    buildMatrix_mul_vandermonde GF256.ofNat d (d + p) _ hinj G hG⟩
  intro r c
  unfold parityFn
  rw [parityPart_get, buildMatrix_entry GF256.ofNat d (d + p) _ hinj G hG]

/-- the defining equation determines the generator: any `G'` with
`G' · (top Vandermonde) = Vandermonde` is the matrix `buildMatrix` returns -/
theorem C03_default_unique (d p : ℕ) (hd : 0 < d) (hp : 0 < p) (h : d + p ≤ 256)
    (G : Mat GF256 (d + p) d)
    (hG : buildMatrix GF256.ofNat d (d + p) (Nat.le_add_right d p) = some G)
    (G' : Fin (d + p) → Fin d → GF256)
    (hG' : ∀ (r : Fin (d + p)) (k : Fin d),
      ∑ c : Fin d, G' r c * (GF256.ofNat c.val) ^ k.val = (GF256.ofNat r.val) ^ k.val)
    (r : Fin (d + p)) (c : Fin d) : G' r c = G.get r c := by
  have hinj := ofNat_injOn_le (n := d) (by omega)
  have hy := nodes_injective GF256.ofNat d hinj
  have h1 := (C03_default_entry d p hd hp h G hG).2.2
  have hz : (fun c => G' r c - G.get r c) = 0 := by
    apply Matrix.eq_zero_of_forall_pow_sum_mul_pow_eq_zero hy
    intro k
    have := congrArg₂ (· - ·) (hG' r k) (h1 r k)
    simp only [sub_self] at this
    rw [← this, ← Finset.sum_sub_distrib]
    exact Finset.sum_congr rfl fun c _ => by ring
  exact sub_eq_zero.mp (congrFun hz c)

/-! ### non-vacuity / concrete instances (evaluated in the kernel) -/

example : parityFn (buildMatrixCauchy GF256.ofNat 3 (3 + 2)) 1 2
    = (GF256.ofNat (4 ^^^ 2))⁻¹ := C03_cauchy_entry 3 2 (by decide) 1 2

example : ∃ G, buildMatrix GF256.ofNat 3 (3 + 2) (by decide) = some G ∧
    ∀ (i : Fin (3 + 2)) (hi : i.val < 3) (c : Fin 3), G.get i c = if i.val = c.val then 1 else 0 :=
  let ⟨G, hG, _⟩ := C01_default 3 2 (by decide) (by decide) (by decide)
  ⟨G, hG, C03_top_default 3 2 (by decide) (by decide) (by decide) G hG⟩

end RSV.Props.C03gen

#print axioms RSV.Props.C03gen.C03_top_default
#print axioms RSV.Props.C03gen.C03_top_cauchy
#print axioms RSV.Props.C03gen.C03_top_par1
#print axioms RSV.Props.C03gen.C03_top_xor
#print axioms RSV.Props.C03gen.C03_cauchy_entry
#print axioms RSV.Props.C03gen.C03_par1_entry
#print axioms RSV.Props.C03gen.C03_xor_entry
#print axioms RSV.Props.C03gen.C03_default_entry
#print axioms RSV.Props.C03gen.C03_default_unique
