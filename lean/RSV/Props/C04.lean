import RSV.Model.Leopard
import RSV.Proofs.LeoSched
/-!
# C04 — Leopard Encode: structural properties of the schedule interpreter

Model: `RSV.Model.Leo` (`RSV/Model/Leopard.lean`); lemmas: `RSV/Proofs/LeoSched.lean`.

All `run` theorems hold for ARBITRARY step lists, hence for `encodeSched d p` with every `(d, p)` and
every shard size.  Hypotheses:

* `WF len v`  — every row of `v` has `len` symbols;
* `InRange nrows nshards s` — step `s` addresses work rows `< nrows` and shards `< nshards`
  (`allInRange` is the executable form);
* `MulLinear C` — `mulSym C 0 m = 0` and `mulSym C (a ^^^ b) m = mulSym C a m ^^^ mulSym C b m`
  (the first holds by definition: `mulSym_zero`; the second is proved for the GF(2^8) context elsewhere).

Chunking is stated three ways: `C04_take` / `C04_drop` (row-wise prefix `rowsTake n` / suffix `rowsDrop n`
of a run on `n + m` symbols is the run on the prefix / suffix), `C04_window` (any symbol window `[a, b)`),
and `C04_chunking` (running on the row-wise concatenation `rowsAppend` of two symbol ranges is the
concatenation of the two runs); `C04_split` says every well-formed state is such a concatenation.
-/
namespace RSV.Props.C04
open RSV.Model.Leo RSV.Proofs.LeoSched

variable (C : Ctx)

/-! ## 1. well-formedness -/

theorem C04_wf {len : Nat} {shards w : Array Vec} {steps : List Step}
    (hw : WF len w) (hs : WF len shards) (hr : ∀ s ∈ steps, InRange w.size shards.size s) :
    WF len (run C shards len w steps) ∧ (run C shards len w steps).size = w.size :=
  run_wf C hw hs hr

/-- the number of work rows never changes, whatever the steps -/
theorem C04_size (shards : Array Vec) (len : Nat) (w : Array Vec) (steps : List Step) :
    (run C shards len w steps).size = w.size := size_run C shards len w steps

/-! ## 2. symbol-locality and chunking -/

/-- symbol `k` of every work row after `run` depends only on symbols `k` of the shards and of the
initial work rows -/
theorem C04_local {len k : Nat} (hk : k < len) {shards w : Array Vec} {steps : List Step}
    (hw : WF len w) (hs : WF len shards) (hr : ∀ s ∈ steps, InRange w.size shards.size s) :
    proj k (run C shards len w steps) = run C (proj k shards) 1 (proj k w) steps :=
  run_map C (rowHom_proj C hk) hw hs hr

/-- each row restricted to the symbol window `[a, b)` -/
def rowsWindow (a b : Nat) (v : Array Vec) : Array Vec := v.map (·.extract a b)
/-- each row restricted to its first `n` symbols -/
def rowsTake (n : Nat) (v : Array Vec) : Array Vec := v.map (·.extract 0 n)
/-- each row without its first `n` symbols -/
def rowsDrop (n : Nat) (v : Array Vec) : Array Vec := v.map fun r => r.extract n r.size
/-- row-wise concatenation -/
def rowsAppend (a b : Array Vec) : Array Vec := Array.zipWith (· ++ ·) a b

theorem C04_window {len a b : Nat} (hb : b ≤ len) {shards w : Array Vec} {steps : List Step}
    (hw : WF len w) (hs : WF len shards) (hr : ∀ s ∈ steps, InRange w.size shards.size s) :
    rowsWindow a b (run C shards len w steps) =
      run C (rowsWindow a b shards) (b - a) (rowsWindow a b w) steps :=
  run_map C (rowHom_window C hb) hw hs hr

theorem C04_take {n m : Nat} {shards w : Array Vec} {steps : List Step}
    (hw : WF (n + m) w) (hs : WF (n + m) shards) (hr : ∀ s ∈ steps, InRange w.size shards.size s) :
    rowsTake n (run C shards (n + m) w steps) = run C (rowsTake n shards) n (rowsTake n w) steps :=
  run_map C (rowHom_window C (a := 0) (b := n) (Nat.le_add_right n m)) hw hs hr

theorem C04_drop {n m : Nat} {shards w : Array Vec} {steps : List Step}
    (hw : WF (n + m) w) (hs : WF (n + m) shards) (hr : ∀ s ∈ steps, InRange w.size shards.size s) :
    rowsDrop n (run C shards (n + m) w steps) = run C (rowsDrop n shards) m (rowsDrop n w) steps := by
  have h := (rowHom_window C (len := n + m) (a := n) (b := n + m) (Nat.le_refl _)).congr
    (f' := fun r => r.extract n r.size) (fun x hx => by rw [hx])
  rw [Nat.add_sub_cancel_left] at h
  exact run_map C h hw hs hr

/-- running on the concatenation of two symbol ranges = concatenating the runs on each range -/
theorem C04_chunking {l₁ l₂ : Nat} {s₁ s₂ w₁ w₂ : Array Vec} {steps : List Step}
    (hw₁ : WF l₁ w₁) (hw₂ : WF l₂ w₂) (hs₁ : WF l₁ s₁) (hs₂ : WF l₂ s₂)
    (hws : w₁.size = w₂.size) (hss : s₁.size = s₂.size)
    (hr : ∀ s ∈ steps, InRange w₁.size s₁.size s) :
    run C (rowsAppend s₁ s₂) (l₁ + l₂) (rowsAppend w₁ w₂) steps =
      rowsAppend (run C s₁ l₁ w₁ steps) (run C s₂ l₂ w₂ steps) :=
  run_zipWith C (rowHom2_append C l₁ l₂) hw₁ hw₂ hs₁ hs₂ hws hss hr

/-- every well-formed state on `n + m` symbols is the concatenation of its prefix and suffix -/
theorem C04_split {n m : Nat} {v : Array Vec} (hv : WF (n + m) v) :
    rowsAppend (rowsTake n v) (rowsDrop n v) = v := by
  apply ext! (by simp [rowsAppend, rowsTake, rowsDrop])
  intro i hi
  have hi' : i < v.size := by
    simpa [rowsAppend, rowsTake, rowsDrop, Array.size_zipWith] using hi
  have hsz := hv i hi'
  simp only [rowsAppend, rowsTake, rowsDrop]
  rw [get!_zipWith _ _ _ i (by simpa using hi') (by simpa using hi'),
    get!_map _ v i hi', get!_map _ v i hi']
  apply ext! (by simp [Array.size_extract]; omega)
  intro k hk
  have hk' : k < n + m := by simp [Array.size_extract] at hk; omega
  rw [get!_append]
  have h1 : (v[i]!.extract 0 n).size = n := by simp [Array.size_extract]; omega
  rw [h1]
  by_cases hkn : k < n
  · rw [if_pos hkn, get!_extract _ 0 n k (by omega) (by omega), Nat.zero_add]
  · rw [if_neg hkn, get!_extract _ n _ (k - n) (by omega) (Nat.le_refl _)]
    congr 1; omega

/-! ## 3. linearity -/

/-- `run` is additive in (shards, initial work) -/
theorem C04_linear (hC : MulLinear C) {len : Nat} {s₁ s₂ w₁ w₂ : Array Vec} {steps : List Step}
    (hw₁ : WF len w₁) (hw₂ : WF len w₂) (hs₁ : WF len s₁) (hs₂ : WF len s₂)
    (hws : w₁.size = w₂.size) (hss : s₁.size = s₂.size)
    (hr : ∀ s ∈ steps, InRange w₁.size s₁.size s) :
    run C (xorRows s₁ s₂) len (xorRows w₁ w₂) steps =
      xorRows (run C s₁ len w₁ steps) (run C s₂ len w₂ steps) :=
  run_xorRows C hC hw₁ hw₂ hs₁ hs₂ hws hss hr

/-- all-zero shards and all-zero work give all-zero work -/
theorem C04_zero (hC : MulLinear C) {nrows nsh len : Nat} {steps : List Step}
    (hr : ∀ s ∈ steps, InRange nrows nsh s) :
    run C (zeroRows nsh len) len (zeroRows nrows len) steps = zeroRows nrows len :=
  run_zero C hC hr

/-- superposition: on a finite xor-combination `xorSum` of inputs (shards, work) the result is the
xor-combination of the results on the individual inputs; with the unit vectors as inputs this says the
output for arbitrary data is determined by the outputs on the unit vectors -/
theorem C04_superpose (hC : MulLinear C) {nrows nsh len : Nat} {steps : List Step}
    (hr : ∀ s ∈ steps, InRange nrows nsh s) (L : List (Array Vec × Array Vec))
    (hL : ∀ q ∈ L, (WF len q.1 ∧ q.1.size = nsh) ∧ (WF len q.2 ∧ q.2.size = nrows)) :
    run C (xorSum nsh len (L.map (·.1))) len (xorSum nrows len (L.map (·.2))) steps =
      xorSum nrows len (L.map fun q => run C q.1 len q.2 steps) :=
  run_xorSum C hC hr L hL

/-- `mulSym C 0 m = 0` is true by definition, so `MulLinear C` is exactly xor-additivity of `mulSym` -/
theorem C04_mulLinear_of_xor
    (h : ∀ a b m, mulSym C (a ^^^ b) m = mulSym C a m ^^^ mulSym C b m) : MulLinear C :=
  ⟨mulSym_zero C, h⟩

/-! ## 4. independence of the initial work contents -/

/-- if no step reads a row before it has been written (`initOK`), every row written by the schedule
(`definedAfter`) has the same final content for any two initial work areas of the same size
(no well-formedness or range hypothesis is needed) -/
theorem C04_scratch {shards : Array Vec} {len nrows : Nat} {steps : List Step}
    (hok : initOK nrows steps = true) {w w' : Array Vec} (hsz : w.size = w'.size) :
    ∀ i : Nat, (definedAfter nrows steps)[i]! = true →
      (run C shards len w steps)[i]! = (run C shards len w' steps)[i]! :=
  run_scratch C hok hsz

/-- for `encode`: if the schedule passes `initOK` and defines rows `0 … p`, then the parity shards do
not depend on the (zero) initialisation of the work area -/
theorem C04_encode_scratch (d p len : Nat) (data : Array Vec) (hp : p ≤ 2 * ceilPow2 p)
    (hok : initOK (2 * ceilPow2 p) (encodeSched C d p).toList = true)
    (hdef : ∀ i : Nat, i < p → (definedAfter (2 * ceilPow2 p) (encodeSched C d p).toList)[i]! = true)
    (w : Array Vec) (hw : w.size = 2 * ceilPow2 p) :
    (run C data len w (encodeSched C d p).toList).extract 0 p = encode C d p len data := by
  simp only [encode]
  apply ext! (by simp [Array.size_extract, hw])
  intro i hi
  have hi' : i < p := by simp [Array.size_extract, hw] at hi; omega
  rw [get!_extract _ 0 p i (by omega) (by simp [hw]; omega),
    get!_extract _ 0 p i (by omega) (by simp; omega), Nat.zero_add]
  exact run_scratch C hok (by simp [hw]) i (hdef i hi')

/-- a hand-written schedule: load two shards, clear a third row, butterfly -/
def demoSched : List Step :=
  [.load 0 0, .load 1 1, .clear 2, .xor 1 0, .mulAdd 0 1 85, .xor 2 1, .mulAdd 2 0 17]

example : initOK 4 demoSched = true := by decide
example : definedAfter 4 demoSched = #[true, true, true, false] := by decide
example : allInRange 4 2 demoSched = true := by decide
/-- reading the never-written row 3 is rejected -/
example : initOK 4 (demoSched ++ [.xor 0 3]) = false := by decide
/-- reading a row before it is written is rejected -/
example : initOK 4 [.load 0 0, .xor 1 0, .load 1 1] = false := by decide

/-- the steps `encodeSched (mkCtx P8) 3 2` evaluates to (`#eval`; the kernel cannot evaluate
`mkCtx`: `initFFTSkew` / `fwht` contain `while` loops, which are opaque to it) -/
def encodeSched_3_2 : List Step :=
  [.load 0 0, .load 1 1, .xor 1 0, .mulAdd 0 1 85, .load 2 2, .clear 3, .xor 3 2, .mulAdd 2 3 17,
   .xor 0 2, .xor 1 3, .xor 1 0]

example : initOK 4 encodeSched_3_2 = true := by decide
example : definedAfter 4 encodeSched_3_2 = #[true, true, true, true] := by decide
example : allInRange 4 3 encodeSched_3_2 = true := by decide

/-- a context with the GF(2^8) parameters and EMPTY tables: every `skewAt` is `0 ≠ modulus`, so the
generators emit every `mulAdd`; the kernel can evaluate the generators on it -/
def shapeCtx : Ctx := ⟨P8, ⟨#[], #[]⟩, ⟨#[], #[]⟩⟩

set_option maxRecDepth 1000000 in
example : initOK (2 * ceilPow2 2) (encodeSched shapeCtx 3 2).toList = true := by decide +kernel
set_option maxRecDepth 1000000 in
example : allInRange (2 * ceilPow2 2) 3 (encodeSched shapeCtx 3 2).toList = true := by decide +kernel
set_option maxRecDepth 1000000 in
example : initOK (2 * ceilPow2 3) (encodeSched shapeCtx 10 3).toList = true := by decide +kernel
set_option maxRecDepth 1000000 in
example : allInRange (2 * ceilPow2 3) 10 (encodeSched shapeCtx 10 3).toList = true := by decide +kernel

/-! ## 5. shape of `encode`, read-only shards, `encode` itself is local / linear / chunkable -/

theorem C04_encode_shape (d p len : Nat) (data : Array Vec) (hp : p ≤ 2 * ceilPow2 p) :
    (encode C d p len data).size = p := size_encode C d p len data hp

theorem C04_le_ceilPow2 (n : Nat) (h : n ≤ 2 ^ 64) : n ≤ ceilPow2 n := le_ceilPow2 n h

theorem C04_encode_shape' (d p len : Nat) (data : Array Vec) (hp : p ≤ 2 ^ 64) :
    (encode C d p len data).size = p :=
  size_encode C d p len data (by have := le_ceilPow2 p hp; omega)

/-- the shard set is a read-only parameter of `run`: it is not part of the result, and running
`s₁ ++ s₂` is running `s₁` and then `s₂` against the SAME shards -/
theorem C04_shards_readonly (shards : Array Vec) (len : Nat) (w : Array Vec) (s₁ s₂ : List Step) :
    run C shards len w (s₁ ++ s₂) = run C shards len (run C shards len w s₁) s₂ :=
  run_append C shards len w s₁ s₂

theorem C04_encode_local {len k : Nat} (hk : k < len) (d p : Nat) {data : Array Vec}
    (hs : WF len data)
    (hr : ∀ s ∈ (encodeSched C d p).toList, InRange (2 * ceilPow2 p) data.size s) :
    proj k (encode C d p len data) = encode C d p 1 (proj k data) :=
  encode_map C (rowHom_proj C hk) d p hs hr

theorem C04_encode_chunking {l₁ l₂ : Nat} (d p : Nat) {s₁ s₂ : Array Vec}
    (hs₁ : WF l₁ s₁) (hs₂ : WF l₂ s₂) (hss : s₁.size = s₂.size)
    (hr : ∀ s ∈ (encodeSched C d p).toList, InRange (2 * ceilPow2 p) s₁.size s) :
    encode C d p (l₁ + l₂) (rowsAppend s₁ s₂) =
      rowsAppend (encode C d p l₁ s₁) (encode C d p l₂ s₂) :=
  encode_zipWith C (rowHom2_append C l₁ l₂) d p hs₁ hs₂ hss hr

theorem C04_encode_linear (hC : MulLinear C) {len : Nat} (d p : Nat) {s₁ s₂ : Array Vec}
    (hs₁ : WF len s₁) (hs₂ : WF len s₂) (hss : s₁.size = s₂.size)
    (hr : ∀ s ∈ (encodeSched C d p).toList, InRange (2 * ceilPow2 p) s₁.size s) :
    encode C d p len (xorRows s₁ s₂) = xorRows (encode C d p len s₁) (encode C d p len s₂) :=
  encode_zipWith C (rowHom2_xor C hC len) d p hs₁ hs₂ hss hr

end RSV.Props.C04

#print axioms RSV.Props.C04.C04_wf
#print axioms RSV.Props.C04.C04_size
#print axioms RSV.Props.C04.C04_local
#print axioms RSV.Props.C04.C04_window
#print axioms RSV.Props.C04.C04_take
#print axioms RSV.Props.C04.C04_drop
#print axioms RSV.Props.C04.C04_chunking
#print axioms RSV.Props.C04.C04_split
#print axioms RSV.Props.C04.C04_linear
#print axioms RSV.Props.C04.C04_zero
#print axioms RSV.Props.C04.C04_superpose
#print axioms RSV.Props.C04.C04_mulLinear_of_xor
#print axioms RSV.Props.C04.C04_scratch
#print axioms RSV.Props.C04.C04_encode_scratch
#print axioms RSV.Props.C04.C04_encode_shape
#print axioms RSV.Props.C04.C04_le_ceilPow2
#print axioms RSV.Props.C04.C04_encode_shape'
#print axioms RSV.Props.C04.C04_shards_readonly
#print axioms RSV.Props.C04.C04_encode_local
#print axioms RSV.Props.C04.C04_encode_chunking
#print axioms RSV.Props.C04.C04_encode_linear
