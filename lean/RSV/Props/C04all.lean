import RSV.Props.C17funcs
import RSV.Props.C04
import RSV.Props.C17leo
import RSV.Props.C04gf8
import RSV.Props.C04range
import RSV.Props.C04gf16
import RSV.Props.C04leoAll
import RSV.Props.Consts
/-!
# C04 umbrella — Leopard Encode

Structural theorems about the schedule interpreter are in `RSV.Props.C04` (symbol-locality ⇒ any
chunking, xor-linearity, scratch independence, for arbitrary step lists).  Field and table facts
for GF(2^8) are in `RSV.Props.C17leo`, the MDS certificate in `RSV.Props.C01leo`.  What ties the
schedule *generators* to the Lin–Chung–Han transform is the per-configuration equality of the
generated matrix with the Lagrange closed form, checked by the driver (flag `l0`) — an executed
check, not a theorem.
-/
namespace RSV.Props.C04all
open RSV.Model.Leo RSV.Proofs.LeoSched RSV.Props.C04

/-- the 32 KiB work chunk of the GF(2^8) codec is a multiple of 64 bytes, the size Encode insists on -/
theorem C04_chunk_constants : RSV.Gen.workSize8 = 32768 ∧ RSV.Gen.workSize8 % 64 = 0 ∧ RSV.Gen.inversion8Bytes * 8 = RSV.Gen.order8 :=
  RSV.Props.Consts.leopard_constants

/-- chunking cannot change a symbol: encoding a shard set cut in two (at any symbol boundary) and
concatenating the results equals encoding it whole — for every configuration whose schedule
addresses rows in range (decided per configuration by the driver: flag `sched`) -/
theorem C04_chunk_independent (C : Ctx) (d p l₁ l₂ : Nat) (s₁ s₂ : Array Vec)
    (h₁ : WF l₁ s₁) (h₂ : WF l₂ s₂) (hs : s₁.size = s₂.size)
    (hr : ∀ s ∈ (encodeSched C d p).toList, InRange (2 * ceilPow2 p) s₁.size s) :
    encode C d p (l₁ + l₂) (rowsAppend s₁ s₂) = rowsAppend (encode C d p l₁ s₁) (encode C d p l₂ s₂) :=
  C04_encode_chunking C d p h₁ h₂ hs hr

end RSV.Props.C04all
