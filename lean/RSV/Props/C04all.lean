import RSV.Model.LeoCert
/-! umbrella for the C04 check; the proved property files are imported as they land -/
namespace RSV.Props.C04all
theorem C04_placeholder : True := trivial
end RSV.Props.C04all
