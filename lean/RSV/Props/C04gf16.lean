import RSV.Proofs.Leo16.Mul
/-!
# C04 / C05 for GF(2^16): xor-linearity of Leopard Encode / Reconstruct on 16-bit symbol shards

The GF(2^16) counterpart of `RSV/Props/C04gf8.lean`.  `C04_mulLinearOn_gf16` instantiates the bounded
hypothesis `MulLinearOn C B` of `RSV/Proofs/LeoSchedBounded.lean` for the model's real GF(2^16) context
`C16 = Leo.mkCtx Leo.P16` with `B = 65536`; it is proved structurally from the loops of `initLUTs`
(`RSV/Proofs/Leo16/*.lean`), no 65,536-entry table is evaluated.

The remaining hypotheses of the corollaries are per-configuration executable checks
(`allInRange … = true`, `allLogsBelow 65536 … = true`), well-formedness (all rows of one length) and
"all symbols are below 65536".
-/
namespace RSV.Props.C04gf16
open RSV.Model RSV.Model.Leo RSV.Proofs.LeoSched RSV.Proofs.Leo16

/-- the context of the field theorems is the model's `mkCtx P16` -/
theorem C16_eq_mkCtx : C16 = Leo.mkCtx Leo.P16 := rfl

/-- the bounded algebraic hypothesis holds for the GF(2^16) tables -/
theorem C04_mulLinearOn_gf16 : MulLinearOn (Leo.mkCtx Leo.P16) 65536 := mulLinearOn_gf16

theorem C04_modulus_gf16 : C16.P.modulus < 65536 := by
  show Leo.P16.modulus < 65536; decide

/-! ## the interpreter -/

/-- 16-bit symbols stay 16-bit symbols -/
theorem C04_run_syms_gf16 {len : Nat} {shards w : Array Vec} {steps : List Step}
    (bw : SymsBelow 65536 w) (bs : SymsBelow 65536 shards)
    (hl : allLogsBelow 65536 steps = true) :
    SymsBelow 65536 (run C16 shards len w steps) :=
  run_symsBelow C16 mulLinearOn_gf16 bw bs ((allLogsBelow_iff 65536 steps).mp hl)

/-- `run` over GF(2^16) is xor-linear on 16-bit inputs, for any schedule in range with 16-bit
multipliers -/
theorem C04_linear_gf16 {len : Nat} {s₁ s₂ w₁ w₂ : Array Vec} {steps : List Step}
    (hw₁ : WF len w₁) (hw₂ : WF len w₂) (hs₁ : WF len s₁) (hs₂ : WF len s₂)
    (bw₁ : SymsBelow 65536 w₁) (bw₂ : SymsBelow 65536 w₂) (bs₁ : SymsBelow 65536 s₁)
    (bs₂ : SymsBelow 65536 s₂)
    (hws : w₁.size = w₂.size) (hss : s₁.size = s₂.size)
    (hr : allInRange w₁.size s₁.size steps = true) (hl : allLogsBelow 65536 steps = true) :
    run C16 (xorRows s₁ s₂) len (xorRows w₁ w₂) steps =
      xorRows (run C16 s₁ len w₁ steps) (run C16 s₂ len w₂ steps) :=
  run_xorRows_on C16 mulLinearOn_gf16 hw₁ hw₂ hs₁ hs₂ bw₁ bw₂ bs₁ bs₂ hws hss
    ((allInRange_iff _ _ steps).mp hr) ((allLogsBelow_iff 65536 steps).mp hl)

/-! ## Encode -/

/-- Leopard GF(2^16) Encode is xor-linear on 16-bit symbol shards -/
theorem C04_encode_linear_gf16 {len : Nat} (d p : Nat) {s₁ s₂ : Array Vec}
    (hs₁ : WF len s₁) (hs₂ : WF len s₂) (bs₁ : SymsBelow 65536 s₁) (bs₂ : SymsBelow 65536 s₂)
    (hss : s₁.size = s₂.size)
    (hr : allInRange (2 * ceilPow2 p) s₁.size (encodeSched C16 d p).toList = true)
    (hl : allLogsBelow 65536 (encodeSched C16 d p).toList = true) :
    encode C16 d p len (xorRows s₁ s₂) =
      xorRows (encode C16 d p len s₁) (encode C16 d p len s₂) :=
  C04_encode_linear_on C16 mulLinearOn_gf16 d p hs₁ hs₂ bs₁ bs₂ hss
    ((allInRange_iff _ _ _).mp hr) ((allLogsBelow_iff 65536 _).mp hl)

/-- the parity shards of 16-bit symbol shards are 16-bit symbol shards -/
theorem C04_encode_syms_gf16 {len : Nat} (d p : Nat) {data : Array Vec}
    (bs : SymsBelow 65536 data)
    (hl : allLogsBelow 65536 (encodeSched C16 d p).toList = true) :
    SymsBelow 65536 (encode C16 d p len data) :=
  C04_encode_symsBelow C16 mulLinearOn_gf16 d p bs ((allLogsBelow_iff 65536 _).mp hl)

/-- all-zero data encodes to all-zero parity -/
theorem C04_encode_zero_gf16 {len nsh : Nat} (d p : Nat)
    (hr : allInRange (2 * ceilPow2 p) nsh (encodeSched C16 d p).toList = true) :
    encode C16 d p len (zeroRows nsh len) = (zeroRows (2 * ceilPow2 p) len).extract 0 p := by
  simp only [encode]
  have h := run_zero_on C16 mulLinearOn_gf16 (len := len) ((allInRange_iff _ _ _).mp hr)
  simp only [zeroRows] at h ⊢
  rw [h]

/-! ## Reconstruct -/

/-- Leopard GF(2^16) Reconstruct is xor-linear on 16-bit symbol shards, for a FIXED erasure set -/
theorem C05_reconstruct_linear_gf16 {len : Nat} (d p : Nat) {s₁ s₂ : Array Vec}
    (missing : Nat → Bool) (recoverAll : Bool)
    (hs₁ : WF len s₁) (hs₂ : WF len s₂) (bs₁ : SymsBelow 65536 s₁) (bs₂ : SymsBelow 65536 s₂)
    (hss : s₁.size = s₂.size) (hp : p ≤ 2 ^ 64) (hn : ceilPow2 p + d ≤ 2 ^ 64)
    (hr : allInRange (ceilPow2 (ceilPow2 p + d)) s₁.size
      (reconSched C16 d p missing (errLocs C16 d p missing)).toList = true)
    (hl : allLogsBelow 65536
      (reconSched C16 d p missing (errLocs C16 d p missing)).toList = true) :
    reconstruct C16 d p len (xorRows s₁ s₂) missing recoverAll =
      Array.zipWith (optZip xorVec) (reconstruct C16 d p len s₁ missing recoverAll)
        (reconstruct C16 d p len s₂ missing recoverAll) :=
  C05_reconstruct_linear_on C16 mulLinearOn_gf16 C04_modulus_gf16 d p missing recoverAll
    hs₁ hs₂ bs₁ bs₂ hss (RSV.Proofs.LeoSched.le_ceilPow2 p hp)
    (RSV.Proofs.LeoSched.le_ceilPow2 _ hn)
    ((allInRange_iff _ _ _).mp hr) ((allLogsBelow_iff 65536 _).mp hl)

end RSV.Props.C04gf16

#print axioms RSV.Props.C04gf16.C16_eq_mkCtx
#print axioms RSV.Props.C04gf16.C04_mulLinearOn_gf16
#print axioms RSV.Props.C04gf16.C04_modulus_gf16
#print axioms RSV.Props.C04gf16.C04_run_syms_gf16
#print axioms RSV.Props.C04gf16.C04_linear_gf16
#print axioms RSV.Props.C04gf16.C04_encode_linear_gf16
#print axioms RSV.Props.C04gf16.C04_encode_syms_gf16
#print axioms RSV.Props.C04gf16.C04_encode_zero_gf16
#print axioms RSV.Props.C04gf16.C05_reconstruct_linear_gf16
