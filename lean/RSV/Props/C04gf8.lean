import RSV.Props.C17leo
import RSV.Props.C05
import RSV.Proofs.LeoSchedBounded
/-!
# C04 / C05 for GF(2^8): xor-linearity of Leopard Encode / Reconstruct on byte shards

`RSV.Props.C04.C04_linear` assumes `MulLinear C`, which quantifies over all naturals and therefore
cannot be instantiated by a table context (`mulSym` reads `T.log[a]!`).  The bounded hypothesis
`MulLinearOn C B` (`RSV/Proofs/LeoSchedBounded.lean`) can: `C04_mulLinearOn_gf8` proves it for the
GF(2^8) context `C8` with `B = 256` from `C17leo_mulLog_linear`.  `C8 = Leo.mkCtx Leo.P8` by
definition (`C8_eq_mkCtx`), the context used by the driver.

The remaining hypotheses of the `gf8` corollaries are per-configuration executable checks
(`allInRange … = true`, `allLogsBelow 256 … = true`: the schedule addresses rows in range and all
multipliers are bytes), well-formedness (all rows of one length) and "all symbols are bytes".
-/
namespace RSV.Props.C04gf8
open RSV.Model RSV.Model.Leo RSV.Proofs.LeoSched RSV.Proofs.LeoField

/-- the context of the field theorems is the model's `mkCtx P8` -/
theorem C8_eq_mkCtx : C8 = Leo.mkCtx Leo.P8 := rfl

/-- the bounded algebraic hypothesis holds for the GF(2^8) tables -/
theorem C04_mulLinearOn_gf8 : MulLinearOn C8 256 where
  zero := mulSym_zero C8
  lt := fun a m ha hm => (RSV.Props.C17leo.C17leo_mulLog_linear a a m ha ha hm).2
  xor := fun a b m ha hb hm => (RSV.Props.C17leo.C17leo_mulLog_linear a b m ha hb hm).1
  pow2 := ⟨8, by decide⟩

theorem C04_modulus_gf8 : C8.P.modulus < 256 := by decide

/-! ## the interpreter -/

/-- byte symbols stay bytes -/
theorem C04_run_bytes_gf8 {len : Nat} {shards w : Array Vec} {steps : List Step}
    (bw : SymsBelow 256 w) (bs : SymsBelow 256 shards) (hl : allLogsBelow 256 steps = true) :
    SymsBelow 256 (run C8 shards len w steps) :=
  run_symsBelow C8 C04_mulLinearOn_gf8 bw bs ((allLogsBelow_iff 256 steps).mp hl)

/-- `run` over GF(2^8) is xor-linear on byte inputs, for any schedule in range with byte multipliers -/
theorem C04_linear_gf8 {len : Nat} {s₁ s₂ w₁ w₂ : Array Vec} {steps : List Step}
    (hw₁ : WF len w₁) (hw₂ : WF len w₂) (hs₁ : WF len s₁) (hs₂ : WF len s₂)
    (bw₁ : SymsBelow 256 w₁) (bw₂ : SymsBelow 256 w₂) (bs₁ : SymsBelow 256 s₁) (bs₂ : SymsBelow 256 s₂)
    (hws : w₁.size = w₂.size) (hss : s₁.size = s₂.size)
    (hr : allInRange w₁.size s₁.size steps = true) (hl : allLogsBelow 256 steps = true) :
    run C8 (xorRows s₁ s₂) len (xorRows w₁ w₂) steps =
      xorRows (run C8 s₁ len w₁ steps) (run C8 s₂ len w₂ steps) :=
  run_xorRows_on C8 C04_mulLinearOn_gf8 hw₁ hw₂ hs₁ hs₂ bw₁ bw₂ bs₁ bs₂ hws hss
    ((allInRange_iff _ _ steps).mp hr) ((allLogsBelow_iff 256 steps).mp hl)

/-! ## Encode -/

/-- Leopard GF(2^8) Encode is xor-linear on byte shards -/
theorem C04_encode_linear_gf8 {len : Nat} (d p : Nat) {s₁ s₂ : Array Vec}
    (hs₁ : WF len s₁) (hs₂ : WF len s₂) (bs₁ : SymsBelow 256 s₁) (bs₂ : SymsBelow 256 s₂)
    (hss : s₁.size = s₂.size)
    (hr : allInRange (2 * ceilPow2 p) s₁.size (encodeSched C8 d p).toList = true)
    (hl : allLogsBelow 256 (encodeSched C8 d p).toList = true) :
    encode C8 d p len (xorRows s₁ s₂) = xorRows (encode C8 d p len s₁) (encode C8 d p len s₂) :=
  C04_encode_linear_on C8 C04_mulLinearOn_gf8 d p hs₁ hs₂ bs₁ bs₂ hss
    ((allInRange_iff _ _ _).mp hr) ((allLogsBelow_iff 256 _).mp hl)

/-- the parity shards of byte shards are byte shards -/
theorem C04_encode_bytes_gf8 {len : Nat} (d p : Nat) {data : Array Vec} (bs : SymsBelow 256 data)
    (hl : allLogsBelow 256 (encodeSched C8 d p).toList = true) :
    SymsBelow 256 (encode C8 d p len data) :=
  C04_encode_symsBelow C8 C04_mulLinearOn_gf8 d p bs ((allLogsBelow_iff 256 _).mp hl)

/-- all-zero data encodes to all-zero parity -/
theorem C04_encode_zero_gf8 {len nsh : Nat} (d p : Nat)
    (hr : allInRange (2 * ceilPow2 p) nsh (encodeSched C8 d p).toList = true) :
    encode C8 d p len (zeroRows nsh len) = (zeroRows (2 * ceilPow2 p) len).extract 0 p := by
  simp only [encode]
  have h := run_zero_on C8 C04_mulLinearOn_gf8 (len := len) ((allInRange_iff _ _ _).mp hr)
  simp only [zeroRows] at h ⊢
  rw [h]

/-! ## Reconstruct -/

/-- Leopard GF(2^8) Reconstruct is xor-linear on byte shards, for a FIXED erasure set -/
theorem C05_reconstruct_linear_gf8 {len : Nat} (d p : Nat) {s₁ s₂ : Array Vec}
    (missing : Nat → Bool) (recoverAll : Bool)
    (hs₁ : WF len s₁) (hs₂ : WF len s₂) (bs₁ : SymsBelow 256 s₁) (bs₂ : SymsBelow 256 s₂)
    (hss : s₁.size = s₂.size) (hp : p ≤ 2 ^ 64) (hn : ceilPow2 p + d ≤ 2 ^ 64)
    (hr : allInRange (ceilPow2 (ceilPow2 p + d)) s₁.size
      (reconSched C8 d p missing (errLocs C8 d p missing)).toList = true)
    (hl : allLogsBelow 256 (reconSched C8 d p missing (errLocs C8 d p missing)).toList = true) :
    reconstruct C8 d p len (xorRows s₁ s₂) missing recoverAll =
      Array.zipWith (optZip xorVec) (reconstruct C8 d p len s₁ missing recoverAll)
        (reconstruct C8 d p len s₂ missing recoverAll) :=
  C05_reconstruct_linear_on C8 C04_mulLinearOn_gf8 C04_modulus_gf8 d p missing recoverAll
    hs₁ hs₂ bs₁ bs₂ hss (RSV.Proofs.LeoSched.le_ceilPow2 p hp) (RSV.Proofs.LeoSched.le_ceilPow2 _ hn)
    ((allInRange_iff _ _ _).mp hr) ((allLogsBelow_iff 256 _).mp hl)

end RSV.Props.C04gf8

#print axioms RSV.Proofs.LeoSched.run_symsBelow
#print axioms RSV.Proofs.LeoSched.run_xorRows_on
#print axioms RSV.Proofs.LeoSched.run_zero_on
#print axioms RSV.Proofs.LeoSched.C04_encode_linear_on
#print axioms RSV.Proofs.LeoSched.C04_encode_symsBelow
#print axioms RSV.Proofs.LeoSched.C05_reconstruct_linear_on
#print axioms RSV.Props.C04gf8.C8_eq_mkCtx
#print axioms RSV.Props.C04gf8.C04_mulLinearOn_gf8
#print axioms RSV.Props.C04gf8.C04_modulus_gf8
#print axioms RSV.Props.C04gf8.C04_run_bytes_gf8
#print axioms RSV.Props.C04gf8.C04_linear_gf8
#print axioms RSV.Props.C04gf8.C04_encode_linear_gf8
#print axioms RSV.Props.C04gf8.C04_encode_bytes_gf8
#print axioms RSV.Props.C04gf8.C04_encode_zero_gf8
#print axioms RSV.Props.C04gf8.C05_reconstruct_linear_gf8
