import RSV.Props.C04lch
import RSV.Proofs.LCHBridge.Instances
/-!
# C04 / C01 (Leopard) — for EVERY admissible configuration, GF(2^8) and GF(2^16)

`RSV.Props.C04lch` proves, for any table context with a field reading `F` whose skew table is correct
(`SkewOK F`), that the executable schedule model `Leo.encode` (radix-4 butterfly loops, truncation, groups of
`m = ceilPow2 p` shards, log/exp table arithmetic) computes the systematic code of the explicit generalised
Cauchy matrix `encMatrix`, and that this matrix is MDS.  `RSV.Proofs.LCHBridge.Instances` supplies the two
real contexts: `F8` (`mkCtx P8` read in `GF256` through the Cantor map) and `F16` (`mkCtx P16` in `GF65536`),
and `RSV.Proofs.LCHBridge.Skew` proves `SkewOK` structurally from the loops of `initFFTSkew` (no table
evaluation), hence `skewOK8`, `skewOK16`.

Instantiated here: no configuration is enumerated and no certificate is run —

* `C04_leo8_encode_all`, `C04_leo16_encode_all`: for all `0 < d`, `p ≤ 2^64` with `d + ceilPow2 p ≤ 256`
  (resp. `65536`) — exactly the shapes `New` accepts for the Leopard codecs — and every well-formed input of
  symbols below the field order: every parity symbol is the codeword coordinate of `encMatrix`, and `encMatrix`
  is MDS;
* `C01_leo8_any_d_all`, `C01_leo16_any_d_all`: any `d` of the `d + p` symbols (data and parity symbols as the
  model computes them) at a symbol position determine the data symbols there.
-/
namespace RSV.Props.C04leoAll
open RSV RSV.Model.Leo RSV.LCH RSV.LCHBridge RSV.Proofs.LeoSched RSV.Props.C04lch

/-- Leopard GF(2^8): Encode is the LCH code and the code is MDS, for every admissible `(d, p)` -/
theorem C04_leo8_encode_all {d p : ℕ} (hd : 0 < d) (hp64 : p ≤ 2 ^ 64) (hadm : d + ceilPow2 p ≤ 256) :
    ∃ t, ceilPow2 p = 2 ^ t ∧ CodeTheory.MDS (encMatrix (beta F8) 8 t p d) ∧
      ∀ (len : ℕ) (data : Array Vec), d ≤ data.size → WF len data → SymsBelow 256 data →
        ∀ (r : Fin p) (s : ℕ), s < len →
          F8.φ (((encode (mkCtx P8) d p len data)[r.val]!)[s]!) =
            CodeTheory.cw (encMatrix (beta F8) 8 t p d) (fun c => F8.φ ((data[c.val]!)[s]!)) (Sum.inr r) :=
  C04_encode_lch_all F8 skewOK8 hd hp64 hadm

/-- Leopard GF(2^16): the same for every admissible `(d, p)` up to 65,536 shards -/
theorem C04_leo16_encode_all {d p : ℕ} (hd : 0 < d) (hp64 : p ≤ 2 ^ 64) (hadm : d + ceilPow2 p ≤ 65536) :
    ∃ t, ceilPow2 p = 2 ^ t ∧ CodeTheory.MDS (encMatrix (beta F16) 16 t p d) ∧
      ∀ (len : ℕ) (data : Array Vec), d ≤ data.size → WF len data → SymsBelow 65536 data →
        ∀ (r : Fin p) (s : ℕ), s < len →
          F16.φ (((encode (mkCtx P16) d p len data)[r.val]!)[s]!) =
            CodeTheory.cw (encMatrix (beta F16) 16 t p d) (fun c => F16.φ ((data[c.val]!)[s]!)) (Sum.inr r) :=
  C04_encode_lch_all F16 skewOK16 hd hp64 hadm

/-- Leopard GF(2^8): any `d` of the `d + p` symbols determine the data — every admissible `(d, p)` -/
theorem C01_leo8_any_d_all {d p len s : ℕ} {data data' : Array Vec}
    (hd : 0 < d) (hp64 : p ≤ 2 ^ 64) (hadm : d + ceilPow2 p ≤ 256)
    (hdsz : d ≤ data.size) (hwd : WF len data) (hbd : SymsBelow 256 data)
    (hdsz' : d ≤ data'.size) (hwd' : WF len data') (hbd' : SymsBelow 256 data') (hs : s < len)
    (S : Finset (Fin d ⊕ Fin p)) (hcard : S.card = d)
    (hdata : ∀ c : Fin d, Sum.inl c ∈ S → (data[c.val]!)[s]! = (data'[c.val]!)[s]!)
    (hpar : ∀ r : Fin p, Sum.inr r ∈ S →
      ((encode (mkCtx P8) d p len data)[r.val]!)[s]! = ((encode (mkCtx P8) d p len data')[r.val]!)[s]!) :
    ∀ c : Fin d, (data[c.val]!)[s]! = (data'[c.val]!)[s]! := by
  obtain ⟨t, hm⟩ := RSV.Proofs.LeoSchedRange.ceilPow2_pow2 p
  exact C04_encode_any_d F8 skewOK8 hd hp64 hm hadm hdsz hwd hbd hdsz' hwd' hbd' hs S hcard hdata hpar

/-- Leopard GF(2^16): any `d` of the `d + p` symbols determine the data — every admissible `(d, p)` -/
theorem C01_leo16_any_d_all {d p len s : ℕ} {data data' : Array Vec}
    (hd : 0 < d) (hp64 : p ≤ 2 ^ 64) (hadm : d + ceilPow2 p ≤ 65536)
    (hdsz : d ≤ data.size) (hwd : WF len data) (hbd : SymsBelow 65536 data)
    (hdsz' : d ≤ data'.size) (hwd' : WF len data') (hbd' : SymsBelow 65536 data') (hs : s < len)
    (S : Finset (Fin d ⊕ Fin p)) (hcard : S.card = d)
    (hdata : ∀ c : Fin d, Sum.inl c ∈ S → (data[c.val]!)[s]! = (data'[c.val]!)[s]!)
    (hpar : ∀ r : Fin p, Sum.inr r ∈ S →
      ((encode (mkCtx P16) d p len data)[r.val]!)[s]! = ((encode (mkCtx P16) d p len data')[r.val]!)[s]!) :
    ∀ c : Fin d, (data[c.val]!)[s]! = (data'[c.val]!)[s]! := by
  obtain ⟨t, hm⟩ := RSV.Proofs.LeoSchedRange.ceilPow2_pow2 p
  exact C04_encode_any_d F16 skewOK16 hd hp64 hm hadm hdsz hwd hbd hdsz' hwd' hbd' hs S hcard hdata hpar

/-- the field readings are the ones of `RSV.Props.C17leo` / `RSV.Props.C17gf16`: `φ` is the Cantor map into the
first-principles fields, `k` the bit width -/
theorem C04_field_readings : F8.k = 8 ∧ F16.k = 16 ∧
    (∀ a, F8.φ a = RSV.Proofs.LeoField.toGF a) ∧ (∀ a, F16.φ a = RSV.Proofs.Leo16.toGF16 a) :=
  ⟨rfl, rfl, fun _ => rfl, fun _ => rfl⟩

/-- non-vacuity: the largest GF(2^16) shape `New` accepts and a full GF(2^8) shape satisfy the hypotheses -/
example : ∃ t, ceilPow2 32768 = 2 ^ t ∧ CodeTheory.MDS (encMatrix (beta F16) 16 t 32768 32768) := by
  obtain ⟨t, h1, h2, -⟩ := C04_leo16_encode_all (d := 32768) (p := 32768) (by decide) (by decide)
    (by rw [RSV.Proofs.LeoSched.ceilPow2_eq]; decide +kernel)
  exact ⟨t, h1, h2⟩

end RSV.Props.C04leoAll

#print axioms RSV.Props.C04leoAll.C04_leo8_encode_all
#print axioms RSV.Props.C04leoAll.C04_leo16_encode_all
#print axioms RSV.Props.C04leoAll.C01_leo8_any_d_all
#print axioms RSV.Props.C04leoAll.C01_leo16_any_d_all
#print axioms RSV.Props.C04leoAll.C04_field_readings
