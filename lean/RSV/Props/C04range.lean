import RSV.Model.Leopard
import RSV.Proofs.LeoSched
import RSV.Proofs.LeoSchedRange
import RSV.Props.C04
import RSV.Props.C05
/-!
# C04 / C05 — the Leopard schedules address only rows of the work area and shards of the shard set

`RSV.Props.C04` / `RSV.Props.C05` state locality, chunking and linearity of `encode` / `reconstruct`
under the per-configuration hypothesis "every step of the generated schedule is `InRange`" (checked per
configuration by the driver, flag `sched`).  This file PROVES that hypothesis for the generators
themselves (`RSV/Proofs/LeoSchedRange.lean`):

* `C04_encodeSched_inRange`: for every context `C` (any tables, any `C.P.bits`), every `d` (including
  `d = 0`) and every `p ≤ 2^64` (including `p = 0`), every step of `encodeSched C d p` addresses work
  rows `< 2 * ceilPow2 p` and shards `< d`;
* `C05_reconSched_inRange`: for every `C`, `d`, erasure set and `el`, if `p ≤ 2^64` and
  `ceilPow2 p + d ≤ 2^64`, every step of `reconSched C d p missing el` addresses work rows
  `< ceilPow2 (ceilPow2 p + d)` and shards `< d + p`;
* the generic layer lemmas `C04_ifftLayers_inRange` / `C04_fftLayers_inRange` (work size a power of two);
* the `…_all` corollaries: the C04 / C05 theorems about `encode` / `reconstruct` with the schedule
  hypothesis discharged.

The bounds `≤ 2^64` are there because `ceilPow2` doubles at most 64 times: beyond them
`p ≤ ceilPow2 p` fails (and then, e.g., the first loop of `reconSched` writes row `2^64 = ` number of rows).
-/
namespace RSV.Props.C04range
open RSV.Model.Leo RSV.Proofs.LeoSched RSV.Proofs.LeoSchedRange RSV.Props.C04 RSV.Props.C05

variable (C : Ctx)

/-! ## 1. the layer loops, for any power-of-two work size -/

/-- `ifftLayers base mtrunc m skewOff idxAdj` only touches rows `[base, base + m)` (no shard at all),
whenever `m` is a power of two and `mtrunc ≤ m` -/
theorem C04_ifftLayers_inRange (base mtrunc m skewOff idxAdj nrows nshards e : Nat) (hm : m = 2 ^ e)
    (hmt : mtrunc ≤ m) (hn : base + m ≤ nrows) :
    ∀ s ∈ (ifftLayers C base mtrunc m skewOff idxAdj).toList, InRange nrows nshards s :=
  ifftLayers_in C base mtrunc m skewOff idxAdj nrows nshards e hm hmt hn

/-- `fftLayers mtrunc m` only touches rows `[0, m)`, whenever `m` is a power of two and `mtrunc ≤ m` -/
theorem C04_fftLayers_inRange (mtrunc m nrows nshards e : Nat) (hm : m = 2 ^ e) (hmt : mtrunc ≤ m)
    (hn : m ≤ nrows) : ∀ s ∈ (fftLayers C mtrunc m).toList, InRange nrows nshards s :=
  fftLayers_in C mtrunc m nrows nshards e hm hmt hn

/-- `ceilPow2 p` is a power of two, for every `p` -/
theorem C04_ceilPow2_pow2 (p : Nat) : ∃ e, ceilPow2 p = 2 ^ e := ceilPow2_pow2 p

/-! ## 2. Encode -/

/-- general form: no lower bound on `p` or `d`, `p ≤ 2^64` -/
theorem C04_encodeSched_inRange' (C : Ctx) (d p : Nat) (hpb : p ≤ 2 ^ 64) :
    ∀ s ∈ (encodeSched C d p).toList, InRange (2 * ceilPow2 p) d s :=
  encodeSched_in C d p hpb

/-- **every step of the Encode schedule is in range, for all configurations** -/
theorem C04_encodeSched_inRange (C : Ctx) (d p : Nat) (hp : 0 < p) (hpb : p ≤ 2 ^ 32) :
    ∀ s ∈ (encodeSched C d p).toList, InRange (2 * ceilPow2 p) d s :=
  have _ := hp
  C04_encodeSched_inRange' C d p (Nat.le_trans hpb (Nat.pow_le_pow_right (by decide) (by decide)))

/-- executable form -/
theorem C04_encodeSched_allInRange (C : Ctx) (d p : Nat) (hpb : p ≤ 2 ^ 64) :
    allInRange (2 * ceilPow2 p) d (encodeSched C d p).toList = true :=
  (allInRange_iff _ _ _).mpr (C04_encodeSched_inRange' C d p hpb)

/-- more rows / more shards stay in range -/
theorem InRange_mono {n n' k k' : Nat} (hn : n ≤ n') (hk : k ≤ k') {s : Step} (h : InRange n k s) :
    InRange n' k' s := by
  cases s with
  | load dst sh => exact ⟨Nat.lt_of_lt_of_le h.1 hn, Nat.lt_of_lt_of_le h.2 hk⟩
  | loadMul dst sh m => exact ⟨Nat.lt_of_lt_of_le h.1 hn, Nat.lt_of_lt_of_le h.2 hk⟩
  | clear dst => exact Nat.lt_of_lt_of_le h hn
  | mulAdd dst src m => exact ⟨Nat.lt_of_lt_of_le h.1 hn, Nat.lt_of_lt_of_le h.2 hn⟩
  | xor dst src => exact ⟨Nat.lt_of_lt_of_le h.1 hn, Nat.lt_of_lt_of_le h.2 hn⟩

/-- the hypothesis of the C04 `encode` theorems, for any shard set with at least `d` shards -/
theorem C04_encode_hr (d p : Nat) (hpb : p ≤ 2 ^ 64) {data : Array Vec} (hd : d ≤ data.size) :
    ∀ s ∈ (encodeSched C d p).toList, InRange (2 * ceilPow2 p) data.size s :=
  fun s hs => InRange_mono (Nat.le_refl _) hd (C04_encodeSched_inRange' C d p hpb s hs)

/-- symbol `k` of the parity shards depends only on symbols `k` of the data shards — all `(d, p)` -/
theorem C04_encode_local_all {len k : Nat} (hk : k < len) (d p : Nat) (hpb : p ≤ 2 ^ 64)
    {data : Array Vec} (hs : WF len data) (hd : d ≤ data.size) :
    proj k (encode C d p len data) = encode C d p 1 (proj k data) :=
  C04_encode_local C hk d p hs (C04_encode_hr C d p hpb hd)

/-- encoding the concatenation of two symbol ranges = concatenating the encodings — all `(d, p)` -/
theorem C04_encode_chunking_all {l₁ l₂ : Nat} (d p : Nat) (hpb : p ≤ 2 ^ 64) {s₁ s₂ : Array Vec}
    (hs₁ : WF l₁ s₁) (hs₂ : WF l₂ s₂) (hss : s₁.size = s₂.size) (hd : d ≤ s₁.size) :
    encode C d p (l₁ + l₂) (rowsAppend s₁ s₂) =
      rowsAppend (encode C d p l₁ s₁) (encode C d p l₂ s₂) :=
  C04_encode_chunking C d p hs₁ hs₂ hss (C04_encode_hr C d p hpb hd)

/-- `encode` is xor-additive in the data — all `(d, p)` -/
theorem C04_encode_linear_all (hC : MulLinear C) {len : Nat} (d p : Nat) (hpb : p ≤ 2 ^ 64)
    {s₁ s₂ : Array Vec} (hs₁ : WF len s₁) (hs₂ : WF len s₂) (hss : s₁.size = s₂.size)
    (hd : d ≤ s₁.size) :
    encode C d p len (xorRows s₁ s₂) = xorRows (encode C d p len s₁) (encode C d p len s₂) :=
  C04_encode_linear C hC d p hs₁ hs₂ hss (C04_encode_hr C d p hpb hd)

/-! ## 3. Reconstruct -/

/-- **every step of the Reconstruct schedule is in range**, for every erasure set and every `el` -/
theorem C05_reconSched_inRange (C : Ctx) (d p : Nat) (missing : Nat → Bool) (el : Array Nat)
    (hpb : p ≤ 2 ^ 64) (hmd : ceilPow2 p + d ≤ 2 ^ 64) :
    ∀ s ∈ (reconSched C d p missing el).toList, InRange (ceilPow2 (ceilPow2 p + d)) (d + p) s :=
  reconSched_in C d p missing el hpb hmd

/-- a sufficient, `ceilPow2`-free side condition: `p ≤ 2^32` and `d ≤ 2^32` -/
theorem C05_side_of_le32 (d p : Nat) (hp : p ≤ 2 ^ 32) (hd : d ≤ 2 ^ 32) :
    p ≤ 2 ^ 64 ∧ ceilPow2 p + d ≤ 2 ^ 64 := by
  have h64 : (2 : Nat) ^ 32 ≤ 2 ^ 64 := Nat.pow_le_pow_right (by decide) (by decide)
  refine ⟨Nat.le_trans hp h64, ?_⟩
  -- the doubling fold never leaves `[1, 2^32]`: it doubles a power of two `k < p ≤ 2^32`
  have hc : ceilPow2 p ≤ 2 ^ 32 := by
    rw [ceilPow2_eq]
    suffices h : ∀ (l : List Nat) (k : Nat), (∃ j, k = 2 ^ j) → k ≤ 2 ^ 32 →
        l.foldl (fun k _ => if k < p then k * 2 else k) k ≤ 2 ^ 32 from
      h _ 1 ⟨0, rfl⟩ (Nat.one_le_two_pow)
    intro l
    induction l with
    | nil => intro k _ hk; exact hk
    | cons a l ih =>
      intro k ⟨j, hj⟩ hk
      simp only [List.foldl_cons]
      split
      · rename_i hlt
        apply ih _ ⟨j + 1, by rw [hj, Nat.pow_succ]⟩
        have hj32 : j < 32 := pow2_lt (by rw [← hj]; omega)
        have : 2 ^ (j + 1) ≤ 2 ^ 32 := Nat.pow_le_pow_right (by decide) hj32
        rw [Nat.pow_succ, ← hj] at this
        exact this
      · exact ih _ ⟨j, hj⟩ hk
  have : (2 : Nat) ^ 32 + 2 ^ 32 ≤ 2 ^ 64 := by decide
  omega

/-- the hypothesis `SchedInRange` of the C05 theorems, for any shard set with at least `d + p` shards -/
theorem C05_schedInRange (d p : Nat) (missing : Nat → Bool) (el : Array Nat)
    (hpb : p ≤ 2 ^ 64) (hmd : ceilPow2 p + d ≤ 2 ^ 64) {nshards : Nat} (hn : d + p ≤ nshards) :
    SchedInRange C d p missing el nshards :=
  fun s hs => InRange_mono (Nat.le_refl _) hn (C05_reconSched_inRange C d p missing el hpb hmd s hs)

/-- symbol `k` of every reconstructed shard depends only on symbols `k` of the shards — all `(d, p)`,
all erasure sets -/
theorem C05_reconstruct_local_all {len k : Nat} (hk : k < len) (d p : Nat) {shards : Array Vec}
    (missing : Nat → Bool) (recoverAll : Bool) (hs : WF len shards)
    (hpb : p ≤ 2 ^ 64) (hmd : ceilPow2 p + d ≤ 2 ^ 64) (hn : d + p ≤ shards.size) :
    (reconstruct C d p len shards missing recoverAll).map (Option.map fun row => #[row[k]!]) =
      reconstruct C d p 1 (proj k shards) missing recoverAll :=
  C05_reconstruct_local C hk d p missing recoverAll hs (le_ceilPow2 p hpb) (le_ceilPow2 _ hmd)
    (C05_schedInRange C d p missing _ hpb hmd hn)

/-- reconstructing the concatenation of two symbol ranges = concatenating the reconstructions -/
theorem C05_reconstruct_chunking_all {l₁ l₂ : Nat} (d p : Nat) {s₁ s₂ : Array Vec}
    (missing : Nat → Bool) (recoverAll : Bool) (hs₁ : WF l₁ s₁) (hs₂ : WF l₂ s₂)
    (hss : s₁.size = s₂.size)
    (hpb : p ≤ 2 ^ 64) (hmd : ceilPow2 p + d ≤ 2 ^ 64) (hn : d + p ≤ s₁.size) :
    reconstruct C d p (l₁ + l₂) (rowsAppend s₁ s₂) missing recoverAll =
      Array.zipWith (optZip (· ++ ·)) (reconstruct C d p l₁ s₁ missing recoverAll)
        (reconstruct C d p l₂ s₂ missing recoverAll) :=
  C05_reconstruct_chunking C d p missing recoverAll hs₁ hs₂ hss (le_ceilPow2 p hpb)
    (le_ceilPow2 _ hmd) (C05_schedInRange C d p missing _ hpb hmd hn)

/-- for a FIXED erasure set the reconstructed shards are xor-additive in the shards -/
theorem C05_reconstruct_linear_all (hC : MulLinear C) {len : Nat} (d p : Nat) {s₁ s₂ : Array Vec}
    (missing : Nat → Bool) (recoverAll : Bool) (hs₁ : WF len s₁) (hs₂ : WF len s₂)
    (hss : s₁.size = s₂.size)
    (hpb : p ≤ 2 ^ 64) (hmd : ceilPow2 p + d ≤ 2 ^ 64) (hn : d + p ≤ s₁.size) :
    reconstruct C d p len (xorRows s₁ s₂) missing recoverAll =
      Array.zipWith (optZip xorVec) (reconstruct C d p len s₁ missing recoverAll)
        (reconstruct C d p len s₂ missing recoverAll) :=
  C05_reconstruct_linear C hC d p missing recoverAll hs₁ hs₂ hss (le_ceilPow2 p hpb)
    (le_ceilPow2 _ hmd) (C05_schedInRange C d p missing _ hpb hmd hn)

/-! ## 4. the hypotheses are satisfiable; instances -/

example : ∃ p : Nat, 0 < p ∧ p ≤ 2 ^ 32 := ⟨1, by decide, by decide⟩
example : ∃ d p : Nat, p ≤ 2 ^ 64 ∧ ceilPow2 p + d ≤ 2 ^ 64 :=
  ⟨3, 2, C05_side_of_le32 3 2 (by decide) (by decide)⟩
example : ∃ m e : Nat, m = 2 ^ e ∧ (3 : Nat) ≤ m ∧ 4 + m ≤ 8 := ⟨4, 2, by decide, by decide, by decide⟩

/-- the GF(2^8) context with the real tables (which the kernel cannot evaluate): no evaluation needed -/
example : ∀ s ∈ (encodeSched (mkCtx P8) 10 4).toList, InRange (2 * ceilPow2 4) 10 s :=
  C04_encodeSched_inRange (mkCtx P8) 10 4 (by decide) (by decide)

/-- the largest GF(2^16) shape -/
example : ∀ s ∈ (encodeSched C 32768 32768).toList, InRange (2 * ceilPow2 32768) 32768 s :=
  C04_encodeSched_inRange C 32768 32768 (by decide) (by decide)

/-- the edge cases `d = 0` and `p = 0` are covered by the general form -/
example : ∀ s ∈ (encodeSched C 0 0).toList, InRange (2 * ceilPow2 0) 0 s :=
  C04_encodeSched_inRange' C 0 0 (by decide)

/-- agrees with the per-configuration kernel check of `RSV.Props.C04` -/
example : allInRange (2 * ceilPow2 3) 10 (encodeSched shapeCtx 10 3).toList = true :=
  C04_encodeSched_allInRange shapeCtx 10 3 (by decide)

example (missing : Nat → Bool) (el : Array Nat) :
    ∀ s ∈ (reconSched (mkCtx P8) 3 2 missing el).toList, InRange (ceilPow2 (ceilPow2 2 + 3)) (3 + 2) s :=
  C05_reconSched_inRange (mkCtx P8) 3 2 missing el (by decide)
    (C05_side_of_le32 3 2 (by decide) (by decide)).2

example (d p : Nat) (hp : p ≤ 2 ^ 32) (hd : d ≤ 2 ^ 32) (missing : Nat → Bool) (el : Array Nat) :
    ∀ s ∈ (reconSched C d p missing el).toList, InRange (ceilPow2 (ceilPow2 p + d)) (d + p) s :=
  C05_reconSched_inRange C d p missing el (C05_side_of_le32 d p hp hd).1 (C05_side_of_le32 d p hp hd).2

end RSV.Props.C04range

#print axioms RSV.Props.C04range.C04_ifftLayers_inRange
#print axioms RSV.Props.C04range.C04_fftLayers_inRange
#print axioms RSV.Props.C04range.C04_ceilPow2_pow2
#print axioms RSV.Props.C04range.C04_encodeSched_inRange'
#print axioms RSV.Props.C04range.C04_encodeSched_inRange
#print axioms RSV.Props.C04range.C04_encodeSched_allInRange
#print axioms RSV.Props.C04range.C04_encode_local_all
#print axioms RSV.Props.C04range.C04_encode_chunking_all
#print axioms RSV.Props.C04range.C04_encode_linear_all
#print axioms RSV.Props.C04range.C05_reconSched_inRange
#print axioms RSV.Props.C04range.C05_side_of_le32
#print axioms RSV.Props.C04range.C05_schedInRange
#print axioms RSV.Props.C04range.C05_reconstruct_local_all
#print axioms RSV.Props.C04range.C05_reconstruct_chunking_all
#print axioms RSV.Props.C04range.C05_reconstruct_linear_all
