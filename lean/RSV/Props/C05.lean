import RSV.Model.Leopard
import RSV.Proofs.LeoSched
import RSV.Props.C04
/-!
# C05 — Leopard Reconstruct: structural properties

Model: `RSV.Model.Leo.reconstruct` (`RSV/Model/Leopard.lean`); lemmas: `RSV/Proofs/LeoSched.lean`.

`reconstruct C d p len shards missing recoverAll` runs the schedule
`reconSched C d p missing (errLocs C d p missing)` on `n = ceilPow2 (ceilPow2 p + d)` zero rows and reads
row `m + i` (data `i`) resp. `i - d` (parity `i`), `m = ceilPow2 p`.  The facts of C04 are about
arbitrary step lists, so they hold for this schedule, for a FIXED erasure set `missing` and a fixed
locator table `el`; they are restated here for exactly the `run` call made by `reconstruct`
(`C05_local`, `C05_linear`, `C05_chunking`, `C05_scratch`) and lifted to the result of `reconstruct`
(`C05_reconstruct_local`, `C05_reconstruct_linear`, `C05_reconstruct_chunking`).

`SchedInRange C d p missing el nshards` is the range hypothesis for the generated schedule
(`allInRange` decides it for concrete parameters).
-/
namespace RSV.Props.C05
open RSV.Model.Leo RSV.Proofs.LeoSched RSV.Props.C04

variable (C : Ctx)

/-- every step of the Reconstruct schedule addresses work rows `< ceilPow2 (ceilPow2 p + d)` and
shards `< nshards` -/
def SchedInRange (d p : Nat) (missing : Nat → Bool) (el : Array Nat) (nshards : Nat) : Prop :=
  ∀ s ∈ (reconSched C d p missing el).toList, InRange (ceilPow2 (ceilPow2 p + d)) nshards s

/-! ## 1. the `run` call of `reconstruct` -/

theorem C05_wf {len : Nat} (d p : Nat) (missing : Nat → Bool) (el : Array Nat) {shards : Array Vec}
    (hs : WF len shards) (hr : SchedInRange C d p missing el shards.size) :
    WF len (run C shards len (Array.replicate (ceilPow2 (ceilPow2 p + d)) (zeroVec len))
      (reconSched C d p missing el).toList) ∧
    (run C shards len (Array.replicate (ceilPow2 (ceilPow2 p + d)) (zeroVec len))
      (reconSched C d p missing el).toList).size = ceilPow2 (ceilPow2 p + d) := by
  have h := run_wf C (WF_replicate (ceilPow2 (ceilPow2 p + d)) len) hs
    (steps := (reconSched C d p missing el).toList) (by simpa [SchedInRange] using hr)
  exact ⟨h.1, by simp⟩

theorem C05_local {len k : Nat} (hk : k < len) (d p : Nat) (missing : Nat → Bool) (el : Array Nat)
    {shards : Array Vec} (hs : WF len shards) (hr : SchedInRange C d p missing el shards.size) :
    proj k (run C shards len (Array.replicate (ceilPow2 (ceilPow2 p + d)) (zeroVec len))
        (reconSched C d p missing el).toList) =
      run C (proj k shards) 1 (Array.replicate (ceilPow2 (ceilPow2 p + d)) (zeroVec 1))
        (reconSched C d p missing el).toList := by
  have h := run_map C (rowHom_proj C hk) (WF_replicate (ceilPow2 (ceilPow2 p + d)) len) hs
    (steps := (reconSched C d p missing el).toList) (by simpa [SchedInRange] using hr)
  rw [Array.map_replicate, (rowHom_proj C hk).zero] at h
  exact h

theorem C05_chunking {l₁ l₂ : Nat} (d p : Nat) (missing : Nat → Bool) (el : Array Nat)
    {s₁ s₂ : Array Vec} (hs₁ : WF l₁ s₁) (hs₂ : WF l₂ s₂) (hss : s₁.size = s₂.size)
    (hr : SchedInRange C d p missing el s₁.size) :
    run C (rowsAppend s₁ s₂) (l₁ + l₂)
        (Array.replicate (ceilPow2 (ceilPow2 p + d)) (zeroVec (l₁ + l₂))) (reconSched C d p missing el).toList =
      rowsAppend
        (run C s₁ l₁ (Array.replicate (ceilPow2 (ceilPow2 p + d)) (zeroVec l₁)) (reconSched C d p missing el).toList)
        (run C s₂ l₂ (Array.replicate (ceilPow2 (ceilPow2 p + d)) (zeroVec l₂)) (reconSched C d p missing el).toList) := by
  have h := run_zipWith C (rowHom2_append C l₁ l₂) (WF_replicate (ceilPow2 (ceilPow2 p + d)) l₁)
    (WF_replicate (ceilPow2 (ceilPow2 p + d)) l₂) hs₁ hs₂ (by simp) hss
    (steps := (reconSched C d p missing el).toList) (by simpa [SchedInRange] using hr)
  rw [Array.zipWith_replicate, (rowHom2_append C l₁ l₂).zero, Nat.min_self] at h
  exact h

/-- for a FIXED erasure set and locator table the work area is additive in the shards -/
theorem C05_linear (hC : MulLinear C) {len : Nat} (d p : Nat) (missing : Nat → Bool) (el : Array Nat)
    {s₁ s₂ : Array Vec} (hs₁ : WF len s₁) (hs₂ : WF len s₂) (hss : s₁.size = s₂.size)
    (hr : SchedInRange C d p missing el s₁.size) :
    run C (xorRows s₁ s₂) len
        (Array.replicate (ceilPow2 (ceilPow2 p + d)) (zeroVec len)) (reconSched C d p missing el).toList =
      xorRows
        (run C s₁ len (Array.replicate (ceilPow2 (ceilPow2 p + d)) (zeroVec len)) (reconSched C d p missing el).toList)
        (run C s₂ len (Array.replicate (ceilPow2 (ceilPow2 p + d)) (zeroVec len)) (reconSched C d p missing el).toList) := by
  have h := run_zipWith C (rowHom2_xor C hC len) (WF_replicate (ceilPow2 (ceilPow2 p + d)) len)
    (WF_replicate (ceilPow2 (ceilPow2 p + d)) len) hs₁ hs₂ (by simp) hss
    (steps := (reconSched C d p missing el).toList) (by simpa [SchedInRange] using hr)
  rw [Array.zipWith_replicate, (rowHom2_xor C hC len).zero, Nat.min_self] at h
  exact h

/-- all-zero shards reconstruct to an all-zero work area -/
theorem C05_zero (hC : MulLinear C) {len nsh : Nat} (d p : Nat) (missing : Nat → Bool) (el : Array Nat)
    (hr : SchedInRange C d p missing el nsh) :
    run C (zeroRows nsh len) len (Array.replicate (ceilPow2 (ceilPow2 p + d)) (zeroVec len))
        (reconSched C d p missing el).toList = zeroRows (ceilPow2 (ceilPow2 p + d)) len :=
  run_zero C hC hr

/-- if the schedule never reads a row before writing it, the rows it writes do not depend on the
zero-initialisation of the work area: any initial work area `w` with the same number of rows gives
the same content -/
theorem C05_scratch {len : Nat} (d p : Nat) (missing : Nat → Bool) (el : Array Nat) (shards : Array Vec)
    (hok : initOK (ceilPow2 (ceilPow2 p + d)) (reconSched C d p missing el).toList = true)
    (w : Array Vec) (hw : w.size = ceilPow2 (ceilPow2 p + d)) :
    ∀ i : Nat, (definedAfter (ceilPow2 (ceilPow2 p + d)) (reconSched C d p missing el).toList)[i]! = true →
      (run C shards len w (reconSched C d p missing el).toList)[i]! =
        (run C shards len (Array.replicate (ceilPow2 (ceilPow2 p + d)) (zeroVec len))
          (reconSched C d p missing el).toList)[i]! :=
  run_scratch C hok (by simp [hw])

/-- `shapeCtx` (GF(2^8) parameters, empty tables: every `mulAdd` is emitted) and an empty locator table:
the kernel can evaluate the generator; erasures {1, 4} of 3 + 2 shards -/
def demoMissing : Nat → Bool := fun i => i == 1 || i == 4

set_option maxRecDepth 1000000 in
example : initOK (ceilPow2 (ceilPow2 2 + 3)) (reconSched shapeCtx 3 2 demoMissing #[]).toList = true := by
  decide +kernel
set_option maxRecDepth 1000000 in
example : definedAfter (ceilPow2 (ceilPow2 2 + 3)) (reconSched shapeCtx 3 2 demoMissing #[]).toList =
    Array.replicate 8 true := by decide +kernel
set_option maxRecDepth 1000000 in
example : allInRange (ceilPow2 (ceilPow2 2 + 3)) 5 (reconSched shapeCtx 3 2 demoMissing #[]).toList = true := by
  decide +kernel

/-! ## 2. the result of `reconstruct` -/

theorem C05_size (d p len : Nat) (shards : Array Vec) (missing : Nat → Bool) (recoverAll : Bool) :
    (reconstruct C d p len shards missing recoverAll).size = d + p :=
  size_reconstruct C d p len shards missing recoverAll

/-- present shards are never overwritten: nothing is returned at an index that is not missing -/
theorem C05_present_untouched (d p len : Nat) (shards : Array Vec) (missing : Nat → Bool)
    (recoverAll : Bool) (i : Nat) (h : missing i = false) :
    (reconstruct C d p len shards missing recoverAll)[i]! = none :=
  reconstruct_present C d p len shards missing recoverAll i h

/-- with `recoverAll = false` no parity shard is returned -/
theorem C05_data_only (d p len : Nat) (shards : Array Vec) (missing : Nat → Bool) (i : Nat)
    (h : d ≤ i) : (reconstruct C d p len shards missing false)[i]! = none :=
  reconstruct_dataOnly C d p len shards missing i h

/-- the locator table depends only on `(d, p)` and the erasure set restricted to `[0, d + p)`:
caching it by erasure set is sound -/
theorem C05_errLocs_fn (d p : Nat) (missing missing' : Nat → Bool)
    (h : ∀ i, i < d + p → missing i = missing' i) :
    errLocs C d p missing = errLocs C d p missing' :=
  errLocs_congr C d p missing missing' h

/-- so does the whole schedule (for any locator table `el`) … -/
theorem C05_reconSched_fn (d p : Nat) (missing missing' : Nat → Bool) (el : Array Nat)
    (h : ∀ i, i < d + p → missing i = missing' i) :
    reconSched C d p missing el = reconSched C d p missing' el :=
  reconSched_congr C d p missing missing' el h

/-- … and the result of `reconstruct` -/
theorem C05_reconstruct_fn (d p len : Nat) (shards : Array Vec) (missing missing' : Nat → Bool)
    (recoverAll : Bool) (h : ∀ i, i < d + p → missing i = missing' i) :
    reconstruct C d p len shards missing recoverAll = reconstruct C d p len shards missing' recoverAll :=
  reconstruct_congr C d p len shards missing missing' recoverAll h

/-- symbol `k` of every reconstructed shard depends only on symbols `k` of the shards -/
theorem C05_reconstruct_local {len k : Nat} (hk : k < len) (d p : Nat) {shards : Array Vec}
    (missing : Nat → Bool) (recoverAll : Bool) (hs : WF len shards)
    (hp : p ≤ ceilPow2 p) (hn : ceilPow2 p + d ≤ ceilPow2 (ceilPow2 p + d))
    (hr : SchedInRange C d p missing (errLocs C d p missing) shards.size) :
    (reconstruct C d p len shards missing recoverAll).map (Option.map fun row => #[row[k]!]) =
      reconstruct C d p 1 (proj k shards) missing recoverAll :=
  reconstruct_map C (rowHom_proj C hk) d p missing recoverAll hs hp hn hr

/-- reconstructing the concatenation of two symbol ranges = concatenating the reconstructions -/
theorem C05_reconstruct_chunking {l₁ l₂ : Nat} (d p : Nat) {s₁ s₂ : Array Vec} (missing : Nat → Bool)
    (recoverAll : Bool) (hs₁ : WF l₁ s₁) (hs₂ : WF l₂ s₂) (hss : s₁.size = s₂.size)
    (hp : p ≤ ceilPow2 p) (hn : ceilPow2 p + d ≤ ceilPow2 (ceilPow2 p + d))
    (hr : SchedInRange C d p missing (errLocs C d p missing) s₁.size) :
    reconstruct C d p (l₁ + l₂) (rowsAppend s₁ s₂) missing recoverAll =
      Array.zipWith (optZip (· ++ ·)) (reconstruct C d p l₁ s₁ missing recoverAll)
        (reconstruct C d p l₂ s₂ missing recoverAll) :=
  reconstruct_zipWith C (rowHom2_append C l₁ l₂) d p missing recoverAll hs₁ hs₂ hss hp hn hr

/-- for a FIXED erasure set the reconstructed shards are additive in the shards -/
theorem C05_reconstruct_linear (hC : MulLinear C) {len : Nat} (d p : Nat) {s₁ s₂ : Array Vec}
    (missing : Nat → Bool) (recoverAll : Bool) (hs₁ : WF len s₁) (hs₂ : WF len s₂)
    (hss : s₁.size = s₂.size)
    (hp : p ≤ ceilPow2 p) (hn : ceilPow2 p + d ≤ ceilPow2 (ceilPow2 p + d))
    (hr : SchedInRange C d p missing (errLocs C d p missing) s₁.size) :
    reconstruct C d p len (xorRows s₁ s₂) missing recoverAll =
      Array.zipWith (optZip xorVec) (reconstruct C d p len s₁ missing recoverAll)
        (reconstruct C d p len s₂ missing recoverAll) :=
  reconstruct_zipWith C (rowHom2_xor C hC len) d p missing recoverAll hs₁ hs₂ hss hp hn hr

/-- the two `ceilPow2` side conditions hold below `2^64` -/
theorem C05_ceilPow2_side (d p : Nat) (h : ceilPow2 p + d ≤ 2 ^ 64) (hp : p ≤ 2 ^ 64) :
    p ≤ ceilPow2 p ∧ ceilPow2 p + d ≤ ceilPow2 (ceilPow2 p + d) :=
  ⟨le_ceilPow2 p hp, le_ceilPow2 _ h⟩

end RSV.Props.C05

#print axioms RSV.Props.C05.C05_wf
#print axioms RSV.Props.C05.C05_local
#print axioms RSV.Props.C05.C05_chunking
#print axioms RSV.Props.C05.C05_linear
#print axioms RSV.Props.C05.C05_zero
#print axioms RSV.Props.C05.C05_scratch
#print axioms RSV.Props.C05.C05_size
#print axioms RSV.Props.C05.C05_present_untouched
#print axioms RSV.Props.C05.C05_data_only
#print axioms RSV.Props.C05.C05_errLocs_fn
#print axioms RSV.Props.C05.C05_reconSched_fn
#print axioms RSV.Props.C05.C05_reconstruct_fn
#print axioms RSV.Props.C05.C05_reconstruct_local
#print axioms RSV.Props.C05.C05_reconstruct_chunking
#print axioms RSV.Props.C05.C05_reconstruct_linear
#print axioms RSV.Props.C05.C05_ceilPow2_side
