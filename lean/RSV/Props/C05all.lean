import RSV.Model.LeoCert
/-! umbrella for the C05 check; the proved property files are imported as they land -/
namespace RSV.Props.C05all
theorem C05_placeholder : True := trivial
end RSV.Props.C05all
