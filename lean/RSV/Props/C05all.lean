import RSV.Props.C17funcs
import RSV.Props.C05
import RSV.Props.C04gf8
import RSV.Props.C04range
import RSV.Props.C04gf16
import RSV.Props.C05bitfield
import RSV.Props.C05leoAll
import RSV.Props.C05prune
import RSV.Props.Consts
/-!
# C05 umbrella — Leopard Reconstruct

`RSV.Props.C05`: for a fixed erasure set the reconstruct schedule is symbol-local, xor-linear and
scratch-independent; present shards are never written; data-only mode never writes parity; the
error-locator table and the schedule are functions of the erasure set.  That the formal-derivative
decoder inverts the code is established per explored `(d, p, E)` by correspondence (complete over
contents by linearity), not by a general theorem.
-/
namespace RSV.Props.C05all
open RSV.Model.Leo RSV.Props.C05

/-- the mip-map masks of the error bit field regenerated from the Go source -/
theorem C05_hi_masks : RSV.Gen.kHiMasks =
    [0xAAAAAAAAAAAAAAAA, 0xCCCCCCCCCCCCCCCC, 0xF0F0F0F0F0F0F0F0, 0xFF00FF00FF00FF00, 0xFFFF0000FFFF0000] :=
  RSV.Props.Consts.hi_masks

/-- the cached quantity (error locator) depends only on the erasure set: two calls with the same
erasure set may share it, two calls with different sets get their own (the cache key is the complete
erasure set since fix f76f5f8) -/
theorem C05_locator_fn (C : Ctx) (d p : Nat) (missing missing' : Nat → Bool)
    (h : ∀ i, i < d + p → missing i = missing' i) : errLocs C d p missing = errLocs C d p missing' :=
  C05_errLocs_fn C d p missing missing' h

end RSV.Props.C05all
