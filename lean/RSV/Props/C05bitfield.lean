import RSV.Model.Bitfield
import RSV.Model.BitfieldImpl
import RSV.Proofs.Bitfield
/-!
# C05 (error bit field) — the Go `prepare`/`isNeeded`/`cacheID` refine the L0 specification

L1 model: `RSV.Model.BitfieldImpl` (`BF8` = `errorBitfield8` of `leopard8.go`, `BF16` = `errorBitfield`
of `leopard.go`; naturals as `uint64`, every left shift truncated).  L0: `RSV.Model.Bitfield.needed`
("the aligned block of `2^mip` positions containing `bit` holds an erasure") and `cacheKey`.

Proof (in `RSV/Proofs/Bitfield.lean`, core Lean only): every word function of `prepare` (`step j`,
`w | w>>32 | w<<32`) is OR-linear, so it is determined by its values on the 64 single-bit words; those
64 × 64 bits per level are checked by kernel evaluation (`chain_basis`, `full_basis`), which gives "bit
`b` of the level-`j` word is set iff some input bit in the aligned `2^j`-block of `b` is set"
(`chain_spec`, `full_spec`).  The gather loops of GF(2^16) (`BigWords[0]`, `BiggestWords[0]`) pick bit `k`
of the `k`-th folded word (`gather_spec`); `ofList` is a fold of `set`, i.e. an OR of single bits
(`setAll_spec`).  The theorems hold for every erasure list (duplicates and any order allowed) with
positions below the field order.
-/
namespace RSV.Props.C05bitfield
open RSV.Model.BitfieldImpl

/-- GF(2^8): after `prepare`, `isNeeded mip bit` is the L0 predicate, for EVERY level (levels `≤ 0`
and `≥ 8` answer `true` on both sides) and every position. -/
theorem C05_bf8_prepare : ∀ (erased : List Nat) (_hE : ∀ e ∈ erased, e < 256) (mip bit : Nat)
    (_hb : bit < 256),
    ((BF8.ofList erased).prepare).isNeeded mip bit = RSV.Model.Bitfield.needed 8 erased mip bit :=
  RSV.Proofs.Bitfield.bf8_prepare

/-- GF(2^8): the inversion-cache key of the (un-prepared) bit field is the L0 key. -/
theorem C05_bf8_cacheID : ∀ (erased : List Nat) (_hE : ∀ e ∈ erased, e < 256),
    (BF8.ofList erased).cacheID = RSV.Model.Bitfield.cacheKey erased :=
  RSV.Proofs.Bitfield.bf8_cacheID

/-- bit `i` of the key says whether position `i` is erased … -/
theorem C05_cacheKey_keyBit : ∀ (erased : List Nat) (i : Nat), i < 256 →
    RSV.Model.Bitfield.keyBit (RSV.Model.Bitfield.cacheKey erased) i = erased.contains i :=
  fun erased _ hi => RSV.Proofs.Bitfield.keyBit_cacheKey erased hi

/-- … hence the key is injective on erasure SETS (two erasure lists with the same key have the same
members below 256). -/
theorem C05_cacheKey_injective : ∀ (E E' : List Nat),
    RSV.Model.Bitfield.cacheKey E = RSV.Model.Bitfield.cacheKey E' → ∀ i < 256, (i ∈ E ↔ i ∈ E') :=
  RSV.Proofs.Bitfield.cacheKey_inj

/-- the same for the Go key: equal `cacheID`s mean equal erasure sets -/
theorem C05_bf8_cacheID_injective : ∀ (E E' : List Nat) (_hE : ∀ e ∈ E, e < 256) (_hE' : ∀ e ∈ E', e < 256),
    (BF8.ofList E).cacheID = (BF8.ofList E').cacheID → ∀ i, (i ∈ E ↔ i ∈ E') := by
  intro E E' hE hE' h i
  rw [C05_bf8_cacheID E hE, C05_bf8_cacheID E' hE'] at h
  by_cases hi : i < 256
  · exact C05_cacheKey_injective E E' h i hi
  · exact ⟨fun hm => absurd (hE i hm) hi, fun hm => absurd (hE' i hm) hi⟩

/-- GF(2^16): after `prepare`, `isNeeded mip bit` is the L0 predicate for every level `≥ 1` (level 0 is
never queried by the Go code: `Words[mipLevel-1]` would index `-1`) and every position. -/
theorem C05_bf16_prepare : ∀ (erased : List Nat) (_hE : ∀ e ∈ erased, e < 65536) (mip bit : Nat)
    (_hm : 1 ≤ mip) (_hb : bit < 65536),
    ((BF16.ofList erased).prepare).isNeeded mip bit = RSV.Model.Bitfield.needed 16 erased mip bit :=
  fun erased hE mip bit hm hb => RSV.Proofs.Bitfield.bf16_prepare erased hE mip bit hm hb

/-! ## non-vacuity: the model computes both answers -/

-- GF(2^8), by evaluation of the model
example : ((BF8.ofList [3, 200]).prepare).isNeeded 3 200 = true := by decide
example : ((BF8.ofList [3, 200]).prepare).isNeeded 3 8 = false := by decide
example : ((BF8.ofList [3, 200]).prepare).isNeeded 3 0 = true := by decide
example : ((BF8.ofList [3, 200]).prepare).isNeeded 6 100 = false := by decide
example : ((BF8.ofList [3, 200]).prepare).isNeeded 7 100 = true := by decide
example : ((BF8.ofList [3, 200]).prepare).isNeeded 7 128 = true := by decide
example : ((BF8.ofList [3]).prepare).isNeeded 7 128 = false := by decide
example : (BF8.ofList [3, 200]).cacheID =
    [8, 0, 0, 0, 0, 0, 0, 0, 0, 0, 0, 0, 0, 0, 0, 0, 0, 0, 0, 0, 0, 0, 0, 0, 0, 1, 0, 0, 0, 0, 0, 0] := by decide
-- the un-prepared field does NOT answer the block question (so `prepare` matters)
example : (BF8.ofList [3, 200]).isNeeded 3 0 = false := by decide

-- GF(2^16), by kernel evaluation of the model (levels served by `Words` and `BigWords`)
example : ((BF16.ofList [3, 5000]).prepare).isNeeded 3 5003 = true := by decide +kernel
example : ((BF16.ofList [3, 5000]).prepare).isNeeded 3 5008 = false := by decide +kernel
example : ((BF16.ofList [3, 5000]).prepare).isNeeded 8 5100 = true := by decide +kernel
-- GF(2^16), erasures in different 4096-blocks (3 in block 0, 5000 in block 1, 40000 in block 9),
-- levels served by `BiggestWords`; evaluating 16 × 64 × 5 array reads is too slow for the kernel, so
-- these go through the theorem and evaluate the specification
example : ((BF16.ofList [3, 5000, 40000]).prepare).isNeeded 12 4096 = true := by
  rw [C05_bf16_prepare _ (by decide) _ _ (by decide) (by decide)]; decide
example : ((BF16.ofList [3, 5000, 40000]).prepare).isNeeded 12 8192 = false := by
  rw [C05_bf16_prepare _ (by decide) _ _ (by decide) (by decide)]; decide
example : ((BF16.ofList [3, 5000, 40000]).prepare).isNeeded 13 8192 = false := by
  rw [C05_bf16_prepare _ (by decide) _ _ (by decide) (by decide)]; decide
example : ((BF16.ofList [3, 5000, 40000]).prepare).isNeeded 14 8192 = true := by
  rw [C05_bf16_prepare _ (by decide) _ _ (by decide) (by decide)]; decide
example : ((BF16.ofList [3, 5000, 40000]).prepare).isNeeded 15 20000 = true := by
  rw [C05_bf16_prepare _ (by decide) _ _ (by decide) (by decide)]; decide
example : ((BF16.ofList [3, 5000]).prepare).isNeeded 15 40000 = false := by
  rw [C05_bf16_prepare _ (by decide) _ _ (by decide) (by decide)]; decide

end RSV.Props.C05bitfield

#print axioms RSV.Props.C05bitfield.C05_bf8_prepare
#print axioms RSV.Props.C05bitfield.C05_bf8_cacheID
#print axioms RSV.Props.C05bitfield.C05_cacheKey_keyBit
#print axioms RSV.Props.C05bitfield.C05_cacheKey_injective
#print axioms RSV.Props.C05bitfield.C05_bf8_cacheID_injective
#print axioms RSV.Props.C05bitfield.C05_bf16_prepare
