import RSV.Proofs.LCHDecode.SchedInstances
/-!
# C05 (Leopard) — Reconstruct restores every erased shard, for EVERY admissible configuration and EVERY erasure set

The executable schedule model `Leo.reconstruct` (error-locator table by two truncated fast Walsh–Hadamard transforms
over `Z/(2^k - 1)` with Leopard's folded representatives, locator-weighted load, truncated radix-4 inverse FFT,
formal-derivative loop, truncated radix-4 FFT, division by the locator derivative — all in log/exp table arithmetic)
is proved to return, at every missing index, exactly the original shard — the data shard, or the parity shard that
`Leo.encode` produces — and nothing at present indices:

* `C05_leo8_reconstruct_all`:  all `0 < d`, `p ≤ 2^64`, `ceilPow2 p + d ≤ 256`, all well-formed data with symbols below 256,
  all erasure sets with at most `p` of the `d + p` shards missing, both modes (`recoverAll` = Reconstruct,
  `¬ recoverAll` = ReconstructData), whatever bytes sit in the missing slots;
* `C05_leo16_reconstruct_all`: the same up to 65,536 shards.

Ingredients (all in `RSV/Proofs/LCH*`): the Lin–Chung–Han transform is evaluation/interpolation in the novel basis
(`fft_correct`, `ifft_correct`); for a Cantor basis (`cantor8`, `cantor16`: `W_i(β_i) = 1`, checked by `k` short
iterations of `y ↦ y² + y`) the subspace polynomials have derivative 1, so the in-place xor loop computes `g + g'`
in the novel basis (`derivLoop_eq_derivCoeff`); the encoder's codeword is the evaluation vector of one polynomial of
degree `< n - m` (`codeword_top_zero`); the decoding identity `(fΛ)'(ω_e) = f(ω_e)Λ'(ω_e)` (`decode_identity`);
the Walsh–Hadamard convolution theorem with `2^k ≡ 1 (mod 2^k - 1)` gives the locator logarithms
(`errLocs_ok`); the literal loop schedules refine the clean networks (`run_reconSched_row`), read symbol-wise
through the field readings `F8` / `F16` (`recon_symbol`).  No table is evaluated and no configuration enumerated.
-/
namespace RSV.Props.C05leoAll
open RSV RSV.Model.Leo RSV.LCH RSV.LCHBridge RSV.LCHDecode RSV.Proofs.LeoSched

/-- Leopard GF(2^8): every erased shard is restored bit-exactly — every shape, every erasure set of size ≤ p -/
theorem C05_leo8_reconstruct_all {d p len : ℕ} {data sh : Array Vec} {missing : ℕ → Bool}
    (hd : 0 < d) (hp64 : p ≤ 2 ^ 64) (hadm : ceilPow2 p + d ≤ 256)
    (hdsz : data.size = d) (hwd : WF len data) (hbd : SymsBelow 256 data)
    (hmiss : ((Finset.range (d + p)).filter (fun i => missing i)).card ≤ p)
    (hshd : ∀ i, i < d → missing i = false → sh[i]! = data[i]!)
    (hshp : ∀ r, r < p → missing (d + r) = false → sh[d + r]! = (encode (mkCtx P8) d p len data)[r]!)
    (recoverAll : Bool) (i : ℕ) (hi : i < d + p) :
    (reconstruct (mkCtx P8) d p len sh missing recoverAll)[i]! =
      if missing i = true ∧ (i < d ∨ recoverAll = true) then
        some (if i < d then data[i]! else (encode (mkCtx P8) d p len data)[i - d]!)
      else none :=
  reconstruct_correct8 hd hp64 hadm hdsz hwd hbd hmiss hshd hshp recoverAll i hi

/-- Leopard GF(2^16): the same up to 65,536 shards -/
theorem C05_leo16_reconstruct_all {d p len : ℕ} {data sh : Array Vec} {missing : ℕ → Bool}
    (hd : 0 < d) (hp64 : p ≤ 2 ^ 64) (hadm : ceilPow2 p + d ≤ 65536)
    (hdsz : data.size = d) (hwd : WF len data) (hbd : SymsBelow 65536 data)
    (hmiss : ((Finset.range (d + p)).filter (fun i => missing i)).card ≤ p)
    (hshd : ∀ i, i < d → missing i = false → sh[i]! = data[i]!)
    (hshp : ∀ r, r < p → missing (d + r) = false → sh[d + r]! = (encode (mkCtx P16) d p len data)[r]!)
    (recoverAll : Bool) (i : ℕ) (hi : i < d + p) :
    (reconstruct (mkCtx P16) d p len sh missing recoverAll)[i]! =
      if missing i = true ∧ (i < d ∨ recoverAll = true) then
        some (if i < d then data[i]! else (encode (mkCtx P16) d p len data)[i - d]!)
      else none :=
  reconstruct_correct16 hd hp64 hadm hdsz hwd hbd hmiss hshd hshp recoverAll i hi

/-- the error-locator table of the model is the table of logarithms of `Λ` (present positions) and `Λ'` (erased
positions), for every erasure set — the fact the GF(2^8) locator cache stores -/
theorem C05_leo8_errLocs (d p : ℕ) (missing : ℕ → Bool) (hadm : ceilPow2 p + d ≤ 256) :
    ElOK F8 (erasedSet d p missing) (errLocs (mkCtx P8) d p missing) :=
  errLocs_ok8 d p missing hadm

theorem C05_leo16_errLocs (d p : ℕ) (missing : ℕ → Bool) (hadm : ceilPow2 p + d ≤ 65536) :
    ElOK F16 (erasedSet d p missing) (errLocs (mkCtx P16) d p missing) :=
  errLocs_ok16 d p missing hadm

/-- Leopard's bases are Cantor bases: every subspace polynomial is 1 at the next basis element -/
theorem C05_cantor_bases : Cantor (beta F8) 8 ∧ Cantor (beta F16) 16 := ⟨cantor8, cantor16⟩

end RSV.Props.C05leoAll

#print axioms RSV.Props.C05leoAll.C05_leo8_reconstruct_all
#print axioms RSV.Props.C05leoAll.C05_leo16_reconstruct_all
#print axioms RSV.Props.C05leoAll.C05_leo8_errLocs
#print axioms RSV.Props.C05leoAll.C05_leo16_errLocs
#print axioms RSV.Props.C05leoAll.C05_cantor_bases
