import RSV.Proofs.LCHDecode.PruneBits
import RSV.Proofs.LCHSched.Sanity
/-!
# C05 (pruned final FFT) — the bit-field optimisation of the Leopard decoders changes no output that is read

Go: when few shards are missing, `reconstruct` (`leopard8.go`, `leopard.go`) runs its final FFT through
`errorBitfield8.fftDIT8` / `errorBitfield.fftDIT`: the loops of `fftDIT8` / `fftDIT` with one extra test per block,
`if !e.isNeeded(mipLevel, r) { continue }`.  L1 model: `fftLayersPruned`, `reconSchedPruned`, `reconstructPruned`
(`RSV/Model/LeopardPruned.lean`), with the word-level bit fields `need8` / `need16`
(`RSV/Model/LeopardPrunedBits.lean`, `BF8` / `BF16` of `RSV/Model/BitfieldImpl.lean`).

* `C05_prune_sound`: for ANY test `need` that answers `true` on every aligned `2^lvl`-block holding a row that will be
  read (`live`), the pruned transform equals the un-pruned one on every live row (any context, any work area, any
  `m = 2^t`, any truncation `mtrunc ≤ m`).  One-sided: a spurious `true` is harmless.  Only the levels `1 ≤ lvl ≤ t` and
  the aligned block starts `r < mtrunc` the loops use are constrained.
* `C05_prune_reconstruct`: hence `reconstructPruned = reconstruct` when `need` is sound for the rows `reconstruct` reads.
* `C05_prune_bf8`, `C05_prune_bf16`: the prepared Go bit fields ARE sound for those rows (`C05_bf8_prepare`,
  `C05_bf16_prepare`: `isNeeded` after `prepare` is the block predicate), so the decoder on the `useBits` path returns
  exactly what the decoder with the full transform returns: every admissible shape, every erasure set, both modes, any
  shard contents.  Together with `C05_leo8_reconstruct_all` / `C05_leo16_reconstruct_all` the pruned decoder restores every
  erased shard.

Proof (`RSV/Proofs/LCHDecode/Prune*.lean`): the pruned generator is the `flatMap` of `fftLayers_toList` with a filter on
the blocks (`fftLayersPruned_toList`); forward transform, large distances first: the rows a pass writes inside a block
depend only on rows of the same block before the pass, and a `4d`-block holding a live row lies in a `16d`-block holding
it; so by induction over the passes the pruned run agrees with the clean radix-2 network on every row of every block (of
the current pass's block size) holding a live row (`fft_pass_agree_pruned`, `fft_final_agree_pruned`,
`run_fftLayersPruned`), and so does the un-pruned run (`run_fftLayers`).
-/
namespace RSV.Props.C05prune
open RSV.Model.Leo RSV.LCHDecode RSV.Proofs.LCHSched

/-- **pruning is sound**: if `need lvl r` holds whenever the aligned `2^lvl`-block starting at `r` contains a live row,
the pruned forward transform equals the full one on every live row below `mtrunc` -/
theorem C05_prune_sound (C : Ctx) (live : Nat → Bool) (need : Nat → Nat → Bool) (shards : Array Vec)
    (len : Nat) (w : Array Vec) (mtrunc m t : Nat) (hm : m = 2 ^ t) (ht : t / 2 ≤ C.P.bits)
    (hmt : mtrunc ≤ m) (hsz : m ≤ w.size)
    (hneed : ∀ lvl r x, 1 ≤ lvl → lvl ≤ t → 2 ^ lvl ∣ r → r < mtrunc → x < mtrunc → live x = true →
      x / 2 ^ lvl = r / 2 ^ lvl → need lvl r = true)
    (x : Nat) (hx : x < mtrunc) (hlive : live x = true) :
    (run C shards len w (fftLayersPruned C need mtrunc m).toList)[x]! =
      (run C shards len w (fftLayers C mtrunc m).toList)[x]! := by
  apply prune_sound C live need shards len w mtrunc m t hm ht hmt hsz _ x hx hlive
  intro lvl y h1 h2 hy hl
  apply hneed lvl _ y h1 h2 (Nat.dvd_mul_left _ _) _ hy hl
  · rw [Nat.mul_div_cancel _ (Nat.two_pow_pos lvl)]
  · exact Nat.lt_of_le_of_lt (Nat.div_mul_le_self y (2 ^ lvl)) hy

/-- the rows `reconstruct` reads: erased data positions `m + i`; erased parity positions `i < p` when `recoverAll` -/
theorem C05_reconLive_iff (d p : Nat) (missing : Nat → Bool) (recoverAll : Bool) (x : Nat) :
    reconLive d p missing recoverAll x = true ↔
      (x < ceilPow2 p ∧ recoverAll = true ∧ x < p ∧ missing (d + x) = true) ∨
      (ceilPow2 p ≤ x ∧ x < ceilPow2 p + d ∧ missing (x - ceilPow2 p) = true) := by
  unfold reconLive
  by_cases hx : x < ceilPow2 p
  · rw [if_pos hx]
    simp only [Bool.and_eq_true, decide_eq_true_eq]
    constructor
    · intro h; exact Or.inl ⟨hx, h⟩
    · rintro (h | h)
      · exact h.2
      · omega
  · rw [if_neg hx]
    simp only [Bool.and_eq_true, decide_eq_true_eq]
    constructor
    · intro h; exact Or.inr ⟨by omega, h⟩
    · rintro (h | h)
      · omega
      · exact h.2

/-- **the decoder with a sound pruning test returns what the full decoder returns** (any context; `n = ceilPow2 (m + d) = 2^T`
with `m = ceilPow2 p`) -/
theorem C05_prune_reconstruct (C : Ctx) (need : Nat → Nat → Bool) (d p len : Nat) (sh : Array Vec)
    (missing : Nat → Bool) (recoverAll : Bool) (T : Nat) (hn : ceilPow2 (ceilPow2 p + d) = 2 ^ T)
    (hT : T / 2 ≤ C.P.bits) (hpm : p ≤ ceilPow2 p) (hmn : ceilPow2 p + d ≤ 2 ^ T)
    (hneed : ∀ lvl r x, 1 ≤ lvl → lvl ≤ T → 2 ^ lvl ∣ r → r < ceilPow2 p + d → x < ceilPow2 p + d →
      reconLive d p missing recoverAll x = true → x / 2 ^ lvl = r / 2 ^ lvl → need lvl r = true) :
    reconstructPruned C need d p len sh missing recoverAll = reconstruct C d p len sh missing recoverAll := by
  apply reconstructPruned_eq C need d p len sh missing recoverAll T hn hT hpm hmn
  intro lvl y h1 h2 hy hl
  apply hneed lvl _ y h1 h2 (Nat.dvd_mul_left _ _) _ hy hl
  · rw [Nat.mul_div_cancel _ (Nat.two_pow_pos lvl)]
  · exact Nat.lt_of_le_of_lt (Nat.div_mul_le_self y (2 ^ lvl)) hy

/-- the prepared `errorBitfield8` answers `true` on every block holding a row that is read -/
theorem C05_prune_need8_sound (d p : Nat) (missing : Nat → Bool) (recoverAll : Bool)
    (hadm : ceilPow2 p + d ≤ 256) (lvl x : Nat) (hl : 1 ≤ lvl) (hx : x < ceilPow2 p + d)
    (hlive : reconLive d p missing recoverAll x = true) :
    need8 d p missing recoverAll lvl (x / 2 ^ lvl * 2 ^ lvl) = true :=
  needSound8 d p missing recoverAll lvl (RSV.Proofs.LeoField.le_ceilPow2 (by omega)) hadm lvl x hl
    (Nat.le_refl _) hx hlive

/-- the prepared `errorBitfield` (GF(2^16)) answers `true` on every block holding a row that is read, at every level
`≥ 1` (level `0` is never queried by `fftDIT`) -/
theorem C05_prune_need16_sound (d p : Nat) (missing : Nat → Bool) (recoverAll : Bool)
    (hadm : ceilPow2 p + d ≤ 65536) (lvl x : Nat) (hl : 1 ≤ lvl) (hx : x < ceilPow2 p + d)
    (hlive : reconLive d p missing recoverAll x = true) :
    need16 d p missing recoverAll lvl (x / 2 ^ lvl * 2 ^ lvl) = true :=
  needSound16 d p missing recoverAll lvl
    (by rcases RSV.Proofs.LeoField.ceilPow2_spec p with h | h
        · exact h
        · rw [h] at hadm; omega) hadm lvl x hl (Nat.le_refl _) hx hlive

/-- **GF(2^8)**: `reconstruct` on the `useBits` path (final FFT through the prepared `errorBitfield8`) returns exactly what
the full-FFT decoder returns — every admissible shape, every erasure set, both modes, any shard contents -/
theorem C05_prune_bf8 (d p len : Nat) (sh : Array Vec) (missing : Nat → Bool) (recoverAll : Bool)
    (hadm : ceilPow2 p + d ≤ 256) :
    reconstructBits8 (mkCtx P8) d p len sh missing recoverAll =
      reconstruct (mkCtx P8) d p len sh missing recoverAll :=
  reconstructPruned_bf8 d p len sh missing recoverAll hadm

/-- **GF(2^16)**: the same through the prepared `errorBitfield` -/
theorem C05_prune_bf16 (d p len : Nat) (sh : Array Vec) (missing : Nat → Bool) (recoverAll : Bool)
    (hadm : ceilPow2 p + d ≤ 65536) :
    reconstructBits16 (mkCtx P16) d p len sh missing recoverAll =
      reconstruct (mkCtx P16) d p len sh missing recoverAll :=
  reconstructPruned_bf16 d p len sh missing recoverAll hadm

/-! ## non-vacuity (toy context of `RSV/Proofs/LCHSched/Sanity.lean`, kernel evaluation) -/

open RSV.Proofs.LCHSched.Sanity

/-- the block predicate for the single live row 5 -/
def toyNeed (lvl r : Nat) : Bool := RSV.Model.Bitfield.needed 8 [5] lvl r

-- with the constant-`true` test the pruned generator IS the un-pruned one (the loops are the same loops)
example : fftLayersPruned toyC (fun _ _ => true) 8 8 = fftLayers toyC 8 8 := by decide +kernel
example : fftLayersPruned toyC (fun _ _ => true) 11 16 = fftLayers toyC 11 16 := by decide +kernel
-- a real pruning: the pruned schedule is strictly shorter (odd and even `t`) …
example : (fftLayersPruned toyC toyNeed 8 8).size < (fftLayers toyC 8 8).size := by decide +kernel
example : (fftLayersPruned toyC toyNeed 16 16).size = 40 ∧ (fftLayers toyC 16 16).size = 61 := by decide +kernel
-- … it computes the same live row (an instance of `C05_prune_sound`) …
example : (run toyC #[] 1 toyW (fftLayersPruned toyC toyNeed 8 8).toList)[5]! =
    (run toyC #[] 1 toyW (fftLayers toyC 8 8).toList)[5]! :=
  C05_prune_sound toyC (fun x => x == 5) toyNeed #[] 1 toyW 8 8 3 rfl (by decide) (by decide) (by decide)
    (by
      intro lvl r x h1 _ _ _ _ hl hb
      have hx : x = 5 := by simpa using hl
      subst hx
      unfold toyNeed RSV.Model.Bitfield.needed
      by_cases h8 : lvl ≥ 8
      · rw [if_pos h8]
      · rw [if_neg h8, if_neg (by omega)]
        simp only [List.any_cons, List.any_nil, Bool.or_false, beq_iff_eq, Nat.shiftRight_eq_div_pow]
        exact hb) 5 (by decide) rfl
example : (run toyC #[] 1 toyW (fftLayersPruned toyC toyNeed 8 8).toList)[5]! =
    (run toyC #[] 1 toyW (fftLayers toyC 8 8).toList)[5]! := by decide +kernel
-- … and differs on rows that are not read (so the restriction to live rows is necessary)
example : (run toyC #[] 1 toyW (fftLayersPruned toyC toyNeed 8 8).toList)[0]! ≠
    (run toyC #[] 1 toyW (fftLayers toyC 8 8).toList)[0]! := by decide +kernel
-- an unsound test (never needed) loses the live row: the hypothesis of `C05_prune_sound` is necessary
example : (run toyC #[] 1 toyW (fftLayersPruned toyC (fun _ _ => false) 8 8).toList)[5]! ≠
    (run toyC #[] 1 toyW (fftLayers toyC 8 8).toList)[5]! := by decide +kernel
-- the word-level bit field of a decoder shape (d = 5, p = 2, data shard 1 missing: position m + 1 = 3 is set) prunes too
example : errorBitPositions 5 2 (fun i => i == 1) false = [3] := by decide +kernel
example : errorBitPositions 5 3 (fun i => i == 1 || i == 6) true = [1, 3, 5] := by decide +kernel
example : (fftLayersPruned toyC (need8 5 2 (fun i => i == 1) false) 7 8).size = 16 ∧
    (fftLayers toyC 7 8).size = 22 := by decide +kernel
example : (fftLayersPruned toyC (need16 5 2 (fun i => i == 1) false) 7 8).size = 16 := by decide +kernel

end RSV.Props.C05prune

#print axioms RSV.Props.C05prune.C05_prune_sound
#print axioms RSV.Props.C05prune.C05_reconLive_iff
#print axioms RSV.Props.C05prune.C05_prune_reconstruct
#print axioms RSV.Props.C05prune.C05_prune_need8_sound
#print axioms RSV.Props.C05prune.C05_prune_need16_sound
#print axioms RSV.Props.C05prune.C05_prune_bf8
#print axioms RSV.Props.C05prune.C05_prune_bf16
