import RSV.Proofs.Columns

/-!
# C06 — `Verify` returns true exactly when the parity matches the data

`verifySpec A data par` is the L0 reading of `reedSolomon.Verify` (`A` = parity rows of the
generator).  Statements:

* `C06_iff`, `C06_encoded` — true iff every parity shard is the encoding of the data;
* `C06_flip_parity` — any changed parity byte is detected;
* `C06_flip_data` — a changed data byte is detected provided its column of `A` has a non-zero
  entry; `C06_mds_column_ne_zero` / `C06_mds_entry_ne_zero` — which holds for every column of an
  MDS generator with at least one parity row;
* excluded points, stated not hidden: `C06_p0` (no parity shards: constantly true) and
  `C06_zero_column_undetected` (zero column: changes of that data shard are invisible).
-/

namespace RSV.Props.C06
open RSV.Model RSV.CodeTheory

variable {F : Type} [Field F] [DecidableEq F] {d p len : ℕ}

theorem C06_iff (A : Mat F p d) (data : Fin d → Shard F len) (par : Fin p → Shard F len) :
    verifySpec A data par = true ↔ ∀ r, par r = encodeSpec A data r :=
  verifySpec_eq_true_iff A data par

theorem C06_encoded (A : Mat F p d) (data : Fin d → Shard F len) :
    verifySpec A data (encodeSpec A data) = true :=
  (C06_iff A data _).mpr fun _ => rfl

/-- changing any byte of any parity shard is detected -/
theorem C06_flip_parity (A : Mat F p d) (data : Fin d → Shard F len) (par' : Fin p → Shard F len)
    (r : Fin p) (k : Fin len) (h : (par' r)[k] ≠ (encodeSpec A data r)[k]) :
    verifySpec A data par' = false :=
  (verifySpec_eq_false_iff A data par').mpr ⟨r, fun he => h (by rw [he])⟩

/-- non-vacuity: a parity byte that differs from the encoded one exists -/
example : ∃ (A : Mat F 1 1) (data : Fin 1 → Shard F 1) (par' : Fin 1 → Shard F 1) (r : Fin 1)
    (k : Fin 1), (par' r)[k] ≠ (encodeSpec A data r)[k] :=
  ⟨Mat.ofFn fun _ _ => 1, fun _ => Vector.replicate 1 0, fun _ => Vector.replicate 1 1, 0, 0, by
    rw [encodeSpec_getElem]; simp⟩

/-- changing byte `k` of data shard `c` is detected provided column `c` of `A` has a non-zero
entry -/
theorem C06_flip_data (A : Mat F p d) (data data' : Fin d → Shard F len) (c : Fin d) (k : Fin len)
    (hsame : ∀ c' k', (c' ≠ c ∨ k' ≠ k) → (data' c')[k'] = (data c')[k'])
    (hdiff : (data' c)[k] ≠ (data c)[k]) (r : Fin p) (hr : A.get r c ≠ 0) :
    verifySpec A data' (encodeSpec A data) = false := by
  refine (verifySpec_eq_false_iff A data' _).mpr ⟨r, fun he => ?_⟩
  have h := encodeSpec_single_diff A data data' c k (fun c' hc' => hsame c' k (Or.inl hc')) r
  rw [he, sub_self] at h
  exact (mul_ne_zero hr (sub_ne_zero.mpr hdiff)) h.symm

/-- non-vacuity of `C06_flip_data`: the hypotheses are satisfiable (one all-ones parity row,
one data shard of one byte changed from `0` to `1`) -/
example : ∃ (A : Mat F 1 1) (data data' : Fin 1 → Shard F 1) (c : Fin 1) (k : Fin 1) (r : Fin 1),
    (∀ c' k', (c' ≠ c ∨ k' ≠ k) → (data' c')[k'] = (data c')[k']) ∧
    (data' c)[k] ≠ (data c)[k] ∧ A.get r c ≠ 0 :=
  ⟨Mat.ofFn fun _ _ => 1, fun _ => Vector.replicate 1 0, fun _ => Vector.replicate 1 1, 0, 0, 0,
    by intro c' k' h; rcases h with h | h <;> exact absurd (Subsingleton.elim _ _) h,
    by simp, by simp⟩

omit [DecidableEq F] in
/-- every entry of an MDS generator is non-zero -/
theorem C06_mds_entry_ne_zero (A : Mat F p d) (hA : MDS (fun r c => A.get r c)) (r : Fin p)
    (c : Fin d) : A.get r c ≠ 0 :=
  MDS_entry_ne_zero hA r c

omit [DecidableEq F] in
/-- every MDS generator with `p ≥ 1` has no zero column (in fact no zero entry) — so
`C06_flip_data` applies to every byte -/
theorem C06_mds_column_ne_zero (A : Mat F p d) (hA : MDS (fun r c => A.get r c)) (hp : 0 < p)
    (c : Fin d) : ∃ r, A.get r c ≠ 0 :=
  ⟨⟨0, hp⟩, C06_mds_entry_ne_zero A hA _ c⟩

/-- non-vacuity: MDS generators with `p ≥ 1` exist (the XOR-parity row) -/
example : ∃ A : Mat F 1 1, MDS (fun r c => A.get r c) ∧ 0 < 1 :=
  ⟨Mat.ofFn fun _ _ => 1, by
    simpa using ones_mds (F := F) (d := 1) (fun _ => 0) (fun a b _ => Subsingleton.elim a b),
    Nat.one_pos⟩

/-- for an MDS generator with at least one parity shard, every single-byte change of the data is
detected by `Verify` against the old parity -/
theorem C06_mds_flip_data (A : Mat F p d) (hA : MDS (fun r c => A.get r c)) (hp : 0 < p)
    (data data' : Fin d → Shard F len) (c : Fin d) (k : Fin len)
    (hsame : ∀ c' k', (c' ≠ c ∨ k' ≠ k) → (data' c')[k'] = (data c')[k'])
    (hdiff : (data' c)[k] ≠ (data c)[k]) :
    verifySpec A data' (encodeSpec A data) = false :=
  let ⟨r, hr⟩ := C06_mds_column_ne_zero A hA hp c
  C06_flip_data A data data' c k hsame hdiff r hr

/-- excluded point, stated not hidden: with `p = 0` Verify is constantly true -/
theorem C06_p0 (A : Mat F 0 d) (data : Fin d → Shard F len) (par : Fin 0 → Shard F len) :
    verifySpec A data par = true :=
  (C06_iff A data par).mpr fun r => r.elim0

/-- excluded point: a zero column means a change in that data shard is NOT detected -/
theorem C06_zero_column_undetected (A : Mat F p d) (c : Fin d) (hz : ∀ r, A.get r c = 0)
    (data data' : Fin d → Shard F len) (hsame : ∀ c', c' ≠ c → data' c' = data c') :
    verifySpec A data' (encodeSpec A data) = true := by
  refine (C06_iff A data' _).mpr fun r => ?_
  rw [encodeSpec_congr_of_zero A data data' fun c' => ?_]
  by_cases h : c' = c
  · exact Or.inr (h ▸ hz)
  · exact Or.inl (hsame c' h)

/-- non-vacuity of `C06_zero_column_undetected`: a zero column, and a data set that really
differs in that shard -/
example : ∃ (A : Mat F 1 1) (c : Fin 1) (data data' : Fin 1 → Shard F 1),
    (∀ r, A.get r c = 0) ∧ (∀ c', c' ≠ c → data' c' = data c') ∧ data' c ≠ data c :=
  ⟨Mat.ofFn fun _ _ => 0, 0, fun _ => Vector.replicate 1 0, fun _ => Vector.replicate 1 1,
    by simp, fun c' h => absurd (Subsingleton.elim _ _) h, by
      intro h
      have := congrArg (fun v : Shard F 1 => v[0]) h
      simp at this⟩

end RSV.Props.C06

#print axioms RSV.Props.C06.C06_iff
#print axioms RSV.Props.C06.C06_encoded
#print axioms RSV.Props.C06.C06_flip_parity
#print axioms RSV.Props.C06.C06_flip_data
#print axioms RSV.Props.C06.C06_mds_entry_ne_zero
#print axioms RSV.Props.C06.C06_mds_column_ne_zero
#print axioms RSV.Props.C06.C06_mds_flip_data
#print axioms RSV.Props.C06.C06_p0
#print axioms RSV.Props.C06.C06_zero_column_undetected
