import RSV.Props.C06
import RSV.Props.C06leo
/-! C06 umbrella: Verify for the GF(2^8) matrix codec (`RSV.Props.C06`: iff, single-byte flips, excluded points) and for
the Leopard codecs (`RSV.Props.C06leo`: valid sets verify, every single-symbol flip in any data or parity shard is
detected, up to `p` corrupted data shards are detected — every admissible shape, GF(2^8) and GF(2^16)). -/
