import RSV.Proofs.LCHBridge.Verify
import RSV.Proofs.LCHBridge.Instances
/-!
# C06 (Leopard) — `Verify` returns true exactly when the parity matches the data

`leoVerify C d p len shards` (`RSV.Model.LeoVerify`) is what `leopardFF8.Verify` / `leopardFF16.Verify` do: re-encode
the data shards `shards[0 … d]` with the Leopard encoder model `encode` and compare the result with the stored parity
shards `shards[d … d + p]`.  `setSym shards i s v` overwrites symbol `s` of shard `i` with `v`.

Schedule-level facts (any table context `C`, no field needed):

* `C06_leo_valid` — `Verify` of `data ++ encode data` is `true`;
* `C06_leo_iff`, `C06_leo_iff_rows` — `Verify (data ++ par) = true` iff `par` is the encoding of `data`;
* `C06_leo_parity_mismatch`, `C06_leo_flip_parity` — ONE changed symbol of ONE parity shard makes it `false`;
* `C06_leo_pure` — the result depends on nothing but the first `d + p` shards; `C06_leo_p0` — excluded point, stated not
  hidden: with `p = 0` it is constantly `true`.

Coding-theoretic facts, generic in the field reading `F : FieldCtx C K` with `SkewOK F`, for EVERY admissible shape
(`0 < p ≤ 2^64`, `d + ceilPow2 p ≤ 2^F.k`), well-formed data with symbols below `2^F.k`:

* `C06_leo_flip_data` — ONE changed symbol of ONE data shard (to any other symbol value) makes it `false`; in fact
  (`C06_leo_flip_data_every_parity`) the re-encoded parity differs from the stored one in EVERY parity shard at that
  symbol position: parity symbol `(r, s)` moves by `encMatrix r c * (φ new - φ old)`, the entry is non-zero because the
  generator is MDS, and `φ` is injective;
* `C06_leo_detects_upto_p` — more generally any change of the data that touches, at some symbol position, at least one
  and at most `p` data shards is detected (the code has minimum distance `p + 1`).

Instances: `C06_leo8_*` (`mkCtx P8`, `F8`, `skewOK8`, `d + ceilPow2 p ≤ 256`) and `C06_leo16_*` (`mkCtx P16`, `F16`,
`skewOK16`, `d + ceilPow2 p ≤ 65536`).  No configuration is enumerated.
-/
namespace RSV.Props.C06leo
open RSV RSV.Model.Leo RSV.LCH RSV.LCHBridge RSV.Proofs.LeoSched

/-! ## schedule level -/

/-- 1. the encoded shard set verifies -/
theorem C06_leo_valid (C : Ctx) {d p len : ℕ} {data : Array Vec} (hdsz : data.size = d) (hp64 : p ≤ 2 ^ 64) :
    leoVerify C d p len (data ++ encode C d p len data) = true := by
  rw [leoVerify_append C len data _ hdsz (size_encode' C d p len data hp64)]
  exact beq_self_eq_true _

/-- `Verify` is true iff the stored parity is the encoding of the data -/
theorem C06_leo_iff (C : Ctx) {d p len : ℕ} {data par : Array Vec} (hdsz : data.size = d) (hpsz : par.size = p) :
    leoVerify C d p len (data ++ par) = true ↔ par = encode C d p len data := by
  rw [leoVerify_append C len data par hdsz hpsz, beq_iff_eq]
  exact eq_comm

/-- row form: iff every stored parity shard is the re-encoded one -/
theorem C06_leo_iff_rows (C : Ctx) {d p len : ℕ} {data par : Array Vec} (hdsz : data.size = d)
    (hpsz : par.size = p) (hp64 : p ≤ 2 ^ 64) :
    leoVerify C d p len (data ++ par) = true ↔ ∀ r, r < p → par[r]! = (encode C d p len data)[r]! := by
  rw [C06_leo_iff C hdsz hpsz]
  constructor
  · intro h r _; rw [h]
  · intro h
    exact ext! (by rw [hpsz, size_encode' C d p len data hp64]) fun i hi => h i (by omega)

/-- a stored parity set that differs from the encoding in some symbol is rejected -/
theorem C06_leo_parity_mismatch (C : Ctx) {d p len r s : ℕ} {data par' : Array Vec} (hdsz : data.size = d)
    (hpsz : par'.size = p) (h : (par'[r]!)[s]! ≠ ((encode C d p len data)[r]!)[s]!) :
    leoVerify C d p len (data ++ par') = false := by
  rw [leoVerify_append C len data par' hdsz hpsz, beq_eq_false_iff_ne]
  intro he
  exact h (by rw [he])

/-- 2. changing ONE symbol of ONE parity shard of a valid shard set (to any other value) is detected -/
theorem C06_leo_flip_parity (C : Ctx) {d p len r s v : ℕ} {data : Array Vec} (hdsz : data.size = d)
    (hwd : WF len data) (hp64 : p ≤ 2 ^ 64) (hr : r < p) (hs : s < len)
    (hv : v ≠ ((encode C d p len data)[r]!)[s]!) :
    leoVerify C d p len (setSym (data ++ encode C d p len data) (d + r) s v) = false := by
  have hsz := size_encode' C d p len data hp64
  have hrow := encode_rows C hp64 hdsz hwd r (by rw [hsz]; exact hr)
  subst hdsz
  rw [setSym_append_right]
  refine C06_leo_parity_mismatch C (r := r) (s := s) rfl (by rw [size_setSym, hsz]) ?_
  rw [sym_setSym_self _ r s v (by rw [hsz]; exact hr) (by rw [hrow]; exact hs)]
  exact hv

/-- 4. `Verify` reads nothing but the first `d + p` shards -/
theorem C06_leo_pure (C : Ctx) {d p len : ℕ} {shards shards' : Array Vec}
    (h : shards.extract 0 (d + p) = shards'.extract 0 (d + p)) :
    leoVerify C d p len shards = leoVerify C d p len shards' := by
  have h1 : ∀ x : Array Vec, x.extract 0 d = (x.extract 0 (d + p)).extract 0 d := by
    intro x; rw [Array.extract_extract]; congr 1; omega
  have h2 : ∀ x : Array Vec, x.extract d (d + p) = (x.extract 0 (d + p)).extract d (d + p) := by
    intro x; rw [Array.extract_extract]; congr 1 <;> omega
  unfold leoVerify
  rw [h1 shards, h2 shards, h, ← h1, ← h2]

/-- excluded point, stated not hidden: with no parity shards `Verify` is constantly true -/
theorem C06_leo_p0 (C : Ctx) (d len : ℕ) (shards : Array Vec) : leoVerify C d 0 len shards = true := by
  simp [leoVerify, encode]

/-! ## coding theory: generic in the field reading -/

variable {C : Ctx} {K : Type} [Field K]

/-- one changed data symbol changes the re-encoded parity in EVERY parity shard at that symbol position -/
theorem C06_leo_flip_data_every_parity (F : FieldCtx C K) (hS : SkewOK F) {d p len c s v : ℕ} {data : Array Vec}
    (hp64 : p ≤ 2 ^ 64) (hadm : d + ceilPow2 p ≤ 2 ^ F.k)
    (hdsz : data.size = d) (hwd : WF len data) (hbd : SymsBelow (2 ^ F.k) data)
    (hc : c < d) (hs : s < len) (hv : v < 2 ^ F.k) (hne : v ≠ (data[c]!)[s]!) (r : ℕ) (hr : r < p) :
    ((encode C d p len (setSym data c s v))[r]!)[s]! ≠ ((encode C d p len data)[r]!)[s]! := by
  have hcs : c < data.size := by omega
  refine encode_single_diff hS (by omega) hp64 hadm (by omega) hwd hbd (by rw [size_setSym]; omega)
    (WF_setSym hwd c s v) (symsBelow_setSym hbd c s hv) hs ⟨c, hc⟩ (fun c' hc' => ?_) ?_ ⟨r, hr⟩
  · exact sym_setSym_ne data c c'.val s s v (Or.inl fun e => hc' (Fin.ext e.symm))
  · show ((setSym data c s v)[c]!)[s]! ≠ _
    rw [sym_setSym_self data c s v hcs (by rw [hwd c hcs]; exact hs)]
    exact hne

/-- 3. changing ONE symbol of ONE data shard of a valid shard set (to any other symbol value) is detected -/
theorem C06_leo_flip_data (F : FieldCtx C K) (hS : SkewOK F) {d p len c s v : ℕ} {data : Array Vec}
    (hp : 0 < p) (hp64 : p ≤ 2 ^ 64) (hadm : d + ceilPow2 p ≤ 2 ^ F.k)
    (hdsz : data.size = d) (hwd : WF len data) (hbd : SymsBelow (2 ^ F.k) data)
    (hc : c < d) (hs : s < len) (hv : v < 2 ^ F.k) (hne : v ≠ (data[c]!)[s]!) :
    leoVerify C d p len (setSym (data ++ encode C d p len data) c s v) = false := by
  rw [setSym_append_left _ _ c s v (by omega)]
  exact C06_leo_parity_mismatch C (r := 0) (s := s) (by rw [size_setSym]; exact hdsz)
    (size_encode' C d p len data hp64)
    (C06_leo_flip_data_every_parity F hS hp64 hadm hdsz hwd hbd hc hs hv hne 0 hp).symm

/-- the stored parity of `data` against any other data set `data'` that differs from `data`, at some symbol position
`s`, in at least one and at most `p` shards: detected (minimum distance `p + 1`) -/
theorem C06_leo_detects_upto_p (F : FieldCtx C K) (hS : SkewOK F) {d p len s : ℕ} {data data' : Array Vec}
    (hd : 0 < d) (hp64 : p ≤ 2 ^ 64) (hadm : d + ceilPow2 p ≤ 2 ^ F.k)
    (hdsz : data.size = d) (hwd : WF len data) (hbd : SymsBelow (2 ^ F.k) data)
    (hdsz' : data'.size = d) (hwd' : WF len data') (hbd' : SymsBelow (2 ^ F.k) data') (hs : s < len)
    (D : Finset (Fin d)) (hcard : D.card ≤ p)
    (hsame : ∀ c : Fin d, c ∉ D → (data'[c.val]!)[s]! = (data[c.val]!)[s]!)
    (hdiff : ∃ c : Fin d, (data'[c.val]!)[s]! ≠ (data[c.val]!)[s]!) :
    leoVerify C d p len (data' ++ encode C d p len data) = false := by
  obtain ⟨r, hr⟩ := encode_diff_upto_p hS hd hp64 hadm (by omega) hwd hbd (by omega) hwd' hbd' hs D hcard
    hsame hdiff
  exact C06_leo_parity_mismatch C (r := r.val) (s := s) hdsz' (size_encode' C d p len data hp64) hr.symm

/-! ## instances: GF(2^8) and GF(2^16), every admissible `(d, p)` -/

theorem C06_leo8_valid {d p len : ℕ} {data : Array Vec} (hdsz : data.size = d) (hp64 : p ≤ 2 ^ 64) :
    leoVerify (mkCtx P8) d p len (data ++ encode (mkCtx P8) d p len data) = true :=
  C06_leo_valid _ hdsz hp64

theorem C06_leo8_flip_parity {d p len r s v : ℕ} {data : Array Vec} (hdsz : data.size = d)
    (hwd : WF len data) (hp64 : p ≤ 2 ^ 64) (hr : r < p) (hs : s < len)
    (hv : v ≠ ((encode (mkCtx P8) d p len data)[r]!)[s]!) :
    leoVerify (mkCtx P8) d p len (setSym (data ++ encode (mkCtx P8) d p len data) (d + r) s v) = false :=
  C06_leo_flip_parity _ hdsz hwd hp64 hr hs hv

theorem C06_leo8_flip_data {d p len c s v : ℕ} {data : Array Vec}
    (hp : 0 < p) (hp64 : p ≤ 2 ^ 64) (hadm : d + ceilPow2 p ≤ 256)
    (hdsz : data.size = d) (hwd : WF len data) (hbd : SymsBelow 256 data)
    (hc : c < d) (hs : s < len) (hv : v < 256) (hne : v ≠ (data[c]!)[s]!) :
    leoVerify (mkCtx P8) d p len (setSym (data ++ encode (mkCtx P8) d p len data) c s v) = false :=
  C06_leo_flip_data F8 skewOK8 hp hp64 hadm hdsz hwd hbd hc hs hv hne

theorem C06_leo8_flip_data_every_parity {d p len c s v : ℕ} {data : Array Vec}
    (hp64 : p ≤ 2 ^ 64) (hadm : d + ceilPow2 p ≤ 256)
    (hdsz : data.size = d) (hwd : WF len data) (hbd : SymsBelow 256 data)
    (hc : c < d) (hs : s < len) (hv : v < 256) (hne : v ≠ (data[c]!)[s]!) (r : ℕ) (hr : r < p) :
    ((encode (mkCtx P8) d p len (setSym data c s v))[r]!)[s]! ≠ ((encode (mkCtx P8) d p len data)[r]!)[s]! :=
  C06_leo_flip_data_every_parity F8 skewOK8 hp64 hadm hdsz hwd hbd hc hs hv hne r hr

theorem C06_leo8_detects_upto_p {d p len s : ℕ} {data data' : Array Vec}
    (hd : 0 < d) (hp64 : p ≤ 2 ^ 64) (hadm : d + ceilPow2 p ≤ 256)
    (hdsz : data.size = d) (hwd : WF len data) (hbd : SymsBelow 256 data)
    (hdsz' : data'.size = d) (hwd' : WF len data') (hbd' : SymsBelow 256 data') (hs : s < len)
    (D : Finset (Fin d)) (hcard : D.card ≤ p)
    (hsame : ∀ c : Fin d, c ∉ D → (data'[c.val]!)[s]! = (data[c.val]!)[s]!)
    (hdiff : ∃ c : Fin d, (data'[c.val]!)[s]! ≠ (data[c.val]!)[s]!) :
    leoVerify (mkCtx P8) d p len (data' ++ encode (mkCtx P8) d p len data) = false :=
  C06_leo_detects_upto_p F8 skewOK8 hd hp64 hadm hdsz hwd hbd hdsz' hwd' hbd' hs D hcard hsame hdiff

theorem C06_leo16_valid {d p len : ℕ} {data : Array Vec} (hdsz : data.size = d) (hp64 : p ≤ 2 ^ 64) :
    leoVerify (mkCtx P16) d p len (data ++ encode (mkCtx P16) d p len data) = true :=
  C06_leo_valid _ hdsz hp64

theorem C06_leo16_flip_parity {d p len r s v : ℕ} {data : Array Vec} (hdsz : data.size = d)
    (hwd : WF len data) (hp64 : p ≤ 2 ^ 64) (hr : r < p) (hs : s < len)
    (hv : v ≠ ((encode (mkCtx P16) d p len data)[r]!)[s]!) :
    leoVerify (mkCtx P16) d p len (setSym (data ++ encode (mkCtx P16) d p len data) (d + r) s v) = false :=
  C06_leo_flip_parity _ hdsz hwd hp64 hr hs hv

theorem C06_leo16_flip_data {d p len c s v : ℕ} {data : Array Vec}
    (hp : 0 < p) (hp64 : p ≤ 2 ^ 64) (hadm : d + ceilPow2 p ≤ 65536)
    (hdsz : data.size = d) (hwd : WF len data) (hbd : SymsBelow 65536 data)
    (hc : c < d) (hs : s < len) (hv : v < 65536) (hne : v ≠ (data[c]!)[s]!) :
    leoVerify (mkCtx P16) d p len (setSym (data ++ encode (mkCtx P16) d p len data) c s v) = false :=
  C06_leo_flip_data F16 skewOK16 hp hp64 hadm hdsz hwd hbd hc hs hv hne

theorem C06_leo16_flip_data_every_parity {d p len c s v : ℕ} {data : Array Vec}
    (hp64 : p ≤ 2 ^ 64) (hadm : d + ceilPow2 p ≤ 65536)
    (hdsz : data.size = d) (hwd : WF len data) (hbd : SymsBelow 65536 data)
    (hc : c < d) (hs : s < len) (hv : v < 65536) (hne : v ≠ (data[c]!)[s]!) (r : ℕ) (hr : r < p) :
    ((encode (mkCtx P16) d p len (setSym data c s v))[r]!)[s]! ≠ ((encode (mkCtx P16) d p len data)[r]!)[s]! :=
  C06_leo_flip_data_every_parity F16 skewOK16 hp64 hadm hdsz hwd hbd hc hs hv hne r hr

theorem C06_leo16_detects_upto_p {d p len s : ℕ} {data data' : Array Vec}
    (hd : 0 < d) (hp64 : p ≤ 2 ^ 64) (hadm : d + ceilPow2 p ≤ 65536)
    (hdsz : data.size = d) (hwd : WF len data) (hbd : SymsBelow 65536 data)
    (hdsz' : data'.size = d) (hwd' : WF len data') (hbd' : SymsBelow 65536 data') (hs : s < len)
    (D : Finset (Fin d)) (hcard : D.card ≤ p)
    (hsame : ∀ c : Fin d, c ∉ D → (data'[c.val]!)[s]! = (data[c.val]!)[s]!)
    (hdiff : ∃ c : Fin d, (data'[c.val]!)[s]! ≠ (data[c.val]!)[s]!) :
    leoVerify (mkCtx P16) d p len (data' ++ encode (mkCtx P16) d p len data) = false :=
  C06_leo_detects_upto_p F16 skewOK16 hd hp64 hadm hdsz hwd hbd hdsz' hwd' hbd' hs D hcard hsame hdiff

/-! ## non-vacuity -/

set_option maxRecDepth 8192 in
/-- the hypotheses of `C06_leo8_flip_data` / `C06_leo16_flip_data` are satisfiable: a `(10, 4)` shard set of two
zero symbols per shard, symbol 1 of data shard 3 changed to `7` -/
example : ∃ (d p len c s v : ℕ) (data : Array Vec), 0 < p ∧ p ≤ 2 ^ 64 ∧ d + ceilPow2 p ≤ 256 ∧
    data.size = d ∧ WF len data ∧ SymsBelow 256 data ∧ c < d ∧ s < len ∧ v < 256 ∧ v ≠ (data[c]!)[s]! :=
  ⟨10, 4, 2, 3, 1, 7, Array.replicate 10 (zeroVec 2), by decide, by decide,
    by rw [ceilPow2_eq]; decide, by simp, WF_replicate 10 2, symsBelow_replicate (by decide) 10 2,
    by decide, by decide, by decide, by decide⟩

end RSV.Props.C06leo

#print axioms RSV.Props.C06leo.C06_leo_valid
#print axioms RSV.Props.C06leo.C06_leo_iff
#print axioms RSV.Props.C06leo.C06_leo_iff_rows
#print axioms RSV.Props.C06leo.C06_leo_parity_mismatch
#print axioms RSV.Props.C06leo.C06_leo_flip_parity
#print axioms RSV.Props.C06leo.C06_leo_pure
#print axioms RSV.Props.C06leo.C06_leo_p0
#print axioms RSV.Props.C06leo.C06_leo_flip_data_every_parity
#print axioms RSV.Props.C06leo.C06_leo_flip_data
#print axioms RSV.Props.C06leo.C06_leo_detects_upto_p
#print axioms RSV.Props.C06leo.C06_leo8_valid
#print axioms RSV.Props.C06leo.C06_leo8_flip_parity
#print axioms RSV.Props.C06leo.C06_leo8_flip_data
#print axioms RSV.Props.C06leo.C06_leo8_flip_data_every_parity
#print axioms RSV.Props.C06leo.C06_leo8_detects_upto_p
#print axioms RSV.Props.C06leo.C06_leo16_valid
#print axioms RSV.Props.C06leo.C06_leo16_flip_parity
#print axioms RSV.Props.C06leo.C06_leo16_flip_data
#print axioms RSV.Props.C06leo.C06_leo16_flip_data_every_parity
#print axioms RSV.Props.C06leo.C06_leo16_detects_upto_p
