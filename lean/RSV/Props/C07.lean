import RSV.Proofs.Dispatch
import RSV.Props.Consts
import RSV.Props.C07opts

/-!
# C07 — results do not depend on goroutine settings / split sizes / kernel granularity

`RSV.Model.Dispatch` models how `codeSomeShardsP/AVXP/GFNI` and `updateParityShardsP` cut the byte
range `[0, byteCount)` into worker ranges (`workerRanges`, `updateRanges`), and how a worker cuts
its range into one SIMD kernel call on a granularity-aligned prefix plus scalar rounds
(`execPieces`).  Every byte of the output is a function of its offset alone (`f : Nat → β`), so
the output of a call is `evalPieces f` of the pieces.

* `C07_splitLoop_chain`, `C07_workerRanges_chain`, `C07_updateRanges_chain`,
  `C07_scalarRounds_chain`, `C07_execPieces_chain`, `C07_allPieces_chain` — the pieces are
  consecutive, start at `0` (resp. at the worker's start) and end at `byteCount` (resp. at the
  worker's stop): nothing is skipped, nothing is computed twice;
* `C07_workerRanges_aligned`, `C07_kernel_piece`, `C07_scalarRounds_le`, `C07_scalarRounds_full` —
  the alignment/size facts the kernels rely on;
* `C07_chain_partition`, `C07_chain_partition_index` — a chain covers every offset exactly once;
* `C07_evalPieces` — piecewise evaluation over a chain is whole evaluation;
* `C07_options`, `C07_options_free`, `C07_update_options` — any two option records give the same
  bytes;
* `C07_workers_disjoint`, `C07_update_workers_disjoint`, `C07_allPieces_disjoint` — the write
  ranges of different workers / pieces are disjoint, so no schedule can change the result.

All statements hold for `gor = 0` as well (`byteCount / 0 = 0` in the model; Go would panic, the
real options always have `maxGoroutines ≥ 1`), so no `0 < gor` hypothesis is needed.
-/

namespace RSV.Props.C07
open RSV.Model.Dispatch RSV.Proofs.Dispatch

theorem C07_splitLoop_chain (n d start fuel : Nat) (hd : 0 < d) (hs : start ≤ n)
    (hf : n - start < fuel) : Chain (splitLoop n fuel d start) start n :=
  splitLoop_chain n fuel d start hd hs hf

theorem C07_workerRanges_chain (n gor ms : Nat) (hms : 0 < ms) :
    Chain (workerRanges n gor ms) 0 n := by
  unfold workerRanges
  simp only
  split
  · exact chain_cons.2 ⟨rfl, Nat.zero_le _, chain_nil.2 rfl⟩
  · apply splitLoop_chain n (n + 1) _ 0 _ (Nat.zero_le _) (by omega)
    split <;> omega

theorem C07_updateRanges_chain (n gor ms : Nat) (hms : 0 < ms) :
    Chain (updateRanges n gor ms) 0 n := by
  unfold updateRanges
  simp only
  apply splitLoop_chain n (n + 1) _ 0 _ (Nat.zero_le _) (by omega)
  split <;> omega

/-- every worker range starts on a multiple of 64 and ends on a multiple of 64 or at `byteCount`
(when more than one goroutine is allowed) -/
theorem C07_workerRanges_aligned (n gor ms : Nat) (hg : 1 < gor) :
    ∀ p ∈ workerRanges n gor ms, p.1 % 64 = 0 ∧ (p.2 % 64 = 0 ∨ p.2 = n) := by
  unfold workerRanges
  simp only
  rw [if_neg (by omega)]
  apply splitLoop_aligned
  intro _
  exact ⟨rfl, Nat.mul_mod_left _ _⟩

/-- with a single goroutine there is exactly one worker range, the whole input -/
theorem C07_workerRanges_single (n gor ms : Nat) (hg : gor ≤ 1) :
    workerRanges n gor ms = [(0, n)] := by
  unfold workerRanges
  simp only
  rw [if_pos hg]

theorem C07_scalarRounds_chain (stop pr start fuel : Nat) (hpr : 0 < pr) (hs : start ≤ stop)
    (hf : stop - start < fuel) : Chain (scalarRounds stop pr fuel start) start stop :=
  scalarRounds_chain stop pr hpr fuel start hs hf

theorem C07_scalarRounds_le (stop pr start fuel : Nat) :
    ∀ p ∈ scalarRounds stop pr fuel start, p.2 - p.1 ≤ pr :=
  scalarRounds_le stop pr fuel start

/-- every scalar round except possibly the last has exactly `perRound` bytes -/
theorem C07_scalarRounds_full (stop pr start fuel : Nat) :
    ∀ p ∈ scalarRounds stop pr fuel start, p.2 - p.1 = pr ∨ p.2 = stop :=
  scalarRounds_full stop pr fuel start

theorem C07_execPieces_chain (start stop pr : Nat) (g : Option Nat) (hpr : 0 < pr)
    (hs : start ≤ stop) : Chain ((execPieces start stop pr g).map (·.1)) start stop :=
  execPieces_chain start stop pr g hpr hs

/-- the kernel piece starts at the worker's start, is `g`-aligned in length, lies inside the
worker's range and is only used on ranges of at least 64 bytes -/
theorem C07_kernel_piece (start stop pr g' : Nat) (p : Piece)
    (hp : (p, true) ∈ execPieces start stop pr (some g')) :
    p.1 = start ∧ (p.2 - p.1) % g' = 0 ∧ 64 ≤ stop - start ∧ p.2 ≤ stop := by
  rw [execPieces_eq, List.mem_append] at hp
  have hk := kernelLen_le start stop (some g')
  rcases hp with hp | hp
  · split at hp
    · cases hp
    · rename_i hn
      rw [List.mem_singleton] at hp
      have hp' : p = (start, start + kernelLen start stop (some g')) := (Prod.mk.inj hp).1
      subst hp'
      show start = start ∧ (start + kernelLen start stop (some g') - start) % g' = 0 ∧
        64 ≤ stop - start ∧ start + kernelLen start stop (some g') ≤ stop
      have hlen : start + kernelLen start stop (some g') - start =
          kernelLen start stop (some g') := by omega
      rw [hlen]
      refine ⟨rfl, ?_, ?_, by omega⟩
      · unfold kernelLen
        simp only
        split
        · exact Nat.mul_mod_left _ _
        · exact Nat.zero_mod _
      · unfold kernelLen at hn
        simp only at hn
        split at hn
        · assumption
        · exact absurd rfl hn
  · rw [List.mem_map] at hp
    obtain ⟨q, _, hq⟩ := hp
    cases (Prod.mk.inj hq).2

/-- without a kernel (`noasm`, or a code path with no SIMD), no piece is a kernel piece -/
theorem C07_no_kernel_piece (start stop pr : Nat) (p : Piece) :
    (p, true) ∉ execPieces start stop pr none := by
  intro hp
  rw [execPieces_eq, List.mem_append] at hp
  rcases hp with hp | hp
  · simp [kernelLen] at hp
  · rw [List.mem_map] at hp
    obtain ⟨q, _, hq⟩ := hp
    cases (Prod.mk.inj hq).2

theorem C07_allPieces_chain (n gor ms pr : Nat) (g : Option Nat) (hms : 0 < ms) (hpr : 0 < pr) :
    Chain ((allPieces n gor ms pr g).map (·.1)) 0 n := by
  unfold allPieces
  rw [List.map_flatMap]
  exact chain_flatMap (fun se => (execPieces se.1 se.2 pr g).map (·.1))
    (fun s e hse => execPieces_chain s e pr g hpr hse) _ 0 n (C07_workerRanges_chain n gor ms hms)

/-- a chain covers every offset exactly once (counting formulation) -/
theorem C07_chain_partition (ps : List Piece) (a b : Nat) (h : Chain ps a b) (k : Nat)
    (hk : a ≤ k ∧ k < b) : ps.countP (fun p => decide (p.1 ≤ k ∧ k < p.2)) = 1 :=
  chain_countP_one k ps a b h hk.1 hk.2

/-- a chain covers no offset outside `[a, b)` -/
theorem C07_chain_outside (ps : List Piece) (a b : Nat) (h : Chain ps a b) (k : Nat)
    (hk : k < a ∨ b ≤ k) : ps.countP (fun p => decide (p.1 ≤ k ∧ k < p.2)) = 0 :=
  chain_countP_zero k ps a b h hk

/-- a chain covers every offset exactly once (`∃!` over the index, spelled out in core Lean) -/
theorem C07_chain_partition_index (ps : List Piece) (a b : Nat) (h : Chain ps a b) (k : Nat)
    (hk : a ≤ k ∧ k < b) :
    ∃ i : Fin ps.length, (ps[i].1 ≤ k ∧ k < ps[i].2) ∧
      ∀ j : Fin ps.length, (ps[j].1 ≤ k ∧ k < ps[j].2) → j = i :=
  chain_unique_index k ps a b h hk.1 hk.2

/-- piecewise evaluation over a chain equals whole evaluation -/
theorem C07_evalPieces (β : Type) (f : Nat → β) (ps : List Piece) (a b : Nat) (h : Chain ps a b) :
    evalPieces f ps = (List.range' a (b - a)).map f :=
  evalPieces_chain f ps a b h

/-- every option record gives the option-free evaluation `[f 0, …, f (n-1)]` -/
theorem C07_options_free (β : Type) (f : Nat → β) (n gor ms pr : Nat) (g : Option Nat)
    (hms : 0 < ms) (hpr : 0 < pr) :
    evalPieces f ((allPieces n gor ms pr g).map (·.1)) = (List.range' 0 n).map f := by
  rw [evalPieces_chain f _ 0 n (C07_allPieces_chain n gor ms pr g hms hpr), Nat.sub_zero]

/-- ANY two option records (goroutine count, min split size, per-round size, kernel granularity
or no kernel) give the same bytes -/
theorem C07_options (β : Type) (f : Nat → β) (n : Nat)
    (gor₁ ms₁ pr₁ : Nat) (g₁ : Option Nat) (gor₂ ms₂ pr₂ : Nat) (g₂ : Option Nat)
    (hms₁ : 0 < ms₁) (hpr₁ : 0 < pr₁) (hms₂ : 0 < ms₂) (hpr₂ : 0 < pr₂) :
    evalPieces f ((allPieces n gor₁ ms₁ pr₁ g₁).map (·.1)) =
      evalPieces f ((allPieces n gor₂ ms₂ pr₂ g₂).map (·.1)) := by
  rw [C07_options_free β f n gor₁ ms₁ pr₁ g₁ hms₁ hpr₁,
    C07_options_free β f n gor₂ ms₂ pr₂ g₂ hms₂ hpr₂]

/-- the same for `updateParityShardsP` (worker ranges only) -/
theorem C07_update_options (β : Type) (f : Nat → β) (n gor₁ ms₁ gor₂ ms₂ : Nat)
    (hms₁ : 0 < ms₁) (hms₂ : 0 < ms₂) :
    evalPieces f (updateRanges n gor₁ ms₁) = evalPieces f (updateRanges n gor₂ ms₂) := by
  rw [evalPieces_chain f _ 0 n (C07_updateRanges_chain n gor₁ ms₁ hms₁),
    evalPieces_chain f _ 0 n (C07_updateRanges_chain n gor₂ ms₂ hms₂)]

/-- worker ranges are pairwise disjoint (each ends before every later one starts), so the order
in which workers run (any schedule) cannot matter -/
theorem C07_workers_disjoint (n gor ms : Nat) (hms : 0 < ms) :
    (workerRanges n gor ms).Pairwise (fun p q => p.2 ≤ q.1) :=
  chain_pairwise _ 0 n (C07_workerRanges_chain n gor ms hms)

theorem C07_update_workers_disjoint (n gor ms : Nat) (hms : 0 < ms) :
    (updateRanges n gor ms).Pairwise (fun p q => p.2 ≤ q.1) :=
  chain_pairwise _ 0 n (C07_updateRanges_chain n gor ms hms)

/-- all kernel calls and scalar rounds of one call write pairwise disjoint ranges -/
theorem C07_allPieces_disjoint (n gor ms pr : Nat) (g : Option Nat) (hms : 0 < ms) (hpr : 0 < pr) :
    ((allPieces n gor ms pr g).map (·.1)).Pairwise (fun p q => p.2 ≤ q.1) :=
  chain_pairwise _ 0 n (C07_allPieces_chain n gor ms pr g hms hpr)

/-! ## Non-vacuity -/

example : workerRanges 300 4 64 = [(0, 128), (128, 256), (256, 300)] := by decide
example : workerRanges 300 1 64 = [(0, 300)] := by decide
example : workerRanges 300 0 64 = [(0, 300)] := by decide
example : workerRanges 100 8 16 = [(0, 64), (64, 100)] := by decide
example : updateRanges 300 4 64 = [(0, 75), (75, 150), (150, 225), (225, 300)] := by decide
example : updateRanges 10 0 4 = [(0, 4), (4, 8), (8, 10)] := by decide
example : scalarRounds 200 64 201 0 = [(0, 64), (64, 128), (128, 192), (192, 200)] := by decide
example : execPieces 0 200 64 (some 32) = [((0, 192), true), ((192, 200), false)] := by decide
example : execPieces 0 200 64 (some 64) = [((0, 192), true), ((192, 200), false)] := by decide
example : execPieces 0 200 64 none =
    [((0, 64), false), ((64, 128), false), ((128, 192), false), ((192, 200), false)] := by decide
example : execPieces 0 63 64 (some 32) = [((0, 63), false)] := by decide
example : execPieces 128 256 64 (some 32) = [((128, 256), true)] := by decide
example : allPieces 300 4 64 64 (some 32) =
    [((0, 128), true), ((128, 256), true), ((256, 300), false)] := by decide
example : allPieces 300 1 64 64 (some 32) =
    [((0, 288), true), ((288, 300), false)] := by decide
example : evalPieces (fun i => i * i) [(0, 2), (2, 2), (2, 5)] = [0, 1, 4, 9, 16] := by decide
/-- the positivity hypotheses are needed: with `minSplit = 0` and `byteCount < gor` the Go loop
does not advance (`do = 0`); the fuel-bounded model returns `byteCount + 1` empty pieces and not a
chain to `byteCount` -/
example : ¬ Chain (updateRanges 1 2 0) 0 1 := by decide
example : ¬ Chain (scalarRounds 1 0 2 0) 0 1 := by decide

/-- the code-generation thresholds regenerated from the Go source are the ones the dispatch model assumes -/
theorem C07_constants : RSV.Gen.minCodeGenSize = 64 ∧ RSV.Gen.codeGenMinSize = 64 ∧ RSV.Gen.codeGenMinShards = 3 ∧
    RSV.Gen.codeGenMaxInputs = 10 ∧ RSV.Gen.codeGenMaxOutputs = 10 ∧ RSV.Gen.codeGenMaxGoroutines = 8 ∧
    RSV.Gen.gfniCodeGenMaxGoroutines = 4 := RSV.Props.Consts.dispatch_constants


end RSV.Props.C07

#print axioms RSV.Props.C07.C07_splitLoop_chain
#print axioms RSV.Props.C07.C07_workerRanges_chain
#print axioms RSV.Props.C07.C07_updateRanges_chain
#print axioms RSV.Props.C07.C07_workerRanges_aligned
#print axioms RSV.Props.C07.C07_workerRanges_single
#print axioms RSV.Props.C07.C07_scalarRounds_chain
#print axioms RSV.Props.C07.C07_scalarRounds_le
#print axioms RSV.Props.C07.C07_scalarRounds_full
#print axioms RSV.Props.C07.C07_execPieces_chain
#print axioms RSV.Props.C07.C07_kernel_piece
#print axioms RSV.Props.C07.C07_no_kernel_piece
#print axioms RSV.Props.C07.C07_allPieces_chain
#print axioms RSV.Props.C07.C07_chain_partition
#print axioms RSV.Props.C07.C07_chain_outside
#print axioms RSV.Props.C07.C07_chain_partition_index
#print axioms RSV.Props.C07.C07_evalPieces
#print axioms RSV.Props.C07.C07_options_free
#print axioms RSV.Props.C07.C07_options
#print axioms RSV.Props.C07.C07_update_options
#print axioms RSV.Props.C07.C07_workers_disjoint
#print axioms RSV.Props.C07.C07_update_workers_disjoint
#print axioms RSV.Props.C07.C07_allPieces_disjoint
#print axioms RSV.Props.C07.C07_constants
