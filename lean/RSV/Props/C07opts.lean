import RSV.Model.Options

/-!
# C07 (options) — the derived processing parameters of `New` are usable

`RSV.Model.Options.derive` mirrors how `New` derives `perRound`, `minSplitSize`, `maxGoroutines`
from cpuid cache sizes (any integers), the thread topology, `GOMAXPROCS` and the caller's options.
The range-splitting theorems of `RSV.Props.C07` need `0 < minSplitSize`, `0 < perRound`, and the
worker loops divide by `maxGoroutines`.  Here: for every admissible input all three are positive
(`C07_derive_positive`), plus the shape of each (`C07_derive_no_auto`, `C07_derive_auto`,
`C07_derive_perRound_aligned`, `C07_derive_perRound_shape`, `C07_derive_minSplit`).

Proof layout: `derive` is cut into stages (`pr3`, `round64`, `msOf`, `core`, `cap`) with
`derive_eq : derive c i = ⟨(core ..).1, msOf c i, cap .. (core ..).2⟩` by `rfl`; each stage has a
small spec proved by case split and `omega`; the two non-linear facts (`1 ≤ shardSize / perRound`,
rounding to a multiple of `P`) are `Int.le_ediv_of_mul_le` and `roundup_spec`.

Only `1 ≤ gomaxprocs` and `1 ≤ maxGoroutines` of `Admissible` are used; the examples at the end
show both are necessary.  Nothing is assumed about cache sizes, `threadsPerCore`,
`physicalCores`, `d`, `p` beyond what is stated (division by a zero / negative divisor is
harmless because of the final `max 1024`).
-/
namespace RSV.Props.C07opts
open RSV.Model.Options

/-- `perRound3` of the model: the cache size divided by threads per core and by the shard divisor -/
def pr3 (c : Cpu) (i : In) : Int :=
  let perRound0 := if c.l2 < 128 * 1024 then 128 * 1024 else c.l2
  let (perRound1, divide) : Int × Int :=
    if i.useCodeGen && (decide (i.d > 10) || decide (i.p > 10)) then
      let pr := if c.l1d < 32 * 1024 then 32 * 1024 else c.l1d
      (pr, (if i.d > 10 then 10 else i.d) + (if i.p > 10 then 10 else i.p))
    else (perRound0, i.p + 1)
  let perRound2 := if c.threadsPerCore > 1 && i.maxGoroutines > c.physicalCores then perRound1 / c.threadsPerCore else perRound1
  perRound2 / divide

/-- `perRound5` as a function of `perRound3`: round up to 64, at least 1024 -/
def round64 (x : Int) : Int :=
  let perRound4 := ((x + 63) / 64) * 64
  if perRound4 < 1024 then 1024 else perRound4

/-- `minSplit` of the model -/
def msOf (c : Cpu) (i : In) : Int :=
  if i.minSplitSize ≤ 0 then
    let cacheSize := if c.l1d ≤ 0 then 32 * 1024 else c.l1d
    let ms := cacheSize / (i.p + 1)
    if ms < 1024 then 1024 else ms
  else i.minSplitSize

/-- the auto-goroutine part of the model as a function of `perRound5` and `minSplit`:
`(perRound6, maxGor1)` -/
def core (P shardSize maxGor perRound5 minSplit : Int) : Int × Int :=
  if shardSize > 0 then
    if P = 1 || shardSize ≤ minSplit * 2 then (perRound5, 1)
    else
      let g0 := shardSize / perRound5
      let (g1, pr) := if g0 < P * 2 && perRound5 > minSplit * 2 then (P * 2, perRound5 / 2) else (g0, perRound5)
      let g2 := g1 + (P - 1)
      (pr, g2 - g2 % P)
  else (perRound5, maxGor)

/-- the caps for the AVX2 / GFNI code generators -/
def cap (useCodeGen useGFNI : Bool) (maxGor1 : Int) : Int :=
  let maxGor2 := if useCodeGen && maxGor1 > 8 then 8 else maxGor1
  if useGFNI && maxGor2 > 4 then 4 else maxGor2

theorem derive_eq (c : Cpu) (i : In) :
    derive c i =
      ⟨(core c.gomaxprocs i.shardSize i.maxGoroutines (round64 (pr3 c i)) (msOf c i)).1,
       msOf c i,
       cap i.useCodeGen i.useGFNI
        (core c.gomaxprocs i.shardSize i.maxGoroutines (round64 (pr3 c i)) (msOf c i)).2⟩ := rfl

theorem round64_spec (x : Int) : 1024 ≤ round64 x ∧ round64 x % 64 = 0 := by
  simp only [round64]
  split <;> omega

theorem msOf_spec (c : Cpu) (i : In) :
    (0 < i.minSplitSize → msOf c i = i.minSplitSize) ∧ (i.minSplitSize ≤ 0 → 1024 ≤ msOf c i) := by
  simp only [msOf]
  constructor
  · intro h
    rw [if_neg (by omega)]
  · intro h
    rw [if_pos h]
    split <;> omega

/-- rounding `g` down to a multiple of `P` after adding `P - 1` -/
theorem roundup_spec (P g : Int) (hP : 1 ≤ P) (hg : P ≤ g) :
    (g - g % P) % P = 0 ∧ P ≤ g - g % P := by
  have h1 : g - g % P = P * (g / P) := by
    have := Int.mul_ediv_add_emod g P
    omega
  have h2 : 1 ≤ g / P := Int.le_ediv_of_mul_le (by omega) (by omega)
  rw [h1]
  refine ⟨Int.mul_emod_right _ _, ?_⟩
  have := Int.mul_le_mul_of_nonneg_left h2 (show 0 ≤ P by omega)
  omega

theorem cap_spec (cg gf : Bool) (g : Int) :
    cap cg gf g = g ∨ (8 < g ∧ cap cg gf g = 8) ∨ (4 < g ∧ cap cg gf g = 4) := by
  simp only [cap]
  cases cg <;> cases gf <;> simp <;> omega

theorem core_spec (P s mg pr ms : Int) (hP : 1 ≤ P) (hpr : 1024 ≤ pr) :
    ((core P s mg pr ms).1 = pr ∨ (core P s mg pr ms).1 = pr / 2) ∧
    (s ≤ 0 → (core P s mg pr ms).2 = mg) ∧
    (0 < s → (core P s mg pr ms).2 = 1 ∨
      ((core P s mg pr ms).2 % P = 0 ∧ P ≤ (core P s mg pr ms).2)) := by
  simp only [core]
  split
  · next hs =>
    split
    · exact ⟨Or.inl rfl, fun h => absurd hs (by omega), fun _ => Or.inl rfl⟩
    · next h1 =>
      simp only [Bool.or_eq_true, decide_eq_true_eq, not_or] at h1
      split
      · next h2 =>
        refine ⟨Or.inr rfl, fun h => absurd hs (by omega), fun _ => Or.inr ?_⟩
        exact roundup_spec P (P * 2 + (P - 1)) hP (by omega)
      · next h2 =>
        simp only [Bool.and_eq_true, decide_eq_true_eq, not_and] at h2
        refine ⟨Or.inl rfl, fun h => absurd hs (by omega), fun _ => Or.inr ?_⟩
        apply roundup_spec P _ hP
        show P ≤ s / pr + (P - 1)
        have : 1 ≤ s / pr := by
          by_cases h3 : s / pr < P * 2
          · have := h2 h3
            exact Int.le_ediv_of_mul_le (by omega) (by omega)
          · omega
        omega
  · next hs =>
    refine ⟨Or.inl rfl, fun _ => rfl, fun h => absurd h hs⟩


/-- admissible inputs: what the Go code guarantees before the derivation -/
structure Admissible (c : Cpu) (i : In) : Prop where
  gmp : 1 ≤ c.gomaxprocs
  d : 1 ≤ i.d
  p : 1 ≤ i.p
  gor : 1 ≤ i.maxGoroutines
  -- cache sizes, threadsPerCore, physicalCores: ANY integers (cpuid may report 0 or -1)

/-- the worker loops divide byteCount by maxGoroutines and the range-splitting theorems (C07) need
positive minSplitSize and perRound: all three derived parameters are ≥ 1 for every admissible
input -/
theorem C07_derive_positive (c : Cpu) (i : In) (h : Admissible c i) :
    1 ≤ (derive c i).maxGoroutines ∧ 1 ≤ (derive c i).minSplitSize ∧
      512 ≤ (derive c i).perRound := by
  rw [derive_eq]
  obtain ⟨hr, _⟩ := round64_spec (pr3 c i)
  obtain ⟨h1, h2, h3⟩ := core_spec c.gomaxprocs i.shardSize i.maxGoroutines
    (round64 (pr3 c i)) (msOf c i) h.gmp hr
  obtain ⟨m1, m2⟩ := msOf_spec c i
  have hc := cap_spec i.useCodeGen i.useGFNI
    (core c.gomaxprocs i.shardSize i.maxGoroutines (round64 (pr3 c i)) (msOf c i)).2
  have hg := h.gor
  have hP := h.gmp
  refine ⟨?_, ?_, ?_⟩
  · show 1 ≤ cap _ _ _
    by_cases hs : 0 < i.shardSize
    · have := h3 hs; omega
    · have := h2 (by omega); omega
  · show 1 ≤ msOf c i
    by_cases hm : 0 < i.minSplitSize
    · have := m1 hm; omega
    · have := m2 (by omega); omega
  · show 512 ≤ (core _ _ _ _ _).1
    omega

/-- without WithAutoGoroutines the goroutine count is the caller's, only capped -/
theorem C07_derive_no_auto (c : Cpu) (i : In) (h : Admissible c i) (hs : i.shardSize ≤ 0) :
    (derive c i).maxGoroutines ≤ i.maxGoroutines ∧
      ((derive c i).maxGoroutines = i.maxGoroutines ∨ (derive c i).maxGoroutines = 8 ∨
        (derive c i).maxGoroutines = 4) := by
  rw [derive_eq]
  obtain ⟨hr, _⟩ := round64_spec (pr3 c i)
  obtain ⟨_, h2, _⟩ := core_spec c.gomaxprocs i.shardSize i.maxGoroutines
    (round64 (pr3 c i)) (msOf c i) h.gmp hr
  have hc := cap_spec i.useCodeGen i.useGFNI
    (core c.gomaxprocs i.shardSize i.maxGoroutines (round64 (pr3 c i)) (msOf c i)).2
  have := h2 hs
  show cap _ _ _ ≤ _ ∧ (cap _ _ _ = _ ∨ cap _ _ _ = 8 ∨ cap _ _ _ = 4)
  omega

/-- with WithAutoGoroutines the count is 1, or a positive multiple of GOMAXPROCS, or capped at
8 / 4 -/
theorem C07_derive_auto (c : Cpu) (i : In) (h : Admissible c i) (hs : 0 < i.shardSize) :
    (derive c i).maxGoroutines = 1 ∨
      ((derive c i).maxGoroutines % c.gomaxprocs = 0 ∧
        c.gomaxprocs ≤ (derive c i).maxGoroutines) ∨
      (derive c i).maxGoroutines = 8 ∨ (derive c i).maxGoroutines = 4 := by
  rw [derive_eq]
  obtain ⟨hr, _⟩ := round64_spec (pr3 c i)
  obtain ⟨_, _, h3⟩ := core_spec c.gomaxprocs i.shardSize i.maxGoroutines
    (round64 (pr3 c i)) (msOf c i) h.gmp hr
  have hc := cap_spec i.useCodeGen i.useGFNI
    (core c.gomaxprocs i.shardSize i.maxGoroutines (round64 (pr3 c i)) (msOf c i)).2
  have := h3 hs
  show cap _ _ _ = 1 ∨ (cap _ _ _ % _ = 0 ∧ _ ≤ cap _ _ _) ∨ cap _ _ _ = 8 ∨ cap _ _ _ = 4
  rcases hc with hc | ⟨_, hc⟩ | ⟨_, hc⟩
  · rw [hc]
    rcases this with h | h
    · exact Or.inl h
    · exact Or.inr (Or.inl h)
  · exact Or.inr (Or.inr (Or.inl hc))
  · exact Or.inr (Or.inr (Or.inr hc))

/-- perRound is a multiple of 64 unless it was halved by the over-provisioning step, and then it
is a multiple of 32 -/
theorem C07_derive_perRound_aligned (c : Cpu) (i : In) (h : Admissible c i) :
    (derive c i).perRound % 32 = 0 := by
  rw [derive_eq]
  obtain ⟨hr, hr64⟩ := round64_spec (pr3 c i)
  obtain ⟨h1, _, _⟩ := core_spec c.gomaxprocs i.shardSize i.maxGoroutines
    (round64 (pr3 c i)) (msOf c i) h.gmp hr
  show (core _ _ _ _ _).1 % 32 = 0
  omega

/-- minSplitSize: the caller's positive value, otherwise at least 1024 -/
theorem C07_derive_minSplit (c : Cpu) (i : In) (_h : Admissible c i) :
    (0 < i.minSplitSize → (derive c i).minSplitSize = i.minSplitSize) ∧
      (i.minSplitSize ≤ 0 → 1024 ≤ (derive c i).minSplitSize) := by
  rw [derive_eq]
  exact msOf_spec c i

/-- the exact shape of `perRound`: a multiple `r` of 64 that is at least 1024, or half of it (only
with WithAutoGoroutines, by the over-provisioning step) -/
theorem C07_derive_perRound_shape (c : Cpu) (i : In) (h : Admissible c i) :
    ∃ r : Int, 1024 ≤ r ∧ r % 64 = 0 ∧
      ((derive c i).perRound = r ∨ (0 < i.shardSize ∧ (derive c i).perRound = r / 2)) := by
  rw [derive_eq]
  obtain ⟨hr, hr64⟩ := round64_spec (pr3 c i)
  refine ⟨round64 (pr3 c i), hr, hr64, ?_⟩
  show (core _ _ _ _ _).1 = _ ∨ (_ ∧ (core _ _ _ _ _).1 = _)
  by_cases hs : 0 < i.shardSize
  · obtain ⟨h1, _, _⟩ := core_spec c.gomaxprocs i.shardSize i.maxGoroutines
      (round64 (pr3 c i)) (msOf c i) h.gmp hr
    rcases h1 with h1 | h1
    · exact Or.inl h1
    · exact Or.inr ⟨hs, h1⟩
  · left
    simp only [core, if_neg hs]

/-! ## Non-vacuity: concrete records (values checked against the Go code by the harness) -/

/-- `Admissible` is inhabited -/
example : Admissible ⟨49152, 2097152, 1, 16, 16⟩ ⟨12, 4, 384, -1, 40000, true, true⟩ :=
  ⟨by decide, by decide, by decide, by decide⟩

/-- auto, `g0 = 11` rounded up to `16 = P`, then capped to 8 and to 4 -/
example : derive ⟨49152, 2097152, 1, 16, 16⟩ ⟨12, 4, 384, -1, 40000, true, true⟩
    = ⟨3520, 9830, 4⟩ := by decide

/-- auto, over-provisioning: `g = 2·P = 32`, `perRound` halved -/
example : derive ⟨49152, 2097152, 1, 16, 16⟩ ⟨12, 4, 384, -1, 40000, false, false⟩
    = ⟨209728, 9830, 32⟩ := by decide

/-- the halved `perRound` need not be a multiple of 64: `104864 % 64 = 32` -/
example : derive ⟨49152, 2097152, 2, 8, 16⟩ ⟨10, 4, 384, 512, 100000, false, false⟩
    = ⟨104864, 512, 32⟩ ∧ (104864 : Int) % 64 = 32 := by decide

/-- auto, large shards: `g0 = 476` rounded to `480 = 30·P`, capped to 8 by the AVX2 generator -/
example : derive ⟨49152, 2097152, 2, 8, 16⟩ ⟨10, 4, 384, 512, 100000000, true, false⟩
    = ⟨209728, 512, 8⟩ := by decide

/-- cpuid reports nothing (`-1`, `0`), no auto: the caller's 384 goroutines -/
example : derive ⟨-1, 0, 0, -1, 16⟩ ⟨10, 4, 384, -1, 0, false, false⟩
    = ⟨26240, 6553, 384⟩ := by decide

/-- `GOMAXPROCS = 1` with auto: one goroutine -/
example : derive ⟨-1, 0, 0, -1, 1⟩ ⟨10, 4, 1, -1, 1000000, true, false⟩
    = ⟨26240, 6553, 1⟩ := by decide

/-- negative `threadsPerCore`, tiny shards but above `2·minSplit`: `g0 = 0`, over-provisioned to
`2·P = 6` -/
example : derive ⟨-1, -1, -3, -1, 3⟩ ⟨1, 1, 1, 7, 15, false, false⟩
    = ⟨32768, 7, 6⟩ := by decide

/-- `1 ≤ gomaxprocs` is necessary: with `GOMAXPROCS = 0` (impossible in Go) the model gives 0 -/
example : (derive ⟨49152, 2097152, 2, 8, 0⟩ ⟨10, 4, 384, 512, 100000, false, false⟩).maxGoroutines
    = 0 := by decide

/-- `1 ≤ maxGoroutines` is necessary: `WithMaxGoroutines(0)` is ignored by Go, so the input is
never 0; the model would pass it through -/
example : (derive ⟨49152, 2097152, 2, 8, 4⟩ ⟨10, 4, 0, 512, 0, false, false⟩).maxGoroutines
    = 0 := by decide

end RSV.Props.C07opts

#print axioms RSV.Props.C07opts.derive_eq
#print axioms RSV.Props.C07opts.C07_derive_positive
#print axioms RSV.Props.C07opts.C07_derive_no_auto
#print axioms RSV.Props.C07opts.C07_derive_auto
#print axioms RSV.Props.C07opts.C07_derive_perRound_aligned
#print axioms RSV.Props.C07opts.C07_derive_perRound_shape
#print axioms RSV.Props.C07opts.C07_derive_minSplit
