import RSV.Props.C17
import RSV.Model.Kernels
import RSV.Gen.Switch
/-!
# C08 — every SIMD kernel computes the same bytes as the scalar field arithmetic

What is *proved* here: the two per-lane recipes the kernels implement (PSHUFB nibble lookup on the
regenerated `mulTableLow/High`, GF2P8AFFINEQB on the regenerated bit matrices) equal the field
product for every coefficient and every byte; the returned-count arithmetic; the slot layout of the
expanded matrices.  That the 3.3 MB of assembly implements the recipe in every lane is tied by
execution (lane-exhaustive, with guard zones) in the correspondence part of the check, not proved.
-/
namespace RSV.Props.C08
open RSV RSV.Gen RSV.Tables RSV.Model.Kernels

set_option maxRecDepth 100000 in
/-- a byte is its low nibble xor its high nibble shifted -/
theorem byte_split : ∀ x, x < 256 → x = (x &&& 15) ^^^ ((x >>> 4) * 16) := by decide +kernel

/-- PSHUFB recipe: `low[c][x & 15] ^ high[c][x >> 4] = c·x` for all 65,536 pairs (by linearity of the
product in `x` and the 2·4,096 table entries checked in C17) -/
theorem C08_nibble (c x : Nat) (hc : c < 256) (hx : x < 256) :
    byteAt (mulTableLowRows[c]!) (x &&& 15) ^^^ byteAt (mulTableHighRows[c]!) (x >>> 4) = gmul c x := by
  have h1 : x &&& 15 < 16 := Nat.lt_of_le_of_lt Nat.and_le_right (by decide)
  have h2 : x >>> 4 < 16 := by
    rw [Nat.shiftRight_eq_div_pow]; omega
  rw [mulTableLow_ok c hc _ h1, mulTableHigh_ok c hc _ h2, ← gmul_xor_right, ← byte_split x hx]

/-- GFNI recipe: GF2P8AFFINEQB with the regenerated matrix for `c` multiplies every byte by `c` -/
theorem C08_affine (c x : Nat) (hc : c < 256) (hx : x < 256) :
    affineByte (wordAt gf2p811dMulMatrices c) x = gmul c x := gfni_ok c x hc hx

/-- both recipes agree with each other and with the scalar table the pure Go path uses -/
theorem C08_recipes_agree (c x : Nat) (hc : c < 256) (hx : x < 256) :
    byteAt (mulTableLowRows[c]!) (x &&& 15) ^^^ byteAt (mulTableHighRows[c]!) (x >>> 4)
      = affineByte (wordAt gf2p811dMulMatrices c) x ∧
    affineByte (wordAt gf2p811dMulMatrices c) x = byteAt (mulTableRows[c]!) x := by
  rw [C08_nibble c x hc hx, C08_affine c x hc hx, mulTable_ok c x hc hx]; exact ⟨rfl, rfl⟩

/-- the returned count is the granularity-aligned prefix: a multiple of `g`, at most `len`, and less
than `g` bytes are left for the scalar tail -/
theorem C08_count (f : Family) (outputs len : Nat) :
    count f outputs len % gran f outputs = 0 ∧ count f outputs len ≤ len ∧ len - count f outputs len < gran f outputs := by
  have hg : 0 < gran f outputs := by
    cases f
    · show 0 < (if outputs ≤ 3 then 64 else 32); split <;> decide
    · show 0 < 64; decide
    · show 0 < 32; decide
  unfold count
  refine ⟨Nat.mul_mod_left _ _, Nat.div_mul_le_self _ _, ?_⟩
  have := Nat.mod_lt len hg
  have h2 := Nat.div_add_mod len (gran f outputs)
  rw [Nat.mul_comm] at h2
  omega

/-- granularities are 32 or 64, so a kernel never runs on fewer than 32 bytes and the scalar tail is < 64 -/
theorem C08_gran (f : Family) (outputs : Nat) : gran f outputs = 32 ∨ gran f outputs = 64 := by
  cases f
  · show (if outputs ≤ 3 then 64 else 32) = 32 ∨ (if outputs ≤ 3 then 64 else 32) = 64
    split
    · exact Or.inr rfl
    · exact Or.inl rfl
  · exact Or.inr rfl
  · exact Or.inl rfl

/-- distinct coefficient slots of the expanded matrices do not overlap -/
theorem C08_slots_injective (outputs i j i' j' : Nat) (hi : i < outputs) (hi' : i' < outputs)
    (h : gfniSlot outputs i j = gfniSlot outputs i' j') : i = i' ∧ j = j' := by
  unfold gfniSlot at h
  have h1 : (j * outputs + i) % outputs = (j' * outputs + i') % outputs := by rw [h]
  have h2 : (j * outputs + i) / outputs = (j' * outputs + i') / outputs := by rw [h]
  rw [Nat.mul_comm j, Nat.mul_comm j', Nat.mul_add_mod, Nat.mul_add_mod, Nat.mod_eq_of_lt hi, Nat.mod_eq_of_lt hi'] at h1
  rw [Nat.mul_comm j, Nat.mul_comm j', Nat.mul_add_div (by omega), Nat.mul_add_div (by omega),
    Nat.div_eq_of_lt hi, Nat.div_eq_of_lt hi'] at h2
  exact ⟨h1, by omega⟩

theorem C08_avx2_slots (outputs i j i' j' : Nat) (hi : i < outputs) (hi' : i' < outputs)
    (h : (i, j) ≠ (i', j')) : avx2Slot outputs i j + 64 ≤ avx2Slot outputs i' j' ∨ avx2Slot outputs i' j' + 64 ≤ avx2Slot outputs i j := by
  unfold avx2Slot
  have : j * outputs + i ≠ j' * outputs + i' := fun e => by
    have := C08_slots_injective outputs i j i' j' hi hi' e
    exact h (by rw [this.1, this.2])
  omega

/-- family of a switch function code (0,1 AVX2; 2,3 AVX512+GFNI; 4,5 AVX+GFNI; odd = xor variant) -/
def familyOf (code : Nat) : Option Family :=
  if code < 2 then some .avx2 else if code < 4 then some .gfni else if code < 6 then some .avxgfni else none

set_option maxRecDepth 100000 in
/-- Tie A for the kernel dispatch: the six switch functions regenerated from `galois_gen_switch_amd64.go` have
exactly the 600 cases (1..10 inputs × 1..10 outputs), pairwise distinct, every case calls the kernel whose name
carries its own shape (and `Xor` iff the switch is the xor one), and returns the count with the granularity
the model assumes -/
theorem C08_switch_table :
    RSV.Gen.kernelSwitch.length = 600 ∧
    (∀ e ∈ RSV.Gen.kernelSwitch, e.2.2.2.2 = true ∧ 1 ≤ e.2.1 ∧ e.2.1 ≤ 10 ∧ 1 ≤ e.2.2.1 ∧ e.2.2.1 ≤ 10 ∧
      (familyOf e.1).map (fun f => gran f e.2.2.1) = some e.2.2.2.1) ∧
    (RSV.Gen.kernelSwitch.map fun e => (e.1, e.2.1, e.2.2.1)).Nodup := by
  decide +kernel

example : count .avx2 2 1000 = 960 ∧ count .avx2 10 935 = 928 ∧ count .gfni 10 997 = 960 ∧ count .avxgfni 4 200 = 192 := by decide

end RSV.Props.C08
