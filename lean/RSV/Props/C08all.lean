import RSV.Props.C08
import RSV.Props.C08asm
import RSV.Props.C08asmLeo
/-! C08 umbrella: the per-lane recipes, counts, slot layout and the regenerated kernel switch (`RSV.Props.C08`), and the
reflective checker for the text of the 600 generated amd64 kernels with its soundness theorem (`RSV.Props.C08asm`:
an accepted kernel, run by the byte-level instruction semantics on any environment meeting the calling contract,
terminates without a fault and leaves in every output exactly the GF(2^8) matrix product of the inputs on
`[start, start + count)`, everything else unchanged). -/
