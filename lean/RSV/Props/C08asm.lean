import RSV.Proofs.AsmContract
/-!
# C08 (assembly tie) — a reflective checker for the 600 generated amd64 kernels, with soundness

`RSV.Asm.checkKernel` (core Lean, executable, `RSV/Model/AsmCheck.lean`) symbolically executes one
generated kernel of `galois_gen_amd64.s` given as an instruction list in the AST of
`RSV/Model/Asm.lean`, which also defines the concrete byte-level machine semantics `exec`.

**Proved here** (`C08_asm_sound`): if the checker accepts `prog` for `(family, xor, I, O)`, then on
*every* environment satisfying the calling-convention contract (`Contract`: expanded matrix as
`genCodeGenMatrix`/`genGFNIMatrix` lay it out for coefficient rows `A`, slices of length
`≥ start + n`, `start + n < 2^64`, memory holds bytes) the concrete execution reaches `RET` without
a fault (every load/store inside its region) within `prog.length · (n / B + 1)` steps and

* every byte `start ≤ k < start + (n / B)·B` of every output `i < O` is
  `(old byte if xor) ⊕ ⨁_j gmul (A i j) (in_j[k])`,
* every other byte of memory (outputs outside that range, inputs, matrix) is unchanged.

The contract is satisfiable for every shape (`C08_asm_contract_sat`).  That the canonical text
handed to `checkLine` denotes the instructions of the assembly file is the (unverified) job of
the parser `parseKernel` and of the extractor `vlib/asm.py`; the run-time check feeds all 600
lines through `checkLine`.  Non-vacuity: three real kernel lines are accepted *inside the kernel
of Lean* (`decide +kernel`), and the first one with one pointer increment removed is rejected.
-/
namespace RSV.Props.C08asm
open RSV RSV.Asm RSV.Model.Kernels

/-- field-level meaning of a kernel call: byte `k` of output `i` afterwards -/
def kernelSpec (xor : Bool) (I : Nat) (A : Nat → Nat → Nat) (m0 : Region → Nat → Nat) (i k : Nat) : Nat :=
  (if xor then m0 (.out i) k else 0) ^^^ xorl ((List.range I).map fun j => gmul (A i j) (m0 (.inp j) k))

theorem spec_eq (c : Ctx) (i k : Nat) : c.spec i k = kernelSpec c.cfg.xor c.cfg.I c.A c.m0 i k := by
  unfold Ctx.spec kernelSpec
  rw [xorl_append]
  cases c.cfg.xor <;> simp [xorl]

theorem steps_le (sh : Shape) (cnt : Nat) : stepsOf sh cnt ≤ sh.assemble.length * (cnt + 1) := by
  have hL : sh.assemble.length = sh.pre1.length + sh.pre2.length + sh.body.length + 8 := by
    rw [sh.lenP, sh.len9, sh.len8, sh.len7, sh.len6, sh.len5, sh.len4, sh.len3, sh.len2, sh.len1]; omega
  unfold stepsOf
  split
  · rename_i h; subst h; omega
  · have h1 : cnt * (sh.body.length + 3) ≤ cnt * sh.assemble.length := Nat.mul_le_mul_left _ (by omega)
    have h2 : sh.assemble.length * (cnt + 1) = cnt * sh.assemble.length + sh.assemble.length := by ring
    rw [h2]
    omega

/-- **Soundness of the assembly checker.** -/
theorem C08_asm_sound (prog : Program) (fam : Family) (xor : Bool) (I O : Nat)
    (hchk : checkKernel prog fam xor I O = true)
    (env : Env) (m0 : Region → Nat → Nat) (A : Nat → Nat → Nat)
    (hc : Contract ⟨⟨fam, xor, I, O⟩, env, m0, A⟩)
    (s0 : State) (hpc : s0.pc = 0) (hmem : s0.mem = m0) :
    ∃ sf,
      (∀ fuel, prog.length * (env.n / gran fam O + 1) ≤ fuel → exec env prog fuel s0 = some sf) ∧
      (∀ i k, i < O → env.start ≤ k → k < env.start + count fam O env.n →
        sf.mem (.out i) k = kernelSpec xor I A m0 i k) ∧
      (∀ i k, ¬ (i < O ∧ env.start ≤ k ∧ k < env.start + count fam O env.n) →
        sf.mem (.out i) k = m0 (.out i) k) ∧
      (∀ r k, (∀ i, r ≠ .out i) → sf.mem r k = m0 r k) := by
  let c : Ctx := ⟨⟨fam, xor, I, O⟩, env, m0, A⟩
  obtain ⟨sh, σ1, σ0, H, σb, hprog, hk⟩ := checkKernel_unpack (c := c) hchk
  obtain ⟨sf, hex, hmemf⟩ := checked_sound (c := c) hc hk s0 hpc hmem
  have hdone : ∀ i k, Done c c.cnt [] i k ↔ (i < O ∧ env.start ≤ k ∧ k < env.start + count fam O env.n) := by
    intro i k
    have : c.cur c.cnt = env.start + count fam O env.n := by
      show env.start + gran fam O * (env.n / gran fam O) = env.start + env.n / gran fam O * gran fam O
      rw [Nat.mul_comm]
    constructor
    · rintro (⟨h1, h2, h3⟩ | ⟨o, ho, _⟩)
      · exact ⟨h1, h2, by rw [← this]; exact h3⟩
      · simp at ho
    · rintro ⟨h1, h2, h3⟩
      exact Or.inl ⟨h1, h2, by rw [this]; exact h3⟩
  refine ⟨sf, ?_, ?_, ?_, hmemf.1⟩
  · intro fuel hf
    apply exec_mono (hprog ▸ hex)
    refine Nat.le_trans (steps_le sh c.cnt) ?_
    rw [← hprog]
    exact hf
  · intro i k hi h1 h2
    rw [hmemf.2.1 i k ((hdone i k).mpr ⟨hi, h1, h2⟩), spec_eq]
  · intro i k hn
    exact hmemf.2.2 i k (fun hd => hn ((hdone i k).mp hd))

/-- the contract of `C08_asm_sound` can be met for every shape, coefficient rows, range and slice
contents (bytes and coefficients are reduced modulo 256) -/
theorem C08_asm_contract_sat (fam : Family) (xor : Bool) (I O : Nat) (A : Nat → Nat → Nat) (start n : Nat)
    (inp old : Nat → Nat → Nat) (h : start + n < M64) :
    Contract (mkCtx ⟨fam, xor, I, O⟩ A start n inp old) := mkCtx_contract _ A start n inp old h

/-! ## the line protocol -/

/-- an accepted line denotes (by `Parse.header?` / `Parse.body?`) a kernel the checker accepts, and its
name is the Go symbol of that family and shape -/
theorem C08_asm_line (l : List Char) (h : checkChars l = true) :
    ∃ hd bd name fam xor I O prog, Parse.splitOn '|' l = [hd, bd] ∧ Parse.header? hd = some (name, fam, xor, I, O) ∧
      Parse.body? bd = some prog ∧ name = Parse.kernelName fam xor I O ∧ checkKernel prog fam xor I O = true := by
  unfold checkChars at h
  split at h
  · rename_i hd bd hsplit
    split at h
    · rename_i name fam xor I O prog hh hb
      simp only [Bool.and_eq_true, decide_eq_true_eq] at h
      exact ⟨hd, bd, name, fam, xor, I, O, prog, hsplit, hh, hb, h.1, h.2⟩
    · exact absurd h (by simp)
  · exact absurd h (by simp)

theorem checkLine_ok_iff (s : String) :
    checkLine s = "ok" ↔ checkChars s.toList = true ∨ RSV.Asm.Leo.checkChars s.toList = true := by
  unfold checkLine checkLineB
  constructor
  · intro h
    by_cases hb : checkChars s.toList = true
    · exact Or.inl hb
    · by_cases hb2 : RSV.Asm.Leo.checkChars s.toList = true
      · exact Or.inr hb2
      · rw [if_neg hb, if_neg hb2] at h
        have := congrArg String.length h
        rw [String.length_append] at this
        have h5 : "fail ".length = 5 := by decide
        have h2 : "ok".length = 2 := by decide
        omega
  · rintro (h | h)
    · rw [if_pos h]
    · by_cases hb : checkChars s.toList = true
      · rw [if_pos hb]
      · rw [if_neg hb, if_pos h]

/-! ## non-vacuity: real kernel lines, checked by the kernel of Lean -/

def kGfni : String :=
  "mulGFNI_1x1_64 gfni 0 1 1 | MOVQ n+80(FP), AX ; MOVQ matrix_base+0(FP), CX ; SHRQ $0x06, AX ; TESTQ AX, AX ; JZ mulGFNI_1x1_64_end ; VBROADCASTF32X2 (CX), Z0 ; MOVQ in_base+24(FP), CX ; MOVQ (CX), CX ; MOVQ out_base+48(FP), DX ; MOVQ out_base+48(FP), DX ; MOVQ (DX), DX ; MOVQ start+72(FP), BX ; ADDQ BX, DX ; ADDQ BX, CX ; mulGFNI_1x1_64_loop: ; VMOVDQU64 (CX), Z1 ; ADDQ $0x40, CX ; VGF2P8AFFINEQB $0x00, Z0, Z1, Z1 ; VMOVDQU64 Z1, (DX) ; ADDQ $0x40, DX ; DECQ AX ; JNZ mulGFNI_1x1_64_loop ; VZEROUPPER ; mulGFNI_1x1_64_end: ; RET"

def kGfniChars : List Char := [
  'm','u','l','G','F','N','I','_','1','x','1','_','6','4',' ','g','f','n','i',' ','0',' ','1',' ',
  '1',' ','|',' ','M','O','V','Q',' ','n','+','8','0','(','F','P',')',',',' ','A','X',' ',';',' ',
  'M','O','V','Q',' ','m','a','t','r','i','x','_','b','a','s','e','+','0','(','F','P',')',',',' ',
  'C','X',' ',';',' ','S','H','R','Q',' ','$','0','x','0','6',',',' ','A','X',' ',';',' ','T','E',
  'S','T','Q',' ','A','X',',',' ','A','X',' ',';',' ','J','Z',' ','m','u','l','G','F','N','I','_',
  '1','x','1','_','6','4','_','e','n','d',' ',';',' ','V','B','R','O','A','D','C','A','S','T','F',
  '3','2','X','2',' ','(','C','X',')',',',' ','Z','0',' ',';',' ','M','O','V','Q',' ','i','n','_',
  'b','a','s','e','+','2','4','(','F','P',')',',',' ','C','X',' ',';',' ','M','O','V','Q',' ','(',
  'C','X',')',',',' ','C','X',' ',';',' ','M','O','V','Q',' ','o','u','t','_','b','a','s','e','+',
  '4','8','(','F','P',')',',',' ','D','X',' ',';',' ','M','O','V','Q',' ','o','u','t','_','b','a',
  's','e','+','4','8','(','F','P',')',',',' ','D','X',' ',';',' ','M','O','V','Q',' ','(','D','X',
  ')',',',' ','D','X',' ',';',' ','M','O','V','Q',' ','s','t','a','r','t','+','7','2','(','F','P',
  ')',',',' ','B','X',' ',';',' ','A','D','D','Q',' ','B','X',',',' ','D','X',' ',';',' ','A','D',
  'D','Q',' ','B','X',',',' ','C','X',' ',';',' ','m','u','l','G','F','N','I','_','1','x','1','_',
  '6','4','_','l','o','o','p',':',' ',';',' ','V','M','O','V','D','Q','U','6','4',' ','(','C','X',
  ')',',',' ','Z','1',' ',';',' ','A','D','D','Q',' ','$','0','x','4','0',',',' ','C','X',' ',';',
  ' ','V','G','F','2','P','8','A','F','F','I','N','E','Q','B',' ','$','0','x','0','0',',',' ','Z',
  '0',',',' ','Z','1',',',' ','Z','1',' ',';',' ','V','M','O','V','D','Q','U','6','4',' ','Z','1',
  ',',' ','(','D','X',')',' ',';',' ','A','D','D','Q',' ','$','0','x','4','0',',',' ','D','X',' ',
  ';',' ','D','E','C','Q',' ','A','X',' ',';',' ','J','N','Z',' ','m','u','l','G','F','N','I','_',
  '1','x','1','_','6','4','_','l','o','o','p',' ',';',' ','V','Z','E','R','O','U','P','P','E','R',
  ' ',';',' ','m','u','l','G','F','N','I','_','1','x','1','_','6','4','_','e','n','d',':',' ',';',
  ' ','R','E','T']

set_option maxRecDepth 100000 in
theorem kGfni_chars : kGfni.toList = kGfniChars := by
  have h : kGfni = String.ofList kGfniChars := by rfl
  rw [h, String.toList_ofList]

def kAvx2 : String :=
  "mulAvxTwo_1x1_64 avx2 0 1 1 | MOVQ n+80(FP), AX ; MOVQ matrix_base+0(FP), CX ; SHRQ $0x06, AX ; TESTQ AX, AX ; JZ mulAvxTwo_1x1_64_end ; VMOVDQU (CX), Y0 ; VMOVDQU 32(CX), Y1 ; MOVQ in_base+24(FP), CX ; MOVQ (CX), CX ; MOVQ out_base+48(FP), DX ; MOVQ (DX), DX ; MOVQ start+72(FP), BX ; ADDQ BX, DX ; ADDQ BX, CX ; MOVQ $0x0000000f, BX ; MOVQ BX, X4 ; VPBROADCASTB X4, Y4 ; mulAvxTwo_1x1_64_loop: ; VMOVDQU (CX), Y2 ; VMOVDQU 32(CX), Y3 ; ADDQ $0x40, CX ; VPSRLQ $0x04, Y2, Y6 ; VPSRLQ $0x04, Y3, Y5 ; VPAND Y4, Y2, Y2 ; VPAND Y4, Y3, Y3 ; VPAND Y4, Y6, Y6 ; VPAND Y4, Y5, Y5 ; VPSHUFB Y2, Y0, Y2 ; VPSHUFB Y3, Y0, Y3 ; VPSHUFB Y6, Y1, Y6 ; VPSHUFB Y5, Y1, Y5 ; VPXOR Y2, Y6, Y2 ; VPXOR Y3, Y5, Y3 ; VMOVDQU Y2, (DX) ; VMOVDQU Y3, 32(DX) ; ADDQ $0x40, DX ; DECQ AX ; JNZ mulAvxTwo_1x1_64_loop ; VZEROUPPER ; mulAvxTwo_1x1_64_end: ; RET"

def kAvx2Chars : List Char := [
  'm','u','l','A','v','x','T','w','o','_','1','x','1','_','6','4',' ','a','v','x','2',' ','0',' ',
  '1',' ','1',' ','|',' ','M','O','V','Q',' ','n','+','8','0','(','F','P',')',',',' ','A','X',' ',
  ';',' ','M','O','V','Q',' ','m','a','t','r','i','x','_','b','a','s','e','+','0','(','F','P',')',
  ',',' ','C','X',' ',';',' ','S','H','R','Q',' ','$','0','x','0','6',',',' ','A','X',' ',';',' ',
  'T','E','S','T','Q',' ','A','X',',',' ','A','X',' ',';',' ','J','Z',' ','m','u','l','A','v','x',
  'T','w','o','_','1','x','1','_','6','4','_','e','n','d',' ',';',' ','V','M','O','V','D','Q','U',
  ' ','(','C','X',')',',',' ','Y','0',' ',';',' ','V','M','O','V','D','Q','U',' ','3','2','(','C',
  'X',')',',',' ','Y','1',' ',';',' ','M','O','V','Q',' ','i','n','_','b','a','s','e','+','2','4',
  '(','F','P',')',',',' ','C','X',' ',';',' ','M','O','V','Q',' ','(','C','X',')',',',' ','C','X',
  ' ',';',' ','M','O','V','Q',' ','o','u','t','_','b','a','s','e','+','4','8','(','F','P',')',',',
  ' ','D','X',' ',';',' ','M','O','V','Q',' ','(','D','X',')',',',' ','D','X',' ',';',' ','M','O',
  'V','Q',' ','s','t','a','r','t','+','7','2','(','F','P',')',',',' ','B','X',' ',';',' ','A','D',
  'D','Q',' ','B','X',',',' ','D','X',' ',';',' ','A','D','D','Q',' ','B','X',',',' ','C','X',' ',
  ';',' ','M','O','V','Q',' ','$','0','x','0','0','0','0','0','0','0','f',',',' ','B','X',' ',';',
  ' ','M','O','V','Q',' ','B','X',',',' ','X','4',' ',';',' ','V','P','B','R','O','A','D','C','A',
  'S','T','B',' ','X','4',',',' ','Y','4',' ',';',' ','m','u','l','A','v','x','T','w','o','_','1',
  'x','1','_','6','4','_','l','o','o','p',':',' ',';',' ','V','M','O','V','D','Q','U',' ','(','C',
  'X',')',',',' ','Y','2',' ',';',' ','V','M','O','V','D','Q','U',' ','3','2','(','C','X',')',',',
  ' ','Y','3',' ',';',' ','A','D','D','Q',' ','$','0','x','4','0',',',' ','C','X',' ',';',' ','V',
  'P','S','R','L','Q',' ','$','0','x','0','4',',',' ','Y','2',',',' ','Y','6',' ',';',' ','V','P',
  'S','R','L','Q',' ','$','0','x','0','4',',',' ','Y','3',',',' ','Y','5',' ',';',' ','V','P','A',
  'N','D',' ','Y','4',',',' ','Y','2',',',' ','Y','2',' ',';',' ','V','P','A','N','D',' ','Y','4',
  ',',' ','Y','3',',',' ','Y','3',' ',';',' ','V','P','A','N','D',' ','Y','4',',',' ','Y','6',',',
  ' ','Y','6',' ',';',' ','V','P','A','N','D',' ','Y','4',',',' ','Y','5',',',' ','Y','5',' ',';',
  ' ','V','P','S','H','U','F','B',' ','Y','2',',',' ','Y','0',',',' ','Y','2',' ',';',' ','V','P',
  'S','H','U','F','B',' ','Y','3',',',' ','Y','0',',',' ','Y','3',' ',';',' ','V','P','S','H','U',
  'F','B',' ','Y','6',',',' ','Y','1',',',' ','Y','6',' ',';',' ','V','P','S','H','U','F','B',' ',
  'Y','5',',',' ','Y','1',',',' ','Y','5',' ',';',' ','V','P','X','O','R',' ','Y','2',',',' ','Y',
  '6',',',' ','Y','2',' ',';',' ','V','P','X','O','R',' ','Y','3',',',' ','Y','5',',',' ','Y','3',
  ' ',';',' ','V','M','O','V','D','Q','U',' ','Y','2',',',' ','(','D','X',')',' ',';',' ','V','M',
  'O','V','D','Q','U',' ','Y','3',',',' ','3','2','(','D','X',')',' ',';',' ','A','D','D','Q',' ',
  '$','0','x','4','0',',',' ','D','X',' ',';',' ','D','E','C','Q',' ','A','X',' ',';',' ','J','N',
  'Z',' ','m','u','l','A','v','x','T','w','o','_','1','x','1','_','6','4','_','l','o','o','p',' ',
  ';',' ','V','Z','E','R','O','U','P','P','E','R',' ',';',' ','m','u','l','A','v','x','T','w','o',
  '_','1','x','1','_','6','4','_','e','n','d',':',' ',';',' ','R','E','T']

set_option maxRecDepth 100000 in
theorem kAvx2_chars : kAvx2.toList = kAvx2Chars := by
  have h : kAvx2 = String.ofList kAvx2Chars := by rfl
  rw [h, String.toList_ofList]

def kAvxGfni : String :=
  "mulAvxGFNI_1x1Xor avxgfni 1 1 1 | MOVQ n+80(FP), AX ; MOVQ matrix_base+0(FP), CX ; SHRQ $0x05, AX ; TESTQ AX, AX ; JZ mulAvxGFNI_1x1Xor_end ; VBROADCASTSD (CX), Y0 ; MOVQ in_base+24(FP), CX ; MOVQ (CX), CX ; MOVQ out_base+48(FP), DX ; MOVQ out_base+48(FP), DX ; MOVQ (DX), DX ; MOVQ start+72(FP), BX ; ADDQ BX, DX ; ADDQ BX, CX ; mulAvxGFNI_1x1Xor_loop: ; VMOVDQU (DX), Y1 ; VMOVDQU (CX), Y2 ; ADDQ $0x20, CX ; VGF2P8AFFINEQB $0x00, Y0, Y2, Y2 ; VXORPD Y1, Y2, Y1 ; VMOVDQU Y1, (DX) ; ADDQ $0x20, DX ; DECQ AX ; JNZ mulAvxGFNI_1x1Xor_loop ; VZEROUPPER ; mulAvxGFNI_1x1Xor_end: ; RET"

def kAvxGfniChars : List Char := [
  'm','u','l','A','v','x','G','F','N','I','_','1','x','1','X','o','r',' ','a','v','x','g','f','n',
  'i',' ','1',' ','1',' ','1',' ','|',' ','M','O','V','Q',' ','n','+','8','0','(','F','P',')',',',
  ' ','A','X',' ',';',' ','M','O','V','Q',' ','m','a','t','r','i','x','_','b','a','s','e','+','0',
  '(','F','P',')',',',' ','C','X',' ',';',' ','S','H','R','Q',' ','$','0','x','0','5',',',' ','A',
  'X',' ',';',' ','T','E','S','T','Q',' ','A','X',',',' ','A','X',' ',';',' ','J','Z',' ','m','u',
  'l','A','v','x','G','F','N','I','_','1','x','1','X','o','r','_','e','n','d',' ',';',' ','V','B',
  'R','O','A','D','C','A','S','T','S','D',' ','(','C','X',')',',',' ','Y','0',' ',';',' ','M','O',
  'V','Q',' ','i','n','_','b','a','s','e','+','2','4','(','F','P',')',',',' ','C','X',' ',';',' ',
  'M','O','V','Q',' ','(','C','X',')',',',' ','C','X',' ',';',' ','M','O','V','Q',' ','o','u','t',
  '_','b','a','s','e','+','4','8','(','F','P',')',',',' ','D','X',' ',';',' ','M','O','V','Q',' ',
  'o','u','t','_','b','a','s','e','+','4','8','(','F','P',')',',',' ','D','X',' ',';',' ','M','O',
  'V','Q',' ','(','D','X',')',',',' ','D','X',' ',';',' ','M','O','V','Q',' ','s','t','a','r','t',
  '+','7','2','(','F','P',')',',',' ','B','X',' ',';',' ','A','D','D','Q',' ','B','X',',',' ','D',
  'X',' ',';',' ','A','D','D','Q',' ','B','X',',',' ','C','X',' ',';',' ','m','u','l','A','v','x',
  'G','F','N','I','_','1','x','1','X','o','r','_','l','o','o','p',':',' ',';',' ','V','M','O','V',
  'D','Q','U',' ','(','D','X',')',',',' ','Y','1',' ',';',' ','V','M','O','V','D','Q','U',' ','(',
  'C','X',')',',',' ','Y','2',' ',';',' ','A','D','D','Q',' ','$','0','x','2','0',',',' ','C','X',
  ' ',';',' ','V','G','F','2','P','8','A','F','F','I','N','E','Q','B',' ','$','0','x','0','0',',',
  ' ','Y','0',',',' ','Y','2',',',' ','Y','2',' ',';',' ','V','X','O','R','P','D',' ','Y','1',',',
  ' ','Y','2',',',' ','Y','1',' ',';',' ','V','M','O','V','D','Q','U',' ','Y','1',',',' ','(','D',
  'X',')',' ',';',' ','A','D','D','Q',' ','$','0','x','2','0',',',' ','D','X',' ',';',' ','D','E',
  'C','Q',' ','A','X',' ',';',' ','J','N','Z',' ','m','u','l','A','v','x','G','F','N','I','_','1',
  'x','1','X','o','r','_','l','o','o','p',' ',';',' ','V','Z','E','R','O','U','P','P','E','R',' ',
  ';',' ','m','u','l','A','v','x','G','F','N','I','_','1','x','1','X','o','r','_','e','n','d',':',
  ' ',';',' ','R','E','T']

set_option maxRecDepth 100000 in
theorem kAvxGfni_chars : kAvxGfni.toList = kAvxGfniChars := by
  have h : kAvxGfni = String.ofList kAvxGfniChars := by rfl
  rw [h, String.toList_ofList]

def kMut : String :=
  "mulGFNI_1x1_64 gfni 0 1 1 | MOVQ n+80(FP), AX ; MOVQ matrix_base+0(FP), CX ; SHRQ $0x06, AX ; TESTQ AX, AX ; JZ mulGFNI_1x1_64_end ; VBROADCASTF32X2 (CX), Z0 ; MOVQ in_base+24(FP), CX ; MOVQ (CX), CX ; MOVQ out_base+48(FP), DX ; MOVQ out_base+48(FP), DX ; MOVQ (DX), DX ; MOVQ start+72(FP), BX ; ADDQ BX, DX ; ADDQ BX, CX ; mulGFNI_1x1_64_loop: ; VMOVDQU64 (CX), Z1 ; VGF2P8AFFINEQB $0x00, Z0, Z1, Z1 ; VMOVDQU64 Z1, (DX) ; ADDQ $0x40, DX ; DECQ AX ; JNZ mulGFNI_1x1_64_loop ; VZEROUPPER ; mulGFNI_1x1_64_end: ; RET"

def kMutChars : List Char := [
  'm','u','l','G','F','N','I','_','1','x','1','_','6','4',' ','g','f','n','i',' ','0',' ','1',' ',
  '1',' ','|',' ','M','O','V','Q',' ','n','+','8','0','(','F','P',')',',',' ','A','X',' ',';',' ',
  'M','O','V','Q',' ','m','a','t','r','i','x','_','b','a','s','e','+','0','(','F','P',')',',',' ',
  'C','X',' ',';',' ','S','H','R','Q',' ','$','0','x','0','6',',',' ','A','X',' ',';',' ','T','E',
  'S','T','Q',' ','A','X',',',' ','A','X',' ',';',' ','J','Z',' ','m','u','l','G','F','N','I','_',
  '1','x','1','_','6','4','_','e','n','d',' ',';',' ','V','B','R','O','A','D','C','A','S','T','F',
  '3','2','X','2',' ','(','C','X',')',',',' ','Z','0',' ',';',' ','M','O','V','Q',' ','i','n','_',
  'b','a','s','e','+','2','4','(','F','P',')',',',' ','C','X',' ',';',' ','M','O','V','Q',' ','(',
  'C','X',')',',',' ','C','X',' ',';',' ','M','O','V','Q',' ','o','u','t','_','b','a','s','e','+',
  '4','8','(','F','P',')',',',' ','D','X',' ',';',' ','M','O','V','Q',' ','o','u','t','_','b','a',
  's','e','+','4','8','(','F','P',')',',',' ','D','X',' ',';',' ','M','O','V','Q',' ','(','D','X',
  ')',',',' ','D','X',' ',';',' ','M','O','V','Q',' ','s','t','a','r','t','+','7','2','(','F','P',
  ')',',',' ','B','X',' ',';',' ','A','D','D','Q',' ','B','X',',',' ','D','X',' ',';',' ','A','D',
  'D','Q',' ','B','X',',',' ','C','X',' ',';',' ','m','u','l','G','F','N','I','_','1','x','1','_',
  '6','4','_','l','o','o','p',':',' ',';',' ','V','M','O','V','D','Q','U','6','4',' ','(','C','X',
  ')',',',' ','Z','1',' ',';',' ','V','G','F','2','P','8','A','F','F','I','N','E','Q','B',' ','$',
  '0','x','0','0',',',' ','Z','0',',',' ','Z','1',',',' ','Z','1',' ',';',' ','V','M','O','V','D',
  'Q','U','6','4',' ','Z','1',',',' ','(','D','X',')',' ',';',' ','A','D','D','Q',' ','$','0','x',
  '4','0',',',' ','D','X',' ',';',' ','D','E','C','Q',' ','A','X',' ',';',' ','J','N','Z',' ','m',
  'u','l','G','F','N','I','_','1','x','1','_','6','4','_','l','o','o','p',' ',';',' ','V','Z','E',
  'R','O','U','P','P','E','R',' ',';',' ','m','u','l','G','F','N','I','_','1','x','1','_','6','4',
  '_','e','n','d',':',' ',';',' ','R','E','T']

set_option maxRecDepth 100000 in
theorem kMut_chars : kMut.toList = kMutChars := by
  have h : kMut = String.ofList kMutChars := by rfl
  rw [h, String.toList_ofList]

/-- `mulGFNI_1x1_64`, `mulAvxTwo_1x1_64` and `mulAvxGFNI_1x1Xor` (verbatim from `galois_gen_amd64.s` in the
canonical one-line form) are accepted -/
theorem C08_asm_nonvacuous : checkLine kGfni = "ok" ∧ checkLine kAvx2 = "ok" ∧ checkLine kAvxGfni = "ok" := by
  rw [checkLine_ok_iff, checkLine_ok_iff, checkLine_ok_iff, kGfni_chars, kAvx2_chars, kAvxGfni_chars]
  refine ⟨Or.inl ?_, Or.inl ?_, Or.inl ?_⟩ <;> decide +kernel

/-- `mulGFNI_1x1_64` without the `ADDQ $0x40, CX` that advances the input pointer is rejected -/
theorem C08_asm_negative : checkLine kMut ≠ "ok" := by
  rw [ne_eq, checkLine_ok_iff, kMut_chars]
  have h1 : checkChars kMutChars = false := by decide +kernel
  have h2 : RSV.Asm.Leo.checkChars kMutChars = false := by decide +kernel
  rw [h1, h2]
  simp

end RSV.Props.C08asm
