import RSV.Proofs.AsmLeoSpec
import RSV.Proofs.AsmLeoTwoSound
/-!
# C08 (assembly tie, part 2) — the remaining amd64 kernels: Leopard butterflies, `mulgf16`, xor
slices and the hand-written `galMulAVX2*` kernels

`RSV.Asm.Leo.checkKernel prog kd` (core Lean, executable, `RSV/Model/AsmLeoCheck.lean`) symbolically
executes one kernel against a *kernel descriptor* `kd` (`RSV/Model/AsmLeoKinds.lean`: block size,
store width, frame layout, table sizes and the expected expression of every stored chunk, built from
the same butterfly functions `fft2/ifft2/fft4/ifft4` that define the meaning).

**Proved here** (`C08_asm_leo_sound`): if the checker accepts `prog` for `kd`, then on every
environment satisfying `Contract` (rows `work[k·dist]` of at least `N` bytes, tables of the
descriptor's size, frame slots as the Go signature says, memory holds bytes, `N < 2^64`; for the
kernels without early exit: `N` a positive multiple of the block size) the machine of
`RSV.Model.Asm` reaches `RET` without a fault within `prog.length · (N / B + 1)` steps, every
written row holds `specVal` on `[0, B·(N/B))`, and everything else is unchanged.  `specVal` is
then rewritten, kind by kind, to the byte-level butterfly with *multiplication = nibble look-up in
the passed tables* (`C08_asm_spec_*`); that the tables `multiply256LUT8`/`multiply256LUT`/
`mulTableLow/High` tabulate the field products is C17 (`C17leo_*`, `C17gf16_*`, `C17_*`).

`galMulSSSE3`/`galMulSSSE3Xor` have two alternative loops selected by the pointers' alignment (`MOVOA` in the
aligned one; the machine model faults on a misaligned `MOVOA`); they are covered by `checkKernel2`
(`RSV/Model/AsmLeoTwo.lean`) with the same guarantee (`C08_asm_leo_sound2`).
-/
namespace RSV.Props.C08asmLeo
open RSV RSV.Asm.Leo
open RSV.Asm (Program State Region Instr exec exec_mono M64 Env)

theorem steps_le (sh : Shape) (cnt : Nat) : stepsOf sh cnt ≤ sh.assemble.length * (cnt + 1) := by
  have hL : sh.assemble.length = sh.pre1.length + sh.guard.instrs.length + sh.pre2.length + sh.body.length +
      sh.epiA.length + sh.endInstrs.length + sh.epiB.length + 4 := by
    rw [sh.lenP, sh.len9, sh.len8, sh.len7, sh.len6, sh.len5, sh.len4, sh.len3, sh.len2, sh.len1]; omega
  unfold stepsOf
  split
  · rename_i h; subst h
    have : 2 + sh.endInstrs.length ≤ sh.guard.instrs.length + sh.endInstrs.length + 4 := by omega
    omega
  · have h1 : cnt * (sh.body.length + 3) ≤ cnt * sh.assemble.length := Nat.mul_le_mul_left _ (by omega)
    have h2 : sh.assemble.length * (cnt + 1) = cnt * sh.assemble.length + sh.assemble.length := by ring
    rw [h2]
    omega

/-- what an accepted kernel guarantees on a call `c` -/
structure LeoOutcome (c : Ctx) (prog : Program) (s0 sf : State) : Prop where
  halts : ∀ fuel, prog.length * (c.N / c.kd.B + 1) ≤ fuel → exec c.env prog fuel s0 = some sf
  wf : c.kd.wf
  written : ∀ k p, k < c.kd.rows → c.kd.written k = true → p < c.kd.B * (c.N / c.kd.B) →
    sf.mem (c.rowReg k) p = specVal c k p
  rest : ∀ k p, k < c.kd.rows → ¬ (c.kd.written k = true ∧ p < c.kd.B * (c.N / c.kd.B)) →
    sf.mem (c.rowReg k) p = c.m0 (c.rowReg k) p
  others : ∀ r p, (∀ k, k < c.kd.rows → r ≠ c.rowReg k) → sf.mem r p = c.m0 r p

/-- **Soundness of the checker for the remaining kernels.** -/
theorem C08_asm_leo_sound (c : Ctx) (prog : Program) (hchk : checkKernel prog c.kd = true) (hc : Contract c)
    (s0 : State) (hpc : s0.pc = 0) (hmem : s0.mem = c.m0) : ∃ sf, LeoOutcome c prog s0 sf := by
  obtain ⟨sh, σ1, σ1', σ0, H, σb, hprog, hk⟩ := checkKernel_unpack hchk
  obtain ⟨sf, hex, hm⟩ := checked_sound hc hk s0 hpc hmem
  have hdone : ∀ k p, DoneK c c.cnt [] k p ↔ (c.kd.written k = true ∧ p < c.kd.B * (c.N / c.kd.B)) := by
    intro k p
    constructor
    · rintro (h | ⟨o, ho, _⟩)
      · exact h
      · simp at ho
    · exact fun h => Or.inl h
  refine ⟨sf, ?_, covers_wf hk.cov hk.Bpos, ?_, ?_, hm.1⟩
  · intro fuel hf
    apply exec_mono (hprog ▸ hex)
    refine Nat.le_trans (steps_le sh c.cnt) ?_
    rw [← hprog]
    exact hf
  · intro k p hk' hw hp
    exact hm.2.1 k p hk' ((hdone k p).mpr ⟨hw, hp⟩)
  · intro k p hk' hn
    exact hm.2.2 k p hk' (fun hd => hn ((hdone k p).mp hd))

/-- the same for the two-loop kernels `galMulSSSE3`, `galMulSSSE3Xor` -/
theorem C08_asm_leo_sound2 (c : Ctx) (prog : Program) (hchk : checkKernel2 prog c.kd = true) (hc : Contract c)
    (s0 : State) (hpc : s0.pc = 0) (hmem : s0.mem = c.m0) : ∃ sf, LeoOutcome c prog s0 sf := by
  obtain ⟨sh, σ1, H1, σb1, H2, σb2, a, b, hprog, hk⟩ := checkKernel2_unpack hchk
  obtain ⟨n, sf, hn, hex, hm⟩ := checked2_sound hc hk s0 hpc hmem
  have hdone : ∀ k p, DoneK c c.cnt [] k p ↔ (c.kd.written k = true ∧ p < c.kd.B * (c.N / c.kd.B)) := by
    intro k p
    constructor
    · rintro (h | ⟨o, ho, _⟩)
      · exact h
      · simp at ho
    · exact fun h => Or.inl h
  refine ⟨sf, ?_, covers_wf hk.cov2 hk.Bpos, ?_, ?_, hm.1⟩
  · intro fuel hf
    apply exec_mono (hprog ▸ hex)
    refine Nat.le_trans hn ?_
    rw [← hprog]
    exact hf
  · intro k p hk' hw hp
    exact hm.2.1 k p hk' ((hdone k p).mpr ⟨hw, hp⟩)
  · intro k p hk' hn'
    exact hm.2.2 k p hk' (fun hd => hn' ((hdone k p).mp hd))

/-- either checker -/
theorem C08_asm_leo_sound_any (c : Ctx) (prog : Program)
    (hchk : (checkKernel prog c.kd || checkKernel2 prog c.kd) = true) (hc : Contract c)
    (s0 : State) (hpc : s0.pc = 0) (hmem : s0.mem = c.m0) : ∃ sf, LeoOutcome c prog s0 sf := by
  rcases Bool.or_eq_true _ _ ▸ hchk with h | h
  · exact C08_asm_leo_sound c prog h hc s0 hpc hmem
  · exact C08_asm_leo_sound2 c prog h hc s0 hpc hmem

/-- the contract can be met for every descriptor, length, stride and memory contents -/
theorem C08_asm_leo_contract_sat (kd : KD) (N dist : Nat) (rows tabs : Nat → Nat → Nat) (imms : Nat → Nat)
    (hd : 0 < dist) (hdl : 24 * dist < M64) (hN : N < M64) (hout : 24 * (kd.rows * dist + 1) < M64)
    (hex : kd.exact = true → 0 < N ∧ N % kd.B = 0) : Contract (mkCtx kd N dist rows tabs imms) :=
  mkCtx_contract kd N dist rows tabs imms hd hdl hN hout hex

/-! ## the kinds, in byte-level terms (`row k` = `c.rowReg k` = the slice `out (k·dist)`) -/

/-- xor slices: `out[p] ^= in[p]` (`out` = row 0, `in` = row 1) -/
theorem C08_asm_spec_xor {c : Ctx} {prog : Program} {s0 sf : State} (ho : LeoOutcome c prog s0 sf) {isa : Isa} {num : Nat}
    (hkd : c.kd = kdXor isa num) (p : Nat) (hp : p < num * (c.N / num)) :
    sf.mem (c.rowReg 0) p = c.m0 (c.rowReg 0) p ^^^ c.m0 (c.rowReg 1) p := by
  have h := ho.written 0 p (by rw [hkd]; exact Nat.zero_lt_two) (by rw [hkd]; rfl) (by rw [hkd]; exact hp)
  rw [h, specVal_xor ho.wf hkd]

/-- **hand-written `galMulAVX2*`**: `out[p] = (out[p] ⊕) low[in[p] & 15] ⊕ high[in[p] >> 4]` on the processed
prefix (`out` = row 0, `in` = row 1, `low` = table 0, `high` = table 1) -/
theorem C08_asm_hand_sound {c : Ctx} {prog : Program} {s0 sf : State} (ho : LeoOutcome c prog s0 sf) {isa : Isa}
    {flag : Bool} {num : Nat} (hkd : c.kd = kdGalMul isa flag num) (p : Nat) (hp : p < num * (c.N / num)) :
    sf.mem (c.rowReg 0) p = (if flag then c.m0 (c.rowReg 0) p else 0) ^^^
      (c.m0 (.tab 0) (c.m0 (c.rowReg 1) p &&& 15) ^^^ c.m0 (.tab 1) (c.m0 (c.rowReg 1) p >>> 4)) := by
  have h := ho.written 0 p (by rw [hkd]; exact Nat.zero_lt_two) (by rw [hkd]; rfl) (by rw [hkd]; exact hp)
  rw [h, specVal_galmul ho.wf hkd]

/-- `fftDIT28_avx2` / `ifftDIT28_avx2` (`x` = row 0, `y` = row 1) -/
theorem C08_asm_spec_dit28 {c : Ctx} {prog : Program} {s0 sf : State} (ho : LeoOutcome c prog s0 sf) {flag : Bool}
    (hkd : c.kd = kdDit28 flag) (k p : Nat) (hk : k < 2) (hp : p < 64 * (c.N / 64)) :
    sf.mem (c.rowReg k) p = sel2 k ((if flag then ifft2 else fft2) (algB8 c.m0) false 0
      (c.m0 (c.rowReg 0) p) (c.m0 (c.rowReg 1) p)) := by
  have h := ho.written k p (by rw [hkd]; exact hk) (by rw [hkd]; rfl) (by rw [hkd]; exact hp)
  rw [h, specVal_dit28 ho.wf hkd]

/-- `fftDIT48_avx2_N` / `ifftDIT48_avx2_N`: the 4-point butterfly of `fftDIT4Ref8`/`ifftDIT4Ref8` with
`mul i` = nibble look-up in the passed table `t01`, `t23`, `t02` -/
theorem C08_asm_spec_dit48 {c : Ctx} {prog : Program} {s0 sf : State} (ho : LeoOutcome c prog s0 sf) {flag : Bool}
    {num : Nat} (hkd : c.kd = kdDit48 .avx2 flag num) (k p : Nat) (hk : k < 4) (hp : p < 64 * (c.N / 64)) :
    sf.mem (c.rowReg k) p = sel4 k ((if flag then ifft4 else fft4) (algB8 c.m0) num
      (c.m0 (c.rowReg 0) p) (c.m0 (c.rowReg 1) p) (c.m0 (c.rowReg 2) p) (c.m0 (c.rowReg 3) p)) := by
  have h := ho.written k p (by rw [hkd]; exact hk) (by rw [hkd]; rfl) (by rw [hkd]; exact hp)
  rw [h, specVal_dit48_avx2 ho.wf hkd]

/-- `fftDIT48_gfni_N` / `ifftDIT48_gfni_N`: `mul i` = `GF2P8AFFINEQB` with the passed matrix word -/
theorem C08_asm_spec_dit48_gfni {c : Ctx} {prog : Program} {s0 sf : State} (ho : LeoOutcome c prog s0 sf) {flag : Bool}
    {num : Nat} (hkd : c.kd = kdDit48 .gfni flag num) (k p : Nat) (hk : k < 4) (hp : p < 64 * (c.N / 64)) :
    sf.mem (c.rowReg k) p = sel4 k ((if flag then ifft4 else fft4) (algB8gfni fun i => c.immq (32 + 8 * i)) num
      (c.m0 (c.rowReg 0) p) (c.m0 (c.rowReg 1) p) (c.m0 (c.rowReg 2) p) (c.m0 (c.rowReg 3) p)) := by
  have h := ho.written k p (by rw [hkd]; exact hk) (by rw [hkd]; rfl) (by rw [hkd]; exact hp)
  rw [h, specVal_dit48_gfni ho.wf hkd]

/-- `fftDIT2_*` / `ifftDIT2_*` over GF(2^16): symbols `sym16` (low byte, high byte 32 further) -/
theorem C08_asm_spec_dit2 {c : Ctx} {prog : Program} {s0 sf : State} (ho : LeoOutcome c prog s0 sf) {isa : Isa}
    (hisa : isa = .avx2 ∨ isa = .ssse3) {flag : Bool} (hkd : c.kd = kdDit2 isa flag) (k p : Nat) (hk : k < 2)
    (hp : p < 64 * (c.N / 64)) :
    sf.mem (c.rowReg k) p = half p (sel2 k ((if flag then ifft2 else fft2) (algB16 c.m0) false 0
      (sym16 c.m0 (c.rowReg 0) p) (sym16 c.m0 (c.rowReg 1) p))) := by
  have h := ho.written k p (by rw [hkd]; exact hk) (by rw [hkd]; rfl) (by rw [hkd]; exact hp)
  rw [h, specVal_dit2 hisa hkd]

/-- `fftDIT4_*_N` / `ifftDIT4_*_N` over GF(2^16) -/
theorem C08_asm_spec_dit4 {c : Ctx} {prog : Program} {s0 sf : State} (ho : LeoOutcome c prog s0 sf) {flag : Bool}
    {num : Nat} (hkd : c.kd = kdDit4 flag num) (k p : Nat) (hk : k < 4) (hp : p < 64 * (c.N / 64)) :
    sf.mem (c.rowReg k) p = half p (sel4 k ((if flag then ifft4 else fft4) (algB16 c.m0) num
      (sym16 c.m0 (c.rowReg 0) p) (sym16 c.m0 (c.rowReg 1) p) (sym16 c.m0 (c.rowReg 2) p)
      (sym16 c.m0 (c.rowReg 3) p))) := by
  have h := ho.written k p (by rw [hkd]; exact hk) (by rw [hkd]; rfl) (by rw [hkd]; exact hp)
  rw [h, specVal_dit4 hkd]

/-- `mulgf16_*`: `x = y · m` (`x` = row 0, `y` = row 1) -/
theorem C08_asm_spec_mulgf16 {c : Ctx} {prog : Program} {s0 sf : State} (ho : LeoOutcome c prog s0 sf) {isa : Isa}
    (hisa : isa = .avx2 ∨ isa = .ssse3) (hkd : c.kd = kdMul16 isa) (p : Nat) (hp : p < 64 * (c.N / 64)) :
    sf.mem (c.rowReg 0) p = half p ((algB16 c.m0).mul 0 (sym16 c.m0 (c.rowReg 1) p)) := by
  have h := ho.written 0 p (by rw [hkd]; exact Nat.zero_lt_two) (by rw [hkd]; rfl) (by rw [hkd]; exact hp)
  rw [h, specVal_mul16 hisa hkd]

/-! ## the line protocol -/

/-- an accepted line denotes a kernel the checker accepts for the descriptor of its header, and its name
is the Go symbol of that kind -/
theorem C08_asm_leo_line (l : List Char) (h : RSV.Asm.Leo.checkChars l = true) :
    ∃ hd bd name kind isa flag num prog kd, RSV.Asm.Parse.splitOn '|' l = [hd, bd] ∧
      RSV.Asm.Leo.Parse.header? hd = some (name, kind, isa, flag, num) ∧ RSV.Asm.Parse.body? bd = some prog ∧
      mkKD kind isa flag num = some kd ∧ name = RSV.Asm.Leo.Parse.kernelName kind isa flag num ∧
      (RSV.Asm.Leo.checkKernel prog kd || checkKernel2 prog kd) = true := by
  unfold RSV.Asm.Leo.checkChars at h
  split at h
  · rename_i hd bd hsplit
    split at h
    · rename_i name kind isa flag num prog hh hb
      split at h
      · rename_i kd hkd
        simp only [Bool.and_eq_true, decide_eq_true_eq] at h
        exact ⟨hd, bd, name, kind, isa, flag, num, prog, kd, hsplit, hh, hb, hkd, h.1, h.2⟩
      · exact absurd h (by simp)
    · exact absurd h (by simp)
  · exact absurd h (by simp)

/-! ## non-vacuity: real kernel lines, checked by the kernel of Lean -/

def kXorChars : List Char := [
  's','S','E','2','X','o','r','S','l','i','c','e',' ','x','o','r',' ','s','s','e','2',' ','0',' ',
  '1','6',' ','|',' ','M','O','V','Q',' ','i','n','_','b','a','s','e','+','0','(','F','P',')',',',
  ' ','A','X',' ',';',' ','M','O','V','Q',' ','o','u','t','_','b','a','s','e','+','2','4','(','F',
  'P',')',',',' ','C','X',' ',';',' ','M','O','V','Q',' ','i','n','_','l','e','n','+','8','(','F',
  'P',')',',',' ','D','X',' ',';',' ','S','H','R','Q',' ','$','0','x','0','4',',',' ','D','X',' ',
  ';',' ','J','Z',' ','e','n','d',' ',';',' ','l','o','o','p',':',' ',';',' ','M','O','V','O','U',
  ' ','(','A','X',')',',',' ','X','0',' ',';',' ','M','O','V','O','U',' ','(','C','X',')',',',' ',
  'X','1',' ',';',' ','P','X','O','R',' ','X','0',',',' ','X','1',' ',';',' ','M','O','V','O','U',
  ' ','X','1',',',' ','(','C','X',')',' ',';',' ','A','D','D','Q',' ','$','0','x','1','0',',',' ',
  'A','X',' ',';',' ','A','D','D','Q',' ','$','0','x','1','0',',',' ','C','X',' ',';',' ','D','E',
  'C','Q',' ','D','X',' ',';',' ','J','N','Z',' ','l','o','o','p',' ',';',' ','e','n','d',':',' ',
  ';',' ','R','E','T']

def kGalMulChars : List Char := [
  'g','a','l','M','u','l','A','V','X','2','X','o','r',' ','g','a','l','m','u','l',' ','a','v','x',
  '2',' ','1',' ','3','2',' ','|',' ','M','O','V','Q',' ','l','o','w','+','0','(','F','P',')',',',
  ' ','S','I',' ',';',' ','M','O','V','Q',' ','h','i','g','h','+','2','4','(','F','P',')',',',' ',
  'D','X',' ',';',' ','M','O','V','Q',' ','$','1','5',',',' ','B','X',' ',';',' ','M','O','V','Q',
  ' ','B','X',',',' ','X','5',' ',';',' ','M','O','V','O','U',' ','(','S','I',')',',',' ','X','6',
  ' ',';',' ','M','O','V','O','U',' ','(','D','X',')',',',' ','X','7',' ',';',' ','M','O','V','Q',
  ' ','i','n','_','l','e','n','+','5','6','(','F','P',')',',',' ','R','9',' ',';',' ','V','I','N',
  'S','E','R','T','I','1','2','8',' ','$','1',',',' ','X','6',',',' ','Y','6',',',' ','Y','6',' ',
  ';',' ','V','I','N','S','E','R','T','I','1','2','8',' ','$','1',',',' ','X','7',',',' ','Y','7',
  ',',' ','Y','7',' ',';',' ','V','P','B','R','O','A','D','C','A','S','T','B',' ','X','5',',',' ',
  'Y','8',' ',';',' ','S','H','R','Q',' ','$','5',',',' ','R','9',' ',';',' ','M','O','V','Q',' ',
  'o','u','t','+','7','2','(','F','P',')',',',' ','D','X',' ',';',' ','M','O','V','Q',' ','i','n',
  '+','4','8','(','F','P',')',',',' ','S','I',' ',';',' ','T','E','S','T','Q',' ','R','9',',',' ',
  'R','9',' ',';',' ','J','Z',' ','d','o','n','e','_','x','o','r','_','a','v','x','2',' ',';',' ',
  'l','o','o','p','b','a','c','k','_','x','o','r','_','a','v','x','2',':',' ',';',' ','V','M','O',
  'V','D','Q','U',' ','(','S','I',')',',',' ','Y','0',' ',';',' ','V','M','O','V','D','Q','U',' ',
  '(','D','X',')',',',' ','Y','4',' ',';',' ','V','P','S','R','L','Q',' ','$','4',',',' ','Y','0',
  ',',' ','Y','1',' ',';',' ','V','P','A','N','D',' ','Y','8',',',' ','Y','0',',',' ','Y','0',' ',
  ';',' ','V','P','A','N','D',' ','Y','8',',',' ','Y','1',',',' ','Y','1',' ',';',' ','V','P','S',
  'H','U','F','B',' ','Y','0',',',' ','Y','6',',',' ','Y','2',' ',';',' ','V','P','S','H','U','F',
  'B',' ','Y','1',',',' ','Y','7',',',' ','Y','3',' ',';',' ','V','P','X','O','R',' ','Y','3',',',
  ' ','Y','2',',',' ','Y','3',' ',';',' ','V','P','X','O','R',' ','Y','4',',',' ','Y','3',',',' ',
  'Y','4',' ',';',' ','V','M','O','V','D','Q','U',' ','Y','4',',',' ','(','D','X',')',' ',';',' ',
  'A','D','D','Q',' ','$','3','2',',',' ','S','I',' ',';',' ','A','D','D','Q',' ','$','3','2',',',
  ' ','D','X',' ',';',' ','S','U','B','Q',' ','$','1',',',' ','R','9',' ',';',' ','J','N','Z',' ',
  'l','o','o','p','b','a','c','k','_','x','o','r','_','a','v','x','2',' ',';',' ','d','o','n','e',
  '_','x','o','r','_','a','v','x','2',':',' ',';',' ','V','Z','E','R','O','U','P','P','E','R',' ',
  ';',' ','R','E','T']

def kDit28Chars : List Char := [
  'i','f','f','t','D','I','T','2','8','_','a','v','x','2',' ','d','i','t','2','8',' ','a','v','x',
  '2',' ','1',' ','0',' ','|',' ','M','O','V','Q',' ','t','a','b','l','e','+','4','8','(','F','P',
  ')',',',' ','A','X',' ',';',' ','V','B','R','O','A','D','C','A','S','T','I','1','2','8',' ','(',
  'A','X',')',',',' ','Y','0',' ',';',' ','V','B','R','O','A','D','C','A','S','T','I','1','2','8',
  ' ','1','6','(','A','X',')',',',' ','Y','1',' ',';',' ','M','O','V','Q',' ','x','_','l','e','n',
  '+','8','(','F','P',')',',',' ','A','X',' ',';',' ','M','O','V','Q',' ','x','_','b','a','s','e',
  '+','0','(','F','P',')',',',' ','C','X',' ',';',' ','M','O','V','Q',' ','y','_','b','a','s','e',
  '+','2','4','(','F','P',')',',',' ','D','X',' ',';',' ','M','O','V','Q',' ','$','0','x','0','0',
  '0','0','0','0','0','f',',',' ','B','X',' ',';',' ','M','O','V','Q',' ','B','X',',',' ','X','2',
  ' ',';',' ','V','P','B','R','O','A','D','C','A','S','T','B',' ','X','2',',',' ','Y','2',' ',';',
  ' ','l','o','o','p',':',' ',';',' ','V','M','O','V','D','Q','U',' ','(','C','X',')',',',' ','Y',
  '3',' ',';',' ','V','M','O','V','D','Q','U',' ','3','2','(','C','X',')',',',' ','Y','4',' ',';',
  ' ','V','M','O','V','D','Q','U',' ','(','D','X',')',',',' ','Y','5',' ',';',' ','V','M','O','V',
  'D','Q','U',' ','3','2','(','D','X',')',',',' ','Y','6',' ',';',' ','V','P','X','O','R',' ','Y',
  '5',',',' ','Y','3',',',' ','Y','5',' ',';',' ','V','P','X','O','R',' ','Y','6',',',' ','Y','4',
  ',',' ','Y','6',' ',';',' ','V','M','O','V','D','Q','U',' ','Y','5',',',' ','(','D','X',')',' ',
  ';',' ','V','M','O','V','D','Q','U',' ','Y','6',',',' ','3','2','(','D','X',')',' ',';',' ','V',
  'P','A','N','D',' ','Y','5',',',' ','Y','2',',',' ','Y','7',' ',';',' ','V','P','S','R','L','Q',
  ' ','$','0','x','0','4',',',' ','Y','5',',',' ','Y','5',' ',';',' ','V','P','S','H','U','F','B',
  ' ','Y','7',',',' ','Y','0',',',' ','Y','7',' ',';',' ','V','P','A','N','D',' ','Y','5',',',' ',
  'Y','2',',',' ','Y','5',' ',';',' ','V','P','S','H','U','F','B',' ','Y','5',',',' ','Y','1',',',
  ' ','Y','5',' ',';',' ','V','P','X','O','R',' ','Y','7',',',' ','Y','3',',',' ','Y','3',' ',';',
  ' ','V','P','X','O','R',' ','Y','5',',',' ','Y','3',',',' ','Y','3',' ',';',' ','V','P','A','N',
  'D',' ','Y','6',',',' ','Y','2',',',' ','Y','5',' ',';',' ','V','P','S','R','L','Q',' ','$','0',
  'x','0','4',',',' ','Y','6',',',' ','Y','6',' ',';',' ','V','P','S','H','U','F','B',' ','Y','5',
  ',',' ','Y','0',',',' ','Y','5',' ',';',' ','V','P','A','N','D',' ','Y','6',',',' ','Y','2',',',
  ' ','Y','6',' ',';',' ','V','P','S','H','U','F','B',' ','Y','6',',',' ','Y','1',',',' ','Y','6',
  ' ',';',' ','V','P','X','O','R',' ','Y','5',',',' ','Y','4',',',' ','Y','4',' ',';',' ','V','P',
  'X','O','R',' ','Y','6',',',' ','Y','4',',',' ','Y','4',' ',';',' ','V','M','O','V','D','Q','U',
  ' ','Y','3',',',' ','(','C','X',')',' ',';',' ','V','M','O','V','D','Q','U',' ','Y','4',',',' ',
  '3','2','(','C','X',')',' ',';',' ','A','D','D','Q',' ','$','0','x','4','0',',',' ','C','X',' ',
  ';',' ','A','D','D','Q',' ','$','0','x','4','0',',',' ','D','X',' ',';',' ','S','U','B','Q',' ',
  '$','0','x','4','0',',',' ','A','X',' ',';',' ','J','A',' ','l','o','o','p',' ',';',' ','V','Z',
  'E','R','O','U','P','P','E','R',' ',';',' ','R','E','T']

def kDit48gChars : List Char := [
  'f','f','t','D','I','T','4','8','_','g','f','n','i','_','3',' ','d','i','t','4','8',' ','g','f',
  'n','i',' ','0',' ','3',' ','|',' ','V','B','R','O','A','D','C','A','S','T','F','3','2','X','2',
  ' ','t','2','3','+','4','0','(','F','P',')',',',' ','Z','0',' ',';',' ','M','O','V','Q',' ','d',
  'i','s','t','+','2','4','(','F','P',')',',',' ','A','X',' ',';',' ','M','O','V','Q',' ','w','o',
  'r','k','_','b','a','s','e','+','0','(','F','P',')',',',' ','C','X',' ',';',' ','M','O','V','Q',
  ' ','8','(','C','X',')',',',' ','D','X',' ',';',' ','X','O','R','Q',' ','B','X',',',' ','B','X',
  ' ',';',' ','M','O','V','Q',' ','(','C','X',')','(','B','X','*','1',')',',',' ','S','I',' ',';',
  ' ','A','D','D','Q',' ','A','X',',',' ','B','X',' ',';',' ','M','O','V','Q',' ','(','C','X',')',
  '(','B','X','*','1',')',',',' ','D','I',' ',';',' ','A','D','D','Q',' ','A','X',',',' ','B','X',
  ' ',';',' ','M','O','V','Q',' ','(','C','X',')','(','B','X','*','1',')',',',' ','R','8',' ',';',
  ' ','A','D','D','Q',' ','A','X',',',' ','B','X',' ',';',' ','M','O','V','Q',' ','(','C','X',')',
  '(','B','X','*','1',')',',',' ','A','X',' ',';',' ','l','o','o','p',':',' ',';',' ','V','M','O',
  'V','D','Q','U','6','4',' ','(','S','I',')',',',' ','Z','1',' ',';',' ','V','M','O','V','D','Q',
  'U','6','4',' ','(','D','I',')',',',' ','Z','2',' ',';',' ','V','M','O','V','D','Q','U','6','4',
  ' ','(','R','8',')',',',' ','Z','3',' ',';',' ','V','M','O','V','D','Q','U','6','4',' ','(','A',
  'X',')',',',' ','Z','4',' ',';',' ','V','X','O','R','P','D',' ','Z','1',',',' ','Z','3',',',' ',
  'Z','3',' ',';',' ','V','X','O','R','P','D',' ','Z','2',',',' ','Z','4',',',' ','Z','4',' ',';',
  ' ','V','X','O','R','P','D',' ','Z','2',',',' ','Z','1',',',' ','Z','2',' ',';',' ','V','G','F',
  '2','P','8','A','F','F','I','N','E','Q','B',' ','$','0','x','0','0',',',' ','Z','0',',',' ','Z',
  '4',',',' ','Z','5',' ',';',' ','V','X','O','R','P','D',' ','Z','3',',',' ','Z','5',',',' ','Z',
  '3',' ',';',' ','V','X','O','R','P','D',' ','Z','3',',',' ','Z','4',',',' ','Z','4',' ',';',' ',
  'V','M','O','V','D','Q','U','6','4',' ','Z','1',',',' ','(','S','I',')',' ',';',' ','A','D','D',
  'Q',' ','$','0','x','4','0',',',' ','S','I',' ',';',' ','V','M','O','V','D','Q','U','6','4',' ',
  'Z','2',',',' ','(','D','I',')',' ',';',' ','A','D','D','Q',' ','$','0','x','4','0',',',' ','D',
  'I',' ',';',' ','V','M','O','V','D','Q','U','6','4',' ','Z','3',',',' ','(','R','8',')',' ',';',
  ' ','A','D','D','Q',' ','$','0','x','4','0',',',' ','R','8',' ',';',' ','V','M','O','V','D','Q',
  'U','6','4',' ','Z','4',',',' ','(','A','X',')',' ',';',' ','A','D','D','Q',' ','$','0','x','4',
  '0',',',' ','A','X',' ',';',' ','S','U','B','Q',' ','$','0','x','4','0',',',' ','D','X',' ',';',
  ' ','J','A',' ','l','o','o','p',' ',';',' ','V','Z','E','R','O','U','P','P','E','R',' ',';',' ',
  'R','E','T']

def kSsse3Chars : List Char := [
  'g','a','l','M','u','l','S','S','S','E','3','X','o','r',' ','g','a','l','m','u','l',' ','s','s',
  's','e','3',' ','1',' ','1','6',' ','|',' ','M','O','V','Q',' ','l','o','w','+','0','(','F','P',
  ')',',',' ','S','I',' ',';',' ','M','O','V','Q',' ','h','i','g','h','+','2','4','(','F','P',')',
  ',',' ','D','X',' ',';',' ','M','O','V','O','U',' ','(','S','I',')',',',' ','X','6',' ',';',' ',
  'M','O','V','O','U',' ','(','D','X',')',',',' ','X','7',' ',';',' ','M','O','V','Q',' ','$','1',
  '5',',',' ','B','X',' ',';',' ','M','O','V','Q',' ','B','X',',',' ','X','8',' ',';',' ','P','X',
  'O','R',' ','X','5',',',' ','X','5',' ',';',' ','M','O','V','Q',' ','i','n','+','4','8','(','F',
  'P',')',',',' ','S','I',' ',';',' ','M','O','V','Q',' ','i','n','_','l','e','n','+','5','6','(',
  'F','P',')',',',' ','R','9',' ',';',' ','M','O','V','Q',' ','o','u','t','+','7','2','(','F','P',
  ')',',',' ','D','X',' ',';',' ','P','S','H','U','F','B',' ','X','5',',',' ','X','8',' ',';',' ',
  'S','H','R','Q',' ','$','4',',',' ','R','9',' ',';',' ','M','O','V','Q',' ','S','I',',',' ','A',
  'X',' ',';',' ','M','O','V','Q',' ','D','X',',',' ','B','X',' ',';',' ','A','N','D','Q',' ','$',
  '1','5',',',' ','A','X',' ',';',' ','A','N','D','Q',' ','$','1','5',',',' ','B','X',' ',';',' ',
  'C','M','P','Q',' ','R','9',',',' ','$','0',' ',';',' ','J','E','Q',' ','d','o','n','e','_','x',
  'o','r',' ',';',' ','O','R','Q',' ','A','X',',',' ','B','X',' ',';',' ','C','M','P','Q',' ','B',
  'X',',',' ','$','0',' ',';',' ','J','N','Z',' ','l','o','o','p','b','a','c','k','_','x','o','r',
  ' ',';',' ','l','o','o','p','b','a','c','k','_','x','o','r','_','a','l','i','g','n','e','d',':',
  ' ',';',' ','M','O','V','O','A',' ','(','S','I',')',',',' ','X','0',' ',';',' ','M','O','V','O',
  'A',' ','(','D','X',')',',',' ','X','4',' ',';',' ','M','O','V','O','A',' ','X','0',',',' ','X',
  '1',' ',';',' ','M','O','V','O','A',' ','X','6',',',' ','X','2',' ',';',' ','M','O','V','O','A',
  ' ','X','7',',',' ','X','3',' ',';',' ','P','S','R','L','Q',' ','$','4',',',' ','X','1',' ',';',
  ' ','P','A','N','D',' ','X','8',',',' ','X','0',' ',';',' ','P','A','N','D',' ','X','8',',',' ',
  'X','1',' ',';',' ','P','S','H','U','F','B',' ','X','0',',',' ','X','2',' ',';',' ','P','S','H',
  'U','F','B',' ','X','1',',',' ','X','3',' ',';',' ','P','X','O','R',' ','X','2',',',' ','X','3',
  ' ',';',' ','P','X','O','R',' ','X','4',',',' ','X','3',' ',';',' ','M','O','V','O','A',' ','X',
  '3',',',' ','(','D','X',')',' ',';',' ','A','D','D','Q',' ','$','1','6',',',' ','S','I',' ',';',
  ' ','A','D','D','Q',' ','$','1','6',',',' ','D','X',' ',';',' ','S','U','B','Q',' ','$','1',',',
  ' ','R','9',' ',';',' ','J','N','Z',' ','l','o','o','p','b','a','c','k','_','x','o','r','_','a',
  'l','i','g','n','e','d',' ',';',' ','J','M','P',' ','d','o','n','e','_','x','o','r',' ',';',' ',
  'l','o','o','p','b','a','c','k','_','x','o','r',':',' ',';',' ','M','O','V','O','U',' ','(','S',
  'I',')',',',' ','X','0',' ',';',' ','M','O','V','O','U',' ','(','D','X',')',',',' ','X','4',' ',
  ';',' ','M','O','V','O','U',' ','X','0',',',' ','X','1',' ',';',' ','M','O','V','O','U',' ','X',
  '6',',',' ','X','2',' ',';',' ','M','O','V','O','U',' ','X','7',',',' ','X','3',' ',';',' ','P',
  'S','R','L','Q',' ','$','4',',',' ','X','1',' ',';',' ','P','A','N','D',' ','X','8',',',' ','X',
  '0',' ',';',' ','P','A','N','D',' ','X','8',',',' ','X','1',' ',';',' ','P','S','H','U','F','B',
  ' ','X','0',',',' ','X','2',' ',';',' ','P','S','H','U','F','B',' ','X','1',',',' ','X','3',' ',
  ';',' ','P','X','O','R',' ','X','2',',',' ','X','3',' ',';',' ','P','X','O','R',' ','X','4',',',
  ' ','X','3',' ',';',' ','M','O','V','O','U',' ','X','3',',',' ','(','D','X',')',' ',';',' ','A',
  'D','D','Q',' ','$','1','6',',',' ','S','I',' ',';',' ','A','D','D','Q',' ','$','1','6',',',' ',
  'D','X',' ',';',' ','S','U','B','Q',' ','$','1',',',' ','R','9',' ',';',' ','J','N','Z',' ','l',
  'o','o','p','b','a','c','k','_','x','o','r',' ',';',' ','d','o','n','e','_','x','o','r',':',' ',
  ';',' ','R','E','T']

def kMutChars : List Char := [
  's','S','E','2','X','o','r','S','l','i','c','e',' ','x','o','r',' ','s','s','e','2',' ','0',' ',
  '1','6',' ','|',' ','M','O','V','Q',' ','i','n','_','b','a','s','e','+','0','(','F','P',')',',',
  ' ','A','X',' ',';',' ','M','O','V','Q',' ','o','u','t','_','b','a','s','e','+','2','4','(','F',
  'P',')',',',' ','C','X',' ',';',' ','M','O','V','Q',' ','i','n','_','l','e','n','+','8','(','F',
  'P',')',',',' ','D','X',' ',';',' ','S','H','R','Q',' ','$','0','x','0','4',',',' ','D','X',' ',
  ';',' ','J','Z',' ','e','n','d',' ',';',' ','l','o','o','p',':',' ',';',' ','M','O','V','O','U',
  ' ','(','A','X',')',',',' ','X','0',' ',';',' ','M','O','V','O','U',' ','(','C','X',')',',',' ',
  'X','1',' ',';',' ','P','X','O','R',' ','X','0',',',' ','X','1',' ',';',' ','M','O','V','O','U',
  ' ','X','1',',',' ','(','C','X',')',' ',';',' ','A','D','D','Q',' ','$','0','x','1','0',',',' ',
  'C','X',' ',';',' ','D','E','C','Q',' ','D','X',' ',';',' ','J','N','Z',' ','l','o','o','p',' ',
  ';',' ','e','n','d',':',' ',';',' ','R','E','T']

/-- `sSE2XorSlice`, `galMulAVX2Xor`, `ifftDIT28_avx2`, `fftDIT48_gfni_3` and the two-loop `galMulSSSE3Xor`
(verbatim, canonical one-line form) are accepted -/
theorem C08_asm_leo_nonvacuous : RSV.Asm.Leo.checkChars kXorChars = true ∧ RSV.Asm.Leo.checkChars kGalMulChars = true ∧
    RSV.Asm.Leo.checkChars kDit28Chars = true ∧ RSV.Asm.Leo.checkChars kDit48gChars = true ∧
    RSV.Asm.Leo.checkChars kSsse3Chars = true := by
  refine ⟨?_, ?_, ?_, ?_, ?_⟩ <;> decide +kernel

/-- `sSE2XorSlice` without the `ADDQ $0x10, AX` that advances the input pointer is rejected -/
theorem C08_asm_leo_negative : RSV.Asm.Leo.checkChars kMutChars = false := by decide +kernel

end RSV.Props.C08asmLeo
