import RSV.Model.Frames
import RSV.Props.C02
import RSV.Props.Consts

/-!
# C09 — operations write only where the contract allows

Model: `RSV.Model.Frames` (`W`: `u` = caller memory untouched, `w` = written in place inside
`[0,len)`, `a` = replaced by a fresh allocation; the frames of Encode / Verify / Reconstruct* /
EncodeIdx / Update, and the arithmetic model `allocAligned` of `AllocAligned`).

Everything is core Lean except `C09_recon_matches_model`, which goes through `C02_any`
(`RSV.Props.C02`) to reach the executable model `reconstruct`.
-/

namespace RSV.Props.C09
open RSV.Model RSV.Model.Frames

/-! ### AllocAligned -/

theorem mem_offs {shards each r : Nat} {u : Bool} {o : Nat}
    (h : o ∈ (allocAligned shards each r u).offs) :
    ∃ i, i < shards ∧
      o = (allocAligned shards each r u).skip + i * (allocAligned shards each r u).cap := by
  simp only [allocAligned, List.mem_map, List.mem_range] at h ⊢
  obtain ⟨i, hi, rfl⟩ := h
  exact ⟨i, hi, rfl⟩

theorem skip_le (shards each r : Nat) (u : Bool) : (allocAligned shards each r u).skip ≤ 63 := by
  show (if u && decide (r % 64 > 0) then 64 - r % 64 else 0) ≤ 63
  split
  · next h =>
    simp only [Bool.and_eq_true, decide_eq_true_eq] at h
    omega
  · omega

/-- **C09 AllocAligned**, for ALL shard counts, sizes and base alignments, in both builds:
`shards` slices of length `each` and capacity `ceil64(each)`; every slice together with its
capacity lies inside the backing array; the slices are pairwise disjoint, capacities included. -/
theorem C09_alloc (shards each r : Nat) (u : Bool) :
    let a := allocAligned shards each r u
    a.offs.length = shards ∧ a.len = each ∧ each ≤ a.cap ∧ a.cap % 64 = 0 ∧ a.cap < each + 64 ∧
    (∀ o ∈ a.offs, o + a.cap ≤ a.total) ∧
    (a.offs.Pairwise fun x y => x + a.cap ≤ y) := by
  intro a
  refine ⟨?_, rfl, ?_, ?_, ?_, ?_, ?_⟩
  · simp [a, allocAligned]
  · show each ≤ (each + 63) / 64 * 64
    omega
  · show (each + 63) / 64 * 64 % 64 = 0
    omega
  · show (each + 63) / 64 * 64 < each + 64
    omega
  · intro o ho
    obtain ⟨i, hi, rfl⟩ := mem_offs ho
    have hs : a.skip ≤ 63 := skip_le shards each r u
    have hm : (i + 1) * a.cap ≤ shards * a.cap := Nat.mul_le_mul_right _ hi
    have ht : a.total = a.cap * shards + 63 := rfl
    rw [Nat.add_mul, Nat.one_mul] at hm
    rw [Nat.mul_comm shards] at hm
    show a.skip + i * a.cap + a.cap ≤ a.total
    omega
  · show List.Pairwise _ ((List.range shards).map fun i => a.skip + i * a.cap)
    rw [List.pairwise_map]
    refine List.Pairwise.imp ?_ (List.pairwise_lt_range (n := shards))
    intro x y hxy
    have hm : (x + 1) * a.cap ≤ y * a.cap := Nat.mul_le_mul_right _ hxy
    rw [Nat.add_mul, Nat.one_mul] at hm
    omega

/-- **C09 AllocAligned, default build**: every slice starts at a 64-byte aligned address
(`r` = address of the backing array mod 64). -/
theorem C09_alloc_aligned (shards each r : Nat) :
    ∀ o ∈ (allocAligned shards each r true).offs, (r + o) % 64 = 0 := by
  intro o ho
  obtain ⟨i, -, rfl⟩ := mem_offs ho
  show (r + ((if true && decide (r % 64 > 0) then 64 - r % 64 else 0) + i * ((each + 63) / 64 * 64))) % 64 = 0
  rw [← Nat.mul_assoc]
  generalize i * ((each + 63) / 64) = m
  simp only [Bool.true_and, decide_eq_true_eq]
  split <;> omega

/-- the build without pointer arithmetic (`unsafeAlign = false`) does not skip: the first slice is
at offset 0 and slice `i` at
`i * cap` (no alignment promise) -/
theorem C09_alloc_noskip (shards each r : Nat) :
    (allocAligned shards each r false).skip = 0 ∧
    (allocAligned shards each r false).offs =
      (List.range shards).map fun i => i * (allocAligned shards each r false).cap := by
  simp [allocAligned]

/-! ### Encode, Verify, EncodeIdx, Update -/

/-- **C09 Encode**: data untouched, parity written in place -/
theorem C09_encode_frame (d p : Nat) :
    encodeFrame d p = List.replicate d .u ++ List.replicate p .w ∧ (encodeFrame d p).length = d + p := by
  simp [encodeFrame]

theorem C09_encode_data {d p : Nat} (i : Nat) (hi : i < d) : (encodeFrame d p)[i]? = some .u := by
  simp [encodeFrame, List.getElem?_append_left, hi]

theorem C09_encode_parity {d p : Nat} (j : Nat) (hj : j < p) : (encodeFrame d p)[d + j]? = some .w := by
  simp [encodeFrame, hj]

/-- **C09 Verify** writes nothing -/
theorem C09_verify_frame (d p : Nat) : ∀ x ∈ verifyFrame d p, x = .u := by
  intro x hx
  exact (List.mem_replicate.mp hx).2

theorem C09_verify_length (d p : Nat) : (verifyFrame d p).length = d + p := by
  simp [verifyFrame]

/-- **C09 EncodeIdx**: data shards are never written -/
theorem C09_idx_frame (d p k : Nat) (i : Nat) (hi : i < d) : (idxFrame d p k)[i]? = some .u := by
  simp [idxFrame, List.getElem?_append_left, hi]

theorem C09_idx_parity (d p k : Nat) (j : Nat) (hj : j < p) :
    (idxFrame d p k)[d + j]? = some (if k = 0 then .u else .w) := by
  simp [idxFrame, hj]

/-- **C09 Update**: unchanged data shards are untouched -/
theorem C09_update_frame (d p : Nat) (changed : Fin d → Bool) (c : Fin d) (h : changed c = false) :
    (updateFrame d p changed)[c.val]? = some .u := by
  simp [updateFrame, List.getElem?_append_left, h]

/-- Update: the old copy of a changed data shard is written in place (it is xor-ed with the new data) -/
theorem C09_update_changed (d p : Nat) (changed : Fin d → Bool) (c : Fin d) (h : changed c = true) :
    (updateFrame d p changed)[c.val]? = some .w := by
  simp [updateFrame, List.getElem?_append_left, h]

/-- **C09 Update**: parity is written in place -/
theorem C09_update_parity (d p : Nat) (changed : Fin d → Bool) (j : Nat) (hj : j < p) :
    (updateFrame d p changed)[d + j]? = some .w := by
  simp [updateFrame, hj]

theorem C09_update_length (d p : Nat) (changed : Fin d → Bool) :
    (updateFrame d p changed).length = d + p := by
  simp [updateFrame]

/-! ### Reconstruct* -/

/-- the class of shard `i` after a Reconstruct* call -/
def reconClass (d p : Nat) (present : Fin (d + p) → Bool) (mode : ReconMode)
    (capOk : Fin (d + p) → Bool) (i : Fin (d + p)) : W :=
  match reconShape d p present mode with
  | .fill filled =>
      if !present i && filled.getD i.val false then (if capOk i then .w else .a) else .u
  | _ => .u

theorem reconFrame_get (d p : Nat) (present : Fin (d + p) → Bool) (mode : ReconMode)
    (capOk : Fin (d + p) → Bool) (i : Fin (d + p)) :
    (reconFrame d p present mode capOk)[i.val]? = some (reconClass d p present mode capOk i) := by
  have hi := i.isLt
  unfold reconFrame reconClass
  cases hs : reconShape d p present mode with
  | fill f => simp
  | unchanged => simp [hi]
  | tooFew => simp [hi]

theorem C09_recon_length (d p : Nat) (present : Fin (d + p) → Bool) (mode : ReconMode)
    (capOk : Fin (d + p) → Bool) : (reconFrame d p present mode capOk).length = d + p := by
  unfold reconFrame
  split <;> simp

/-- **C09 Reconstruct\***: only missing shards are ever written or replaced -/
theorem C09_recon_only_missing (d p : Nat) (present : Fin (d + p) → Bool) (mode : ReconMode)
    (capOk : Fin (d + p) → Bool) (i : Fin (d + p))
    (h : (reconFrame d p present mode capOk)[i.val]? ≠ some .u) : present i = false := by
  rw [reconFrame_get] at h
  unfold reconClass at h
  split at h
  · cases hp : present i with
    | false => rfl
    | true => simp [hp] at h
  · exact absurd rfl h

/-- **C09 Reconstruct\***: a shard is written in place only when its capacity suffices -/
theorem C09_recon_in_place_iff (d p : Nat) (present : Fin (d + p) → Bool) (mode : ReconMode)
    (capOk : Fin (d + p) → Bool) (i : Fin (d + p))
    (h : (reconFrame d p present mode capOk)[i.val]? = some .w) : capOk i = true := by
  rw [reconFrame_get] at h
  unfold reconClass at h
  split at h
  · cases hc : capOk i with
    | true => rfl
    | false =>
      simp only [hc] at h
      split at h <;> simp at h
  · cases h

/-- **C09 Reconstruct\***: a fresh allocation happens only for a missing shard without capacity -/
theorem C09_recon_alloc (d p : Nat) (present : Fin (d + p) → Bool) (mode : ReconMode)
    (capOk : Fin (d + p) → Bool) (i : Fin (d + p))
    (h : (reconFrame d p present mode capOk)[i.val]? = some .a) :
    capOk i = false ∧ present i = false := by
  refine ⟨?_, C09_recon_only_missing d p present mode capOk i (by rw [h]; simp)⟩
  rw [reconFrame_get] at h
  unfold reconClass at h
  split at h
  · cases hc : capOk i with
    | false => rfl
    | true =>
      simp only [hc] at h
      split at h <;> simp at h
  · cases h

/-- a call that returns early or fails (`reconShape` is not `fill`) writes nothing at all -/
theorem C09_recon_noop_untouched (d p : Nat) (present : Fin (d + p) → Bool) (mode : ReconMode)
    (capOk : Fin (d + p) → Bool) (h : ∀ f, reconShape d p present mode ≠ .fill f) :
    ∀ x ∈ reconFrame d p present mode capOk, x = .u := by
  intro x hx
  unfold reconFrame at hx
  split at hx
  · next f hs => exact absurd hs (h f)
  · exact (List.mem_replicate.mp hx).2

/-- **C09 consistency with the functional specification**: a shard is classed `u` exactly when
`reconSpec` leaves it as it was (present → the same shard; missing and not filled → still missing).
No hypothesis on the carrier `F` is needed. -/
theorem C09_recon_matches_spec {F : Type} {d p len : Nat} (orig : Fin (d + p) → Shard F len)
    (present : Fin (d + p) → Bool) (mode : ReconMode) (capOk : Fin (d + p) → Bool)
    (out : Fin (d + p) → Option (Shard F len)) (h : reconSpec orig present mode = .ok out)
    (i : Fin (d + p)) :
    ((reconFrame d p present mode capOk)[i.val]? = some .u ↔
      out i = (if present i then some (orig i) else none)) := by
  rw [reconFrame_get]
  unfold reconClass
  unfold reconSpec at h
  cases hs : reconShape d p present mode with
  | unchanged =>
    rw [hs] at h
    injection h with h
    subst h
    simp
  | tooFew => rw [hs] at h; cases h
  | fill filled =>
    rw [hs] at h
    injection h with h
    subst h
    cases hp : present i <;> cases filled.getD i.val false <;> cases capOk i <;> simp [hp]

/-- the written-or-replaced shards are exactly those the specification fills -/
theorem C09_recon_written_iff_filled {F : Type} {d p len : Nat} (orig : Fin (d + p) → Shard F len)
    (present : Fin (d + p) → Bool) (mode : ReconMode) (capOk : Fin (d + p) → Bool)
    (out : Fin (d + p) → Option (Shard F len)) (h : reconSpec orig present mode = .ok out)
    (i : Fin (d + p)) :
    ((reconFrame d p present mode capOk)[i.val]? ≠ some .u ↔
      (present i = false ∧ out i = some (orig i))) := by
  rw [reconFrame_get]
  unfold reconClass
  unfold reconSpec at h
  cases hs : reconShape d p present mode with
  | unchanged =>
    rw [hs] at h
    injection h with h
    subst h
    cases hp : present i <;> simp [hp]
  | tooFew => rw [hs] at h; cases h
  | fill filled =>
    rw [hs] at h
    injection h with h
    subst h
    cases hp : present i <;> cases filled.getD i.val false <;> cases capOk i <;> simp [hp]

/-- **C09 consistency with the executable model** (any generator, MDS or not): after a successful
`reconstruct` on a codeword with erasures, a shard is classed `u` exactly when the returned slot is
the input slot. -/
theorem C09_recon_matches_model {F : Type} [Field F] [DecidableEq F] {d p len : Nat}
    (A : Mat F p d) (data : Fin d → Shard F len)
    (present : Fin (d + p) → Bool) (mode : ReconMode) (capOk : Fin (d + p) → Bool)
    (out : Fin (d + p) → Option (Shard F len))
    (h : reconstruct A (erase (encodeAll A data) present) mode = .ok out) (i : Fin (d + p)) :
    ((reconFrame d p present mode capOk)[i.val]? = some .u ↔
      out i = erase (encodeAll A data) present i) := by
  rcases RSV.Props.C02.C02_any A data present mode with e | e
  · rw [e] at h
    exact C09_recon_matches_spec (encodeAll A data) present mode capOk out h i
  · rw [e] at h; cases h

/-- a call that fails with `ErrTooFewShards` writes nothing -/
theorem C09_recon_too_few_untouched (d p : Nat) (present : Fin (d + p) → Bool) (mode : ReconMode)
    (capOk : Fin (d + p) → Bool) (h : reconShape d p present mode = .tooFew) :
    ∀ x ∈ reconFrame d p present mode capOk, x = .u :=
  C09_recon_noop_untouched d p present mode capOk (fun f hf => by rw [h] at hf; cases hf)

/-! ### non-vacuity -/

example : (allocAligned 3 100 17 true).offs = [47, 175, 303] ∧ (allocAligned 3 100 17 true).cap = 128 ∧
    (allocAligned 3 100 17 true).total = 447 ∧ (allocAligned 3 100 17 true).skip = 47 := by decide

example : (allocAligned 3 100 17 false).offs = [0, 128, 256] := by decide

example : (allocAligned 0 100 17 true).offs = [] ∧ (allocAligned 2 0 5 true).cap = 0 := by decide

example : encodeFrame 2 1 = [.u, .u, .w] ∧ verifyFrame 2 1 = [.u, .u, .u] := by decide

example : idxFrame 2 1 0 = [.u, .u, .u] ∧ idxFrame 2 1 3 = [.u, .u, .w] := by decide

example : updateFrame 2 1 (fun c => decide (c.val = 1)) = [.u, .w, .w] := by decide

/-- shard 0 missing, capacity available: written in place -/
example : reconFrame 2 1 (fun i => decide (i.val ≠ 0)) .all (fun _ => true) = [.w, .u, .u] := by decide

/-- shard 0 missing, no capacity: replaced by a fresh allocation -/
example : reconFrame 2 1 (fun i => decide (i.val ≠ 0)) .all (fun _ => false) = [.a, .u, .u] := by decide

/-- ReconstructData with only the parity shard missing: nothing is written -/
example : reconFrame 2 1 (fun i => decide (i.val ≠ 2)) .dataOnly (fun _ => true) = [.u, .u, .u] := by decide

/-- too few shards: nothing is written -/
example : reconFrame 2 1 (fun i => decide (i.val = 1)) .all (fun _ => true) = [.u, .u, .u] := by decide

/-- ReconstructSome asking for shard 1 only, shards 0 and 1 missing in a 2+2 code: only shard 1 is filled -/
example : reconFrame 2 2 (fun i => decide (2 ≤ i.val)) (.some [false, true, false, false] true)
    (fun i => decide (i.val = 0)) = [.u, .a, .u, .u] := by decide

/-- the alignment constants of `AllocAligned` regenerated from the Go source -/
theorem C09_alloc_constants : RSV.Gen.unsafe_alignEach = 64 ∧ RSV.Gen.unsafe_alignStart = 64 := RSV.Props.Consts.alloc_constants


end RSV.Props.C09

#print axioms RSV.Props.C09.C09_alloc
#print axioms RSV.Props.C09.C09_alloc_aligned
#print axioms RSV.Props.C09.C09_alloc_noskip
#print axioms RSV.Props.C09.C09_encode_frame
#print axioms RSV.Props.C09.C09_encode_data
#print axioms RSV.Props.C09.C09_encode_parity
#print axioms RSV.Props.C09.C09_verify_frame
#print axioms RSV.Props.C09.C09_verify_length
#print axioms RSV.Props.C09.C09_idx_frame
#print axioms RSV.Props.C09.C09_idx_parity
#print axioms RSV.Props.C09.C09_update_frame
#print axioms RSV.Props.C09.C09_update_changed
#print axioms RSV.Props.C09.C09_update_parity
#print axioms RSV.Props.C09.C09_update_length
#print axioms RSV.Props.C09.C09_recon_length
#print axioms RSV.Props.C09.C09_recon_only_missing
#print axioms RSV.Props.C09.C09_recon_in_place_iff
#print axioms RSV.Props.C09.C09_recon_alloc
#print axioms RSV.Props.C09.C09_recon_noop_untouched
#print axioms RSV.Props.C09.C09_recon_matches_spec
#print axioms RSV.Props.C09.C09_recon_written_iff_filled
#print axioms RSV.Props.C09.C09_recon_matches_model
#print axioms RSV.Props.C09.C09_recon_too_few_untouched
#print axioms RSV.Props.C09.C09_alloc_constants
