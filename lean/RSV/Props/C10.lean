import RSV.Props.C05bitfield
import RSV.Proofs.Memo
import Mathlib.Algebra.Field.Rat

/-!
# C10 — the inversion cache never changes an answer (matrix codec)

Model: `RSV.Model.Memo` — the inversion tree of `inversion_tree.go` (`Node`, `Tree.get`,
`Tree.insert`, `newTree`), the cache key (`cacheKey`: the missing indices met before `d` present
ones), one cached call `reconStep` and a history of calls `runHistory` on one encoder.
Specification: the cache-free `RSV.Model.reconstruct` (what a fresh encoder computes).

* trie laws: `get_insert_same`, `get_insert_other`, lifted to the tree in `tree_get_insert`;
* `key_determines_valid`: the key determines the `d` survivor rows, hence the sub-matrix
  (`subMat_of_key`);
* `Sound` is an invariant of every call (`sound_new`, `sound_disabled`, `reconStep_sound`) and a
  sound cache never changes an answer (`reconStep_result`);
* `C10_matrix`, `C10_fresh`: every answer in every finite history equals the cache-free one.

Proof machinery: `RSV.Proofs.Memo`.
-/

namespace RSV.Props.C10
open RSV.Model RSV.Model.Memo

/-! ### trie laws -/
section Trie
variable {V : Type}

/-- the shape of the keys: strictly increasing, every element at least the running `parent` -/
abbrev StrictInc : List ℕ → ℕ → Prop := RSV.Model.Memo.StrictInc

theorem strictInc_iff (k : List ℕ) (parent : ℕ) :
    StrictInc k parent ↔ k.Pairwise (· < ·) ∧ ∀ x ∈ k, parent ≤ x :=
  RSV.Model.Memo.strictInc_iff k parent

/-- what was inserted under a non-empty key is found under that key.  (True for every non-empty
key; `hinc` is not used.) -/
theorem get_insert_same (k : List ℕ) (hk : k ≠ []) (n : Node V) (parent : ℕ)
    (_hinc : StrictInc k parent) (v : V) :
    Node.get k (Node.insert k n parent v) parent = some v :=
  Node.get_insert_same k hk n parent v

/-- an insertion does not disturb any other key.  Here `StrictInc` is needed: with `parent = 5`
the keys `[3]` and `[4]` both address child `0` because of the truncated subtraction. -/
theorem get_insert_other (k k' : List ℕ) (hk : k ≠ []) (hk' : k' ≠ []) (n : Node V) (parent : ℕ)
    (hinc : StrictInc k parent) (hinc' : StrictInc k' parent) (hne : k ≠ k') (v : V) :
    Node.get k' (Node.insert k n parent v) parent = Node.get k' n parent :=
  Node.get_insert_other k k' hk hk' n parent hinc hinc' hne v

/-- the counterexample mentioned above: without `StrictInc` the second law fails -/
example : Node.get [4] (Node.insert [3] (Node.empty : Node ℕ) 5 7) 5 = some 7 ∧
    Node.get [4] (Node.empty : Node ℕ) 5 = none := ⟨rfl, rfl⟩

/-- the laws of `GetInvertedMatrix` / `InsertInvertedMatrix` -/
theorem tree_get_insert :
    -- cache enabled: an inserted non-empty key is found
    (∀ (t : Memo.Tree V) (k : List ℕ) (v : V), k ≠ [] →
      Memo.Tree.get (Memo.Tree.insert (some t) k v) k = some v) ∧
    -- enabled or not: other strictly increasing keys (the empty one included) are not disturbed
    (∀ (t : Option (Memo.Tree V)) (k k' : List ℕ) (v : V), StrictInc k 0 → StrictInc k' 0 → k ≠ k' →
      Memo.Tree.get (Memo.Tree.insert t k v) k' = Memo.Tree.get t k') ∧
    -- a disabled cache always misses and stays disabled
    (∀ (k : List ℕ), Memo.Tree.get (none : Option (Memo.Tree V)) k = none) ∧
    (∀ (k : List ℕ) (v : V), Memo.Tree.insert (none : Option (Memo.Tree V)) k v = none) ∧
    -- the empty key returns the root value; inserting under it changes nothing
    (∀ (t : Memo.Tree V), Memo.Tree.get (some t) [] = t.root.val) ∧
    (∀ (t : Option (Memo.Tree V)) (v : V), Memo.Tree.insert t [] v = t) :=
  ⟨fun t k v hk => Memo.Tree.get_insert_same t k hk v,
   fun t k k' v h h' hne => Memo.Tree.get_insert_other t k k' h h' hne v,
   fun _ => rfl, fun _ _ => rfl, fun _ => rfl, fun t v => Memo.Tree.insert_nil t v⟩

/-- non-vacuity: a small trie -/
example :
    let t : Option (Memo.Tree ℕ) := Memo.Tree.insert (Memo.Tree.insert (some ⟨Node.mk (some 0) fun _ => Node.empty⟩) [1, 3] 13) [1] 1
    Memo.Tree.get t [1, 3] = some 13 ∧ Memo.Tree.get t [1] = some 1 ∧ Memo.Tree.get t [] = some 0 ∧
      Memo.Tree.get t [3] = none ∧ Memo.Tree.get t [1, 2] = none := by
  decide

end Trie

/-! ### the key determines the survivor rows -/
section Key
variable {n : ℕ}

/-- two presence patterns with the same cache key select the same `d` rows -/
theorem key_determines_valid (present present' : Fin n → Bool) (d : ℕ)
    (h : d ≤ countTrue present) (h' : d ≤ countTrue present')
    (hk : cacheKey present d = cacheKey present' d) :
    firstPresent present d = firstPresent present' d :=
  Memo.key_determines_valid present present' d h h' hk

/-- explicitly: the survivor rows are the first `d` indices outside the key -/
theorem valid_of_key (present : Fin n → Bool) (d : ℕ) (h : d ≤ countTrue present) :
    firstPresent present d =
      ((List.finRange n).filter fun i => !(cacheKey present d).contains i.val).take d :=
  Memo.firstPresent_eq_validOfKey present d h

/-- every cache key is a strictly increasing list -/
theorem cacheKey_strictInc (present : Fin n → Bool) (d : ℕ) : StrictInc (cacheKey present d) 0 :=
  Memo.cacheKey_strictInc present d

/-- the key is empty exactly when the first `d` shards are present -/
theorem cacheKey_eq_nil_iff (present : Fin n → Bool) (d : ℕ) (h : d ≤ countTrue present) :
    cacheKey present d = [] ↔ ∀ i : Fin n, i.val < d → present i = true :=
  Memo.cacheKey_eq_nil_iff present d h

end Key

section Main
variable {F : Type} [Field F] [DecidableEq F] {d p len : ℕ}

omit [DecidableEq F] in
/-- the sub-matrix inverted by `reconstruct` is a function of the key -/
theorem subMat_of_key (A : Mat F p d) (present present' : Fin (d + p) → Bool)
    (h : d ≤ countTrue present) (h' : d ≤ countTrue present')
    (hk : cacheKey present d = cacheKey present' d) : subMat A present = subMat A present' :=
  subMat_congr_key A present present' h h' hk

/-! ### the soundness invariant -/

/-- cache soundness: every entry reachable under the key of some presence pattern with at least
`d` present shards is the inverse `invert` would compute for that pattern -/
def Sound (A : Mat F p d) (t : Option (Memo.Tree (Mat F d d))) : Prop :=
  ∀ (present : Fin (d + p) → Bool), d ≤ countTrue present →
    ∀ dec, Memo.Tree.get t (cacheKey present d) = some dec → invert (subMat A present) = some dec

/-- a fresh encoder: the only entry is the identity under the empty key, and the empty key
selects the first `d` rows of `[I; A]` -/
theorem sound_new (A : Mat F p d) : Sound A (some (newTree d)) := by
  intro present hd dec hget
  cases hk : cacheKey present d with
  | nil =>
    rw [hk] at hget
    have hdec : dec = identity d := (Option.some_injective _ hget).symm
    rw [subMat_eq_subOfKey A present hd, hk, subOfKey_nil, hdec]
    exact invert_identity
  | cons i r =>
    rw [hk, Memo.Tree.get_cons] at hget
    have : Node.get (i :: r) (newTree (F := F) d).root 0 = none := Node.get_leaf _ _ _
    rw [this] at hget
    cases hget

/-- cache disabled (`WithInversionCache(false)`) -/
theorem sound_disabled (A : Mat F p d) : Sound A none := by
  intro present _ dec hget
  cases hget

/-- a sound cache never changes the answer of a call -/
theorem reconStep_result (A : Mat F p d) (t : Option (Memo.Tree (Mat F d d))) (hs : Sound A t)
    (sh : Fin (d + p) → Option (Shard F len)) (mode : ReconMode) :
    (reconStep A t sh mode).1 = reconstruct A sh mode := by
  cases hget : Memo.Tree.get t (cacheKey (fun i => (sh i).isSome) d) with
  | none => exact reconStep_miss_fst A t sh mode hget
  | some dec =>
    rw [reconStep_hit A t sh mode dec hget]
    exact reconstructWith_congr (fun _ => some dec) invert A sh mode
      (fun hd => (hs _ hd dec hget).symm)

/-- every call keeps the cache sound -/
theorem reconStep_sound (A : Mat F p d) (t : Option (Memo.Tree (Mat F d d))) (hs : Sound A t)
    (sh : Fin (d + p) → Option (Shard F len)) (mode : ReconMode) :
    Sound A (reconStep A t sh mode).2 := by
  cases hget : Memo.Tree.get t (cacheKey (fun i => (sh i).isSome) d) with
  | some dec => rw [reconStep_hit A t sh mode dec hget]; exact hs
  | none =>
    rcases reconStep_miss_snd A t sh mode hget with h | ⟨hd, dec, hinv, h⟩
    · rw [h]; exact hs
    · rw [h]
      intro present' hd' dec' hget'
      rcases Memo.Tree.get_insert_cases t _ _ (Memo.cacheKey_strictInc _ d)
        (Memo.cacheKey_strictInc present' d) dec dec' hget' with ⟨hk, -, hdec⟩ | hold
      · rw [subMat_congr_key A present' _ hd' hd hk, hdec]
        exact hinv
      · exact hs present' hd' dec' hold

/-- the cache after any history is sound -/
theorem runHistory_sound (A : Mat F p d) (t : Option (Memo.Tree (Mat F d d))) (hs : Sound A t)
    (hist : List ((Fin (d + p) → Option (Shard F len)) × ReconMode)) :
    Sound A (runHistory A t hist).2 := by
  induction hist generalizing t with
  | nil => exact hs
  | cons c rest ih =>
    obtain ⟨sh, mode⟩ := c
    exact ih _ (reconStep_sound A t hs sh mode)

/-- **C10 (matrix codec).** For every finite history of Reconstruct / ReconstructData /
ReconstructSome calls with arbitrary shard sets and modes on one encoder whose cache is sound
(enabled or disabled), every answer equals what a cache-free encoder returns. -/
theorem C10_matrix (A : Mat F p d) (t : Option (Memo.Tree (Mat F d d))) (hs : Sound A t)
    (hist : List ((Fin (d + p) → Option (Shard F len)) × ReconMode)) :
    (runHistory A t hist).1 = hist.map (fun (sh, mode) => reconstruct A sh mode) := by
  induction hist generalizing t with
  | nil => rfl
  | cons c rest ih =>
    obtain ⟨sh, mode⟩ := c
    show (reconStep A t sh mode).1 :: (runHistory A (reconStep A t sh mode).2 rest).1 = _
    rw [reconStep_result A t hs sh mode, ih _ (reconStep_sound A t hs sh mode)]
    rfl

/-- **C10 for a fresh encoder**, cache enabled (the default) or disabled -/
theorem C10_fresh (A : Mat F p d)
    (hist : List ((Fin (d + p) → Option (Shard F len)) × ReconMode)) :
    (runHistory A (some (newTree d)) hist).1 = hist.map (fun (sh, mode) => reconstruct A sh mode) ∧
    (runHistory A none hist).1 = hist.map (fun (sh, mode) => reconstruct A sh mode) :=
  ⟨C10_matrix A _ (sound_new A) hist, C10_matrix A _ (sound_disabled A) hist⟩

/-- the answer to a call does not depend on the calls made before it -/
theorem C10_history_independent (A : Mat F p d)
    (hist hist' : List ((Fin (d + p) → Option (Shard F len)) × ReconMode))
    (sh : Fin (d + p) → Option (Shard F len)) (mode : ReconMode) :
    (reconStep A (runHistory A (some (newTree d)) hist).2 sh mode).1 =
      (reconStep A (runHistory A (some (newTree d)) hist').2 sh mode).1 := by
  rw [reconStep_result A _ (runHistory_sound A _ (sound_new A) hist),
    reconStep_result A _ (runHistory_sound A _ (sound_new A) hist')]

end Main

/-! ### non-vacuity: a `(2, 1)` code over `ℚ` -/
section Example

/-- parity = sum of the two data shards -/
def exA : Mat ℚ 1 2 := Mat.ofFn fun _ _ => 1

def exShards : Fin (2 + 1) → Option (Shard ℚ 1) := fun i =>
  if i.val = 0 then none else some (Vector.replicate 1 (i.val : ℚ))

/-- the key of the example call is `[0]`; after the call the tree holds an entry under `[0]`,
i.e. the second identical call is answered from the cache — and gives the same answer -/
example : cacheKey (fun i => (exShards i).isSome) 2 = [0] := by decide

example : (Memo.Tree.get (reconStep exA (some (newTree 2)) exShards .all).2 [0]).isSome = true := by
  decide +kernel

example :
    (runHistory exA (some (newTree 2)) [(exShards, .all), (exShards, .all), (exShards, .dataOnly)]).1 =
      [reconstruct exA exShards .all, reconstruct exA exShards .all, reconstruct exA exShards .dataOnly] :=
  (C10_fresh exA _).1

end Example

end RSV.Props.C10

#print axioms RSV.Props.C10.strictInc_iff
#print axioms RSV.Props.C10.get_insert_same
#print axioms RSV.Props.C10.get_insert_other
#print axioms RSV.Props.C10.tree_get_insert
#print axioms RSV.Props.C10.key_determines_valid
#print axioms RSV.Props.C10.valid_of_key
#print axioms RSV.Props.C10.cacheKey_strictInc
#print axioms RSV.Props.C10.cacheKey_eq_nil_iff
#print axioms RSV.Props.C10.subMat_of_key
#print axioms RSV.Props.C10.sound_new
#print axioms RSV.Props.C10.sound_disabled
#print axioms RSV.Props.C10.reconStep_result
#print axioms RSV.Props.C10.reconStep_sound
#print axioms RSV.Props.C10.runHistory_sound
#print axioms RSV.Props.C10.C10_matrix
#print axioms RSV.Props.C10.C10_fresh
#print axioms RSV.Props.C10.C10_history_independent
