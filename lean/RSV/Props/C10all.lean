import RSV.Props.C10
import RSV.Props.C10leo
/-! C10 umbrella: the inversion tree of the matrix codec (`RSV.Props.C10`, every call history) and the
error-locator map of the Leopard GF(2^8) codec (`RSV.Props.C10leo`, every history and every schedule). -/
