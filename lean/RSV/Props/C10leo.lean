import RSV.Props.C11
import RSV.Props.C05
import RSV.Props.C05bitfield

/-!
# C10 / C11 (Leopard GF(2^8) part) — the error-locator cache of `leopardFF8`

`leopardFF8.reconstruct` keeps a map from `cacheKey.cacheID()` (32 bytes: one bit per position of the
error-locator vector that is set) to the evaluated locator table `errLocs`.  The map is read and written
under `inversionMu`; on a miss the table is computed outside the lock and stored.

* `keyPositions d p missing`: the positions `set` in `cacheKey` — exactly the ones `errLocs` is
  initialised to 1 at (missing parity `i` at `i`, the padding `p … m`, missing data `i` at `m + i`);
* `leo8Key`: `cacheID` of the word-level bit-field model (`RSV.Model.BitfieldImpl.BF8`);
* `C10_leo8_key_determines`: equal keys ⇒ equal erasure sets on `[0, d + p)`;
* `C10_leo8_value_of_key`: the fresh locator table is a function `locsOfKey` of the key;
* `mapIface` / `C10_map_lawful`: a Go map under a mutex is a lawful cache;
* `C10_leo8_cache`: for EVERY schedule of any number of concurrent (or sequential) callers with arbitrary
  erasure sets on one encoder, every caller that has finished holds exactly the locator table a fresh
  encoder computes for ITS erasure set, and the map stays sound.  Sequential call histories (C10) are the
  schedules in which each caller's steps are adjacent.
-/
namespace RSV.Props.C10leo
open RSV.Model RSV.Model.Leo RSV.Model.Memo RSV.Model.BitfieldImpl

/-! ### the key -/

/-- positions `cacheKey.set` is called with -/
def keyPositions (d p : ℕ) (missing : ℕ → Bool) : List ℕ :=
  ((List.range p).filter fun i => missing (d + i)) ++
  ((List.range (ceilPow2 p)).filter fun i => decide (p ≤ i)) ++
  (((List.range d).filter fun i => missing i).map fun i => ceilPow2 p + i)

theorem mem_keyPositions (d p : ℕ) (missing : ℕ → Bool) (x : ℕ) :
    x ∈ keyPositions d p missing ↔
      (x < p ∧ missing (d + x) = true) ∨ (p ≤ x ∧ x < ceilPow2 p) ∨
      (ceilPow2 p ≤ x ∧ x < ceilPow2 p + d ∧ missing (x - ceilPow2 p) = true) := by
  unfold keyPositions
  simp only [List.mem_append, List.mem_filter, List.mem_range, List.mem_map, decide_eq_true_eq]
  constructor
  · rintro ((h | h) | ⟨i, ⟨hi, hm⟩, rfl⟩)
    · exact Or.inl h
    · exact Or.inr (Or.inl ⟨h.2, h.1⟩)
    · refine Or.inr (Or.inr ⟨by omega, by omega, ?_⟩)
      rw [Nat.add_sub_cancel_left]; exact hm
  · rintro (h | h | ⟨h1, h2, h3⟩)
    · exact Or.inl (Or.inl h)
    · exact Or.inl (Or.inr ⟨h.2, h.1⟩)
    · exact Or.inr ⟨x - ceilPow2 p, ⟨by omega, h3⟩, by omega⟩

theorem keyPositions_lt (d p : ℕ) (missing : ℕ → Bool) (hp : p ≤ ceilPow2 p)
    (h : ceilPow2 p + d ≤ 256) : ∀ x ∈ keyPositions d p missing, x < 256 := by
  intro x hx
  rcases (mem_keyPositions d p missing x).mp hx with h1 | h1 | h1 <;> omega

/-- the 32-byte map key of the Go code, computed by the word-level bit-field model -/
def leo8Key (d p : ℕ) (missing : ℕ → Bool) : List ℕ :=
  (BF8.ofList (keyPositions d p missing)).cacheID

/-- **equal keys ⇒ equal erasure sets**: two calls on one encoder that hit the same map entry have the
same missing shards -/
theorem C10_leo8_key_determines (d p : ℕ) (missing missing' : ℕ → Bool) (hp : p ≤ ceilPow2 p)
    (h : ceilPow2 p + d ≤ 256) (hk : leo8Key d p missing = leo8Key d p missing') :
    ∀ i, i < d + p → missing i = missing' i := by
  have hmem := RSV.Props.C05bitfield.C05_bf8_cacheID_injective _ _
    (keyPositions_lt d p missing hp h) (keyPositions_lt d p missing' hp h) hk
  intro i hi
  by_cases hid : i < d
  · have := hmem (ceilPow2 p + i)
    simp only [mem_keyPositions, Nat.add_sub_cancel_left] at this
    have e : missing i = true ↔ missing' i = true := by
      constructor
      · intro hm
        rcases this.mp (Or.inr (Or.inr ⟨by omega, by omega, hm⟩)) with h1 | h1 | h1
        · omega
        · omega
        · exact h1.2.2
      · intro hm
        rcases this.mpr (Or.inr (Or.inr ⟨by omega, by omega, hm⟩)) with h1 | h1 | h1
        · omega
        · omega
        · exact h1.2.2
    cases hm : missing i <;> cases hm' : missing' i <;> simp_all
  · have := hmem (i - d)
    simp only [mem_keyPositions] at this
    have hid' : d + (i - d) = i := by omega
    have e : missing i = true ↔ missing' i = true := by
      constructor
      · intro hm
        rcases this.mp (Or.inl ⟨by omega, by rw [hid']; exact hm⟩) with h1 | h1 | h1
        · rw [hid'] at h1; exact h1.2
        · omega
        · omega
      · intro hm
        rcases this.mpr (Or.inl ⟨by omega, by rw [hid']; exact hm⟩) with h1 | h1 | h1
        · rw [hid'] at h1; exact h1.2
        · omega
        · omega
    cases hm : missing i <;> cases hm' : missing' i <;> simp_all

/-! ### the cached value is a function of the key -/

/-- the erasure set read back from a key -/
def missingOfKey (d p : ℕ) (key : List ℕ) : ℕ → Bool := fun i =>
  if i < d then RSV.Model.Bitfield.keyBit key (ceilPow2 p + i)
  else RSV.Model.Bitfield.keyBit key (i - d)

variable (C : Ctx)

/-- the locator table as a function of the map key -/
def locsOfKey (d p : ℕ) (key : List ℕ) : Array ℕ := errLocs C d p (missingOfKey d p key)

/-- **the fresh locator table of a call is `locsOfKey` of its key** -/
theorem C10_leo8_value_of_key (d p : ℕ) (missing : ℕ → Bool) (hp : p ≤ ceilPow2 p)
    (h : ceilPow2 p + d ≤ 256) :
    locsOfKey C d p (leo8Key d p missing) = errLocs C d p missing := by
  unfold locsOfKey
  apply RSV.Props.C05.C05_errLocs_fn
  intro i hi
  have hlt := keyPositions_lt d p missing hp h
  unfold missingOfKey leo8Key
  rw [RSV.Props.C05bitfield.C05_bf8_cacheID _ hlt]
  by_cases hid : i < d
  · simp only [hid, if_true]
    rw [RSV.Props.C05bitfield.C05_cacheKey_keyBit _ _ (by omega)]
    cases hm : missing i
    · rw [List.contains_eq_mem, decide_eq_false_iff_not, mem_keyPositions]
      rintro (h1 | h1 | h1)
      · omega
      · omega
      · rw [Nat.add_sub_cancel_left, hm] at h1; exact absurd h1.2.2 (by decide)
    · rw [List.contains_eq_mem, decide_eq_true_eq, mem_keyPositions]
      exact Or.inr (Or.inr ⟨by omega, by omega, by rw [Nat.add_sub_cancel_left]; exact hm⟩)
  · simp only [hid, if_false]
    rw [RSV.Props.C05bitfield.C05_cacheKey_keyBit _ _ (by omega)]
    have hid' : d + (i - d) = i := by omega
    cases hm : missing i
    · rw [List.contains_eq_mem, decide_eq_false_iff_not, mem_keyPositions]
      rintro (h1 | h1 | h1)
      · rw [hid', hm] at h1; exact absurd h1.2 (by decide)
      · omega
      · omega
    · rw [List.contains_eq_mem, decide_eq_true_eq, mem_keyPositions]
      exact Or.inl ⟨by omega, by rw [hid']; exact hm⟩

/-! ### a Go map under a mutex is a lawful cache -/

/-- `map[K]V`: lookup finds the most recent store -/
def mapIface (K V : Type) [DecidableEq K] : Iface (List (K × V)) K V where
  get c k := (c.find? fun e => decide (e.1 = k)).map (·.2)
  insert c k v := (k, v) :: c

theorem C10_map_lawful (K V : Type) [DecidableEq K] : RSV.Props.C11.Iface.Lawful (mapIface K V) where
  get_insert_same := by
    intro c k v
    simp [mapIface]
  get_insert_other := by
    intro c k k' v hne
    have : ¬ k = k' := fun e => hne e.symm
    simp [mapIface, this]

/-! ### every history / schedule on one encoder -/

/-- **C10/C11 for the GF(2^8) locator cache.** Callers `tid` with erasure sets `miss tid` share one
encoder whose map `c0` is sound (e.g. empty).  After ANY schedule the map is sound, and every finished
caller holds the locator table a fresh computation gives for its own erasure set. -/
theorem C10_leo8_cache (d p : ℕ) (hp : p ≤ ceilPow2 p) (h : ceilPow2 p + d ≤ 256)
    (miss : ℕ → ℕ → Bool) (c0 : List (List ℕ × Array ℕ))
    (hc : RSV.Props.C11.SoundC (mapIface (List ℕ) (Array ℕ)) (fun k => some (locsOfKey C d p k)) c0)
    (sched : List ℕ) :
    let s := runSchedule (mapIface (List ℕ) (Array ℕ)) (fun k => some (locsOfKey C d p k))
      (fun tid => leo8Key d p (miss tid)) (c0, fun _ => .start) sched
    RSV.Props.C11.SoundC (mapIface (List ℕ) (Array ℕ)) (fun k => some (locsOfKey C d p k)) s.1 ∧
    ∀ tid r, s.2 tid = .done r → r = some (errLocs C d p (miss tid)) := by
  intro s
  obtain ⟨h1, h2⟩ := RSV.Props.C11.C11_linearizable (mapIface (List ℕ) (Array ℕ))
    (C10_map_lawful _ _) (fun k => some (locsOfKey C d p k)) (fun tid => leo8Key d p (miss tid))
    c0 hc sched
  refine ⟨h1, fun tid r hr => ?_⟩
  rw [h2 tid r hr, C10_leo8_value_of_key C d p (miss tid) hp h]

/-- the empty map is sound -/
theorem C10_leo8_empty_sound (d p : ℕ) :
    RSV.Props.C11.SoundC (mapIface (List ℕ) (Array ℕ)) (fun k => some (locsOfKey C d p k)) [] := by
  intro k v hget
  simp [mapIface] at hget

/-! ### non-vacuity -/

-- 4 data + 2 parity, data shard 1 and parity shard 0 missing: key bits 0 (parity 0) and 2 + 1
example : keyPositions 4 2 (fun i => i = 1 || i = 4) = [0, 3] := by decide +kernel
example : (leo8Key 4 2 (fun i => i = 1 || i = 4)).take 2 = [9, 0] := by decide +kernel
-- a different erasure set has a different key
example : leo8Key 4 2 (fun i => i = 1 || i = 4) ≠ leo8Key 4 2 (fun i => i = 1) := by decide +kernel
-- the side conditions are satisfiable
example : (2 : ℕ) ≤ ceilPow2 2 ∧ ceilPow2 2 + 4 ≤ 256 := by decide +kernel
-- two callers with different erasure sets and one with the first set again, interleaved: all three finish
-- with their own table (instance of the theorem; the premises hold)
example (C : Ctx) (sched : List ℕ) :
    let miss : ℕ → ℕ → Bool := fun tid i => if tid = 1 then i = 1 else (i = 1 || i = 4)
    let s := runSchedule (mapIface (List ℕ) (Array ℕ)) (fun k => some (locsOfKey C 4 2 k))
      (fun tid => leo8Key 4 2 (miss tid)) ([], fun _ => .start) sched
    ∀ tid r, s.2 tid = .done r → r = some (errLocs C 4 2 (miss tid)) :=
  (C10_leo8_cache C 4 2 (by decide +kernel) (by decide +kernel) _ [] (C10_leo8_empty_sound C 4 2) sched).2

end RSV.Props.C10leo

#print axioms RSV.Props.C10leo.mem_keyPositions
#print axioms RSV.Props.C10leo.C10_leo8_key_determines
#print axioms RSV.Props.C10leo.C10_leo8_value_of_key
#print axioms RSV.Props.C10leo.C10_map_lawful
#print axioms RSV.Props.C10leo.C10_leo8_cache
#print axioms RSV.Props.C10leo.C10_leo8_empty_sound
