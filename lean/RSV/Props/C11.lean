import RSV.Proofs.Memo
import RSV.Props.C10

/-!
# C11 — concurrent callers sharing the inversion cache (lock-atomic interleavings)

Model: `RSV.Model.Memo.conStep` / `runSchedule`.  Every caller does a lookup under the read lock,
on a miss computes the pure function `f` of its key outside any lock, then inserts under the
write lock; a schedule is an arbitrary list of thread ids, every step of a thread being atomic.
(Data races *inside* a critical section are outside this model — they are the business of
`go test -race` in the harness.)

* `C11_linearizable`: for every schedule the cache stays sound and every finished caller holds
  `f (its key)` — exactly what it would return when run alone;
* `C11_progress`: a caller scheduled twice has finished;
* `C11_tree_lawful` / `C11_tree_conservative`: the inversion tree restricted to the keys the
  package uses (strictly increasing, non-empty) is a lawful cache; with the cache possibly
  disabled and the empty key allowed it still satisfies the weaker law `Conservative`, which is
  all `C11_linearizable'` needs;
* `C11_matrix`: the instance for the matrix codec — `f key = invert (sub-matrix selected by key)`.
-/

namespace RSV.Props.C11
open RSV.Model RSV.Model.Memo

section Abstract
variable {C K V : Type}

/-- abstract cache laws -/
structure Iface.Lawful (I : Iface C K V) : Prop where
  get_insert_same : ∀ c k v, I.get (I.insert c k v) k = some v
  get_insert_other : ∀ c k k' v, k' ≠ k → I.get (I.insert c k v) k' = I.get c k'

/-- the weaker law that suffices: whatever a lookup finds after an insertion is the inserted
value under the inserted key, or was there before.  (A disabled cache satisfies it; so does a
cache that refuses some insertions.) -/
def Iface.Conservative (I : Iface C K V) : Prop :=
  ∀ c k v k' v', I.get (I.insert c k v) k' = some v' → (k' = k ∧ v' = v) ∨ I.get c k' = some v'

theorem Iface.Lawful.conservative {I : Iface C K V} (h : Iface.Lawful I) : Iface.Conservative I := by
  intro c k v k' v' hget
  by_cases hk : k' = k
  · subst hk
    rw [h.get_insert_same] at hget
    exact Or.inl ⟨rfl, (Option.some_injective _ hget).symm⟩
  · rw [h.get_insert_other c k k' v hk] at hget
    exact Or.inr hget

/-- every cached entry is the value of the pure function at its key -/
def SoundC (I : Iface C K V) (f : K → Option V) (c : C) : Prop :=
  ∀ k v, I.get c k = some v → f k = some v

/-- every caller that has computed or finished holds `f (its key)` -/
def PhaseOK (f : K → Option V) (keys : ℕ → K) (ph : ℕ → Phase V) : Prop :=
  ∀ tid, match ph tid with
    | .start => True
    | .computed v => v = f (keys tid)
    | .done r => r = f (keys tid)

theorem phaseOK_setPhase {f : K → Option V} {keys : ℕ → K} {ph : ℕ → Phase V}
    (h : PhaseOK f keys ph) (tid : ℕ) (x : Phase V)
    (hx : match x with
      | .start => True
      | .computed v => v = f (keys tid)
      | .done r => r = f (keys tid)) :
    PhaseOK f keys (setPhase ph tid x) := by
  intro t
  unfold setPhase
  by_cases ht : t = tid
  · subst ht; rw [if_pos rfl]; exact hx
  · rw [if_neg ht]; exact h t

/-- one atomic step keeps the invariant -/
theorem conStep_inv (I : Iface C K V) (hI : Iface.Conservative I) (f : K → Option V) (keys : ℕ → K)
    (s : C × (ℕ → Phase V)) (hc : SoundC I f s.1) (hp : PhaseOK f keys s.2) (tid : ℕ) :
    SoundC I f (conStep I f keys s tid).1 ∧ PhaseOK f keys (conStep I f keys s tid).2 := by
  have hpt := hp tid
  unfold conStep
  cases hph : s.2 tid with
  | start =>
    simp only []
    cases hget : I.get s.1 (keys tid) with
    | some v =>
      exact ⟨hc, phaseOK_setPhase hp tid _ (hc _ _ hget).symm⟩
    | none =>
      exact ⟨hc, phaseOK_setPhase hp tid _ rfl⟩
  | computed ov =>
    rw [hph] at hpt
    cases ov with
    | none => exact ⟨hc, phaseOK_setPhase hp tid _ hpt⟩
    | some v =>
      refine ⟨?_, phaseOK_setPhase hp tid _ hpt⟩
      intro k' v' hget
      rcases hI _ _ _ _ _ hget with ⟨rfl, rfl⟩ | hold
      · exact hpt.symm
      · exact hc _ _ hold
  | done r => exact ⟨hc, hp⟩

theorem runSchedule_inv (I : Iface C K V) (hI : Iface.Conservative I) (f : K → Option V)
    (keys : ℕ → K) (sched : List ℕ) : ∀ (s : C × (ℕ → Phase V)),
    SoundC I f s.1 → PhaseOK f keys s.2 →
    SoundC I f (runSchedule I f keys s sched).1 ∧ PhaseOK f keys (runSchedule I f keys s sched).2 := by
  induction sched with
  | nil => intro s hc hp; exact ⟨hc, hp⟩
  | cons tid rest ih =>
    intro s hc hp
    obtain ⟨hc', hp'⟩ := conStep_inv I hI f keys s hc hp tid
    exact ih _ hc' hp'

/-- **C11 (linearizability), from the weak law.** -/
theorem C11_linearizable' (I : Iface C K V) (hI : Iface.Conservative I) (f : K → Option V)
    (keys : ℕ → K) (c0 : C) (hc : SoundC I f c0) (sched : List ℕ) :
    let s := runSchedule I f keys (c0, fun _ => .start) sched
    SoundC I f s.1 ∧ ∀ tid r, s.2 tid = .done r → r = f (keys tid) := by
  intro s
  obtain ⟨h1, h2⟩ := runSchedule_inv I hI f keys sched (c0, fun _ => .start) hc (fun _ => trivial)
  refine ⟨h1, fun tid r hr => ?_⟩
  have := h2 tid
  rw [show (runSchedule I f keys (c0, fun _ => .start) sched).2 tid = .done r from hr] at this
  exact this

/-- **C11 (linearizability).** For EVERY schedule — any interleaving of any number of callers —
the cache stays sound and every finished caller holds exactly `f (its key)`: what it would
return run alone. -/
theorem C11_linearizable (I : Iface C K V) (hI : Iface.Lawful I) (f : K → Option V)
    (keys : ℕ → K) (c0 : C) (hc : SoundC I f c0) (sched : List ℕ) :
    let s := runSchedule I f keys (c0, fun _ => .start) sched
    SoundC I f s.1 ∧ ∀ tid r, s.2 tid = .done r → r = f (keys tid) :=
  C11_linearizable' I hI.conservative f keys c0 hc sched

/-! ### progress -/

/-- how far a caller got -/
def rank : Phase V → ℕ
  | .start => 0
  | .computed _ => 1
  | .done _ => 2

theorem rank_le_two (x : Phase V) : rank x ≤ 2 := by cases x <;> simp [rank]

theorem conStep_other (I : Iface C K V) (f : K → Option V) (keys : ℕ → K)
    (s : C × (ℕ → Phase V)) (tid t : ℕ) (h : t ≠ tid) : (conStep I f keys s tid).2 t = s.2 t := by
  unfold conStep
  cases s.2 tid with
  | start =>
    simp only []
    cases I.get s.1 (keys tid) <;> simp [setPhase, h]
  | computed ov => cases ov <;> simp [setPhase, h]
  | done r => rfl

theorem conStep_self (I : Iface C K V) (f : K → Option V) (keys : ℕ → K)
    (s : C × (ℕ → Phase V)) (tid : ℕ) :
    min 2 (rank (s.2 tid) + 1) ≤ rank ((conStep I f keys s tid).2 tid) := by
  unfold conStep
  cases hph : s.2 tid with
  | start =>
    simp only []
    cases I.get s.1 (keys tid) <;> simp [setPhase, rank]
  | computed ov => cases ov <;> simp [setPhase, rank]
  | done r => simp [rank, hph]

theorem runSchedule_rank (I : Iface C K V) (f : K → Option V) (keys : ℕ → K) (tid : ℕ)
    (sched : List ℕ) : ∀ (s : C × (ℕ → Phase V)),
    min 2 (rank (s.2 tid) + sched.count tid) ≤ rank ((runSchedule I f keys s sched).2 tid) := by
  induction sched with
  | nil => intro s; simp [runSchedule]
  | cons a rest ih =>
    intro s
    have h := ih (conStep I f keys s a)
    show _ ≤ rank ((runSchedule I f keys (conStep I f keys s a) rest).2 tid)
    by_cases ha : a = tid
    · subst ha
      have h1 := conStep_self I f keys s a
      rw [List.count_cons_self]
      omega
    · have h1 := conStep_other I f keys s a tid (fun e => ha e.symm)
      rw [List.count_cons_of_ne ha]
      rw [h1] at h
      exact h

/-- **C11 (progress).** Every caller that is scheduled at least twice has finished: one lookup
and at most one insertion. -/
theorem C11_progress (I : Iface C K V) (f : K → Option V) (keys : ℕ → K) (c0 : C)
    (sched : List ℕ) (tid : ℕ) (h : 2 ≤ sched.count tid) :
    ∃ r, (runSchedule I f keys (c0, fun _ => .start) sched).2 tid = .done r := by
  have h1 := runSchedule_rank I f keys tid sched (c0, fun _ => .start)
  cases hph : (runSchedule I f keys (c0, fun _ => .start) sched).2 tid with
  | done r => exact ⟨r, rfl⟩
  | start => rw [hph] at h1; simp only [rank] at h1; omega
  | computed v => rw [hph] at h1; simp only [rank] at h1; omega

/-- both together: a caller scheduled at least twice in ANY interleaving ends up with `f (its key)` -/
theorem C11_answer (I : Iface C K V) (hI : Iface.Conservative I) (f : K → Option V) (keys : ℕ → K)
    (c0 : C) (hc : SoundC I f c0) (sched : List ℕ) (tid : ℕ) (h : 2 ≤ sched.count tid) :
    (runSchedule I f keys (c0, fun _ => .start) sched).2 tid = .done (f (keys tid)) := by
  obtain ⟨r, hr⟩ := C11_progress I f keys c0 sched tid h
  rw [hr, (C11_linearizable' I hI f keys c0 hc sched).2 tid r hr]

end Abstract

/-! ### the inversion tree is such a cache -/
section TreeInstance
variable {V : Type}

/-- the keys the package passes to `InsertInvertedMatrix`: non-empty, strictly increasing -/
def IncKey : Type := {k : List ℕ // k ≠ [] ∧ StrictInc k 0}

/-- the tree of an encoder with the cache enabled, on the package's keys.
`Tree.insert (some t) k v` is always `some _` (`treeIface_insert`). -/
def treeIface (V : Type) : Iface (Memo.Tree V) IncKey V where
  get t k := Memo.Tree.get (some t) k.1
  insert t k v := (Memo.Tree.insert (some t) k.1 v).getD t

theorem treeIface_insert (t : Memo.Tree V) (k : IncKey) (v : V) :
    Memo.Tree.insert (some t) k.1 v = some ((treeIface V).insert t k v) := by
  obtain ⟨k, hk, _⟩ := k
  cases k with
  | nil => exact absurd rfl hk
  | cons i r => rfl

/-- **the inversion tree is a lawful cache on strictly increasing non-empty keys** -/
theorem C11_tree_lawful : Iface.Lawful (treeIface V) where
  get_insert_same := by
    intro t k v
    show Memo.Tree.get (some ((treeIface V).insert t k v)) k.1 = some v
    rw [← treeIface_insert]
    exact Memo.Tree.get_insert_same t k.1 k.2.1 v
  get_insert_other := by
    intro t k k' v hne
    show Memo.Tree.get (some ((treeIface V).insert t k v)) k'.1 = Memo.Tree.get (some t) k'.1
    rw [← treeIface_insert]
    exact Memo.Tree.get_insert_other (some t) k.1 k'.1 k.2.2 k'.2.2
      (fun e => hne (Subtype.ext e.symm)) v

/-- the same two laws with the keys as hypotheses instead of a subtype -/
theorem C11_tree_laws (t : Memo.Tree V) (k k' : List ℕ) (v : V) (hk : k ≠ [])
    (hinc : StrictInc k 0) (hinc' : StrictInc k' 0) :
    Memo.Tree.get (Memo.Tree.insert (some t) k v) k = some v ∧
    (k' ≠ k → Memo.Tree.get (Memo.Tree.insert (some t) k v) k' = Memo.Tree.get (some t) k') :=
  ⟨Memo.Tree.get_insert_same t k hk v,
   fun hne => Memo.Tree.get_insert_other (some t) k k' hinc hinc' (fun e => hne e.symm) v⟩

/-- all strictly increasing keys, the empty one included -/
def IncKey0 : Type := {k : List ℕ // StrictInc k 0}

/-- the tree exactly as the encoder holds it: possibly disabled (`none`), the empty key allowed -/
def optTreeIface (V : Type) : Iface (Option (Memo.Tree V)) IncKey0 V where
  get t k := Memo.Tree.get t k.1
  insert t k v := Memo.Tree.insert t k.1 v

/-- enabled or disabled, with or without the empty key: the tree satisfies the weak law -/
theorem C11_tree_conservative : Iface.Conservative (optTreeIface V) := by
  intro t k v k' v' hget
  rcases Memo.Tree.get_insert_cases t k.1 k'.1 k.2 k'.2 v v' hget with ⟨h1, -, h3⟩ | h
  · exact Or.inl ⟨Subtype.ext h1, h3⟩
  · exact Or.inr h

end TreeInstance

/-! ### the matrix codec instance -/
section Matrix
variable {F : Type} [Field F] [DecidableEq F] {d p : ℕ}

/-- the key of a caller holding the presence pattern `present` -/
def keyOf (d : ℕ) {n : ℕ} (present : Fin n → Bool) : IncKey0 :=
  ⟨cacheKey present d, cacheKey_strictInc present d⟩

/-- the soundness invariant of `RSV.Props.C10` follows from the abstract one -/
theorem soundC_new (A : Mat F p d) :
    SoundC (optTreeIface (Mat F d d)) (fun k => invert (subOfKey A k.1)) (some (newTree d)) := by
  intro k v hget
  obtain ⟨k, hk⟩ := k
  cases k with
  | nil =>
    have hv : v = identity d := (Option.some_injective _ hget).symm
    show invert (subOfKey A []) = some v
    rw [subOfKey_nil, hv]
    exact invert_identity
  | cons i r =>
    have : Memo.Tree.get (some (newTree (F := F) d)) (i :: r) = none := Node.get_leaf _ _ _
    have hget' : Memo.Tree.get (some (newTree (F := F) d)) (i :: r) = some v := hget
    rw [this] at hget'
    cases hget'

/-- **C11 for the matrix codec.** Any number of goroutines call `Reconstruct*` on one encoder
(cache enabled and fresh, or disabled), caller `tid` holding the presence pattern `present tid`
with at least `d` present shards.  In every lock-atomic interleaving every caller that finished
its lookup/insert protocol holds exactly `invert` of the sub-matrix its own pattern selects —
what `reconstruct` computes on a cache-free encoder — and the tree stays sound. -/
theorem C11_matrix (A : Mat F p d) (t0 : Option (Memo.Tree (Mat F d d)))
    (ht0 : t0 = some (newTree d) ∨ t0 = none)
    (present : ℕ → Fin (d + p) → Bool) (hpres : ∀ tid, d ≤ countTrue (present tid))
    (sched : List ℕ) :
    let I := optTreeIface (Mat F d d)
    let s := runSchedule I (fun k => invert (subOfKey A k.1)) (fun tid => keyOf d (present tid))
      (t0, fun _ => .start) sched
    (∀ tid r, s.2 tid = .done r → r = invert (subMat A (present tid))) ∧
    (∀ tid, 2 ≤ sched.count tid → s.2 tid = .done (invert (subMat A (present tid)))) := by
  intro I s
  have hc : SoundC I (fun k => invert (subOfKey A k.1)) t0 := by
    rcases ht0 with rfl | rfl
    · exact soundC_new A
    · intro k v hget; cases hget
  have hkey : ∀ tid, invert (subOfKey A (keyOf d (present tid)).1) = invert (subMat A (present tid)) :=
    fun tid => by rw [subMat_eq_subOfKey A (present tid) (hpres tid)]; rfl
  have hlin := C11_linearizable' I C11_tree_conservative (fun k => invert (subOfKey A k.1))
    (fun tid => keyOf d (present tid)) t0 hc sched
  refine ⟨fun tid r hr => ?_, fun tid h => ?_⟩
  · exact (hlin.2 tid r hr).trans (hkey tid)
  · have hans := C11_answer I C11_tree_conservative (fun k => invert (subOfKey A k.1))
      (fun tid => keyOf d (present tid)) t0 hc sched tid h
    rw [← hkey tid]
    exact hans

/-- the abstract invariant implies the soundness invariant of `RSV.Props.C10` -/
theorem sound_of_soundC (A : Mat F p d) (t : Option (Memo.Tree (Mat F d d)))
    (h : SoundC (optTreeIface (Mat F d d)) (fun k => invert (subOfKey A k.1)) t) :
    RSV.Props.C10.Sound A t := by
  intro present hd dec hget
  rw [subMat_eq_subOfKey A present hd]
  exact h (keyOf d present) dec hget

/-- after ANY interleaving of concurrent callers the tree is sound in the sense of C10: every
later call (sequential history) on that encoder returns the cache-free answer -/
theorem C11_matrix_sound {len : ℕ} (A : Mat F p d) (t0 : Option (Memo.Tree (Mat F d d)))
    (ht0 : t0 = some (newTree d) ∨ t0 = none)
    (keys : ℕ → IncKey0) (sched : List ℕ)
    (hist : List ((Fin (d + p) → Option (Shard F len)) × ReconMode)) :
    (runHistory A (runSchedule (optTreeIface (Mat F d d)) (fun k => invert (subOfKey A k.1)) keys
        (t0, fun _ => .start) sched).1 hist).1 =
      hist.map (fun (sh, mode) => reconstruct A sh mode) := by
  have hc : SoundC (optTreeIface (Mat F d d)) (fun k => invert (subOfKey A k.1)) t0 := by
    rcases ht0 with rfl | rfl
    · exact soundC_new A
    · intro k v hget; cases hget
  have hlin := C11_linearizable' (optTreeIface (Mat F d d)) C11_tree_conservative
    (fun k => invert (subOfKey A k.1)) keys t0 hc sched
  exact RSV.Props.C10.C10_matrix A _ (sound_of_soundC A _ hlin.1) hist

end Matrix

/-! ### non-vacuity -/
section Example

/-- a toy cache: the last inserted pair -/
def oneSlot : Iface (Option (ℕ × ℕ)) ℕ ℕ where
  get c k := match c with
    | some (k', v) => if k = k' then some v else none
    | none => none
  insert _ k v := some (k, v)

/-- the answer a caller holds, if it has finished -/
def answer {V : Type} : Phase V → Option (Option V)
  | .done r => some r
  | _ => none

theorem answer_eq_some {V : Type} (x : Phase V) (r : Option V) : answer x = some r ↔ x = .done r := by
  cases x <;> simp [answer]

/-- two callers with the same key, schedule `[0,1,0,1]`: both look up (miss), both compute, both
insert; both finish with `f key` -/
example :
    (runSchedule oneSlot (fun k => some (k * k)) (fun _ => 3) (none, fun _ => .start) [0, 1, 0, 1]).1
        = some (3, 9) ∧
    answer ((runSchedule oneSlot (fun k => some (k * k)) (fun _ => 3) (none, fun _ => .start)
        [0, 1, 0, 1]).2 0) = some (some 9) ∧
    answer ((runSchedule oneSlot (fun k => some (k * k)) (fun _ => 3) (none, fun _ => .start)
        [0, 1, 0, 1]).2 1) = some (some 9) := by
  decide

/-- schedule `[0,0,1]`: caller 0 misses, inserts; caller 1 hits and is done after ONE step -/
example :
    answer ((runSchedule oneSlot (fun k => some (k * k)) (fun _ => 3) (none, fun _ => .start)
        [0, 0, 1]).2 1) = some (some 9) := by
  decide

def exKeys : ℕ → IncKey := fun tid => if tid = 2 then ⟨[2], by decide⟩ else ⟨[1, 3], by decide⟩

/-- the tree instance on a concrete schedule: callers 0 and 1 share key `[1,3]`, caller 2 has `[2]` -/
example :
    (treeIface ℕ).get (runSchedule (treeIface ℕ) (fun k => some k.1.sum) exKeys
        (⟨Node.empty⟩, fun _ => .start) [0, 1, 2, 0, 1, 2]).1 ⟨[1, 3], by decide⟩ = some 4 ∧
    (treeIface ℕ).get (runSchedule (treeIface ℕ) (fun k => some k.1.sum) exKeys
        (⟨Node.empty⟩, fun _ => .start) [0, 1, 2, 0, 1, 2]).1 ⟨[2], by decide⟩ = some 2 ∧
    answer ((runSchedule (treeIface ℕ) (fun k => some k.1.sum) exKeys
        (⟨Node.empty⟩, fun _ => .start) [0, 1, 2, 0, 1, 2]).2 1) = some (some 4) := by
  decide

/-- the hypotheses of `C11_linearizable` are satisfiable for the tree with a non-trivial `f` -/
example (sched : List ℕ) (keys : ℕ → IncKey) :
    let s := runSchedule (treeIface ℕ) (fun k => some k.1.sum) keys (⟨Node.empty⟩, fun _ => .start) sched
    ∀ tid r, s.2 tid = .done r → r = some (keys tid).1.sum :=
  (C11_linearizable (treeIface ℕ) C11_tree_lawful _ keys ⟨Node.empty⟩
    (by intro k v h
        have : Memo.Tree.get (some (⟨Node.empty⟩ : Memo.Tree ℕ)) k.1 = none := by
          obtain ⟨k, hk, _⟩ := k
          cases k with
          | nil => exact absurd rfl hk
          | cons i r => exact Node.get_empty _ _
        have h' : Memo.Tree.get (some (⟨Node.empty⟩ : Memo.Tree ℕ)) k.1 = some v := h
        rw [this] at h'; cases h') sched).2

end Example

end RSV.Props.C11

#print axioms RSV.Props.C11.Iface.Lawful.conservative
#print axioms RSV.Props.C11.conStep_inv
#print axioms RSV.Props.C11.C11_linearizable'
#print axioms RSV.Props.C11.C11_linearizable
#print axioms RSV.Props.C11.C11_progress
#print axioms RSV.Props.C11.C11_answer
#print axioms RSV.Props.C11.treeIface_insert
#print axioms RSV.Props.C11.C11_tree_lawful
#print axioms RSV.Props.C11.C11_tree_laws
#print axioms RSV.Props.C11.C11_tree_conservative
#print axioms RSV.Props.C11.soundC_new
#print axioms RSV.Props.C11.C11_matrix
#print axioms RSV.Props.C11.sound_of_soundC
#print axioms RSV.Props.C11.C11_matrix_sound
#print axioms RSV.Props.C11.runSchedule_inv
#print axioms RSV.Props.C11.runSchedule_rank
