import RSV.Props.C11
import RSV.Props.C10leo
/-! C11 umbrella: lock-atomic interleavings of callers sharing the inversion tree (`RSV.Props.C11`) and the
Leopard GF(2^8) error-locator map (`RSV.Props.C10leo.C10_leo8_cache`). -/
