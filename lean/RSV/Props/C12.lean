import RSV.Proofs.Columns

/-!
# C12 — `EncodeIdx` in any order, and `Update`, equal one-shot `Encode`

`encodeIdxStep A par c s` is one `EncodeIdx(s, c, par)` call; a sequence of calls is a `foldl` over
the list of shard indices.  `updateSpec` is `Update`.

* `C12_idx_any_order` — from zeroed parity, every data shard exactly once in any order gives the
  parity of `Encode`;
* `C12_idx_partial` — after any duplicate-free partial delivery the parity is the encoding of the
  data with the undelivered shards zeroed;
* `C12_idx_general` — the general accumulator form (any start parity, duplicates allowed);
* `C12_update`, `C12_update_none` — `Update` moves the parity to that of the updated data set.
-/

namespace RSV.Props.C12
open RSV.Model

variable {F : Type} [Field F] {d p len : ℕ}

/-- general form: any starting parity, any list of indices (duplicates allowed): byte `k` of
parity `r` grows by the list sum of `A r c * (data c)[k]` -/
theorem C12_idx_general (A : Mat F p d) (data : Fin d → Shard F len) (order : List (Fin d))
    (par0 : Fin p → Shard F len) (r : Fin p) (k : Fin len) :
    ((order.foldl (fun par c => encodeIdxStep A par c (data c)) par0) r)[k]
      = (par0 r)[k] + (order.map fun c => A.get r c * (data c)[k]).sum :=
  foldl_encodeIdxStep_getElem A data order par0 r k

/-- partial delivery: after the shards in `order` (no duplicates) the parity is the encoding of
the data with the undelivered shards zeroed — so progressive encoding is well defined at every
stage -/
theorem C12_idx_partial (A : Mat F p d) (data : Fin d → Shard F len) (order : List (Fin d))
    (hnd : order.Nodup) :
    order.foldl (fun par c => encodeIdxStep A par c (data c)) (fun _ => Vector.replicate len 0)
      = encodeSpec A (fun c => if c ∈ order then data c else Vector.replicate len 0) := by
  refine parity_ext fun r k => ?_
  rw [foldl_encodeIdxStep_nodup A data order hnd, encodeSpec_getElem]
  simp only [Fin.getElem_fin, Vector.getElem_replicate, zero_add]
  refine Finset.sum_congr rfl fun c _ => ?_
  split <;> simp

/-- non-vacuity: duplicate-free strict sub-lists exist (`[]`, and `[0]` of two shards) -/
example : ([] : List (Fin 2)).Nodup ∧ ([0] : List (Fin 2)).Nodup := by decide

/-- starting from zeroed parity, feeding every data shard exactly once in ANY order gives the
parity of `Encode` -/
theorem C12_idx_any_order (A : Mat F p d) (data : Fin d → Shard F len) (order : List (Fin d))
    (hperm : order.Perm (List.finRange d)) :
    order.foldl (fun par c => encodeIdxStep A par c (data c)) (fun _ => Vector.replicate len 0)
      = encodeSpec A data := by
  rw [C12_idx_partial A data order (hperm.nodup_iff.mpr (List.nodup_finRange d))]
  congr 1
  funext c
  rw [if_pos (hperm.mem_iff.mpr (List.mem_finRange c))]

/-- non-vacuity: the natural order and the reversed order are both permutations of
`List.finRange d` -/
example (d : ℕ) : (List.finRange d).Perm (List.finRange d) ∧
    (List.finRange d).reverse.Perm (List.finRange d) :=
  ⟨List.Perm.refl _, List.reverse_perm _⟩

/-- Update: for any set of changed shards (`newData c = some s`), with old copies present for the
changed ones, parity becomes the parity of the updated data set; unchanged shards may be absent
(`none`), and whatever is supplied as the old copy of an unchanged shard is ignored -/
theorem C12_update (A : Mat F p d) (dataOld : Fin d → Shard F len)
    (old : Fin d → Option (Shard F len)) (newData : Fin d → Option (Shard F len))
    (hold : ∀ c, (newData c).isSome → old c = some (dataOld c)) :
    updateSpec A old (encodeSpec A dataOld) newData
      = encodeSpec A (fun c => (newData c).getD (dataOld c)) := by
  refine parity_ext fun r k => ?_
  rw [updateSpec_getElem, encodeSpec_getElem, encodeSpec_getElem, ← Finset.sum_add_distrib]
  refine Finset.sum_congr rfl fun c _ => ?_
  rcases hn : newData c with _ | nw
  · rw [updTerm_none A old newData r k c hn]; simp
  · rw [updTerm_some A old newData r k c nw (dataOld c) hn (hold c (by simp [hn]))]
    simp only [Option.getD_some]
    ring

/-- the statement in the form with the (redundant) hypothesis that every supplied old copy is the
real one -/
theorem C12_update' (A : Mat F p d) (dataOld : Fin d → Shard F len)
    (old : Fin d → Option (Shard F len)) (newData : Fin d → Option (Shard F len))
    (hold : ∀ c, (newData c).isSome → old c = some (dataOld c))
    (_hold' : ∀ c s, old c = some s → s = dataOld c) :
    updateSpec A old (encodeSpec A dataOld) newData
      = encodeSpec A (fun c => (newData c).getD (dataOld c)) :=
  C12_update A dataOld old newData hold

/-- non-vacuity of `C12_update`: one shard of two changed, old copy supplied for it only -/
example (dataOld : Fin 2 → Shard F len) (s : Shard F len) :
    ∃ (old newData : Fin 2 → Option (Shard F len)),
      (∀ c, (newData c).isSome → old c = some (dataOld c)) ∧
      (∀ c s, old c = some s → s = dataOld c) ∧ newData 0 = some s ∧ old 1 = none :=
  ⟨fun c => if c = 0 then some (dataOld 0) else none, fun c => if c = 0 then some s else none, by
    intro c; by_cases h : c = 0 <;> simp [h], by
    intro c s'; by_cases h : c = 0 <;> simp [h]; exact fun h => h.symm, by simp, by simp⟩

/-- Update with nothing changed is the identity on parity (any parity, any old copies) -/
theorem C12_update_none (A : Mat F p d) (old : Fin d → Option (Shard F len))
    (par : Fin p → Shard F len) :
    updateSpec A old par (fun _ => none) = par := by
  refine parity_ext fun r k => ?_
  rw [updateSpec_getElem, Finset.sum_eq_zero fun c _ => updTerm_none A old _ r k c rfl, add_zero]

end RSV.Props.C12

#print axioms RSV.Props.C12.C12_idx_general
#print axioms RSV.Props.C12.C12_idx_partial
#print axioms RSV.Props.C12.C12_idx_any_order
#print axioms RSV.Props.C12.C12_update
#print axioms RSV.Props.C12.C12_update'
#print axioms RSV.Props.C12.C12_update_none
