import RSV.Proofs.SplitJoin

/-!
# C13 — `Split` and `Join`

`RSV.Model.SJ.split` is the algorithm of `reedSolomon.Split` / `leopardFF8.Split` /
`leopardFF16.Split` including the re-use (and clearing) of the spare capacity of the input slice;
`splitSpec` is its specification (input followed by zeros, cut into `d+p` pieces of `perShard`
bytes); `join` is `Join`.  `q` is the shard-size multiple (`1` or `64`).

* `C13_perShard` — `perShard` is a positive multiple of `q` and `d` shards hold the input;
* `C13_split_eq_spec` — L1 = L0 for every amount and content of spare capacity;
* `C13_shape`, `C13_content`, `C13_data_shards`, `C13_parity_zero`, `C13_one_shard` — what the
  specification says;
* `C13_empty` — `ErrShortData` on empty input;
* `C13_join_split` — `Join ∘ Split = id`;
* `C13_join_prefix`, `C13_join_short`, `C13_join_too_few`, `C13_join_nil_first`,
  `C13_join_reconstruct_required` — `Join` on arbitrary shards, and its error cases;
* `C13_aliased_le` — the aliasing count is within bounds.
-/

namespace RSV.Props.C13
open RSV.Model.SJ RSV.Proofs.SplitJoin

/-- perShard is a positive multiple of q and d shards hold the input -/
theorem C13_perShard (q d len : Nat) (hq : 0 < q) (hd : 0 < d) (hl : 0 < len) :
    0 < perShard q d len ∧ q ∣ perShard q d len ∧ len ≤ d * perShard q d len :=
  perShard_props q d len hq hd hl

/-- L1 = L0: for every amount and content of spare capacity, `Split` returns exactly the
specification -/
theorem C13_split_eq_spec (q d p : Nat) (hq : 0 < q) (hd : 0 < d) (data spare : List Nat) :
    split q d p data spare = splitSpec q d p data :=
  split_eq_spec q d p hq hd data spare

/-- the input fits into the `d+p` shards (in fact into the first `d`) -/
theorem le_need (q d p : Nat) (hq : 0 < q) (hd : 0 < d) (data : List Nat) (hl : 0 < data.length) :
    data.length ≤ d * perShard q d data.length ∧
      d * perShard q d data.length ≤ (d + p) * perShard q d data.length := by
  obtain ⟨-, -, hle⟩ := perShard_props q d data.length hq hd hl
  refine ⟨hle, ?_⟩
  rw [Nat.add_mul]; omega

/-- shape of the specification: `d+p` shards, all of length `perShard` (except the documented
one-shard case) -/
theorem C13_shape (q d p : Nat) (hq : 0 < q) (hd : 0 < d) (data : List Nat) (hl : 0 < data.length)
    (h1 : ¬ (d + p = 1 ∧ (q = 1 ∨ data.length % 64 = 0))) :
    ∃ sh, splitSpec q d p data = .ok sh ∧ sh.length = d + p ∧
      ∀ s ∈ sh, s.length = perShard q d data.length := by
  obtain ⟨h2, h3⟩ := le_need q d p hq hd data hl
  refine ⟨_, splitSpec_general q d p data hl h1, chunks_length _ _ _, ?_⟩
  apply chunks_mem_length
  rw [List.length_append, length_zeros]
  omega

/-- content: the shards concatenated are the input followed only by zero bytes -/
theorem C13_content (q d p : Nat) (hq : 0 < q) (hd : 0 < d) (data : List Nat)
    (hl : 0 < data.length) (h1 : ¬ (d + p = 1 ∧ (q = 1 ∨ data.length % 64 = 0))) :
    ∃ sh, splitSpec q d p data = .ok sh ∧
      sh.flatten = data ++ zeros ((d + p) * perShard q d data.length - data.length) := by
  obtain ⟨h2, h3⟩ := le_need q d p hq hd data hl
  refine ⟨_, splitSpec_general q d p data hl h1, ?_⟩
  rw [chunks_flatten]
  apply List.take_of_length_le
  rw [List.length_append, length_zeros]
  omega

/-- the `d` data shards concatenated are the input followed by zeros -/
theorem C13_data_shards (q d p : Nat) (hq : 0 < q) (hd : 0 < d) (data : List Nat)
    (hl : 0 < data.length) (h1 : ¬ (d + p = 1 ∧ (q = 1 ∨ data.length % 64 = 0))) :
    ∃ sh, splitSpec q d p data = .ok sh ∧
      (sh.take d).flatten = data ++ zeros (d * perShard q d data.length - data.length) := by
  obtain ⟨h2, h3⟩ := le_need q d p hq hd data hl
  refine ⟨_, splitSpec_general q d p data hl h1, ?_⟩
  rw [chunks_take_prefix, chunks_flatten, List.take_append, List.take_of_length_le h2, take_zeros]
  congr 2
  omega

/-- the `p` parity shards contain only zeros -/
theorem C13_parity_zero (q d p : Nat) (hq : 0 < q) (hd : 0 < d) (data : List Nat)
    (hl : 0 < data.length) (h1 : ¬ (d + p = 1 ∧ (q = 1 ∨ data.length % 64 = 0))) :
    ∃ sh, splitSpec q d p data = .ok sh ∧
      (sh.drop d).flatten = zeros (p * perShard q d data.length) := by
  obtain ⟨h2, h3⟩ := le_need q d p hq hd data hl
  have h4 : (d + p) * perShard q d data.length
      = d * perShard q d data.length + p * perShard q d data.length := Nat.add_mul _ _ _
  refine ⟨_, splitSpec_general q d p data hl h1, ?_⟩
  rw [chunks_drop_prefix, chunks_flatten, List.drop_append, List.drop_of_length_le h2, drop_zeros,
    List.nil_append, take_zeros]
  congr 1
  omega

/-- in the one-shard case the formula of the specification also holds for the two shard-size
multiples that exist (`1`: GF(2^8) matrix codec, `64`: Leopard): the single shard is the input -/
theorem C13_one_shard (q d p : Nat) (hq : q = 1 ∨ q = 64) (data : List Nat)
    (h1 : d + p = 1 ∧ (q = 1 ∨ data.length % 64 = 0)) (hd : 0 < d) :
    [data] = chunks (perShard q d data.length) (d + p)
      (data ++ zeros ((d + p) * perShard q d data.length - data.length)) := by
  obtain ⟨hdp, hq'⟩ := h1
  have hd1 : d = 1 := by omega
  have hp0 : p = 0 := by omega
  subst hd1 hp0
  have hps : perShard q 1 data.length = data.length := by
    unfold perShard
    rcases hq with rfl | rfl
    · simp
    · have : data.length % 64 = 0 := by omega
      simp only [Nat.div_one]
      omega
  rw [hps]
  simp [chunks]

/-- empty input is rejected, whatever the capacity -/
theorem C13_empty (q d p : Nat) (data spare : List Nat) (h : data.length = 0) :
    split q d p data spare = .error .shortData := by
  simp [split, h]

/-- more generally `Join` returns the first `outSize` bytes of the concatenated data shards -/
theorem C13_join_prefix (d : Nat) (shs : List (List Nat)) (hlen : d ≤ shs.length) (outSize : Nat)
    (h : outSize ≤ ((shs.take d).flatten).length) :
    join d (shs.map some) outSize = .ok (((shs.take d).flatten).take outSize) := by
  rw [join_some d shs hlen, if_neg (by omega)]

/-- not enough data in the `d` data shards: `ErrShortData` -/
theorem C13_join_short (d : Nat) (shs : List (List Nat)) (hlen : d ≤ shs.length) (outSize : Nat)
    (h : ((shs.take d).flatten).length < outSize) :
    join d (shs.map some) outSize = .error .shortData := by
  rw [join_some d shs hlen, if_pos h]

/-- Join ∘ Split = id -/
theorem C13_join_split (q d p : Nat) (hq : 0 < q) (hd : 0 < d) (data : List Nat)
    (hl : 0 < data.length) (sh : List (List Nat)) (hs : splitSpec q d p data = .ok sh) :
    join d (sh.map some) data.length = .ok data := by
  by_cases h1 : d + p = 1 ∧ (q = 1 ∨ data.length % 64 = 0)
  · -- one shard: `sh = [data]`, `d = 1`
    have hd1 : d = 1 := by omega
    subst hd1
    unfold splitSpec at hs
    rw [if_neg (by omega), if_pos h1] at hs
    injection hs with hs
    subst hs
    rw [C13_join_prefix 1 [data] (by simp) data.length (by simp)]
    simp
  · obtain ⟨sh', hs', hlen, -⟩ := C13_shape q d p hq hd data hl h1
    obtain ⟨sh'', hs'', hfl⟩ := C13_data_shards q d p hq hd data hl h1
    rw [hs] at hs' hs''
    injection hs' with hs'
    injection hs'' with hs''
    subst hs' hs''
    rw [C13_join_prefix d sh (by omega) data.length (by rw [hfl]; simp), hfl,
      List.take_left' rfl]

/-- fewer than `d` shards: `ErrTooFewShards` -/
theorem C13_join_too_few (d : Nat) (shards : List (Option (List Nat))) (outSize : Nat)
    (h : shards.length < d) : join d shards outSize = .error .tooFewShards := by
  simp [join, h]

/-- a nil shard `i < d`, with the present shards before it holding fewer than `outSize` bytes
(sum of their lengths), gives `ErrReconstructRequired` -/
theorem C13_join_reconstruct_required (d : Nat) (shards : List (Option (List Nat)))
    (outSize : Nat) (hlen : d ≤ shards.length) (i : Nat) (hi : i < d)
    (hnone : shards[i]? = some none)
    (hlt : ((shards.take i).map fun o => (o.getD []).length).sum < outSize) :
    join d shards outSize = .error .reconstructRequired := by
  unfold join
  rw [if_neg (by omega)]
  dsimp only
  rw [scan_none outSize (shards.take d) 0 i]
  · rw [List.getElem?_take, if_pos hi]; exact hnone
  · rw [List.take_take, Nat.min_eq_left (Nat.le_of_lt hi), Nat.zero_add]
    exact hlt

/-- a nil first shard gives `ErrReconstructRequired` (for every `outSize`, even `0`) -/
theorem C13_join_nil_first (d : Nat) (shards : List (Option (List Nat))) (outSize : Nat)
    (hlen : d ≤ shards.length) (hd : 0 < d) (h0 : shards.head? = some none) :
    join d shards outSize = .error .reconstructRequired := by
  cases shards with
  | nil => simp at h0
  | cons o rest =>
    simp only [List.head?_cons, Option.some.injEq] at h0
    subst h0
    obtain ⟨d', rfl⟩ : ∃ d', d = d' + 1 := ⟨d - 1, by omega⟩
    unfold join
    rw [if_neg (by omega)]
    rfl

/-- aliasing count is within bounds -/
theorem C13_aliased_le (q d p dataLen cap : Nat) : splitAliased q d p dataLen cap ≤ d + p := by
  unfold splitAliased
  exact Nat.min_le_left _ _

/-! ## non-vacuity on concrete inputs -/

example : split 1 3 2 [1,2,3,4,5,6,7,8,9,10] [0xA5,0xA5,0xA5]
    = .ok [[1,2,3,4],[5,6,7,8],[9,10,0,0],[0,0,0,0],[0,0,0,0]] := rfl
example : split 1 3 2 [1,2,3,4,5,6,7,8,9,10] []
    = .ok [[1,2,3,4],[5,6,7,8],[9,10,0,0],[0,0,0,0],[0,0,0,0]] := rfl
example : split 1 3 2 [1,2,3,4,5,6,7,8,9,10] (List.replicate 30 0xA5)
    = .ok [[1,2,3,4],[5,6,7,8],[9,10,0,0],[0,0,0,0],[0,0,0,0]] := rfl
example : splitSpec 1 3 2 [1,2,3,4,5,6,7,8,9,10]
    = .ok [[1,2,3,4],[5,6,7,8],[9,10,0,0],[0,0,0,0],[0,0,0,0]] := rfl
example : split 1 1 0 [7,8,9] [1] = .ok [[7,8,9]] := rfl
example : split 1 3 2 [] [1,2,3] = .error .shortData := rfl
example : perShard 64 3 10 = 64 ∧ perShard 1 3 10 = 4 ∧ perShard 64 1 128 = 128 := by decide
example : join 3 ([[1,2,3,4],[5,6,7,8],[9,10,0,0],[0,0,0,0],[0,0,0,0]].map some) 10
    = .ok [1,2,3,4,5,6,7,8,9,10] := rfl
example : join 3 [some [1,2,3,4], some [5,6,7,8], none, none, some [0,0,0,0]] 8
    = .ok [1,2,3,4,5,6,7,8] := rfl
example : join 3 [some [1,2,3,4], some [5,6,7,8], none, none, some [0,0,0,0]] 9
    = .error .reconstructRequired := rfl
example : join 3 [none, some [5,6,7,8], some [9,10,0,0]] 0 = .error .reconstructRequired := rfl
example : join 3 [some [1,2,3,4], some [5,6,7,8], some [9,10,0,0]] 13 = .error .shortData := rfl
example : join 3 [some [1,2,3,4], some [5,6,7,8]] 4 = .error .tooFewShards := rfl
example : splitAliased 1 3 2 10 13 = 3 ∧ splitAliased 1 3 2 10 10 = 2 ∧
    splitAliased 1 3 2 10 40 = 5 := by decide

end RSV.Props.C13

#print axioms RSV.Props.C13.C13_perShard
#print axioms RSV.Props.C13.C13_split_eq_spec
#print axioms RSV.Props.C13.C13_shape
#print axioms RSV.Props.C13.C13_content
#print axioms RSV.Props.C13.C13_data_shards
#print axioms RSV.Props.C13.C13_parity_zero
#print axioms RSV.Props.C13.C13_one_shard
#print axioms RSV.Props.C13.C13_empty
#print axioms RSV.Props.C13.C13_join_split
#print axioms RSV.Props.C13.C13_join_prefix
#print axioms RSV.Props.C13.C13_join_short
#print axioms RSV.Props.C13.C13_join_too_few
#print axioms RSV.Props.C13.C13_join_nil_first
#print axioms RSV.Props.C13.C13_join_reconstruct_required
#print axioms RSV.Props.C13.C13_aliased_le
