import RSV.Props.C13
import RSV.Props.C13funcs
/-! C13 umbrella: Split/Join theorems and the regenerated per-shard size arithmetic of the three `Split` methods -/
