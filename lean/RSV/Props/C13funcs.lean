import RSV.Proofs.GenSplit
/-!
# C13 (code of the size computation) — `perShard` / `needTotal` of the three `Split` methods, as written now, are the model's

`RSV.Gen.ApiGo` is regenerated on every run from the Go sources.  `reedSolomon_Split_sizes`,
`leopardFF8_Split_sizes`, `leopardFF16_Split_sizes` are the PREFIX of `(*reedSolomon).Split` (reedsolomon.go),
`(*leopardFF8).Split` (leopard8.go), `(*leopardFF16).Split` (leopard.go) up to the definition of `perShard` and
`needTotal`, translated statement by statement over the length of `data` and the two receiver fields the code reads
(`dataShards`, `totalShards`; the translator rejects every other use of `data` or of the receiver, and a later
assignment to `perShard` / `needTotal`): outer `none` = panic, `some none` = the method returned before (empty input:
`ErrShortData`; the single-shard case), `some (some (perShard, needTotal))` otherwise, with Go's 64-bit wrap-around
(`shI64`) on every operation.

For EVERY `dataShards > 0`, `totalShards`, input length with `len + dataShards < 2^63` and `needTotal < 2^63` (no
wrap-around; `New` guarantees `dataShards > 0`) the values are `RSV.Model.SJ.perShard q d len` — the function the
`C13_*` theorems are about (`q = 1`, resp. `64`) — and `totalShards * perShard`, and the early returns are taken
exactly under the conditions of the model `RSV.Model.SJ.split`.
-/
namespace RSV.Props.C13funcs
open RSV RSV.Model.SJ

/-- `(*reedSolomon).Split`: `perShard = ⌈len/d⌉`, `needTotal = totalShards * perShard` -/
theorem C13f_reedSolomon_sizes (d total len : Nat) (hd : 0 < d) (h63 : len + d < 2 ^ 63)
    (hn : total * perShard 1 d len < 2 ^ 63) :
    Gen.reedSolomon_Split_sizes (d : Int) (total : Int) len =
      some (if len = 0 ∨ total = 1 then none
            else some (((perShard 1 d len : Nat) : Int), ((total * perShard 1 d len : Nat) : Int))) :=
  GenSplit.reedSolomon_Split_sizes_eq d total len hd h63 hn

/-- `(*leopardFF8).Split`: `perShard = ⌈len/d⌉` rounded up to a multiple of 64 -/
theorem C13f_leopardFF8_sizes (d total len : Nat) (hd : 0 < d) (h63 : len + d < 2 ^ 63) (ht : 0 < total)
    (hn : total * perShard 64 d len < 2 ^ 63) :
    Gen.leopardFF8_Split_sizes (d : Int) (total : Int) len =
      some (if len = 0 ∨ (total = 1 ∧ len % 64 = 0) then none
            else some (((perShard 64 d len : Nat) : Int), ((total * perShard 64 d len : Nat) : Int))) :=
  GenSplit.leopardFF8_Split_sizes_eq d total len hd h63 ht hn

/-- `(*leopardFF16).Split` -/
theorem C13f_leopardFF16_sizes (d total len : Nat) (hd : 0 < d) (h63 : len + d < 2 ^ 63) (ht : 0 < total)
    (hn : total * perShard 64 d len < 2 ^ 63) :
    Gen.leopardFF16_Split_sizes (d : Int) (total : Int) len =
      some (if len = 0 ∨ (total = 1 ∧ len % 64 = 0) then none
            else some (((perShard 64 d len : Nat) : Int), ((total * perShard 64 d len : Nat) : Int))) :=
  GenSplit.leopardFF16_Split_sizes_eq d total len hd h63 ht hn

/-! non-vacuity: the regenerated code runs -/
example : Gen.reedSolomon_Split_sizes 10 13 1001 = some (some (101, 1313)) := by decide +kernel
example : Gen.reedSolomon_Split_sizes 10 13 0 = some none := by decide +kernel
example : Gen.reedSolomon_Split_sizes 1 1 77 = some none := by decide +kernel
example : Gen.reedSolomon_Split_sizes 0 3 77 = none := by decide +kernel   -- division by zero panics
example : Gen.leopardFF8_Split_sizes 10 13 1001 = some (some (128, 1664)) := by decide +kernel
example : Gen.leopardFF8_Split_sizes 1 1 128 = some none := by decide +kernel
example : Gen.leopardFF8_Split_sizes 1 1 100 = some (some (128, 128)) := by decide +kernel
example : Gen.leopardFF16_Split_sizes 300 400 100000 = some (some (384, 153600)) := by decide +kernel
example : Gen.reedSolomon_Split_sizes 10 13 1001 = some (some (101, 1313)) :=
  C13f_reedSolomon_sizes 10 13 1001 (by decide) (by decide) (by decide)

end RSV.Props.C13funcs

#print axioms RSV.Props.C13funcs.C13f_reedSolomon_sizes
#print axioms RSV.Props.C13funcs.C13f_leopardFF8_sizes
#print axioms RSV.Props.C13funcs.C13f_leopardFF16_sizes
