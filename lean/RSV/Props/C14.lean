import RSV.Model.Streams
/-! placeholder replaced by the proved property file -/
namespace RSV.Props.C14
theorem C14_placeholder : True := trivial
end RSV.Props.C14
