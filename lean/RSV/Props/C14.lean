import RSV.Model.Streams
import RSV.Proofs.Streams
/-!
# C14 — streaming ≡ in-memory (fault-free readers and writers)

Model: `RSV.Model.St` (`RSV/Model/Streams.lean`); lemmas: `RSV/Proofs/Streams.lean`.
Fault-free reader `cleanRd data = ⟨data, none⟩`, fresh writer `cleanWr = ⟨[], none, false⟩`.
"Independent of fragmentation" lives in `readFull`: the model has no fragmentation parameter.

Column-locality of the in-memory codec (hypotheses of the loop theorems):
* `EncLocal C`: on `C.d` rows of one non-zero length `C.encode` yields `C.p` rows, and
  `C.encode (zipWith (++) b₁ b₂) = zipWith (++) (C.encode b₁) (C.encode b₂)` for two such inputs;
* `VerLocal C`: `C.verify (zipWith (++) b₁ b₂) = (C.verify b₁ && C.verify b₂)` on `C.d + C.p` rows;
* `RecOK C dataOnly want os orig L`: on every column window `[a, a+b) ⊆ [0, L)` of the present shards
  `C.reconstruct` returns rows that agree with the windows of `orig` at the wanted indices.
All three are proved for the toy codec `toy` (2 data + 1 xor parity), so none is vacuous.
-/
namespace RSV.Props.C14
open RSV.Model.St RSV.Proofs.Streams

/-! ## 1. `io.ReadFull` on a fault-free reader -/

theorem C14_readFull_clean (data : List Nat) (want : Nat) :
    readFull ⟨data, none⟩ want =
      (data.take want,
       (if want ≤ data.length then ReadOutcome.full
        else if data = [] then ReadOutcome.eof else ReadOutcome.unexpectedEOF),
       ⟨data.drop want, none⟩) := readFull_clean data want

theorem C14_readFull_clean_outcome (data : List Nat) (want : Nat) :
    ((readFull ⟨data, none⟩ want).2.1 = .full ↔ want ≤ data.length) ∧
    ((readFull ⟨data, none⟩ want).2.1 = .eof ↔ data = [] ∧ 0 < want) ∧
    ((readFull ⟨data, none⟩ want).2.1 = .unexpectedEOF ↔ data ≠ [] ∧ data.length < want) ∧
    (readFull ⟨data, none⟩ want).2.1 ≠ .error := by
  rw [readFull_clean]
  cases data with
  | nil => by_cases h : want = 0 <;> simp [h] <;> omega
  | cons x xs => by_cases h : want ≤ xs.length + 1 <;> simp [h] <;> omega

/-! ## 2. `readShards` on fault-free readers of one common remaining length -/

theorem C14_readShards_equal (B n : Nat) (hB : 0 < B) (ss : List (List Nat)) (hne : ss ≠ [])
    (hlen : ∀ s ∈ ss, s.length = n) :
    readShards (List.replicate ss.length B) (ss.map fun s => some (cleanRd s)) =
      if n = 0 then .eof (ss.map fun s => some (cleanRd (s.drop B)))
      else .ok (ss.map (List.take B)) (ss.map fun s => some (cleanRd (s.drop B))) := by
  have e : (ss.map fun s => some (cleanRd (s.drop B))) = cl (ss.map (List.drop B)) := by simp [cl]
  rw [e]
  show readShards _ (cl ss) = _
  by_cases hn : n = 0
  · subst hn; simp only [if_true]; exact readShards_cl_eof B hB ss hne hlen
  · simp only [hn, if_false]
    by_cases hBn : B ≤ n
    · exact readShards_cl_full B ss (fun s hs => by rw [hlen s hs]; exact hBn)
    · exact readShards_cl_short B n (by omega) (by omega) ss hlen

/-! ## 3. / 4. `Encode` -/

/-- **streaming Encode = in-memory Encode of the whole streams.**  Column-locality is `EncLocal`:
`C.encode` yields `C.p` rows on `C.d` rows of a common non-zero length, and commutes with row-wise
concatenation of two such inputs. -/
theorem C14_encode (C : BlockCodec) (hC : EncLocal C) (hd0 : 0 < C.d) (conc : Bool) (B L : Nat)
    (hB : 1 ≤ B) (hL : 1 ≤ L) (streams : List (List Nat)) (hd : streams.length = C.d)
    (hlen : ∀ s ∈ streams, s.length = L) :
    encode C conc B (streams.map fun s => some (cleanRd s)) (List.replicate C.p (some cleanWr)) =
      ⟨none, (C.encode streams).map fun row => some ⟨row, none, false⟩⟩ := by
  show encode C conc B (cl streams) _ = _
  have hne : streams ≠ [] := by intro h; subst h; simp at hd; omega
  have hpw : List.replicate C.p (some cleanWr) = pw (List.replicate C.p []) := by simp [pw, wrOf, cleanWr]
  have htot : L ≤ ((cl streams).filterMap id).foldl (fun m r => max m r.data.length) 0 := by
    obtain ⟨s, hs⟩ := List.exists_mem_of_ne_nil _ hne
    rw [filterMap_cl, ← hlen s hs]
    exact (foldl_max_ge _ 0).2 (cleanRd s) (List.mem_map.2 ⟨s, hs, rfl⟩)
  have hfuel : L / B + 2 ≤ ((cl streams).filterMap id).foldl (fun m r => max m r.data.length) 0 / B + 3 := by
    have := Nat.div_le_div_right (c := B) htot
    omega
  have h1 : ¬ (cl streams).length ≠ C.d := by simp [cl, hd]
  have := encodeLoop_clean C hC conc hd0 _ B L hB hL hfuel streams hd hlen (List.replicate C.p [])
    (by simp) 0
  rw [hd] at this
  simp only [encode, h1, if_false, ne_eq, hpw, this]
  rw [zipWith_nil_left C.p _ (hC.len streams L hd hL hlen)]
  simp [pw, wrOf]

/-- writer `j` has received exactly row `j` of the in-memory parity of the whole streams -/
theorem C14_encode_writer (C : BlockCodec) (hC : EncLocal C) (hd0 : 0 < C.d) (conc : Bool) (B L : Nat)
    (hB : 1 ≤ B) (hL : 1 ≤ L) (streams : List (List Nat)) (hd : streams.length = C.d)
    (hlen : ∀ s ∈ streams, s.length = L) (j : Nat) (hj : j < C.p) :
    (encode C conc B (streams.map fun s => some (cleanRd s)) (List.replicate C.p (some cleanWr))).err = none ∧
    ∃ h : j < (C.encode streams).length,
      (encode C conc B (streams.map fun s => some (cleanRd s)) (List.replicate C.p (some cleanWr))).writers[j]? =
        some (some ⟨(C.encode streams)[j], none, false⟩) := by
  rw [C14_encode C hC hd0 conc B L hB hL streams hd hlen]
  have hl := hC.len streams L hd hL hlen
  exact ⟨rfl, by omega, by simp [hl, hj]⟩

/-- all streams empty: `ErrShardNoData`, nothing written -/
theorem C14_encode_empty (C : BlockCodec) (hd0 : 0 < C.d) (conc : Bool) (B : Nat) (hB : 1 ≤ B)
    (streams : List (List Nat)) (hd : streams.length = C.d) (hlen : ∀ s ∈ streams, s.length = 0)
    (writers : List (Option Wr)) (hp : writers.length = C.p) :
    encode C conc B (streams.map fun s => some (cleanRd s)) writers = ⟨some .shardNoData, writers⟩ := by
  show encode C conc B (cl streams) _ = _
  have hne : streams ≠ [] := by intro h; subst h; simp at hd; omega
  have h1 : ¬ (cl streams).length ≠ C.d := by simp [cl, hd]
  simp only [encode, h1, if_false, hp, ne_eq, not_true_eq_false]
  rw [← hd, encodeLoop_eof C conc _ B hB streams hne hlen]
  simp


/-! ## 5. `Verify` -/

/-- **streaming Verify = in-memory Verify of the whole streams** (column-locality: `VerLocal`) -/
theorem C14_verify (C : BlockCodec) (hC : VerLocal C) (hpos : 0 < C.d + C.p) (B L : Nat)
    (hB : 1 ≤ B) (hL : 1 ≤ L) (streams : List (List Nat)) (hd : streams.length = C.d + C.p)
    (hlen : ∀ s ∈ streams, s.length = L) :
    verify C B (streams.map fun s => some (cleanRd s)) = (C.verify streams, none) := by
  show verify C B (cl streams) = _
  have hne : streams ≠ [] := by intro h; subst h; simp at hd; omega
  have htot : L ≤ ((cl streams).filterMap id).foldl (fun m r => max m r.data.length) 0 := by
    obtain ⟨s, hs⟩ := List.exists_mem_of_ne_nil _ hne
    rw [filterMap_cl, ← hlen s hs]
    exact (foldl_max_ge _ 0).2 (cleanRd s) (List.mem_map.2 ⟨s, hs, rfl⟩)
  have hfuel : L / B + 2 ≤ ((cl streams).filterMap id).foldl (fun m r => max m r.data.length) 0 / B + 3 := by
    have := Nat.div_le_div_right (c := B) htot
    omega
  have h1 : ¬ (cl streams).length ≠ C.d + C.p := by simp [cl, hd]
  have := verifyLoop_clean C hC _ B L hB hL hfuel streams hne hd hlen 0
  rw [hd] at this
  simp only [verify, h1, if_false, this]

/-- all streams empty: `ErrShardNoData` -/
theorem C14_verify_empty (C : BlockCodec) (hpos : 0 < C.d + C.p) (B : Nat) (hB : 1 ≤ B)
    (streams : List (List Nat)) (hd : streams.length = C.d + C.p) (hlen : ∀ s ∈ streams, s.length = 0) :
    verify C B (streams.map fun s => some (cleanRd s)) = (false, some .shardNoData) := by
  show verify C B (cl streams) = _
  have hne : streams ≠ [] := by intro h; subst h; simp at hd; omega
  have h1 : ¬ (cl streams).length ≠ C.d + C.p := by simp [cl, hd]
  simp only [verify, h1, if_false]
  rw [← hd, verifyLoop_eof C _ B hB streams hne hlen]
  simp

/-! ## 6. `Reconstruct` -/

/-- fresh fault-free fill writers at the wanted indices, nil elsewhere -/
def fillOf (want : List Bool) : List (Option Wr) := want.map fun w => if w then some cleanWr else none

theorem fillOf_eq : ∀ (want : List Bool), fillOf want = wsOf (maskRows want (List.replicate want.length []))
  | [] => rfl
  | w :: want => by
    have ih := fillOf_eq want
    unfold fillOf wsOf maskRows at *
    rw [List.length_cons, List.replicate_succ, List.zipWith_cons_cons, List.map_cons, List.map_cons, ih]
    cases w <;> rfl

theorem wsOf_maskRows : ∀ (want : List Bool) (rows : List (List Nat)),
    wsOf (maskRows want rows) =
      List.zipWith (fun w r => if w then some (⟨r, none, false⟩ : Wr) else none) want rows
  | [], _ => by simp [wsOf, maskRows]
  | _ :: _, [] => by simp [wsOf, maskRows]
  | w :: want, r :: rows => by
    have := wsOf_maskRows want rows
    simp only [wsOf, maskRows] at this
    cases w <;> simp [wsOf, maskRows, this, wrOf]

/-- which in-memory call is made: `ReconstructData` (`dataOnly`) iff no parity index has a fill writer -/
theorem C14_reconstruct_dataOnly (C : BlockCodec) (conc : Bool) (B : Nat) (valid : List (Option Rd))
    (fill : List (Option Wr)) (hv : valid.length = C.d + C.p) (hf : fill.length = C.d + C.p)
    (hdisj : (valid.zip fill).any (fun (v, f) => v.isSome && f.isSome) = false) :
    reconstruct C conc B valid fill =
      reconLoop C conc (!((fill.drop C.d).any Option.isSome)) B
        (((valid.filterMap id).foldl (fun m r => max m r.data.length) 0) / B + 3)
        (List.replicate (C.d + C.p) B) valid fill 0 ∧
    ((!((fill.drop C.d).any Option.isSome)) = true ↔ ∀ w ∈ fill.drop C.d, w = none) := by
  constructor
  · simp [reconstruct, hv, hf, hdisj]
  · simp only [Bool.not_eq_true', List.any_eq_false]
    constructor
    · intro h w hw
      have := h w hw
      cases w <;> simp_all
    · intro h w hw
      rw [h w hw]; simp

/-- **streaming Reconstruct = the original shards.**  `os`: the valid streams (`none` = missing), all of
length `L ≥ 1`; `want`: the indices with a (fresh, fault-free) fill writer, disjoint from the valid ones;
`RecOK`: in-memory `Reconstruct`/`ReconstructData` (the variant chosen by the model) returns, on every
column window of the present shards, the windows of the original shards `orig` at the wanted indices.
Then there is no error and fill writer `i` has received the whole original shard `orig[i]`. -/
theorem C14_reconstruct (C : BlockCodec) (conc : Bool) (B L : Nat) (hB : 1 ≤ B) (hL : 1 ≤ L)
    (os : List (Option (List Nat))) (want : List Bool) (orig : List (List Nat))
    (hos : os.length = C.d + C.p) (hwant : want.length = C.d + C.p) (horig : orig.length = C.d + C.p)
    (hrows : ∀ r ∈ orig, r.length = L) (hlen : ∀ s, some s ∈ os → s.length = L) (hex : ∃ s, some s ∈ os)
    (hdisj : ((os.map (Option.map cleanRd)).zip (fillOf want)).any (fun (v, f) => v.isSome && f.isSome) = false)
    (hrec : RecOK C (!(((fillOf want).drop C.d).any Option.isSome)) want os orig L) :
    reconstruct C conc B (os.map (Option.map cleanRd)) (fillOf want) =
      ⟨none, List.zipWith (fun w r => if w then some (⟨r, none, false⟩ : Wr) else none) want orig⟩ := by
  have h := (C14_reconstruct_dataOnly C conc B (os.map (Option.map cleanRd)) (fillOf want) (by simpa using hos)
    (by simpa [fillOf] using hwant) hdisj).1
  rw [h]
  show reconLoop C conc _ B _ _ (rdsOf os) _ 0 = _
  have htot : L ≤ ((rdsOf os).filterMap id).foldl (fun m r => max m r.data.length) 0 := by
    obtain ⟨s, hs⟩ := hex
    rw [← hlen s hs]
    apply (foldl_max_ge _ 0).2 (cleanRd s)
    rw [List.mem_filterMap]
    exact ⟨some (cleanRd s), List.mem_map.2 ⟨some s, hs, rfl⟩, rfl⟩
  have hfuel : L / B + 2 ≤ ((rdsOf os).filterMap id).foldl (fun m r => max m r.data.length) 0 / B + 3 := by
    have := Nat.div_le_div_right (c := B) htot
    omega
  have hl : LensOK B (List.replicate (C.d + C.p) B) os := hos ▸ LensOK.replicate' B os
  have := reconLoop_clean C conc (!(((fillOf want).drop C.d).any Option.isSome)) B want _ B L hB hL hfuel
    _ os hl hlen hex orig (List.replicate want.length []) (by omega) hrows (by simp) hrec 0
  rw [← fillOf_eq, zipWith_nil_left want.length orig (by omega), wsOf_maskRows] at this
  exact this

/-! ## 7. stream `Split` / `Join` -/

/-- `Split` of a fault-free source holding exactly `size ≥ 1` bytes onto `d` fresh writers: no error;
the writers receive the consecutive `perShard`-blocks of `data ++ zeros` -/
theorem C14_split (d p : Nat) (hd : 0 < d) (data : List Nat) (hs : 1 ≤ data.length) (ps : Nat)
    (hps : ps = (data.length + d - 1) / d) :
    split d p ⟨data, none⟩ (List.replicate d (some cleanWr)) data.length =
      ⟨none, (blocksOf ps d (data ++ List.replicate ((d + p) * ps - data.length) 0)).map
        fun b => some ⟨b, none, false⟩⟩ := by
  subst hps
  have hpw : List.replicate d (some cleanWr) = pw (List.replicate d []) := by simp [pw, wrOf, cleanWr]
  rw [hpw, split_clean d p hd data data.length hs (Nat.le_refl _) _ (by simp), List.take_length,
    zipWith_nil_left d _ (blocksOf_length ..)]
  simp [pw, wrOf]

/-- writer `i` gets bytes `[i*ps, (i+1)*ps)` of `data ++ zeros`; the concatenation of all writers is
`data ++ zeros (d*ps - size)` -/
theorem C14_split_blocks (d p : Nat) (hd : 0 < d) (data : List Nat) (ps : Nat)
    (hps : ps = (data.length + d - 1) / d) :
    (∀ i, i < d → (blocksOf ps d (data ++ List.replicate ((d + p) * ps - data.length) 0))[i]? =
        some (((data ++ List.replicate ((d + p) * ps - data.length) 0).drop (i * ps)).take ps)) ∧
    (blocksOf ps d (data ++ List.replicate ((d + p) * ps - data.length) 0)).flatten =
      data ++ List.replicate (d * ps - data.length) 0 := by
  refine ⟨fun i hi => blocksOf_getElem? ps d _ i hi, ?_⟩
  have hceil : data.length ≤ d * ps := hps ▸ le_mul_ceil data.length d hd
  have hmul : (d + p) * ps = d * ps + p * ps := Nat.add_mul ..
  rw [blocksOf_flatten, List.take_append, List.take_of_length_le hceil, List.take_replicate]
  congr 2
  omega

/-- `Join` of the `d` streams written by `Split` (plus any further shards) with `outSize = size`
writes exactly `data` -/
theorem C14_split_join (d p : Nat) (hd : 0 < d) (data : List Nat) (ps : Nat)
    (hps : ps = (data.length + d - 1) / d) (extra : List (Option Rd)) :
    join d cleanWr
      ((blocksOf ps d (data ++ List.replicate ((d + p) * ps - data.length) 0)).map (fun b => some (cleanRd b)) ++ extra)
      data.length = (none, ⟨data, none, false⟩) := by
  have hfl := (C14_split_blocks d p hd data ps hps).2
  have := join_clean d [] (blocksOf ps d (data ++ List.replicate ((d + p) * ps - data.length) 0))
    (blocksOf_length ..) extra data.length
  rw [hfl] at this
  simp only [cl, ← cleanWr_eq] at this
  rw [this]
  simp [wrOf]


/-! ## non-vacuity: concrete runs (2 data + 1 xor parity toy codec `toy`, block size 2) -/

example : readFull ⟨[1, 2, 3], none⟩ 2 = ([1, 2], .full, ⟨[3], none⟩) := by decide
example : readFull ⟨[1, 2, 3], none⟩ 5 = ([1, 2, 3], .unexpectedEOF, ⟨[], none⟩) := by decide
example : readFull ⟨[], none⟩ 5 = ([], .eof, ⟨[], none⟩) := by decide

/-- streams of length 5 (blocks 2+2+1), sequential and concurrent -/
example : encode toy false 2 [some (cleanRd [1, 2, 3, 4, 5]), some (cleanRd [6, 7, 8, 9, 10])] [some cleanWr]
    = ⟨none, [some ⟨[7, 5, 11, 13, 15], none, false⟩]⟩ := by decide
example : encode toy true 2 [some (cleanRd [1, 2, 3, 4, 5]), some (cleanRd [6, 7, 8, 9, 10])] [some cleanWr]
    = ⟨none, [some ⟨[7, 5, 11, 13, 15], none, false⟩]⟩ := by decide
/-- the same run as an instance of the theorem (`EncLocal toy` is proved) -/
example : encode toy false 2 [some (cleanRd [1, 2, 3, 4, 5]), some (cleanRd [6, 7, 8, 9, 10])] [some cleanWr]
    = ⟨none, (toy.encode [[1, 2, 3, 4, 5], [6, 7, 8, 9, 10]]).map fun row => some ⟨row, none, false⟩⟩ :=
  C14_encode toy toy_encLocal (by decide) false 2 5 (by decide) (by decide) [[1, 2, 3, 4, 5], [6, 7, 8, 9, 10]] rfl
    (by decide)
example : encode toy false 2 [some (cleanRd []), some (cleanRd [])] [some cleanWr]
    = ⟨some .shardNoData, [some cleanWr]⟩ := by decide
example : verify toy 2 [some (cleanRd [1, 2, 3, 4, 5]), some (cleanRd [6, 7, 8, 9, 10]), some (cleanRd [7, 5, 11, 13, 15])]
    = (true, none) := by decide
example : verify toy 2 [some (cleanRd [1, 2, 3, 4, 5]), some (cleanRd [6, 7, 8, 9, 10]), some (cleanRd [7, 5, 11, 0, 15])]
    = (false, none) := by decide
example : reconstruct toy false 2 [some (cleanRd [1, 2, 3, 4, 5]), none, some (cleanRd [7, 5, 11, 13, 15])]
      [none, some cleanWr, none]
    = ⟨none, [none, some ⟨[6, 7, 8, 9, 10], none, false⟩, none]⟩ := by decide

example : verify toy 2 [some (cleanRd [1, 2, 3, 4, 5]), some (cleanRd [6, 7, 8, 9, 10]), some (cleanRd [7, 5, 11, 13, 15])]
    = (toy.verify [[1, 2, 3, 4, 5], [6, 7, 8, 9, 10], [7, 5, 11, 13, 15]], none) :=
  C14_verify toy toy_verLocal (by decide) 2 5 (by decide) (by decide)
    [[1, 2, 3, 4, 5], [6, 7, 8, 9, 10], [7, 5, 11, 13, 15]] rfl (by decide)

/-- the `RecOK` hypothesis is satisfiable: data shard 1 missing, rebuilt from shard 0 and the parity -/
theorem toy_recOK : RecOK toy true [false, true, false]
    [some [1, 2, 3, 4, 5], none, some [7, 5, 11, 13, 15]]
    [[1, 2, 3, 4, 5], [6, 7, 8, 9, 10], [7, 5, 11, 13, 15]] 5 := by
  intro a b hb hab
  have ha : a = 0 ∨ a = 1 ∨ a = 2 ∨ a = 3 ∨ a = 4 := by omega
  have hb' : b = 1 ∨ b = 2 ∨ b = 3 ∨ b = 4 ∨ b = 5 := by omega
  rcases ha with rfl | rfl | rfl | rfl | rfl <;> rcases hb' with rfl | rfl | rfl | rfl | rfl <;>
    first
    | exact ⟨_, rfl, rfl, by decide⟩
    | omega

example : reconstruct toy false 2 [some (cleanRd [1, 2, 3, 4, 5]), none, some (cleanRd [7, 5, 11, 13, 15])]
      (fillOf [false, true, false])
    = ⟨none, [none, some ⟨[6, 7, 8, 9, 10], none, false⟩, none]⟩ :=
  C14_reconstruct toy false 2 5 (by decide) (by decide) [some [1, 2, 3, 4, 5], none, some [7, 5, 11, 13, 15]]
    [false, true, false] [[1, 2, 3, 4, 5], [6, 7, 8, 9, 10], [7, 5, 11, 13, 15]] rfl rfl rfl (by decide)
    (by intro s hs; simp at hs; rcases hs with rfl | rfl <;> rfl) ⟨_, List.mem_cons_self ..⟩ (by decide) toy_recOK

example : split 3 2 ⟨[1, 2, 3, 4, 5, 6, 7], none⟩ [some cleanWr, some cleanWr, some cleanWr] 7
    = ⟨none, [some ⟨[1, 2, 3], none, false⟩, some ⟨[4, 5, 6], none, false⟩, some ⟨[7, 0, 0], none, false⟩]⟩ := by decide
example : join 3 cleanWr [some (cleanRd [1, 2, 3]), some (cleanRd [4, 5, 6]), some (cleanRd [7, 0, 0]), none, none] 7
    = (none, ⟨[1, 2, 3, 4, 5, 6, 7], none, false⟩) := by decide

/-! ## axioms -/
#print axioms C14_readFull_clean
#print axioms C14_readFull_clean_outcome
#print axioms C14_readShards_equal
#print axioms C14_encode
#print axioms C14_encode_writer
#print axioms C14_encode_empty
#print axioms C14_verify
#print axioms C14_verify_empty
#print axioms fillOf_eq
#print axioms wsOf_maskRows
#print axioms C14_reconstruct_dataOnly
#print axioms C14_reconstruct
#print axioms C14_split
#print axioms C14_split_blocks
#print axioms C14_split_join
#print axioms toy_recOK

end RSV.Props.C14
