import RSV.Model.Streams
/-! placeholder replaced by the proved property file -/
namespace RSV.Props.C15
theorem C15_placeholder : True := trivial
end RSV.Props.C15
