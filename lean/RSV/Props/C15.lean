import RSV.Model.Streams
import RSV.Proofs.Streams
/-!
# C15 — faults and unequal streams are reported, never accepted

Model: `RSV.Model.St` (`RSV/Model/Streams.lean`); lemmas: `RSV/Proofs/Streams.lean`.
Readers: `⟨data, some k⟩` fails after delivering `k` more bytes; writers: `⟨got, some k, short⟩` accepts
`k` more bytes, then fails (`short = true`: `io.ErrShortWrite`).
Stream `Split` / `Join` return reader / writer errors unwrapped (`rawRead` / `rawWrite _`): this is a
recorded known finding; the theorems state the exact model outcome.
-/
namespace RSV.Props.C15
open RSV.Model.St RSV.Proofs.Streams

/-! ## 1. reader faults -/

/-- a reader whose fault lies inside the bytes it has to deliver reports an error -/
theorem C15_readFull_fault (data : List Nat) (k want : Nat) (hk : k < want) (hd : k ≤ data.length) :
    readFull ⟨data, some k⟩ want = (data.take k, ReadOutcome.error, ⟨data.drop k, some 0⟩) :=
  readFull_fault data k want hk hd

/-- `readShards`: reader `i` faulty with `k < min B remaining`, all lower-index readers fault-free (or
nil) with one common remaining length (so that no `ErrShardSize` precedes): `StreamReadError{Stream: i}`.
`pre` = the contents of the lower-index readers, `rs` = the higher-index readers (arbitrary). -/
theorem C15_read_error (B n : Nat) (pre : List (Option (List Nat))) (hpre : ∀ s, some s ∈ pre → s.length = n)
    (data : List Nat) (k : Nat) (hk : k < B) (hk' : k ≤ data.length) (rs : List (Option Rd)) :
    readShards (List.replicate (pre.length + 1 + rs.length) B)
      (pre.map (Option.map cleanRd) ++ some ⟨data, some k⟩ :: rs) = .err (.read pre.length) := by
  have hrep : List.replicate (pre.length + 1 + rs.length) B =
      List.replicate pre.length B ++ B :: List.replicate rs.length B := by
    rw [← List.replicate_succ, List.replicate_append_replicate]; congr 1; omega
  rw [hrep]
  exact readShardsAux_clean_then_fault B n (LensOK.replicate' B pre) hpre B _
    (by rw [readFull_fault data k B hk hk']) _ rs

/-- the same when the lower-index readers are arbitrary readers that deliver full blocks -/
theorem C15_read_error_full (B : Nat) (rp : List (Option Rd))
    (hfull : ∀ r ∈ rp, ∀ r', r = some r' → (readFull r' B).2.1 = .full)
    (data : List Nat) (k : Nat) (hk : k < B) (hk' : k ≤ data.length) (rs : List (Option Rd)) :
    readShards (List.replicate (rp.length + 1 + rs.length) B) (rp ++ some ⟨data, some k⟩ :: rs) =
      .err (.read rp.length) := by
  have hrep : List.replicate (rp.length + 1 + rs.length) B =
      List.replicate rp.length B ++ B :: List.replicate rs.length B := by
    rw [← List.replicate_succ, List.replicate_append_replicate]; congr 1; omega
  rw [hrep]
  refine readShards_full_then_fault _ rp (by simp) ?_ B _ (by rw [readFull_fault data k B hk hk']) _ rs
  intro q hq r' hr'
  have h1 : q.1 = B := List.eq_of_mem_replicate (List.of_mem_zip hq).1
  rw [h1]
  exact hfull q.2 (List.of_mem_zip hq).2 r' hr'

/-- one-block consequence: `Encode` returns `StreamReadError{Stream: i}`, nothing is written -/
theorem C15_read_error_encode (C : BlockCodec) (conc : Bool) (B n : Nat) (pre : List (Option (List Nat)))
    (hpre : ∀ s, some s ∈ pre → s.length = n)
    (data : List Nat) (k : Nat) (hk : k < B) (hk' : k ≤ data.length) (rs : List (Option Rd))
    (hd : pre.length + 1 + rs.length = C.d) (writers : List (Option Wr)) (hp : writers.length = C.p) :
    encode C conc B (pre.map (Option.map cleanRd) ++ some ⟨data, some k⟩ :: rs) writers =
      ⟨some (.read pre.length), writers⟩ := by
  have h1 : ¬ (pre.map (Option.map cleanRd) ++ some ⟨data, some k⟩ :: rs).length ≠ C.d := by
    simp; omega
  have h2 : ¬ writers.length ≠ C.p := by simp [hp]
  simp only [encode, h1, h2, if_false]
  rw [← hd]
  simp only [encodeLoop, C15_read_error B n pre hpre data k hk hk' rs]

theorem C15_read_error_verify (C : BlockCodec) (B n : Nat) (pre : List (Option (List Nat)))
    (hpre : ∀ s, some s ∈ pre → s.length = n)
    (data : List Nat) (k : Nat) (hk : k < B) (hk' : k ≤ data.length) (rs : List (Option Rd))
    (hd : pre.length + 1 + rs.length = C.d + C.p) :
    verify C B (pre.map (Option.map cleanRd) ++ some ⟨data, some k⟩ :: rs) = (false, some (.read pre.length)) := by
  have h1 : ¬ (pre.map (Option.map cleanRd) ++ some ⟨data, some k⟩ :: rs).length ≠ C.d + C.p := by
    simp; omega
  simp only [verify, h1, if_false]
  rw [← hd]
  simp only [verifyLoop, C15_read_error B n pre hpre data k hk hk' rs]

/-- one-block consequence for `Reconstruct`: `StreamReadError{Stream: i}`, nothing is written -/
theorem C15_read_error_reconstruct (C : BlockCodec) (conc : Bool) (B n : Nat) (pre : List (Option (List Nat)))
    (hpre : ∀ s, some s ∈ pre → s.length = n)
    (data : List Nat) (k : Nat) (hk : k < B) (hk' : k ≤ data.length) (rs : List (Option Rd))
    (hd : pre.length + 1 + rs.length = C.d + C.p) (fill : List (Option Wr)) (hf : fill.length = C.d + C.p)
    (hdisj : ((pre.map (Option.map cleanRd) ++ some ⟨data, some k⟩ :: rs).zip fill).any
      (fun (v, f) => v.isSome && f.isSome) = false) :
    reconstruct C conc B (pre.map (Option.map cleanRd) ++ some ⟨data, some k⟩ :: rs) fill =
      ⟨some (.read pre.length), fill⟩ := by
  have h1 : ¬ (pre.map (Option.map cleanRd) ++ some (⟨data, some k⟩ : Rd) :: rs).length ≠ C.d + C.p := by
    simp; omega
  have h2 : ¬ fill.length ≠ C.d + C.p := by simp [hf]
  simp only [reconstruct, h1, h2, if_false, hdisj, Bool.false_eq_true]
  rw [← hd]
  simp only [reconLoop, C15_read_error B n pre hpre data k hk hk' rs]

/-- whatever the lengths: `Encode` never succeeds, `Verify` never says `(true, none)` -/
theorem C15_read_error_never_ok (C : BlockCodec) (conc : Bool) (B n : Nat) (pre : List (Option (List Nat)))
    (hpre : ∀ s, some s ∈ pre → s.length = n)
    (data : List Nat) (k : Nat) (hk : k < B) (hk' : k ≤ data.length) (rs : List (Option Rd))
    (writers : List (Option Wr)) :
    (encode C conc B (pre.map (Option.map cleanRd) ++ some ⟨data, some k⟩ :: rs) writers).err ≠ none ∧
    verify C B (pre.map (Option.map cleanRd) ++ some ⟨data, some k⟩ :: rs) ≠ (true, none) := by
  have hlen : (pre.map (Option.map cleanRd) ++ some (⟨data, some k⟩ : Rd) :: rs).length = pre.length + 1 + rs.length := by
    simp; omega
  constructor
  · unfold encode
    split
    · simp
    · split
      · simp
      · rename_i h _
        rw [← Decidable.not_not.1 h, hlen]
        simp only [encodeLoop, C15_read_error B n pre hpre data k hk hk' rs]
        simp
  · unfold verify
    split
    · simp
    · rename_i h
      rw [← Decidable.not_not.1 h, hlen]
      simp only [verifyLoop, C15_read_error B n pre hpre data k hk hk' rs]
      simp

/-- the fault may lie in any block: `d` streams of one length `n`, reader `i` faulty at position `k < n`,
fault-free parity writers (having accepted `gs`), `C.encode` yields `C.p` rows: `Encode` ends with
`StreamReadError{Stream: i}` -/
theorem C15_read_error_encode_any (C : BlockCodec) (hC : EncLocal C) (conc : Bool) (B n k : Nat) (hB : 1 ≤ B)
    (hk : k < n) (pre post : List (List Nat)) (data : List Nat) (hd : pre.length + 1 + post.length = C.d)
    (hpre : ∀ s ∈ pre, s.length = n) (hpost : ∀ s ∈ post, s.length = n) (hdata : data.length = n)
    (gs : List (List Nat)) (hp : gs.length = C.p) :
    (encode C conc B ((pre.map fun s => some (cleanRd s)) ++ some ⟨data, some k⟩ :: post.map fun s => some (cleanRd s))
      (gs.map fun g => some (wrOf g))).err = some (.read pre.length) := by
  show (encode C conc B (cl pre ++ some ⟨data, some k⟩ :: cl post) (pw gs)).err = _
  have h1 : ¬ (cl pre ++ some (⟨data, some k⟩ : Rd) :: cl post).length ≠ C.d := by simp [cl]; omega
  have h2 : ¬ (pw gs).length ≠ C.p := by simp [pw, hp]
  have htot : k ≤ ((cl pre ++ some (⟨data, some k⟩ : Rd) :: cl post).filterMap id).foldl
      (fun m r => max m r.data.length) 0 := by
    have := (foldl_max_ge ((cl pre ++ some (⟨data, some k⟩ : Rd) :: cl post).filterMap id) 0).2 ⟨data, some k⟩
      (by rw [List.mem_filterMap]; exact ⟨some ⟨data, some k⟩, by simp, rfl⟩)
    simp only at this
    omega
  have hfuel := Nat.div_le_div_right (c := B) htot
  simp only [encode, h1, h2, if_false]
  rw [← hd]
  exact encodeLoop_fault C hC conc _ B n k hB hk (by omega) pre post data hd hpre hpost hdata gs hp 0

/-- `Verify` with a reader fault anywhere: the verdict is `false` (with `StreamReadError{Stream: i}`, or
without error if an inconsistent block came first) — never `(true, none)` -/
theorem C15_read_error_verify_any (C : BlockCodec) (B n k : Nat) (hB : 1 ≤ B)
    (hk : k < n) (pre post : List (List Nat)) (data : List Nat)
    (hpre : ∀ s ∈ pre, s.length = n) (hpost : ∀ s ∈ post, s.length = n) (hdata : data.length = n) :
    (verify C B ((pre.map fun s => some (cleanRd s)) ++ some ⟨data, some k⟩ :: post.map fun s => some (cleanRd s))).1
      = false := by
  show (verify C B (cl pre ++ some ⟨data, some k⟩ :: cl post)).1 = false
  unfold verify
  split
  · rfl
  · rename_i h
    have hl : (cl pre ++ some (⟨data, some k⟩ : Rd) :: cl post).length = pre.length + 1 + post.length := by
      simp [cl]; omega
    rw [← Decidable.not_not.1 h, hl]
    rcases verifyLoop_fault C
      ((((cl pre ++ some (⟨data, some k⟩ : Rd) :: cl post).filterMap id).foldl
        (fun m r => max m r.data.length) 0) / B + 3) B n k hB hk pre post data hpre hpost hdata 0 with h | h | h <;>
      rw [h]

/-! ## 2. writer faults -/

/-- sequential `writeShards`: fault-free (or nil) writers, then writer `j` whose limit `k` is below the
length of its block: `StreamWriteError{Stream: j}` (`short` = `io.ErrShortWrite`); writer `j` keeps the
`k` bytes it accepted, the later writers receive nothing -/
theorem C15_write_error_seq (pre : List (Option (List Nat))) (bpre : List (List Nat)) (hpre : pre.length = bpre.length)
    (g : List Nat) (k : Nat) (short : Bool) (b : List Nat) (hk : k < b.length)
    (rest : List (Option Wr)) (bpost : List (List Nat)) :
    writeShards false (pre.map (Option.map wrOf) ++ some ⟨g, some k, short⟩ :: rest) (bpre ++ b :: bpost) 0 [] =
      ((List.zipWith (fun og b => og.map (· ++ b)) pre bpre).map (Option.map wrOf) ++
          some ⟨g ++ b.take k, some 0, short⟩ :: rest,
       some (.write pre.length short)) :=
  writeShards_seq_limit pre bpre hpre g k short b hk rest bpost

/-- concurrent `writeShards`: every other (fault-free) writer still receives its block -/
theorem C15_write_error_conc (pre : List (Option (List Nat))) (bpre : List (List Nat)) (hpre : pre.length = bpre.length)
    (g : List Nat) (k : Nat) (short : Bool) (b : List Nat) (hk : k < b.length)
    (post : List (Option (List Nat))) (bpost : List (List Nat)) (hpost : post.length = bpost.length) :
    writeShards true (pre.map (Option.map wrOf) ++ some ⟨g, some k, short⟩ :: post.map (Option.map wrOf))
        (bpre ++ b :: bpost) 0 [] =
      ((List.zipWith (fun og b => og.map (· ++ b)) pre bpre).map (Option.map wrOf) ++
          some ⟨g ++ b.take k, some 0, short⟩ ::
          (List.zipWith (fun og b => og.map (· ++ b)) post bpost).map (Option.map wrOf),
       some (.write pre.length short)) :=
  writeShards_conc_limit pre bpre hpre g k short b hk post bpost hpost

/-- `io.ErrShortWrite` is the case `short = true` -/
theorem C15_short_write (conc : Bool) (pre : List (Option (List Nat))) (bpre : List (List Nat))
    (hpre : pre.length = bpre.length) (g : List Nat) (k : Nat) (b : List Nat) (hk : k < b.length)
    (post : List (Option (List Nat))) (bpost : List (List Nat)) (hpost : post.length = bpost.length) :
    (writeShards conc (pre.map (Option.map wrOf) ++ some ⟨g, some k, true⟩ :: post.map (Option.map wrOf))
        (bpre ++ b :: bpost) 0 []).2 = some (.write pre.length true) := by
  cases conc
  · exact congrArg Prod.snd (writeShards_seq_limit pre bpre hpre g k true b hk _ bpost)
  · exact congrArg Prod.snd (writeShards_conc_limit pre bpre hpre g k true b hk post bpost hpost)

/-- the encode loop returns the writer's error (not success): equal-length fault-free streams, parity
writer `j` (all lower ones fault-free) with a limit below the block length -/
theorem C15_write_error_encodeLoop (C : BlockCodec) (conc : Bool) (fuel B n : Nat) (hn : 0 < n)
    (ss : List (List Nat)) (hne : ss ≠ []) (hlen : ∀ s ∈ ss, s.length = n)
    (pre : List (Option (List Nat))) (g : List Nat) (k : Nat) (short : Bool) (post : List (Option (List Nat)))
    (hpar : (C.encode (ss.map (List.take B))).length = pre.length + 1 + post.length)
    (hrow : ∀ r ∈ C.encode (ss.map (List.take B)), r.length = min B n) (hk : k < min B n) (read : Nat) :
    (encodeLoop C conc (fuel + 1) (List.replicate ss.length B) (ss.map fun s => some (cleanRd s))
      (pre.map (Option.map wrOf) ++ some ⟨g, some k, short⟩ :: post.map (Option.map wrOf)) read).err =
      some (.write pre.length short) := by
  show (encodeLoop C conc (fuel + 1) _ (cl ss) _ read).err = _
  have hread : readShards (List.replicate ss.length B) (cl ss) =
      .ok (ss.map (List.take B)) (cl (ss.map (List.drop B))) := by
    by_cases hBn : B ≤ n
    · exact readShards_cl_full B ss (fun s hs => by rw [hlen s hs]; exact hBn)
    · exact readShards_cl_short B n (by omega) hn ss hlen
  have hbl : ∀ b ∈ ss.map (List.take B), b.length = min B n := by
    intro b hb
    obtain ⟨s, hs, rfl⟩ := List.mem_map.1 hb
    simp [hlen s hs]
  have hm : 0 < min B n := by omega
  have hne' : ss.map (List.take B) ≠ [] := by
    intro h; rw [List.map_eq_nil_iff] at h; exact hne h
  have hsz : shardSize (ss.map (List.take B)) = min B n := shardSize_all _ hm _ hne' hbl
  have hany : ((ss.map (List.take B)).any fun b => decide (b.length ≠ min B n)) = false := by
    rw [List.any_eq_false]
    intro b hb
    simp [hbl b hb]
  have hm0 : ¬ min B n = 0 := by omega
  -- split the parity rows
  obtain ⟨bpre, b, bpost, hsplit, hl1, hl2⟩ : ∃ bpre b bpost, C.encode (ss.map (List.take B)) = bpre ++ b :: bpost ∧
      pre.length = bpre.length ∧ post.length = bpost.length := by
    have hlt : pre.length < (C.encode (ss.map (List.take B))).length := by omega
    refine ⟨(C.encode (ss.map (List.take B))).take pre.length, (C.encode (ss.map (List.take B)))[pre.length],
      (C.encode (ss.map (List.take B))).drop (pre.length + 1), ?_, ?_, ?_⟩
    · rw [List.getElem_cons_drop, List.take_append_drop]
    · simp; omega
    · simp; omega
  have hb : k < b.length := by
    rw [hrow b (by rw [hsplit]; simp)]; exact hk
  simp only [encodeLoop, hread, hsz, hm0, if_false, hany, hsplit]
  cases conc
  · have := writeShards_seq_limit pre bpre hl1 g k short b hb (wsOf post) bpost
    simp only [wsOf] at this
    simp [this]
  · have := writeShards_conc_limit pre bpre hl1 g k short b hb post bpost hl2
    simp only [wsOf] at this
    simp [this]

/-! ## 3. streams of unequal length -/

/-- key lemma: two fault-free streams that would deliver blocks of different lengths (one a full block
and one not — also when the shorter one ends exactly on the block boundary, delivering 0 bytes —, or two
different partial blocks): `ErrShardSize` -/
theorem C15_readShards_unequal (B : Nat) (ss : List (List Nat))
    (h : ∃ s ∈ ss, ∃ s' ∈ ss, min B s.length ≠ min B s'.length) :
    readShards (List.replicate ss.length B) (ss.map fun s => some (cleanRd s)) = .err .shardSize := by
  show readShards _ (cl ss) = _
  obtain ⟨s, hs, s', hs', hne⟩ := h
  rcases readShards_cl_inv B ss with h | ⟨_, h0⟩ | ⟨_, hfull | ⟨m, _, hm⟩⟩
  · exact h
  · rw [h0 s hs, h0 s' hs'] at hne; exact absurd rfl hne
  · have := hfull s hs; have := hfull s' hs'; omega
  · have := (hm s hs).1; have := (hm s' hs').1; omega

/-- so `readShards` returns `.ok` / `.eof` only if all `min B remaining` are equal -/
theorem C15_readShards_ok_equal (B : Nat) (ss : List (List Nat))
    (h : readShards (List.replicate ss.length B) (ss.map fun s => some (cleanRd s)) ≠ .err .shardSize) :
    ∀ s ∈ ss, ∀ s' ∈ ss, min B s.length = min B s'.length := by
  intro s hs s' hs'
  apply Decidable.by_contra
  intro hne
  exact h (C15_readShards_unequal B ss ⟨s, hs, s', hs', hne⟩)

/-- `Encode` on fault-free streams succeeds only if all streams have the same length — whatever the
block size, the codec and the writers, and wherever the shorter stream ends -/
theorem C15_unequal (C : BlockCodec) (conc : Bool) (B : Nat) (streams : List (List Nat))
    (writers : List (Option Wr)) :
    (encode C conc B (streams.map fun s => some (cleanRd s)) writers).err = none →
    ∀ s ∈ streams, ∀ s' ∈ streams, s.length = s'.length := by
  show (encode C conc B (cl streams) writers).err = none → _
  intro h
  unfold encode at h
  split at h
  · simp at h
  · rename_i hd
    split at h
    · simp at h
    · have hd' : C.d = streams.length := by simpa [cl] using (Decidable.not_not.1 hd).symm
      rw [hd'] at h
      exact encodeLoop_none_equal C conc _ B streams writers 0 h

theorem C15_unequal_verify (C : BlockCodec) (B : Nat) (streams : List (List Nat)) :
    verify C B (streams.map fun s => some (cleanRd s)) = (true, none) →
    ∀ s ∈ streams, ∀ s' ∈ streams, s.length = s'.length := by
  show verify C B (cl streams) = (true, none) → _
  intro h
  unfold verify at h
  split at h
  · simp at h
  · rename_i hd
    have hd' : C.d + C.p = streams.length := by simpa [cl] using (Decidable.not_not.1 hd).symm
    rw [hd'] at h
    exact verifyLoop_true_equal C _ B streams 0 h


/-! ## 4. / 5. / 6. stream `Split` / `Join` -/

/-- the source ends before `size` bytes: `ErrShortData` -/
theorem C15_split_short (d p : Nat) (data : List Nat) (size : Nat) (hlt : data.length < size)
    (gs : List (List Nat)) (hg : gs.length = d) :
    (split d p ⟨data, none⟩ (gs.map fun g => some (wrOf g)) size).err = some .shortData := by
  show (split d p ⟨data, none⟩ (pw gs) size).err = _
  have h0 : ¬ size = 0 := by omega
  have h1 : ¬ (pw gs).length ≠ d := by simp [pw, hg]
  have h2 : ¬ size ≤ data.length := by omega
  have hgot : (data.take size).length ≠ size := by simp; omega
  simp only [split, h0, h1, if_false, findIdx?_pw, readFull_clean, h2]
  have := split_go_short size ((size + d - 1) / d) (data.take size)
    (if data = [] then ReadOutcome.eof else ReadOutcome.unexpectedEOF) hgot gs
  rw [this]
  split <;> simp

/-- the source holds more than `size` bytes: nothing beyond position `size` reaches a writer — the
writers receive the `perShard`-blocks of `data.take size ++ zeros`, whose concatenation is
`data.take size ++ zeros (d*ps - size)` -/
theorem C15_split_surplus (d p : Nat) (hd : 0 < d) (data : List Nat) (size : Nat) (hs : 0 < size)
    (hlen : size ≤ data.length) (ps : Nat) (hps : ps = (size + d - 1) / d) :
    split d p ⟨data, none⟩ (List.replicate d (some cleanWr)) size =
      ⟨none, (blocksOf ps d (data.take size ++ List.replicate ((d + p) * ps - size) 0)).map
        fun b => some ⟨b, none, false⟩⟩ ∧
    (blocksOf ps d (data.take size ++ List.replicate ((d + p) * ps - size) 0)).flatten =
      data.take size ++ List.replicate (d * ps - size) 0 := by
  subst hps
  have hpw : List.replicate d (some cleanWr) = pw (List.replicate d []) := by simp [pw, wrOf, cleanWr]
  constructor
  · rw [hpw, split_clean d p hd data size hs hlen _ (by simp), zipWith_nil_left d _ (blocksOf_length ..)]
    simp [pw, wrOf]
  · have hl : (data.take size).length = size := by simp; omega
    have hceil := le_mul_ceil size d hd
    have hmul : (d + p) * ((size + d - 1) / d) = d * ((size + d - 1) / d) + p * ((size + d - 1) / d) :=
      Nat.add_mul ..
    rw [blocksOf_flatten, List.take_append, List.take_of_length_le (by rw [hl]; exact hceil),
      List.take_replicate, hl]
    congr 2
    omega

/-- `Join`: the first `d` fault-free streams hold fewer than `outSize` bytes: everything is copied,
then `ErrShortData` -/
theorem C15_join_short (d : Nat) (g : List Nat) (ss : List (List Nat)) (hd : ss.length = d)
    (extra : List (Option Rd)) (outSize : Nat) (hlt : ss.flatten.length < outSize) :
    join d (wrOf g) ((ss.map fun s => some (cleanRd s)) ++ extra) outSize =
      (some .shortData, wrOf (g ++ ss.flatten)) := by
  have := join_clean d g ss hd extra outSize
  simp only [cl] at this
  rw [this, List.take_of_length_le (by omega), if_pos hlt]

/-- a nil shard among the first `d`: `StreamReadError{ErrShardNoData, Stream: i}`, nothing written -/
theorem C15_join_nil (d : Nat) (dst : Wr) (pre : List Rd) (rest : List (Option Rd)) (outSize : Nat)
    (hi : pre.length < d) (hd : d ≤ pre.length + 1 + rest.length) :
    join d dst (pre.map some ++ none :: rest) outSize = (some (.readNoData pre.length), dst) := by
  have h1 : ¬ (pre.map some ++ none :: rest).length < d := by simp; omega
  have h2 : (pre.map some ++ none :: rest).take d = pre.map some ++ none :: rest.take (d - pre.length - 1) := by
    rw [List.take_append]
    have : d - (pre.map some).length = (d - pre.length - 1) + 1 := by simp; omega
    rw [this, List.take_succ_cons, List.take_of_length_le (by simp; omega)]
  have h3 : (pre.map some ++ none :: rest.take (d - pre.length - 1)).findIdx? Option.isNone = some pre.length := by
    rw [List.findIdx?_append]
    have : (pre.map some).findIdx? Option.isNone = none := by
      apply findIdx?_isNone_eq_none
      intro x hx
      obtain ⟨r, _, rfl⟩ := List.mem_map.1 hx
      rfl
    simp [this, List.findIdx?_cons]
  simp only [join, h1, if_false, h2, h3]

theorem C15_join_too_few (d : Nat) (dst : Wr) (shards : List (Option Rd)) (outSize : Nat)
    (h : shards.length < d) : join d dst shards outSize = (some .tooFewShards, dst) := by
  simp [join, h]

/-- `Split`, reader fault before `size` bytes: the reader's own error comes back unwrapped
(`rawRead`; known finding: not a `StreamReadError`) — never success -/
theorem C15_never_ok_split_read (d p : Nat) (data : List Nat) (k size : Nat) (hk : k < size)
    (hk' : k ≤ data.length) (gs : List (List Nat)) (hg : gs.length = d) :
    (split d p ⟨data, some k⟩ (gs.map fun g => some (wrOf g)) size).err = some .rawRead := by
  show (split d p ⟨data, some k⟩ (pw gs) size).err = _
  have h0 : ¬ size = 0 := by omega
  have h1 : ¬ (pw gs).length ≠ d := by simp [pw, hg]
  have hgot : (data.take k).length ≠ size := by simp; omega
  simp only [split, h0, h1, if_false, findIdx?_pw, readFull_fault data k size hk hk']
  rw [split_go_short size ((size + d - 1) / d) (data.take k) .error hgot gs]
  simp

/-- `Split`, writer `j` (lower ones fault-free, no nil writer) accepts fewer than `perShard` bytes:
the writer's own error / `io.ErrShortWrite` comes back unwrapped (`rawWrite`) -/
theorem C15_never_ok_split_write (d p : Nat) (data : List Nat) (size : Nat) (hs : 0 < size)
    (hlen : size ≤ data.length) (pre : List (List Nat)) (g : List Nat) (k : Nat) (short : Bool) (post : List Wr)
    (hd : pre.length + 1 + post.length = d) (hk : k < (size + d - 1) / d) :
    (split d p ⟨data, none⟩ ((pre.map fun g => some (wrOf g)) ++ some ⟨g, some k, short⟩ :: post.map some) size).err =
      some (.rawWrite short) := by
  show (split d p ⟨data, none⟩ (pw pre ++ _) size).err = _
  have hd0 : 0 < d := by omega
  have h0 : ¬ size = 0 := by omega
  have h1 : ¬ (pw pre ++ some (⟨g, some k, short⟩ : Wr) :: post.map some).length ≠ d := by simp [pw]; omega
  have hfind : (pw pre ++ some (⟨g, some k, short⟩ : Wr) :: post.map some).findIdx? Option.isNone = none := by
    apply findIdx?_isNone_eq_none
    intro x hx
    rcases List.mem_append.1 hx with hx | hx
    · obtain ⟨_, _, rfl⟩ := List.mem_map.1 hx; rfl
    · rcases List.mem_cons.1 hx with rfl | hx
      · rfl
      · obtain ⟨_, _, rfl⟩ := List.mem_map.1 hx; rfl
  have hceil := le_mul_ceil size d hd0
  have hmul : (d + p) * ((size + d - 1) / d) = d * ((size + d - 1) / d) + p * ((size + d - 1) / d) := Nat.add_mul ..
  have hmul2 : d * ((size + d - 1) / d) =
      pre.length * ((size + d - 1) / d) + (size + d - 1) / d + post.length * ((size + d - 1) / d) := by
    rw [← hd, Nat.add_mul, Nat.add_mul, Nat.one_mul]
  have hl : (data.take size).length = size := by simp; omega
  have hav : pre.length * ((size + d - 1) / d) + (size + d - 1) / d ≤
      (data.take size ++ List.replicate ((d + p) * ((size + d - 1) / d) - size) 0).length := by
    simp only [List.length_append, hl, List.length_replicate]
    omega
  simp only [split, h0, h1, if_false, hfind, readFull_clean, hlen, if_true]
  simp only [show ¬ (ReadOutcome.full = ReadOutcome.error) by simp, if_false]
  rw [split_go_prefix _ _ _ _ pre _ _ _ _ (by omega)]
  have hchunk : k < (List.take ((size + d - 1) / d) (List.drop (pre.length * ((size + d - 1) / d))
      (data.take size ++ List.replicate ((d + p) * ((size + d - 1) / d) - size) 0))).length := by
    simp only [List.length_take, List.length_drop]
    omega
  simp only [split.go, writeTo_limit g k short _ hchunk]

/-- `Join`, reader `i` (lower ones fault-free, all `d` present) faults before `outSize` bytes are
gathered: what was read is written, the reader's own error comes back unwrapped (`rawRead`) -/
theorem C15_never_ok_join_read (d : Nat) (g : List Nat) (pre : List (List Nat)) (data : List Nat) (k : Nat)
    (post : List Rd) (extra : List (Option Rd)) (outSize : Nat)
    (hd : pre.length + 1 + post.length = d) (hk : pre.flatten.length + k < outSize) (hk' : k ≤ data.length) :
    join d (wrOf g) ((pre.map fun s => some (cleanRd s)) ++ some ⟨data, some k⟩ :: (post.map some ++ extra)) outSize =
      (some .rawRead, wrOf (g ++ pre.flatten ++ data.take k)) := by
  show join d (wrOf g) (cl pre ++ _) outSize = _
  have h1 : ¬ (cl pre ++ some (⟨data, some k⟩ : Rd) :: (post.map some ++ extra)).length < d := by
    simp [cl]; omega
  have h2 : (cl pre ++ some (⟨data, some k⟩ : Rd) :: (post.map some ++ extra)).take d =
      cl pre ++ some ⟨data, some k⟩ :: post.map some := by
    have : d = (cl pre ++ some (⟨data, some k⟩ : Rd) :: post.map some).length := by simp [cl]; omega
    rw [this, ← List.take_left (l₁ := cl pre ++ some (⟨data, some k⟩ : Rd) :: post.map some) (l₂ := extra)]
    simp
  have hfind : (cl pre ++ some (⟨data, some k⟩ : Rd) :: post.map some).findIdx? Option.isNone = none := by
    apply findIdx?_isNone_eq_none
    intro x hx
    rcases List.mem_append.1 hx with hx | hx
    · obtain ⟨_, _, rfl⟩ := List.mem_map.1 hx; rfl
    · rcases List.mem_cons.1 hx with rfl | hx
      · rfl
      · obtain ⟨_, _, rfl⟩ := List.mem_map.1 hx; rfl
  have hneed : ¬ outSize - pre.flatten.length = 0 := by omega
  simp only [join, h1, if_false, h2, hfind, gather_prefix pre _ [] outSize (by omega), join.gather, hneed,
    readFull_fault data k _ (show k < outSize - pre.flatten.length by omega) hk', if_true, List.nil_append,
    writeTo_wrOf]
  simp

/-- `Join`, the destination accepts fewer bytes than must be written: `rawWrite` -/
theorem C15_never_ok_join_write (d : Nat) (g : List Nat) (k : Nat) (short : Bool) (ss : List (List Nat))
    (hd : ss.length = d) (extra : List (Option Rd)) (outSize : Nat)
    (hk : k < min outSize ss.flatten.length) :
    join d ⟨g, some k, short⟩ ((ss.map fun s => some (cleanRd s)) ++ extra) outSize =
      (some (.rawWrite short), ⟨g ++ (ss.flatten.take outSize).take k, some 0, short⟩) := by
  show join d _ (cl ss ++ extra) outSize = _
  have h1 : ¬ (cl ss ++ extra).length < d := by simp [cl, hd]
  have h2 : (cl ss ++ extra).take d = cl ss := by
    have : (cl ss).length = d := by simp [cl, hd]
    rw [← this, List.take_left]
  have hb : k < (ss.flatten.take outSize).length := by rw [List.length_take]; exact hk
  simp only [join, h1, if_false, h2, findIdx?_cl, gather_clean, List.nil_append, writeTo_limit g k short _ hb]


/-! ## non-vacuity: concrete runs (2 data + 1 xor parity toy codec `toy`, block size 2) -/

/-- an instance of the any-block reader-fault theorem -/
example : (encode toy false 2 [some (cleanRd [1, 2, 3, 4, 5]), some ⟨[6, 7, 8, 9, 10], some 3⟩] [some (wrOf [])]).err
    = some (.read 1) :=
  C15_read_error_encode_any toy toy_encLocal false 2 5 3 (by decide) (by decide) [[1, 2, 3, 4, 5]] [] [6, 7, 8, 9, 10]
    rfl (by decide) (by decide) rfl [[]] rfl
example : encode toy false 2 [some (cleanRd [1, 2, 3, 4, 5]), some ⟨[6, 7, 8, 9, 10], some 3⟩] [some cleanWr]
    = ⟨some (.read 1), [some ⟨[7, 5], none, false⟩]⟩ := by decide
example : verify toy 2 [some (cleanRd [1, 2, 3, 4, 5]), some ⟨[6, 7, 8, 9, 10], some 3⟩, some (cleanRd [7, 5, 11, 13, 15])]
    = (false, some (.read 1)) := by decide
example : encode toy false 2 [some (cleanRd [1, 2, 3, 4, 5]), some (cleanRd [6, 7, 8, 9, 10])] [some ⟨[], some 3, true⟩]
    = ⟨some (.write 0 true), [some ⟨[7, 5, 11], some 0, true⟩]⟩ := by decide
example : encode toy true 2 [some (cleanRd [1, 2, 3, 4, 5]), some (cleanRd [6, 7, 8, 9, 10])] [some ⟨[], some 3, false⟩]
    = ⟨some (.write 0 false), [some ⟨[7, 5, 11], some 0, false⟩]⟩ := by decide
example : writeShards false [some (wrOf []), some ⟨[], some 1, true⟩, some (wrOf [])] [[1, 2], [3, 4], [5, 6]] 0 []
    = ([some (wrOf [1, 2]), some ⟨[3], some 0, true⟩, some (wrOf [])], some (.write 1 true)) := by decide
example : writeShards true [some (wrOf []), some ⟨[], some 1, true⟩, some (wrOf [])] [[1, 2], [3, 4], [5, 6]] 0 []
    = ([some (wrOf [1, 2]), some ⟨[3], some 0, true⟩, some (wrOf [5, 6])], some (.write 1 true)) := by decide
/-- the shorter stream ends exactly on a block boundary (4 = 2·2) next to a longer one -/
example : encode toy true 2 [some (cleanRd [1, 2, 3, 4]), some (cleanRd [6, 7, 8, 9, 10])] [some cleanWr]
    = ⟨some .shardSize, [some ⟨[7, 5, 11, 13], none, false⟩]⟩ := by decide
/-- the shorter stream ends inside a block -/
example : encode toy false 2 [some (cleanRd [1, 2, 3, 4, 5]), some (cleanRd [6, 7, 8])] [some cleanWr]
    = ⟨some .shardSize, [some ⟨[7, 5], none, false⟩]⟩ := by decide
example : encode toy false 2 [some (cleanRd [1, 2, 3, 4, 5]), some (cleanRd [])] [some cleanWr]
    = ⟨some .shardSize, [some cleanWr]⟩ := by decide
example : verify toy 2 [some (cleanRd [1, 2, 3, 4]), some (cleanRd [6, 7, 8, 9]), some (cleanRd [7, 5, 11, 13, 15])]
    = (false, some .shardSize) := by decide
example : split 2 1 ⟨[1, 2, 3], none⟩ [some cleanWr, some cleanWr] 5
    = ⟨some .shortData, [some ⟨[1, 2, 3], none, false⟩, some ⟨[0, 0, 0], none, false⟩]⟩ := by decide
example : split 2 1 ⟨[1, 2, 3, 4, 5, 6, 7], none⟩ [some cleanWr, some cleanWr] 5
    = ⟨none, [some ⟨[1, 2, 3], none, false⟩, some ⟨[4, 5, 0], none, false⟩]⟩ := by decide
example : join 2 cleanWr [some (cleanRd [1, 2, 3]), some (cleanRd [4, 5, 0])] 7
    = (some .shortData, ⟨[1, 2, 3, 4, 5, 0], none, false⟩) := by decide
example : join 2 cleanWr [some (cleanRd [1, 2, 3]), none, some (cleanRd [4, 5, 0])] 5
    = (some (.readNoData 1), cleanWr) := by decide
example : join 3 cleanWr [some (cleanRd [1, 2, 3]), some (cleanRd [4, 5, 0])] 5
    = (some .tooFewShards, cleanWr) := by decide
example : split 2 1 ⟨[1, 2, 3, 4, 5], some 4⟩ [some cleanWr, some cleanWr] 5
    = ⟨some .rawRead, [some ⟨[1, 2, 3], none, false⟩, some ⟨[4], none, false⟩]⟩ := by decide
example : split 2 1 ⟨[1, 2, 3, 4, 5], none⟩ [some cleanWr, some ⟨[], some 1, true⟩] 5
    = ⟨some (.rawWrite true), [some ⟨[1, 2, 3], none, false⟩, some ⟨[4], some 0, true⟩]⟩ := by decide
example : join 2 cleanWr [some (cleanRd [1, 2, 3]), some ⟨[4, 5, 0], some 1⟩] 5
    = (some .rawRead, ⟨[1, 2, 3, 4], none, false⟩) := by decide
example : join 2 ⟨[], some 4, false⟩ [some (cleanRd [1, 2, 3]), some (cleanRd [4, 5, 0])] 5
    = (some (.rawWrite false), ⟨[1, 2, 3, 4], some 0, false⟩) := by decide

/-! ## axioms -/
#print axioms C15_readFull_fault
#print axioms C15_read_error
#print axioms C15_read_error_full
#print axioms C15_read_error_encode
#print axioms C15_read_error_verify
#print axioms C15_read_error_reconstruct
#print axioms C15_read_error_never_ok
#print axioms C15_read_error_encode_any
#print axioms C15_read_error_verify_any
#print axioms C15_write_error_seq
#print axioms C15_write_error_conc
#print axioms C15_short_write
#print axioms C15_write_error_encodeLoop
#print axioms C15_readShards_unequal
#print axioms C15_readShards_ok_equal
#print axioms C15_unequal
#print axioms C15_unequal_verify
#print axioms C15_split_short
#print axioms C15_split_surplus
#print axioms C15_join_short
#print axioms C15_join_nil
#print axioms C15_join_too_few
#print axioms C15_never_ok_split_read
#print axioms C15_never_ok_split_write
#print axioms C15_never_ok_join_read
#print axioms C15_never_ok_join_write

end RSV.Props.C15
